/-
Proofs/NTheory.lean — helper lemmas and main theorems for C19: the functions of
Model/NTheory.lean (2-adic inverse / inverse square root / square roots, continued fractions,
rounded division, sieve) satisfy their defining equations.
-/
import ParanoidModel.Model.NTheory
import Mathlib.Tactic.Ring
import Mathlib.Tactic.Linarith
import Mathlib.Tactic.LinearCombination
import Mathlib.Data.Nat.ModEq
import Mathlib.Data.Int.ModEq
import Mathlib.Algebra.Order.Ring.Abs
import Mathlib.Data.Nat.Prime.Defs
import Mathlib.Data.Nat.Sqrt

namespace Paranoid.NT

theorem two_pow_pos_int (t : Nat) : (0 : Int) < 2 ^ t := by positivity

theorem fMod2exp_cast (x : Int) (t : Nat) : ((fMod2exp x t : Nat) : Int) = x % 2 ^ t := by
  unfold fMod2exp
  exact Int.toNat_of_nonneg (Int.emod_nonneg _ (ne_of_gt (two_pow_pos_int t)))

theorem fMod2exp_lt (x : Int) (t : Nat) : fMod2exp x t < 2 ^ t := by
  have h := Int.emod_lt_of_pos x (two_pow_pos_int t)
  rw [← fMod2exp_cast] at h
  exact_mod_cast h

theorem dvd_fMod2exp_sub (x : Int) (t : Nat) : (2 : Int) ^ t ∣ (fMod2exp x t : Int) - x := by
  rw [fMod2exp_cast]
  have := Int.emod_add_mul_ediv x (2 ^ t)
  exact ⟨-(x / 2 ^ t), by linarith⟩

/-- Nat congruence from Int divisibility. -/
theorem modEq_of_int_dvd {a b m : Nat} (h : (m : Int) ∣ (a : Int) - b) : a ≡ b [MOD m] := by
  apply (Nat.modEq_iff_dvd).2
  have : (b : Int) - a = -((a : Int) - b) := by ring
  rw [this]
  exact Int.dvd_neg.2 h

theorem int_dvd_of_modEq {a b m : Nat} (h : a ≡ b [MOD m]) : (m : Int) ∣ (a : Int) - b := by
  have := (Nat.modEq_iff_dvd).1 h
  have e : (a : Int) - b = -((b : Int) - a) := by ring
  rw [e]
  exact Int.dvd_neg.2 this

/-! ### Inverse2exp -/

theorem inv2Step_spec (n a t t' : Nat) (ht : t' ≤ 2 * t)
    (h : (2 : Int) ^ t ∣ (a : Int) * n - 1) :
    (2 : Int) ^ t' ∣ (inv2Step n a t' : Int) * n - 1 := by
  unfold inv2Step
  obtain ⟨c, hc⟩ := h
  obtain ⟨d, hd⟩ := dvd_fMod2exp_sub ((a : Int) * (2 - (a : Int) * n)) t'
  obtain ⟨e, he⟩ : (2 : Int) ^ t' ∣ (2 : Int) ^ (2 * t) := pow_dvd_pow 2 ht
  have h2 : (2 : Int) ^ (2 * t) = 2 ^ t * 2 ^ t := by rw [two_mul, pow_add]
  refine ⟨d * n - c * c * e, ?_⟩
  linear_combination (n : Int) * hd - ((a : Int) * n - 1 + 2 ^ t * c) * hc + c * c * h2 - c * c * he

theorem inverse2expLoop_spec (n k : Nat) : ∀ (fuel t a : Nat), 1 ≤ t → k < fuel + t →
    (2 : Int) ^ t ∣ (a : Int) * n - 1 →
    (2 : Int) ^ k ∣ (inverse2expLoop n k fuel t a : Int) * n - 1
  | 0, t, a, _, hk, h => by
    unfold inverse2expLoop
    exact dvd_trans (pow_dvd_pow 2 (by omega)) h
  | fuel + 1, t, a, ht, hk, h => by
    unfold inverse2expLoop
    split
    · apply inverse2expLoop_spec n k fuel _ _ (by omega) (by omega)
      exact inv2Step_spec n a t _ (by omega) h
    · exact dvd_trans (pow_dvd_pow 2 (by omega)) h

theorem inverse2expLoop_lt (n k : Nat) : ∀ (fuel t a : Nat), 1 ≤ t → t ≤ k → k < fuel + t → a < 2 ^ t →
    inverse2expLoop n k fuel t a < 2 ^ k
  | 0, t, a, _, hle, hk, _ => by omega
  | fuel + 1, t, a, ht, hle, hk, h => by
    unfold inverse2expLoop
    split
    · apply inverse2expLoop_lt n k fuel _ _ (by omega) (by omega) (by omega)
      exact fMod2exp_lt _ _
    · have : t = k := by omega
      subst this; exact h

theorem inverse2exp_base (n : Nat) (h : n % 2 = 1) : (2 : Int) ^ 2 ∣ ((n % 4 : Nat) : Int) * n - 1 := by
  have h4 : (2 : Int) ^ 2 = 4 := by norm_num
  rw [h4]
  have : n % 4 = 1 ∨ n % 4 = 3 := by omega
  rcases this with e | e <;> rw [e] <;> push_cast <;> omega

/-- `Inverse2exp` returns `None` exactly for even `n`. -/
theorem inverse2exp_eq_none_iff (n k : Nat) : inverse2exp n k = none ↔ n % 2 = 0 := by
  unfold inverse2exp
  split <;> simp_all

/-- for odd `n` the result is an inverse of `n` modulo `2^k` (every `k`). -/
theorem inverse2exp_correct (n k a : Nat) (h : inverse2exp n k = some a) :
    n % 2 = 1 ∧ a * n ≡ 1 [MOD 2 ^ k] := by
  unfold inverse2exp at h
  split at h
  · simp at h
  · rename_i hn
    have hodd : n % 2 = 1 := by omega
    simp only [Option.some.injEq] at h
    subst h
    refine ⟨hodd, ?_⟩
    apply modEq_of_int_dvd
    push_cast
    exact inverse2expLoop_spec n k (k + 1) 2 (n % 4) (by omega) (by omega) (inverse2exp_base n hodd)

/-- for `k ≥ 2` the result is reduced modulo `2^k`. -/
theorem inverse2exp_lt (n k a : Nat) (hk : 2 ≤ k) (h : inverse2exp n k = some a) : a < 2 ^ k := by
  unfold inverse2exp at h
  split at h
  · simp at h
  · simp only [Option.some.injEq] at h
    subst h
    apply inverse2expLoop_lt n k (k + 1) 2 (n % 4) (by omega) hk (by omega)
    have : n % 4 < 4 := Nat.mod_lt _ (by omega)
    simpa using this

/-! ### InverseSqrt2exp -/

/-- one Newton step for the inverse square root: precision `t ≥ 1` goes to `t' ≤ 2t - 2`. -/
theorem invSqrtStep_spec (n a t t' : Nat) (h1 : 1 ≤ t) (ht : t' + 2 ≤ 2 * t)
    (h : (2 : Int) ^ t ∣ (a : Int) * a * n - 1) :
    (2 : Int) ^ t' ∣ (invSqrtStep n a t' : Int) * (invSqrtStep n a t' : Int) * n - 1 := by
  unfold invSqrtStep
  obtain ⟨t0, rfl⟩ : ∃ t0, t = t0 + 1 := ⟨t - 1, by omega⟩
  obtain ⟨c, hc⟩ := h
  -- a*a*n - 1 = 2 * hh with hh = 2^t0 * c
  have hx : (a : Int) * (3 - (a : Int) * a * n) / 2 = a * (1 - 2 ^ t0 * c) := by
    have : (a : Int) * (3 - (a : Int) * a * n) = 2 * (a * (1 - 2 ^ t0 * c)) := by
      have e : (2 : Int) ^ (t0 + 1) = 2 * 2 ^ t0 := by rw [pow_succ]; ring
      rw [e] at hc
      linear_combination (-(a : Int)) * hc
    rw [this]
    exact Int.mul_ediv_cancel_left _ (by norm_num)
  rw [hx]
  obtain ⟨d, hd⟩ := dvd_fMod2exp_sub ((a : Int) * (1 - 2 ^ t0 * c)) t'
  obtain ⟨e, he⟩ : (2 : Int) ^ t' ∣ (2 : Int) ^ (2 * t0) := pow_dvd_pow 2 (by omega)
  have h2 : (2 : Int) ^ (2 * t0) = 2 ^ t0 * 2 ^ t0 := by rw [two_mul, pow_add]
  have e1 : (2 : Int) ^ (t0 + 1) = 2 * 2 ^ t0 := by rw [pow_succ]; ring
  rw [e1] at hc
  generalize (fMod2exp ((a : Int) * (1 - 2 ^ t0 * c)) t' : Int) = y at hd ⊢
  generalize (2 : Int) ^ t0 = T at *
  generalize (2 : Int) ^ t' = M at *
  generalize (2 : Int) ^ (2 * t0) = T2 at *
  -- y = x + M d, x = a (1 - T c), a a n = 1 + 2 T c, T2 = T T = M e
  -- x x n - 1 = (1 + 2Tc)(1 - Tc)^2 - 1 = T T c c (2 T c - 3)
  refine ⟨d * (y + a * (1 - T * c)) * n + e * c * c * (2 * T * c - 3), ?_⟩
  linear_combination (y + a * (1 - T * c)) * n * hd + (1 - T * c) * (1 - T * c) * hc
    + c * c * (2 * T * c - 3) * (he - h2)

theorem inverseSqrt2expLoop_spec (n k : Nat) : ∀ (fuel t a : Nat), 3 ≤ t → k < fuel + t →
    (2 : Int) ^ t ∣ (a : Int) * a * n - 1 →
    (2 : Int) ^ k ∣ (inverseSqrt2expLoop n k fuel t a : Int) * (inverseSqrt2expLoop n k fuel t a : Int) * n - 1
  | 0, t, a, _, hk, h => by
    unfold inverseSqrt2expLoop
    exact dvd_trans (pow_dvd_pow 2 (by omega)) h
  | fuel + 1, t, a, ht, hk, h => by
    unfold inverseSqrt2expLoop
    split
    · apply inverseSqrt2expLoop_spec n k fuel _ _ (by omega) (by omega)
      exact invSqrtStep_spec n a t _ (by omega) (by omega) h
    · exact dvd_trans (pow_dvd_pow 2 (by omega)) h

theorem inverseSqrt2expLoop_lt (n k : Nat) : ∀ (fuel t a : Nat), 3 ≤ t → t ≤ k → k < fuel + t →
    a < 2 ^ t → inverseSqrt2expLoop n k fuel t a < 2 ^ k
  | 0, t, a, _, hle, hk, _ => by omega
  | fuel + 1, t, a, ht, hle, hk, h => by
    unfold inverseSqrt2expLoop
    split
    · apply inverseSqrt2expLoop_lt n k fuel _ _ (by omega) (by omega) (by omega)
      exact fMod2exp_lt _ _
    · have : t = k := by omega
      subst this; exact h

/-- `x ≡ 1 (mod 2^k)` as a plain remainder, `k ≥ 1`. -/
theorem mod_eq_one_of_int_dvd {x k : Nat} (hk : 1 ≤ k) (h : (2 : Int) ^ k ∣ (x : Int) - 1) :
    x % 2 ^ k = 1 := by
  have h1 : x ≡ 1 [MOD 2 ^ k] := by
    apply modEq_of_int_dvd; push_cast; exact h
  have h2 : 1 < 2 ^ k := Nat.one_lt_two_pow (by omega)
  unfold Nat.ModEq at h1
  rw [h1, Nat.mod_eq_of_lt h2]

/-- an odd square times `n` is `≡ 1 (mod 8)` only if `n ≡ 1 (mod 8)`. -/
theorem mod8_of_sq_mul (a n : Nat) (h : a * a * n % 8 = 1) : n % 8 = 1 := by
  have key : ∀ x < 8, ∀ y < 8, x * x * y % 8 = 1 → y = 1 := by decide
  have e : (a % 8) * (a % 8) * (n % 8) ≡ a * a * n [MOD 8] :=
    ((Nat.mod_modEq a 8).mul (Nat.mod_modEq a 8)).mul (Nat.mod_modEq n 8)
  unfold Nat.ModEq at e
  rw [h] at e
  exact key _ (Nat.mod_lt _ (by omega)) _ (Nat.mod_lt _ (by omega)) e

theorem mod8_of_mod_two_pow {x k : Nat} (hk : 3 ≤ k) (h : x % 2 ^ k = 1) : x % 8 = 1 := by
  have hd : 8 ∣ 2 ^ k := by
    have : (8 : Nat) = 2 ^ 3 := by norm_num
    rw [this]; exact pow_dvd_pow 2 hk
  have := Nat.mod_mod_of_dvd x hd
  rw [h] at this
  omega

/-- soundness, every `k`: a returned value satisfies the docstring's equation literally. -/
theorem inverseSqrt2exp_sound (n k a : Nat) (h : inverseSqrt2exp n k = some a) :
    a * a * n % 2 ^ k = 1 := by
  unfold inverseSqrt2exp at h
  split at h
  · have := List.find?_some h
    simpa using this
  · rename_i hk
    split at h
    · simp at h
    · rename_i h8
      simp only [Option.some.injEq] at h
      subst h
      have h8' : n % 8 = 1 := by omega
      have base : (2 : Int) ^ 3 ∣ ((1 : Nat) : Int) * ((1 : Nat) : Int) * n - 1 := by
        have : (2 : Int) ^ 3 = 8 := by norm_num
        rw [this]; push_cast; omega
      have := inverseSqrt2expLoop_spec n k (k + 1) 3 1 (by omega) (by omega) base
      apply mod_eq_one_of_int_dvd (by omega)
      push_cast
      exact this

theorem sq_mul_mod (a n m : Nat) : (a % m) * (a % m) * n % m = a * a * n % m :=
  ((Nat.mod_modEq a m).mul (Nat.mod_modEq a m)).mul (Nat.ModEq.refl n)

/-- completeness, every `k`: `None` is returned only if the equation has no solution. -/
theorem inverseSqrt2exp_none (n k : Nat) (h : inverseSqrt2exp n k = none) (a : Nat) :
    a * a * n % 2 ^ k ≠ 1 := by
  unfold inverseSqrt2exp at h
  split at h
  · rw [List.find?_eq_none] at h
    have hm : a % 2 ^ k ∈ List.range (2 ^ k) :=
      List.mem_range.2 (Nat.mod_lt _ (Nat.two_pow_pos k))
    have := h _ hm
    rw [← sq_mul_mod]
    simpa using this
  · rename_i hk
    split at h
    · rename_i h8
      intro hc
      exact h8 (mod8_of_sq_mul a n (mod8_of_mod_two_pow (by omega) hc))
    · simp at h

theorem inverseSqrt2exp_none_iff (n k : Nat) :
    inverseSqrt2exp n k = none ↔ ∀ a, a * a * n % 2 ^ k ≠ 1 := by
  constructor
  · exact inverseSqrt2exp_none n k
  · intro h
    cases hr : inverseSqrt2exp n k with
    | none => rfl
    | some a => exact absurd (inverseSqrt2exp_sound n k a hr) (h a)

/-- for `k ≥ 3` a value is returned exactly when `n ≡ 1 (mod 8)`. -/
theorem inverseSqrt2exp_isSome_iff (n k : Nat) (hk : 3 ≤ k) :
    (inverseSqrt2exp n k).isSome = true ↔ n % 8 = 1 := by
  unfold inverseSqrt2exp
  have : ¬ k < 3 := by omega
  simp only [this, if_false]
  split <;> simp_all

/-- `k = 0`: `a*a*n % 1 == 1` is never true, so `None` is returned although every `a` is a
solution modulo `2^0 = 1`. -/
theorem inverseSqrt2exp_zero (n : Nat) : inverseSqrt2exp n 0 = none := by
  rw [inverseSqrt2exp_none_iff]
  intro a; simp [Nat.mod_one]

/-- for `k ≥ 3` the result is reduced modulo `2^k`. -/
theorem inverseSqrt2exp_lt (n k a : Nat) (h : inverseSqrt2exp n k = some a) : a < 2 ^ k ∨ k = 0 := by
  unfold inverseSqrt2exp at h
  split at h
  · have := List.mem_of_find?_eq_some h
    exact Or.inl (List.mem_range.1 this)
  · split at h
    · simp at h
    · simp only [Option.some.injEq] at h
      subst h
      left
      apply inverseSqrt2expLoop_lt n k (k + 1) 3 1 (by omega) (by omega) (by omega)
      norm_num

/-! ### Sqrt2exp -/

theorem odd_of_sq_odd (x : Int) (h : (x * x) % 2 = 1) : x % 2 = 1 := by
  rcases Int.emod_two_eq_zero_or_one x with h0 | h1
  · exfalso
    have e : x = 2 * (x / 2) := by omega
    have : x * x = 2 * ((x / 2) * x) := by
      calc x * x = (2 * (x / 2)) * x := by rw [← e]
        _ = 2 * ((x / 2) * x) := by ring
    omega
  · exact h1

/-- an odd factor can be cancelled from a multiple of `2^j`. -/
theorem two_pow_dvd_of_odd_mul : ∀ (j : Nat) (u v : Int), u % 2 = 1 →
    (2 : Int) ^ j ∣ u * v → (2 : Int) ^ j ∣ v
  | 0, _, _, _, _ => by simp
  | j + 1, u, v, hu, h => by
    obtain ⟨c, hc⟩ := h
    have eu : u = 2 * (u / 2) + 1 := by omega
    have hp : (2 : Int) ^ (j + 1) = 2 * 2 ^ j := by rw [pow_succ]; ring
    -- v is even
    have ev : v = 2 * (2 ^ j * c - (u / 2) * v) := by
      have : u * v = 2 * ((u / 2) * v) + v := by
        calc u * v = (2 * (u / 2) + 1) * v := by rw [← eu]
          _ = _ := by ring
      rw [this, hp] at hc
      linear_combination hc
    generalize 2 ^ j * c - (u / 2) * v = w at ev
    subst ev
    have h2 : (2 : Int) ^ j ∣ u * w := by
      refine ⟨c, ?_⟩
      rw [hp] at hc
      have : 2 * (u * w) = 2 * (2 ^ j * c) := by linear_combination hc
      exact Int.eq_of_mul_eq_mul_left (by norm_num) this
    obtain ⟨d, hd⟩ := two_pow_dvd_of_odd_mul j u w hu h2
    exact ⟨d, by rw [hp, hd]; ring⟩

/-- the square roots of an odd square modulo `2^(j+2)`: `±r` and `2^(j+1) ± r`. -/
theorem sqrt_four_cases (j : Nat) (x r : Int) (hx : x % 2 = 1) (hr : r % 2 = 1)
    (h : (2 : Int) ^ (j + 2) ∣ x * x - r * r) :
    (2 : Int) ^ (j + 2) ∣ x - r ∨ (2 : Int) ^ (j + 2) ∣ x + r ∨
    (2 : Int) ^ (j + 2) ∣ x - (2 ^ (j + 1) - r) ∨ (2 : Int) ^ (j + 2) ∣ x - (2 ^ (j + 1) + r) := by
  have hp2 : (2 : Int) ^ (j + 2) = 4 * 2 ^ j := by rw [pow_add]; ring
  have hp1 : (2 : Int) ^ (j + 1) = 2 * 2 ^ j := by rw [pow_succ]; ring
  rw [hp2, hp1]
  rw [hp2] at h
  have ex : x = 2 * (x / 2) + 1 := by omega
  have er : r = 2 * (r / 2) + 1 := by omega
  generalize x / 2 = i at ex
  generalize r / 2 = l at er
  subst ex er
  -- u = i - l, v = i + l + 1
  have huv : (2 : Int) ^ j ∣ (i - l) * (i + l + 1) := by
    obtain ⟨c, hc⟩ := h
    refine ⟨c, ?_⟩
    have : 4 * ((i - l) * (i + l + 1)) = 4 * (2 ^ j * c) := by linear_combination hc
    exact Int.eq_of_mul_eq_mul_left (by norm_num) this
  rcases Int.emod_two_eq_zero_or_one (i - l) with hu | hu
  · -- v odd, so Q ∣ u
    have hv : (i + l + 1) % 2 = 1 := by omega
    rw [mul_comm] at huv
    obtain ⟨w, hw⟩ := two_pow_dvd_of_odd_mul j _ _ hv huv
    rcases Int.emod_two_eq_zero_or_one w with h0 | h1
    · left
      refine ⟨w / 2, ?_⟩
      have : w = 2 * (w / 2) := by omega
      linear_combination 2 * hw + 2 * 2 ^ j * this
    · right; right; right
      refine ⟨w / 2, ?_⟩
      have : w = 2 * (w / 2) + 1 := by omega
      linear_combination 2 * hw + 2 * 2 ^ j * this
  · obtain ⟨w, hw⟩ := two_pow_dvd_of_odd_mul j _ _ hu huv
    rcases Int.emod_two_eq_zero_or_one w with h0 | h1
    · right; left
      refine ⟨w / 2, ?_⟩
      have : w = 2 * (w / 2) := by omega
      linear_combination 2 * hw + 2 * 2 ^ j * this
    · right; right; left
      refine ⟨w / 2, ?_⟩
      have : w = 2 * (w / 2) + 1 := by omega
      linear_combination 2 * hw + 2 * 2 ^ j * this

/-- conversely each of the four residues squares to `r²`. -/
theorem sq_cong_of_four (j : Nat) (x r : Int)
    (h : (2 : Int) ^ (j + 2) ∣ x - r ∨ (2 : Int) ^ (j + 2) ∣ x + r ∨
      (2 : Int) ^ (j + 2) ∣ x - (2 ^ (j + 1) - r) ∨ (2 : Int) ^ (j + 2) ∣ x - (2 ^ (j + 1) + r)) :
    (2 : Int) ^ (j + 2) ∣ x * x - r * r := by
  have hp2 : (2 : Int) ^ (j + 2) = 4 * 2 ^ j := by rw [pow_add]; ring
  have hp1 : (2 : Int) ^ (j + 1) = 2 * 2 ^ j := by rw [pow_succ]; ring
  rw [hp2, hp1] at h
  rw [hp2]
  rcases h with ⟨c, hc⟩ | ⟨c, hc⟩ | ⟨c, hc⟩ | ⟨c, hc⟩
  · exact ⟨c * (x + r), by linear_combination (x + r) * hc⟩
  · exact ⟨c * (x - r), by linear_combination (x - r) * hc⟩
  · refine ⟨(1 + 2 * c) * (2 ^ j - r + 2 * 2 ^ j * c), ?_⟩
    have : x = 2 * 2 ^ j - r + 4 * 2 ^ j * c := by linear_combination hc
    rw [this]; ring
  · refine ⟨(1 + 2 * c) * (2 ^ j + r + 2 * 2 ^ j * c), ?_⟩
    have : x = 2 * 2 ^ j + r + 4 * 2 ^ j * c := by linear_combination hc
    rw [this]; ring

theorem eq_of_dvd_sub_of_lt {M : Int} {x y : Nat} (h : M ∣ (x : Int) - y) (hx : (x : Int) < M)
    (hy : (y : Int) < M) : x = y := by
  have : (x : Int) - y = 0 := by
    apply Int.eq_zero_of_abs_lt_dvd h
    rw [abs_lt]; constructor <;> omega
  omega

/-- Abstract form of the last step of `Sqrt2exp`: four reduced values congruent to
`r, -r, 2^(k-1) - r, 2^(k-1) + r` (with `k = j + 3`, `r` odd, `r² ≡ n`) are pairwise distinct
and are exactly the solutions of `x² ≡ n (mod 2^k)` below `2^k`. -/
theorem four_roots (j n r y1 y2 y3 y4 : Nat) (hr : r % 2 = 1)
    (hsq : (2 : Int) ^ (j + 3) ∣ (r : Int) * r - n)
    (b1 : y1 < 2 ^ (j + 3)) (b2 : y2 < 2 ^ (j + 3)) (b3 : y3 < 2 ^ (j + 3)) (b4 : y4 < 2 ^ (j + 3))
    (c1 : (2 : Int) ^ (j + 3) ∣ (y1 : Int) - r) (c2 : (2 : Int) ^ (j + 3) ∣ (y2 : Int) + r)
    (c3 : (2 : Int) ^ (j + 3) ∣ (y3 : Int) - (2 ^ (j + 2) - r))
    (c4 : (2 : Int) ^ (j + 3) ∣ (y4 : Int) - (2 ^ (j + 2) + r)) :
    (∀ x ∈ [y1, y2, y3, y4], x * x ≡ n [MOD 2 ^ (j + 3)]) ∧ [y1, y2, y3, y4].Nodup ∧
    (∀ x, x < 2 ^ (j + 3) → x * x ≡ n [MOD 2 ^ (j + 3)] → x ∈ [y1, y2, y3, y4]) := by
  have sound : ∀ y : Nat, ((2 : Int) ^ (j + 1 + 2) ∣ (y : Int) - r ∨ (2 : Int) ^ (j + 1 + 2) ∣ (y : Int) + r ∨
      (2 : Int) ^ (j + 1 + 2) ∣ (y : Int) - (2 ^ (j + 1 + 1) - r) ∨
      (2 : Int) ^ (j + 1 + 2) ∣ (y : Int) - (2 ^ (j + 1 + 1) + r)) → y * y ≡ n [MOD 2 ^ (j + 3)] := by
    intro y hy
    have h1 := sq_cong_of_four (j + 1) y r hy
    apply modEq_of_int_dvd
    push_cast
    have : (y : Int) * y - n = ((y : Int) * y - r * r) + ((r : Int) * r - n) := by ring
    rw [this]
    exact Int.dvd_add h1 hsq
  refine ⟨?_, ?_, ?_⟩
  · intro x hx
    simp only [List.mem_cons, List.not_mem_nil, or_false] at hx
    rcases hx with rfl | rfl | rfl | rfl
    · exact sound _ (Or.inl c1)
    · exact sound _ (Or.inr (Or.inl c2))
    · exact sound _ (Or.inr (Or.inr (Or.inl c3)))
    · exact sound _ (Or.inr (Or.inr (Or.inr c4)))
  · -- distinctness: differences of the residues are not divisible by 2^(j+3) = 8·2^j
    have hp3 : (2 : Int) ^ (j + 3) = 8 * 2 ^ j := by rw [pow_add]; ring
    have hp2 : (2 : Int) ^ (j + 2) = 4 * 2 ^ j := by rw [pow_add]; ring
    have hQ : (0 : Int) < 2 ^ j := by positivity
    rw [hp3] at c1 c2 c3 c4
    rw [hp2] at c3 c4
    have four : ∀ z : Int, 8 * (2 : Int) ^ j ∣ z → (4 : Int) ∣ z := by
      intro z ⟨c, hc⟩; exact ⟨2 * 2 ^ j * c, by rw [hc]; ring⟩
    have nH : ∀ z : Int, 8 * (2 : Int) ^ j ∣ z → z ≠ 4 * 2 ^ j ∧ z ≠ -(4 * 2 ^ j) := by
      intro z hz
      constructor
      · intro e; subst e
        have := Int.le_of_dvd (by linarith) hz
        linarith
      · intro e; subst e
        have := Int.le_of_dvd (by linarith) (Int.dvd_neg.1 hz)
        linarith
    generalize (2 : Int) ^ j = Q at *
    simp only [List.nodup_cons, List.mem_cons, List.not_mem_nil, or_false, not_or,
      List.nodup_nil, and_true, not_false_eq_true]
    refine ⟨⟨?_, ?_, ?_⟩, ⟨?_, ?_⟩, ?_⟩
    · intro e; subst e
      have := four _ (Int.dvd_sub c2 c1)
      omega
    · intro e; subst e
      have := four _ (Int.dvd_sub c1 c3)
      omega
    · intro e; subst e
      have := (nH _ (Int.dvd_sub c1 c4)).1
      apply this; ring
    · intro e; subst e
      have := (nH _ (Int.dvd_sub c2 c3)).1
      apply this; ring
    · intro e; subst e
      have := four _ (Int.dvd_sub c2 c4)
      omega
    · intro e; subst e
      have := four _ (Int.dvd_sub c3 c4)
      omega
  · intro x hx hxn
    have hd := int_dvd_of_modEq hxn
    push_cast at hd
    have hM : (2 : Int) ^ (j + 3) = 2 * 2 ^ (j + 2) := by rw [pow_succ]; ring
    have hn : (n : Int) % 2 = 1 := by
      obtain ⟨c, hc⟩ := hsq
      rw [hM, mul_assoc] at hc
      have h1 : ((r : Int) * r) % 2 = 1 := by
        have : (r : Int) % 2 = 1 := by omega
        rw [Int.mul_emod, this]; norm_num
      omega
    have hxodd : (x : Int) % 2 = 1 := by
      apply odd_of_sq_odd
      obtain ⟨c, hc⟩ := hd
      rw [hM, mul_assoc] at hc
      omega
    have hrodd : (r : Int) % 2 = 1 := by omega
    have h2 : (2 : Int) ^ (j + 1 + 2) ∣ (x : Int) * x - r * r := by
      have : (x : Int) * x - r * r = ((x : Int) * x - n) - ((r : Int) * r - n) := by ring
      rw [this]
      exact Int.dvd_sub hd hsq
    have hxlt : (x : Int) < 2 ^ (j + 3) := by exact_mod_cast hx
    have l1 : (y1 : Int) < 2 ^ (j + 3) := by exact_mod_cast b1
    have l2 : (y2 : Int) < 2 ^ (j + 3) := by exact_mod_cast b2
    have l3 : (y3 : Int) < 2 ^ (j + 3) := by exact_mod_cast b3
    have l4 : (y4 : Int) < 2 ^ (j + 3) := by exact_mod_cast b4
    simp only [List.mem_cons, List.not_mem_nil, or_false]
    rcases sqrt_four_cases (j + 1) x r hxodd hrodd h2 with h | h | h | h
    · left
      apply eq_of_dvd_sub_of_lt _ hxlt l1
      have : (x : Int) - y1 = ((x : Int) - r) - ((y1 : Int) - r) := by ring
      rw [this]; exact Int.dvd_sub h c1
    · right; left
      apply eq_of_dvd_sub_of_lt _ hxlt l2
      have : (x : Int) - y2 = ((x : Int) + r) - ((y2 : Int) + r) := by ring
      rw [this]; exact Int.dvd_sub h c2
    · right; right; left
      apply eq_of_dvd_sub_of_lt _ hxlt l3
      have : (x : Int) - y3 = ((x : Int) - (2 ^ (j + 1 + 1) - r)) - ((y3 : Int) - (2 ^ (j + 2) - r)) := by ring
      rw [this]; exact Int.dvd_sub h c3
    · right; right; right
      apply eq_of_dvd_sub_of_lt _ hxlt l4
      have : (x : Int) - y4 = ((x : Int) - (2 ^ (j + 1 + 1) + r)) - ((y4 : Int) - (2 ^ (j + 2) + r)) := by ring
      rw [this]; exact Int.dvd_sub h c4

theorem odd_of_mul_odd {a b : Nat} (h : a * b % 2 = 1) : a % 2 = 1 ∧ b % 2 = 1 := by
  have key : ∀ x < 2, ∀ y < 2, x * y % 2 = 1 → x = 1 ∧ y = 1 := by decide
  rw [Nat.mul_mod] at h
  exact key _ (Nat.mod_lt _ (by omega)) _ (Nat.mod_lt _ (by omega)) h

theorem odd_of_mul_mod_two_pow {a b k : Nat} (hk : 1 ≤ k) (h : a * b % 2 ^ k = 1) :
    a % 2 = 1 ∧ b % 2 = 1 := by
  have hd : 2 ∣ 2 ^ k := dvd_pow_self 2 (by omega)
  have h2 := Nat.mod_mod_of_dvd (a * b) hd
  rw [h] at h2
  exact odd_of_mul_odd (by omega)

/-- `r·s ≡ 1` and `s²·n ≡ 1` give `r² ≡ n`. -/
theorem sq_of_inverse_of_invSqrt (M r s n : Int) (h1 : M ∣ r * s - 1) (h2 : M ∣ s * s * n - 1) :
    M ∣ r * r - n := by
  have : r * r - n = (-(r * r)) * (s * s * n - 1) + n * (r * s + 1) * (r * s - 1) := by ring
  rw [this]
  exact Int.dvd_add (Dvd.dvd.mul_left h2 _) (Dvd.dvd.mul_left h1 _)

/-- what a correct answer of `Sqrt2exp(n, k)` is: all residues below `2^k`, each a square
root of `n`, pairwise distinct, and no root is missing. -/
def IsAllSqrts (n k : Nat) (l : List Nat) : Prop :=
  (∀ x ∈ l, x < 2 ^ k ∧ x * x ≡ n [MOD 2 ^ k]) ∧ l.Nodup ∧
  (∀ x, x < 2 ^ k → x * x ≡ n [MOD 2 ^ k] → x ∈ l)

theorem sqrt2exp_small_pred (n k x : Nat) :
    ((((x * x : Nat) : Int) - n) % 2 ^ k == 0) = true ↔ x * x ≡ n [MOD 2 ^ k] := by
  rw [beq_iff_eq]
  constructor
  · intro h
    apply modEq_of_int_dvd
    push_cast
    exact Int.dvd_of_emod_eq_zero (by simpa using h)
  · intro h
    have := int_dvd_of_modEq h
    push_cast at this
    simpa using Int.emod_eq_zero_of_dvd this

theorem sqrt2exp_even (n k : Nat) (h : n % 2 = 0) : sqrt2exp n k = .error .valueError := by
  unfold sqrt2exp; simp [h]

theorem sq_mod8_odd (x n : Nat) (hn : n % 2 = 1) (h : x * x % 8 = n % 8) : n % 8 = 1 := by
  have key : ∀ a < 8, ∀ b < 8, b % 2 = 1 → a * a % 8 = b → b = 1 := by decide
  have e : (x % 8) * (x % 8) ≡ x * x [MOD 8] := (Nat.mod_modEq x 8).mul (Nat.mod_modEq x 8)
  unfold Nat.ModEq at e
  rw [h] at e
  exact key _ (Nat.mod_lt _ (by omega)) _ (Nat.mod_lt _ (by omega)) (by omega) e

/-- main theorem for `Sqrt2exp` on odd `n`: the result is `ok` (the `2**k - None` path is
unreachable) and it is exactly the set of square roots. -/
theorem sqrt2exp_odd (n k : Nat) (hn : n % 2 = 1) :
    ∃ l, sqrt2exp n k = .ok l ∧ IsAllSqrts n k l ∧ (3 ≤ k → l = [] ∨ l.length = 4) := by
  unfold sqrt2exp
  have hn0 : ¬ n % 2 = 0 := by omega
  simp only [hn0, if_false]
  split
  · rename_i hk
    refine ⟨_, rfl, ⟨?_, ?_, ?_⟩, fun h => by omega⟩
    · intro x hx
      rw [List.mem_filter, List.mem_range] at hx
      refine ⟨hx.1, ?_⟩
      have := hx.2
      exact (sqrt2exp_small_pred n k x).1 (by simpa using this)
    · exact List.Nodup.sublist List.filter_sublist List.nodup_range
    · intro x hx hxn
      rw [List.mem_filter, List.mem_range]
      refine ⟨hx, ?_⟩
      have := (sqrt2exp_small_pred n k x).2 hxn
      simpa using this
  · rename_i hk
    have hk3 : 3 ≤ k := by omega
    cases hs : inverseSqrt2exp n k with
    | none =>
      refine ⟨[], rfl, ⟨by simp, List.nodup_nil, ?_⟩, fun _ => Or.inl rfl⟩
      intro x hx hxn
      exfalso
      have h8 : ¬ n % 8 = 1 := by
        intro h8
        have := (inverseSqrt2exp_isSome_iff n k hk3).2 h8
        rw [hs] at this; simp at this
      apply h8
      apply sq_mod8_odd x n hn
      have hd : 8 ∣ 2 ^ k := by
        have : (8 : Nat) = 2 ^ 3 := by norm_num
        rw [this]; exact pow_dvd_pow 2 hk3
      exact (Nat.ModEq.of_dvd hd hxn)
    | some s =>
      have hs1 := inverseSqrt2exp_sound n k s hs
      have hsodd : s % 2 = 1 :=
        (odd_of_mul_odd (odd_of_mul_mod_two_pow (by omega) hs1).1).1
      have hnone : inverse2exp s k ≠ none := by
        rw [Ne, inverse2exp_eq_none_iff]; omega
      cases hr : inverse2exp s k with
      | none => exact absurd hr hnone
      | some r =>
        have ⟨_, hr1⟩ := inverse2exp_correct s k r hr
        have hrlt := inverse2exp_lt s k r (by omega) hr
        refine ⟨sqrtRoots k r, by simp only [hr], ?_, fun _ => Or.inr rfl⟩
        obtain ⟨j, rfl⟩ : ∃ j, k = j + 3 := ⟨k - 3, by omega⟩
        have hM1 : 1 < 2 ^ (j + 3) := Nat.one_lt_two_pow (by omega)
        have hr1' : r * s % 2 ^ (j + 3) = 1 := by
          unfold Nat.ModEq at hr1
          rw [hr1, Nat.mod_eq_of_lt hM1]
        have hrodd : r % 2 = 1 := (odd_of_mul_mod_two_pow (by omega) hr1').1
        have d1 : (2 : Int) ^ (j + 3) ∣ (r : Int) * s - 1 := by
          have := int_dvd_of_modEq hr1
          push_cast at this; exact this
        have d2 : (2 : Int) ^ (j + 3) ∣ (s : Int) * s * n - 1 := by
          have : s * s * n ≡ 1 [MOD 2 ^ (j + 3)] := by
            unfold Nat.ModEq; rw [hs1, Nat.mod_eq_of_lt hM1]
          have := int_dvd_of_modEq this
          push_cast at this; exact this
        have hsq := sq_of_inverse_of_invSqrt _ _ _ _ d1 d2
        have e1 : j + 3 - 1 = j + 2 := rfl
        have hrM : (r : Int) < 2 ^ (j + 3) := by exact_mod_cast hrlt
        have := four_roots j n r r (2 ^ (j + 3) - r) (fMod2exp ((2 : Int) ^ (j + 2) - r) (j + 3))
          (fMod2exp ((2 : Int) ^ (j + 2) + r) (j + 3)) hrodd hsq hrlt (by omega)
          (fMod2exp_lt _ _) (fMod2exp_lt _ _) (by simp)
          (by
            rw [Nat.cast_sub (le_of_lt hrlt)]
            push_cast
            exact ⟨1, by ring⟩)
          (dvd_fMod2exp_sub _ _) (dvd_fMod2exp_sub _ _)
        unfold sqrtRoots
        rw [e1]
        refine ⟨fun x hx => ⟨?_, this.1 x hx⟩, this.2.1, this.2.2⟩
        simp only [List.mem_cons, List.not_mem_nil, or_false] at hx
        rcases hx with rfl | rfl | rfl | rfl
        · exact hrlt
        · omega
        · exact fMod2exp_lt _ _
        · exact fMod2exp_lt _ _

/-! ### ContinuedFraction -/

/-- Specification: Euclid's quotient sequence of `a / b`. -/
def euclidQuots (a b : Nat) : List Nat :=
  if h : b = 0 then [] else a / b :: euclidQuots b (a % b)
termination_by b
decreasing_by exact Nat.mod_lt _ (Nat.pos_of_ne_zero h)

/-- Specification: the convergents `(q_i, h_i, k_i)` of a quotient list by the textbook
recurrence `h_i = h_{i-1} q_i + h_{i-2}`, `k_i = k_{i-1} q_i + k_{i-2}`, started from
`(h_{-1}, h_{-2}, k_{-1}, k_{-2}) = (r, s, t, u)`. -/
def convergents : List Nat → Nat → Nat → Nat → Nat → List (Nat × Nat × Nat)
  | [], _, _, _, _ => []
  | q :: qs, r, s, t, u => (q, r * q + s, t * q + u) :: convergents qs (r * q + s) r (t * q + u) t

theorem euclidQuots_zero (a : Nat) : euclidQuots a 0 = [] := by
  rw [euclidQuots]; simp

theorem euclidQuots_pos (a b : Nat) (h : b ≠ 0) :
    euclidQuots a b = a / b :: euclidQuots b (a % b) := by
  rw [euclidQuots]; simp [h]

/-- while `b ≤ a` the product `a·b` at least halves per step, so `fuel` with `a·b < 2^fuel`
is enough. -/
theorem cfLoop_eq : ∀ (fuel a b r s t u : Nat), b ≤ a → a * b < 2 ^ fuel →
    cfLoop fuel a b r s t u = convergents (euclidQuots a b) r s t u
  | 0, a, b, r, s, t, u, hba, hf => by
    have hb : b = 0 := by
      rcases Nat.eq_zero_or_pos b with h | h
      · exact h
      · have : 1 ≤ a * b := Nat.mul_pos (by omega) h
        simp at hf; omega
    subst hb
    rw [euclidQuots_zero]; rfl
  | fuel + 1, a, b, r, s, t, u, hba, hf => by
    unfold cfLoop
    by_cases hb : b = 0
    · subst hb; rw [euclidQuots_zero]; simp [convergents]
    · rw [if_neg hb, euclidQuots_pos a b hb]
      simp only [convergents]
      congr 1
      have hbpos : 0 < b := Nat.pos_of_ne_zero hb
      have hm : a % b < b := Nat.mod_lt _ hbpos
      apply cfLoop_eq fuel b (a % b) _ _ _ _ (le_of_lt hm)
      have h0 : a % b + b ≤ a := by
        have := Nat.div_add_mod a b
        have hq : 1 ≤ a / b := Nat.div_pos hba hbpos
        have : b * 1 ≤ b * (a / b) := Nat.mul_le_mul_left b hq
        omega
      have h1 : b * (2 * (a % b) + 1) ≤ b * a := Nat.mul_le_mul_left b (by omega)
      have e1 : b * (2 * (a % b) + 1) = 2 * (b * (a % b)) + b := by ring
      have e2 : a * b = b * a := Nat.mul_comm _ _
      have e3 : 2 ^ (fuel + 1) = 2 * 2 ^ fuel := by rw [pow_succ]; ring
      omega

theorem lt_two_pow_bitLength (b : Nat) : b < 2 ^ bitLength b := by
  unfold bitLength
  split
  · rename_i h; subst h; simp
  · exact Nat.lt_log2_self

/-- `ContinuedFraction(a, b)` is the list of Euclid's quotients together with the
convergents given by the textbook recurrence; in particular the fuel never runs out. -/
theorem continuedFraction_eq (a b : Nat) :
    continuedFraction a b = convergents (euclidQuots a b) 1 0 0 1 := by
  unfold continuedFraction
  have e : 2 * bitLength b + 2 = (2 * bitLength b + 1) + 1 := rfl
  rw [e]
  unfold cfLoop
  by_cases hb : b = 0
  · subst hb; rw [euclidQuots_zero]; simp [convergents]
  · rw [if_neg hb, euclidQuots_pos a b hb]
    simp only [convergents]
    congr 1
    have hbpos : 0 < b := Nat.pos_of_ne_zero hb
    have hm : a % b < b := Nat.mod_lt _ hbpos
    apply cfLoop_eq _ b (a % b) _ _ _ _ (le_of_lt hm)
    have hL := lt_two_pow_bitLength b
    have h1 : b * (a % b) < b * b := Nat.mul_lt_mul_of_pos_left hm hbpos
    have h2 : b * b < 2 ^ bitLength b * 2 ^ bitLength b := Nat.mul_lt_mul'' hL hL
    have e3 : 2 ^ (2 * bitLength b + 1) = 2 * (2 ^ bitLength b * 2 ^ bitLength b) := by
      rw [pow_succ, two_mul, pow_add]; ring
    omega

theorem convergents_map_fst : ∀ (qs : List Nat) (r s t u : Nat),
    (convergents qs r s t u).map (·.1) = qs
  | [], _, _, _, _ => rfl
  | q :: qs, r, s, t, u => by
    simp only [convergents, List.map_cons]
    rw [convergents_map_fst qs]

/-- consecutive convergents have determinants alternating `d, -d, d, …`: for each entry
`(q, r, t)` with predecessor `(r0, t0)`: `r·t0 − r0·t = d`. -/
def AltDet : Int → Nat → Nat → List (Nat × Nat × Nat) → Prop
  | _, _, _, [] => True
  | d, r0, t0, (_, r, t) :: rest => (r : Int) * t0 - (r0 : Int) * t = d ∧ AltDet (-d) r t rest

theorem convergents_altDet : ∀ (qs : List Nat) (r s t u : Nat),
    AltDet (-((r : Int) * u - (s : Int) * t)) r t (convergents qs r s t u)
  | [], _, _, _, _ => trivial
  | q :: qs, r, s, t, u => by
    simp only [convergents, AltDet]
    refine ⟨by push_cast; ring, ?_⟩
    have := convergents_altDet qs (r * q + s) r (t * q + u) t
    have e : -(((r * q + s : Nat) : Int) * t - (r : Int) * ((t * q + u : Nat) : Int)) =
        - -((r : Int) * u - (s : Int) * t) := by push_cast; ring
    rw [← e]; exact this

theorem altDet_coprime : ∀ (l : List (Nat × Nat × Nat)) (d : Int) (r0 t0 : Nat),
    (d = 1 ∨ d = -1) → AltDet d r0 t0 l → ∀ x ∈ l, Nat.Coprime x.2.1 x.2.2
  | [], _, _, _, _, _ => by simp
  | (q, r, t) :: rest, d, r0, t0, hd, h => by
    intro x hx
    simp only [AltDet] at h
    rcases List.mem_cons.1 hx with rfl | hx
    · show Nat.gcd r t = 1
      have hg1 : ((Nat.gcd r t : Nat) : Int) ∣ (r : Int) :=
        Int.natCast_dvd_natCast.2 (Nat.gcd_dvd_left r t)
      have hg2 : ((Nat.gcd r t : Nat) : Int) ∣ (t : Int) :=
        Int.natCast_dvd_natCast.2 (Nat.gcd_dvd_right r t)
      have hd' : ((Nat.gcd r t : Nat) : Int) ∣ d := by
        rw [← h.1]
        exact Int.dvd_sub (Dvd.dvd.mul_right hg1 _) (Dvd.dvd.mul_left hg2 _)
      have h1 : ((Nat.gcd r t : Nat) : Int) ∣ ((1 : Nat) : Int) := by
        rcases hd with rfl | rfl
        · simpa using hd'
        · simpa using Int.dvd_neg.1 hd'
      exact Nat.dvd_one.1 (Int.natCast_dvd_natCast.1 h1)
    · exact altDet_coprime rest (-d) r t (by rcases hd with rfl | rfl <;> simp) h.2 x hx

/-- indexed form: entries `i` and `i+1` satisfy `r_{i+1} t_i − r_i t_{i+1} = (−1)^i · (−d)`. -/
theorem altDet_index : ∀ (l : List (Nat × Nat × Nat)) (d : Int) (r0 t0 : Nat), AltDet d r0 t0 l →
    ∀ (i : Nat) (x y : Nat × Nat × Nat), l[i]? = some x → l[i + 1]? = some y →
      (y.2.1 : Int) * x.2.2 - (x.2.1 : Int) * y.2.2 = (-1) ^ i * (-d)
  | [], _, _, _, _, i, x, y, hx, _ => by simp at hx
  | [_], _, _, _, _, i, x, y, _, hy => by simp at hy
  | (q, r, t) :: (q', r', t') :: rest, d, r0, t0, h, i, x, y, hx, hy => by
    simp only [AltDet] at h
    cases i with
    | zero =>
      simp only [List.getElem?_cons_zero, Option.some.injEq, zero_add, List.getElem?_cons_succ] at hx hy
      subst hx hy
      simpa using h.2.1
    | succ i =>
      simp only [List.getElem?_cons_succ] at hx hy
      have := altDet_index ((q', r', t') :: rest) (-d) r t (by simp only [AltDet]; exact h.2) i x y hx hy
      rw [this, pow_succ]; ring

theorem euclidQuots_ne_nil (a b : Nat) (h : b ≠ 0) : euclidQuots a b ≠ [] := by
  rw [euclidQuots_pos a b h]; simp

theorem convergents_eq_nil {qs : List Nat} {r s t u : Nat} (h : convergents qs r s t u = []) :
    qs = [] := by
  cases qs with
  | nil => rfl
  | cons q qs => simp [convergents] at h

/-- the invariant `r·a + s·b = A`, `t·a + u·b = B` of the loop (`a, b` the current Euclid
pair) ends with `b = 0`, `a = gcd`: the last convergent is `(A/g, B/g)`. -/
theorem convergents_last (a b : Nat) : ∀ (r s t u A B : Nat), r * a + s * b = A → t * a + u * b = B →
    ∀ x, (convergents (euclidQuots a b) r s t u).getLast? = some x →
      x.2.1 * Nat.gcd a b = A ∧ x.2.2 * Nat.gcd a b = B := by
  induction b using Nat.strong_induction_on generalizing a with
  | _ b ih =>
    intro r s t u A B hA hB x hx
    by_cases hb : b = 0
    · subst hb
      rw [euclidQuots_zero] at hx
      simp [convergents] at hx
    · rw [euclidQuots_pos a b hb] at hx
      simp only [convergents] at hx
      have hbpos : 0 < b := Nat.pos_of_ne_zero hb
      have hm : a % b < b := Nat.mod_lt _ hbpos
      have hdm := Nat.div_add_mod a b
      have hA' : (r * (a / b) + s) * b + r * (a % b) = A := by
        rw [← hA]
        calc (r * (a / b) + s) * b + r * (a % b) = r * (b * (a / b) + a % b) + s * b := by ring
          _ = r * a + s * b := by rw [hdm]
      have hB' : (t * (a / b) + u) * b + t * (a % b) = B := by
        rw [← hB]
        calc (t * (a / b) + u) * b + t * (a % b) = t * (b * (a / b) + a % b) + u * b := by ring
          _ = t * a + u * b := by rw [hdm]
      have hg : Nat.gcd b (a % b) = Nat.gcd a b := by
        rw [Nat.gcd_comm a b, Nat.gcd_rec b a, Nat.gcd_comm]
      by_cases hr : a % b = 0
      · rw [hr, euclidQuots_zero] at hx
        simp only [convergents, List.getLast?_singleton, Option.some.injEq] at hx
        subst hx
        rw [hr] at hA' hB' hg
        simp only [Nat.gcd_zero_right] at hg
        rw [← hg]
        simp only [Nat.mul_zero, Nat.add_zero] at hA' hB'
        exact ⟨hA', hB'⟩
      · have hne : convergents (euclidQuots b (a % b)) (r * (a / b) + s) r (t * (a / b) + u) t ≠ [] :=
          fun h => euclidQuots_ne_nil b (a % b) hr (convergents_eq_nil h)
        rw [List.getLast?_cons_of_ne_nil hne] at hx
        have := ih (a % b) hm b _ _ _ _ A B hA' hB' x hx
        rw [hg] at this
        exact this

/-- the last triple of `ContinuedFraction(a, b)` is `a/b` in lowest terms. -/
theorem continuedFraction_last (a b : Nat) (x : Nat × Nat × Nat)
    (h : (continuedFraction a b).getLast? = some x) :
    x.2.1 * Nat.gcd a b = a ∧ x.2.2 * Nat.gcd a b = b := by
  rw [continuedFraction_eq] at h
  exact convergents_last a b 1 0 0 1 a b (by ring) (by ring) x h

theorem continuedFraction_altDet (a b : Nat) : AltDet (-1) 1 0 (continuedFraction a b) := by
  rw [continuedFraction_eq]
  have := convergents_altDet (euclidQuots a b) 1 0 0 1
  simpa using this

theorem continuedFraction_nil_iff (a b : Nat) : continuedFraction a b = [] ↔ b = 0 := by
  rw [continuedFraction_eq]
  constructor
  · intro h
    by_contra hb
    exact euclidQuots_ne_nil a b hb (convergents_eq_nil h)
  · rintro rfl; rw [euclidQuots_zero]; rfl

/-! ### DivmodRounded -/

theorem dmrOffset_eq (b : Int) : dmrOffset b = (b + 1) / 2 := by
  unfold dmrOffset
  exact Int.fdiv_eq_ediv_of_nonneg _ (by norm_num)

theorem fmod_range_neg (a b : Int) (hb : b < 0) : b < a.fmod b ∧ a.fmod b ≤ 0 := by
  have h := Int.neg_fmod_neg (-a) (-b)
  simp only [neg_neg] at h
  have h1 := Int.fmod_nonneg_of_pos (-a) (b := -b) (by omega)
  have h2 := Int.fmod_lt_of_pos (-a) (b := -b) (by omega)
  omega

theorem divmodRounded_zero (a : Int) : divmodRounded a 0 = .error .zeroDivision := by
  simp [divmodRounded]

theorem divmodRounded_ok (a b : Int) (hb : b ≠ 0) :
    divmodRounded a b =
      .ok (Int.fdiv (a + dmrOffset b) b, Int.fmod (a + dmrOffset b) b - dmrOffset b) := by
  simp [divmodRounded, hb]

/-- `q·b + r = a` whenever a result is returned (`b ≠ 0`). -/
theorem divmodRounded_eq (a b q r : Int) (h : divmodRounded a b = .ok (q, r)) :
    b ≠ 0 ∧ q * b + r = a := by
  by_cases hb : b = 0
  · subst hb; rw [divmodRounded_zero] at h; cases h
  · rw [divmodRounded_ok a b hb] at h
    simp only [Except.ok.injEq, Prod.mk.injEq] at h
    obtain ⟨rfl, rfl⟩ := h
    have := Int.fdiv_mul_add_fmod (a + dmrOffset b) b
    exact ⟨hb, by omega⟩

/-- exact remainder range for `b > 0`: `[-b/2, b/2)` for even `b`, but
`[-(b+1)/2, (b-1)/2)` for odd `b` (D16). -/
theorem divmodRounded_range_pos (a b q r : Int) (hb : 0 < b) (h : divmodRounded a b = .ok (q, r)) :
    -(b + b % 2) ≤ 2 * r ∧ 2 * r < b - b % 2 := by
  rw [divmodRounded_ok a b (by omega)] at h
  simp only [Except.ok.injEq, Prod.mk.injEq] at h
  obtain ⟨_, rfl⟩ := h
  have h1 := Int.fmod_nonneg_of_pos (a + dmrOffset b) hb
  have h2 := Int.fmod_lt_of_pos (a + dmrOffset b) hb
  rw [dmrOffset_eq] at *
  omega

/-- exact remainder range for `b < 0`: `(b/2, -b/2]` (correct rounding for every negative
`b`, odd or even). -/
theorem divmodRounded_range_neg (a b q r : Int) (hb : b < 0) (h : divmodRounded a b = .ok (q, r)) :
    b < 2 * r ∧ 2 * r ≤ -b := by
  rw [divmodRounded_ok a b (by omega)] at h
  simp only [Except.ok.injEq, Prod.mk.injEq] at h
  obtain ⟨_, rfl⟩ := h
  have h1 := fmod_range_neg (a + dmrOffset b) b hb
  rw [dmrOffset_eq] at *
  omega

/-- `q` is a nearest integer to `a / b`: no multiple of `b` is closer to `a` than `q·b`. -/
def IsNearest (a b q : Int) : Prop := ∀ z : Int, |a - q * b| ≤ |a - z * b|

theorem isNearest_of_small_rem (a b q r : Int) (he : q * b + r = a) (hr : 2 * |r| ≤ |b|) :
    IsNearest a b q := by
  intro z
  have e1 : a - q * b = r := by omega
  rw [e1]
  by_cases hz : z = q
  · subst hz; rw [e1]
  · have hk : (q - z) ≠ 0 := by omega
    have e2 : a - z * b = r + (q - z) * b := by rw [← he]; ring
    rw [e2]
    have h1 : |(q - z) * b| ≤ |r + (q - z) * b| + |r| := by
      have : (q - z) * b = (r + (q - z) * b) - r := by ring
      calc |(q - z) * b| = |(r + (q - z) * b) - r| := by rw [← this]
        _ ≤ |r + (q - z) * b| + |r| := abs_sub _ _
    have h2 : |b| ≤ |(q - z) * b| := by
      rw [abs_mul]
      have : 1 ≤ |q - z| := Int.one_le_abs hk
      nlinarith [abs_nonneg b]
    linarith

/-- even `b ≠ 0` (in particular every power of two `≥ 2`, the only divisors the callers
pass besides `1`): the result is a nearest integer, ties rounded up. -/
theorem divmodRounded_nearest_even (a b q r : Int) (hb : b % 2 = 0)
    (h : divmodRounded a b = .ok (q, r)) : IsNearest a b q := by
  have ⟨hb0, he⟩ := divmodRounded_eq a b q r h
  apply isNearest_of_small_rem a b q r he
  rcases lt_or_gt_of_ne hb0 with hneg | hpos
  · have := divmodRounded_range_neg a b q r hneg h
    rw [abs_of_neg hneg]
    rcases abs_cases r with ⟨e, _⟩ | ⟨e, _⟩ <;> rw [e] <;> omega
  · have := divmodRounded_range_pos a b q r hpos h
    rw [abs_of_pos hpos]
    rcases abs_cases r with ⟨e, _⟩ | ⟨e, _⟩ <;> rw [e] <;> omega

/-- negative `b` (odd or even): nearest integer as well. -/
theorem divmodRounded_nearest_neg (a b q r : Int) (hb : b < 0)
    (h : divmodRounded a b = .ok (q, r)) : IsNearest a b q := by
  have ⟨_, he⟩ := divmodRounded_eq a b q r h
  apply isNearest_of_small_rem a b q r he
  have := divmodRounded_range_neg a b q r hb h
  rw [abs_of_neg hb]
  rcases abs_cases r with ⟨e, _⟩ | ⟨e, _⟩ <;> rw [e] <;> omega

/-- even `b > 0`: `q = ⌊a/b + 1/2⌋ = ⌊(2a + b) / (2b)⌋` (round half up). -/
theorem divmodRounded_quot_even (a b q r : Int) (hb : 0 < b) (hb2 : b % 2 = 0)
    (h : divmodRounded a b = .ok (q, r)) : q = Int.fdiv (2 * a + b) (2 * b) := by
  have ⟨_, he⟩ := divmodRounded_eq a b q r h
  have hr := divmodRounded_range_pos a b q r hb h
  rw [Int.fdiv_eq_ediv_of_nonneg _ (by omega)]
  have := (Int.ediv_emod_unique (a := 2 * a + b) (b := 2 * b) (r := 2 * r + b) (q := q)
    (by omega)).2 ⟨by rw [← he]; ring, by omega, by omega⟩
  exact this.1.symm

/-! #### repaired `DivmodRounded` (fixes/D16-divmod-rounded.diff) -/

theorem dmrOffsetR_eq (b : Int) : dmrOffsetR b = if 0 < b then b / 2 else (b + 1) / 2 := by
  unfold dmrOffsetR
  rw [Int.fdiv_eq_ediv_of_nonneg _ (by norm_num : (0 : Int) ≤ 2),
    Int.fdiv_eq_ediv_of_nonneg _ (by norm_num : (0 : Int) ≤ 2)]

theorem divmodRoundedR_ok (a b : Int) (hb : b ≠ 0) :
    divmodRoundedR a b =
      .ok (Int.fdiv (a + dmrOffsetR b) b, Int.fmod (a + dmrOffsetR b) b - dmrOffsetR b) := by
  simp [divmodRoundedR, hb]

/-- the repaired function: `q·b + r = a` and `|2r| ≤ |b|` for every `b ≠ 0`. -/
theorem divmodRoundedR_spec (a b q r : Int) (h : divmodRoundedR a b = .ok (q, r)) :
    b ≠ 0 ∧ q * b + r = a ∧ 2 * |r| ≤ |b| := by
  by_cases hb : b = 0
  · subst hb; simp [divmodRoundedR] at h
  · rw [divmodRoundedR_ok a b hb] at h
    simp only [Except.ok.injEq, Prod.mk.injEq] at h
    obtain ⟨rfl, rfl⟩ := h
    have he := Int.fdiv_mul_add_fmod (a + dmrOffsetR b) b
    refine ⟨hb, by omega, ?_⟩
    rcases lt_or_gt_of_ne hb with hneg | hpos
    · have h1 := fmod_range_neg (a + dmrOffsetR b) b hneg
      rw [dmrOffsetR_eq] at *
      rw [if_neg (by omega)] at *
      rw [abs_of_neg hneg]
      rcases abs_cases ((a + (b + 1) / 2).fmod b - (b + 1) / 2) with ⟨e, _⟩ | ⟨e, _⟩ <;>
        rw [e] <;> omega
    · have h1 := Int.fmod_nonneg_of_pos (a + dmrOffsetR b) hpos
      have h2 := Int.fmod_lt_of_pos (a + dmrOffsetR b) hpos
      rw [dmrOffsetR_eq] at *
      rw [if_pos hpos] at *
      rw [abs_of_pos hpos]
      rcases abs_cases ((a + b / 2).fmod b - b / 2) with ⟨e, _⟩ | ⟨e, _⟩ <;> rw [e] <;> omega

theorem divmodRoundedR_nearest (a b q r : Int) (h : divmodRoundedR a b = .ok (q, r)) :
    IsNearest a b q := by
  obtain ⟨_, he, hr⟩ := divmodRoundedR_spec a b q r h
  exact isNearest_of_small_rem a b q r he hr

/-- the repair changes nothing for even divisors and for negative divisors. -/
theorem divmodRoundedR_eq_pinned (a b : Int) (hb : b % 2 = 0 ∨ b < 0) :
    divmodRoundedR a b = divmodRounded a b := by
  have : dmrOffsetR b = dmrOffset b := by
    rw [dmrOffsetR_eq, dmrOffset_eq]
    split <;> omega
  unfold divmodRoundedR divmodRounded
  rw [this]

theorem sqrt2expZ_neg (n : Nat) (k : Int) (hk : k < 0) : sqrt2expZ n k = .error .valueError := by
  simp [sqrt2expZ, hk]

theorem sqrt2expZ_nonneg (n k : Nat) : sqrt2expZ n (k : Int) = sqrt2exp n k := by
  simp [sqrt2expZ]

/-! ### Sieve -/

theorem setIfInBounds_true_iff (t : Array Bool) (j m : Nat) :
    (t.setIfInBounds j false)[m]? = some true ↔ t[m]? = some true ∧ m ≠ j := by
  rw [Array.getElem?_setIfInBounds]
  by_cases h : j = m
  · subst h
    simp only [if_true]
    split <;> simp
  · rw [if_neg h]
    constructor
    · intro h1; exact ⟨h1, fun e => h e.symm⟩
    · intro h1; exact h1.1

/-- the inner loop clears exactly the indices `j, j+i, …, j+(cnt-1)i`. -/
theorem sieveMark_true_iff (i : Nat) : ∀ (cnt j : Nat) (t : Array Bool) (m : Nat),
    (sieveMark i cnt j t)[m]? = some true ↔ t[m]? = some true ∧ ∀ c < cnt, m ≠ j + c * i
  | 0, j, t, m => by simp [sieveMark]
  | cnt + 1, j, t, m => by
    unfold sieveMark
    rw [sieveMark_true_iff i cnt (j + i) _ m, setIfInBounds_true_iff]
    constructor
    · rintro ⟨⟨h1, h2⟩, h3⟩
      refine ⟨h1, ?_⟩
      intro c hc
      cases c with
      | zero => simpa using h2
      | succ c =>
        have := h3 c (by omega)
        rw [Nat.succ_mul]; omega
    · rintro ⟨h1, h3⟩
      refine ⟨⟨h1, by simpa using h3 0 (by omega)⟩, ?_⟩
      intro c hc
      have := h3 (c + 1) (by omega)
      rw [Nat.succ_mul] at this; omega

theorem sieveMark_size (i : Nat) : ∀ (cnt j : Nat) (t : Array Bool),
    (sieveMark i cnt j t).size = t.size
  | 0, _, _ => rfl
  | cnt + 1, j, t => by
    unfold sieveMark
    rw [sieveMark_size i cnt]; simp

/-- `rangeLen lo hi step` is the length of Python's `range(lo, hi, step)`. -/
theorem lt_rangeLen_iff (lo hi step c : Nat) (hs : 0 < step) :
    c < rangeLen lo hi step ↔ lo + c * step < hi := by
  unfold rangeLen
  rw [Nat.lt_iff_add_one_le, Nat.le_div_iff_mul_le hs, Nat.add_mul]
  omega

/-- for `m < n` the indices cleared for `i` are the multiples of `i` from `i²` on. -/
theorem marked_iff (n i m : Nat) (hi : 0 < i) (hm : m < n) :
    (∃ c, c < rangeLen (i * i) n i ∧ m = i * i + c * i) ↔ (i * i ≤ m ∧ i ∣ m) := by
  constructor
  · rintro ⟨c, _, rfl⟩
    exact ⟨by omega, ⟨i + c, by ring⟩⟩
  · rintro ⟨h1, ⟨k, rfl⟩⟩
    have hk : i ≤ k := Nat.le_of_mul_le_mul_left h1 hi
    refine ⟨k - i, ?_, ?_⟩
    · rw [lt_rangeLen_iff _ _ _ _ hi]
      have : i * i + (k - i) * i = i * k := by
        obtain ⟨d, rfl⟩ := Nat.exists_eq_add_of_le hk
        rw [Nat.add_sub_cancel_left]; ring
      omega
    · obtain ⟨d, rfl⟩ := Nat.exists_eq_add_of_le hk
      rw [Nat.add_sub_cancel_left]; ring

theorem prime_of_no_small_factor (m : Nat) (h2 : 2 ≤ m)
    (h : ∀ p, Nat.Prime p → p * p ≤ m → ¬ p ∣ m) : Nat.Prime m := by
  by_contra hnp
  have hp : Nat.Prime (Nat.minFac m) := Nat.minFac_prime (by omega)
  have hsq := Nat.minFac_sq_le_self (by omega : 0 < m) hnp
  rw [Nat.pow_two] at hsq
  exact h _ hp hsq (Nat.minFac_dvd m)

theorem prime_no_small_factor (m p : Nat) (hm : Nat.Prime m) (hp : Nat.Prime p)
    (hsq : p * p ≤ m) : ¬ p ∣ m := by
  intro hd
  have := (Nat.prime_dvd_prime_iff_eq hp hm).1 hd
  subst this
  have := hp.two_le
  nlinarith

/-- loop invariant of `Sieve` before the iteration for `I`: the entry for `m` is still `True`
iff `m` has no prime factor `p < I` with `p² ≤ m`. -/
def SieveInv (n I : Nat) (t : Array Bool) : Prop :=
  ∀ m, t[m]? = some true ↔ (m < n ∧ ∀ p, Nat.Prime p → p < I → p * p ≤ m → ¬ p ∣ m)

theorem sieveInv_init (n : Nat) : SieveInv n 2 (Array.replicate n true) := by
  intro m
  rw [Array.getElem?_replicate]
  constructor
  · intro h
    split at h
    · rename_i hm
      exact ⟨hm, fun p hp hp2 => absurd hp.two_le (by omega)⟩
    · simp at h
  · rintro ⟨hm, _⟩
    simp [hm]

theorem sieveInv_step (n I : Nat) (t : Array Bool) (hI : 2 ≤ I) (h : SieveInv n I t) :
    SieveInv n (I + 1)
      (if t[I]? = some true then sieveMark I (rangeLen (I * I) n I) (I * I) t else t) := by
  intro m
  split
  · rename_i hT
    have hIinfo := (h I).1 hT
    have hIp : Nat.Prime I :=
      prime_of_no_small_factor I hI (fun p hp hsq => hIinfo.2 p hp (by
        have := hp.two_le
        nlinarith) hsq)
    rw [sieveMark_true_iff, h m]
    constructor
    · rintro ⟨⟨hm, h1⟩, h2⟩
      refine ⟨hm, ?_⟩
      intro p hp hpI hsq
      rcases Nat.lt_succ_iff_lt_or_eq.1 hpI with hlt | rfl
      · exact h1 p hp hlt hsq
      · intro hd
        obtain ⟨c, hc, hmc⟩ := (marked_iff n p m (by omega) hm).2 ⟨hsq, hd⟩
        exact h2 c hc hmc
    · rintro ⟨hm, h1⟩
      refine ⟨⟨hm, fun p hp hlt => h1 p hp (by omega)⟩, ?_⟩
      intro c hc hmc
      have := (marked_iff n I m (by omega) hm).1 ⟨c, hc, hmc⟩
      exact h1 I hIp (by omega) this.1 this.2
  · rename_i hT
    rw [h m]
    constructor
    · rintro ⟨hm, h1⟩
      refine ⟨hm, ?_⟩
      intro p hp hpI hsq
      rcases Nat.lt_succ_iff_lt_or_eq.1 hpI with hlt | rfl
      · exact h1 p hp hlt hsq
      · -- `p = I` prime but `t[I]` not true: only possible when `I ≥ n`
        exfalso
        apply hT
        rw [h p]
        refine ⟨?_, fun q hq hqp hsq' => prime_no_small_factor p q hp hq hsq'⟩
        have := hp.two_le
        nlinarith
    · rintro ⟨hm, h1⟩
      exact ⟨hm, fun p hp hlt => h1 p hp (by omega)⟩

theorem sieveOuter_inv (n : Nat) : ∀ (fuel I : Nat) (t : Array Bool), 2 ≤ I → SieveInv n I t →
    SieveInv n (I + fuel) (sieveOuter n fuel I t)
  | 0, I, t, _, h => by simpa [sieveOuter] using h
  | fuel + 1, I, t, hI, h => by
    unfold sieveOuter
    have := sieveOuter_inv n fuel (I + 1) _ (by omega) (sieveInv_step n I t hI h)
    have e : I + (fuel + 1) = I + 1 + fuel := by omega
    rw [e]; exact this

/-- the final table: entry `m` is `True` iff `m < n` and (`m < 2` or `m` is prime). -/
theorem sieveTable_true_iff (n m : Nat) :
    (sieveTable n)[m]? = some true ↔ m < n ∧ (m < 2 ∨ Nat.Prime m) := by
  unfold sieveTable isqrt
  rw [sieveOuter_inv n _ 2 _ (le_refl 2) (sieveInv_init n) m]
  constructor
  · rintro ⟨hm, h⟩
    refine ⟨hm, ?_⟩
    by_cases h2 : m < 2
    · exact Or.inl h2
    · right
      apply prime_of_no_small_factor m (by omega)
      intro p hp hsq
      apply h p hp _ hsq
      have : p ≤ Nat.sqrt n := Nat.le_sqrt.2 (by omega)
      omega
  · rintro ⟨hm, h⟩
    refine ⟨hm, ?_⟩
    intro p hp _ hsq
    rcases h with h2 | hpm
    · have := hp.two_le
      nlinarith
    · exact prime_no_small_factor m p hpm hp hsq

theorem sieveCollect_eq (n : Nat) (t : Array Bool)
    (h : ∀ m, t[m]? = some true ↔ m < n ∧ (m < 2 ∨ Nat.Prime m)) :
    sieveCollect n t = (List.range n).filter (fun i => decide (Nat.Prime i)) := by
  unfold sieveCollect
  match n, h with
  | 0, _ => simp
  | 1, _ =>
    simp only [List.range_succ, List.range_zero, List.nil_append, List.filter_cons,
      Nat.not_prime_zero, decide_false, Bool.false_eq_true, if_false, List.filter_nil]
    split <;> rfl
  | k + 2, h =>
    rw [List.range_eq_range', List.range'_succ, List.range'_succ]
    have h0 : t[0]? = some true := (h 0).2 ⟨by omega, Or.inl (by omega)⟩
    have h1 : t[0 + 1]? = some true := (h 1).2 ⟨by omega, Or.inl (by omega)⟩
    simp only [List.filter_cons, h0, h1, decide_true, if_true, List.drop_succ_cons, List.drop_zero,
      Nat.not_prime_zero, decide_false, Bool.false_eq_true, if_false]
    apply List.filter_congr
    intro x hx
    rw [List.mem_range'_1] at hx
    have := h x
    by_cases hp : Nat.Prime x
    · simp [hp, this.2 ⟨by omega, Or.inr hp⟩]
    · have hne : ¬ t[x]? = some true := fun e => by
        rcases (this.1 e).2 with h2 | h2
        · omega
        · exact hp h2
      simp [hp, hne]

/-- `Sieve(n)` is the list of primes below `n`, in increasing order. -/
theorem sieve_eq (n : Nat) : sieve n = (List.range n).filter (fun i => decide (Nat.Prime i)) :=
  sieveCollect_eq n _ (sieveTable_true_iff n)

/-- the reads `table[i]` of the outer loop (`2 ≤ i ≤ isqrt n`) are within the table. -/
theorem sieve_index_in_bounds (n i : Nat) (h2 : 2 ≤ i) (hi : i ≤ isqrt n) : i < n := by
  unfold isqrt at hi
  have := Nat.le_sqrt.1 hi
  nlinarith

end Paranoid.NT
