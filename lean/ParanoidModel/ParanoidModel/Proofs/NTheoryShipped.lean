/-
Proofs/NTheoryShipped.lean — lemmas about `divmodRoundedR`, the model of the `DivmodRounded`
that /repo ships since fix cdbbb74 (`d = b // 2 if b > 0 else (b + 1) // 2`).
Used by Props/C19Shipped.lean.
-/
import ParanoidModel.Proofs.NTheory
namespace Paranoid.NT
open Paranoid

theorem divmodRoundedR_zero (a : Int) : divmodRoundedR a 0 = .error .zeroDivision := by
  simp [divmodRoundedR]

/-- exact remainder range, positive divisor (odd or even): `−b ≤ 2r < b`. -/
theorem divmodRoundedR_range_pos (a b q r : Int) (hb : 0 < b)
    (h : divmodRoundedR a b = .ok (q, r)) : -b ≤ 2 * r ∧ 2 * r < b := by
  rw [divmodRoundedR_ok a b (by omega)] at h
  simp only [Except.ok.injEq, Prod.mk.injEq] at h
  obtain ⟨_, rfl⟩ := h
  have h1 := Int.fmod_nonneg_of_pos (a + dmrOffsetR b) hb
  have h2 := Int.fmod_lt_of_pos (a + dmrOffsetR b) hb
  rw [dmrOffsetR_eq] at *
  rw [if_pos hb] at *
  omega

/-- exact remainder range, negative divisor (odd or even): `b < 2r ≤ −b`. -/
theorem divmodRoundedR_range_neg (a b q r : Int) (hb : b < 0)
    (h : divmodRoundedR a b = .ok (q, r)) : b < 2 * r ∧ 2 * r ≤ -b := by
  rw [divmodRoundedR_ok a b (by omega)] at h
  simp only [Except.ok.injEq, Prod.mk.injEq] at h
  obtain ⟨_, rfl⟩ := h
  have h1 := fmod_range_neg (a + dmrOffsetR b) b hb
  rw [dmrOffsetR_eq] at *
  rw [if_neg (by omega)] at *
  omega

theorem abs_le_abs_mul_of_ne_zero (k c : Int) (hk : k ≠ 0) : |c| ≤ |k * c| := by
  have h1 : 1 ≤ |k| := Int.one_le_abs hk
  rw [abs_mul]
  nlinarith [abs_nonneg c]

/-- a pair with the identity and the half-open remainder range is unique. -/
theorem quot_unique_of_range (a b q r q' r' : Int) (hb : b ≠ 0)
    (he : q * b + r = a) (he' : q' * b + r' = a)
    (hp : 0 < b → (-b ≤ 2 * r ∧ 2 * r < b) ∧ (-b ≤ 2 * r' ∧ 2 * r' < b))
    (hn : b < 0 → (b < 2 * r ∧ 2 * r ≤ -b) ∧ (b < 2 * r' ∧ 2 * r' ≤ -b)) :
    q = q' ∧ r = r' := by
  have hd : (q - q') * b = r' - r := by
    have : (q - q') * b = q * b - q' * b := by ring
    omega
  have hq : q = q' := by
    by_contra hne
    have h2 : |b| ≤ |(q - q') * b| := abs_le_abs_mul_of_ne_zero _ _ (by omega)
    rw [hd] at h2
    rcases lt_or_gt_of_ne hb with hneg | hpos
    · obtain ⟨⟨a1, a2⟩, ⟨a3, a4⟩⟩ := hn hneg
      rw [abs_of_neg hneg] at h2
      rcases abs_cases (r' - r) with ⟨e, _⟩ | ⟨e, _⟩ <;> rw [e] at h2 <;> omega
    · obtain ⟨⟨a1, a2⟩, ⟨a3, a4⟩⟩ := hp hpos
      rw [abs_of_pos hpos] at h2
      rcases abs_cases (r' - r) with ⟨e, _⟩ | ⟨e, _⟩ <;> rw [e] at h2 <;> omega
  subst hq
  exact ⟨rfl, by omega⟩

/-- `q = ⌊a/b + 1/2⌋ = ⌊(2a + b) / (2b)⌋` for EVERY non-zero divisor (Python floor division). -/
theorem divmodRoundedR_quot (a b q r : Int) (h : divmodRoundedR a b = .ok (q, r)) :
    q = Int.fdiv (2 * a + b) (2 * b) := by
  obtain ⟨hb, he, _⟩ := divmodRoundedR_spec a b q r h
  have hfm := Int.fdiv_mul_add_fmod (2 * a + b) (2 * b)
  rcases lt_or_gt_of_ne hb with hneg | hpos
  · have hr := divmodRoundedR_range_neg a b q r hneg h
    have h1 := fmod_range_neg (2 * a + b) (2 * b) (by omega)
    -- 2a + b = q·(2b) + (2r + b), with 2b < 2r + b ≤ 0
    have hd : (q - Int.fdiv (2 * a + b) (2 * b)) * (2 * b) =
        Int.fmod (2 * a + b) (2 * b) - (2 * r + b) := by
      have e1 : (q - Int.fdiv (2 * a + b) (2 * b)) * (2 * b) =
          2 * (q * b) - Int.fdiv (2 * a + b) (2 * b) * (2 * b) := by ring
      omega
    by_contra hne
    have h3 : |2 * b| ≤ |(q - Int.fdiv (2 * a + b) (2 * b)) * (2 * b)| :=
      abs_le_abs_mul_of_ne_zero _ _ (by omega)
    rw [hd, abs_of_neg (by omega : 2 * b < 0)] at h3
    rcases abs_cases (Int.fmod (2 * a + b) (2 * b) - (2 * r + b)) with ⟨e, _⟩ | ⟨e, _⟩ <;>
      rw [e] at h3 <;> omega
  · have hr := divmodRoundedR_range_pos a b q r hpos h
    have h1 := Int.fmod_nonneg_of_pos (2 * a + b) (b := 2 * b) (by omega)
    have h1' := Int.fmod_lt_of_pos (2 * a + b) (b := 2 * b) (by omega)
    have hd : (q - Int.fdiv (2 * a + b) (2 * b)) * (2 * b) =
        Int.fmod (2 * a + b) (2 * b) - (2 * r + b) := by
      have e1 : (q - Int.fdiv (2 * a + b) (2 * b)) * (2 * b) =
          2 * (q * b) - Int.fdiv (2 * a + b) (2 * b) * (2 * b) := by ring
      omega
    by_contra hne
    have h3 : |2 * b| ≤ |(q - Int.fdiv (2 * a + b) (2 * b)) * (2 * b)| :=
      abs_le_abs_mul_of_ne_zero _ _ (by omega)
    rw [hd, abs_of_pos (by omega : 0 < 2 * b)] at h3
    rcases abs_cases (Int.fmod (2 * a + b) (2 * b) - (2 * r + b)) with ⟨e, _⟩ | ⟨e, _⟩ <;>
      rw [e] at h3 <;> omega

/-- ties go to `+∞`: among the integers `z` at minimal distance from `a/b`, `q` is the largest. -/
theorem divmodRoundedR_tie_up (a b q r : Int) (h : divmodRoundedR a b = .ok (q, r)) (z : Int)
    (hz : |a - z * b| ≤ |a - q * b|) : z ≤ q := by
  obtain ⟨hb, he, _⟩ := divmodRoundedR_spec a b q r h
  have e1 : a - q * b = r := by omega
  have e2 : a - z * b = r + (q - z) * b := by rw [← he]; ring
  rw [e1, e2] at hz
  by_contra hlt
  have hk : 1 ≤ z - q := by omega
  rcases lt_or_gt_of_ne hb with hneg | hpos
  · have hr := divmodRoundedR_range_neg a b q r hneg h
    -- (q - z)·b ≥ -b > 0 and r > b/2: r + (q-z) b > -b/2 ≥ |r| unless ...
    have hm : -b ≤ (q - z) * b := by nlinarith
    rcases abs_cases (r + (q - z) * b) with ⟨e, _⟩ | ⟨e, _⟩ <;>
      rcases abs_cases r with ⟨e', _⟩ | ⟨e', _⟩ <;> rw [e, e'] at hz <;> omega
  · have hr := divmodRoundedR_range_pos a b q r hpos h
    have hm : (q - z) * b ≤ -b := by nlinarith
    rcases abs_cases (r + (q - z) * b) with ⟨e, _⟩ | ⟨e, _⟩ <;>
      rcases abs_cases r with ⟨e', _⟩ | ⟨e', _⟩ <;> rw [e, e'] at hz <;> omega

end Paranoid.NT
