/-
Proofs/NTheoryTree.lean — FastProduct and ExtendedProductTree (ntheory_util.py): the product
tree invariant and the value `T = Σ_i ∏_{j≠i} u_j`.
-/
import ParanoidModel.Model.NTheory
import Mathlib.Tactic.Ring
import Mathlib.Algebra.BigOperators.Group.List.Basic
import Mathlib.Algebra.BigOperators.Group.List.Lemmas
import Mathlib.Algebra.BigOperators.Ring.List
import Mathlib.Data.Nat.ModEq

namespace Paranoid

/-! ### pairProd / FastProduct -/

theorem pairProd_prod (l : List Nat) : (pairProd l).prod = l.prod := by
  fun_induction pairProd l with
  | case1 a b rest ih => simp only [List.prod_cons, ih]; ring
  | case2 a => simp
  | case3 => simp

theorem pairProd_ne_nil {l : List Nat} (h : l ≠ []) : pairProd l ≠ [] := by
  fun_induction pairProd l <;> simp_all

theorem pairProd_pos {l : List Nat} (h : ∀ x ∈ l, 0 < x) : ∀ x ∈ pairProd l, 0 < x := by
  fun_induction pairProd l with
  | case1 a b rest ih =>
    intro x hx
    simp only [List.mem_cons] at hx h
    rcases hx with rfl | hx
    · exact Nat.mul_pos (h a (Or.inl rfl)) (h b (Or.inr (Or.inl rfl)))
    · exact ih (fun y hy => h y (Or.inr (Or.inr hy))) x hx
  | case2 a => simpa using h
  | case3 => simp

/-- `FastProduct` is the product, for every list (empty, odd and even lengths alike). -/
theorem fastProduct_eq_prod (l : List Nat) : fastProduct l = l.prod := by
  fun_induction fastProduct l with
  | case1 => simp
  | case2 a => simp
  | case3 a b rest ih => rw [ih, pairProd_prod]

/-! ### the weighted sum `S v t = Σ_i t_i ∏_{j≠i} v_j` -/

/-- `S v t = Σ_i t_i * ∏_{j≠i} v_j`, by recursion on both lists. -/
def wsum : List Nat → List Nat → Nat
  | v :: vs, t :: ts => t * vs.prod + v * wsum vs ts
  | _, _ => 0

/-- `Σ_i ∏_{j≠i} u_j` — the value `T` of `ExtendedProductTree`. -/
def sumOthers : List Nat → Nat
  | [] => 0
  | a :: u => u.prod + a * sumOthers u

theorem wsum_ones (u : List Nat) : wsum u (u.map fun _ => 1) = sumOthers u := by
  induction u with
  | nil => rfl
  | cons a u ih => simp only [List.map_cons, wsum, sumOthers, ih, Nat.one_mul]

theorem pairT_length (t v : List Nat) (h : t.length = v.length) :
    (pairT t v).length = (pairProd v).length := by
  fun_induction pairT t v with
  | case1 a b ts c d vs ih =>
    simp only [List.length_cons, pairProd] at h ⊢
    rw [ih (by omega)]
  | case2 a c => simp [pairProd]
  | case3 t v h1 h2 =>
    match t, v, h with
    | [], [], _ => simp [pairProd]
    | [a], [c], _ => exact (h2 a c rfl rfl).elim
    | a :: b :: ts, c :: d :: vs, _ => exact (h1 a b ts c d vs rfl rfl).elim

/-- ★ one pairing step of `ExtendedProductTree` preserves `S` (and `pairProd_prod`: the product). -/
theorem wsum_pair (t v : List Nat) (h : t.length = v.length) :
    wsum (pairProd v) (pairT t v) = wsum v t := by
  fun_induction pairT t v with
  | case1 a b ts c d vs ih =>
    simp only [List.length_cons] at h
    simp only [pairProd, wsum, List.prod_cons, ih (by omega), pairProd_prod]
    ring
  | case2 a c => simp [pairProd, wsum]
  | case3 t v h1 h2 =>
    match t, v, h with
    | [], [], _ => simp [pairProd, wsum]
    | [a], [c], _ => exact (h2 a c rfl rfl).elim
    | a :: b :: ts, c :: d :: vs, _ => exact (h1 a b ts c d vs rfl rfl).elim

/-! ### the loop of ExtendedProductTree -/

/-- the levels appended by the loop: `pairProd values, pairProd (pairProd values), …` down to a
single node. -/
def upLevels (values : List Nat) : List (List Nat) :=
  if h : 2 ≤ values.length then pairProd values :: upLevels (pairProd values) else []
termination_by values.length
decreasing_by exact pairProd_length_lt values h

/-- all levels of the product tree, leaves first. -/
def levels (values : List Nat) : List (List Nat) := values :: upLevels values

theorem levels_of_two_le {u : List Nat} (h : 2 ≤ u.length) :
    levels u = u :: levels (pairProd u) := by
  rw [levels, upLevels, dif_pos h, levels]

theorem levels_of_lt_two {u : List Nat} (h : ¬ 2 ≤ u.length) : levels u = [u] := by
  rw [levels, upLevels, dif_neg h]

theorem extTreeLoop_fst (values t : List Nat) (tree : List (List Nat)) :
    (extTreeLoop values t tree).1 = tree ++ upLevels values := by
  fun_induction extTreeLoop values t tree with
  | case1 values t tree h ih =>
    rw [ih]; conv_rhs => rw [upLevels, dif_pos h]
    simp
  | case2 values t tree h =>
    rw [upLevels, dif_neg h]; simp

/-- at the end of the loop `t` is the one-element list `[S values t]`. -/
theorem extTreeLoop_snd (values t : List Nat) (tree : List (List Nat))
    (hl : t.length = values.length) (hne : values ≠ []) :
    (extTreeLoop values t tree).2 = [wsum values t] := by
  fun_induction extTreeLoop values t tree with
  | case1 values t tree h ih =>
    rw [ih ((pairT_length t values hl).trans rfl) (pairProd_ne_nil hne), wsum_pair t values hl]
  | case2 values t tree h =>
    match values, t, hl, hne, h with
    | [v], [t0], _, _, _ => simp [wsum]
    | _ :: _ :: _, _, _, _, h => simp at h

theorem extTreeLoop_nil (tree : List (List Nat)) : extTreeLoop [] [] tree = (tree, []) := by
  rw [extTreeLoop]; simp

/-- ★ `ExtendedProductTree(u)` for non-empty `u`: the tree is `levels u` and
`T = Σ_i ∏_{j≠i} u_j`. -/
theorem extendedProductTree_eq (u : List Nat) (hne : u ≠ []) :
    extendedProductTree u = .ok (levels u, sumOthers u) := by
  have h1 := extTreeLoop_fst u (u.map fun _ => 1) [u]
  have h2 := extTreeLoop_snd u (u.map fun _ => 1) [u] (by simp) hne
  rw [wsum_ones] at h2
  unfold extendedProductTree
  generalize extTreeLoop u (u.map fun _ => 1) [u] = r at h1 h2
  obtain ⟨tree, t⟩ := r
  simp only at h1 h2
  subst h1 h2
  simp [levels]

/-- pinned behaviour (defect D1): `ExtendedProductTree([])` raises `IndexError` (`t[0]`). -/
theorem extendedProductTree_nil : extendedProductTree [] = .error .indexError := by
  unfold extendedProductTree
  simp [extTreeLoop_nil]

theorem extendedProductTree_error_iff (u : List Nat) :
    (∃ e, extendedProductTree u = .error e) ↔ u = [] := by
  constructor
  · rintro ⟨e, he⟩
    by_contra hne
    rw [extendedProductTree_eq u hne] at he
    cases he
  · rintro rfl; exact ⟨_, extendedProductTree_nil⟩

/-! ### shape of the tree -/

/-- every level is the `pairProd` of the level below it. -/
def Chain : List (List Nat) → Prop
  | a :: b :: rest => b = pairProd a ∧ Chain (b :: rest)
  | _ => True

theorem levels_chain (u : List Nat) : Chain (levels u) := by
  induction h : u.length using Nat.strong_induction_on generalizing u with
  | _ n ih =>
    by_cases h2 : 2 ≤ u.length
    · rw [levels_of_two_le h2]
      have := ih _ (by rw [← h]; exact pairProd_length_lt u h2) (pairProd u) rfl
      rw [levels] at this ⊢
      exact ⟨rfl, this⟩
    · rw [levels_of_lt_two h2]; trivial

theorem levels_ne_nil (u : List Nat) : levels u ≠ [] := by simp [levels]

theorem levels_head (u : List Nat) : (levels u).head (levels_ne_nil u) = u := by simp [levels]

/-- the top node of the tree is `[∏ u]` (for non-empty `u`). -/
theorem levels_getLast (u : List Nat) (hne : u ≠ []) :
    (levels u).getLast (levels_ne_nil u) = [u.prod] := by
  induction h : u.length using Nat.strong_induction_on generalizing u with
  | _ n ih =>
    by_cases h2 : 2 ≤ u.length
    · have := ih _ (by rw [← h]; exact pairProd_length_lt u h2) (pairProd u)
        (pairProd_ne_nil hne) rfl
      simp only [levels_of_two_le h2, List.getLast_cons (levels_ne_nil _), this, pairProd_prod]
    · match u, hne, h2 with
      | [a], _, _ => simp [levels_of_lt_two]
      | _ :: _ :: _, _, h2 => simp at h2

/-! ### `T` modulo a leaf -/

theorem sumOthers_eq_sum (u : List Nat) :
    sumOthers u = ((List.range u.length).map fun i => (u.eraseIdx i).prod).sum := by
  induction u with
  | nil => simp [sumOthers]
  | cons a u ih =>
    simp only [sumOthers, List.length_cons, List.range_succ_eq_map, List.map_cons,
      List.eraseIdx_zero, List.tail_cons, List.sum_cons, List.map_map, ih]
    congr 1
    rw [← List.sum_map_mul_left]
    congr 1

/-- ★ `T ≡ ∏ (u without v) (mod v)` for every leaf `v` — no positivity or distinctness needed
(`u.erase v` removes the first occurrence). -/
theorem sumOthers_modEq (u : List Nat) (v : Nat) (hv : v ∈ u) :
    sumOthers u ≡ (u.erase v).prod [MOD v] := by
  induction u with
  | nil => simp at hv
  | cons a u ih =>
    by_cases hav : a = v
    · subst hav
      simp only [sumOthers, List.erase_cons_head]
      have : a * sumOthers u ≡ 0 [MOD a] := (Nat.modEq_zero_iff_dvd).2 (Dvd.intro _ rfl)
      exact (Nat.ModEq.refl u.prod).add this
    · have hvu : v ∈ u := by
        rcases List.mem_cons.1 hv with h | h
        · exact absurd h.symm hav
        · exact h
      have hne : ¬ (a == v) = true := by simpa using hav
      simp only [sumOthers, List.erase_cons_tail hne, List.prod_cons]
      have h0 : u.prod ≡ 0 [MOD v] := (Nat.modEq_zero_iff_dvd).2 (List.dvd_prod hvu)
      simpa using h0.add ((ih hvu).mul_left a)

end Paranoid
