/-
Proofs/Nist.lean — helper lemmas for C12 (NIST SP 800-22 statistics): bit lists, specifications
of the statistics over `List Bool`, parameter ladders, invariances, loop invariants of the random
walk, tables by kernel computation, ranges.
-/
import ParanoidModel.Model.Nist
import ParanoidModel.Generated.Consts
import ParanoidModel.Proofs.NistTables
import Mathlib.Algebra.BigOperators.Group.List.Basic
import Mathlib.Algebra.BigOperators.Ring.List
import Mathlib.Algebra.Group.Nat.Even
import Mathlib.Algebra.Order.BigOperators.Group.List
import Mathlib.Algebra.Order.Field.Basic
import Mathlib.Algebra.Order.Group.Abs
import Mathlib.Data.List.Basic
import Mathlib.Data.List.MinMax
import Mathlib.Data.List.Rotate
import Mathlib.Data.Rat.Defs
import Mathlib.Tactic.FieldSimp
import Mathlib.Tactic.Linarith
import Mathlib.Tactic.Positivity
import Mathlib.Tactic.Ring
namespace Paranoid.Nist

theorem bitsSmall_length : ∀ (n x : Nat), (bitsSmall n x).length = n
  | 0, _ => rfl
  | n + 1, x => by simp [bitsSmall, bitsSmall_length n]

theorem bitsSmall_append : ∀ (a b x : Nat),
    bitsSmall (a + b) x = bitsSmall a (x % 2 ^ a) ++ bitsSmall b (x >>> a)
  | 0, b, x => by simp [bitsSmall]
  | a + 1, b, x => by
    have h : a + 1 + b = (a + b) + 1 := by omega
    rw [h]
    simp only [bitsSmall, List.cons_append]
    have h1 : x % 2 ^ (a + 1) % 2 = x % 2 := by
      rw [Nat.pow_succ, Nat.mod_mul_left_mod]
    have h2 : x % 2 ^ (a + 1) / 2 = (x / 2) % 2 ^ a := by
      rw [Nat.pow_succ, Nat.mul_comm, Nat.mod_mul_right_div_self]
    have h3 : x >>> (a + 1) = (x / 2) >>> a := by
      rw [Nat.shiftRight_succ_inside]
    rw [h1, h2, h3, bitsSmall_append a b (x / 2)]

theorem bitsDC_eq : ∀ (f n x : Nat), bitsDC f n x = bitsSmall n x
  | 0, n, x => rfl
  | f + 1, n, x => by
    unfold bitsDC
    split
    · rfl
    · rw [bitsDC_eq f, bitsDC_eq f, ← bitsSmall_append]
      congr 1
      omega

theorem bitList_eq (bits n : Nat) : bitList bits n = bitsSmall n bits := bitsDC_eq _ _ _

theorem bitList_length (bits n : Nat) : (bitList bits n).length = n := by
  rw [bitList_eq, bitsSmall_length]

theorem bitsSmall_testBit : ∀ (n x : Nat), bitsSmall n x = (List.range n).map (fun i => x.testBit i)
  | 0, _ => rfl
  | n + 1, x => by
    rw [bitsSmall, bitsSmall_testBit n, List.range_succ_eq_map]
    simp only [List.map_cons, List.map_map]
    congr 1
    · simp [Nat.testBit, Nat.and_comm 1, Nat.and_one_is_mod]
    · apply List.map_congr_left
      intro i _
      simp [Nat.testBit_succ]

/-- NIST: X_i = 2ε_i − 1. -/
def pm (b : Bool) : Int := if b then 1 else -1

/-- S_n = X_1 + … + X_n. -/
def walkSum (l : List Bool) : Int := (l.map pm).sum

theorem ones_cons (b : Bool) (l : List Bool) : ones (b :: l) = ones l + (if b then 1 else 0) := by
  cases b <;> simp [ones]

theorem ones_le_length (l : List Bool) : ones l ≤ l.length := List.count_le_length

theorem walkSum_eq (l : List Bool) : walkSum l = 2 * (ones l : Int) - l.length := by
  induction l with
  | nil => simp [walkSum, ones]
  | cons b l ih =>
    have : walkSum (b :: l) = pm b + walkSum l := by simp [walkSum]
    rw [this, ih, ones_cons]
    cases b <;> simp [pm] <;> ring

theorem absDiff_cast (a b : Nat) : ((absDiff a b : Nat) : Int) = |(a : Int) - b| := by
  unfold absDiff
  split
  · rename_i h
    rw [Nat.cast_sub h, abs_of_nonneg]; omega
  · rename_i h
    have h' : a ≤ b := by omega
    rw [Nat.cast_sub h', abs_of_nonpos] <;> omega

theorem ones_reverse (l : List Bool) : ones l.reverse = ones l := by simp [ones]

theorem ones_map_not (l : List Bool) : ones (l.map (!·)) + ones l = l.length := by
  induction l with
  | nil => simp [ones]
  | cons b l ih =>
    simp only [List.map_cons, ones_cons, List.length_cons]
    cases b <;> simp <;> omega

theorem walkSum_reverse (l : List Bool) : walkSum l.reverse = walkSum l := by
  rw [walkSum_eq, walkSum_eq, ones_reverse, List.length_reverse]

theorem walkSum_map_not (l : List Bool) : walkSum (l.map (!·)) = - walkSum l := by
  have h := ones_map_not l
  rw [walkSum_eq, walkSum_eq, List.length_map]
  have : ((ones (l.map (!·)) : Nat) : Int) + ones l = l.length := by exact_mod_cast h
  linarith

/-- the frequency statistic of a bit list: |S_n|. -/
def freqStat (l : List Bool) : Nat := absDiff (2 * ones l) l.length

theorem freqStat_eq (l : List Bool) : (freqStat l : Int) = |walkSum l| := by
  rw [freqStat, absDiff_cast, walkSum_eq]; push_cast; rfl

theorem freqStat_reverse (l : List Bool) : freqStat l.reverse = freqStat l := by
  have := freqStat_eq l.reverse
  rw [walkSum_reverse, ← freqStat_eq] at this
  exact_mod_cast this

theorem freqStat_map_not (l : List Bool) : freqStat (l.map (!·)) = freqStat l := by
  have := freqStat_eq (l.map (!·))
  rw [walkSum_map_not, abs_neg, ← freqStat_eq] at this
  exact_mod_cast this

/-! runs -/

theorem transitions_cons_cons (a b : Bool) (l : List Bool) :
    transitions (a :: b :: l) = (if a != b then 1 else 0) + transitions (b :: l) := by
  simp only [transitions, List.tail_cons, List.zip_cons_cons, List.countP_cons]
  omega

theorem transitions_single (a : Bool) : transitions [a] = 0 := by simp [transitions]

theorem transitions_map_not (l : List Bool) : transitions (l.map (!·)) = transitions l := by
  induction l with
  | nil => rfl
  | cons a l ih =>
    cases l with
    | nil => simp [transitions]
    | cons b l =>
      simp only [List.map_cons] at ih ⊢
      rw [transitions_cons_cons, transitions_cons_cons, ih]
      cases a <;> cases b <;> rfl

theorem transitions_append_single (l : List Bool) (a b : Bool) :
    transitions (l ++ [a, b]) = transitions (l ++ [a]) + (if a != b then 1 else 0) := by
  induction l with
  | nil => simp [transitions]
  | cons c l ih =>
    cases l with
    | nil =>
      simp only [List.nil_append, List.cons_append] at ih ⊢
      rw [transitions_cons_cons, transitions_cons_cons, transitions_cons_cons, transitions_single,
        transitions_single]
      omega
    | cons d l =>
      simp only [List.cons_append] at ih ⊢
      rw [transitions_cons_cons, transitions_cons_cons (a := c), ih]
      omega

theorem transitions_reverse (l : List Bool) : transitions l.reverse = transitions l := by
  induction l with
  | nil => rfl
  | cons a l ih =>
    cases l with
    | nil => rfl
    | cons b l =>
      rw [transitions_cons_cons, ← ih]
      simp only [List.reverse_cons, List.append_assoc, List.cons_append, List.nil_append]
      rw [transitions_append_single]
      cases a <;> cases b <;> simp <;> omega

theorem runsCount_reverse (l : List Bool) : runsCount l.reverse = runsCount l := by
  simp [runsCount, transitions_reverse]

theorem runsCount_map_not (l : List Bool) : runsCount (l.map (!·)) = runsCount l := by
  simp [runsCount, transitions_map_not]

/-- NIST 2.3.4 (2): V_n(obs) = Σ_{k=1}^{n-1} r(k) + 1 with r(k) = [ε_k ≠ ε_{k+1}]. -/
theorem transitions_index (l : List Bool) :
    transitions l = (List.range (l.length - 1)).countP (fun k => l[k]? != l[k + 1]?) := by
  induction l with
  | nil => rfl
  | cons a l ih =>
    cases l with
    | nil => rfl
    | cons b l =>
      rw [transitions_cons_cons, ih]
      simp only [List.length_cons, Nat.add_sub_cancel]
      rw [List.range_succ_eq_map (n := l.length), List.countP_cons, List.countP_map]
      simp only [List.getElem?_cons_zero, List.getElem?_cons_succ, Function.comp_def]
      cases a <;> cases b <;> simp <;> omega

theorem chunksAux_spec (m : Nat) : ∀ (k : Nat) (l : List Bool) (acc : List (List Bool)),
    chunksAux m k l acc = acc.reverse ++ (List.range k).map (fun i => (l.drop (i * m)).take m)
  | 0, l, acc => by simp [chunksAux]
  | k + 1, l, acc => by
    rw [chunksAux, chunksAux_spec m k, List.range_succ_eq_map]
    simp only [List.reverse_cons, List.append_assoc, List.singleton_append, List.map_cons,
      List.map_map, Nat.zero_mul, List.drop_zero]
    congr 2
    apply List.map_congr_left
    intro i _
    simp only [Function.comp_def, List.drop_drop]
    congr 2
    rw [Nat.succ_eq_add_one]; ring

/-- the blocks are the consecutive, non-overlapping M-bit pieces; the tail is discarded. -/
theorem chunks_spec (l : List Bool) (m : Nat) :
    chunks l m = (List.range (l.length / m)).map (fun i => (l.drop (i * m)).take m) := by
  simp [chunks, chunksAux_spec]

theorem chunks_length (l : List Bool) (m : Nat) : (chunks l m).length = l.length / m := by
  simp [chunks_spec]

theorem chunk_length (l : List Bool) (m : Nat) (b : List Bool) (hb : b ∈ chunks l m) :
    b.length = m := by
  rw [chunks_spec] at hb
  simp only [List.mem_map, List.mem_range] at hb
  obtain ⟨i, hi, rfl⟩ := hb
  rw [List.length_take, List.length_drop]
  have hm : 0 < m := by
    rcases Nat.eq_zero_or_pos m with h | h
    · subst h; simp at hi
    · exact h
  have : (i + 1) * m ≤ l.length := by
    have := Nat.div_mul_le_self l.length m
    calc (i + 1) * m ≤ (l.length / m) * m := Nat.mul_le_mul_right m hi
      _ ≤ l.length := this
  have h2 : (i + 1) * m = i * m + m := by ring
  omega

theorem chunks_map (f : Bool → Bool) (l : List Bool) (m : Nat) :
    chunks (l.map f) m = (chunks l m).map (List.map f) := by
  simp only [chunks_spec, List.length_map, List.map_map]
  apply List.map_congr_left
  intro i _
  simp [List.map_take, List.map_drop]

/-! ladders -/

theorem bfLoop_spec : ∀ (f n m : Nat), 0 < m → n < m * 100 * 2 ^ f →
    n / bfLoop f n m < 100 ∧ (∃ k, bfLoop f n m = m * 2 ^ k) ∧
      (bfLoop f n m = m ∨ 100 ≤ n / (bfLoop f n m / 2))
  | 0, n, m, hm, h => by
    simp only [Nat.pow_zero, Nat.mul_one] at h
    refine ⟨?_, ⟨0, by simp [bfLoop]⟩, Or.inl (by simp [bfLoop])⟩
    simp only [bfLoop]
    exact (Nat.div_lt_iff_lt_mul hm).mpr (by omega)
  | f + 1, n, m, hm, h => by
    unfold bfLoop
    split
    · rename_i hge
      have h2 : n < 2 * m * 100 * 2 ^ f := by
        have : m * 100 * 2 ^ (f + 1) = 2 * m * 100 * 2 ^ f := by rw [Nat.pow_succ]; ring
        omega
      obtain ⟨h1, ⟨k, hk⟩, h3⟩ := bfLoop_spec f n (2 * m) (by omega) h2
      refine ⟨h1, ⟨k + 1, by rw [hk, Nat.pow_succ]; ring⟩, Or.inr ?_⟩
      rcases h3 with h3 | h3
      · rw [h3]; simpa using hge
      · exact h3
    · rename_i hlt
      refine ⟨by omega, ⟨0, by simp⟩, Or.inl rfl⟩

theorem lt_two_pow_self' (n : Nat) : n < 2 ^ n := Nat.lt_two_pow_self

/-- block size chosen by `BlockFrequency`: M ≥ 20, fewer than 100 blocks (so M > n/100), and M
is the smallest of 20, 32, 64, … with that property. -/
theorem bfBlockSize_spec (n : Nat) :
    20 ≤ bfBlockSize n ∧ n / bfBlockSize n < 100 ∧
      (bfBlockSize n = 20 ∨ ((∃ k, bfBlockSize n = 16 * 2 ^ k) ∧ 100 ≤ n / (bfBlockSize n / 2))) := by
  have hlt : n < 16 * 100 * 2 ^ n := by
    have := lt_two_pow_self' n
    omega
  obtain ⟨h1, ⟨k, hk⟩, h3⟩ := bfLoop_spec n n 16 (by omega) hlt
  unfold bfBlockSize
  refine ⟨Nat.le_max_left _ _, ?_, ?_⟩
  · calc n / max 20 (bfLoop n n 16) ≤ n / bfLoop n n 16 :=
          Nat.div_le_div_left (Nat.le_max_right _ _) (by rw [hk]; positivity)
      _ < 100 := h1
  · rcases Nat.lt_or_ge (bfLoop n n 16) 21 with hs | hs
    · left; omega
    · right
      have hmax : max 20 (bfLoop n n 16) = bfLoop n n 16 := by omega
      rw [hmax]
      refine ⟨⟨k, hk⟩, ?_⟩
      rcases h3 with h3 | h3
      · omega
      · exact h3

theorem blockFrequency_error_iff (bits n : Nat) :
    (∃ e, blockFrequency bits n = .error e) ↔ n < 100 := by
  unfold blockFrequency
  split <;> simp_all

theorem blockFrequency_error (bits n : Nat) (e : PyErr) (h : blockFrequency bits n = .error e) :
    e = .insufficientData := by
  unfold blockFrequency at h
  split at h <;> simp_all

theorem lrParams_spec (n : Nat) :
    (lrParams n = none ↔ n < 128) ∧
    (lrParams n = some (8, 1, 4) ↔ 128 ≤ n ∧ n < 6272) ∧
    (lrParams n = some (128, 4, 9) ↔ 6272 ≤ n ∧ n < 750000) ∧
    (lrParams n = some (10000, 10, 16) ↔ 750000 ≤ n) := by
  unfold lrParams
  split_ifs <;> simp <;> omega

theorem longestRuns_error_iff (bits n : Nat) :
    (∃ e, longestRuns bits n = .error e) ↔ n < 128 := by
  unfold longestRuns
  have := (lrParams_spec n).1
  split
  · rename_i h; simp [this.mp h]
  · rename_i m vl vu h
    have : ¬ n < 128 := fun hn => by rw [this.mpr hn] at h; cases h
    simp [this]

theorem notmM_spec (bs : Nat) :
    (notmM bs = none ↔ bs < 4) ∧
    (notmM bs = some 2 ↔ 4 ≤ bs ∧ bs < 64) ∧ (notmM bs = some 3 ↔ 64 ≤ bs ∧ bs < 256) ∧
    (notmM bs = some 4 ↔ 256 ≤ bs ∧ bs < 1024) ∧ (notmM bs = some 5 ↔ 1024 ≤ bs ∧ bs < 2048) ∧
    (notmM bs = some 6 ↔ 2048 ≤ bs ∧ bs < 4096) ∧ (notmM bs = some 7 ↔ 4096 ≤ bs ∧ bs < 8192) ∧
    (notmM bs = some 8 ↔ 8192 ≤ bs ∧ bs < 16384) ∧ (notmM bs = some 9 ↔ 16384 ≤ bs ∧ bs < 32768) ∧
    (notmM bs = some 10 ↔ 32768 ≤ bs) := by
  unfold notmM
  split_ifs <;> simp <;> omega

theorem linearComplexityImpl_not_insufficient (m : Nat) (cs : List Nat) :
    linearComplexityImpl m cs ≠ .error .insufficientData := by
  unfold linearComplexityImpl
  split
  · simp
  · have key : ∀ cs e, sumNegLogProb m cs = .error e → e = .valueError := by
      intro cs
      induction cs with
      | nil => intro e h; simp [sumNegLogProb] at h
      | cons c cs ih =>
        intro e h
        unfold sumNegLogProb at h
        split at h
        · simp at h
        · rename_i e' he
          simp only [Except.error.injEq] at h
          subst h
          unfold lfsrNegLogProb at he
          split_ifs at he <;> simp_all
        · rename_i e' he hne
          simp only [Except.error.injEq] at h
          subst h
          exact ih _ he
    split
    · rename_i e he
      intro h
      simp only [Except.error.injEq] at h
      have := key _ _ he
      simp_all
    · simp

theorem linearComplexity_insufficient_iff (n bs : Nat) (cs : List Nat) :
    linearComplexity n bs cs = .error .insufficientData ↔ bs < 10 ∨ bs * 200 > n := by
  unfold linearComplexity
  split_ifs with h1 h2
  · simp [h1]
  · simp [h2]
  · have := linearComplexityImpl_not_insufficient bs cs
    simp [this]; omega

theorem largeRank_error_iff (bits n : Nat) :
    (∃ e, largeBinaryMatrixRank bits n = .error e) ↔ n < 4096 := by
  unfold largeBinaryMatrixRank
  split <;> simp_all

/-! rank -/
theorem binaryMatrixRankImpl_insufficient_iff (rows : List Nat) (r c k : Nat) (hr : 0 < r) :
    binaryMatrixRankImpl rows r c k = .error .insufficientData ↔ rows.length / r < 1 := by
  unfold binaryMatrixRankImpl
  split_ifs <;> simp_all

/-- NIST 2.5.7: the test needs n ≥ 38·r·c (38 matrices). -/
theorem binaryMatrixRank_insufficient_iff (bits n r c k : Nat) (hk : 1 ≤ k) (hkm : k ≤ min r c) :
    binaryMatrixRank bits n r c k true = .error .insufficientData ↔ n < 38 * r * c := by
  have hr : 0 < r := by omega
  have hc : 0 < c := by omega
  unfold binaryMatrixRank
  have h0 : ¬ min r c < k := by omega
  simp only [h0, if_false, true_and]
  split_ifs with h1 h2
  · simp [h1]
  · omega
  · rw [binaryMatrixRankImpl_insufficient_iff _ _ _ _ hr]
    simp only [List.length_map, chunks_length, bitList_length]
    constructor
    · intro h
      exfalso
      have : 38 * r * c ≤ n := by omega
      have h3 : 38 * r ≤ n / c := (Nat.le_div_iff_mul_le hc).mpr this
      have h4 : 38 ≤ n / c / r := (Nat.le_div_iff_mul_le hr).mpr h3
      omega
    · intro h; omega

/-! universal -/
theorem universalMinN_eq_consts : universalMinN = Paranoid.Consts.Nist.universalMinN := by decide

/-- NIST 2.9.7: L is the largest block size whose minimal length is reached. -/
theorem universalL_spec (n L : Nat) :
    universalL n = some L ↔
      (∃ b, (L, b) ∈ universalMinN ∧ b ≤ n) ∧ ∀ L' b', (L', b') ∈ universalMinN → b' ≤ n → L' ≤ L := by
  unfold universalL
  rw [List.max?_eq_some_iff]
  simp only [List.mem_map, List.mem_filter, decide_eq_true_eq, Prod.exists, exists_and_right,
    exists_eq_right, forall_exists_index, and_imp]

theorem universalL_none_iff (n : Nat) : universalL n = none ↔ n < 387840 := by
  unfold universalL
  rw [List.max?_eq_none_iff, List.map_eq_nil_iff, List.filter_eq_nil_iff]
  constructor
  · intro h
    have := h (6, 387840) (by decide)
    simpa using this
  · intro h p hp
    have hb : 387840 ≤ p.2 := by
      revert p
      decide
    simp; omega

theorem uniStep_error (q : Nat) (st : Except PyErr (Array Nat × Nat × List Nat)) (b : Nat) (e : PyErr)
    (hst : ∀ e', st = .error e' → e' = .indexError) (h : uniStep q st b = .error e) :
    e = .indexError := by
  unfold uniStep at h
  split at h
  · rename_i e'
    simp only [Except.error.injEq] at h
    subst h
    exact hst _ rfl
  · split at h
    · simp only [Except.error.injEq] at h; exact h.symm
    · split at h <;> simp at h

theorem uniFold_error (q : Nat) : ∀ (bs : List Nat) (st : Except PyErr (Array Nat × Nat × List Nat)),
    (∀ e', st = .error e' → e' = .indexError) →
    ∀ e, bs.foldl (uniStep q) st = .error e → e = .indexError
  | [], st, hst, e, h => hst e h
  | b :: bs, st, hst, e, h => by
    simp only [List.foldl_cons] at h
    exact uniFold_error q bs _ (fun e' he' => uniStep_error q st b e' hst he') e h

theorem universalImpl_not_insufficient (bits n L q : Nat) :
    universalImpl bits n L q ≠ .error .insufficientData := by
  unfold universalImpl
  split_ifs
  · simp
  · simp
  · simp
  · simp
  · split
    · rename_i e he
      have := uniFold_error q _ _ (by simp) e he
      simp [this]
    · simp

theorem universal_insufficient_iff' (bits n : Nat) (hL : universalL n = none ↔ n < 387840) :
    universal bits n = .error .insufficientData ↔ n < 387840 := by
  unfold universal
  split
  · rename_i h; simp [hL.mp h]
  · rename_i l h
    have h1 := universalImpl_not_insufficient bits n l (10 * 2 ^ l)
    have h2 : ¬ n < 387840 := fun hn => by rw [hL.mpr hn] at h; cases h
    simp [h1, h2]

/-! serial / approximate entropy -/

theorem bitLength_eq (n : Nat) (h : n ≠ 0) : bitLength n = Nat.log2 n + 1 := by simp [bitLength, h]

/-- NIST 2.11.7: m < ⌊log₂ n⌋ − 2; the code takes the largest such m, capped at 22, at least 2. -/
theorem serialMMax_spec (n : Nat) :
    2 ≤ serialMMax n ∧ serialMMax n ≤ 22 ∧
      (32 ≤ n → serialMMax n + 3 ≤ Nat.log2 n ∧ (serialMMax n = 22 ∨ serialMMax n + 3 = Nat.log2 n)) := by
  unfold serialMMax
  refine ⟨by omega, by omega, fun hn => ?_⟩
  have h5 : 5 ≤ Nat.log2 n := by
    rw [Nat.le_log2 (by omega)]; omega
  rw [bitLength_eq n (by omega)]
  omega

/-- NIST 2.12.7: m < ⌊log₂ n⌋ − 5. The default never exceeds that bound (except for the floor 2),
and is reduced further for long inputs. -/
theorem apenMMax_spec (n : Nat) (hn : 256 ≤ n) :
    2 ≤ apenMMax n ∧ apenMMax n ≤ 22 ∧ apenMMax n + 6 ≤ Nat.log2 n ∧
    (n < 2 ^ 16 → apenMMax n + 6 = Nat.log2 n) ∧
    (2 ^ 16 ≤ n → n < 2 ^ 20 → apenMMax n + 7 = Nat.log2 n) ∧
    (2 ^ 20 ≤ n → n < 2 ^ 24 → apenMMax n + 8 = Nat.log2 n) ∧
    (2 ^ 24 ≤ n → apenMMax n = min 22 (Nat.log2 n - 9)) := by
  have h8 : 8 ≤ Nat.log2 n := by rw [Nat.le_log2 (by omega)]; omega
  have hbl := bitLength_eq n (by omega)
  have l16 : 2 ^ 16 ≤ n ↔ 16 ≤ Nat.log2 n := (Nat.le_log2 (by omega)).symm
  have l20 : 2 ^ 20 ≤ n ↔ 20 ≤ Nat.log2 n := (Nat.le_log2 (by omega)).symm
  have l24 : 2 ^ 24 ≤ n ↔ 24 ≤ Nat.log2 n := (Nat.le_log2 (by omega)).symm
  unfold apenMMax
  rw [hbl]
  split_ifs <;> omega

theorem sqDev_cast (m c : Nat) : ((sqDev m c : Nat) : Int) = (2 * (c : Int) - m) ^ 2 := by
  unfold sqDev
  push_cast
  rw [absDiff_cast]
  push_cast
  rw [abs_mul_abs_self]; ring

theorem sqDev_compl (m c : Nat) (h : c ≤ m) : sqDev m (m - c) = sqDev m c := by
  have h1 := sqDev_cast m (m - c)
  have h2 := sqDev_cast m c
  rw [Nat.cast_sub h] at h1
  have : (2 * ((m : Int) - c) - m) ^ 2 = (2 * (c : Int) - m) ^ 2 := by ring
  rw [this, ← h2] at h1
  exact_mod_cast h1

/-- NIST 2.2.4: χ²(obs) = 4M Σ (πᵢ − ½)², πᵢ = (ones in block i)/M. -/
theorem blockFrequency_chi (m : Nat) (hm : 0 < m) (counts : List Nat) :
    (((blockFrequencyImpl m counts).num : ℚ) / (blockFrequencyImpl m counts).den) =
      4 * m * (counts.map (fun (c : Nat) => ((c : ℚ) / m - 1 / 2) ^ 2)).sum := by
  simp only [blockFrequencyImpl]
  have hm' : (m : ℚ) ≠ 0 := by exact_mod_cast hm.ne'
  induction counts with
  | nil => simp
  | cons c cs ih =>
    simp only [List.map_cons, List.sum_cons, Nat.cast_add]
    rw [add_div, ih, mul_add]
    congr 1
    have h := sqDev_cast m c
    have h' : ((sqDev m c : Nat) : ℚ) = (2 * (c : ℚ) - m) ^ 2 := by exact_mod_cast h
    rw [h']
    field_simp
    ring

theorem blockFrequency_chi_nonneg (m : Nat) (counts : List Nat) :
    (0 : ℚ) ≤ ((blockFrequencyImpl m counts).num : ℚ) / (blockFrequencyImpl m counts).den := by
  positivity

/-- complementing the string leaves the block-frequency χ² unchanged. -/
theorem blockFrequency_num_compl (l : List Bool) (m : Nat) :
    (blockFrequencyImpl m ((chunks (l.map (!·)) m).map ones)).num =
      (blockFrequencyImpl m ((chunks l m).map ones)).num := by
  simp only [blockFrequencyImpl, chunks_map, List.map_map]
  congr 1
  apply List.map_congr_left
  intro b hb
  simp only [Function.comp_def]
  have hl := chunk_length l m b hb
  have h1 := ones_map_not b
  have h2 := ones_le_length b
  have : ones (b.map (!·)) = m - ones b := by omega
  rw [this, sqDev_compl m _ (by omega)]

/-! tally -/
theorem tally_fold_size (vals : List Nat) : ∀ (a : Array Nat),
    (vals.foldl (fun a v => a.modify v (· + 1)) a).size = a.size := by
  induction vals with
  | nil => intro a; rfl
  | cons v vs ih => intro a; simp [List.foldl_cons, ih]

theorem tally_fold_get (vals : List Nat) : ∀ (a : Array Nat) (i : Nat),
    (vals.foldl (fun a v => a.modify v (· + 1)) a)[i]? = (a[i]?).map (· + vals.count i) := by
  induction vals with
  | nil => intro a i; simp
  | cons v vs ih =>
    intro a i
    rw [List.foldl_cons, ih, Array.getElem?_modify]
    by_cases h : v = i
    · subst h
      cases hq : a[v]? <;> simp
      omega
    · cases hq : a[i]? <;> simp [h]

/-- `tally size vals` = for each class `i < size` the number of `vals` equal to `i`. -/
theorem tally_spec (size : Nat) (vals : List Nat) :
    (tally size vals).toList = (List.range size).map (fun i => vals.count i) := by
  apply List.ext_getElem?
  intro i
  unfold tally
  rw [Array.getElem?_toList, tally_fold_get]
  by_cases h : i < size
  · simp [h]
  · simp [h]

/-- the states S_1, S_2, … visited by the walk that starts in `s`. -/
def walkFrom (s : Int) : List Bool → List Int
  | [] => []
  | b :: l => (s + pm b) :: walkFrom (s + pm b) l

/-- `z` is the maximum of the list `vals`. -/
def IsMaxOf {α} [LE α] (z : α) (vals : List α) : Prop := z ∈ vals ∧ ∀ v ∈ vals, v ≤ z

/-- `z` is the minimum of the list `vals`. -/
def IsMinOf {α} [LE α] (z : α) (vals : List α) : Prop := z ∈ vals ∧ ∀ v ∈ vals, z ≤ v

theorem listMax_spec : ∀ (l : List Int), (listMax l = none ↔ l = []) ∧
    ∀ m, listMax l = some m → m ∈ l ∧ ∀ x ∈ l, x ≤ m
  | [] => by simp [listMax]
  | a :: l => by
    obtain ⟨h1, h2⟩ := listMax_spec l
    unfold listMax
    constructor
    · split <;> simp
    · intro m hm
      split at hm
      · rename_i hn
        simp only [Option.some.injEq] at hm
        subst hm
        have := h1.mp hn
        subst this
        simp
      · rename_i m' hm'
        simp only [Option.some.injEq] at hm
        subst hm
        obtain ⟨h3, h4⟩ := h2 m' hm'
        constructor
        · rcases le_total a m' with h | h
          · rw [max_eq_right h]; exact List.mem_cons_of_mem _ h3
          · rw [max_eq_left h]; exact List.mem_cons_self
        · intro x hx
          rcases List.mem_cons.mp hx with rfl | hx
          · exact le_max_left _ _
          · exact le_trans (h4 x hx) (le_max_right _ _)

theorem listMin_spec : ∀ (l : List Int), (listMin l = none ↔ l = []) ∧
    ∀ m, listMin l = some m → m ∈ l ∧ ∀ x ∈ l, m ≤ x
  | [] => by simp [listMin]
  | a :: l => by
    obtain ⟨h1, h2⟩ := listMin_spec l
    unfold listMin
    constructor
    · split <;> simp
    · intro m hm
      split at hm
      · rename_i hn
        simp only [Option.some.injEq] at hm
        subst hm
        have := h1.mp hn
        subst this
        simp
      · rename_i m' hm'
        simp only [Option.some.injEq] at hm
        subst hm
        obtain ⟨h3, h4⟩ := h2 m' hm'
        constructor
        · rcases le_total a m' with h | h
          · rw [min_eq_left h]; exact List.mem_cons_self
          · rw [min_eq_right h]; exact List.mem_cons_of_mem _ h3
        · intro x hx
          rcases List.mem_cons.mp hx with rfl | hx
          · exact min_le_left _ _
          · exact le_trans (min_le_right _ _) (h4 x hx)

/-- invariant of the `RandomWalk` loop: `vis` = the states visited so far. -/
structure RWInv (m2 : Int) (st : RW) (vis : List Int) : Prop where
  max_nonneg : 0 ≤ st.maxOut
  max_mem : st.maxOut ≠ 0 → st.maxOut ∈ vis ∧ m2 < st.maxOut
  max_ub : ∀ v ∈ vis, m2 < v → v ≤ st.maxOut
  min_nonpos : st.minOut ≤ 0
  min_mem : st.minOut ≠ 0 → st.minOut ∈ vis ∧ st.minOut < -m2
  min_lb : ∀ v ∈ vis, v < -m2 → st.minOut ≤ v
  flat : ∀ x, x ∈ (rwCycles st).flatten ↔ (x ∈ vis ∧ x ≠ 0 ∧ -m2 ≤ x ∧ x ≤ m2)

theorem rwInv_init (m2 : Int) : RWInv m2 rwInit [] := by
  constructor <;> simp [rwInit, rwCycles]

theorem rwInv_move (m2 : Int) (hm2 : 0 ≤ m2) (st : RW) (vis : List Int) (s : Int)
    (h : RWInv m2 st vis) : RWInv m2 (rwMove m2 st s) (s :: vis) := by
  unfold rwMove
  split_ifs with h1 h2 h3
  · -- s > m2
    refine ⟨?_, ?_, ?_, h.min_nonpos, ?_, ?_, ?_⟩
    · exact le_trans h.max_nonneg (le_max_left _ _)
    · intro _
      rcases le_total st.maxOut s with hle | hle
      · simp only [max_eq_right hle]; exact ⟨List.mem_cons_self, h1⟩
      · simp only [max_eq_left hle]
        have hne : st.maxOut ≠ 0 := by intro h0; rw [h0] at hle; omega
        exact ⟨List.mem_cons_of_mem _ (h.max_mem hne).1, (h.max_mem hne).2⟩
    · intro v hv hgt
      rcases List.mem_cons.mp hv with rfl | hv
      · exact le_max_right _ _
      · exact le_trans (h.max_ub v hv hgt) (le_max_left _ _)
    · intro hne; exact ⟨List.mem_cons_of_mem _ (h.min_mem hne).1, (h.min_mem hne).2⟩
    · intro v hv hlt
      rcases List.mem_cons.mp hv with rfl | hv
      · omega
      · exact h.min_lb v hv hlt
    · intro x
      have := h.flat x
      simp only [rwCycles] at this ⊢
      rw [this]
      constructor
      · rintro ⟨a, b, c, d⟩; exact ⟨List.mem_cons_of_mem _ a, b, c, d⟩
      · rintro ⟨a, b, c, d⟩
        rcases List.mem_cons.mp a with rfl | a
        · omega
        · exact ⟨a, b, c, d⟩
  · -- s < -m2
    refine ⟨h.max_nonneg, ?_, ?_, ?_, ?_, ?_, ?_⟩
    · intro hne; exact ⟨List.mem_cons_of_mem _ (h.max_mem hne).1, (h.max_mem hne).2⟩
    · intro v hv hgt
      rcases List.mem_cons.mp hv with rfl | hv
      · omega
      · exact h.max_ub v hv hgt
    · exact le_trans (min_le_left _ _) h.min_nonpos
    · intro _
      rcases le_total st.minOut s with hle | hle
      · simp only [min_eq_left hle]
        have hne : st.minOut ≠ 0 := by intro h0; rw [h0] at hle; omega
        exact ⟨List.mem_cons_of_mem _ (h.min_mem hne).1, (h.min_mem hne).2⟩
      · simp only [min_eq_right hle]; exact ⟨List.mem_cons_self, h2⟩
    · intro v hv hlt
      rcases List.mem_cons.mp hv with rfl | hv
      · exact min_le_right _ _
      · exact le_trans (min_le_left _ _) (h.min_lb v hv hlt)
    · intro x
      have := h.flat x
      simp only [rwCycles] at this ⊢
      rw [this]
      constructor
      · rintro ⟨a, b, c, d⟩; exact ⟨List.mem_cons_of_mem _ a, b, c, d⟩
      · rintro ⟨a, b, c, d⟩
        rcases List.mem_cons.mp a with rfl | a
        · omega
        · exact ⟨a, b, c, d⟩
  · -- in range, non-zero
    refine ⟨h.max_nonneg, ?_, ?_, h.min_nonpos, ?_, ?_, ?_⟩
    · intro hne; exact ⟨List.mem_cons_of_mem _ (h.max_mem hne).1, (h.max_mem hne).2⟩
    · intro v hv hgt
      rcases List.mem_cons.mp hv with rfl | hv
      · omega
      · exact h.max_ub v hv hgt
    · intro hne; exact ⟨List.mem_cons_of_mem _ (h.min_mem hne).1, (h.min_mem hne).2⟩
    · intro v hv hlt
      rcases List.mem_cons.mp hv with rfl | hv
      · omega
      · exact h.min_lb v hv hlt
    · intro x
      have := h.flat x
      simp only [rwCycles, List.flatten_cons, List.mem_append, List.mem_cons] at this ⊢
      constructor
      · rintro ((rfl | hx) | hx)
        · exact ⟨Or.inl rfl, h3, by omega, by omega⟩
        · obtain ⟨a, b, c, d⟩ := this.mp (Or.inl hx); exact ⟨Or.inr a, b, c, d⟩
        · obtain ⟨a, b, c, d⟩ := this.mp (Or.inr hx); exact ⟨Or.inr a, b, c, d⟩
      · rintro ⟨a | a, b, c, d⟩
        · exact Or.inl (Or.inl a)
        · rcases this.mpr ⟨a, b, c, d⟩ with hx | hx
          · exact Or.inl (Or.inr hx)
          · exact Or.inr hx
  · -- s = 0
    have hs : s = 0 := by omega
    refine ⟨h.max_nonneg, ?_, ?_, h.min_nonpos, ?_, ?_, ?_⟩
    · intro hne; exact ⟨List.mem_cons_of_mem _ (h.max_mem hne).1, (h.max_mem hne).2⟩
    · intro v hv hgt
      rcases List.mem_cons.mp hv with rfl | hv
      · omega
      · exact h.max_ub v hv hgt
    · intro hne; exact ⟨List.mem_cons_of_mem _ (h.min_mem hne).1, (h.min_mem hne).2⟩
    · intro v hv hlt
      rcases List.mem_cons.mp hv with rfl | hv
      · omega
      · exact h.min_lb v hv hlt
    · intro x
      have := h.flat x
      simp only [rwCycles, List.flatten_cons, List.mem_append, List.nil_append] at this ⊢
      rw [this]
      constructor
      · rintro ⟨a, b, c, d⟩; exact ⟨List.mem_cons_of_mem _ a, b, c, d⟩
      · rintro ⟨a, b, c, d⟩
        rcases List.mem_cons.mp a with rfl | a
        · omega
        · exact ⟨a, b, c, d⟩

theorem rwMove_s (m2 : Int) (st : RW) (s : Int) : (rwMove m2 st s).s = s := by
  unfold rwMove; split_ifs <;> rfl

theorem rwInv_fold (m2 : Int) (hm2 : 0 ≤ m2) : ∀ (l : List Bool) (st : RW) (vis : List Int),
    RWInv m2 st vis →
    RWInv m2 (l.foldl (rwStep m2) st) ((walkFrom st.s l).reverse ++ vis) ∧
      (l.foldl (rwStep m2) st).s = st.s + walkSum l
  | [], st, vis, h => by simp [walkFrom, walkSum, h]
  | b :: l, st, vis, h => by
    have h1 := rwInv_move m2 hm2 st vis (st.s + pm b) h
    have hs : (rwStep m2 st b).s = st.s + pm b := by
      unfold rwStep; rw [rwMove_s]; rfl
    obtain ⟨h2, h3⟩ := rwInv_fold m2 hm2 l (rwStep m2 st b) ((st.s + pm b) :: vis) (by
      unfold rwStep; exact h1)
    rw [hs] at h2 h3
    simp only [List.foldl_cons, walkFrom, List.reverse_cons, List.append_assoc, List.singleton_append]
    refine ⟨h2, ?_⟩
    rw [h3]
    simp [walkSum]; ring

/-- repaired extremes: `maxs` is the maximum of S_0 = 0, S_1, …, S_n. -/
theorem rwMax_repaired (m2 : Int) (hm2 : 0 ≤ m2) (st : RW) (vis : List Int) (h : RWInv m2 st vis) :
    ∃ M, rwMax .repaired st = .ok M ∧ IsMaxOf M (0 :: vis) := by
  unfold rwMax
  split_ifs with h0
  · refine ⟨st.maxOut, rfl, List.mem_cons_of_mem _ (h.max_mem h0).1, ?_⟩
    intro v hv
    rcases List.mem_cons.mp hv with rfl | hv
    · exact h.max_nonneg
    · rcases lt_or_ge m2 v with hgt | hle
      · exact h.max_ub v hv hgt
      · have := (h.max_mem h0).2; omega
  · have h0' : st.maxOut = 0 := by simpa using h0
    have hnone : ∀ v ∈ vis, v ≤ m2 := by
      intro v hv
      by_contra hc
      have := h.max_ub v hv (by omega)
      omega
    obtain ⟨hn, hs⟩ := listMax_spec (rwCycles st).flatten
    cases hq : listMax (rwCycles st).flatten with
    | none =>
      refine ⟨0, rfl, List.mem_cons_self, ?_⟩
      have hnil := hn.mp hq
      intro v hv
      rcases List.mem_cons.mp hv with rfl | hv
      · exact le_refl _
      · by_contra hc
        have hpos : 0 < v := by omega
        have : v ∈ (rwCycles st).flatten := (h.flat v).mpr ⟨hv, by omega, by omega, hnone v hv⟩
        rw [hnil] at this
        simp at this
    | some m =>
      obtain ⟨hm, hub⟩ := hs m hq
      refine ⟨max m 0, rfl, ?_, ?_⟩
      · rcases le_total m 0 with hle | hle
        · rw [max_eq_right hle]; exact List.mem_cons_self
        · rw [max_eq_left hle]; exact List.mem_cons_of_mem _ ((h.flat m).mp hm).1
      · intro v hv
        rcases List.mem_cons.mp hv with rfl | hv
        · exact le_max_right _ _
        · rcases le_or_gt v 0 with hle | hpos
          · exact le_trans hle (le_max_right _ _)
          · have : v ∈ (rwCycles st).flatten := (h.flat v).mpr ⟨hv, by omega, by omega, hnone v hv⟩
            exact le_trans (hub v this) (le_max_left _ _)

theorem rwMin_repaired (m2 : Int) (hm2 : 0 ≤ m2) (st : RW) (vis : List Int) (h : RWInv m2 st vis) :
    ∃ M, rwMin .repaired st = .ok M ∧ IsMinOf M (0 :: vis) := by
  unfold rwMin
  split_ifs with h0
  · refine ⟨st.minOut, rfl, List.mem_cons_of_mem _ (h.min_mem h0).1, ?_⟩
    intro v hv
    rcases List.mem_cons.mp hv with rfl | hv
    · exact h.min_nonpos
    · rcases lt_or_ge v (-m2) with hgt | hle
      · exact h.min_lb v hv hgt
      · have := (h.min_mem h0).2; omega
  · have h0' : st.minOut = 0 := by simpa using h0
    have hnone : ∀ v ∈ vis, -m2 ≤ v := by
      intro v hv
      by_contra hc
      have := h.min_lb v hv (by omega)
      omega
    obtain ⟨hn, hs⟩ := listMin_spec (rwCycles st).flatten
    cases hq : listMin (rwCycles st).flatten with
    | none =>
      refine ⟨0, rfl, List.mem_cons_self, ?_⟩
      have hnil := hn.mp hq
      intro v hv
      rcases List.mem_cons.mp hv with rfl | hv
      · exact le_refl _
      · by_contra hc
        have hneg : v < 0 := by omega
        have hub : v ≤ m2 := by omega
        have : v ∈ (rwCycles st).flatten := (h.flat v).mpr ⟨hv, by omega, hnone v hv, hub⟩
        rw [hnil] at this
        simp at this
    | some m =>
      obtain ⟨hm, hlb⟩ := hs m hq
      refine ⟨min m 0, rfl, ?_, ?_⟩
      · rcases le_total m 0 with hle | hle
        · rw [min_eq_left hle]; exact List.mem_cons_of_mem _ ((h.flat m).mp hm).1
        · rw [min_eq_right hle]; exact List.mem_cons_self
      · intro v hv
        rcases List.mem_cons.mp hv with rfl | hv
        · exact min_le_right _ _
        · rcases le_or_gt 0 v with hle | hneg
          · exact le_trans (min_le_right _ _) hle
          · have hub : v ≤ m2 := by omega
            have : v ∈ (rwCycles st).flatten := (h.flat v).mpr ⟨hv, by omega, hnone v hv, hub⟩
            exact le_trans (min_le_left _ _) (hlb v this)

/-- from the extremes to the two cusum statistics. -/
theorem cusum_of_extremes (vals : List Int) (sn M m : Int) (hM : IsMaxOf M vals) (hm : IsMinOf m vals)
    (h0 : (0 : Int) ∈ vals) :
    IsMaxOf ((max M (-m)).toNat) (vals.map Int.natAbs) ∧
    IsMaxOf ((max (M - sn) (sn - m)).toNat) (vals.map (fun s => (sn - s).natAbs)) := by
  obtain ⟨hM1, hM2⟩ := hM
  obtain ⟨hm1, hm2⟩ := hm
  have hM0 := hM2 0 h0
  have hm0 := hm2 0 h0
  constructor
  · constructor
    · rcases le_total M (-m) with hle | hle
      · rw [max_eq_right hle]
        exact List.mem_map.mpr ⟨m, hm1, by omega⟩
      · rw [max_eq_left hle]
        exact List.mem_map.mpr ⟨M, hM1, by omega⟩
    · intro v hv
      obtain ⟨s, hs, rfl⟩ := List.mem_map.mp hv
      have a := hM2 s hs
      have b := hm2 s hs
      have : (max M (-m)) = max M (-m) := rfl
      rcases le_total M (-m) with hle | hle
      · rw [max_eq_right hle]; omega
      · rw [max_eq_left hle]; omega
  · constructor
    · rcases le_total (M - sn) (sn - m) with hle | hle
      · rw [max_eq_right hle]
        exact List.mem_map.mpr ⟨m, hm1, by omega⟩
      · rw [max_eq_left hle]
        exact List.mem_map.mpr ⟨M, hM1, by omega⟩
    · intro v hv
      obtain ⟨s, hs, rfl⟩ := List.mem_map.mp hv
      have a := hM2 s hs
      have b := hm2 s hs
      rcases le_total (M - sn) (sn - m) with hle | hle
      · rw [max_eq_right hle]; omega
      · rw [max_eq_left hle]; omega

/-- second invariant: number of cycles and visit totals. -/
structure RWCnt (m2 : Int) (st : RW) (vis : List Int) : Prop where
  cycles_len : (rwCycles st).length = vis.count 0 + 1
  count_eq : ∀ x, x ≠ 0 → -m2 ≤ x → x ≤ m2 → (rwCycles st).flatten.count x = vis.count x

theorem rwCnt_init (m2 : Int) : RWCnt m2 rwInit [] := by
  constructor <;> simp [rwInit, rwCycles]

theorem rwCnt_move (m2 : Int) (hm2 : 0 ≤ m2) (st : RW) (vis : List Int) (s : Int)
    (h : RWCnt m2 st vis) : RWCnt m2 (rwMove m2 st s) (s :: vis) := by
  unfold rwMove
  split_ifs with h1 h2 h3
  · constructor
    · have := h.cycles_len
      simp only [rwCycles, List.length_cons] at this ⊢
      rw [List.count_cons_of_ne (by omega)]; exact this
    · intro x hx hl hu
      have := h.count_eq x hx hl hu
      simp only [rwCycles] at this ⊢
      rw [List.count_cons_of_ne (by omega)]; exact this
  · constructor
    · have := h.cycles_len
      simp only [rwCycles, List.length_cons] at this ⊢
      rw [List.count_cons_of_ne (by omega)]; exact this
    · intro x hx hl hu
      have := h.count_eq x hx hl hu
      simp only [rwCycles] at this ⊢
      rw [List.count_cons_of_ne (by omega)]; exact this
  · constructor
    · have := h.cycles_len
      simp only [rwCycles, List.length_cons] at this ⊢
      rw [List.count_cons_of_ne (by omega)]; exact this
    · intro x hx hl hu
      have := h.count_eq x hx hl hu
      simp only [rwCycles, List.flatten_cons, List.count_append, List.count_cons] at this ⊢
      omega
  · have hs : s = 0 := by omega
    subst hs
    constructor
    · have := h.cycles_len
      simp only [rwCycles, List.length_cons, List.count_cons_self] at this ⊢
      omega
    · intro x hx hl hu
      have := h.count_eq x hx hl hu
      simp only [rwCycles, List.flatten_cons, List.count_append, List.nil_append] at this ⊢
      rw [List.count_cons_of_ne (by omega)]
      omega

theorem rwCnt_fold (m2 : Int) (hm2 : 0 ≤ m2) : ∀ (l : List Bool) (st : RW) (vis : List Int),
    RWCnt m2 st vis → RWCnt m2 (l.foldl (rwStep m2) st) ((walkFrom st.s l).reverse ++ vis)
  | [], st, vis, h => by simpa [walkFrom] using h
  | b :: l, st, vis, h => by
    have h1 := rwCnt_move m2 hm2 st vis (st.s + pm b) h
    have hs : (rwStep m2 st b).s = st.s + pm b := by
      unfold rwStep; rw [rwMove_s]; rfl
    have h2 := rwCnt_fold m2 hm2 l (rwStep m2 st b) ((st.s + pm b) :: vis) (by
      unfold rwStep; exact h1)
    rw [hs] at h2
    simpa only [List.foldl_cons, walkFrom, List.reverse_cons, List.append_assoc,
      List.singleton_append] using h2

/-! per-cycle visit counts -/

def bump (k : Nat) : List Nat → List Nat
  | [] => [k]
  | c :: cs => (c + k) :: cs

/-- NIST 2.14.4: for the walk S₁ … Sₙ (then the final 0 of S′) the number of visits to `x` in
each cycle; a cycle ends at every return to 0. -/
def visitCounts (x : Int) : List Int → List Nat
  | [] => [0]
  | s :: w => if s = 0 then 0 :: visitCounts x w else bump (if s = x then 1 else 0) (visitCounts x w)

theorem visitCounts_ne_nil (x : Int) : ∀ w, visitCounts x w ≠ []
  | [] => by simp [visitCounts]
  | s :: w => by
    unfold visitCounts
    split
    · simp
    · have := visitCounts_ne_nil x w
      cases h : visitCounts x w <;> simp_all [bump]

theorem bump_zero (l : List Nat) (h : l ≠ []) : bump 0 l = l := by
  cases l <;> simp_all [bump]

theorem bump_bump (a b : Nat) (l : List Nat) (h : l ≠ []) : bump a (bump b l) = bump (b + a) l := by
  cases l with
  | nil => simp_all
  | cons c cs => simp only [bump, List.cons.injEq, and_true]; omega

theorem visitCounts_cons (x s : Int) (w : List Int) :
    visitCounts x (s :: w) =
      if s = 0 then 0 :: visitCounts x w else bump (if s = x then 1 else 0) (visitCounts x w) := rfl

theorem visits_fold (m2 : Int) (hm2 : 0 ≤ m2) (x : Int) (hx : x ≠ 0) (hl : -m2 ≤ x) (hu : x ≤ m2) :
    ∀ (w : List Int) (st : RW),
    ((rwCycles (w.foldl (rwMove m2) st)).map (List.count x)).reverse =
      (st.done.map (List.count x)).reverse ++ bump (st.cur.count x) (visitCounts x w)
  | [], st => by simp [rwCycles, visitCounts, bump]
  | s :: w, st => by
    rw [List.foldl_cons, visits_fold m2 hm2 x hx hl hu w, visitCounts_cons]
    have hne := visitCounts_ne_nil x w
    by_cases h1 : s > m2
    · have e : rwMove m2 st s = { st with s := s, maxOut := max st.maxOut s } := by
        unfold rwMove; rw [if_pos h1]
      have h0 : s ≠ 0 := by omega
      have hsx : s ≠ x := by omega
      rw [e, if_neg h0, if_neg hsx, bump_zero _ hne]
    · by_cases h2 : s < -m2
      · have e : rwMove m2 st s = { st with s := s, minOut := min st.minOut s } := by
          unfold rwMove; rw [if_neg h1, if_pos h2]
        have h0 : s ≠ 0 := by omega
        have hsx : s ≠ x := by omega
        rw [e, if_neg h0, if_neg hsx, bump_zero _ hne]
      · by_cases h3 : s ≠ 0
        · have e : rwMove m2 st s = { st with s := s, cur := s :: st.cur } := by
            unfold rwMove; rw [if_neg h1, if_neg h2, if_pos h3]
          rw [e, if_neg h3, bump_bump _ _ _ hne]
          simp only [List.count_cons]
          congr 2
          by_cases hsx : s = x <;> simp [hsx]
          omega
        · have h0 : s = 0 := by omega
          have e : rwMove m2 st s = { st with s := s, cur := [], done := st.cur :: st.done } := by
            unfold rwMove; rw [if_neg h1, if_neg h2, if_neg h3]
          rw [e, if_pos h0]
          simp only [List.map_cons, List.reverse_cons, List.append_assoc, List.singleton_append,
            List.count_nil]
          rw [bump_zero _ hne]
          simp [bump]

theorem walkSum_cons (b : Bool) (l : List Bool) : walkSum (b :: l) = pm b + walkSum l := by
  simp [walkSum]

theorem walkSum_append (a b : List Bool) : walkSum (a ++ b) = walkSum a + walkSum b := by
  simp [walkSum]

theorem walkSum_reverse' (l : List Bool) : walkSum l.reverse = walkSum l := by
  simp [walkSum, List.sum_reverse]

/-- the visited states are the partial sums S_k = X_1 + … + X_k. -/
theorem mem_walkFrom (l : List Bool) : ∀ (s x : Int),
    x ∈ s :: walkFrom s l ↔ ∃ k, k ≤ l.length ∧ x = s + walkSum (l.take k) := by
  induction l with
  | nil =>
    intro s x
    simp [walkFrom, walkSum]
  | cons b l ih =>
    intro s x
    have ih' := ih (s + pm b) x
    simp only [walkFrom]
    rw [List.mem_cons, ih']
    constructor
    · rintro (rfl | ⟨k, hk, rfl⟩)
      · exact ⟨0, by simp, by simp [walkSum]⟩
      · refine ⟨k + 1, by simp [hk], ?_⟩
        simp [walkSum_cons]; ring
    · rintro ⟨k, hk, rfl⟩
      cases k with
      | zero => left; simp [walkSum]
      | succ k =>
        right
        refine ⟨k, by simpa using hk, ?_⟩
        simp [walkSum_cons]; ring

theorem walkSum_take_reverse (l : List Bool) (k : Nat) (_hk : k ≤ l.length) :
    walkSum (l.reverse.take k) = walkSum l - walkSum (l.take (l.length - k)) := by
  have h1 : l.reverse.take k = (l.drop (l.length - k)).reverse := List.take_reverse
  rw [h1, walkSum_reverse']
  have h2 := walkSum_append (l.take (l.length - k)) (l.drop (l.length - k))
  rw [List.take_append_drop] at h2
  linarith

/-- the walk of the reversed string visits exactly the states S_n − S_k. -/
theorem mem_walk_reverse (l : List Bool) (x : Int) :
    x ∈ (0 : Int) :: walkFrom 0 l.reverse ↔ ∃ s ∈ (0 : Int) :: walkFrom 0 l, x = walkSum l - s := by
  rw [mem_walkFrom]
  constructor
  · rintro ⟨k, hk, rfl⟩
    rw [List.length_reverse] at hk
    refine ⟨walkSum (l.take (l.length - k)), ?_, ?_⟩
    · rw [mem_walkFrom]; exact ⟨l.length - k, by omega, by simp⟩
    · rw [walkSum_take_reverse l k hk]; ring
  · rintro ⟨s, hs, rfl⟩
    rw [mem_walkFrom] at hs
    obtain ⟨k, hk, rfl⟩ := hs
    refine ⟨l.length - k, by simp, ?_⟩
    rw [walkSum_take_reverse l _ (by omega)]
    have : l.length - (l.length - k) = k := by omega
    rw [this]; ring

theorem IsMaxOf.unique {z z' : Nat} {a b : List Nat} (h : IsMaxOf z a) (h' : IsMaxOf z' b)
    (hab : ∀ x, x ∈ a ↔ x ∈ b) : z = z' := by
  have h1 := h'.2 z ((hab z).mp h.1)
  have h2 := h.2 z' ((hab z').mpr h'.1)
  omega

/-- NIST 2.13: backward cusum of a string = forward cusum of the reversed string (at the level of
the defining maxima). -/
theorem cusum_reverse (l : List Bool) (zf zb : Nat)
    (hb : IsMaxOf zb (((0 : Int) :: walkFrom 0 l).map (fun s => (walkSum l - s).natAbs)))
    (hf : IsMaxOf zf (((0 : Int) :: walkFrom 0 l.reverse).map Int.natAbs)) : zf = zb := by
  apply IsMaxOf.unique hf hb
  intro x
  simp only [List.mem_map]
  constructor
  · rintro ⟨s, hs, rfl⟩
    obtain ⟨t, ht, rfl⟩ := (mem_walk_reverse l s).mp hs
    exact ⟨t, ht, rfl⟩
  · rintro ⟨t, ht, rfl⟩
    exact ⟨walkSum l - t, (mem_walk_reverse l _).mpr ⟨t, ht, rfl⟩, rfl⟩

/-! linear complexity distribution -/

/-- `LfsrCount` and `LfsrLogProbability` agree: count · 2^(−log₂ prob) = 2^n. -/
theorem lfsrCount_mul (n c : Nat) (hn : 0 < n) (hc : c ≤ n) :
    ∃ x, lfsrNegLogProb n c = .ok x ∧ lfsrCount n c * 2 ^ x = 2 ^ n := by
  unfold lfsrNegLogProb lfsrCount
  have h1 : ¬ n = 0 := by omega
  have h2 : ¬ c > n := by omega
  simp only [h1, h2, if_false]
  split_ifs with h3 h4
  · exact ⟨n, rfl, by simp⟩
  · refine ⟨n + 1 - 2 * c, rfl, ?_⟩
    have e : (4 : Nat) ^ (c - 1) = 2 ^ (2 * (c - 1)) := by rw [Nat.pow_mul]
    rw [e, Nat.mul_assoc, ← Nat.pow_add, ← Nat.pow_succ']
    congr 1
    have : 2 * c ≤ n := by omega
    omega
  · refine ⟨2 * c - n, rfl, ?_⟩
    have e : (4 : Nat) ^ (n - c) = 2 ^ (2 * (n - c)) := by rw [Nat.pow_mul]
    rw [e, ← Nat.pow_add]
    congr 1
    omega

/-- the five central classes of `LinearComplexityImpl.pi`: exact for every block size m ≥ 10.
`pi[3 + j]` is the probability of complexity `median + j`, j = −2 … 2. -/
theorem lincomp_pi_central (m : Nat) (hm : 10 ≤ m) :
    lfsrNegLogProb m ((m + 1) / 2 - 2) = .ok (if m % 2 = 0 then 5 else 4) ∧
    lfsrNegLogProb m ((m + 1) / 2 - 1) = .ok (if m % 2 = 0 then 3 else 2) ∧
    lfsrNegLogProb m ((m + 1) / 2) = .ok 1 ∧
    lfsrNegLogProb m ((m + 1) / 2 + 1) = .ok (if m % 2 = 0 then 2 else 3) ∧
    lfsrNegLogProb m ((m + 1) / 2 + 2) = .ok (if m % 2 = 0 then 4 else 5) := by
  rcases Nat.even_or_odd' m with ⟨t, rfl | rfl⟩
  · have e : (2 * t + 1) / 2 = t := by omega
    have e2 : 2 * t / 2 = t := by omega
    have e3 : 2 * t % 2 = 0 := by omega
    simp only [e, e3, if_true]
    unfold lfsrNegLogProb
    simp only [e2]
    refine ⟨?_, ?_, ?_, ?_, ?_⟩ <;> split_ifs <;> first | omega | contradiction | (simp only [Except.ok.injEq]; omega)
  · have e : (2 * t + 1 + 1) / 2 = t + 1 := by omega
    have e2 : (2 * t + 1) / 2 = t := by omega
    have e3 : (2 * t + 1) % 2 = 1 := by omega
    simp only [e, e3]
    unfold lfsrNegLogProb
    simp only [e2]
    refine ⟨?_, ?_, ?_, ?_, ?_⟩ <;> split_ifs <;> first | omega | contradiction | (simp only [Except.ok.injEq]; omega)

theorem lincomp_pi_consts :
    Paranoid.Consts.Nist.linCompPiEven = [(1, 96), (1, 32), (1, 8), (1, 2), (1, 4), (1, 16), (1, 48)] ∧
    Paranoid.Consts.Nist.linCompPiOdd = [(1, 48), (1, 16), (1, 4), (1, 2), (1, 8), (1, 32), (1, 96)] := by
  decide

theorem geom4 (k : Nat) : 3 * ((List.range k).map (fun i => 4 ^ i)).sum + 1 = 4 ^ k := by
  induction k with
  | zero => simp
  | succ k ih =>
    rw [List.range_succ, List.map_append, List.sum_append]
    simp only [List.map_cons, List.map_nil, List.sum_cons, List.sum_nil, Nat.add_zero]
    rw [Nat.pow_succ]; omega

/-- upper tail (complexity ≥ median + 3): 3·#sequences + 1 = 4^(m − median − 2), i.e. the exact
probability is (4^(m−median−2) − 1)/(3·2^m) = 1/48 − 1/(3·2^m) for even m (1/96 − 1/(3·2^m) for odd m):
`pi[6]` is the limit m → ∞. -/
theorem lincomp_upper_tail (m : Nat) (hm : 10 ≤ m) :
    3 * ((List.range (m - (m + 1) / 2 - 2)).map (fun i => lfsrCount m (m - i))).sum + 1
      = 4 ^ (m - (m + 1) / 2 - 2) := by
  rw [← geom4]
  congr 3
  apply List.map_congr_left
  intro i hi
  rw [List.mem_range] at hi
  unfold lfsrCount
  have h1 : ¬ (m - i > m) := by omega
  have h2 : ¬ m - i = 0 := by omega
  have h3 : ¬ m - i ≤ m / 2 := by omega
  simp only [h1, h2, h3, if_false]
  congr 1
  omega

/-- lower tail (complexity ≤ median − 3): 3·#sequences = 2·4^(median−3) + 1, i.e. the exact
probability is 1/96 + 1/(3·2^m) for even m (1/48 + 1/(3·2^m) for odd m). -/
theorem lincomp_lower_tail (m : Nat) (_hm : 10 ≤ m) :
    3 * (lfsrCount m 0 + ((List.range ((m + 1) / 2 - 3)).map (fun i => lfsrCount m (i + 1))).sum)
      = 2 * 4 ^ ((m + 1) / 2 - 3) + 1 := by
  have hg := geom4 ((m + 1) / 2 - 3)
  have h0 : lfsrCount m 0 = 1 := by
    unfold lfsrCount; simp
  have hs : ((List.range ((m + 1) / 2 - 3)).map (fun i => lfsrCount m (i + 1))).sum
      = 2 * ((List.range ((m + 1) / 2 - 3)).map (fun i => 4 ^ i)).sum := by
    rw [← List.sum_map_mul_left]
    congr 1
    apply List.map_congr_left
    intro i hi
    rw [List.mem_range] at hi
    unfold lfsrCount
    have h1 : ¬ (i + 1 > m) := by omega
    have h3 : i + 1 ≤ m / 2 := by omega
    simp [h1, h3]
  rw [h0, hs]
  omega

/-! random excursions distribution -/

def qOf (p : Nat × Nat) : ℚ := (p.1 : ℚ) / p.2

/-- NIST 3.14: π₀(x) = 1 − 1/(2|x|), π_k(x) = (1/(4x²))(1 − 1/(2|x|))^(k−1), π_max = (1/(2|x|))(1 − 1/(2|x|))^(max−1). -/
theorem excursionPi_closed_form (x K : Nat) (hx : 1 ≤ x) (hK : 1 ≤ K) :
    (excursionPi x K).map qOf =
      ((1 - 1 / (2 * (x : ℚ))) ::
        (List.range (K - 1)).map (fun j => 1 / (4 * (x : ℚ) ^ 2) * (1 - 1 / (2 * (x : ℚ))) ^ j))
      ++ [1 / (2 * (x : ℚ)) * (1 - 1 / (2 * (x : ℚ))) ^ (K - 1)] := by
  have hx' : (x : ℚ) ≠ 0 := by exact_mod_cast (by omega : x ≠ 0)
  have hsub : ((2 * x - 1 : Nat) : ℚ) = 2 * (x : ℚ) - 1 := by
    rw [Nat.cast_sub (by omega)]; push_cast; ring
  have key : (1 : ℚ) - 1 / (2 * (x : ℚ)) = (2 * (x : ℚ) - 1) / (2 * (x : ℚ)) := by field_simp
  unfold excursionPi
  simp only [List.map_append, List.map_cons, List.map_map, List.map_nil, List.cons_append]
  rw [key]
  congr 1
  · simp only [qOf, hsub]; push_cast; rfl
  · congr 1
    · apply List.map_congr_left
      intro j _
      simp only [Function.comp_def, qOf, Nat.cast_pow, hsub]
      push_cast
      rw [div_pow]
      field_simp
      ring
    · simp only [qOf, Nat.cast_pow, hsub]
      push_cast
      congr 1
      have hK' : K = (K - 1) + 1 := by omega
      rw [div_pow]
      have hp : (2 * (x : ℚ)) ^ K = (2 * (x : ℚ)) ^ (K - 1) * (2 * (x : ℚ)) := by
        conv_lhs => rw [hK']
        rw [pow_succ]
      rw [hp]
      field_simp

/-- geometric part of the excursion distribution: t²Σ_{j<k}(1−t)^j + t(1−t)^k = t. -/
theorem excursion_geom (t : ℚ) : ∀ k : Nat,
    ((List.range k).map (fun j => t ^ 2 * (1 - t) ^ j)).sum + t * (1 - t) ^ k = t
  | 0 => by simp
  | k + 1 => by
    rw [List.range_succ, List.map_append, List.sum_append]
    simp only [List.map_cons, List.map_nil, List.sum_cons, List.sum_nil, add_zero]
    have ih := excursion_geom t k
    have : t ^ 2 * (1 - t) ^ k + t * (1 - t) ^ (k + 1) = t * (1 - t) ^ k := by ring
    linarith

/-- the probabilities of `RandomExcursionsDistribution` add up to 1 for every state and every
`max_cnt ≥ 1`. -/
theorem excursion_sum_one (x : ℚ) (hx : x ≠ 0) (K : Nat) :
    ((1 - 1 / (2 * x)) ::
        (List.range K).map (fun j => 1 / (4 * x ^ 2) * (1 - 1 / (2 * x)) ^ j)
      ++ [1 / (2 * x) * (1 - 1 / (2 * x)) ^ K]).sum = 1 := by
  have h4 : (1 : ℚ) / (4 * x ^ 2) = (1 / (2 * x)) ^ 2 := by field_simp; ring
  simp only [List.cons_append, List.sum_cons, List.sum_append, List.sum_nil, add_zero, h4]
  have := excursion_geom (1 / (2 * x)) K
  linarith

/-! χ² statistics are non-negative -/

/-- `ChiSquare`: Σ (cᵢ − N·pᵢ)² / (N·pᵢ). -/
def chiSq (v : List Nat) (pi : List ℚ) : ℚ :=
  ((v.zip pi).map (fun cp => ((cp.1 : ℚ) - (v.sum : ℚ) * cp.2) ^ 2 / ((v.sum : ℚ) * cp.2))).sum

theorem chiSq_nonneg (v : List Nat) (pi : List ℚ) (hpi : ∀ p ∈ pi, 0 < p) : 0 ≤ chiSq v pi := by
  unfold chiSq
  apply List.sum_nonneg
  intro x hx
  obtain ⟨cp, hcp, rfl⟩ := List.mem_map.mp hx
  have hp : 0 < cp.2 := hpi _ (List.of_mem_zip hcp).2
  have hN : (0 : ℚ) ≤ (v.sum : ℚ) := by positivity
  apply div_nonneg (sq_nonneg _) (mul_nonneg hN hp.le)

/-! serial -/
theorem sumSq_pairSum_le : ∀ (l : List Nat), sumSq (pairSum l) ≤ 2 * sumSq l
  | [] => by simp [pairSum, sumSq]
  | [a] => by simp [pairSum, sumSq]
  | a :: b :: rest => by
    have ih := sumSq_pairSum_le rest
    simp only [pairSum, sumSq, List.map_cons, List.sum_cons] at ih ⊢
    have : (a + b) * (a + b) ≤ 2 * (a * a + b * b) := by
      have h := Nat.mul_self_le_mul_self (Nat.le_refl 0)
      nlinarith [sq_nonneg ((a : Int) - b), mul_self_nonneg ((a : Int) - b)]
    omega

/-- consecutive entries of the chain: Σcount_{m−1}² ≤ 2·Σcount_m². -/
theorem sumSqChain_step : ∀ (m : Nat) (cnt : List Nat) (i : Nat) (a b : Nat),
    (sumSqChain m cnt)[i]? = some a → (sumSqChain m cnt)[i + 1]? = some b → b ≤ 2 * a
  | 0, _, _, _, _, h, _ => by simp [sumSqChain] at h
  | m + 1, cnt, 0, a, b, h, h' => by
    cases m with
    | zero => simp [sumSqChain] at h'
    | succ m =>
      simp only [sumSqChain, List.getElem?_cons_zero, Option.some.injEq, List.getElem?_cons_succ] at h h'
      subst h; subst h'
      exact sumSq_pairSum_le cnt
  | m + 1, cnt, i + 1, a, b, h, h' => by
    simp only [sumSqChain, List.getElem?_cons_succ] at h h'
    exact sumSqChain_step m (pairSum cnt) i a b h h'

/-- number of ones at the beginning of the list. -/
def leadOnes : List Bool → Nat
  | true :: l => leadOnes l + 1
  | _ => 0

/-- NIST 2.4: the longest run of ones = max over all start positions of the number of ones
that start there. -/
def tailsMax : List Bool → Nat
  | [] => 0
  | a :: l => max (leadOnes (a :: l)) (tailsMax l)

theorem lr_fold : ∀ (l : List Bool) (c b : Nat), c ≤ b →
    (l.foldl lrStep (c, b)).2 = max b (max (c + leadOnes l) (tailsMax l.tail))
  | [], c, b, h => by simp [leadOnes, tailsMax]; omega
  | true :: l, c, b, h => by
    have ih := lr_fold l (c + 1) (max b (c + 1)) (by omega)
    simp only [List.foldl_cons, lrStep, if_true, List.tail_cons, leadOnes] at ih ⊢
    rw [ih]
    cases l with
    | nil => simp [leadOnes, tailsMax]
    | cons a l' =>
      simp only [tailsMax, List.tail_cons]
      have : leadOnes (a :: l') ≤ c + 1 + leadOnes (a :: l') := by omega
      omega
  | false :: l, c, b, h => by
    have ih := lr_fold l 0 b (by omega)
    simp only [List.foldl_cons, lrStep, List.tail_cons, leadOnes] at ih ⊢
    rw [show (if false = true then (c + 1, max b (c + 1)) else (0, b)) = (0, b) by simp, ih]
    cases l with
    | nil => simp [leadOnes, tailsMax]; omega
    | cons a l' =>
      simp only [tailsMax, List.tail_cons, Nat.zero_add, Nat.add_zero]
      omega

theorem longestRun_eq_tailsMax (l : List Bool) : longestRun l = tailsMax l := by
  unfold longestRun
  rw [lr_fold l 0 0 (le_refl 0)]
  cases l with
  | nil => simp [leadOnes, tailsMax]
  | cons a l => simp [tailsMax]

theorem le_leadOnes_iff : ∀ (l : List Bool) (k : Nat), k ≤ leadOnes l ↔ ∀ j < k, l[j]? = some true
  | [], k => by
    simp only [leadOnes, Nat.le_zero]
    constructor
    · rintro rfl j hj; omega
    · intro h
      by_contra hk
      have := h 0 (by omega)
      simp at this
  | false :: l, k => by
    simp only [leadOnes, Nat.le_zero]
    constructor
    · rintro rfl j hj; omega
    · intro h
      by_contra hk
      have := h 0 (by omega)
      simp at this
  | true :: l, k => by
    simp only [leadOnes]
    cases k with
    | zero => simp
    | succ k =>
      rw [Nat.succ_le_succ_iff, le_leadOnes_iff l k]
      constructor
      · intro h j hj
        cases j with
        | zero => simp
        | succ j => simpa using h j (by omega)
      · intro h j hj
        simpa using h (j + 1) (by omega)

theorem le_tailsMax_iff : ∀ (l : List Bool) (k : Nat), 1 ≤ k →
    (k ≤ tailsMax l ↔ ∃ i, k ≤ leadOnes (l.drop i))
  | [], k, hk => by
    simp [tailsMax, leadOnes]
  | a :: l, k, hk => by
    simp only [tailsMax]
    rw [le_max_iff, le_tailsMax_iff l k hk]
    constructor
    · rintro (h | ⟨i, hi⟩)
      · exact ⟨0, by simpa using h⟩
      · exact ⟨i + 1, by simpa using hi⟩
    · rintro ⟨i, hi⟩
      cases i with
      | zero => left; simpa using hi
      | succ i => right; exact ⟨i, by simpa using hi⟩

/-- `k ≥ 1` ones in a row occur in `l` iff `k ≤ longestRun l`. -/
theorem le_longestRun_iff (l : List Bool) (k : Nat) (hk : 1 ≤ k) :
    k ≤ longestRun l ↔ ∃ i, ∀ j < k, l[i + j]? = some true := by
  rw [longestRun_eq_tailsMax, le_tailsMax_iff l k hk]
  constructor
  · rintro ⟨i, hi⟩
    refine ⟨i, fun j hj => ?_⟩
    have := (le_leadOnes_iff _ _).mp hi j hj
    simpa [List.getElem?_drop] using this
  · rintro ⟨i, hi⟩
    refine ⟨i, (le_leadOnes_iff _ _).mpr fun j hj => ?_⟩
    simpa [List.getElem?_drop] using hi j hj

/-! tables of the current source (Generated/Consts.lean) -/

/-- thresholds and class bounds of `LongestRuns.params` are the ones of the model's ladder. -/
theorem lr_params_consts :
    Paranoid.Consts.Nist.longestRunsParams.map (fun p => (p.1, p.2.1, p.2.2.1, p.2.2.2.1)) =
      [(128, 8, 1, 4), (6272, 128, 4, 9), (750000, 10000, 10, 16)] := by decide

/-- probability row `i` of `LongestRuns.params` in the current source. -/
def lrRow (i : Nat) : List (Nat × Nat) :=
  match Paranoid.Consts.Nist.longestRunsParams[i]? with
  | some p => p.2.2.2.2
  | none => []

/-- M = 8: the table is the exact distribution over all 256 blocks rounded to 4 digits. -/
theorem lr_table_M8 :
    rowMatches (lrRow 0) (exactRows (lrExactCounts 8 1 4) (2 ^ 8) 10000) 10000 false = true := by
  rw [lr8_rows]; decide

/-- M = 128: every entry is the exact probability rounded or truncated to 4 digits. -/
theorem lr_table_M128 :
    rowMatches (lrRow 1) (exactRows (lrDPCounts 128 4 9) (2 ^ 128) 10000) 10000 true = true := by
  rw [lr128_rows]; decide

/-- equality of two rows of fractions (as rational numbers). -/
def rowSame (a b : List (Nat × Nat)) : Bool :=
  a.length == b.length && (a.zip b).all (fun p => p.1.1 * p.2.2 == p.2.1 * p.1.2)

/-- the M = 10000 row is either NIST's printed one (inexact, `nist_printed_M10000_inexact`) or the
repaired one (D20). -/
theorem lr_table_M10000 :
    rowSame (lrRow 2) nistPrinted10000 = true ∨ rowSame (lrRow 2) repaired10000 = true := by decide

/-! model-level corollaries -/

theorem frequency_ok (bits n a m : Nat) (h : frequency bits n = .ok (a, m)) :
    m = n ∧ 0 < n ∧ a = freqStat (bitList bits n) := by
  unfold frequency at h
  split at h
  · cases h
  · rename_i hn
    simp only [Except.ok.injEq, Prod.mk.injEq] at h
    refine ⟨h.2.symm, by omega, ?_⟩
    rw [← h.1, freqStat, bitList_length]

theorem frequency_error_iff (bits n : Nat) : (∃ e, frequency bits n = .error e) ↔ n = 0 := by
  unfold frequency
  split <;> simp_all

theorem runs_ok (bits n : Nat) (o : RunsOut) (h : runs bits n = .ok o) :
    0 < n ∧ o = runsOfCounts (ones (bitList bits n)) (runsCount (bitList bits n)) n := by
  unfold runs at h
  split at h
  · cases h
  · rename_i hn
    simp only [Except.ok.injEq] at h
    exact ⟨by omega, h.symm⟩

/-- in the non-degenerate case π(1−π) > 0: the erfc argument has a positive denominator. -/
theorem runsOfCounts_stat (pop v n p' v' n' : Nat) (h : runsOfCounts pop v n = .stat p' v' n')
    (hle : pop ≤ n) : p' = pop ∧ v' = v ∧ n' = n ∧ 0 < pop ∧ pop < n := by
  unfold runsOfCounts at h
  split at h
  · cases h
  · rename_i hne
    simp only [RunsOut.stat.injEq] at h
    refine ⟨h.1.symm, h.2.1.symm, h.2.2.symm, by omega, by omega⟩

theorem blockFrequency_ok (bits n : Nat) (o : BlockFreqOut) (h : blockFrequency bits n = .ok o) :
    100 ≤ n ∧ o.m = bfBlockSize n ∧ o.den = bfBlockSize n ∧
      o.counts = (chunks (bitList bits n) (bfBlockSize n)).map ones ∧
      o.num = (o.counts.map (sqDev o.m)).sum := by
  unfold blockFrequency at h
  split at h
  · cases h
  · simp only [Except.ok.injEq] at h
    subst h
    simp [blockFrequencyImpl]; omega

/-- number of blocks is positive: igamc is called with a = N/2 > 0. -/
theorem blockFrequency_blocks_pos (bits n : Nat) (o : BlockFreqOut) (h : blockFrequency bits n = .ok o) :
    0 < o.counts.length := by
  obtain ⟨hn, _, _, hc, _⟩ := blockFrequency_ok bits n o h
  rw [hc, List.length_map, chunks_length, bitList_length]
  obtain ⟨h20, hlt, hm⟩ := bfBlockSize_spec n
  apply Nat.div_pos _ (by omega)
  rcases hm with hm | ⟨⟨k, hk⟩, hge⟩
  · omega
  · by_contra hc'
    have hlt' : n < bfBlockSize n := by omega
    have : n / (bfBlockSize n / 2) ≤ 1 := by
      have h2 : bfBlockSize n / 2 > 0 := by omega
      apply Nat.le_of_lt_succ
      apply (Nat.div_lt_iff_lt_mul h2).mpr
      omega
    omega

theorem longestRuns_ok (bits n : Nat) (o : LongestRunsOut) (h : longestRuns bits n = .ok o) :
    lrParams n = some (o.m, o.vLower, o.vUpper) ∧
    o.hist = (List.range (o.vUpper - o.vLower + 1)).map (fun i =>
      ((chunks (bitList bits n) o.m).map (fun b => lrClass o.vLower o.vUpper (longestRun b))).count i) := by
  unfold longestRuns at h
  split at h
  · cases h
  · rename_i m vl vu hp
    simp only [Except.ok.injEq] at h
    subst h
    simp [longestRunsWith, tally_spec, hp]

/-! complement on the integer representation -/

theorem bitList_compl (bits n : Nat) (h : bits < 2 ^ n) :
    bitList (2 ^ n - 1 - bits) n = (bitList bits n).map (!·) := by
  rw [bitList_eq, bitList_eq, bitsSmall_testBit, bitsSmall_testBit, List.map_map]
  apply List.map_congr_left
  intro i hi
  rw [List.mem_range] at hi
  have : 2 ^ n - 1 - bits = 2 ^ n - (bits + 1) := by omega
  rw [this, Nat.testBit_two_pow_sub_succ h]
  simp [hi]

theorem frequency_compl (bits n : Nat) (h : bits < 2 ^ n) :
    frequency (2 ^ n - 1 - bits) n = frequency bits n := by
  have := freqStat_map_not (bitList bits n)
  unfold freqStat at this
  simp only [List.length_map, bitList_length] at this
  by_cases hn : n = 0
  · simp only [frequency, hn, if_true]
  · simp only [frequency, hn, if_false]
    rw [bitList_compl bits n h, this]

theorem blockFrequency_compl (bits n : Nat) (h : bits < 2 ^ n) (o : BlockFreqOut)
    (ho : blockFrequency bits n = .ok o) :
    ∃ o', blockFrequency (2 ^ n - 1 - bits) n = .ok o' ∧ o'.m = o.m ∧ o'.num = o.num ∧ o'.den = o.den := by
  unfold blockFrequency at ho ⊢
  split at ho
  · cases ho
  · rename_i hn
    simp only [hn, if_false]
    simp only [Except.ok.injEq] at ho
    subst ho
    refine ⟨_, rfl, ?_, ?_, ?_⟩
    · simp only [blockFrequencyImpl]
    · rw [bitList_compl bits n h]
      exact blockFrequency_num_compl _ _
    · simp only [blockFrequencyImpl]

/-- the runs statistic only depends on π(1−π): complementing swaps ones and zeros and keeps V. -/
theorem runs_compl (bits n : Nat) (h : bits < 2 ^ n) :
    runs (2 ^ n - 1 - bits) n =
      (if n = 0 then .error .zeroDivision
       else .ok (runsOfCounts (n - ones (bitList bits n)) (runsCount (bitList bits n)) n)) := by
  by_cases hn : n = 0
  · simp only [runs, hn, if_true]
  · simp only [runs, hn, if_false]
    rw [bitList_compl bits n h, runsCount_map_not]
    have := ones_map_not (bitList bits n)
    rw [bitList_length] at this
    have e : ones ((bitList bits n).map (!·)) = n - ones (bitList bits n) := by omega
    rw [e]

theorem IsMaxOf.congr {α} [LE α] {z : α} {a b : List α} (h : IsMaxOf z a) (hab : ∀ x, x ∈ a ↔ x ∈ b) :
    IsMaxOf z b := ⟨(hab z).mp h.1, fun v hv => h.2 v ((hab v).mpr hv)⟩

theorem IsMinOf.congr {α} [LE α] {z : α} {a b : List α} (h : IsMinOf z a) (hab : ∀ x, x ∈ a ↔ x ∈ b) :
    IsMinOf z b := ⟨(hab z).mp h.1, fun v hv => h.2 v ((hab v).mpr hv)⟩

theorem rwStep_eq_move (m2 : Int) (st : RW) (b : Bool) : rwStep m2 st b = rwMove m2 st (st.s + pm b) := rfl

/-- the loop of `RandomWalk` is a fold of `rwMove` over the visited states. -/
theorem rwRun_eq_moves (m2 : Int) : ∀ (l : List Bool) (st : RW),
    l.foldl (rwStep m2) st = (walkFrom st.s l).foldl (rwMove m2) st
  | [], st => rfl
  | b :: l, st => by
    simp only [List.foldl_cons, walkFrom]
    rw [rwRun_eq_moves m2 l, rwStep_eq_move, rwMove_s]

theorem mem_stateRange (k : Nat) (x : Int) : x ∈ stateRange k ↔ (x ≠ 0 ∧ -(k : Int) ≤ x ∧ x ≤ k) := by
  unfold stateRange
  simp only [List.mem_append, List.mem_map, List.mem_range]
  constructor
  · rintro (⟨i, hi, rfl⟩ | ⟨i, hi, rfl⟩)
    · refine ⟨?_, ?_, ?_⟩ <;> omega
    · refine ⟨?_, ?_, ?_⟩ <;> omega
  · rintro ⟨h0, h1, h2⟩
    rcases lt_or_gt_of_ne h0 with hneg | hpos
    · left
      refine ⟨k - x.natAbs, by omega, by omega⟩
    · right
      refine ⟨x.natAbs - 1, by omega, by omega⟩

theorem excursionHist_spec (cycles : List (List Int)) (mc : Nat) (x : Int) :
    excursionHist cycles mc x = (List.range (mc + 1)).map (fun i =>
      (((cycles.map (List.count x)).reverse).map (min mc)).count i) := by
  show _ = (List.range (mc + 1)).map (fun i => (List.map (min mc) (List.map (List.count x) cycles).reverse).count i)
  unfold excursionHist
  rw [tally_spec]
  apply List.map_congr_left
  intro i _
  rw [List.map_reverse, List.count_reverse, List.map_map]
  rfl

/-- everything `RandomWalk` returns, in terms of the walk S₁ … Sₙ of the bit list:
NIST 2.13 (cusum forward / backward), 2.14 (cycles, visits per cycle), 2.15 (total visits). -/
theorem randomWalk_spec (bits n ms mc msv : Nat) (o : RandomWalkOut)
    (h : randomWalk .repaired bits n ms mc msv = .ok o) :
    o.n = n ∧
    IsMaxOf o.zFwd (((0 : Int) :: walkFrom 0 (bitList bits n)).map Int.natAbs) ∧
    IsMaxOf o.zBwd (((0 : Int) :: walkFrom 0 (bitList bits n)).map
      (fun s => (walkSum (bitList bits n) - s).natAbs)) ∧
    o.cycles = (walkFrom 0 (bitList bits n)).count 0 + 1 ∧
    (500 ≤ o.cycles →
      o.exHists = (stateRange ms).map (fun x => (List.range (mc + 1)).map (fun i =>
        ((visitCounts x (walkFrom 0 (bitList bits n))).map (min mc)).count i)) ∧
      o.totals = (stateRange msv).map (fun x => (walkFrom 0 (bitList bits n)).count x)) ∧
    (o.cycles < 500 → o.exHists = [] ∧ o.totals = []) := by
  unfold randomWalk at h
  split at h
  · cases h
  · rename_i hn
    have hm2 : (0 : Int) ≤ ((max ms msv : Nat) : Int) := Int.natCast_nonneg _
    obtain ⟨hinv, hs⟩ := rwInv_fold _ hm2 (bitList bits n) rwInit [] (rwInv_init _)
    have hcnt := rwCnt_fold _ hm2 (bitList bits n) rwInit [] (rwCnt_init _)
    have hs0 : rwInit.s = 0 := rfl
    rw [hs0] at hinv hcnt hs
    simp only [List.append_nil, zero_add] at hinv hcnt hs
    obtain ⟨M, hM, hMax⟩ := rwMax_repaired _ hm2 _ _ hinv
    obtain ⟨m, hmn, hMin⟩ := rwMin_repaired _ hm2 _ _ hinv
    unfold randomWalkOf rwRun at h
    rw [hM, hmn] at h
    simp only [Except.ok.injEq] at h
    subst h
    have hmem : ∀ x : Int, x ∈ (0 : Int) :: (walkFrom 0 (bitList bits n)).reverse ↔
        x ∈ (0 : Int) :: walkFrom 0 (bitList bits n) := by
      intro x; simp
    have hcus := cusum_of_extremes _ (walkSum (bitList bits n)) M m hMax hMin List.mem_cons_self
    have hvis := rwRun_eq_moves ((max ms msv : Nat) : Int) (bitList bits n) rwInit
    rw [hs0] at hvis
    refine ⟨rfl, ?_, ?_, ?_, ?_, ?_⟩
    · apply hcus.1.congr
      intro x
      simp only [List.mem_map]
      constructor <;> rintro ⟨s, hs', rfl⟩ <;> exact ⟨s, by simpa using hs', rfl⟩
    · simp only [rwOut, hs]
      apply hcus.2.congr
      intro x
      simp only [List.mem_map]
      constructor <;> rintro ⟨s, hs', rfl⟩ <;> exact ⟨s, by simpa using hs', rfl⟩
    · simp only [rwOut]
      rw [hcnt.cycles_len, List.count_reverse]
    · intro hJ
      simp only [rwOut] at hJ ⊢
      rw [if_pos hJ, if_pos hJ]
      constructor
      · apply List.map_congr_left
        intro x hx
        rw [mem_stateRange] at hx
        rw [excursionHist_spec, hvis]
        have hv := visits_fold ((max ms msv : Nat) : Int) hm2 x hx.1 (by have := hx.2.1; omega)
          (by have := hx.2.2; omega) (walkFrom 0 (bitList bits n)) rwInit
        rw [hv]
        simp [rwInit, bump_zero _ (visitCounts_ne_nil x _)]
      · apply List.map_congr_left
        intro x hx
        rw [mem_stateRange] at hx
        rw [hcnt.count_eq x hx.1 (by have := hx.2.1; omega) (by have := hx.2.2; omega),
          List.count_reverse]
    · intro hJ
      simp only [rwOut] at hJ ⊢
      rw [if_neg (by omega), if_neg (by omega)]
      exact ⟨rfl, rfl⟩

/-- NIST 2.9.7: `Universal` needs n ≥ 387840 (L = 6). -/
theorem universal_insufficient_iff (bits n : Nat) :
    universal bits n = .error .insufficientData ↔ n < 387840 :=
  universal_insufficient_iff' bits n (universalL_none_iff n)

theorem universal_ok_params (bits n : Nat) (o : UniversalOut) (h : universal bits n = .ok o) :
    universalL n = some o.blockSize ∧ o.q = 10 * 2 ^ o.blockSize ∧ o.k = n / o.blockSize - o.q := by
  unfold universal at h
  split at h
  · cases h
  · rename_i l hl
    unfold universalImpl at h
    split_ifs at h
    split at h
    · cases h
    · simp only [Except.ok.injEq] at h
      subst h
      exact ⟨hl, rfl, rfl⟩

/-- the pinned choice (`min`) differs from NIST's rule from n = 904960 on (D19). -/
theorem universalLPinned_fails : universalLPinned 904960 = some 6 ∧ universalL 904960 = some 7 := by
  decide

/-! serial -/

theorem serial_ok (bits n : Nat) (mm : Option Nat) (o : SerialOut) (h : serial bits n mm = .ok o) :
    o.n = n ∧ o.mMax ≤ n ∧
      o.sq = (sumSqChain o.mMax (countsWrap (bitList bits n) o.mMax).toList).reverse := by
  unfold serial serialWith at h
  split_ifs at h with hle
  simp only [Except.ok.injEq] at h
  subst h
  exact ⟨rfl, by simpa using hle, rfl⟩

theorem sumSqChain_length : ∀ (m : Nat) (cnt : List Nat), (sumSqChain m cnt).length = m
  | 0, _ => rfl
  | m + 1, cnt => by simp [sumSqChain, sumSqChain_length m]

/-- ∇ψ²_m ≥ 0 for every m ≥ 2 (from (a+b)² ≤ 2(a²+b²)): with `a = sq[j]`, `b = sq[j+1]`
(Σ count² for (j+1)- and (j+2)-bit patterns) the numerator 2^(j+2)·b − 2^(j+1)·a of
ψ²_{j+2} − ψ²_{j+1} is non-negative. -/
theorem serial_dpsi_nonneg (bits n : Nat) (mm : Option Nat) (o : SerialOut)
    (h : serial bits n mm = .ok o) (j a b : Nat) (ha : o.sq[j]? = some a) (hb : o.sq[j + 1]? = some b) :
    psiNum n (j + 1) a ≤ psiNum n (j + 2) b := by
  obtain ⟨_, _, hsq⟩ := serial_ok bits n mm o h
  rw [hsq] at ha hb
  have hlen := sumSqChain_length o.mMax (countsWrap (bitList bits n) o.mMax).toList
  have hj : j + 1 < o.mMax := by
    by_contra hc
    rw [List.getElem?_eq_none (by rw [List.length_reverse, hlen]; omega)] at hb
    cases hb
  rw [List.getElem?_reverse (by rw [hlen]; omega)] at ha hb
  rw [hlen] at ha hb
  have e : o.mMax - 1 - j = (o.mMax - 1 - (j + 1)) + 1 := by omega
  rw [e] at ha
  have := sumSqChain_step _ _ _ _ _ hb ha
  unfold psiNum
  have h2 : 2 ^ (j + 2) * b = 2 ^ (j + 1) * (2 * b) := by rw [Nat.pow_succ]; ring
  have h3 : 2 ^ (j + 1) * a ≤ 2 ^ (j + 2) * b := by
    rw [h2]; exact Nat.mul_le_mul_left _ this
  have : ((2 ^ (j + 1) * a : Nat) : Int) ≤ ((2 ^ (j + 2) * b : Nat) : Int) := by exact_mod_cast h3
  omega

/-! excursion distribution of the model -/
theorem excursionPi_sum_one (x K : Nat) (hx : 1 ≤ x) (hK : 1 ≤ K) :
    ((excursionPi x K).map qOf).sum = 1 := by
  rw [excursionPi_closed_form x K hx hK]
  have hx' : (x : ℚ) ≠ 0 := by exact_mod_cast (by omega : x ≠ 0)
  exact excursion_sum_one x hx' (K - 1)

theorem excursionPi_pos (x K : Nat) (hx : 1 ≤ x) : ∀ p ∈ excursionPi x K, 0 < p.1 ∧ 0 < p.2 := by
  intro p hp
  unfold excursionPi at hp
  have h1 : 0 < 2 * x - 1 := by omega
  have h2 : 0 < 2 * x := by omega
  simp only [List.cons_append, List.mem_cons, List.mem_append, List.mem_map, List.mem_range,
    List.not_mem_nil, or_false] at hp
  rcases hp with rfl | ⟨j, _, rfl⟩ | rfl
  · exact ⟨h1, h2⟩
  · exact ⟨Nat.pow_pos h1, Nat.pow_pos h2⟩
  · exact ⟨Nat.pow_pos h1, Nat.pow_pos h2⟩

/-- D4: on `1111` the pinned code reports 3 for the backward cusum; the maximum of |S₄ − S_k| is 4. -/
theorem randomWalk_pinned_1111 :
    (randomWalk .pinned 15 4 4 5 9).map (fun o => (o.zFwd, o.zBwd)) = .ok (4, 3) ∧
    (randomWalk .repaired 15 4 4 5 9).map (fun o => (o.zFwd, o.zBwd)) = .ok (4, 4) := by
  decide +kernel


/-! pattern counts -/

theorem natOfBits_append_single (l : List Bool) (b : Bool) :
    natOfBits (l ++ [b]) = natOfBits l + (if b then 2 ^ l.length else 0) := by
  induction l with
  | nil => cases b <;> simp [natOfBits]
  | cons a l ih =>
    simp only [List.cons_append, natOfBits, ih, List.length_cons, Nat.pow_succ]
    cases b
    · simp
    · simp; omega

theorem natOfBits_cons_div (a : Bool) (l : List Bool) : natOfBits (a :: l) / 2 = natOfBits l := by
  simp only [natOfBits]
  cases a
  · simp
  · simp; omega

/-- sliding the window by one position. -/
theorem slide_window (m : Nat) (a b : Bool) (cur : List Bool) (hlen : (a :: cur).length = m) :
    natOfBits (a :: cur) / 2 + (if b then 2 ^ (m - 1) else 0) = natOfBits (cur ++ [b]) := by
  rw [natOfBits_cons_div, natOfBits_append_single]
  simp only [List.length_cons] at hlen
  have : m - 1 = cur.length := by omega
  rw [this]

/-- the windows after the first one: for the current window `cur` (m bits) and the bits to come. -/
def winSpec : List Bool → List Bool → List Nat
  | _ :: cur, b :: rest => natOfBits (cur ++ [b]) :: winSpec (cur ++ [b]) rest
  | _, _ => []

theorem slide_fold (m : Nat) (hm : 1 ≤ m) : ∀ (rest cur : List Bool) (acc : List Nat), cur.length = m →
    (rest.foldl (slide (2 ^ (m - 1))) (natOfBits cur, acc)).2 = (winSpec cur rest).reverse ++ acc
  | [], cur, acc, h => by
    cases cur <;> simp [winSpec]
  | b :: rest, [], acc, h => by simp at h; omega
  | b :: rest, a :: cur, acc, h => by
    simp only [List.foldl_cons, slide, winSpec, List.reverse_cons, List.append_assoc,
      List.singleton_append]
    rw [slide_window m a b cur h]
    have hl : (cur ++ [b]).length = m := by simp at h ⊢; omega
    exact slide_fold m hm rest (cur ++ [b]) _ hl

theorem take_succ_append_cons (cur rest : List Bool) (b : Bool) :
    (cur ++ b :: rest).take (cur.length + 1) = cur ++ [b] := by
  induction cur with
  | nil => simp
  | cons a cur ih => simp only [List.cons_append, List.length_cons, List.take_succ_cons, ih]

/-- index form: the k-th later window consists of the bits k+1 … k+m of `cur ++ rest`. -/
theorem winSpec_index : ∀ (rest cur : List Bool) (k : Nat), k < rest.length → cur.length ≥ 1 →
    (winSpec cur rest)[k]? = some (natOfBits (((cur ++ rest).drop (k + 1)).take cur.length))
  | [], cur, k, hk, _ => by simp at hk
  | b :: rest, [], k, hk, hc => by simp at hc
  | b :: rest, a :: cur, 0, hk, hc => by
    have : ((a :: cur ++ b :: rest).drop (0 + 1)).take (a :: cur).length = cur ++ [b] := by
      simp only [List.cons_append, Nat.zero_add, List.drop_succ_cons, List.drop_zero, List.length_cons]
      exact take_succ_append_cons cur rest b
    rw [this]
    simp [winSpec]
  | b :: rest, a :: cur, k + 1, hk, hc => by
    simp only [winSpec, List.getElem?_cons_succ]
    rw [winSpec_index rest (cur ++ [b]) k (by simpa using hk) (by simp)]
    simp only [List.length_append, List.length_cons, List.length_nil, List.cons_append,
      List.drop_succ_cons, List.append_assoc, List.nil_append, Nat.zero_add]

theorem winSpec_length : ∀ (rest cur : List Bool), cur.length ≥ 1 → (winSpec cur rest).length = rest.length
  | [], cur, _ => by cases cur <;> simp [winSpec]
  | b :: rest, [], hc => by simp at hc
  | b :: rest, a :: cur, hc => by
    simp only [winSpec, List.length_cons]
    rw [winSpec_length rest (cur ++ [b]) (by simp)]

/-- `windows l m` lists, in reverse order, the values of the m-bit windows at all positions
p = 0 … length − m (window at p = bits p … p+m−1, bit p least significant). -/
theorem windows_spec (l : List Bool) (m : Nat) (hm : 1 ≤ m) (hl : m ≤ l.length) :
    (windows l m).reverse =
      (List.range (l.length - m + 1)).map (fun p => natOfBits ((l.drop p).take m)) := by
  unfold windows
  rw [if_neg (by omega)]
  have hlen : (l.take m).length = m := by simp [hl]
  rw [slide_fold m hm (l.drop m) (l.take m) _ hlen]
  simp only [List.reverse_append, List.reverse_reverse, List.reverse_cons, List.reverse_nil,
    List.nil_append, List.singleton_append]
  apply List.ext_getElem?
  intro i
  rw [List.range_succ_eq_map, List.map_cons, List.map_map]
  cases i with
  | zero => simp
  | succ k =>
    simp only [List.getElem?_cons_succ]
    by_cases hk : k < (l.drop m).length
    · rw [winSpec_index _ _ k hk (by omega), hlen, List.take_append_drop]
      have hk' : k < l.length - m := by simpa using hk
      simp [hk']
    · have h1 : (winSpec (l.take m) (l.drop m)).length ≤ k := by
        rw [winSpec_length _ _ (by omega)]; omega
      rw [List.getElem?_eq_none h1]
      have hk' : ¬ k < l.length - m := by simpa using hk
      simp [hk']

/-- `util.FrequencyCount(block, n, m, wrap=False)`: entry w = number of positions p ≤ n − m at which
the m-bit pattern w occurs (bit p least significant). -/
theorem countsNoWrap_spec (l : List Bool) (m : Nat) (hm : 1 ≤ m) (hl : m ≤ l.length) :
    (countsNoWrap l m).toList = (List.range (2 ^ m)).map (fun w =>
      ((List.range (l.length - m + 1)).map (fun p => natOfBits ((l.drop p).take m))).count w) := by
  unfold countsNoWrap
  rw [tally_spec, ← windows_spec l m hm hl]
  simp [List.count_reverse]

/-- `util.FrequencyCount(bits, n, m)` (NIST 2.11.4 (1): the sequence is extended by its first m − 1
bits): entry w = number of the n positions p at which w occurs in the extended sequence. -/
theorem countsWrap_spec (l : List Bool) (m : Nat) (hm : 1 ≤ m) (hl : m ≤ l.length) :
    (countsWrap l m).toList = (List.range (2 ^ m)).map (fun w =>
      ((List.range l.length).map (fun p => natOfBits (((l ++ l.take (m - 1)).drop p).take m))).count w) := by
  unfold countsWrap
  have hlen : (l ++ l.take (m - 1)).length = l.length + (m - 1) := by
    rw [List.length_append, List.length_take]; omega
  have h2 : m ≤ (l ++ l.take (m - 1)).length := by omega
  rw [tally_spec]
  have := windows_spec (l ++ l.take (m - 1)) m hm h2
  rw [hlen] at this
  have e : l.length + (m - 1) - m + 1 = l.length := by omega
  rw [e] at this
  rw [← this]
  simp [List.count_reverse]


/-- `pairSum` of a tally of size 2·s is the tally of the halved values. -/
theorem pairSum_range : ∀ (s : Nat) (f : Nat → Nat),
    pairSum ((List.range (2 * s)).map f) = (List.range s).map (fun v => f (2 * v) + f (2 * v + 1))
  | 0, f => by simp [pairSum]
  | s + 1, f => by
    have e : 2 * (s + 1) = (2 * s + 1) + 1 := by ring
    rw [e, List.range_succ_eq_map, List.range_succ_eq_map (n := 2 * s), List.range_succ_eq_map (n := s)]
    simp only [List.map_cons, List.map_map, pairSum]
    have ih := pairSum_range s (fun i => f (i + 2))
    simp only [Function.comp_def] at ih ⊢
    have e1 : (fun x : Nat => f x.succ.succ) = (fun i => f (i + 2)) := by funext x; rfl
    rw [e1, ih]
    simp only [Nat.mul_zero, Nat.zero_add, Nat.succ_eq_add_one, List.cons.injEq, true_and]
    apply List.map_congr_left
    intro v _
    have a1 : 2 * v + 2 = 2 * (v + 1) := by ring
    have a2 : 2 * v + 1 + 2 = 2 * (v + 1) + 1 := by ring
    rw [a1, a2]

theorem count_half (ws : List Nat) (v : Nat) :
    ws.count (2 * v) + ws.count (2 * v + 1) = (ws.map (· / 2)).count v := by
  induction ws with
  | nil => simp
  | cons w ws ih =>
    simp only [List.map_cons, List.count_cons]
    have : (if w / 2 == v then 1 else 0) = (if w == 2 * v then 1 else 0) + (if w == 2 * v + 1 then 1 else 0) := by
      by_cases h1 : w = 2 * v
      · subst h1; simp
      · by_cases h2 : w = 2 * v + 1
        · subst h2; simp; omega
        · have : ¬ w / 2 = v := by omega
          simp [h1, h2, this]
    omega

theorem take_drop_cons {α} (L : List α) (p m : Nat) (hp : p < L.length) :
    (L.drop p).take (m + 1) = L[p] :: (L.drop (p + 1)).take m := by
  rw [List.drop_eq_getElem_cons hp, List.take_succ_cons]

/-- cyclic shift of the index list is a permutation. -/
theorem shift_perm (n : Nat) (hn : 1 ≤ n) {β} (g : Nat → β) :
    ((List.range n).map (fun p => g ((p + 1) % n))).Perm ((List.range n).map g) := by
  obtain ⟨k, rfl⟩ : ∃ k, n = k + 1 := ⟨n - 1, by omega⟩
  conv_lhs => rw [List.range_succ, List.map_append]
  conv_rhs => rw [List.range_succ_eq_map, List.map_cons, List.map_map]
  have h1 : (List.range k).map (fun p => g ((p + 1) % (k + 1))) = (List.range k).map (g ∘ Nat.succ) := by
    apply List.map_congr_left
    intro p hp
    rw [List.mem_range] at hp
    simp only [Function.comp_def, Nat.succ_eq_add_one]
    rw [Nat.mod_eq_of_lt (by omega)]
  rw [h1]
  simp only [List.map_cons, List.map_nil, Nat.mod_self]
  exact List.perm_append_singleton _ _

/-- the counts of the (m−1)-bit patterns obtained by adding neighbouring entries of the m-bit counts
are the counts of the (m−1)-bit patterns of the extended sequence. -/
theorem pairSum_countsWrap (l : List Bool) (m : Nat) (hm : 2 ≤ m) (hl : m ≤ l.length) :
    pairSum (countsWrap l m).toList = (countsWrap l (m - 1)).toList := by
  obtain ⟨k, rfl⟩ : ∃ k, m = k + 2 := ⟨m - 2, by omega⟩
  rw [countsWrap_spec l (k + 2) (by omega) hl, countsWrap_spec l (k + 2 - 1) (by omega) (by omega)]
  have e2 : 2 ^ (k + 2) = 2 * 2 ^ (k + 2 - 1) := by
    have : k + 2 = (k + 2 - 1) + 1 := by omega
    conv_lhs => rw [this, Nat.pow_succ]
    ring
  rw [e2, pairSum_range]
  apply List.map_congr_left
  intro v _
  rw [count_half]
  apply List.Perm.count_eq
  simp only [show k + 2 - 1 = k + 1 from rfl, show k + 1 - 1 = k from rfl, List.map_map]
  have hn : 1 ≤ l.length := by omega
  refine List.Perm.trans (List.Perm.of_eq ?_) (shift_perm l.length hn
    (fun q => natOfBits (((l ++ l.take k).drop q).take (k + 1))))
  apply List.map_congr_left
  intro p hp
  rw [List.mem_range] at hp
  simp only [Function.comp_def]
  have hlen : p < (l ++ l.take (k + 1)).length := by
    rw [List.length_append]; omega
  rw [take_drop_cons _ p (k + 1) hlen, natOfBits_cons_div]
  congr 1
  by_cases hlast : p + 1 < l.length
  · rw [Nat.mod_eq_of_lt hlast]
    rw [List.drop_append_of_le_length (by omega), List.drop_append_of_le_length (by omega)]
    rw [List.take_append, List.take_append]
    congr 1
    rw [List.take_take, List.take_take, List.length_drop]
    congr 1
    omega
  · have hp1 : p + 1 = l.length := by omega
    rw [hp1, Nat.mod_self, List.drop_zero, List.drop_left' rfl]
    rw [List.take_take, List.take_append_of_le_length (by omega)]
    simp

theorem sumSqChain_counts (l : List Bool) : ∀ (j : Nat), j ≤ l.length →
    sumSqChain j (countsWrap l j).toList = (List.range j).map (fun i => sumSq (countsWrap l (j - i)).toList)
  | 0, _ => by simp [sumSqChain]
  | j + 1, hj => by
    rw [sumSqChain, List.range_succ_eq_map, List.map_cons, List.map_map]
    congr 1
    cases j with
    | zero => simp [sumSqChain]
    | succ j =>
      rw [pairSum_countsWrap l (j + 2) (by omega) hj]
      rw [show j + 2 - 1 = j + 1 from rfl, sumSqChain_counts l (j + 1) (by omega)]
      apply List.map_congr_left
      intro i _
      simp only [Function.comp_def, Nat.succ_eq_add_one]
      congr 3
      omega

/-- NIST 2.11.4 (2)–(3): `sq[i]` = Σ_w ν_w² over all (i+1)-bit patterns w, ν_w = number of occurrences in
the sequence extended by its first i bits; ψ²_m = (2^m/n)·sq[m−1] − n. -/
theorem serial_sq (bits n : Nat) (mm : Option Nat) (o : SerialOut) (h : serial bits n mm = .ok o) :
    o.sq = (List.range o.mMax).map (fun i => sumSq (countsWrap (bitList bits n) (i + 1)).toList) := by
  obtain ⟨_, hle, hsq⟩ := serial_ok bits n mm o h
  rw [hsq, sumSqChain_counts _ _ (by rw [bitList_length]; exact hle)]
  apply List.ext_getElem?
  intro i
  by_cases hi : i < o.mMax
  · rw [List.getElem?_reverse (by simpa using hi)]
    simp only [List.length_map, List.length_range, List.getElem?_map]
    rw [List.getElem?_range (by omega), List.getElem?_range hi]
    simp only [Option.map_some]
    congr 4
    omega
  · rw [List.getElem?_eq_none (by simpa using hi), List.getElem?_eq_none (by simpa using hi)]

theorem apen_ok (bits n : Nat) (mm : Option Nat) (o : ApenOut) (h : approximateEntropy bits n mm = .ok o) :
    o.n = n ∧ o.mMax + 1 ≤ n ∧
      o.levels = (apenChain o.mMax (countsWrap (bitList bits n) (o.mMax + 1)).toList).reverse := by
  unfold approximateEntropy apenWith at h
  split_ifs at h with hle
  simp only [Except.ok.injEq] at h
  subst h
  exact ⟨rfl, by simpa using hle, rfl⟩

theorem apenChain_counts (l : List Bool) : ∀ (j : Nat), j + 1 ≤ l.length →
    apenChain j (countsWrap l (j + 1)).toList =
      (List.range j).map (fun i => multiset ((countsWrap l (j + 1 - i)).toList.filter (· ≠ 0)))
  | 0, _ => by simp [apenChain]
  | j + 1, hj => by
    rw [apenChain, List.range_succ_eq_map, List.map_cons, List.map_map]
    congr 1
    rw [pairSum_countsWrap l (j + 2) (by omega) hj]
    rw [show j + 2 - 1 = j + 1 from rfl, apenChain_counts l j (by omega)]
    apply List.map_congr_left
    intro i _
    simp only [Function.comp_def, Nat.succ_eq_add_one]
    congr 4
    omega

/-- NIST 2.12.4: `levels[i]` = multiset of the non-zero counts of the (i+2)-bit patterns of the
sequence extended by its first i+1 bits; φ^(m) = Σ (ν/n)·ln(ν/n). -/
theorem apen_levels (bits n : Nat) (mm : Option Nat) (o : ApenOut)
    (h : approximateEntropy bits n mm = .ok o) :
    o.levels = (List.range o.mMax).map (fun i =>
      multiset ((countsWrap (bitList bits n) (i + 2)).toList.filter (· ≠ 0))) := by
  obtain ⟨_, hle, hlv⟩ := apen_ok bits n mm o h
  rw [hlv, apenChain_counts _ _ (by rw [bitList_length]; exact hle)]
  apply List.ext_getElem?
  intro i
  by_cases hi : i < o.mMax
  · rw [List.getElem?_reverse (by simpa using hi)]
    simp only [List.length_map, List.length_range, List.getElem?_map]
    rw [List.getElem?_range (by omega), List.getElem?_range hi]
    simp only [Option.map_some]
    congr 5
    omega
  · rw [List.getElem?_eq_none (by simpa using hi), List.getElem?_eq_none (by simpa using hi)]


/-- cyclic shift of the index list by k is a permutation. -/
theorem shiftk_perm (n : Nat) (hn : 1 ≤ n) {β} (g : Nat → β) : ∀ k : Nat,
    ((List.range n).map (fun p => g ((p + k) % n))).Perm ((List.range n).map g)
  | 0 => by
    apply List.Perm.of_eq
    apply List.map_congr_left
    intro p hp
    rw [List.mem_range] at hp
    simp [Nat.mod_eq_of_lt hp]
  | k + 1 => by
    have h1 := shift_perm n hn (fun q => g ((q + k) % n))
    have h2 := shiftk_perm n hn g k
    refine List.Perm.trans (List.Perm.of_eq ?_) (h1.trans h2)
    apply List.map_congr_left
    intro p _
    show g ((p + (k + 1)) % n) = g (((p + 1) % n + k) % n)
    congr 1
    rw [Nat.mod_add_mod]
    congr 1
    omega

/-- `take m (drop p X)` by indices. -/
theorem take_drop_getD (X : List Bool) (p m : Nat) (h : p + m ≤ X.length) :
    (X.drop p).take m = (List.range m).map (fun j => X.getD (p + j) false) := by
  apply List.ext_getElem?
  intro i
  by_cases hi : i < m
  · rw [List.getElem?_take_of_lt hi, List.getElem?_drop, List.getElem?_map, List.getElem?_range hi]
    simp only [Option.map_some, List.getD_eq_getElem?_getD]
    rw [List.getElem?_eq_getElem (by omega)]
    simp
  · rw [List.getElem?_eq_none (by simp; omega), List.getElem?_eq_none (by simp; omega)]

/-- the sequence extended by its first m − 1 bits, read cyclically. -/
theorem ext_getD (L : List Bool) (m i : Nat) (hm : m ≤ L.length + 1) (hi : i < L.length + (m - 1)) :
    (L ++ L.take (m - 1)).getD i false = L.getD (i % L.length) false := by
  by_cases h : i < L.length
  · rw [Nat.mod_eq_of_lt h]
    simp only [List.getD_eq_getElem?_getD]
    rw [List.getElem?_append_left h]
  · have h' : L.length ≤ i := by omega
    have hmod : i % L.length = i - L.length := by
      rw [Nat.mod_eq_sub_mod h', Nat.mod_eq_of_lt (by omega)]
    rw [hmod]
    simp only [List.getD_eq_getElem?_getD]
    rw [List.getElem?_append_right h', List.getElem?_take_of_lt (by omega)]

/-- window at position p of the extended sequence = the m cyclically consecutive bits from p. -/
theorem cyclic_window (L : List Bool) (m p : Nat) (hm1 : 1 ≤ m) (hm : m ≤ L.length) (hp : p < L.length) :
    ((L ++ L.take (m - 1)).drop p).take m =
      (List.range m).map (fun j => L.getD ((p + j) % L.length) false) := by
  have hlen : (L ++ L.take (m - 1)).length = L.length + (m - 1) := by
    rw [List.length_append, List.length_take]; omega
  rw [take_drop_getD _ p m (by omega)]
  apply List.map_congr_left
  intro j hj
  rw [List.mem_range] at hj
  exact ext_getD L m (p + j) (by omega) (by omega)

theorem rotate_getD (L : List Bool) (k i : Nat) (hi : i < L.length) :
    (L.rotate k).getD i false = L.getD ((i + k) % L.length) false := by
  simp only [List.getD_eq_getElem?_getD]
  rw [List.getElem?_rotate hi]

/-- ☆ the wrap-around pattern counts are invariant under cyclic rotation of the string. -/
theorem countsWrap_rotate (l : List Bool) (m k : Nat) (hm : 1 ≤ m) (hl : m ≤ l.length) :
    (countsWrap (l.rotate k) m).toList = (countsWrap l m).toList := by
  have hn : 1 ≤ l.length := by omega
  rw [countsWrap_spec _ m hm (by rw [List.length_rotate]; exact hl), countsWrap_spec l m hm hl]
  apply List.map_congr_left
  intro w _
  apply List.Perm.count_eq
  rw [List.length_rotate]
  refine List.Perm.trans (List.Perm.of_eq ?_) (shiftk_perm l.length hn
    (fun q => natOfBits (((l ++ l.take (m - 1)).drop q).take m)) k)
  apply List.map_congr_left
  intro p hp
  rw [List.mem_range] at hp
  show natOfBits ((((l.rotate k) ++ (l.rotate k).take (m - 1)).drop p).take m) =
    natOfBits (((l ++ l.take (m - 1)).drop ((p + k) % l.length)).take m)
  rw [cyclic_window (l.rotate k) m p hm (by rw [List.length_rotate]; exact hl)
        (by rw [List.length_rotate]; exact hp),
      cyclic_window l m ((p + k) % l.length) hm hl (Nat.mod_lt _ (by omega))]
  congr 1
  apply List.map_congr_left
  intro j _
  rw [List.length_rotate, rotate_getD l k _ (Nat.mod_lt _ (by omega))]
  congr 1
  rw [Nat.mod_add_mod, Nat.mod_add_mod]
  congr 1
  omega

end Paranoid.Nist
