/-
Proofs/Nist2Apen.lean — range of the ApproximateEntropy statistic (NIST SP 800-22 2.12.4):
χ² = 2n(ln 2 − ApEn(m)) ≥ 0 over ℝ, for the exact count vectors of the model.

ApEn(m) = φ_m − φ_{m+1}, φ_m = Σ_w (ν_w/n)·ln(ν_w/n) over the m-bit patterns (0·ln 0 = 0, which is
Mathlib's `Real.log 0 = 0` and the code's `if c:`).  Since ν_w = ν_{0w} + ν_{1w} (the marginal identity
`pairSum_countsWrap`) and x·ln x is convex (`Real.convexOn_mul_log`),
  (a+b)·ln(a+b) ≤ a·ln a + b·ln b + (a+b)·ln 2,
so φ_m ≤ φ_{m+1} + ln 2 (Gibbs / log-sum inequality on the conditional distribution).
-/
import ParanoidModel.Proofs.Nist2Serial
import Mathlib.Analysis.SpecialFunctions.Log.NegMulLog
namespace Paranoid.Nist

/-- x·ln x (0 at 0). -/
noncomputable def xlogx (x : ℝ) : ℝ := x * Real.log x

theorem xlogx_zero : xlogx 0 = 0 := by simp [xlogx]

theorem xlogx_pair (x y : ℝ) (hx : 0 ≤ x) (hy : 0 ≤ y) :
    xlogx (x + y) ≤ xlogx x + xlogx y + (x + y) * Real.log 2 := by
  unfold xlogx
  by_cases h0 : x + y = 0
  · have hx0 : x = 0 := by linarith
    have hy0 : y = 0 := by linarith
    simp [hx0, hy0]
  · have hpos : 0 < x + y := lt_of_le_of_ne (by linarith) (Ne.symm h0)
    have hc := Real.convexOn_mul_log.2 (Set.mem_Ici.mpr hx) (Set.mem_Ici.mpr hy)
      (by norm_num : (0 : ℝ) ≤ 1 / 2) (by norm_num : (0 : ℝ) ≤ 1 / 2) (by norm_num)
    simp only [smul_eq_mul] at hc
    have e : (1 / 2 : ℝ) * x + 1 / 2 * y = (x + y) / 2 := by ring
    rw [e, Real.log_div (ne_of_gt hpos) (by norm_num)] at hc
    linarith

/-- φ = Σ_c (c/n)·ln(c/n) for a count vector (`ComputeApproximateEntropy`, as a real number). -/
noncomputable def phi (n : Nat) (cnt : List Nat) : ℝ :=
  (cnt.map (fun (c : Nat) => xlogx ((c : ℝ) / n))).sum

theorem phi_pairSum (n : Nat) : ∀ cnt : List Nat, cnt.length % 2 = 0 →
    phi n (pairSum cnt) ≤ phi n cnt + ((cnt.sum : Nat) : ℝ) / n * Real.log 2
  | [], _ => by simp [phi, pairSum]
  | [x], h => by simp at h
  | a :: b :: rest, h => by
    have h' : rest.length % 2 = 0 := by simp only [List.length_cons] at h; omega
    have ih := phi_pairSum n rest h'
    have hp := xlogx_pair ((a : ℝ) / n) ((b : ℝ) / n) (by positivity) (by positivity)
    simp only [phi, pairSum, List.map_cons, List.sum_cons, Nat.cast_add] at ih ⊢
    have e1 : ((a : ℝ) + b) / n = a / n + b / n := by ring
    have e2 : ((a : ℝ) + (b + (rest.sum : ℝ))) / n = a / n + b / n + (rest.sum : ℝ) / n := by ring
    rw [e1, e2]
    linarith

/-- φ of a level given as the multiset of its non-zero counts (`ApenOut.levels`). -/
noncomputable def phiLevel (n : Nat) (lv : List (Nat × Nat)) : ℝ :=
  (lv.map (fun (p : Nat × Nat) => (p.2 : ℝ) * xlogx ((p.1 : ℝ) / n))).sum

/-! `multiset` preserves weighted sums -/

noncomputable def wsum (g : Nat → ℝ) (acc : List (Nat × Nat)) : ℝ := (acc.map (fun (p : Nat × Nat) => (p.2 : ℝ) * g p.1)).sum

theorem wsum_rleStep (g : Nat → ℝ) (acc : List (Nat × Nat)) (v : Nat) :
    wsum g (rleStep acc v) = wsum g acc + g v := by
  unfold rleStep
  split
  · rename_i w c rest
    split
    · rename_i hw
      subst hw
      simp only [wsum, List.map_cons, List.sum_cons]
      push_cast
      ring
    · simp only [wsum, List.map_cons, List.sum_cons]
      push_cast
      ring
  · simp [wsum]

theorem wsum_fold (g : Nat → ℝ) : ∀ (l : List Nat) (acc : List (Nat × Nat)),
    wsum g (l.foldl rleStep acc) = wsum g acc + (l.map g).sum
  | [], acc => by simp
  | v :: l, acc => by
    rw [List.foldl_cons, wsum_fold g l, wsum_rleStep, List.map_cons, List.sum_cons]
    ring

theorem wsum_multiset (g : Nat → ℝ) (vals : List Nat) : wsum g (multiset vals) = (vals.map g).sum := by
  unfold multiset
  have h1 : wsum g ((vals.mergeSort (fun a b => decide (a ≤ b))).foldl rleStep []).reverse =
      wsum g ((vals.mergeSort (fun a b => decide (a ≤ b))).foldl rleStep []) := by
    simp [wsum, List.sum_reverse]
  rw [h1, wsum_fold]
  simp only [wsum, List.map_nil, List.sum_nil, zero_add]
  exact ((List.mergeSort_perm vals _).map g).sum_eq

theorem sum_filter_ne_zero (g : Nat → ℝ) (hg : g 0 = 0) : ∀ (l : List Nat),
    ((l.filter (· ≠ 0)).map g).sum = (l.map g).sum
  | [] => rfl
  | a :: l => by
    have ih := sum_filter_ne_zero g hg l
    by_cases h : a = 0
    · subst h
      rw [List.filter_cons_of_neg (by simp), ih, List.map_cons, List.sum_cons, hg, zero_add]
    · rw [List.filter_cons_of_pos (by simpa using h), List.map_cons, List.sum_cons, ih, List.map_cons,
        List.sum_cons]

/-- the multiset of non-zero counts carries exactly φ. -/
theorem phiLevel_multiset (n : Nat) (cnt : List Nat) :
    phiLevel n (multiset (cnt.filter (· ≠ 0))) = phi n cnt := by
  have h := wsum_multiset (fun (c : Nat) => xlogx ((c : ℝ) / n)) (cnt.filter (· ≠ 0))
  unfold wsum at h
  unfold phiLevel phi
  rw [h, sum_filter_ne_zero (fun c : Nat => xlogx ((c : ℝ) / n)) (by simp [xlogx_zero])]

/-- φ_m ≤ φ_{m+1} + ln 2 for the cyclic pattern counts (ApEn(m) ≤ ln 2). -/
theorem phi_countsWrap (l : List Bool) (m : Nat) (hm : 1 ≤ m) (hl : m + 1 ≤ l.length) :
    phi l.length (countsWrap l m).toList ≤ phi l.length (countsWrap l (m + 1)).toList + Real.log 2 := by
  have h := phi_pairSum l.length (countsWrap l (m + 1)).toList
    (by rw [countsWrap_length l (m + 1) (by omega) hl, Nat.pow_succ]; omega)
  rw [pairSum_countsWrap l (m + 1) (by omega) hl, countsWrap_sum l (m + 1) (by omega) hl,
    Nat.add_sub_cancel] at h
  have hn : ((l.length : Nat) : ℝ) ≠ 0 := by
    have : 0 < l.length := by omega
    exact_mod_cast this.ne'
  rwa [div_self hn, one_mul] at h

/-- ★ 2.12.4 (5): χ² = 2n(ln 2 − ApEn(m)) ≥ 0, with ApEn(m) = φ_m − φ_{m+1} formed from the model's
count multisets `levels[m−2]`, `levels[m−1]`, for every m = 2 … m_max. -/
theorem apen_chi_nonneg (bits n : Nat) (mm : Option Nat) (o : ApenOut)
    (h : approximateEntropy bits n mm = .ok o) (i : Nat) (lo hi : List (Nat × Nat))
    (hlo : o.levels[i]? = some lo) (hhi : o.levels[i + 1]? = some hi) :
    0 ≤ 2 * (n : ℝ) * (Real.log 2 - (phiLevel n lo - phiLevel n hi)) := by
  obtain ⟨_, hle, _⟩ := apen_ok bits n mm o h
  have hlv := apen_levels bits n mm o h
  rw [hlv] at hlo hhi
  have hi' : i + 1 < o.mMax := by
    by_contra hcon
    rw [List.getElem?_eq_none (by simp; omega)] at hhi
    cases hhi
  rw [List.getElem?_map, List.getElem?_range (by omega)] at hlo hhi
  simp only [Option.map_some, Option.some.injEq] at hlo hhi
  subst hlo; subst hhi
  rw [phiLevel_multiset, phiLevel_multiset]
  have key := phi_countsWrap (bitList bits n) (i + 2) (by omega) (by rw [bitList_length]; omega)
  rw [bitList_length] at key
  have hn : (0 : ℝ) ≤ 2 * (n : ℝ) := by positivity
  apply mul_nonneg hn
  rw [show i + 1 + 2 = i + 2 + 1 from rfl]
  linarith

end Paranoid.Nist
