/-
Proofs/Nist2Blocks.lean — per-block statistics that are computed by a single left-to-right pass:

* 2.8.4 overlapping template matching: `overlappingOnes l m` (`util.OverlappingRunsOfOnes`) is the
  number of positions i at which the window l[i .. i+m−1] is the all-ones template;
* 2.9.4 Maurer's universal test: the table walk of `UniversalImpl` produces, for every block position
  j ≥ Q, the distance to the previous occurrence of the same L-bit block (j + 1 if there is none,
  i.e. `tab[b] = −1`).
-/
import ParanoidModel.Proofs.Nist
import ParanoidModel.Proofs.Nist2Serial
namespace Paranoid.Nist

/-! ## overlapping template matching -/

/-- the fold of `overlappingOnes`, restated as a recursion: `c` = ones seen immediately before. -/
def endCount (m : Nat) : Nat → List Bool → Nat
  | _, [] => 0
  | c, true :: l => (if c + 1 ≥ m then 1 else 0) + endCount m (c + 1) l
  | _, false :: l => endCount m 0 l

theorem or_fold (m : Nat) : ∀ (l : List Bool) (c n : Nat),
    (l.foldl (orStep m) (c, n)).2 = n + endCount m c l
  | [], c, n => by simp [endCount]
  | true :: l, c, n => by
    simp only [List.foldl_cons, orStep, if_true, endCount]
    rw [or_fold m l]
    split <;> omega
  | false :: l, c, n => by
    simp only [List.foldl_cons, orStep, endCount]
    rw [show (if false = true then (c + 1, if c + 1 ≥ m then n + 1 else n) else (0, n)) = (0, n) by simp,
      or_fold m l]

/-- number of start positions of a window of m ones (definition, by start position). -/
def startCount (m : Nat) : List Bool → Nat
  | [] => 0
  | b :: l => (if m ≤ leadOnes (b :: l) then 1 else 0) + startCount m l

theorem leadOnes_le_length : ∀ (l : List Bool), leadOnes l ≤ l.length
  | [] => by simp [leadOnes]
  | true :: l => by simp only [leadOnes, List.length_cons]; have := leadOnes_le_length l; omega
  | false :: l => by simp [leadOnes]

theorem endCount_run (m : Nat) (hm : 1 ≤ m) : ∀ (l : List Bool) (c : Nat),
    endCount m c l = min (leadOnes l) (leadOnes l + c + 1 - m) + endCount m 0 (l.drop (leadOnes l + 1))
  | [], c => by simp [endCount, leadOnes]
  | false :: l, c => by simp [endCount, leadOnes]
  | true :: l, c => by
    have ih := endCount_run m hm l (c + 1)
    simp only [endCount, leadOnes, List.drop_succ_cons]
    rw [ih]
    split <;> omega

theorem startCount_run (m : Nat) (hm : 1 ≤ m) : ∀ (l : List Bool),
    startCount m l = (leadOnes l + 1 - m) + startCount m (l.drop (leadOnes l + 1))
  | [] => by simp [startCount, leadOnes]; omega
  | false :: l => by
    have h0 : leadOnes (false :: l) = 0 := rfl
    rw [startCount, h0, if_neg (by omega)]
    simp only [Nat.zero_add, List.drop_succ_cons, List.drop_zero]
    omega
  | true :: l => by
    have ih := startCount_run m hm l
    have h1 : leadOnes (true :: l) = leadOnes l + 1 := rfl
    rw [startCount, h1, ih]
    simp only [List.drop_succ_cons]
    split <;> omega

theorem endCount_eq_startCount (m : Nat) (hm : 1 ≤ m) : ∀ (k : Nat) (l : List Bool), l.length ≤ k →
    endCount m 0 l = startCount m l
  | 0, l, h => by
    have : l = [] := List.eq_nil_of_length_eq_zero (by omega)
    subst this; rfl
  | k + 1, l, h => by
    cases l with
    | nil => rfl
    | cons b l' =>
      rw [endCount_run m hm, startCount_run m hm]
      have hlen : ((b :: l').drop (leadOnes (b :: l') + 1)).length ≤ k := by
        rw [List.length_drop]; simp only [List.length_cons] at h ⊢; omega
      rw [endCount_eq_startCount m hm k _ hlen]
      omega

theorem startCount_index (m : Nat) : ∀ (l : List Bool),
    startCount m l = (List.range l.length).countP (fun i => decide (m ≤ leadOnes (l.drop i)))
  | [] => by simp [startCount]
  | b :: l => by
    rw [startCount, startCount_index m l, List.length_cons, List.range_succ_eq_map, List.countP_cons,
      List.countP_map]
    simp only [List.drop_zero, Function.comp_def, Nat.succ_eq_add_one, List.drop_succ_cons]
    by_cases hc : m ≤ leadOnes (b :: l)
    · simp [hc]; omega
    · simp [hc]

/-- ★ 2.8.4: `util.OverlappingRunsOfOnes(block, m)` = #{i | block[i .. i+m−1] = 1^m}, for every m ≥ 1. -/
theorem overlappingOnes_spec (l : List Bool) (m : Nat) (hm : 1 ≤ m) :
    overlappingOnes l m =
      (List.range l.length).countP (fun i => decide (∀ j < m, l[i + j]? = some true)) := by
  unfold overlappingOnes
  rw [or_fold, Nat.zero_add, endCount_eq_startCount m hm l.length l (le_refl _), startCount_index]
  apply List.countP_congr
  intro i _
  simp only [decide_eq_true_eq]
  rw [le_leadOnes_iff]
  simp only [List.getElem?_drop]

/-! ## Maurer's universal test -/

/-- the distances `j − tab[b]` for all block positions j = |seen|, |seen|+1, … (`seenRev` = the blocks
before position j, most recent first): 1 + number of steps back to the previous occurrence of the block,
which is j + 1 when it has not occurred (`List.idxOf` returns the length). -/
def distsFrom : List Nat → List Nat → List Nat
  | _, [] => []
  | seenRev, b :: rest => (seenRev.idxOf b + 1) :: distsFrom (b :: seenRev) rest

/-- table invariant: `tab[b]` = (position of the last occurrence of b) + 1, 0 if none. -/
def TabInv (N : Nat) (tab : Array Nat) (seenRev : List Nat) : Prop :=
  tab.size = N ∧ ∀ b < N, tab[b]? = some (seenRev.length - seenRev.idxOf b)

theorem tabInv_init (N : Nat) : TabInv N (Array.replicate N 0) [] := by
  refine ⟨by simp, fun b hb => ?_⟩
  simp [hb]

theorem tabInv_step (N : Nat) (tab : Array Nat) (seenRev : List Nat) (b0 : Nat) (hb0 : b0 < N)
    (h : TabInv N tab seenRev) : TabInv N (tab.setIfInBounds b0 (seenRev.length + 1)) (b0 :: seenRev) := by
  obtain ⟨hs, ht⟩ := h
  refine ⟨by simp [hs], fun b hb => ?_⟩
  by_cases hbb : b = b0
  · subst hbb
    simp [hs, hb]
  · have hne : b0 ≠ b := fun hc => hbb hc.symm
    rw [Array.getElem?_setIfInBounds_ne hne, ht b hb, List.idxOf_cons_ne _ hne]
    have := List.idxOf_le_length (a := b) (l := seenRev)
    simp only [List.length_cons]
    congr 1
    omega

theorem uniStep_ok (q : Nat) (tab : Array Nat) (j : Nat) (ds : List Nat) (b last : Nat)
    (h : tab[b]? = some last) :
    uniStep q (.ok (tab, j, ds)) b =
      if j < q then .ok (tab.setIfInBounds b (j + 1), j + 1, ds)
      else .ok (tab.setIfInBounds b (j + 1), j + 1, (j + 1 - last) :: ds) := by
  simp only [uniStep, h]

/-- the fold of `uniStep` over blocks that are all below the table size. -/
theorem uni_fold (q N : Nat) : ∀ (bs : List Nat) (tab : Array Nat) (seenRev ds : List Nat),
    (∀ b ∈ bs, b < N) → TabInv N tab seenRev →
    ∃ tab', bs.foldl (uniStep q) (.ok (tab, seenRev.length, ds)) =
      .ok (tab', seenRev.length + bs.length,
        ((distsFrom seenRev bs).drop (q - seenRev.length)).reverse ++ ds)
  | [], tab, seenRev, ds, _, _ => ⟨tab, by simp [distsFrom]⟩
  | b :: bs, tab, seenRev, ds, hb, hinv => by
    have hbN : b < N := hb b (by simp)
    have hget := hinv.2 b hbN
    have hinv' := tabInv_step N tab seenRev b hbN hinv
    have hle := List.idxOf_le_length (a := b) (l := seenRev)
    rw [List.foldl_cons, uniStep_ok q tab _ ds b _ hget]
    by_cases hq : seenRev.length < q
    · rw [if_pos hq]
      obtain ⟨tab', h'⟩ := uni_fold q N bs _ (b :: seenRev) ds (fun x hx => hb x (by simp [hx])) hinv'
      refine ⟨tab', ?_⟩
      simp only [List.length_cons] at h'
      rw [h']
      simp only [distsFrom, List.length_cons]
      have e : q - seenRev.length = (q - (seenRev.length + 1)) + 1 := by omega
      rw [e, List.drop_succ_cons,
        show seenRev.length + 1 + bs.length = seenRev.length + (bs.length + 1) by omega]
    · rw [if_neg hq]
      obtain ⟨tab', h'⟩ := uni_fold q N bs _ (b :: seenRev)
        ((seenRev.length + 1 - (seenRev.length - seenRev.idxOf b)) :: ds)
        (fun x hx => hb x (by simp [hx])) hinv'
      refine ⟨tab', ?_⟩
      simp only [List.length_cons] at h'
      rw [h']
      simp only [distsFrom, List.length_cons]
      have e0 : q - seenRev.length = 0 := by omega
      have e1 : q - (seenRev.length + 1) = 0 := by omega
      rw [e0, e1, List.drop_zero, List.drop_zero, List.reverse_cons, List.append_assoc, List.singleton_append]
      have e2 : seenRev.length + 1 - (seenRev.length - seenRev.idxOf b) = seenRev.idxOf b + 1 := by omega
      rw [e2, show seenRev.length + 1 + bs.length = seenRev.length + (bs.length + 1) by omega]

/-- index form of `distsFrom`: the entry for block position j looks back through `bs[0..j)`. -/
theorem distsFrom_get : ∀ (bs seenRev : List Nat) (j : Nat),
    (distsFrom seenRev bs)[j]? = (bs[j]?).map (fun b => ((bs.take j).reverse ++ seenRev).idxOf b + 1)
  | [], _, j => by simp [distsFrom]
  | b :: bs, seenRev, 0 => by simp [distsFrom]
  | b :: bs, seenRev, j + 1 => by
    rw [distsFrom, List.getElem?_cons_succ, distsFrom_get bs (b :: seenRev) j, List.getElem?_cons_succ]
    simp [List.take_succ_cons]

theorem distsFrom_length : ∀ (bs seenRev : List Nat), (distsFrom seenRev bs).length = bs.length
  | [], _ => rfl
  | b :: bs, s => by simp [distsFrom, distsFrom_length bs]

/-- ★ 2.9.4: the K distances of `UniversalImpl` are, for the block positions j = Q … Q+K−1, the
distance back to the previous occurrence of block j among the blocks 0 … j−1 (j + 1 if there is none);
`dists` is their multiset. -/
theorem universalImpl_dists (bits n L q : Nat) (o : UniversalOut) (h : universalImpl bits n L q = .ok o) :
    o.blockSize = L ∧ o.q = q ∧ o.k = n / L - q ∧
    o.dists = multiset (((distsFrom [] ((chunks (bitList bits n) L).map natOfBits)).drop q).reverse) := by
  unfold universalImpl at h
  split_ifs at h
  have hbs : ∀ b ∈ (chunks (bitList bits n) L).map natOfBits, b < 2 ^ L := by
    intro b hb
    rw [List.mem_map] at hb
    obtain ⟨c, hc, rfl⟩ := hb
    have := natOfBits_lt c
    rwa [chunk_length _ _ c hc] at this
  obtain ⟨tab', hf⟩ := uni_fold q (2 ^ L) _ _ [] [] hbs (tabInv_init _)
  simp only [List.length_nil, Nat.zero_add, Nat.sub_zero, List.append_nil] at hf
  rw [hf] at h
  simp only [Except.ok.injEq] at h
  subst h
  exact ⟨rfl, rfl, rfl, rfl⟩

/-! ## histograms of the overlapping-template and rank tests -/

theorem overlappingWith_ok (bits n m bs : Nat) (o : OtmOut) (h : overlappingWith bits n m bs = .ok o) :
    o.m = m ∧ o.blockSize = bs ∧ 0 < bs ∧ 1 ≤ n / bs ∧ m + 4 ≤ bs ∧
    o.hist = (List.range 6).map (fun i =>
      ((chunks (bitList bits n) bs).map (fun b => min 5 (overlappingOnes b m))).count i) := by
  unfold overlappingWith at h
  split_ifs at h with h1 h2 h3
  simp only [Except.ok.injEq] at h
  subst h
  have h2' : 1 ≤ n / bs := Nat.one_le_iff_ne_zero.mpr h2
  refine ⟨rfl, rfl, by omega, h2', by omega, ?_⟩
  simp [tally_spec]

theorem groupsAux_spec {α} (r : Nat) : ∀ (k : Nat) (l : List α) (acc : List (List α)),
    groupsAux r k l acc = acc.reverse ++ (List.range k).map (fun i => (l.drop (i * r)).take r)
  | 0, l, acc => by simp [groupsAux]
  | k + 1, l, acc => by
    rw [groupsAux, groupsAux_spec r k, List.range_succ_eq_map]
    simp only [List.reverse_cons, List.append_assoc, List.singleton_append, List.map_cons,
      List.map_map, Nat.zero_mul, List.drop_zero]
    congr 2
    apply List.map_congr_left
    intro i _
    simp only [Function.comp_def, List.drop_drop]
    congr 2
    rw [Nat.succ_eq_add_one]; ring

/-- the matrices are the consecutive groups of r rows (`rows[i*r:(i+1)*r]`). -/
theorem groups_spec {α} (l : List α) (r : Nat) :
    groups l r = (List.range (l.length / r)).map (fun i => (l.drop (i * r)).take r) := by
  simp [groups, groupsAux_spec]

theorem binaryMatrixRankImpl_ok (rows : List Nat) (r c k : Nat) (o : RankOut)
    (h : binaryMatrixRankImpl rows r c k = .ok o) :
    o.r = r ∧ o.c = c ∧ o.k = k ∧ (o.approx = true ↔ (r = c ∧ r ≥ 31 ∧ k ≤ 5)) ∧
    o.hist = (List.range (k + 1)).map (fun i =>
      ((groups rows r).map (fun mat => min k (r - binaryRank mat))).count i) := by
  unfold binaryMatrixRankImpl at h
  split_ifs at h with h1 h2 h3 h4
  · simp only [Except.ok.injEq] at h
    subst h
    exact ⟨rfl, rfl, rfl, ⟨fun _ => h3, fun _ => rfl⟩, by simp [tally_spec]⟩
  · simp only [Except.ok.injEq] at h
    subst h
    exact ⟨rfl, rfl, rfl, ⟨fun hc => by simp at hc, fun hc => absurd hc h3⟩, by simp [tally_spec]⟩

theorem binaryMatrixRank_ok (bits n r c k : Nat) (cs : Bool) (o : RankOut)
    (h : binaryMatrixRank bits n r c k cs = .ok o) :
    o.r = r ∧ o.c = c ∧ o.k = k ∧ (o.approx = true ↔ (r = c ∧ r ≥ 31 ∧ k ≤ 5)) ∧
    o.hist = (List.range (k + 1)).map (fun i =>
      ((groups ((chunks (bitList bits n) c).map natOfBits) r).map
        (fun mat => min k (r - binaryRank mat))).count i) := by
  unfold binaryMatrixRank at h
  split_ifs at h
  exact binaryMatrixRankImpl_ok _ r c k o h

end Paranoid.Nist
