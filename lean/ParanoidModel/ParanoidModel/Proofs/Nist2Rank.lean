/-
Proofs/Nist2Rank.lean — binary matrix rank (NIST SP 800-22 2.5 / 3.5).

(a) The model's `binaryRank` (plain Gaussian elimination, Model/Nist.lean) is C15's `rankSmall`, hence
    `2 ^ binaryRank rows = spanSize rows` (number of distinct GF(2)-combinations of the rows).
(b) `nist_suite.RankDistribution(r, c, k, allow_approximation=False)`: the in-place recurrence, mirrored
    over ℚ (`rankPass`, `rankRes` in Model/Nist.lean), equals the classical exact formula
      P(rank = j) = ∏_{i<j} (2^c − 2^i)(2^r − 2^i) / ((2^j − 2^i) · 2^(r·c))
                  = 2^(j(r+c−j) − rc) ∏_{i<j} (1 − 2^(i−r))(1 − 2^(i−c)) / (1 − 2^(i−j)),
    for EVERY shape r, c (general proof through the Gaussian binomial coefficients).
-/
import ParanoidModel.Proofs.Nist
import ParanoidModel.Proofs.BitSeq.Rank
import Mathlib.Algebra.BigOperators.Group.Finset.Basic
import Mathlib.Algebra.BigOperators.Ring.Finset
import Mathlib.Algebra.Order.Field.Basic
import Mathlib.Tactic.FieldSimp
import Mathlib.Tactic.Ring
import Mathlib.Tactic.Linarith
namespace Paranoid.Nist
open Paranoid

/-! ## (a) `binaryRank` = `rankSmall` -/

theorem elimRow_eq (r x : Nat) (h : r ≠ 0) :
    BitSeq.elimRow (1 <<< (bitLength r - 1)) r x = elimRow r x := by
  rw [BitSeq.msb_eq r h]
  unfold BitSeq.elimRow elimRow
  by_cases hx : x.testBit r.log2 = true
  · rw [if_pos ((BitSeq.and_two_pow_ne_zero_iff x r.log2).2 hx), if_pos hx]
  · rw [if_neg (fun hc => hx ((BitSeq.and_two_pow_ne_zero_iff x r.log2).1 hc)), if_neg hx]

theorem rankSmallAux_eq : ∀ (f : Nat) (rows : List Nat) (rank : Nat),
    BitSeq.rankSmallAux f rows rank = rankAux f rows + rank
  | 0, _, rank => by simp [BitSeq.rankSmallAux, rankAux]
  | f + 1, [], rank => by simp [BitSeq.rankSmallAux, rankAux]
  | f + 1, r :: rest, rank => by
    unfold BitSeq.rankSmallAux rankAux
    by_cases h : r = 0
    · rw [if_pos h, if_pos h, rankSmallAux_eq f rest rank]
    · rw [if_neg h, if_neg h, rankSmallAux_eq f _ (rank + 1)]
      have : rest.map (BitSeq.elimRow (1 <<< (bitLength r - 1)) r) = rest.map (elimRow r) := by
        apply List.map_congr_left
        intro x _
        exact elimRow_eq r x h
      rw [this]
      omega

/-- the model's rank routine is `_BinaryMatrixRankSmall` of C15 … -/
theorem binaryRank_eq_rankSmall (rows : List Nat) : binaryRank rows = BitSeq.rankSmall rows := by
  unfold binaryRank BitSeq.rankSmall
  rw [rankSmallAux_eq]; rfl

/-- … so `2^rank` is the number of distinct GF(2)-linear combinations of the rows. -/
theorem binaryRank_span (rows : List Nat) : 2 ^ binaryRank rows = BitDefs.spanSize rows := by
  rw [binaryRank_eq_rankSmall]; exact BitSeq.rankSmall_spec rows

/-! ## (b) `RankDistribution` -/

/-- the same pass written as a simultaneous update. -/
def simPass (r : Nat) : Nat → ℚ → List ℚ → List ℚ
  | _, _, [] => []
  | j, prev, x :: rest => (x * pd r j + prev * (1 - pd r (j - 1))) :: simPass r (j + 1) x rest

theorem pd_self (r : Nat) : pd r r = 1 := by
  unfold pd; exact div_self (pow_ne_zero _ (by norm_num))

theorem rankPass_eq_sim (r : Nat) : ∀ (rest : List ℚ) (x : ℚ) (j : Nat), j + rest.length = r →
    rankPass r j (x :: rest) = (x * pd r j) :: simPass r (j + 1) x rest
  | [], x, j, h => by
    simp only [List.length_nil, Nat.add_zero] at h
    subst h
    simp [rankPass, simPass, pd_self]
  | y :: rest, x, j, h => by
    have ih := rankPass_eq_sim r rest y (j + 1) (by simp only [List.length_cons] at h; omega)
    rw [rankPass, ih]
    simp only [simPass, Nat.add_sub_cancel]

theorem rankPass_zero (r : Nat) (l : List ℚ) (h : l.length = r + 1) : rankPass r 0 l = simPass r 0 0 l := by
  match l, h with
  | x :: rest, h =>
    rw [rankPass_eq_sim r rest x 0 (by simpa using h)]
    simp [simPass]

theorem simPass_get (r : Nat) : ∀ (l : List ℚ) (j : Nat) (prev : ℚ) (i : Nat),
    (simPass r j prev l)[i]? = (l[i]?).map (fun x =>
      x * pd r (j + i) + (if i = 0 then prev else (l[i - 1]?).getD 0) * (1 - pd r (j + i - 1)))
  | [], j, prev, i => by simp [simPass]
  | x :: rest, j, prev, 0 => by simp [simPass]
  | x :: rest, j, prev, i + 1 => by
    rw [simPass, List.getElem?_cons_succ, simPass_get r rest (j + 1) x i, List.getElem?_cons_succ]
    have e1 : j + 1 + i = j + (i + 1) := by omega
    rw [e1]
    congr 1
    funext y
    congr 2
    cases i with
    | zero => simp
    | succ i => simp

theorem simPass_length (r : Nat) : ∀ (l : List ℚ) (j : Nat) (prev : ℚ), (simPass r j prev l).length = l.length
  | [], _, _ => rfl
  | x :: rest, j, prev => by simp [simPass, simPass_length r rest]

/-! ### Gaussian binomial coefficients and the closed form -/

/-- number of j-dimensional subspaces of F_2^t (q-Pascal recursion, q = 2). -/
def gauss : Nat → Nat → Nat
  | _, 0 => 1
  | 0, _ + 1 => 0
  | t + 1, j + 1 => 2 ^ (j + 1) * gauss t (j + 1) + gauss t j

/-- H(n, j) = ∏_{i<j} (2^n − 2^i): number of ordered j-tuples of independent vectors of F_2^n. -/
def hprod (n j : Nat) : ℚ := ∏ i ∈ Finset.range j, ((2 : ℚ) ^ n - 2 ^ i)

theorem hprod_succ (n j : Nat) : hprod n (j + 1) = hprod n j * ((2 : ℚ) ^ n - 2 ^ j) := by
  unfold hprod; rw [Finset.prod_range_succ]

theorem hprod_shift (n j : Nat) : hprod (n + 1) (j + 1) = ((2 : ℚ) ^ (n + 1) - 1) * 2 ^ j * hprod n j := by
  unfold hprod
  rw [Finset.prod_range_succ']
  have : ∀ i, ((2 : ℚ) ^ (n + 1) - 2 ^ (i + 1)) = 2 * (2 ^ n - 2 ^ i) := by intro i; ring
  simp only [this, Finset.prod_mul_distrib, Finset.prod_const, Finset.card_range, pow_zero]
  ring

/-- the closed form of the Gaussian binomial: gauss t j · ∏_{i<j}(2^j − 2^i) = ∏_{i<j}(2^t − 2^i). -/
theorem gauss_closed : ∀ (t j : Nat), (gauss t j : ℚ) * hprod j j = hprod t j
  | _, 0 => by simp [gauss, hprod]
  | 0, j + 1 => by
    simp only [gauss, Nat.cast_zero, zero_mul]
    unfold hprod
    rw [Finset.prod_range_succ']
    simp
  | t + 1, j + 1 => by
    have h1 := gauss_closed t (j + 1)
    have h2 := gauss_closed t j
    rw [gauss]
    push_cast
    rw [hprod_shift t j, ← h2]
    rw [hprod_succ t j, ← h2] at h1
    rw [hprod_shift j j] at h1 ⊢
    have hne : hprod j j ≠ 0 := by
      unfold hprod
      rw [Finset.prod_ne_zero_iff]
      intro i hi
      rw [Finset.mem_range] at hi
      have : (2 : ℚ) ^ i < 2 ^ j := pow_lt_pow_right₀ (by norm_num) hi
      linarith
    have h2j : ((2 : ℚ) ^ (j + 1) - 1) * 2 ^ j ≠ 0 := by
      have : (1 : ℚ) < 2 ^ (j + 1) := one_lt_pow₀ (by norm_num) (by omega)
      have h3 : (0 : ℚ) < 2 ^ j := by positivity
      have : (0 : ℚ) < (2 ^ (j + 1) - 1) * 2 ^ j := mul_pos (by linarith) h3
      exact this.ne'
    -- h1 : G(t,j+1) * (c * F j) = G(t,j) * F j * (2^t − 2^j), c = (2^(j+1) − 1) 2^j
    have h1' : (gauss t (j + 1) : ℚ) * (((2 : ℚ) ^ (j + 1) - 1) * 2 ^ j) = gauss t j * (2 ^ t - 2 ^ j) := by
      have := h1
      have e : (gauss t (j + 1) : ℚ) * (((2 : ℚ) ^ (j + 1) - 1) * 2 ^ j * hprod j j) =
          ((gauss t (j + 1) : ℚ) * (((2 : ℚ) ^ (j + 1) - 1) * 2 ^ j)) * hprod j j := by ring
      rw [e] at this
      have e' : (gauss t j : ℚ) * hprod j j * (2 ^ t - 2 ^ j) = ((gauss t j : ℚ) * (2 ^ t - 2 ^ j)) * hprod j j := by
        ring
      rw [e'] at this
      exact mul_right_cancel₀ hne this
    have : ((2 : ℚ) ^ (j + 1) * gauss t (j + 1) + gauss t j) * (((2 : ℚ) ^ (j + 1) - 1) * 2 ^ j * hprod j j) =
        (2 ^ (j + 1) * ((gauss t (j + 1) : ℚ) * (((2 : ℚ) ^ (j + 1) - 1) * 2 ^ j)) +
          gauss t j * (((2 : ℚ) ^ (j + 1) - 1) * 2 ^ j)) * hprod j j := by ring
    rw [this, h1']
    ring

theorem hprod_self_ne (j : Nat) : hprod j j ≠ 0 := by
  unfold hprod
  rw [Finset.prod_ne_zero_iff]
  intro i hi
  rw [Finset.mem_range] at hi
  have : (2 : ℚ) ^ i < 2 ^ j := pow_lt_pow_right₀ (by norm_num) hi
  linarith

/-- P(t, j) = gauss t j · H(r, j) / 2^(r·t): probability that t random vectors of F_2^r have rank j. -/
def rankP (r t j : Nat) : ℚ := (gauss t j : ℚ) * hprod r j / (2 : ℚ) ^ (r * t)

theorem rankP_zero_succ (r t : Nat) : rankP r (t + 1) 0 = rankP r t 0 * pd r 0 := by
  unfold rankP pd
  simp only [gauss, hprod, Finset.range_zero, Finset.prod_empty, Nat.cast_one, mul_one, pow_zero]
  rw [Nat.mul_succ, pow_add]
  field_simp

theorem rankP_succ_succ (r t j : Nat) :
    rankP r (t + 1) (j + 1) = rankP r t (j + 1) * pd r (j + 1) + rankP r t j * (1 - pd r j) := by
  unfold rankP pd
  rw [gauss, hprod_succ, Nat.mul_succ, pow_add]
  push_cast
  have h1 : ((2 : ℚ) ^ r) ≠ 0 := pow_ne_zero _ (by norm_num)
  have h2 : ((2 : ℚ) ^ (r * t)) ≠ 0 := pow_ne_zero _ (by norm_num)
  field_simp
  ring

theorem rankRes_length (r : Nat) : ∀ c, (rankRes r c).length = r + 1
  | 0 => by simp [rankRes]
  | c + 1 => by
    rw [rankRes, rankPass_zero r _ (rankRes_length r c), simPass_length, rankRes_length r c]

/-- after c passes, `res[j] = P(c, j)`, j = 0 … r. -/
theorem rankRes_eq (r : Nat) : ∀ c, rankRes r c = (List.range (r + 1)).map (rankP r c)
  | 0 => by
    rw [rankRes, List.range_succ_eq_map, List.map_cons, List.map_map]
    congr 1
    · simp [rankP, gauss, hprod]
    · symm
      rw [List.eq_replicate_iff]
      refine ⟨by simp, ?_⟩
      intro b hb
      simp only [List.mem_map, List.mem_range, Function.comp_def] at hb
      obtain ⟨a, _, rfl⟩ := hb
      simp [rankP, gauss]
  | c + 1 => by
    have ih := rankRes_eq r c
    rw [rankRes, rankPass_zero r _ (rankRes_length r c)]
    apply List.ext_getElem?
    intro i
    rw [simPass_get, ih]
    by_cases hi : i < r + 1
    · cases i with
      | zero =>
        simp only [List.getElem?_map, List.getElem?_range hi, Option.map_some, if_true,
          zero_mul, add_zero, rankP_zero_succ]
      | succ i =>
        have hi' : i < r + 1 := by omega
        simp only [List.getElem?_map, List.getElem?_range hi, List.getElem?_range hi', Option.map_some,
          Nat.add_sub_cancel, Nat.succ_ne_zero, if_false, Option.getD_some, Nat.zero_add, rankP_succ_succ]
    · have h1 : (List.map (rankP r c) (List.range (r + 1)))[i]? = none :=
        List.getElem?_eq_none (by simp; omega)
      have h2 : (List.map (rankP r (c + 1)) (List.range (r + 1)))[i]? = none :=
        List.getElem?_eq_none (by simp; omega)
      rw [h1, h2]
      rfl

/-- ★ the recurrence of `RankDistribution` equals the classical exact formula, for every shape:
after c columns, `res[j] = ∏_{i<j} (2^c − 2^i)(2^r − 2^i) / (∏_{i<j} (2^j − 2^i) · 2^(r·c))`. -/
theorem rankRes_formula (r c j : Nat) (hj : j ≤ r) :
    (rankRes r c)[j]? = some (hprod c j * hprod r j / (hprod j j * (2 : ℚ) ^ (r * c))) := by
  rw [rankRes_eq, List.getElem?_map, List.getElem?_range (by omega)]
  simp only [Option.map_some, Option.some.injEq]
  unfold rankP
  rw [← gauss_closed c j]
  have := hprod_self_ne j
  have h2 : ((2 : ℚ) ^ (r * c)) ≠ 0 := pow_ne_zero _ (by norm_num)
  field_simp

/-! ### the formula as written in the literature -/

theorem hprod_eq_zpow (n j : Nat) :
    hprod n j = (2 : ℚ) ^ (n * j) * ∏ i ∈ Finset.range j, (1 - (2 : ℚ) ^ ((i : ℤ) - (n : ℤ))) := by
  unfold hprod
  have h : ∀ i ∈ Finset.range j, ((2 : ℚ) ^ n - 2 ^ i) = 2 ^ n * (1 - (2 : ℚ) ^ ((i : ℤ) - (n : ℤ))) := by
    intro i _
    rw [zpow_sub₀ (by norm_num : (2 : ℚ) ≠ 0), zpow_natCast, zpow_natCast]
    have : ((2 : ℚ) ^ n) ≠ 0 := pow_ne_zero _ (by norm_num)
    field_simp
  rw [Finset.prod_congr rfl h, Finset.prod_mul_distrib, Finset.prod_const, Finset.card_range, ← pow_mul]

/-- the formula in the form of the literature:
P(rank = j) = 2^(j(r+c−j) − rc) ∏_{i<j} (1 − 2^(i−r))(1 − 2^(i−c)) / (1 − 2^(i−j)). -/
theorem rankRes_classical (r c j : Nat) (hj : j ≤ r) :
    (rankRes r c)[j]? = some ((2 : ℚ) ^ ((j : ℤ) * ((r : ℤ) + c - j) - (r : ℤ) * c) *
      ∏ i ∈ Finset.range j, ((1 - (2 : ℚ) ^ ((i : ℤ) - (r : ℤ))) * (1 - (2 : ℚ) ^ ((i : ℤ) - (c : ℤ))) /
        (1 - (2 : ℚ) ^ ((i : ℤ) - (j : ℤ))))) := by
  rw [rankRes_formula r c j hj]
  congr 1
  have hne := hprod_self_ne j
  rw [hprod_eq_zpow c j, hprod_eq_zpow r j, hprod_eq_zpow j j] at *
  rw [Finset.prod_div_distrib, Finset.prod_mul_distrib]
  have he : (j : ℤ) * ((r : ℤ) + c - j) - (r : ℤ) * c =
      ((c * j + r * j : ℕ) : ℤ) - ((j * j + r * c : ℕ) : ℤ) := by push_cast; ring
  rw [he, zpow_sub₀ (by norm_num : (2 : ℚ) ≠ 0), zpow_natCast, zpow_natCast, pow_add, pow_add]
  have h1 : ((2 : ℚ) ^ (j * j)) ≠ 0 := pow_ne_zero _ (by norm_num)
  have h2 : ((2 : ℚ) ^ (r * c)) ≠ 0 := pow_ne_zero _ (by norm_num)
  have h3 : (∏ i ∈ Finset.range j, (1 - (2 : ℚ) ^ ((i : ℤ) - (j : ℤ)))) ≠ 0 := by
    intro h0; rw [h0, mul_zero] at hne; exact hne rfl
  field_simp

/-! ### integer form (kernel-friendly) and the `precomputed` table -/

/-- ∏_{i<j} (2^n − 2^i) over ℕ. -/
def hprodN (n : Nat) : Nat → Nat
  | 0 => 1
  | j + 1 => hprodN n j * (2 ^ n - 2 ^ j)

theorem hprodN_cast (n : Nat) : ∀ j, j ≤ n → ((hprodN n j : Nat) : ℚ) = hprod n j
  | 0, _ => by simp [hprodN, hprod]
  | j + 1, h => by
    rw [hprodN, hprod_succ, ← hprodN_cast n j (by omega)]
    have : 2 ^ j ≤ 2 ^ n := Nat.pow_le_pow_right (by omega) (by omega)
    push_cast [Nat.cast_sub this]
    ring

/-- exact probability that a random r×c matrix over GF(2) has rank j, as a fraction of naturals:
numerator ∏_{i<j}(2^c − 2^i)(2^r − 2^i), denominator ∏_{i<j}(2^j − 2^i) · 2^(r·c). -/
def rankProbNum (r c j : Nat) : Nat := hprodN c j * hprodN r j
def rankProbDen (r c j : Nat) : Nat := hprodN j j * 2 ^ (r * c)

theorem rankRes_frac (r c j : Nat) (hj : j ≤ r) (hjc : j ≤ c) :
    (rankRes r c)[j]? = some ((rankProbNum r c j : ℚ) / (rankProbDen r c j : ℚ)) := by
  rw [rankRes_formula r c j hj]
  unfold rankProbNum rankProbDen
  push_cast
  rw [hprodN_cast c j hjc, hprodN_cast r j hj, hprodN_cast j j (le_refl j)]

/-- (rounded, truncated) numerators over `prec` of P(rank = n − i) for i = 0 … cnt − 1, n×n matrices. -/
def squareRankRows (n cnt prec : Nat) : List (Nat × Nat) :=
  (List.range cnt).map (fun i =>
    ((2 * rankProbNum n n (n - i) * prec + rankProbDen n n (n - i)) / (2 * rankProbDen n n (n - i)),
      rankProbNum n n (n - i) * prec / rankProbDen n n (n - i)))

/-- NIST's shape 32×32: the six exact probabilities P(rank = 32), …, P(rank = 27) to 8 digits. -/
theorem squareRankRows_32 : squareRankRows 32 6 (10 ^ 8) =
    [(28878810, 28878809), (57757619, 57757619), (12835026, 12835026), (523879, 523878), (4657, 4656),
      (10, 9)] := by decide +kernel

/-- every entry of `RankDistribution.precomputed` in the current source is the exact 32×32 probability
rounded or truncated to the 8 printed digits (the first one, 0.28878809, is truncated: exact 0.288788095…). -/
theorem rank_precomputed_32 :
    rowMatches Paranoid.Consts.Nist.rankPrecomputed (squareRankRows 32 6 (10 ^ 8)) (10 ^ 8) true = true := by
  rw [squareRankRows_32]; decide

/-- the same for 31×31 (the smallest shape for which the table is used), 40×40 and 64×64. -/
theorem rank_precomputed_31_40_64 :
    rowMatches Paranoid.Consts.Nist.rankPrecomputed (squareRankRows 31 6 (10 ^ 8)) (10 ^ 8) true = true ∧
    rowMatches Paranoid.Consts.Nist.rankPrecomputed (squareRankRows 40 6 (10 ^ 8)) (10 ^ 8) true = true ∧
    rowMatches Paranoid.Consts.Nist.rankPrecomputed (squareRankRows 64 6 (10 ^ 8)) (10 ^ 8) true = true := by
  decide +kernel

end Paranoid.Nist
