/-
Proofs/Nist2RankAsym.lean — `RankDistribution.precomputed` is used for EVERY square shape n×n with n ≥ 31
(and k ≤ 5).  For every such n the exact probability P_n(rank = n − i), i = 0 … 5, lies in
[(pre_i − ½)·10⁻⁸, (pre_i + 1)·10⁻⁸): the printed 8-digit value is the exact one rounded or truncated.

p_n(i) = P_n(rank = n − i) satisfies p_{n+1}(i) = p_n(i)·(1 − 2^−(n+1))² / (1 − 2^−(n+1−i)); it decreases for
i = 0 and increases for i ≥ 1, and ∏_{k>31} (1 − D·2^−k) ≥ 1 − D·2^−31 bounds the total change.
-/
import ParanoidModel.Proofs.Nist2Rank
import Mathlib.Tactic.Positivity
import Mathlib.Algebra.Order.BigOperators.Ring.Finset
namespace Paranoid.Nist

/-- ∏ (1 − D/2^(k+1)) ≥ 1 − D/2^N + D/2^n, in recursive form. -/
theorem seq_lower (g : Nat → ℚ) (D : ℚ) (N : Nat) (hD : 0 ≤ D) (hDN : D / 2 ^ N ≤ 1) (hg0 : 0 ≤ g N)
    (hstep : ∀ n, N ≤ n → g n * (1 - D / 2 ^ (n + 1)) ≤ g (n + 1)) :
    ∀ n, N ≤ n → g N * (1 - D / 2 ^ N + D / 2 ^ n) ≤ g n := by
  intro n hn
  induction n, hn using Nat.le_induction with
  | base => simp
  | succ n hn ih =>
    refine le_trans ?_ (hstep n hn)
    have h2n : (0 : ℚ) < 2 ^ n := by positivity
    have hle : D / 2 ^ n ≤ D / 2 ^ N := by
      apply div_le_div_of_nonneg_left hD (by positivity)
      exact pow_le_pow_right₀ (by norm_num) hn
    have hδ : D / 2 ^ (n + 1) = D / 2 ^ n / 2 := by rw [pow_succ]; field_simp
    set a := D / 2 ^ N with ha
    set d := D / 2 ^ n with hd
    have hd0 : 0 ≤ d := div_nonneg hD (le_of_lt h2n)
    rw [hδ]
    have h1 : 0 ≤ 1 - d / 2 := by linarith
    calc g N * (1 - a + d / 2) ≤ g N * ((1 - a + d) * (1 - d / 2)) := by
          apply mul_le_mul_of_nonneg_left _ hg0
          nlinarith [mul_nonneg hd0 (sub_nonneg.mpr hle)]
      _ = (g N * (1 - a + d)) * (1 - d / 2) := by ring
      _ ≤ g n * (1 - d / 2) := mul_le_mul_of_nonneg_right ih h1

theorem hprod_pos (n j : Nat) (h : j ≤ n) : 0 < hprod n j := by
  unfold hprod
  apply Finset.prod_pos
  intro i hi
  rw [Finset.mem_range] at hi
  have : (2 : ℚ) ^ i < 2 ^ n := pow_lt_pow_right₀ (by norm_num) (by omega)
  linarith

/-- p_n(i) = P(rank = n − i) for n×n matrices (closed form). -/
def sqP (i n : Nat) : ℚ := hprod n (n - i) ^ 2 / (hprod (n - i) (n - i) * 2 ^ (n * n))

theorem sqP_pos (i n : Nat) : 0 < sqP i n := by
  unfold sqP
  have h1 := hprod_pos n (n - i) (by omega)
  have h2 := hprod_pos (n - i) (n - i) (le_refl _)
  positivity

theorem sqP_succ (i n : Nat) (h : i ≤ n) :
    sqP i (n + 1) = sqP i n *
      (((2 : ℚ) ^ (n + 1) - 1) ^ 2 * 2 ^ (n - i) / (((2 : ℚ) ^ (n - i + 1) - 1) * 2 ^ (2 * n + 1))) := by
  unfold sqP
  have e : n + 1 - i = (n - i) + 1 := by omega
  rw [e, hprod_shift n (n - i), hprod_shift (n - i) (n - i)]
  have h1 := (hprod_pos n (n - i) (by omega)).ne'
  have h2 := (hprod_pos (n - i) (n - i) (le_refl _)).ne'
  have h3 : ((2 : ℚ) ^ (n - i + 1) - 1) ≠ 0 := by
    have : (1 : ℚ) < 2 ^ (n - i + 1) := one_lt_pow₀ (by norm_num) (by omega)
    linarith
  have e2 : (n + 1) * (n + 1) = n * n + (2 * n + 1) := by ring
  rw [e2, pow_add (2 : ℚ) (n * n) (2 * n + 1)]
  field_simp

/-- the ratio, with A = 2^(n+1), B = 2^(n−i): ρ = 2(A−1)²B / ((2B−1)A²). -/
theorem ratio_form (i n : Nat) (_h : i ≤ n) :
    (((2 : ℚ) ^ (n + 1) - 1) ^ 2 * 2 ^ (n - i) / (((2 : ℚ) ^ (n - i + 1) - 1) * 2 ^ (2 * n + 1))) =
      2 * ((2 : ℚ) ^ (n + 1) - 1) ^ 2 * 2 ^ (n - i) / ((2 * 2 ^ (n - i) - 1) * (2 ^ (n + 1)) ^ 2) := by
  have e1 : (2 : ℚ) ^ (2 * n + 1) = (2 ^ (n + 1)) ^ 2 / 2 := by
    have : ((2 : ℚ) ^ (n + 1)) ^ 2 = 2 ^ (2 * n + 1) * 2 := by ring
    rw [this]; field_simp
  have e2 : (2 : ℚ) ^ (n - i + 1) = 2 * 2 ^ (n - i) := by rw [pow_succ]; ring
  rw [e1, e2]
  have h3 : (2 * (2 : ℚ) ^ (n - i) - 1) ≠ 0 := by
    have : (1 : ℚ) ≤ 2 ^ (n - i) := one_le_pow₀ (by norm_num)
    linarith
  field_simp

/-- i = 0: p_{n+1} = p_n·(1 − 2^−(n+1)). -/
theorem sqP_zero_succ (n : Nat) : sqP 0 (n + 1) = sqP 0 n * (1 - 1 / 2 ^ (n + 1)) := by
  rw [sqP_succ 0 n (by omega), ratio_form 0 n (by omega)]
  congr 1
  have e : (2 : ℚ) ^ (n + 1) = 2 * 2 ^ n := by rw [pow_succ]; ring
  simp only [Nat.sub_zero]
  rw [e]
  have h1 : (2 * (2 : ℚ) ^ n - 1) ≠ 0 := by
    have : (1 : ℚ) ≤ 2 ^ n := one_le_pow₀ (by norm_num)
    linarith
  have h2 : ((2 : ℚ) ^ n) ≠ 0 := by positivity
  field_simp

/-- i ≥ 1: p_n ≤ p_{n+1} and p_{n+1}·(1 − 2^i/2^(n+1)) ≤ p_n. -/
theorem sqP_pos_succ (i n : Nat) (hi : 1 ≤ i) (h : i ≤ n) :
    sqP i n ≤ sqP i (n + 1) ∧ sqP i (n + 1) * (1 - 2 ^ i / 2 ^ (n + 1)) ≤ sqP i n := by
  rw [sqP_succ i n h, ratio_form i n h]
  have hp := sqP_pos i n
  have hA : (2 : ℚ) ^ (n + 1) = 2 ^ (i + 1) * 2 ^ (n - i) := by
    rw [← pow_add]; congr 1; omega
  have hB1 : (1 : ℚ) ≤ 2 ^ (n - i) := one_le_pow₀ (by norm_num)
  have hD4 : (4 : ℚ) ≤ 2 ^ (i + 1) := by
    have : (2 : ℚ) ^ 2 ≤ 2 ^ (i + 1) := pow_le_pow_right₀ (by norm_num) (by omega)
    linarith
  have hDi : (2 : ℚ) ^ (i + 1) = 2 * 2 ^ i := by rw [pow_succ]; ring
  set B := (2 : ℚ) ^ (n - i) with hB
  set E := (2 : ℚ) ^ (i + 1) with hE
  rw [hA]
  have hEB : 0 < E * B := by positivity
  have h2B : 0 < 2 * B - 1 := by linarith
  have hden : 0 < (2 * B - 1) * (E * B) ^ 2 := by positivity
  have hfrac : (2 : ℚ) ^ i / (E * B) = 1 / (2 * B) := by
    rw [hDi]; field_simp
  constructor
  · -- ρ ≥ 1
    have : 1 ≤ 2 * (E * B - 1) ^ 2 * B / ((2 * B - 1) * (E * B) ^ 2) := by
      rw [le_div_iff₀ hden]
      nlinarith [mul_nonneg (le_of_lt hEB) (by linarith : (0 : ℚ) ≤ E - 4), hB1, hEB]
    calc sqP i n = sqP i n * 1 := by ring
      _ ≤ _ := mul_le_mul_of_nonneg_left this (le_of_lt hp)
  · -- ρ · (1 − 1/(2B)) ≤ 1
    rw [hfrac]
    have : 2 * (E * B - 1) ^ 2 * B / ((2 * B - 1) * (E * B) ^ 2) * (1 - 1 / (2 * B)) ≤ 1 := by
      have hB0 : B ≠ 0 := by positivity
      have e : 2 * (E * B - 1) ^ 2 * B / ((2 * B - 1) * (E * B) ^ 2) * (1 - 1 / (2 * B)) =
          (E * B - 1) ^ 2 / (E * B) ^ 2 := by
        field_simp
      rw [e, div_le_one (by positivity)]
      have : 1 ≤ E * B := by nlinarith
      nlinarith
    calc sqP i n * _ * (1 - 1 / (2 * B)) = sqP i n * (2 * (E * B - 1) ^ 2 * B / ((2 * B - 1) * (E * B) ^ 2) *
          (1 - 1 / (2 * B))) := by ring
      _ ≤ sqP i n * 1 := mul_le_mul_of_nonneg_left this (le_of_lt hp)
      _ = sqP i n := by ring

/-- i = 0: p_31·(1 − 2^−31) ≤ p_n ≤ p_31 for every n ≥ 31. -/
theorem sqP_zero_bounds (n : Nat) (hn : 31 ≤ n) :
    sqP 0 31 * (1 - 1 / 2 ^ 31) ≤ sqP 0 n ∧ sqP 0 n ≤ sqP 0 31 := by
  constructor
  · have h := seq_lower (sqP 0) 1 31 (by norm_num) (by norm_num) (le_of_lt (sqP_pos 0 31))
      (fun m _ => by rw [sqP_zero_succ m]) n hn
    refine le_trans ?_ h
    apply mul_le_mul_of_nonneg_left _ (le_of_lt (sqP_pos 0 31))
    have : (0 : ℚ) ≤ 1 / 2 ^ n := by positivity
    linarith
  · induction n, hn using Nat.le_induction with
    | base => exact le_refl _
    | succ m _ ih =>
      rw [sqP_zero_succ m]
      have h1 : (0 : ℚ) ≤ 1 / 2 ^ (m + 1) := by positivity
      have := sqP_pos 0 m
      nlinarith

/-- 1 ≤ i ≤ 31: p_31 ≤ p_n and p_n·(1 − 2^i/2^31) ≤ p_31 for every n ≥ 31. -/
theorem sqP_pos_bounds (i n : Nat) (hi : 1 ≤ i) (hi31 : i ≤ 31) (hn : 31 ≤ n) :
    sqP i 31 ≤ sqP i n ∧ sqP i n * (1 - 2 ^ i / 2 ^ 31) ≤ sqP i 31 := by
  constructor
  · induction n, hn using Nat.le_induction with
    | base => exact le_refl _
    | succ m hm ih => exact le_trans ih (sqP_pos_succ i m hi (by omega)).1
  · -- g = 1 / p
    have hD : (2 : ℚ) ^ i / 2 ^ 31 ≤ 1 := by
      rw [div_le_one (by positivity)]
      exact pow_le_pow_right₀ (by norm_num) hi31
    have h := seq_lower (fun m => 1 / sqP i m) (2 ^ i) 31 (by positivity) hD
      (by have := sqP_pos i 31; positivity)
      (fun m hm => by
        have h1 := (sqP_pos_succ i m hi (by omega)).2
        have hp := sqP_pos i m
        have hp' := sqP_pos i (m + 1)
        show 1 / sqP i m * (1 - 2 ^ i / 2 ^ (m + 1)) ≤ 1 / sqP i (m + 1)
        rw [div_mul_eq_mul_div, one_mul, div_le_div_iff₀ hp hp']
        linarith) n hn
    have hp := sqP_pos i n
    have hp31 := sqP_pos i 31
    have h0 : (0 : ℚ) ≤ 2 ^ i / 2 ^ n := by positivity
    have h' : 1 / sqP i 31 * (1 - 2 ^ i / 2 ^ 31) ≤ 1 / sqP i n := by
      refine le_trans ?_ h
      apply mul_le_mul_of_nonneg_left _ (by positivity)
      linarith
    rw [div_mul_eq_mul_div, one_mul, div_le_div_iff₀ hp31 hp] at h'
    linarith

/-- `res[n − i]` of `RankDistribution(n, n)` is p_n(i). -/
theorem rankRes_square (n i : Nat) (hi : i ≤ n) : (rankRes n n)[n - i]? = some (sqP i n) := by
  rw [rankRes_formula n n (n - i) (by omega)]
  unfold sqP
  congr 2
  ring

theorem sqP_eq_frac (i n : Nat) (hi : i ≤ n) :
    sqP i n = (rankProbNum n n (n - i) : ℚ) / (rankProbDen n n (n - i) : ℚ) := by
  have h1 := rankRes_square n i hi
  rw [rankRes_frac n n (n - i) (by omega) (by omega)] at h1
  exact (Option.some.inj h1).symm

/-- the 8-digit numerators of `RankDistribution.precomputed` in the current source. -/
theorem rankPrecomputed_digits :
    Paranoid.Consts.Nist.rankPrecomputed.map (fun p => (p.1 * 10 ^ 8 / p.2, p.1 * 10 ^ 8 % p.2)) =
      [(28878809, 0), (57757619, 0), (12835026, 0), (523879, 0), (4657, 0), (10, 0)] := by decide

def preDigits : List Nat := [28878809, 57757619, 12835026, 523879, 4657, 10]

/-- i-th 8-digit numerator of the table (0 beyond the table). -/
def preDigit (i : Nat) : Nat := preDigits.getD i 0

/-- numeric facts at n = 31 (kernel arithmetic on the exact fraction p = num/den), for i = 0 … 5:
(pre − ½)·10⁻⁸ ≤ p·(1 − 2^i/2^31) and p < (pre + 1)·10⁻⁸·(1 − 2^i/2^31), cleared of denominators. -/
theorem numeric_31 : ∀ i, i < 6 →
    0 < rankProbDen 31 31 (31 - i) ∧
    2 * preDigit i * rankProbDen 31 31 (31 - i) * 2 ^ 31 + 2 * 10 ^ 8 * rankProbNum 31 31 (31 - i) * 2 ^ i ≤
      2 * 10 ^ 8 * rankProbNum 31 31 (31 - i) * 2 ^ 31 + rankProbDen 31 31 (31 - i) * 2 ^ 31 ∧
    10 ^ 8 * rankProbNum 31 31 (31 - i) * 2 ^ 31 + (preDigit i + 1) * rankProbDen 31 31 (31 - i) * 2 ^ i <
      (preDigit i + 1) * rankProbDen 31 31 (31 - i) * 2 ^ 31 := by
  decide +kernel

/-- both directions of the drift from n = 31 to any n ≥ 31, uniformly in i ≤ 31. -/
theorem sqP_drift (i n : Nat) (hi31 : i ≤ 31) (hn : 31 ≤ n) :
    sqP i 31 * (1 - 2 ^ i / 2 ^ 31) ≤ sqP i n ∧ sqP i n * (1 - 2 ^ i / 2 ^ 31) ≤ sqP i 31 := by
  have ht0 : (0 : ℚ) ≤ 2 ^ i / 2 ^ 31 := by positivity
  have hp := sqP_pos i n
  have hp31 := sqP_pos i 31
  rcases Nat.eq_zero_or_pos i with h0 | hpos
  · subst h0
    obtain ⟨h1, h2⟩ := sqP_zero_bounds n hn
    simp only [pow_zero] at ht0 ⊢
    constructor
    · exact h1
    · nlinarith
  · obtain ⟨h1, h2⟩ := sqP_pos_bounds i n hpos hi31 hn
    constructor
    · nlinarith
    · exact h2

/-- ★ for EVERY n ≥ 31 and i = 0 … 5: (pre_i − ½)·10⁻⁸ ≤ P_n(rank = n − i) < (pre_i + 1)·10⁻⁸ — the entry
of `precomputed` is the exact probability rounded or truncated to the 8 printed digits. -/
theorem precomputed_all_sizes (n i : Nat) (hn : 31 ≤ n) (hi : i < 6) :
    ((preDigit i : ℚ) - 1 / 2) / 10 ^ 8 ≤ sqP i n ∧ sqP i n < ((preDigit i : ℚ) + 1) / 10 ^ 8 := by
  obtain ⟨hden, hF1, hF2⟩ := numeric_31 i hi
  obtain ⟨hA, hB⟩ := sqP_drift i n (by omega) hn
  have hfrac := sqP_eq_frac i 31 (by omega)
  have hS : (2 : ℚ) ^ i < 2 ^ 31 := pow_lt_pow_right₀ (by norm_num) (by omega)
  have hDpos : (0 : ℚ) < (rankProbDen 31 31 (31 - i) : ℚ) := by exact_mod_cast hden
  have F1 : 2 * (preDigit i : ℚ) * (rankProbDen 31 31 (31 - i) : ℚ) * 2 ^ 31 +
      2 * 10 ^ 8 * (rankProbNum 31 31 (31 - i) : ℚ) * 2 ^ i ≤
      2 * 10 ^ 8 * (rankProbNum 31 31 (31 - i) : ℚ) * 2 ^ 31 + (rankProbDen 31 31 (31 - i) : ℚ) * 2 ^ 31 := by
    exact_mod_cast hF1
  have F2 : 10 ^ 8 * (rankProbNum 31 31 (31 - i) : ℚ) * 2 ^ 31 +
      ((preDigit i : ℚ) + 1) * (rankProbDen 31 31 (31 - i) : ℚ) * 2 ^ i <
      ((preDigit i : ℚ) + 1) * (rankProbDen 31 31 (31 - i) : ℚ) * 2 ^ 31 := by
    exact_mod_cast hF2
  clear hF1 hF2 hden
  generalize (rankProbNum 31 31 (31 - i) : ℚ) = N at *
  generalize (rankProbDen 31 31 (31 - i) : ℚ) = Dn at *
  generalize (preDigit i : ℚ) = pre at *
  have hT : (0 : ℚ) < 2 ^ 31 := by positivity
  have hSpos : (0 : ℚ) < 2 ^ i := by positivity
  have hone : (0 : ℚ) < 1 - 2 ^ i / 2 ^ 31 := by
    rw [sub_pos, div_lt_one hT]; exact hS
  have e1 : sqP i 31 * (1 - 2 ^ i / 2 ^ 31) = N * (2 ^ 31 - 2 ^ i) / (Dn * 2 ^ 31) := by
    rw [hfrac]; field_simp
  constructor
  · refine le_trans ?_ hA
    rw [e1, le_div_iff₀ (by positivity), div_mul_eq_mul_div, div_le_iff₀ (by positivity)]
    nlinarith
  · -- p_n·(1 − t) ≤ p_31 < hi·(1 − t)
    have h3 : sqP i 31 < (pre + 1) / 10 ^ 8 * (1 - 2 ^ i / 2 ^ 31) := by
      rw [hfrac]
      have e2 : (pre + 1) / 10 ^ 8 * (1 - 2 ^ i / 2 ^ 31) = (pre + 1) * (2 ^ 31 - 2 ^ i) / (10 ^ 8 * 2 ^ 31) := by
        field_simp
      rw [e2, div_lt_div_iff₀ hDpos (by positivity)]
      nlinarith
    have h4 : sqP i n * (1 - 2 ^ i / 2 ^ 31) < (pre + 1) / 10 ^ 8 * (1 - 2 ^ i / 2 ^ 31) := lt_of_le_of_lt hB h3
    exact lt_of_mul_lt_mul_right h4 (le_of_lt hone)

end Paranoid.Nist
