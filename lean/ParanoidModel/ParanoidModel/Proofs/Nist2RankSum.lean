/-
Proofs/Nist2RankSum.lean — the in-place recurrence of `RankDistribution` conserves the total mass
(second review, L19): helper lemmas for Props/C12RankSum.lean.
-/
import ParanoidModel.Proofs.Nist2Rank
namespace Paranoid.Nist
open Paranoid

theorem rankPass_ne_nil (r : Nat) : ∀ (j : Nat) (l : List ℚ), l ≠ [] → rankPass r j l ≠ []
  | _, [], h => absurd rfl h
  | _, [x], _ => by simp [rankPass]
  | j, x :: y :: rest, _ => by
    rw [rankPass]
    split <;> simp

/-- one pass moves mass from index j to index j + 1 and creates none. -/
theorem rankPass_sum (r : Nat) : ∀ (j : Nat) (l : List ℚ), (rankPass r j l).sum = l.sum
  | _, [] => by simp [rankPass]
  | _, [x] => by simp [rankPass]
  | j, x :: y :: rest => by
    have ih := rankPass_sum r (j + 1) (y :: rest)
    have hne := rankPass_ne_nil r (j + 1) (y :: rest) (by simp)
    rw [rankPass]
    split
    · rename_i y' rest' heq
      rw [heq] at ih
      simp only [List.sum_cons] at ih ⊢
      rw [← ih]
      ring
    · rename_i heq
      exact absurd heq hne

/-- `sum(res) = 1` after every number of passes. -/
theorem rankRes_sum (r : Nat) : ∀ c, (rankRes r c).sum = 1
  | 0 => by simp [rankRes]
  | c + 1 => by rw [rankRes, rankPass_sum, rankRes_sum r c]

/-- `sum(l[-k:][::-1]) + sum(l[:-k]) = sum(l)`. -/
theorem sum_reverse_take_add (l : List ℚ) (k : Nat) :
    (l.reverse.take k).sum + (l.take (l.length - k)).sum = l.sum := by
  rw [List.take_reverse, List.sum_reverse, add_comm, List.sum_take_add_sum_drop]

end Paranoid.Nist
