/-
Proofs/Nist2Runs.lean — the recurrence behind the LongestRuns probability tables is correct for
EVERY block size M: `leCount k M` (Proofs/NistTables.lean, a sliding window of k+2 values packed into
one number) equals the brute-force number of M-bit strings whose longest run of ones is ≤ k, and
`lrDPCounts M vl vu = lrExactCounts M vl vu`.
-/
import ParanoidModel.Proofs.Nist
import ParanoidModel.Proofs.Nist2Serial
import ParanoidModel.Proofs.Nist2Tables
namespace Paranoid.Nist

/-! ## A. counting over all M-bit strings -/

/-- number of M-bit strings (enumerated as `bitsSmall M x`, x < 2^M) that satisfy `P`. -/
def cntBits (M : Nat) (P : List Bool → Bool) : Nat :=
  ((List.range (2 ^ M)).map (bitsSmall M)).countP P

theorem countP_range_double (N : Nat) (q : Nat → Bool) :
    (List.range (2 * N)).countP q =
      (List.range N).countP (fun y => q (2 * y)) + (List.range N).countP (fun y => q (2 * y + 1)) := by
  induction N with
  | zero => simp
  | succ N ih =>
    have e : 2 * (N + 1) = 2 * N + 1 + 1 := by ring
    rw [e, List.range_succ, List.range_succ, List.countP_append, List.countP_append, ih,
      List.range_succ, List.countP_append, List.countP_append]
    simp only [List.countP_cons, List.countP_nil]
    omega

theorem cntBits_zero (P : List Bool → Bool) : cntBits 0 P = if P [] then 1 else 0 := by
  simp [cntBits, bitsSmall, List.countP_cons]

theorem cntBits_succ (M : Nat) (P : List Bool → Bool) :
    cntBits (M + 1) P = cntBits M (fun l => P (false :: l)) + cntBits M (fun l => P (true :: l)) := by
  unfold cntBits
  rw [List.countP_map, List.countP_map, List.countP_map, Nat.pow_succ, Nat.mul_comm, countP_range_double]
  congr 1
  · apply List.countP_congr
    intro y _
    simp only [Function.comp_def, bitsSmall]
    rw [Nat.mul_mod_right, Nat.mul_div_cancel_left _ (by omega : 0 < 2)]
    simp
  · apply List.countP_congr
    intro y _
    simp only [Function.comp_def, bitsSmall]
    rw [Nat.mul_add_mod, show (2 * y + 1) / 2 = y by omega]
    simp

theorem cntBits_le (M : Nat) (P : List Bool → Bool) : cntBits M P ≤ 2 ^ M := by
  unfold cntBits
  refine (List.countP_le_length).trans ?_
  simp

theorem cntBits_false (M : Nat) : cntBits M (fun _ => false) = 0 := by
  simp [cntBits]

theorem cntBits_split (M : Nat) (P Q : List Bool → Bool) :
    cntBits M P = cntBits M (fun l => P l && Q l) + cntBits M (fun l => P l && !Q l) := by
  unfold cntBits
  generalize (List.range (2 ^ M)).map (bitsSmall M) = L
  induction L with
  | nil => simp
  | cons a L ih =>
    simp only [List.countP_cons, ih]
    cases P a <;> cases Q a <;> simp <;> omega

/-- a(M) = number of M-bit strings without a run of more than k ones. -/
def runsLe (k M : Nat) : Nat := cntBits M (fun l => decide (tailsMax l ≤ k))

/-- d(M, j) = number of M-bit strings without a run of more than k ones that start with exactly j ones. -/
def runsLeLead (k M j : Nat) : Nat := cntBits M (fun l => decide (tailsMax l ≤ k) && decide (leadOnes l = j))

theorem leadOnes_le_tailsMax : ∀ (l : List Bool), leadOnes l ≤ tailsMax l
  | [] => by simp [leadOnes, tailsMax]
  | a :: l => by simp only [tailsMax]; omega

theorem tailsMax_false (l : List Bool) : tailsMax (false :: l) = tailsMax l := by
  simp [tailsMax, leadOnes]

theorem tailsMax_true (l : List Bool) : tailsMax (true :: l) = max (leadOnes l + 1) (tailsMax l) := by
  simp [tailsMax, leadOnes]

theorem runsLeLead_spec (k : Nat) : ∀ (j M : Nat), j ≤ k →
    runsLeLead k M j = if M < j then 0 else if M = j then 1 else runsLe k (M - j - 1)
  | 0, 0, _ => by
    simp [runsLeLead, cntBits_zero, tailsMax, leadOnes]
  | 0, M + 1, _ => by
    unfold runsLeLead
    rw [cntBits_succ]
    have h1 : (fun l : List Bool => decide (tailsMax (true :: l) ≤ k) && decide (leadOnes (true :: l) = 0)) =
        (fun _ => false) := by
      funext l; simp [leadOnes]
    have h2 : (fun l : List Bool => decide (tailsMax (false :: l) ≤ k) && decide (leadOnes (false :: l) = 0)) =
        (fun l => decide (tailsMax l ≤ k)) := by
      funext l; simp [leadOnes, tailsMax_false]
    rw [h1, h2, cntBits_false]
    simp [runsLe]
  | j + 1, 0, _ => by
    simp [runsLeLead, cntBits_zero, leadOnes]
  | j + 1, M + 1, hj => by
    have ih := runsLeLead_spec k j M (by omega)
    unfold runsLeLead at ih ⊢
    rw [cntBits_succ]
    have h1 : (fun l : List Bool => decide (tailsMax (false :: l) ≤ k) && decide (leadOnes (false :: l) = j + 1)) =
        (fun _ => false) := by
      funext l; simp [leadOnes]
    have h2 : (fun l : List Bool => decide (tailsMax (true :: l) ≤ k) && decide (leadOnes (true :: l) = j + 1)) =
        (fun l => decide (tailsMax l ≤ k) && decide (leadOnes l = j)) := by
      funext l
      rw [tailsMax_true]
      simp only [leadOnes]
      by_cases hl : leadOnes l = j
      · simp [hl]; intro _; omega
      · simp [hl]
    rw [h1, h2, cntBits_false, ih, Nat.zero_add]
    by_cases h3 : M < j
    · simp [h3]
    · by_cases h4 : M = j
      · simp [h4]
      · have e : M + 1 - (j + 1) - 1 = M - j - 1 := by omega
        have h5 : ¬ M + 1 < j + 1 := by omega
        have h6 : ¬ M + 1 = j + 1 := by omega
        simp [h3, h4]

/-- the recurrence: a(M+1) = 2·a(M) − d(M, k), d(M, k) = 0 / 1 / a(M − k − 1) for M < k / = k / > k. -/
theorem runsLe_succ (k M : Nat) :
    runsLe k (M + 1) + (if M < k then 0 else if M = k then 1 else runsLe k (M - k - 1)) = 2 * runsLe k M := by
  rw [← runsLeLead_spec k k M (le_refl k)]
  unfold runsLe runsLeLead
  rw [cntBits_succ]
  have h1 : (fun l : List Bool => decide (tailsMax (false :: l) ≤ k)) = (fun l => decide (tailsMax l ≤ k)) := by
    funext l; rw [tailsMax_false]
  have h2 : (fun l : List Bool => decide (tailsMax (true :: l) ≤ k)) =
      (fun l => decide (tailsMax l ≤ k) && !decide (leadOnes l = k)) := by
    funext l
    rw [tailsMax_true]
    have := leadOnes_le_tailsMax l
    by_cases hl : leadOnes l = k
    · simp [hl]
    · by_cases ht : tailsMax l ≤ k
      · have : max (leadOnes l + 1) (tailsMax l) ≤ k := by omega
        simp [hl, ht, this]
      · have : ¬ max (leadOnes l + 1) (tailsMax l) ≤ k := by omega
        simp [ht, this]
  rw [h1, h2]
  have := cntBits_split M (fun l => decide (tailsMax l ≤ k)) (fun l => decide (leadOnes l = k))
  omega

theorem runsLe_zero (k : Nat) : runsLe k 0 = 1 := by
  simp [runsLe, cntBits_zero, tailsMax]

theorem runsLe_mono (k M : Nat) : runsLe k M ≤ runsLe k (M + 1) := by
  unfold runsLe
  rw [cntBits_succ]
  have h1 : (fun l : List Bool => decide (tailsMax (false :: l) ≤ k)) = (fun l => decide (tailsMax l ≤ k)) := by
    funext l; rw [tailsMax_false]
  rw [h1]
  omega

theorem runsLe_pos (k : Nat) : ∀ M, 0 < runsLe k M
  | 0 => by rw [runsLe_zero]; omega
  | M + 1 => Nat.lt_of_lt_of_le (runsLe_pos k M) (runsLe_mono k M)

theorem runsLe_le (k M : Nat) : runsLe k M ≤ 2 ^ M := cntBits_le _ _

/-! ## B. the packed sliding window of `leStep` -/

/-- Σ_{j<len} f j · 2^(w·j): `len` digits of `w` bits, digit 0 lowest. -/
def packF (w : Nat) (f : Nat → Nat) : Nat → Nat
  | 0 => 0
  | len + 1 => packF w f len + f len * 2 ^ (w * len)

theorem packF_lt (w : Nat) (f : Nat → Nat) (hf : ∀ j, f j < 2 ^ w) : ∀ len, packF w f len < 2 ^ (w * len)
  | 0 => by simp [packF]
  | len + 1 => by
    have ih := packF_lt w f hf len
    have hfl := hf len
    simp only [packF]
    have e : 2 ^ (w * (len + 1)) = 2 ^ w * 2 ^ (w * len) := by
      rw [Nat.mul_succ, Nat.pow_add, Nat.mul_comm]
    rw [e]
    calc packF w f len + f len * 2 ^ (w * len) < 2 ^ (w * len) + f len * 2 ^ (w * len) := by omega
      _ = (f len + 1) * 2 ^ (w * len) := by ring
      _ ≤ 2 ^ w * 2 ^ (w * len) := Nat.mul_le_mul_right _ (by omega)

theorem packF_low (w : Nat) (f : Nat → Nat) : ∀ len,
    packF w f (len + 1) = f 0 + 2 ^ w * packF w (fun j => f (j + 1)) len
  | 0 => by simp [packF]
  | len + 1 => by
    rw [packF, packF_low w f len]
    simp only [packF]
    rw [Nat.mul_succ, Nat.pow_add]
    ring

theorem packF_zero (w : Nat) : ∀ len, packF w (fun _ => 0) len = 0
  | 0 => rfl
  | len + 1 => by simp [packF, packF_zero w len]

theorem leStep_pack (k w i : Nat) (D : Nat → Nat) (hD : ∀ j, D j < 2 ^ w) :
    leStep k w i (packF w D (k + 2)) = packF w D (k + 1) * 2 ^ w +
      (if i ≤ k then 2 * D 0 else if i = k + 1 then 2 * D 0 - 1 else 2 * D 0 - D (k + 1)) := by
  unfold leStep
  have hlt := packF_lt w D hD (k + 1)
  have h0 : packF w D (k + 2) % 2 ^ w = D 0 := by
    rw [packF_low, Nat.add_mul_mod_self_left, Nat.mod_eq_of_lt (hD 0)]
  have h1 : packF w D (k + 2) % 2 ^ (w * (k + 1)) = packF w D (k + 1) := by
    rw [show k + 2 = (k + 1) + 1 from rfl, packF, Nat.add_mul_mod_self_right, Nat.mod_eq_of_lt hlt]
  have h2 : (packF w D (k + 2) >>> (w * (k + 1))) % 2 ^ w = D (k + 1) := by
    rw [Nat.shiftRight_eq_div_pow, show k + 2 = (k + 1) + 1 from rfl, packF,
      Nat.add_mul_div_right _ _ (Nat.pow_pos (by omega)), Nat.div_eq_of_lt hlt, Nat.zero_add,
      Nat.mod_eq_of_lt (hD _)]
  rw [h0, h1, h2, Nat.shiftLeft_eq]

theorem pack_shift (k w : Nat) (D D' : Nat → Nat) (hs : ∀ j, D' (j + 1) = D j) :
    packF w D (k + 1) * 2 ^ w + D' 0 = packF w D' (k + 2) := by
  rw [packF_low w D' (k + 1)]
  have : (fun j => D' (j + 1)) = D := by funext j; exact hs j
  rw [this]
  ring

/-- the window before step i: digit j holds a(i − 1 − j) (0 when that index would be negative). -/
def winD (k i : Nat) : Nat → Nat := fun j => if j < i then runsLe k (i - 1 - j) else 0

theorem winD_lt (k w i : Nat) (hi : i ≤ w) (j : Nat) : winD k i j < 2 ^ w := by
  unfold winD
  split
  · refine Nat.lt_of_le_of_lt (runsLe_le k _) ?_
    exact Nat.pow_lt_pow_right (by omega) (by omega)
  · exact Nat.pow_pos (by omega)

theorem leStep_winD (k w i : Nat) (h1 : 1 ≤ i) (hi : i ≤ w) :
    leStep k w i (packF w (winD k i) (k + 2)) = packF w (winD k (i + 1)) (k + 2) := by
  rw [leStep_pack k w i _ (winD_lt k w i hi)]
  have hshift : ∀ j, winD k (i + 1) (j + 1) = winD k i j := by
    intro j
    unfold winD
    by_cases hj : j < i
    · rw [if_pos hj, if_pos (by omega)]
      congr 1
      omega
    · rw [if_neg hj, if_neg (by omega)]
  have hnew : (if i ≤ k then 2 * winD k i 0 else if i = k + 1 then 2 * winD k i 0 - 1
      else 2 * winD k i 0 - winD k i (k + 1)) = winD k (i + 1) 0 := by
    -- the new digit is a(i)
    have hr := runsLe_succ k (i - 1)
    have e1 : i - 1 + 1 = i := by omega
    rw [e1] at hr
    have hw0 : winD k i 0 = runsLe k (i - 1) := by simp [winD, show 0 < i from h1]
    have hn : winD k (i + 1) 0 = runsLe k i := by simp [winD]
    rw [hw0, hn]
    by_cases c1 : i ≤ k
    · rw [if_pos c1]
      rw [if_pos (by omega)] at hr
      omega
    · rw [if_neg c1]
      by_cases c2 : i = k + 1
      · rw [if_pos c2]
        rw [if_neg (by omega), if_pos (by omega)] at hr
        omega
      · rw [if_neg c2]
        rw [if_neg (by omega), if_neg (by omega)] at hr
        have hwk : winD k i (k + 1) = runsLe k (i - 1 - k - 1) := by
          unfold winD
          rw [if_pos (by omega)]
          congr 1
        rw [hwk]
        omega
  rw [hnew]
  exact pack_shift k w _ _ hshift

theorem packF_pos (k w : Nat) (D : Nat → Nat) (h : 0 < D 0) : packF w D (k + 2) ≠ 0 := by
  rw [packF_low]; omega

theorem leRun_spec (k w : Nat) : ∀ (f i : Nat), 1 ≤ i → i + f ≤ w →
    leRun k w f i (packF w (winD k i) (k + 2)) = runsLe k (i - 1 + f)
  | 0, i, h1, hi => by
    rw [leRun, packF_low, Nat.add_mul_mod_self_left, Nat.mod_eq_of_lt (winD_lt k w i (by omega) 0)]
    simp [winD, show 0 < i from h1]
  | f + 1, i, h1, hi => by
    rw [leRun, leStep_winD k w i h1 (by omega)]
    have hpos : packF w (winD k (i + 1)) (k + 2) ≠ 0 := by
      apply packF_pos
      simp only [winD, Nat.zero_lt_succ, if_true]
      exact runsLe_pos k _
    have ih := leRun_spec k w f (i + 1) (by omega) (by omega)
    cases hx : packF w (winD k (i + 1)) (k + 2) with
    | zero => exact absurd hx hpos
    | succ x =>
      rw [hx] at ih
      simp only
      rw [ih]
      congr 1
      omega

/-- ★ the recurrence is correct for every k and M: `leCount k M` = number of M-bit strings whose longest
run of ones is at most k. -/
theorem leCount_eq_runsLe (k M : Nat) : leCount k M = runsLe k M := by
  unfold leCount
  have h1 : (1 : Nat) = packF (M + 1) (winD k 1) (k + 2) := by
    rw [packF_low]
    have : (fun j => winD k 1 (j + 1)) = (fun _ => 0) := by funext j; simp [winD]
    rw [this, packF_zero]
    simp [winD, runsLe_zero]
  have h := leRun_spec k (M + 1) M 1 (le_refl 1) (by omega)
  rw [← h1] at h
  rw [h]
  simp

theorem leCount_spec (k M : Nat) :
    leCount k M = ((List.range (2 ^ M)).map (bitsSmall M)).countP (fun l => decide (longestRun l ≤ k)) := by
  rw [leCount_eq_runsLe]
  unfold runsLe cntBits
  simp only [longestRun_eq_tailsMax]

/-! ## C. class counts: `lrDPCounts = lrExactCounts` -/

theorem forceNat_eq {α} (x : Nat) (f : Nat → α) : forceNat x f = f x := by cases x <;> rfl

theorem cums_eq (M : Nat) : ∀ (cnt k : Nat), cums M k cnt = (List.range cnt).map (fun t => leCount (k + t) M)
  | 0, k => by simp [cums]
  | cnt + 1, k => by
    rw [cums, forceNat_eq, cums_eq M cnt (k + 1), List.range_succ_eq_map, List.map_cons, List.map_map]
    simp only [Nat.add_zero, List.cons.injEq, true_and]
    apply List.map_congr_left
    intro t _
    simp only [Function.comp_def, Nat.succ_eq_add_one]
    congr 1
    omega

theorem countP_le_succ (vals : List Nat) (s : Nat) :
    vals.countP (fun v => decide (v ≤ s + 1)) =
      vals.countP (fun v => decide (v ≤ s)) + vals.countP (fun v => decide (v = s + 1)) := by
  induction vals with
  | nil => simp
  | cons a l ih =>
    simp only [List.countP_cons, ih]
    by_cases h1 : a ≤ s
    · have : a ≤ s + 1 := by omega
      have h3 : ¬ a = s + 1 := by omega
      simp [h1, this, h3]; omega
    · by_cases h2 : a = s + 1
      · simp [h2]; omega
      · have : ¬ a ≤ s + 1 := by omega
        simp [h1, h2, this]

theorem countP_gt (vals : List Nat) (s : Nat) :
    vals.countP (fun v => decide (s < v)) = vals.length - vals.countP (fun v => decide (v ≤ s)) := by
  induction vals with
  | nil => simp
  | cons a l ih =>
    have hle := List.countP_le_length (p := fun v => decide (v ≤ s)) (l := l)
    simp only [List.countP_cons, ih, List.length_cons]
    by_cases h1 : a ≤ s
    · have : ¬ s < a := by omega
      simp [h1, this]
    · have : s < a := by omega
      simp [h1, this]; omega

theorem diffs_cum (vals : List Nat) : ∀ (cnt s : Nat),
    diffs (vals.countP (fun v => decide (v ≤ s)))
      ((List.range cnt).map (fun t => vals.countP (fun v => decide (v ≤ s + 1 + t))) ++ [vals.length]) =
    (List.range cnt).map (fun t => vals.countP (fun v => decide (v = s + 1 + t))) ++
      [vals.countP (fun v => decide (s + cnt < v))]
  | 0, s => by
    simp only [List.range_zero, List.map_nil, List.nil_append, diffs, Nat.add_zero]
    rw [countP_gt]
  | cnt + 1, s => by
    rw [List.range_succ_eq_map, List.map_cons, List.map_map, List.map_cons, List.map_map, List.cons_append,
      List.cons_append, diffs]
    have ih := diffs_cum vals cnt (s + 1)
    have e1 : ((fun t => vals.countP (fun v => decide (v ≤ s + 1 + t))) ∘ Nat.succ) =
        (fun t => vals.countP (fun v => decide (v ≤ s + 1 + 1 + t))) := by
      funext t
      simp only [Function.comp_def, Nat.succ_eq_add_one]
      congr 1; funext v; congr 1
      rw [show s + 1 + (t + 1) = s + 1 + 1 + t by omega]
    have e2 : ((fun t => vals.countP (fun v => decide (v = s + 1 + t))) ∘ Nat.succ) =
        (fun t => vals.countP (fun v => decide (v = s + 1 + 1 + t))) := by
      funext t
      simp only [Function.comp_def, Nat.succ_eq_add_one]
      congr 1; funext v; congr 1
      rw [show s + 1 + (t + 1) = s + 1 + 1 + t by omega]
    rw [e1, e2, Nat.add_zero, ih, show s + 1 + cnt = s + (cnt + 1) by omega]
    congr 1
    rw [countP_le_succ]
    omega

/-- for ANY list of values: the differences of the cumulative counts are the class counts of
`idx = max(0, min(v_upper, x) − v_lower)`. -/
theorem class_counts (vals : List Nat) (vl n : Nat) (hn : 1 ≤ n) :
    diffs 0 ((List.range n).map (fun t => vals.countP (fun v => decide (v ≤ vl + t))) ++ [vals.length]) =
      (List.range (n + 1)).map (fun i => (vals.map (lrClass vl (vl + n))).count i) := by
  obtain ⟨c, rfl⟩ : ∃ c, n = c + 1 := ⟨n - 1, by omega⟩
  rw [List.range_succ_eq_map (n := c), List.map_cons, List.map_map, List.cons_append, diffs, Nat.add_zero,
    Nat.sub_zero]
  have e1 : ((fun t => vals.countP (fun v => decide (v ≤ vl + t))) ∘ Nat.succ) =
      (fun t => vals.countP (fun v => decide (v ≤ vl + 1 + t))) := by
    funext t
    simp only [Function.comp_def, Nat.succ_eq_add_one]
    congr 1; funext v; congr 1
    rw [show vl + (t + 1) = vl + 1 + t by omega]
  rw [e1, diffs_cum vals c vl]
  rw [List.range_succ_eq_map (n := c + 1), List.map_cons, List.map_map, List.range_succ, List.map_append]
  have hcnt : ∀ i, (vals.map (lrClass vl (vl + (c + 1)))).count i =
      vals.countP (fun v => decide (lrClass vl (vl + (c + 1)) v = i)) := by
    intro i
    rw [List.count_eq_countP, List.countP_map]
    apply List.countP_congr
    intro v _
    simp
  congr 1
  · rw [hcnt]
    apply List.countP_congr
    intro v _
    simp only [decide_eq_true_eq]
    unfold lrClass
    omega
  · congr 1
    · apply List.map_congr_left
      intro t ht
      rw [List.mem_range] at ht
      simp only [Function.comp_def, Nat.succ_eq_add_one]
      rw [hcnt]
      apply List.countP_congr
      intro v _
      simp only [decide_eq_true_eq]
      unfold lrClass
      omega
    · simp only [List.map_cons, List.map_nil, Function.comp_def, Nat.succ_eq_add_one, List.cons.injEq, and_true]
      rw [hcnt]
      apply List.countP_congr
      intro v _
      simp only [decide_eq_true_eq]
      unfold lrClass
      omega

/-- ★ `longestRuns_recurrence_correct`: for every block size M and all class bounds, the class counts
obtained from the recurrence are the brute-force counts over all 2^M blocks. -/
theorem lrDP_eq_exact (M vl vu : Nat) (h : vl < vu) : lrDPCounts M vl vu = lrExactCounts M vl vu := by
  obtain ⟨n, rfl, hn⟩ : ∃ n, vu = vl + n ∧ 1 ≤ n := ⟨vu - vl, by omega, by omega⟩
  unfold lrDPCounts lrExactCounts
  rw [cums_eq, Nat.add_sub_cancel_left]
  have hvals := class_counts ((List.range (2 ^ M)).map (fun x => longestRun (bitsSmall M x))) vl n hn
  rw [List.length_map, List.length_range, List.map_map] at hvals
  simp only [Function.comp_def] at hvals
  rw [← hvals]
  congr 2
  apply List.map_congr_left
  intro t _
  rw [leCount_spec, List.countP_map, List.countP_map]
  rfl

/-! ## D. the enumeration `x ↦ bitsSmall M x`, x < 2^M, lists every M-bit string exactly once -/

theorem bitsSmall_natOfBits : ∀ (l : List Bool), bitsSmall l.length (natOfBits l) = l
  | [] => rfl
  | b :: l => by
    simp only [List.length_cons, bitsSmall, natOfBits_cons_div, bitsSmall_natOfBits l]
    congr 1
    simp only [natOfBits]
    cases b <;> simp

theorem natOfBits_bitsSmall : ∀ (M x : Nat), natOfBits (bitsSmall M x) = x % 2 ^ M
  | 0, x => by simp [bitsSmall, natOfBits, Nat.mod_one]
  | M + 1, x => by
    simp only [bitsSmall, natOfBits, natOfBits_bitsSmall M (x / 2), Nat.pow_succ]
    have h2 : 0 < 2 ^ M := Nat.pow_pos (by omega)
    rw [Nat.mul_comm (2 ^ M) 2, Nat.mod_mul]
    congr 1
    rcases Nat.mod_two_eq_zero_or_one x with h | h <;> simp [h]

/-- every list of M bits is `bitsSmall M x` for exactly one x < 2^M (namely its value). -/
theorem bitsSmall_enumerates (M : Nat) (l : List Bool) (hl : l.length = M) :
    ∃ x, (x < 2 ^ M ∧ bitsSmall M x = l) ∧ ∀ y, y < 2 ^ M ∧ bitsSmall M y = l → y = x := by
  refine ⟨natOfBits l, ⟨hl ▸ natOfBits_lt l, hl ▸ bitsSmall_natOfBits l⟩, ?_⟩
  rintro y ⟨hy, rfl⟩
  rw [natOfBits_bitsSmall, Nat.mod_eq_of_lt hy]

/-! ## E. the tables, now against the brute-force distribution -/

/-- M = 128: every entry is the exact probability (over all 2^128 blocks) rounded or truncated. -/
theorem lr_table_M128_exact :
    rowMatches (lrRow 1) (exactRows (lrExactCounts 128 4 9) (2 ^ 128) 10000) 10000 true = true := by
  rw [← lrDP_eq_exact 128 4 9 (by omega)]; exact lr_table_M128

set_option exponentiation.threshold 20000 in
/-- M = 10000: the exact distribution over all 2^10000 blocks, (rounded, truncated) to 4 digits. -/
theorem lr10000_rows_exact : exactRows (lrExactCounts 10000 10 16) (2 ^ 10000) 10000 =
    [(866, 866), (2082, 2082), (2484, 2484), (1939, 1939), (1215, 1214), (680, 680), (734, 733)] := by
  rw [← lrDP_eq_exact 10000 10 16 (by omega)]; exact lr10000_rows

end Paranoid.Nist
