/-
Proofs/Nist2Serial.lean — the second difference ∇²ψ²_m of the Serial test is non-negative
(NIST SP 800-22 2.11.4 (4)), for the wrap-around pattern counts of every bit string.

With ν_{xuy} the cyclic count of the m-bit pattern (x, u, y) (x = first bit, y = last bit) and the
two marginals ν_{xu} = ν_{xu0} + ν_{xu1}, ν_{uy} = ν_{0uy} + ν_{1uy} (the counts are cyclic, so both
are the counts of the (m−1)-bit patterns):
  4·Σν_m² − 4·Σν_{m−1}² + Σν_{m−2}² = Σ_u (ν_{0u0} − ν_{0u1} − ν_{1u0} + ν_{1u1})² ≥ 0.
-/
import ParanoidModel.Proofs.Nist
namespace Paranoid.Nist

/-! ## list algebra -/

theorem sumSq_append (a b : List Nat) : sumSq (a ++ b) = sumSq a + sumSq b := by
  simp [sumSq]

theorem pairSum_append_even : ∀ (a b : List Nat), a.length % 2 = 0 →
    pairSum (a ++ b) = pairSum a ++ pairSum b
  | [], b, _ => by simp [pairSum]
  | [x], b, h => by simp at h
  | x :: y :: a, b, h => by
    have h' : a.length % 2 = 0 := by simp only [List.length_cons] at h; omega
    simp only [List.cons_append, pairSum, pairSum_append_even a b h']

theorem pairSum_zipWith_add : ∀ (a b : List Nat),
    pairSum (List.zipWith (· + ·) a b) = List.zipWith (· + ·) (pairSum a) (pairSum b)
  | [], _ => by simp [pairSum]
  | [x], [] => by simp [pairSum]
  | [x], [y] => by simp [pairSum]
  | [x], y :: z :: b => by simp [pairSum]
  | x :: x' :: a, [] => by simp [pairSum]
  | x :: x' :: a, [y] => by simp [pairSum]
  | x :: x' :: a, y :: y' :: b => by
    simp only [List.zipWith_cons_cons, pairSum, pairSum_zipWith_add a b]
    congr 1
    omega

/-- the 2×2-table inequality: 4(p²+q²+r²+s²) − 2((p+q)²+(r+s)²) − 2((p+r)²+(q+s)²) + (p+q+r+s)² =
(p − q − r + s)² ≥ 0. -/
theorem table_ineq (p q r s : Nat) :
    2 * ((p + q) * (p + q) + (r + s) * (r + s)) + 2 * ((p + r) * (p + r) + (q + s) * (q + s)) ≤
      4 * (p * p + q * q + r * r + s * s) + (p + q + (r + s)) * (p + q + (r + s)) := by
  have h := sq_nonneg ((p : Int) - q - r + s)
  zify
  nlinarith [h]

/-- Σ over u of the 2×2-table inequality, in list form: `A0`, `A1` are the halves of the count vector
with last pattern bit 0 / 1; `pairSum` sums over the first pattern bit, `zipWith (+)` over the last. -/
theorem sumSq_second_diff : ∀ (A0 A1 : List Nat), A0.length = A1.length →
    2 * (sumSq (pairSum A0) + sumSq (pairSum A1)) + 2 * sumSq (List.zipWith (· + ·) A0 A1) ≤
      4 * (sumSq A0 + sumSq A1) + sumSq (List.zipWith (· + ·) (pairSum A0) (pairSum A1))
  | [], [], _ => by simp [pairSum, sumSq]
  | [], _ :: _, h => by simp at h
  | _ :: _, [], h => by simp at h
  | [p], [r], _ => by
    simp only [pairSum, sumSq, List.zipWith_cons_cons, List.zipWith_nil_left, List.map_cons,
      List.map_nil, List.sum_cons, List.sum_nil]
    have h := sq_nonneg ((p : Int) - r)
    zify
    nlinarith [h]
  | [p], _ :: _ :: _, h => by simp at h
  | _ :: _ :: _, [r], h => by simp at h
  | p :: q :: A0, r :: s :: A1, h => by
    have ih := sumSq_second_diff A0 A1 (by simpa using h)
    have ht := table_ineq p q r s
    simp only [pairSum, sumSq, List.zipWith_cons_cons, List.map_cons, List.sum_cons] at ih ⊢
    omega

/-! ## the second marginal of the cyclic counts -/

theorem natOfBits_lt : ∀ (l : List Bool), natOfBits l < 2 ^ l.length
  | [] => by simp [natOfBits]
  | b :: l => by
    have := natOfBits_lt l
    simp only [natOfBits, List.length_cons, Nat.pow_succ]
    cases b <;> simp <;> omega

theorem natOfBits_take_mod : ∀ (l : List Bool) (j : Nat), natOfBits (l.take j) = natOfBits l % 2 ^ j
  | [], j => by simp [natOfBits]
  | b :: l, 0 => by simp [natOfBits, Nat.mod_one]
  | b :: l, j + 1 => by
    simp only [List.take_succ_cons, natOfBits, natOfBits_take_mod l j, Nat.pow_succ]
    have h2 : 0 < 2 ^ j := Nat.pow_pos (by omega)
    have e : natOfBits l = 2 ^ j * (natOfBits l / 2 ^ j) + natOfBits l % 2 ^ j :=
      (Nat.div_add_mod _ _).symm
    have hlt := Nat.mod_lt (natOfBits l) h2
    generalize natOfBits l % 2 ^ j = r at *
    generalize natOfBits l / 2 ^ j = d at *
    rw [e]
    have : ((if b = true then 1 else 0) + 2 * (2 ^ j * d + r)) =
        ((if b = true then 1 else 0) + 2 * r) + (2 ^ j * 2) * d := by ring
    rw [this, Nat.add_mul_mod_self_left, Nat.mod_eq_of_lt]
    cases b <;> simp <;> omega

/-- `zipWith (+)` of the two halves of a table over `range (2·H)`. -/
theorem halves_range (H : Nat) (f : Nat → Nat) :
    List.zipWith (· + ·) (((List.range (2 * H)).map f).take H) (((List.range (2 * H)).map f).drop H) =
      (List.range H).map (fun v => f v + f (v + H)) := by
  apply List.ext_getElem?
  intro i
  by_cases hi : i < H
  · rw [List.getElem?_zipWith, List.getElem?_take_of_lt hi, List.getElem?_drop, List.getElem?_map,
      List.getElem?_map, List.getElem?_map, List.getElem?_range (by omega), List.getElem?_range (by omega),
      List.getElem?_range hi]
    simp [Nat.add_comm]
  · rw [List.getElem?_eq_none (by simp; omega), List.getElem?_eq_none (by simp; omega)]

theorem count_mod_half (ws : List Nat) (v H : Nat) (hv : v < H) (hws : ∀ w ∈ ws, w < 2 * H) :
    ws.count v + ws.count (v + H) = (ws.map (· % H)).count v := by
  induction ws with
  | nil => simp
  | cons w ws ih =>
    have hw : w < 2 * H := hws w (by simp)
    have ih' := ih (fun x hx => hws x (by simp [hx]))
    simp only [List.map_cons, List.count_cons]
    have : (if w % H == v then 1 else 0) = (if w == v then 1 else 0) + (if w == v + H then 1 else 0) := by
      by_cases h1 : w = v
      · subst h1
        simp [Nat.mod_eq_of_lt hv]; omega
      · by_cases h2 : w = v + H
        · subst h2
          simp [Nat.mod_eq_of_lt hv]; omega
        · have : ¬ w % H = v := by
            intro hc
            by_cases hlt : w < H
            · rw [Nat.mod_eq_of_lt hlt] at hc; exact h1 hc
            · have : w % H = w - H := by
                rw [Nat.mod_eq_sub_mod (by omega), Nat.mod_eq_of_lt (by omega)]
              omega
          simp [h1, h2, this]
    omega

/-- summing the m-bit cyclic counts over the LAST pattern bit gives the (m−1)-bit cyclic counts. -/
theorem halves_countsWrap (l : List Bool) (m : Nat) (hm : 2 ≤ m) (hl : m ≤ l.length) :
    List.zipWith (· + ·) ((countsWrap l m).toList.take (2 ^ (m - 1)))
        ((countsWrap l m).toList.drop (2 ^ (m - 1))) = (countsWrap l (m - 1)).toList := by
  obtain ⟨k, rfl⟩ : ∃ k, m = k + 2 := ⟨m - 2, by omega⟩
  rw [countsWrap_spec l (k + 2) (by omega) hl, countsWrap_spec l (k + 2 - 1) (by omega) (by omega)]
  simp only [show k + 2 - 1 = k + 1 from rfl, show k + 1 - 1 = k from rfl]
  have e2 : 2 ^ (k + 2) = 2 * 2 ^ (k + 1) := by rw [Nat.pow_succ]; ring
  rw [e2, halves_range]
  apply List.map_congr_left
  intro v hv
  rw [List.mem_range] at hv
  rw [count_mod_half _ v _ hv]
  · congr 1
    rw [List.map_map]
    apply List.map_congr_left
    intro p hp
    rw [List.mem_range] at hp
    simp only [Function.comp_def]
    rw [← natOfBits_take_mod, List.take_take, Nat.min_eq_left (by omega)]
    congr 1
    have h1 := cyclic_window l (k + 2) p (by omega) hl hp
    have h2 := cyclic_window l (k + 1) p (by omega) (by omega) hp
    simp only [show k + 2 - 1 = k + 1 from rfl, show k + 1 - 1 = k from rfl] at h1 h2
    rw [h2]
    have : ((l ++ l.take (k + 1)).drop p).take (k + 1) =
        ((((l ++ l.take (k + 1)).drop p).take (k + 2))).take (k + 1) := by
      rw [List.take_take, Nat.min_eq_left (by omega)]
    rw [this, h1, ← List.map_take, List.take_range, Nat.min_eq_left (by omega)]
  · intro w hw
    rw [List.mem_map] at hw
    obtain ⟨p, _, rfl⟩ := hw
    refine Nat.lt_of_lt_of_le (natOfBits_lt _) ?_
    rw [← e2]
    exact Nat.pow_le_pow_right (by omega) (by simp)

theorem countsWrap_length (l : List Bool) (m : Nat) (hm : 1 ≤ m) (hl : m ≤ l.length) :
    (countsWrap l m).toList.length = 2 ^ m := by
  rw [countsWrap_spec l m hm hl]; simp

/-- the counts of all patterns add up to the number of positions. -/
theorem count_range_sum (N : Nat) (ws : List Nat) (h : ∀ w ∈ ws, w < N) :
    ((List.range N).map (fun w => ws.count w)).sum = ws.length := by
  induction ws with
  | nil => simp
  | cons w ws ih =>
    have ih' := ih (fun x hx => h x (by simp [hx]))
    have hw : w < N := h w (by simp)
    simp only [List.count_cons, List.length_cons]
    rw [← ih']
    have : ∀ (M : Nat), ((List.range M).map (fun x => ws.count x + if w == x then 1 else 0)).sum =
        ((List.range M).map (fun x => ws.count x)).sum + (if w < M then 1 else 0) := by
      intro M
      induction M with
      | zero => simp
      | succ M ihM =>
        rw [List.range_succ, List.map_append, List.map_append, List.sum_append, List.sum_append, ihM]
        simp only [List.map_cons, List.map_nil, List.sum_cons, List.sum_nil]
        by_cases h1 : w = M
        · subst h1; simp; omega
        · by_cases h2 : w < M
          · have : w < M + 1 := by omega
            simp [h1, h2, this]; omega
          · have : ¬ w < M + 1 := by omega
            simp [h1, h2, this]
    rw [this N, if_pos hw]

theorem countsWrap_sum (l : List Bool) (m : Nat) (hm : 1 ≤ m) (hl : m ≤ l.length) :
    (countsWrap l m).toList.sum = l.length := by
  rw [countsWrap_spec l m hm hl, count_range_sum]
  · simp
  · intro w hw
    rw [List.mem_map] at hw
    obtain ⟨p, _, rfl⟩ := hw
    refine Nat.lt_of_lt_of_le (natOfBits_lt _) ?_
    exact Nat.pow_le_pow_right (by omega) (by simp)

/-! ## convexity of m ↦ Σ ν² -/

/-- 4·Σν_{m−1}² ≤ 4·Σν_m² + Σν_{m−2}² in list form: `A` the level-m counts, `B` both of its marginals,
`C` the marginal of `B`. -/
theorem sumSq_convex_lists (A B C : List Nat) (H : Nat) (hlen : A.length = 2 * H) (hH : H % 2 = 0)
    (hB1 : pairSum A = B) (hB2 : List.zipWith (· + ·) (A.take H) (A.drop H) = B) (hC : pairSum B = C) :
    4 * sumSq B ≤ 4 * sumSq A + sumSq C := by
  have hA : A = A.take H ++ A.drop H := (List.take_append_drop H A).symm
  have hl0 : (A.take H).length = H := by rw [List.length_take]; omega
  have hl1 : (A.drop H).length = H := by rw [List.length_drop]; omega
  have h1 : sumSq B = sumSq (pairSum (A.take H)) + sumSq (pairSum (A.drop H)) := by
    rw [← hB1]
    conv_lhs => rw [hA]
    rw [pairSum_append_even _ _ (by rw [hl0]; exact hH), sumSq_append]
  have h2 : sumSq B = sumSq (List.zipWith (· + ·) (A.take H) (A.drop H)) := by rw [hB2]
  have h3 : sumSq C = sumSq (List.zipWith (· + ·) (pairSum (A.take H)) (pairSum (A.drop H))) := by
    rw [← hC, ← hB2, pairSum_zipWith_add]
  have h4 : sumSq A = sumSq (A.take H) + sumSq (A.drop H) := by
    conv_lhs => rw [hA]
    rw [sumSq_append]
  have := sumSq_second_diff (A.take H) (A.drop H) (by rw [hl0, hl1])
  omega

/-- for every pattern length m ≥ 3: 4·Σν_{m−1}² ≤ 4·Σν_m² + Σν_{m−2}². -/
theorem sumSq_countsWrap_convex (l : List Bool) (k : Nat) (hl : k + 3 ≤ l.length) :
    4 * sumSq (countsWrap l (k + 2)).toList ≤
      4 * sumSq (countsWrap l (k + 3)).toList + sumSq (countsWrap l (k + 1)).toList := by
  refine sumSq_convex_lists _ _ _ (2 ^ (k + 2)) ?_ ?_ ?_ ?_ ?_
  · rw [countsWrap_length l (k + 3) (by omega) hl, Nat.pow_succ]; ring
  · rw [Nat.pow_succ]; omega
  · exact pairSum_countsWrap l (k + 3) (by omega) hl
  · exact halves_countsWrap l (k + 3) (by omega) hl
  · exact pairSum_countsWrap l (k + 2) (by omega) (by omega)

/-- m = 2 (ψ²_0 = 0): 4·Σν_1² ≤ 4·Σν_2² + n². -/
theorem sumSq_countsWrap_convex2 (l : List Bool) (hl : 2 ≤ l.length) :
    4 * sumSq (countsWrap l 1).toList ≤ 4 * sumSq (countsWrap l 2).toList + l.length * l.length := by
  have hlen := countsWrap_length l 1 (by omega) (by omega)
  have hsum := countsWrap_sum l 1 (by omega) (by omega)
  have h := sumSq_convex_lists (countsWrap l 2).toList (countsWrap l 1).toList
    (pairSum (countsWrap l 1).toList) 2 (countsWrap_length l 2 (by omega) hl) (by omega)
    (pairSum_countsWrap l 2 (by omega) hl) (halves_countsWrap l 2 (by omega) hl) rfl
  match hc : (countsWrap l 1).toList, hlen with
  | [x, y], _ =>
    rw [hc] at h hsum
    simp only [pairSum, sumSq, List.map_cons, List.map_nil, List.sum_cons, List.sum_nil] at h hsum ⊢
    rw [← hsum]
    simpa using h

/-- ∇²ψ²_m ≥ 0 for the Serial test output, m = j + 3 ≥ 3. -/
theorem serial_d2psi_nonneg (bits n : Nat) (mm : Option Nat) (o : SerialOut)
    (h : serial bits n mm = .ok o) (j a b c : Nat) (ha : o.sq[j]? = some a) (hb : o.sq[j + 1]? = some b)
    (hc : o.sq[j + 2]? = some c) :
    2 * psiNum n (j + 2) b ≤ psiNum n (j + 3) c + psiNum n (j + 1) a := by
  obtain ⟨_, hle, _⟩ := serial_ok bits n mm o h
  have hsq := serial_sq bits n mm o h
  rw [hsq] at ha hb hc
  have hj : j + 2 < o.mMax := by
    by_contra hcon
    rw [List.getElem?_eq_none (by simp; omega)] at hc
    cases hc
  rw [List.getElem?_map, List.getElem?_range (by omega)] at ha hb hc
  simp only [Option.map_some, Option.some.injEq] at ha hb hc
  have key := sumSq_countsWrap_convex (bitList bits n) j (by rw [bitList_length]; omega)
  rw [show j + 2 + 1 = j + 3 from rfl] at hc
  rw [show j + 1 + 1 = j + 2 from rfl] at hb
  rw [ha, hb, hc] at key
  unfold psiNum
  have e3 : 2 ^ (j + 3) = 4 * 2 ^ (j + 1) := by rw [Nat.pow_succ, Nat.pow_succ]; ring
  have e2 : 2 ^ (j + 2) = 2 * 2 ^ (j + 1) := by rw [Nat.pow_succ]; ring
  rw [e3, e2]
  have hk : 2 ^ (j + 1) * (4 * b) ≤ 2 ^ (j + 1) * (4 * c + a) := Nat.mul_le_mul_left _ key
  push_cast
  have hk' : ((2 : Int) ^ (j + 1)) * (4 * b) ≤ (2 : Int) ^ (j + 1) * (4 * c + a) := by exact_mod_cast hk
  nlinarith [hk']

/-- ∇²ψ²_2 = ψ²_2 − 2ψ²_1 + ψ²_0 ≥ 0 with ψ²_0 = 0 (`v[0] = 0` in the code). -/
theorem serial_d2psi_nonneg_m2 (bits n : Nat) (mm : Option Nat) (o : SerialOut)
    (h : serial bits n mm = .ok o) (a b : Nat) (ha : o.sq[0]? = some a) (hb : o.sq[1]? = some b) :
    2 * psiNum n 1 a ≤ psiNum n 2 b := by
  obtain ⟨_, hle, _⟩ := serial_ok bits n mm o h
  have hsq := serial_sq bits n mm o h
  rw [hsq] at ha hb
  have hj : 1 < o.mMax := by
    by_contra hcon
    rw [List.getElem?_eq_none (by simp; omega)] at hb
    cases hb
  rw [List.getElem?_map, List.getElem?_range (by omega)] at ha hb
  simp only [Option.map_some, Option.some.injEq] at ha hb
  have key := sumSq_countsWrap_convex2 (bitList bits n) (by rw [bitList_length]; omega)
  rw [bitList_length] at key
  rw [show 0 + 1 = 1 from rfl] at ha
  rw [show 1 + 1 = 2 from rfl] at hb
  rw [ha, hb] at key
  unfold psiNum
  push_cast
  have hk' : (4 : Int) * a ≤ 4 * b + (n : Int) * n := by exact_mod_cast key
  nlinarith [hk']

end Paranoid.Nist
