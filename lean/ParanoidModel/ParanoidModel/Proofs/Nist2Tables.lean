/-
Proofs/Nist2Tables.lean — kernel evaluation of the complete M = 10000 row of the LongestRuns table.
Independent of Generated/Consts.lean and of Mathlib (compiled once, ≈ 1 min of kernel arithmetic).

`leRun` (Proofs/NistTables.lean) passes its step counter `i` on as the unevaluated term
`((1 + 1) + 1) + …`, which makes the kernel's evaluation quadratic in M; `leRunF` forces the
counter at every step and is the same function.
-/
import ParanoidModel.Proofs.NistTables
namespace Paranoid.Nist

theorem forceNat_eq' {α} (x : Nat) (f : Nat → α) : forceNat x f = f x := by cases x <;> rfl

/-- `leRun` with the step counter evaluated at every step. -/
def leRunF (k w : Nat) : Nat → Nat → Nat → Nat
  | 0, _, win => win % 2 ^ w
  | f + 1, i, win =>
    match leStep k w i win with
    | 0 => 0
    | x + 1 => forceNat (i + 1) (fun i' => leRunF k w f i' (x + 1))

theorem leRunF_eq (k w : Nat) : ∀ (f i win : Nat), leRunF k w f i win = leRun k w f i win
  | 0, _, _ => rfl
  | f + 1, i, win => by
    rw [leRunF, leRun]
    cases leStep k w i win with
    | zero => rfl
    | succ x =>
      simp only
      rw [forceNat_eq', leRunF_eq k w f]

def leCountF (k M : Nat) : Nat := leRunF k (M + 1) M 1 1

theorem leCountF_eq (k M : Nat) : leCountF k M = leCount k M := leRunF_eq _ _ _ _ _

def cumsF (M : Nat) : Nat → Nat → List Nat
  | _, 0 => []
  | k, cnt + 1 => forceNat (leCountF k M) (fun c => c :: cumsF M (k + 1) cnt)

theorem cumsF_eq (M : Nat) : ∀ (cnt k : Nat), cumsF M k cnt = cums M k cnt
  | 0, _ => rfl
  | cnt + 1, k => by
    rw [cumsF, cums, forceNat_eq', forceNat_eq', leCountF_eq, cumsF_eq M cnt]

def lrDPCountsF (M vl vu : Nat) : List Nat := diffs 0 (cumsF M vl (vu - vl) ++ [2 ^ M])

theorem lrDPCountsF_eq (M vl vu : Nat) : lrDPCountsF M vl vu = lrDPCounts M vl vu := by
  unfold lrDPCountsF lrDPCounts
  rw [cumsF_eq]

set_option exponentiation.threshold 20000 in
/-- M = 10000, classes ≤10, 11, …, 15, ≥16: (rounded, truncated) 4-digit numerators of the exact
probabilities, through the recurrence. -/
theorem lr10000_rowsF : exactRows (lrDPCountsF 10000 10 16) (2 ^ 10000) 10000 =
    [(866, 866), (2082, 2082), (2484, 2484), (1939, 1939), (1215, 1214), (680, 680), (734, 733)] := by
  decide +kernel

set_option exponentiation.threshold 20000 in
theorem lr10000_rows : exactRows (lrDPCounts 10000 10 16) (2 ^ 10000) 10000 =
    [(866, 866), (2082, 2082), (2484, 2484), (1939, 1939), (1215, 1214), (680, 680), (734, 733)] := by
  rw [← lrDPCountsF_eq]; exact lr10000_rowsF

/-- the repaired row (D20) is the exact distribution rounded to 4 digits, entry by entry … -/
theorem repaired10000_matches_rows :
    rowMatches repaired10000
      [(866, 866), (2082, 2082), (2484, 2484), (1939, 1939), (1215, 1214), (680, 680), (734, 733)]
      10000 false = true := by decide

/-- … and NIST's printed row differs from it (rounded or truncated) in EVERY entry. -/
theorem nistPrinted10000_all_differ :
    (nistPrinted10000.zip
      [(866, 866), (2082, 2082), (2484, 2484), (1939, 1939), (1215, 1214), (680, 680), (734, 733)]).all
      (fun pr => !(pr.1.1 * 10000 == pr.2.1 * pr.1.2) && !(pr.1.1 * 10000 == pr.2.2 * pr.1.2)) = true := by
  decide

end Paranoid.Nist
