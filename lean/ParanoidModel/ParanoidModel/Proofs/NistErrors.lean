/-
Proofs/NistErrors.lean — helper lemmas for Props/C12Errors.lean: for every test of Model/Nist.lean (and its
float-oracle extension Model/NistFloat.lean) WHICH exception is raised, as a function of the integer
arguments and the oracle flags.
-/
import ParanoidModel.Model.NistFloat
import ParanoidModel.Proofs.Basic
import ParanoidModel.Proofs.Nist
import ParanoidModel.Proofs.Nist2Blocks
namespace Paranoid.Nist
open Paranoid

/-! ## the oracle wrapper -/

theorem chiValidate_ok_iff (o : ChiOracle) : chiValidate o = .ok () ↔ o.rejects = false := by
  unfold chiValidate ChiOracle.rejects
  cases o.badProb <;> cases o.badSum <;> simp

theorem chiValidate_error_iff (o : ChiOracle) (e : PyErr) :
    chiValidate o = .error e ↔ o.rejects = true ∧ e = .valueError := by
  unfold chiValidate ChiOracle.rejects
  cases o.badProb <;> cases o.badSum <;> simp [eq_comm]

/-- `thenChi` raises what the exact part raises; if the exact part succeeds, it raises ValueError
exactly when the oracle says that `ChiSquare` rejects the float distribution. -/
theorem thenChi_error_iff {α} (o : ChiOracle) (x : Except PyErr α) (e : PyErr) :
    thenChi o x = .error e ↔
      x = .error e ∨ ((∃ a, x = .ok a) ∧ o.rejects = true ∧ e = .valueError) := by
  unfold thenChi
  cases x with
  | error e' => simp
  | ok a =>
    cases h : chiValidate o with
    | error e' =>
      have := (chiValidate_error_iff o e').mp h
      simp [this.1, this.2, eq_comm]
    | ok u =>
      have := (chiValidate_ok_iff o).mp (by cases u; exact h)
      simp [this]

theorem thenChi_ok_iff {α} (o : ChiOracle) (x : Except PyErr α) (a : α) :
    thenChi o x = .ok a ↔ x = .ok a ∧ o.rejects = false := by
  unfold thenChi
  cases x with
  | error e' => simp
  | ok b =>
    cases h : chiValidate o with
    | error e' =>
      have := (chiValidate_error_iff o e').mp h
      simp [this.1]
    | ok u =>
      have := (chiValidate_ok_iff o).mp (by cases u; exact h)
      simp [this]

theorem thenChi_clean {α} (x : Except PyErr α) : thenChi ChiOracle.clean x = x := by
  unfold thenChi chiValidate ChiOracle.clean
  cases x <;> simp

/-! ## tests without a float-decided exception -/

theorem frequency_error_kind (bits n : Nat) (e : PyErr) :
    frequency bits n = .error e ↔ n = 0 ∧ e = .zeroDivision := by
  unfold frequency
  split <;> simp_all [eq_comm]

theorem blockFrequency_error_kind (bits n : Nat) (e : PyErr) :
    blockFrequency bits n = .error e ↔ n < 100 ∧ e = .insufficientData := by
  unfold blockFrequency
  split <;> simp_all [eq_comm]

theorem runs_error_kind (bits n : Nat) (e : PyErr) :
    runs bits n = .error e ↔ n = 0 ∧ e = .zeroDivision := by
  unfold runs
  split <;> simp_all [eq_comm]

theorem longestRuns_error_kind (bits n : Nat) (e : PyErr) :
    longestRuns bits n = .error e ↔ n < 128 ∧ e = .insufficientData := by
  have hp := (lrParams_spec n).1
  unfold longestRuns
  split
  · rename_i h; simp [hp.mp h, eq_comm]
  · rename_i m vl vu h
    have : ¬ n < 128 := fun hn => by rw [hp.mpr hn] at h; cases h
    simp [this]

theorem largeRank_error_kind (bits n : Nat) (e : PyErr) :
    largeBinaryMatrixRank bits n = .error e ↔ n < 4096 ∧ e = .insufficientData := by
  unfold largeBinaryMatrixRank
  split <;> simp_all [eq_comm]

theorem serialWith_error_kind (bits n mm : Nat) (e : PyErr) :
    serialWith bits n mm = .error e ↔ n < mm ∧ e = .valueError := by
  unfold serialWith
  split <;> simp_all [eq_comm]

theorem apenWith_error_kind (bits n mm : Nat) (e : PyErr) :
    apenWith bits n mm = .error e ↔ n < mm + 1 ∧ e = .valueError := by
  unfold apenWith
  split <;> simp_all [eq_comm]

theorem bitLength_le_succ (n : Nat) : bitLength n ≤ n + 1 := by
  rw [bitLength_le_iff]
  exact Nat.lt_of_lt_of_le Nat.lt_two_pow_self (Nat.pow_le_pow_right (by omega) (by omega))

theorem serialMMax_le (n : Nat) (hn : 2 ≤ n) : serialMMax n ≤ n := by
  have := bitLength_le_succ n
  unfold serialMMax
  omega

theorem apenMMax_lt (n : Nat) (hn : 3 ≤ n) : apenMMax n + 1 ≤ n := by
  have := bitLength_le_succ n
  unfold apenMMax
  split_ifs <;> omega

/-! ## linear complexity (oracle: the complexities) -/

theorem lfsrNegLogProb_error_iff (m c : Nat) (e : PyErr) :
    lfsrNegLogProb m c = .error e ↔ (m = 0 ∨ m < c) ∧ e = .valueError := by
  unfold lfsrNegLogProb
  split_ifs <;> simp_all [eq_comm]

theorem sumNegLogProb_error_iff (m : Nat) : ∀ (cs : List Nat) (e : PyErr),
    sumNegLogProb m cs = .error e ↔ (∃ c ∈ cs, m = 0 ∨ m < c) ∧ e = .valueError
  | [], e => by simp [sumNegLogProb]
  | c :: cs, e => by
    have ih := sumNegLogProb_error_iff m cs
    unfold sumNegLogProb
    split
    · rename_i a b ha hb
      have h1 : ¬ (m = 0 ∨ m < c) := fun h => by
        have := (lfsrNegLogProb_error_iff m c .valueError).mpr ⟨h, rfl⟩
        rw [ha] at this; cases this
      have h2 : ¬ ∃ c ∈ cs, m = 0 ∨ m < c := fun h => by
        have := (ih .valueError).mpr ⟨h, rfl⟩
        rw [hb] at this; cases this
      simp only [List.mem_cons, exists_eq_or_imp, reduceCtorEq, false_iff, not_and]
      intro h
      rcases h with h | h
      · exact absurd h h1
      · exact absurd h h2
    · rename_i e' he
      have := (lfsrNegLogProb_error_iff m c e').mp he
      simp only [Except.error.injEq, List.mem_cons, exists_eq_or_imp]
      constructor
      · intro h; subst h; exact ⟨Or.inl this.1, this.2⟩
      · intro h; rw [this.2, h.2]
    · rename_i e' he hne
      have := (ih e').mp he
      simp only [Except.error.injEq, List.mem_cons, exists_eq_or_imp]
      constructor
      · intro h; subst h; exact ⟨Or.inr this.1, this.2⟩
      · intro h; rw [this.2, h.2]

theorem linearComplexityImpl_error_iff (m : Nat) (cs : List Nat) (e : PyErr) :
    linearComplexityImpl m cs = .error e ↔
      (cs = [] ∧ e = .zeroDivision) ∨ (cs ≠ [] ∧ (∃ c ∈ cs, m = 0 ∨ m < c) ∧ e = .valueError) := by
  unfold linearComplexityImpl
  split
  · rename_i h
    have : cs = [] := by simpa using h
    simp [this, eq_comm]
  · rename_i h
    have hne : cs ≠ [] := by simpa using h
    split
    · rename_i e' he
      have := (sumNegLogProb_error_iff m cs e').mp he
      simp only [Except.error.injEq, hne, false_and, ne_eq, not_false_eq_true, true_and, false_or]
      constructor
      · intro h; subst h; exact this
      · intro h; rw [this.2, h.2]
    · rename_i q hq
      have : ¬ ∃ c ∈ cs, m = 0 ∨ m < c := fun h => by
        have := (sumNegLogProb_error_iff m cs .valueError).mpr ⟨h, rfl⟩
        rw [hq] at this; cases this
      simp [hne, this]

theorem linearComplexity_error_iff (n bs : Nat) (cs : List Nat) (e : PyErr) :
    linearComplexity n bs cs = .error e ↔
      ((bs < 10 ∨ n < bs * 200) ∧ e = .insufficientData) ∨
      (10 ≤ bs ∧ bs * 200 ≤ n ∧ cs = [] ∧ e = .zeroDivision) ∨
      (10 ≤ bs ∧ bs * 200 ≤ n ∧ cs ≠ [] ∧ (∃ c ∈ cs, bs < c) ∧ e = .valueError) := by
  unfold linearComplexity
  split_ifs with h1 h2
  · simp [h1, eq_comm]
  · have : n < bs * 200 := by omega
    simp [this, eq_comm]
  · rw [linearComplexityImpl_error_iff]
    have h3 : 10 ≤ bs := by omega
    have h4 : bs * 200 ≤ n := by omega
    have h5 : ¬ n < bs * 200 := by omega
    have h6 : bs ≠ 0 := by omega
    simp [h1, h3, h4, h5, h6]

/-! ## scatter -/

theorem scatterSum_error_iff : ∀ (ss cs : List Nat) (e : PyErr),
    scatterSum ss cs = .error e ↔ (∃ p ∈ ss.zip cs, p.1 = 0 ∨ p.1 < p.2) ∧ e = .valueError
  | [], cs, e => by simp [scatterSum]
  | s :: ss, [], e => by simp [scatterSum]
  | s :: ss, c :: cs, e => by
    have ih := scatterSum_error_iff ss cs
    unfold scatterSum
    split
    · rename_i a b ha hb
      have h1 : ¬ (s = 0 ∨ s < c) := fun h => by
        have := (lfsrNegLogProb_error_iff s c .valueError).mpr ⟨h, rfl⟩
        rw [ha] at this; cases this
      have h2 : ¬ ∃ p ∈ ss.zip cs, p.1 = 0 ∨ p.1 < p.2 := fun h => by
        have := (ih .valueError).mpr ⟨h, rfl⟩
        rw [hb] at this; cases this
      simp only [List.zip_cons_cons, List.mem_cons, exists_eq_or_imp, reduceCtorEq, false_iff, not_and]
      intro h
      rcases h with h | h
      · exact absurd h h1
      · exact absurd h h2
    · rename_i e' he
      have := (lfsrNegLogProb_error_iff s c e').mp he
      simp only [Except.error.injEq, List.zip_cons_cons, List.mem_cons, exists_eq_or_imp]
      constructor
      · intro h; subst h; exact ⟨Or.inl this.1, this.2⟩
      · intro h; rw [this.2, h.2]
    · rename_i e' he hne
      have := (ih e').mp he
      simp only [Except.error.injEq, List.zip_cons_cons, List.mem_cons, exists_eq_or_imp]
      constructor
      · intro h; subst h; exact ⟨Or.inr this.1, this.2⟩
      · intro h; rw [this.2, h.2]

/-! ## universal -/

theorem universalImpl_error_iff (bits n L q : Nat) (e : PyErr) :
    universalImpl bits n L q = .error e ↔
      (L = 0 ∧ e = .zeroDivision) ∨
      (L ≠ 0 ∧ n / L < q ∧ e = .valueError) ∨
      (L ≠ 0 ∧ q ≤ n / L ∧ 16 < L ∧ e = .valueError) ∨
      (L ≠ 0 ∧ L ≤ 16 ∧ n / L = q ∧ e = .zeroDivision) := by
  unfold universalImpl
  split_ifs with h1 h2 h3 h4
  · simp [h1, eq_comm]
  · simp [h1, h2, eq_comm]; omega
  · have h5 : q ≤ n / L := by omega
    have h6 : ¬ L ≤ 16 := by omega
    simp [h1, h2, h3, h5, h6, eq_comm]
  · simp [h1, h3, h4, eq_comm]; omega
  · have hbs : ∀ b ∈ (chunks (bitList bits n) L).map natOfBits, b < 2 ^ L := by
      intro b hb
      rw [List.mem_map] at hb
      obtain ⟨c, hc, rfl⟩ := hb
      have := natOfBits_lt c
      rwa [chunk_length _ _ c hc] at this
    obtain ⟨tab', hf⟩ := uni_fold q (2 ^ L) _ _ [] [] hbs (tabInv_init _)
    simp only [List.length_nil, Nat.zero_add, Nat.sub_zero, List.append_nil] at hf
    rw [hf]
    simp [h1]
    omega

theorem universalMinN_facts : ∀ p ∈ universalMinN, p.1 ≠ 0 ∧ p.1 ≤ 16 ∧ 10 * 2 ^ p.1 < p.2 / p.1 := by
  decide

theorem universal_error_kind (bits n : Nat) (e : PyErr) :
    universal bits n = .error e ↔ n < 387840 ∧ e = .insufficientData := by
  unfold universal
  split
  · rename_i h
    simp [(universalL_none_iff n).mp h, eq_comm]
  · rename_i L h
    have hn : ¬ n < 387840 := fun hn => by rw [(universalL_none_iff n).mpr hn] at h; cases h
    obtain ⟨⟨b, hb, hbn⟩, _⟩ := (universalL_spec n L).mp h
    obtain ⟨f1, f2, f3⟩ := universalMinN_facts (L, b) hb
    simp only at f1 f2 f3
    have : b / L ≤ n / L := Nat.div_le_div_right hbn
    rw [universalImpl_error_iff]
    simp [hn, f1]
    omega

/-! ## overlapping -/

theorem overlappingWith_error_iff (bits n m bs : Nat) (e : PyErr) :
    overlappingWith bits n m bs = .error e ↔
      (bs = 0 ∧ e = .zeroDivision) ∨ (bs ≠ 0 ∧ n < bs ∧ e = .insufficientData) ∨
      (bs ≠ 0 ∧ bs ≤ n ∧ bs < m + 4 ∧ e = .valueError) := by
  unfold overlappingWith
  split_ifs with h1 h2 h3
  · simp [h1, eq_comm]
  · have : n < bs := by
      rcases Nat.lt_or_ge n bs with h | h
      · exact h
      · exact absurd h2 (Nat.pos_iff_ne_zero.mp (Nat.div_pos h (Nat.pos_of_ne_zero h1)))
    simp [h1, this, eq_comm]
  · have : bs ≤ n := by
      rcases Nat.lt_or_ge n bs with h | h
      · exact absurd (Nat.div_eq_of_lt h) h2
      · exact h
    simp [h1, this, h3, eq_comm]
  · have : bs ≤ n := by
      rcases Nat.lt_or_ge n bs with h | h
      · exact absurd (Nat.div_eq_of_lt h) h2
      · exact h
    simp [h1, this, h3]

theorem overlappingWith_total (bits n m bs : Nat) (_h1 : bs ≠ 0) (h2 : bs ≤ n) (h3 : m + 4 ≤ bs) :
    ∃ o, overlappingWith bits n m bs = .ok o := by
  cases h : overlappingWith bits n m bs with
  | ok o => exact ⟨o, rfl⟩
  | error e =>
    have := (overlappingWith_error_iff bits n m bs e).mp h
    omega

/-! ## rank -/

/-- which exception `BinaryMatrixRankImpl` raises, by the shape alone. -/
theorem binaryMatrixRankImpl_error_iff (rows : List Nat) (r c k : Nat) (e : PyErr) :
    binaryMatrixRankImpl rows r c k = .error e ↔
      (r = 0 ∧ e = .zeroDivision) ∨
      (r ≠ 0 ∧ rows.length < r ∧ e = .insufficientData) ∨
      (r ≠ 0 ∧ r ≤ rows.length ∧ ¬ (r = c ∧ r ≥ 31 ∧ k ≤ 5) ∧ (k = 0 ∨ c < r) ∧ e = .valueError) := by
  unfold binaryMatrixRankImpl
  by_cases h1 : r = 0
  · simp [h1, eq_comm]
  · have hlt : rows.length / r < 1 ↔ rows.length < r := by
      rw [Nat.div_lt_iff_lt_mul (Nat.pos_of_ne_zero h1)]; simp
    rw [if_neg h1]
    by_cases h2 : rows.length < r
    · rw [if_pos (hlt.mpr h2)]
      have : ¬ r ≤ rows.length := by omega
      simp [h1, h2, this, eq_comm]
    · rw [if_neg (fun h => h2 (hlt.mp h))]
      have h2' : r ≤ rows.length := by omega
      by_cases h3 : r = c ∧ r ≥ 31 ∧ k ≤ 5
      · rw [if_pos h3]
        simp only [reduceCtorEq, false_iff]
        rintro (⟨h, _⟩ | ⟨_, h, _⟩ | ⟨_, _, h, _⟩)
        · exact h1 h
        · exact h2 h
        · exact h h3
      · rw [if_neg h3]
        by_cases h4 : k = 0 ∨ c < r
        · rw [if_pos h4]; simp only [Except.error.injEq]
          constructor
          · intro h; subst h; exact Or.inr (Or.inr ⟨h1, h2', h3, h4, rfl⟩)
          · rintro (⟨h, _⟩ | ⟨_, h, _⟩ | ⟨_, _, _, _, h⟩)
            · exact absurd h h1
            · exact absurd h h2
            · exact h.symm
        · rw [if_neg h4]
          simp only [reduceCtorEq, false_iff]
          rintro (⟨h, _⟩ | ⟨_, h, _⟩ | ⟨_, _, _, h, _⟩)
          · exact h1 h
          · exact h2 h
          · exact h4 h

theorem binaryMatrixRank_error_iff (bits n r c k : Nat) (cs : Bool) (e : PyErr) :
    binaryMatrixRank bits n r c k cs = .error e ↔
      (min r c < k ∧ e = .valueError) ∨
      (k ≤ min r c ∧ cs = true ∧ n < 38 * r * c ∧ e = .insufficientData) ∨
      (k ≤ min r c ∧ ¬ (cs = true ∧ n < 38 * r * c) ∧ (c = 0 ∨ r = 0) ∧ e = .zeroDivision) ∨
      (k ≤ min r c ∧ ¬ (cs = true ∧ n < 38 * r * c) ∧ c ≠ 0 ∧ r ≠ 0 ∧ n / c < r ∧ e = .insufficientData) ∨
      (k ≤ min r c ∧ ¬ (cs = true ∧ n < 38 * r * c) ∧ c ≠ 0 ∧ r ≠ 0 ∧ r ≤ n / c ∧
        ¬ (r = c ∧ r ≥ 31 ∧ k ≤ 5) ∧ (k = 0 ∨ c < r) ∧ e = .valueError) := by
  unfold binaryMatrixRank
  by_cases h1 : min r c < k
  · have : ¬ k ≤ min r c := by omega
    simp [h1, this, eq_comm]
  · have h1' : k ≤ min r c := by omega
    rw [if_neg h1]
    by_cases h2 : cs = true ∧ n < 38 * r * c
    · rw [if_pos (by simpa using h2)]
      simp only [Except.error.injEq]
      constructor
      · intro h; subst h; exact Or.inr (Or.inl ⟨h1', h2.1, h2.2, rfl⟩)
      · rintro (⟨h, _⟩ | ⟨_, _, _, h⟩ | ⟨_, h, _⟩ | ⟨_, h, _⟩ | ⟨_, h, _⟩)
        · exact absurd h h1
        · exact h.symm
        · exact absurd h2 h
        · exact absurd h2 h
        · exact absurd h2 h
    · rw [if_neg (by simpa using h2)]
      by_cases h3 : c = 0
      · rw [if_pos h3]
        simp only [Except.error.injEq]
        constructor
        · intro h; subst h; exact Or.inr (Or.inr (Or.inl ⟨h1', h2, Or.inl h3, rfl⟩))
        · rintro (⟨h, _⟩ | ⟨_, h, h', _⟩ | ⟨_, _, _, h⟩ | ⟨_, _, h, _⟩ | ⟨_, _, h, _⟩)
          · exact absurd h h1
          · exact absurd ⟨h, h'⟩ h2
          · exact h.symm
          · exact absurd h3 h
          · exact absurd h3 h
      · rw [if_neg h3, binaryMatrixRankImpl_error_iff]
        simp only [List.length_map, chunks_length, bitList_length]
        constructor
        · rintro (⟨h, he⟩ | ⟨h, h', he⟩ | ⟨h, h', h'', h''', he⟩)
          · exact Or.inr (Or.inr (Or.inl ⟨h1', h2, Or.inr h, he⟩))
          · exact Or.inr (Or.inr (Or.inr (Or.inl ⟨h1', h2, h3, h, h', he⟩)))
          · exact Or.inr (Or.inr (Or.inr (Or.inr ⟨h1', h2, h3, h, h', h'', h''', he⟩)))
        · rintro (⟨h, _⟩ | ⟨_, h, h', _⟩ | ⟨_, _, h, he⟩ | ⟨_, _, _, h, h', he⟩ | ⟨_, _, _, h, h', h'', h''', he⟩)
          · exact absurd h h1
          · exact absurd ⟨h, h'⟩ h2
          · rcases h with h | h
            · exact absurd h h3
            · exact Or.inl ⟨h, he⟩
          · exact Or.inr (Or.inl ⟨h, h', he⟩)
          · exact Or.inr (Or.inr ⟨h, h', h'', h''', he⟩)

/-! ## random walk -/

theorem rwMax_repaired_ok (st : RW) : ∃ m, rwMax .repaired st = .ok m := by
  unfold rwMax
  split
  · exact ⟨_, rfl⟩
  · cases listMax (rwCycles st).flatten <;> exact ⟨_, rfl⟩

theorem rwMin_repaired_ok (st : RW) : ∃ m, rwMin .repaired st = .ok m := by
  unfold rwMin
  split
  · exact ⟨_, rfl⟩
  · cases listMin (rwCycles st).flatten <;> exact ⟨_, rfl⟩

theorem randomWalk_repaired_error_iff (bits n ms mc msv : Nat) (e : PyErr) :
    randomWalk .repaired bits n ms mc msv = .error e ↔ n = 0 ∧ e = .zeroDivision := by
  unfold randomWalk
  split
  · rename_i h; simp [h, eq_comm]
  · rename_i h
    unfold randomWalkOf
    obtain ⟨a, ha⟩ := rwMax_repaired_ok (rwRun (max ms msv) (bitList bits n))
    obtain ⟨b, hb⟩ := rwMin_repaired_ok (rwRun (max ms msv) (bitList bits n))
    rw [ha, hb]
    simp [h]

theorem randomWalkF_error_iff (ez : Bool) (bits n ms mc msv : Nat) (e : PyErr) :
    randomWalkF ez .repaired bits n ms mc msv = .error e ↔
      (n = 0 ∧ e = .zeroDivision) ∨
      (∃ o, randomWalk .repaired bits n ms mc msv = .ok o ∧ 500 ≤ o.cycles ∧ 1 ≤ ms ∧ ez = true ∧
        e = .zeroDivision) := by
  unfold randomWalkF
  cases h : randomWalk .repaired bits n ms mc msv with
  | error e' =>
    have := (randomWalk_repaired_error_iff bits n ms mc msv e').mp h
    simp [this.1, this.2, eq_comm]
  | ok o =>
    have hn : n ≠ 0 := fun hn => by
      have := (randomWalk_repaired_error_iff bits n ms mc msv .zeroDivision).mpr ⟨hn, rfl⟩
      rw [h] at this; cases this
    unfold excursionsEvaluated
    dsimp only
    by_cases hc : (decide (500 ≤ o.cycles) && decide (1 ≤ ms) && ez) = true
    · rw [if_pos hc]
      simp only [Bool.and_eq_true, decide_eq_true_eq] at hc
      simp [hn, hc.1.1, hc.1.2, hc.2, eq_comm]
    · rw [if_neg hc]
      simp only [Bool.and_eq_true, decide_eq_true_eq] at hc
      simp only [reduceCtorEq, hn, false_and, Except.ok.injEq, exists_eq_left', false_or, false_iff]
      intro h'
      exact hc ⟨⟨h'.1, h'.2.1⟩, h'.2.2.1⟩

/-! ## non-overlapping template matching -/

theorem countsNoWrap_size (l : List Bool) (m : Nat) : (countsNoWrap l m).size = 2 ^ m := by
  unfold countsNoWrap tally
  rw [tally_fold_size]; simp

theorem lookupAll_error_iff (cnt : Array Nat) : ∀ (ts : List Nat) (e : PyErr),
    lookupAll cnt ts = .error e ↔ (∃ t ∈ ts, cnt.size ≤ t) ∧ e = .indexError
  | [], e => by simp [lookupAll]
  | t :: ts, e => by
    have ih := lookupAll_error_iff cnt ts
    unfold lookupAll
    split
    · rename_i h
      have : cnt.size ≤ t := by simpa using h
      simp [this, eq_comm]
    · rename_i v h
      have ht : ¬ cnt.size ≤ t := by
        intro hc
        have : cnt[t]? = none := by simpa using hc
        rw [this] at h; cases h
      split
      · rename_i e' he
        have := (ih e').mp he
        simp only [Except.error.injEq, List.mem_cons, exists_eq_or_imp, ht, false_or]
        constructor
        · intro h; subst h; exact this
        · intro h; rw [this.2, h.2]
      · rename_i vs hv
        have : ¬ ∃ t ∈ ts, cnt.size ≤ t := fun h => by
          have := (ih .indexError).mpr ⟨h, rfl⟩
          rw [hv] at this; cases this
        simp [ht, this]

theorem notmBlocks_error_iff (N : Nat) (ts : List Nat) : ∀ (cnts : List (Array Nat)),
    (∀ c ∈ cnts, c.size = N) → ∀ e,
    (notmBlocks cnts ts = .error e ↔ cnts ≠ [] ∧ (∃ t ∈ ts, N ≤ t) ∧ e = .indexError)
  | [], _, e => by simp [notmBlocks, pure, Except.pure]
  | c :: cnts, hs, e => by
    have ih := notmBlocks_error_iff N ts cnts (fun c hc => hs c (by simp [hc]))
    have hc : c.size = N := hs c (by simp)
    unfold notmBlocks at ih ⊢
    rw [List.mapM_cons]
    cases h : lookupAll c ts with
    | error e' =>
      have := (lookupAll_error_iff c ts e').mp h
      rw [hc] at this
      simp only [bind, Except.bind, Except.error.injEq, ne_eq, reduceCtorEq, not_false_eq_true, true_and]
      constructor
      · intro h; subst h; exact this
      · intro h; rw [this.2, h.2]
    | ok v =>
      have hno : ¬ ∃ t ∈ ts, N ≤ t := fun hh => by
        have := (lookupAll_error_iff c ts .indexError).mpr ⟨by rwa [hc], rfl⟩
        rw [h] at this; cases this
      simp only [bind, Except.bind]
      cases h2 : List.mapM (fun c => lookupAll c ts) cnts with
      | error e'' =>
        have := (ih e'').mp h2
        exact absurd this.2.1 hno
      | ok vs => simp [pure, Except.pure, hno]

theorem notmImpl_error_iff (blocks : List (List Bool)) (bs m : Nat) (ts : List Nat) (e : PyErr) :
    notmImpl blocks bs m ts = .error e ↔
      ((∃ t ∈ ts, isNonOverlapping t m = false) ∧ e = .valueError) ∨
      ((∀ t ∈ ts, isNonOverlapping t m = true) ∧ bs < m ∧ blocks ≠ [] ∧ e = .valueError) ∨
      ((∀ t ∈ ts, isNonOverlapping t m = true) ∧ ¬ (bs < m ∧ blocks ≠ []) ∧ blocks ≠ [] ∧
        (∃ t ∈ ts, 2 ^ m ≤ t) ∧ e = .indexError) := by
  unfold notmImpl
  by_cases h1 : ∃ t ∈ ts, isNonOverlapping t m = false
  · have h1' : ts.any (fun b => !isNonOverlapping b m) = true := by
      simpa [List.any_eq_true] using h1
    have h1'' : ¬ ∀ t ∈ ts, isNonOverlapping t m = true := by
      obtain ⟨t, ht, hf⟩ := h1
      intro hall; rw [hall t ht] at hf; cases hf
    rw [if_pos h1']
    simp only [Except.error.injEq]
    constructor
    · intro h; subst h; exact Or.inl ⟨h1, rfl⟩
    · rintro (⟨_, h⟩ | ⟨h, _⟩ | ⟨h, _⟩)
      · exact h.symm
      · exact absurd h h1''
      · exact absurd h h1''
  · have h1' : ¬ ts.any (fun b => !isNonOverlapping b m) = true := by
      simpa [List.any_eq_true] using h1
    have h1'' : ∀ t ∈ ts, isNonOverlapping t m = true := by
      intro t ht
      cases hq : isNonOverlapping t m
      · exact absurd ⟨t, ht, hq⟩ h1
      · rfl
    rw [if_neg h1']
    by_cases h2 : bs < m ∧ blocks ≠ []
    · have : (m > bs ∧ (!blocks.isEmpty) = true) := by
        refine ⟨h2.1, ?_⟩
        cases blocks with
        | nil => exact absurd rfl h2.2
        | cons a l => rfl
      rw [if_pos this]
      simp only [Except.error.injEq]
      constructor
      · intro h; subst h; exact Or.inr (Or.inl ⟨h1'', h2.1, h2.2, rfl⟩)
      · rintro (⟨h, _⟩ | ⟨_, _, _, h⟩ | ⟨_, h, _⟩)
        · exact absurd h h1
        · exact h.symm
        · exact absurd h2 h
    · have : ¬ (m > bs ∧ (!blocks.isEmpty) = true) := by
        intro hc
        apply h2
        refine ⟨hc.1, ?_⟩
        intro hb; rw [hb] at hc; simp at hc
      rw [if_neg this]
      have hsz : ∀ c ∈ blocks.map (fun b => countsNoWrap b m), c.size = 2 ^ m := by
        intro c hc
        rw [List.mem_map] at hc
        obtain ⟨b, _, rfl⟩ := hc
        exact countsNoWrap_size b m
      have key := notmBlocks_error_iff (2 ^ m) ts _ hsz
      cases h3 : notmBlocks (blocks.map (fun b => countsNoWrap b m)) ts with
      | error e' =>
        have := (key e').mp h3
        simp only [ne_eq, List.map_eq_nil_iff] at this
        simp only [Except.error.injEq]
        constructor
        · intro h; subst h; exact Or.inr (Or.inr ⟨h1'', h2, this.1, this.2.1, this.2.2⟩)
        · rintro (⟨h, _⟩ | ⟨_, h, h', _⟩ | ⟨_, _, _, _, h⟩)
          · exact absurd h h1
          · exact absurd ⟨h, h'⟩ h2
          · rw [this.2.2, h]
      | ok v =>
        have hno : ¬ (blocks ≠ [] ∧ ∃ t ∈ ts, 2 ^ m ≤ t) := fun hh => by
          have := (key .indexError).mpr ⟨by simpa using hh.1, hh.2, rfl⟩
          rw [h3] at this; cases this
        simp only [reduceCtorEq, false_iff]
        rintro (⟨h, _⟩ | ⟨_, h, h', _⟩ | ⟨_, _, hb, ht, _⟩)
        · exact h1 h
        · exact h2 ⟨h, h'⟩
        · exact hno ⟨hb, ht⟩

theorem defaultTemplates_mem (m t : Nat) (h : t ∈ defaultTemplates m) :
    isNonOverlapping t m = true ∧ t < 2 ^ m := by
  unfold defaultTemplates at h
  rw [List.mem_filter, List.mem_range] at h
  exact ⟨h.2, h.1⟩

theorem notmM_le (bs m : Nat) (h : notmM bs = some m) : m ≤ bs ∧ 2 ≤ m ∧ m ≤ 10 := by
  unfold notmM at h
  split_ifs at h <;> simp at h <;> omega

theorem notm_blocks_ne_nil (bits n nb : Nat) (h1 : nb ≠ 0) (h2 : n / nb ≠ 0) :
    chunks (bitList bits n) (n / nb) ≠ [] := by
  intro h
  have hl := chunks_length (bitList bits n) (n / nb)
  rw [h, bitList_length] at hl
  have : nb ≤ n / (n / nb) := by
    rw [Nat.le_div_iff_mul_le (Nat.pos_of_ne_zero h2)]
    rw [Nat.mul_comm]
    exact Nat.div_mul_le_self n nb
  simp at hl
  omega

/-- `NonOverlappingTemplateMatching(bits, n, blocks)` with default `m`, `templates`. -/
theorem nonOverlapping_default_error_iff (bits n nb : Nat) (e : PyErr) :
    nonOverlapping bits n nb none none = .error e ↔
      (nb = 0 ∧ e = .zeroDivision) ∨ (nb ≠ 0 ∧ n / nb < 4 ∧ e = .insufficientData) := by
  unfold nonOverlapping
  by_cases h1 : nb = 0
  · simp [h1, eq_comm]
  · rw [if_neg h1]
    dsimp only
    cases hm : notmM (n / nb) with
    | none =>
      have := (notmM_spec (n / nb)).1.mp hm
      simp [h1, this, eq_comm]
    | some m =>
      have hlt : ¬ n / nb < 4 := fun hc => by
        rw [(notmM_spec (n / nb)).1.mpr hc] at hm; cases hm
      have hle := notmM_le _ _ hm
      dsimp only
      rw [notmImpl_error_iff]
      constructor
      · rintro (⟨⟨t, ht, hf⟩, _⟩ | ⟨_, h, _⟩ | ⟨_, _, _, ⟨t, ht, hf⟩, _⟩)
        · rw [(defaultTemplates_mem m t ht).1] at hf; cases hf
        · omega
        · have := (defaultTemplates_mem m t ht).2; omega
      · rintro (⟨h, _⟩ | ⟨_, h, _⟩)
        · exact absurd h h1
        · exact absurd h hlt

theorem nonOverlapping_templates_without_m (bits n nb : Nat) (ts : List Nat) (e : PyErr) :
    nonOverlapping bits n nb none (some ts) = .error e ↔
      (nb = 0 ∧ e = .zeroDivision) ∨ (nb ≠ 0 ∧ e = .valueError) := by
  unfold nonOverlapping
  by_cases h1 : nb = 0
  · simp [h1, eq_comm]
  · rw [if_neg h1]; simp [h1, eq_comm]

/-- the exceptions of `NonOverlappingTemplateMatchingImpl` on the blocks of the top-level function. -/
theorem notmImpl_top_error_iff (bits n nb m : Nat) (T : List Nat) (h1 : nb ≠ 0) (h2 : n / nb ≠ 0) (e : PyErr) :
    notmImpl (chunks (bitList bits n) (n / nb)) (n / nb) m T = .error e ↔
      ((∃ t ∈ T, isNonOverlapping t m = false) ∧ e = .valueError) ∨
      ((∀ t ∈ T, isNonOverlapping t m = true) ∧ n / nb < m ∧ e = .valueError) ∨
      ((∀ t ∈ T, isNonOverlapping t m = true) ∧ m ≤ n / nb ∧ (∃ t ∈ T, 2 ^ m ≤ t) ∧ e = .indexError) := by
  rw [notmImpl_error_iff]
  have hb := notm_blocks_ne_nil bits n nb h1 h2
  constructor
  · rintro (⟨h, he⟩ | ⟨h, h', _, he⟩ | ⟨h, h', _, h'', he⟩)
    · exact Or.inl ⟨h, he⟩
    · exact Or.inr (Or.inl ⟨h, h', he⟩)
    · refine Or.inr (Or.inr ⟨h, ?_, h'', he⟩)
      rcases Nat.lt_or_ge (n / nb) m with hc | hc
      · exact absurd ⟨hc, hb⟩ h'
      · exact hc
  · rintro (⟨h, he⟩ | ⟨h, h', he⟩ | ⟨h, h', h'', he⟩)
    · exact Or.inl ⟨h, he⟩
    · exact Or.inr (Or.inl ⟨h, h', hb, he⟩)
    · exact Or.inr (Or.inr ⟨h, fun hc => by omega, hb, h'', he⟩)

/-- the template list in use: the given one, or all non-overlapping templates of length m. -/
def notmTemplates (m : Nat) (ts : Option (List Nat)) : List Nat :=
  match ts with | some t => t | none => defaultTemplates m

/-- `NonOverlappingTemplateMatching(bits, n, blocks, m, templates)` with `m` given. -/
theorem nonOverlapping_given_error_iff (bits n nb m : Nat) (ts : Option (List Nat)) (e : PyErr) :
    nonOverlapping bits n nb (some m) ts = .error e ↔
      (nb = 0 ∧ e = .zeroDivision) ∨ (nb ≠ 0 ∧ n / nb = 0 ∧ e = .zeroDivision) ∨
      (nb ≠ 0 ∧ n / nb ≠ 0 ∧
        (((∃ t ∈ notmTemplates m ts, isNonOverlapping t m = false) ∧ e = .valueError) ∨
         ((∀ t ∈ notmTemplates m ts, isNonOverlapping t m = true) ∧ n / nb < m ∧ e = .valueError) ∨
         ((∀ t ∈ notmTemplates m ts, isNonOverlapping t m = true) ∧ m ≤ n / nb ∧
            (∃ t ∈ notmTemplates m ts, 2 ^ m ≤ t) ∧ e = .indexError))) := by
  unfold nonOverlapping
  by_cases h1 : nb = 0
  · rw [if_pos h1]
    simp only [Except.error.injEq]
    constructor
    · intro h; subst h; exact Or.inl ⟨h1, rfl⟩
    · rintro (⟨_, h⟩ | ⟨h, _⟩ | ⟨h, _⟩)
      · exact h.symm
      · exact absurd h1 h
      · exact absurd h1 h
  · rw [if_neg h1]
    dsimp only
    by_cases h2 : n / nb = 0
    · rw [if_pos h2]
      simp only [Except.error.injEq]
      constructor
      · intro h; subst h; exact Or.inr (Or.inl ⟨h1, h2, rfl⟩)
      · rintro (⟨h, _⟩ | ⟨_, _, h⟩ | ⟨_, h, _⟩)
        · exact absurd h h1
        · exact h.symm
        · exact absurd h2 h
    · rw [if_neg h2]
      cases ts <;>
      · dsimp only [notmTemplates]
        rw [notmImpl_top_error_iff bits n nb m _ h1 h2 e]
        constructor
        · intro h; exact Or.inr (Or.inr ⟨h1, h2, h⟩)
        · rintro (⟨h, _⟩ | ⟨_, h, _⟩ | ⟨_, _, h⟩)
          · exact absurd h h1
          · exact absurd h h2
          · exact h

theorem mapM_ok_length {α β} (f : α → Except PyErr β) : ∀ (l : List α) (r : List β),
    l.mapM f = .ok r → r.length = l.length
  | [], r, h => by
    simp [pure, Except.pure] at h; subst h; rfl
  | a :: l, r, h => by
    rw [List.mapM_cons] at h
    cases h1 : f a with
    | error e => rw [h1] at h; simp [bind, Except.bind] at h
    | ok b =>
      rw [h1] at h
      simp only [bind, Except.bind] at h
      cases h2 : List.mapM f l with
      | error e => rw [h2] at h; simp at h
      | ok bs =>
        rw [h2] at h
        simp only [pure, Except.pure, Except.ok.injEq] at h
        subst h
        simp [mapM_ok_length f l bs h2]

/-- parameters of a successful default run: the ladder value of the block size ⌊n / blocks⌋. -/
theorem nonOverlapping_default_ok (bits n nb : Nat) (o : NotmOut)
    (h : nonOverlapping bits n nb none none = .ok o) :
    nb ≠ 0 ∧ 4 ≤ n / nb ∧ notmM (n / nb) = some o.m ∧ o.blockSize = n / nb ∧
      o.templates = defaultTemplates o.m ∧ o.counts.length = n / (n / nb) := by
  unfold nonOverlapping at h
  by_cases h1 : nb = 0
  · simp [h1] at h
  · rw [if_neg h1] at h
    dsimp only at h
    cases hm : notmM (n / nb) with
    | none => rw [hm] at h; simp at h
    | some m =>
      rw [hm] at h
      dsimp only at h
      have hlt : ¬ n / nb < 4 := fun hc => by
        rw [(notmM_spec (n / nb)).1.mpr hc] at hm; cases hm
      unfold notmImpl at h
      split_ifs at h
      split at h
      · cases h
      · rename_i counts hc
        simp only [Except.ok.injEq] at h
        subst h
        have := mapM_ok_length _ _ _ hc
        simp only [List.length_map, chunks_length, bitList_length] at this
        exact ⟨h1, by omega, rfl, rfl, rfl, this⟩

end Paranoid.Nist
