/-
Proofs/NistStatsBits.lean — helper lemmas for Props/C12Stats.lean: the bit list of an integer under
shifting, masking, reversal and rotation; the blocks of `chunks (bitList bits n) M` as integers.
-/
import ParanoidModel.Model.NistStats
import ParanoidModel.Proofs.Nist
import ParanoidModel.Proofs.Nist2Runs
import ParanoidModel.Proofs.Nist2Serial
import ParanoidModel.Proofs.BitSeq
namespace Paranoid.NistStats
open Paranoid Paranoid.Nist

theorem bitsSmall_getElem? (n x i : Nat) :
    (bitsSmall n x)[i]? = if i < n then some (x.testBit i) else none := by
  rw [bitsSmall_testBit]
  by_cases h : i < n
  · simp [h]
  · simp [h]

theorem bitList_getElem? (bits n i : Nat) :
    (bitList bits n)[i]? = if i < n then some (bits.testBit i) else none := by
  rw [bitList_eq, bitsSmall_getElem?]

theorem bitsSmall_drop (n a x : Nat) : (bitsSmall n x).drop a = bitsSmall (n - a) (x >>> a) := by
  apply List.ext_getElem?
  intro i
  rw [List.getElem?_drop, bitsSmall_getElem?, bitsSmall_getElem?, Nat.testBit_shiftRight]
  by_cases h : a + i < n
  · rw [if_pos h, if_pos (by omega)]
  · rw [if_neg h, if_neg (by omega)]

theorem bitsSmall_take (n k x : Nat) : (bitsSmall n x).take k = bitsSmall (min k n) x := by
  apply List.ext_getElem?
  intro i
  rw [List.getElem?_take, bitsSmall_getElem?, bitsSmall_getElem?]
  by_cases h : i < k
  · rw [if_pos h]
    by_cases h2 : i < n
    · rw [if_pos h2, if_pos (by omega)]
    · rw [if_neg h2, if_neg (by omega)]
  · rw [if_neg h, if_neg (by omega)]

theorem bitsSmall_congr (n x y : Nat) (h : ∀ i < n, x.testBit i = y.testBit i) :
    bitsSmall n x = bitsSmall n y := by
  rw [bitsSmall_testBit, bitsSmall_testBit]
  apply List.map_congr_left
  intro i hi
  exact h i (List.mem_range.mp hi)

/-- the `M` bits of block `i` (positions `i·M … i·M + M − 1`, in this order). -/
theorem block_bits (bits n M i : Nat) (h : (i + 1) * M ≤ n) :
    ((bitList bits n).drop (i * M)).take M = (List.range M).map (fun j => bits.testBit (i * M + j)) := by
  rw [bitList_eq, bitsSmall_drop, bitsSmall_take, bitsSmall_testBit]
  have : min M (n - i * M) = M := by
    rw [Nat.add_mul] at h; omega
  rw [this]
  apply List.map_congr_left
  intro j _
  rw [Nat.testBit_shiftRight]

theorem natOfBits_range_testBit (x M : Nat) :
    natOfBits ((List.range M).map (fun j => x.testBit j)) = x % 2 ^ M := by
  rw [← bitsSmall_testBit, natOfBits_bitsSmall]

/-- block `i` as an integer is `(bits >> i·M) & (2^M − 1)` (`util.SplitSequence`). -/
theorem block_int (bits n M i : Nat) (h : (i + 1) * M ≤ n) :
    natOfBits (((bitList bits n).drop (i * M)).take M) = blockInt bits M i := by
  rw [bitList_eq, bitsSmall_drop, bitsSmall_take]
  have : min M (n - i * M) = M := by
    rw [Nat.add_mul] at h; omega
  rw [this, natOfBits_bitsSmall]
  rfl

theorem chunks_bitList (bits n M : Nat) :
    chunks (bitList bits n) M =
      (List.range (n / M)).map (fun i => (List.range M).map (fun j => bits.testBit (i * M + j))) := by
  rw [chunks_spec, bitList_length]
  apply List.map_congr_left
  intro i hi
  have hi' := List.mem_range.mp hi
  by_cases hM : M = 0
  · subst hM; simp at hi'
  · apply block_bits
    have : (i + 1) * M ≤ (n / M) * M := Nat.mul_le_mul_right M hi'
    have h2 : n / M * M ≤ n := Nat.div_mul_le_self n M
    omega

theorem chunks_bitList_int (bits n M : Nat) :
    (chunks (bitList bits n) M).map natOfBits = (List.range (n / M)).map (blockInt bits M) := by
  rw [chunks_spec, bitList_length, List.map_map]
  apply List.map_congr_left
  intro i hi
  have hi' := List.mem_range.mp hi
  by_cases hM : M = 0
  · subst hM; simp at hi'
  · apply block_int
    have : (i + 1) * M ≤ (n / M) * M := Nat.mul_le_mul_right M hi'
    have h2 : n / M * M ≤ n := Nat.div_mul_le_self n M
    omega

/-! ### reversal -/

/-- the bit list of the reversed integer (`BitDefs.reverseDef`, the value of `util.ReverseBits`) is the
reversed bit list. -/
theorem bitList_reverseDef (bits n : Nat) :
    bitList (BitDefs.reverseDef bits n) n = (bitList bits n).reverse := by
  apply List.ext_getElem?
  intro i
  rw [bitList_getElem?]
  by_cases h : i < n
  · rw [if_pos h, List.getElem?_reverse (by rw [bitList_length]; exact h), bitList_length,
      bitList_getElem?, if_pos (by omega)]
    unfold BitDefs.reverseDef
    rw [BitSeq.testBit_ofBits]
    simp [h]
  · rw [if_neg h]
    symm
    apply List.getElem?_eq_none
    rw [List.length_reverse, bitList_length]; omega

/-! ### rotation -/

theorem rotateInt_testBit (bits n k i : Nat) (hb : bits < 2 ^ n) (hn : 0 < n) (hi : i < n) :
    (rotateInt bits n k).testBit i =
      if i < n - k % n then bits.testBit (k % n + i) else bits.testBit (i - (n - k % n)) := by
  unfold rotateInt
  rw [if_neg (by omega), Nat.testBit_or, Nat.testBit_shiftRight, Nat.testBit_shiftLeft,
    Nat.testBit_mod_two_pow]
  have hj : k % n < n := Nat.mod_lt _ hn
  by_cases h : i < n - k % n
  · rw [if_pos h]
    have : ¬ (i ≥ n - k % n) := by omega
    simp [this]
  · rw [if_neg h]
    have h1 : bits.testBit (k % n + i) = false := by
      apply Nat.testBit_lt_two_pow
      exact Nat.lt_of_lt_of_le hb (Nat.pow_le_pow_right (by omega) (by omega))
    have h2 : i - (n - k % n) < k % n := by omega
    have h3 : i ≥ n - k % n := by omega
    simp [h1, h2, h3]

/-- the bit list of the rotated integer is the rotated bit list. -/
theorem bitList_rotateInt (bits n k : Nat) (hb : bits < 2 ^ n) :
    bitList (rotateInt bits n k) n = (bitList bits n).rotate k := by
  by_cases hn : n = 0
  · subst hn
    simp [bitList_eq, bitsSmall]
  have hn' : 0 < n := Nat.pos_of_ne_zero hn
  have hj : k % n < n := Nat.mod_lt _ hn'
  have hrot : (bitList bits n).rotate k = (bitList bits n).rotate (k % n) := by
    have := List.rotate_mod (bitList bits n) k
    rw [bitList_length] at this
    exact this.symm
  rw [hrot, List.rotate_eq_drop_append_take (by rw [bitList_length]; omega)]
  apply List.ext_getElem?
  intro i
  rw [bitList_getElem?]
  by_cases hi : i < n
  · rw [if_pos hi, rotateInt_testBit bits n k i hb hn' hi]
    by_cases h : i < n - k % n
    · rw [if_pos h, List.getElem?_append_left (by rw [List.length_drop, bitList_length]; exact h),
        List.getElem?_drop, bitList_getElem?, if_pos (by omega)]
    · rw [if_neg h, List.getElem?_append_right (by rw [List.length_drop, bitList_length]; omega),
        List.length_drop, bitList_length, List.getElem?_take, if_pos (by omega), bitList_getElem?,
        if_pos (by omega)]
  · rw [if_neg hi]
    symm
    apply List.getElem?_eq_none
    rw [List.length_append, List.length_drop, List.length_take, bitList_length]; omega

end Paranoid.NistStats
