/-
Proofs/NistStatsExt.lean — helper lemmas for Props/C12Stats.lean, extended_nist_suite:
`LargeBinaryMatrixRank` (which sub-matrix, which sizes) and `LinearComplexityScatter` (which interleaved
sequences, of which length).
-/
import ParanoidModel.Proofs.NistStatsLc
namespace Paranoid.NistStats
open Paranoid Paranoid.Nist

/-! ### LargeBinaryMatrixRank -/

/-- the matrix the model eliminates is `SplitSequence(bits & (2^(s²) − 1), s², s)`. -/
theorem largeRank_matrix (bits n s : Nat) (h : s * s ≤ n) :
    (chunks ((bitList bits n).take (s * s)) s).map natOfBits = largeRankMatrix bits s := by
  have ht : (bitList bits n).take (s * s) = bitList bits (s * s) := by
    rw [bitList_eq, bitList_eq, bitsSmall_take, Nat.min_eq_left h]
  rw [ht, chunks_bitList_int]
  unfold largeRankMatrix
  by_cases hs : s = 0
  · subst hs; simp
  · rw [Nat.mul_div_cancel _ (Nat.pos_of_ne_zero hs)]

theorem largeRankMatrix_length (bits s : Nat) : (largeRankMatrix bits s).length = s := by
  unfold largeRankMatrix; simp

/-- entry (i, c) of the matrix is bit i·s + c of the string. -/
theorem largeRankMatrix_entry (bits s i c : Nat) (hi : i < s) :
    ((largeRankMatrix bits s)[i]?.map (fun row => row.testBit c)) =
      some (decide (c < s) && bits.testBit (i * s + c)) := by
  unfold largeRankMatrix blockInt
  rw [List.getElem?_map, List.getElem?_range hi]
  simp only [Option.map_some, Nat.testBit_mod_two_pow, Nat.testBit_shiftRight]

theorem sq_le_sq_mul (size j : Nat) : size * size ≤ size * 2 ^ j * (size * 2 ^ j) := by
  have h1 : 1 ≤ 2 ^ j := Nat.one_le_two_pow
  have h2 : size ≤ size * 2 ^ j := Nat.le_mul_of_pos_right size h1
  exact Nat.mul_le_mul h2 h2

theorem largeRankLoop_get (l : List Bool) (n : Nat) :
    ∀ (f size j : Nat), n < size * size * 4 ^ f →
      (largeRankLoop l n f size)[j]? =
        if size * 2 ^ j * (size * 2 ^ j) ≤ n then
          some (size * 2 ^ j, binaryRank ((chunks (l.take (size * 2 ^ j * (size * 2 ^ j))) (size * 2 ^ j)).map natOfBits))
        else none
  | 0, size, j, h => by
    have := sq_le_sq_mul size j
    rw [if_neg (by simp at h; omega)]
    rfl
  | f + 1, size, j, h => by
    unfold largeRankLoop
    by_cases hs : size * size ≤ n
    · rw [if_pos hs]
      cases j with
      | zero => simp [hs]
      | succ j =>
        rw [List.getElem?_cons_succ, largeRankLoop_get l n f (2 * size) j (by
          rw [Nat.pow_succ] at h
          have : 2 * size * (2 * size) * 4 ^ f = size * size * (4 ^ f * 4) := by ring
          omega)]
        have e : 2 * size * 2 ^ j = size * 2 ^ (j + 1) := by rw [Nat.pow_succ]; ring
        rw [e]
    · rw [if_neg hs]
      have := sq_le_sq_mul size j
      rw [if_neg (by omega)]
      rfl

theorem lt_four_pow (n : Nat) : n < 64 * 64 * 4 ^ n := by
  have h1 : n < 2 ^ n := Nat.lt_two_pow_self
  have h2 : 2 ^ n ≤ 4 ^ n := Nat.pow_le_pow_left (by omega) n
  have h3 : 4 ^ n ≤ 64 * 64 * 4 ^ n := Nat.le_mul_of_pos_left _ (by omega)
  omega

/-- ★ `LargeBinaryMatrixRank`: entry j of the result exists iff (64·2^j)² ≤ n, and is the pair
(size, GF(2)-rank of the size × size matrix of the first size² bits), size = 64·2^j. -/
theorem largeRank_get (bits n : Nat) (res : List (Nat × Nat)) (h : largeBinaryMatrixRank bits n = .ok res)
    (j : Nat) :
    res[j]? = if 64 * 2 ^ j * (64 * 2 ^ j) ≤ n
      then some (64 * 2 ^ j, binaryRank (largeRankMatrix bits (64 * 2 ^ j))) else none := by
  unfold largeBinaryMatrixRank at h
  by_cases h0 : n < 64 * 64
  · rw [if_pos h0] at h; cases h
  · rw [if_neg h0] at h
    simp only [Except.ok.injEq] at h
    rw [← h, largeRankLoop_get _ n n 64 j (lt_four_pow n)]
    by_cases hs : 64 * 2 ^ j * (64 * 2 ^ j) ≤ n
    · rw [if_pos hs, if_pos hs, largeRank_matrix bits n _ hs]
    · rw [if_neg hs, if_neg hs]

/-! ### LinearComplexityScatter -/

theorem natOfBits_testBit (l : List Bool) (t : Nat) : (natOfBits l).testBit t = l.getD t false := by
  by_cases ht : t < l.length
  · have h := bitsSmall_natOfBits l
    have h2 := bitsSmall_getElem? l.length (natOfBits l) t
    rw [h, if_pos ht] at h2
    rw [List.getD_eq_getElem?_getD, h2]
    rfl
  · have hlt := natOfBits_lt l
    have : (natOfBits l).testBit t = false := by
      apply Nat.testBit_lt_two_pow
      exact Nat.lt_of_lt_of_le hlt (Nat.pow_le_pow_right (by omega) (by omega))
    rw [this, List.getD_eq_getElem?_getD, List.getElem?_eq_none (by omega)]
    rfl

theorem scatterSeqInt_testBit (bits step i size t : Nat) :
    (scatterSeqInt bits step i size).testBit t = (decide (t < size) && bits.testBit (i + step * t)) := by
  unfold scatterSeqInt
  rw [natOfBits_testBit, List.getD_eq_getElem?_getD, List.getElem?_map]
  by_cases ht : t < size
  · rw [List.getElem?_range ht]; simp [ht]
  · rw [List.getElem?_eq_none (by simp; omega)]; simp [ht]

theorem scatterSeqInt_lt (bits step i size : Nat) : scatterSeqInt bits step i size < 2 ^ size := by
  unfold scatterSeqInt
  have := natOfBits_lt ((List.range size).map (fun t => bits.testBit (i + step * t)))
  simpa using this

/-- the bits of interleaved sequence i, in the order Berlekamp–Massey reads them. -/
theorem bitsOf_scatterSeqInt (bits step i size : Nat) :
    Lfsr.bitsOf (scatterSeqInt bits step i size) size =
      (List.range size).map (fun t => bits.testBit (i + step * t)) := by
  unfold Lfsr.bitsOf
  apply List.map_congr_left
  intro t ht
  rw [scatterSeqInt_testBit]
  simp [List.mem_range.mp ht]

/-- ★ the per-sequence value is the length of the shortest LFSR generating bits i, i + step, i + 2·step, … -/
theorem scatterComplexities_eq (bits n step : Nat) :
    scatterComplexities bits n step =
      (List.range step).map (fun i =>
        Lfsr.shortestLfsr ((List.range ((n + step - 1 - i) / step)).map (fun t => bits.testBit (i + step * t)))) := by
  unfold scatterComplexities
  apply List.map_congr_left
  intro i _
  rw [bmLength_eq_textbookL, Lfsr.textbookL_eq_shortestLfsr, bitsOf_scatterSeqInt]

/-- ceiling division: the positions i + step·t, t < ⌈(n − i)/step⌉, are exactly those below n. -/
theorem scatter_index (n step i t : Nat) (hs : 0 < step) :
    t < (n + step - 1 - i) / step ↔ i + step * t < n := by
  rw [Nat.lt_div_iff_mul_lt hs]
  constructor
  · intro h; rw [Nat.mul_comm] at h; omega
  · intro h; rw [Nat.mul_comm]; omega

/-- what `util.Scatter` returns (C15: `IsScatter`) for a well-formed n-bit string is, stream by stream,
the integer the model feeds to Berlekamp–Massey. -/
theorem isScatter_stream (b n step : Nat) (res : List Nat) (hb : b < 2 ^ n) (hs : 0 < step)
    (h : BitDefs.IsScatter b step res) (i : Nat) (hi : i < res.length) :
    res[i] = scatterSeqInt b step i ((n + step - 1 - i) / step) := by
  apply Nat.eq_of_testBit_eq
  intro t
  rw [h.2 i hi t, scatterSeqInt_testBit]
  by_cases ht : t < (n + step - 1 - i) / step
  · simp [ht]
  · have hge : ¬ i + step * t < n := fun hc => ht ((scatter_index n step i t hs).mpr hc)
    have : b.testBit (i + step * t) = false := by
      apply Nat.testBit_lt_two_pow
      exact Nat.lt_of_lt_of_le hb (Nat.pow_le_pow_right (by omega) (by omega))
    simp [ht, this]

/-- only the first n bits matter. -/
theorem scatterSeqInt_congr (b bits n step i : Nat) (hs : 0 < step)
    (h : ∀ j < n, b.testBit j = bits.testBit j) :
    scatterSeqInt b step i ((n + step - 1 - i) / step) = scatterSeqInt bits step i ((n + step - 1 - i) / step) := by
  apply Nat.eq_of_testBit_eq
  intro t
  rw [scatterSeqInt_testBit, scatterSeqInt_testBit]
  by_cases ht : t < (n + step - 1 - i) / step
  · rw [h _ ((scatter_index n step i t hs).mp ht)]
  · simp [ht]

theorem scatterSum_spec : ∀ (ss cs : List Nat) (q : Nat), scatterSum ss cs = .ok q →
    ∃ xs : List Nat, List.Forall₂ (fun (sc : Nat × Nat) x => lfsrNegLogProb sc.1 sc.2 = .ok x) (ss.zip cs) xs ∧
      q = xs.sum
  | [], cs, q, h => by
    simp only [scatterSum, Except.ok.injEq] at h
    exact ⟨[], by simp, by simp [← h]⟩
  | s :: ss, [], q, h => by
    simp only [scatterSum, Except.ok.injEq] at h
    exact ⟨[], by simp, by simp [← h]⟩
  | s :: ss, c :: cs, q, h => by
    unfold scatterSum at h
    cases ha : lfsrNegLogProb s c with
    | error e => rw [ha] at h; cases h
    | ok a =>
      cases hb : scatterSum ss cs with
      | error e => rw [ha, hb] at h; cases h
      | ok b =>
        rw [ha, hb] at h
        simp only [Except.ok.injEq] at h
        obtain ⟨xs, hx, hs⟩ := scatterSum_spec ss cs b hb
        exact ⟨a :: xs, by rw [List.zip_cons_cons]; exact List.Forall₂.cons ha hx, by simp [← h, hs]⟩

theorem forall2_sum_ge' : ∀ (ps : List (Nat × Nat)) (xs : List Nat),
    List.Forall₂ (fun (sc : Nat × Nat) x => lfsrNegLogProb sc.1 sc.2 = .ok x) ps xs → ps.length ≤ xs.sum
  | _, _, List.Forall₂.nil => by simp
  | _, _, List.Forall₂.cons h t => by
    have := lfsrNegLogProb_pos _ _ _ h
    have := forall2_sum_ge' _ _ t
    simp only [List.length_cons, List.sum_cons]; omega

theorem scatterComplexities_length (bits n step : Nat) : (scatterComplexities bits n step).length = step := by
  unfold scatterComplexities; simp

theorem scatterSizes_length (n step : Nat) : (scatterSizes n step).length = step := by
  unfold scatterSizes; simp

end Paranoid.NistStats
