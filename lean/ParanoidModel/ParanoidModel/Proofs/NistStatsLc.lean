/-
Proofs/NistStatsLc.lean — helper lemmas for Props/C12Stats.lean, NIST 2.10 (linear complexity):
the integer binning of `LinearComplexityImpl` is NIST's binning of T = (−1)^M (L − μ) + 2/9, the χ² with the
shipped table is NIST's χ², the per-block values are shortest-LFSR lengths.
-/
import ParanoidModel.Proofs.NistStatsBits
import ParanoidModel.Proofs.NistErrors
import ParanoidModel.Proofs.BM
namespace Paranoid.NistStats
open Paranoid Paranoid.Nist

theorem chiSquare_eq_chiSq (v : List Nat) (pi : List ℚ) : chiSquare v pi = chiSq v pi := rfl

/-! ### T and its classes -/

/-- an integer plus a perturbation in (−½, ½) is ≤ j + ½ iff the integer is ≤ j. -/
theorem int_add_le_half (z j : ℤ) (δ : ℚ) (h1 : -1 / 2 < δ) (h2 : δ < 1 / 2) :
    ((z : ℚ) + δ ≤ (j : ℚ) + 1 / 2 ↔ z ≤ j) := by
  constructor
  · intro h
    have h3 : ((z - j : ℤ) : ℚ) < 1 := by push_cast; linarith
    have h4 : z - j < 1 := by exact_mod_cast h3
    omega
  · intro h
    have : (z : ℚ) ≤ j := by exact_mod_cast h
    linarith

/-- the class of an integer deviation: ≤ −3, −2, −1, 0, 1, 2, ≥ 3. -/
def classOfInt (z : ℤ) : Nat :=
  if z ≤ -3 then 0 else if z ≤ -2 then 1 else if z ≤ -1 then 2 else if z ≤ 0 then 3
  else if z ≤ 1 then 4 else if z ≤ 2 then 5 else 6

theorem nistLcClass_shift (z : ℤ) (δ : ℚ) (h1 : -1 / 2 < δ) (h2 : δ < 1 / 2) :
    nistLcClass ((z : ℚ) + δ) = classOfInt z := by
  have e : ∀ (j : ℤ) (c : ℚ), c = (j : ℚ) + 1 / 2 → (((z : ℚ) + δ ≤ c) ↔ z ≤ j) := by
    intro j c hc; rw [hc]; exact int_add_le_half z j δ h1 h2
  unfold nistLcClass classOfInt
  simp only [e (-3) (-5 / 2) (by norm_num), e (-2) (-3 / 2) (by norm_num), e (-1) (-1 / 2) (by norm_num),
    e 0 (1 / 2) (by norm_num), e 1 (3 / 2) (by norm_num), e 2 (5 / 2) (by norm_num)]

theorem nistLcClass_le (t : ℚ) : nistLcClass t ≤ 6 := by
  unfold nistLcClass
  split_ifs <;> omega

/-- ε = (M/3 + 2/9)/2^M lies in (0, ½) for every M. -/
theorem lcEps_bounds (M : Nat) :
    0 < ((M : ℚ) / 3 + 2 / 9) / (2 : ℚ) ^ M ∧ ((M : ℚ) / 3 + 2 / 9) / (2 : ℚ) ^ M < 1 / 2 := by
  have h : (M : ℚ) + 1 ≤ (2 : ℚ) ^ M := by
    have := Nat.lt_two_pow_self (n := M)
    exact_mod_cast this
  have hp : (0 : ℚ) < (2 : ℚ) ^ M := by positivity
  have hM : (0 : ℚ) ≤ (M : ℚ) := by positivity
  constructor
  · positivity
  · rw [div_lt_iff₀ hp]; linarith

/-- M even: T = (L − M/2) + ε. -/
theorem lcT_even (k L : Nat) :
    lcT (2 * k) L = (((L : ℤ) - (k : ℤ) : ℤ) : ℚ) + (((2 * k : Nat) : ℚ) / 3 + 2 / 9) / (2 : ℚ) ^ (2 * k) := by
  unfold lcT lcMu
  have h1 : (-1 : ℚ) ^ (2 * k) = 1 := by rw [pow_mul]; simp
  have h2 : (-1 : ℚ) ^ (2 * k + 1) = -1 := by rw [pow_succ, h1]; simp
  rw [h1, h2]
  push_cast
  ring

/-- M odd: T = −(L − (M+1)/2) − ε. -/
theorem lcT_odd (k L : Nat) :
    lcT (2 * k + 1) L =
      ((((k : ℤ) + 1 - (L : ℤ)) : ℤ) : ℚ) + -((((2 * k + 1 : Nat) : ℚ) / 3 + 2 / 9) / (2 : ℚ) ^ (2 * k + 1)) := by
  unfold lcT lcMu
  have h0 : (-1 : ℚ) ^ (2 * k) = 1 := by rw [pow_mul]; simp
  have h1 : (-1 : ℚ) ^ (2 * k + 1) = -1 := by rw [pow_succ, h0]; simp
  have h2 : (-1 : ℚ) ^ (2 * k + 1 + 1) = 1 := by rw [pow_succ, h1]; simp
  rw [h1, h2]
  push_cast
  ring

/-- ★ the integer criterion of the code (`length <= median - 3` / `>= median + 3` / `length - median + 3`,
`median = (m + 1) // 2`) is NIST's class of T for even M and its mirror image for odd M. -/
theorem lcClass_eq_nist (M L : Nat) :
    lcClass ((M + 1) / 2) L =
      if M % 2 = 0 then nistLcClass (lcT M L) else 6 - nistLcClass (lcT M L) := by
  rcases Nat.even_or_odd' M with ⟨k, rfl | rfl⟩
  · rw [if_pos (by omega), lcT_even, nistLcClass_shift _ _ (by have := (lcEps_bounds (2 * k)).1; linarith)
      (lcEps_bounds (2 * k)).2]
    have hm : (2 * k + 1) / 2 = k := by omega
    rw [hm]
    unfold lcClass classOfInt
    split_ifs <;> omega
  · rw [if_neg (by omega), lcT_odd, nistLcClass_shift _ _
      (by have := (lcEps_bounds (2 * k + 1)).2; linarith) (by have := (lcEps_bounds (2 * k + 1)).1; linarith)]
    have hm : (2 * k + 1 + 1) / 2 = k + 1 := by omega
    rw [hm]
    unfold lcClass classOfInt
    split_ifs <;> omega

/-- T is never on a class boundary j + ½ (so it is immaterial which side of each interval is closed). -/
theorem lcT_off_boundary (M L : Nat) (j : ℤ) : lcT M L ≠ (j : ℚ) + 1 / 2 := by
  have key : ∀ (z : ℤ) (δ : ℚ), -1 / 2 < δ → δ < 1 / 2 → (z : ℚ) + δ ≠ (j : ℚ) + 1 / 2 := by
    intro z δ h1 h2 he
    have hz : z ≤ j := (int_add_le_half z j δ h1 h2).mp he.le
    have : (z : ℚ) ≤ j := by exact_mod_cast hz
    linarith
  rcases Nat.even_or_odd' M with ⟨k, rfl | rfl⟩
  · rw [lcT_even]
    exact key _ _ (by have := (lcEps_bounds (2 * k)).1; linarith) (lcEps_bounds (2 * k)).2
  · rw [lcT_odd]
    exact key _ _ (by have := (lcEps_bounds (2 * k + 1)).2; linarith)
      (by have := (lcEps_bounds (2 * k + 1)).1; linarith)

/-! ### histograms -/

theorem count_map_sub (g : Nat → Nat) (hg : ∀ x, g x ≤ 6) (i : Nat) (hi : i ≤ 6) :
    ∀ (l : List Nat), (l.map (fun x => 6 - g x)).count i = (l.map g).count (6 - i)
  | [] => rfl
  | a :: l => by
    rw [List.map_cons, List.map_cons, List.count_cons, List.count_cons, count_map_sub g hg i hi l]
    have := hg a
    have e : (6 - g a = i) ↔ (g a = 6 - i) := by omega
    simp only [beq_iff_eq, e]

theorem range7 : List.range 7 = [0, 1, 2, 3, 4, 5, 6] := by decide

/-- the histogram `v` of `LinearComplexityImpl` is NIST's ν (M even) or ν reversed (M odd). -/
theorem lcHist_eq_nist (M : Nat) (cs : List Nat) :
    (tally 7 (cs.map (lcClass ((M + 1) / 2)))).toList =
      if M % 2 = 0 then nistLcHist M cs else (nistLcHist M cs).reverse := by
  rw [tally_spec]
  unfold nistLcHist
  have hmap : cs.map (lcClass ((M + 1) / 2)) =
      cs.map (fun L => if M % 2 = 0 then nistLcClass (lcT M L) else 6 - nistLcClass (lcT M L)) := by
    apply List.map_congr_left
    intro L _
    exact lcClass_eq_nist M L
  rw [hmap]
  by_cases hM : M % 2 = 0
  · simp only [hM, if_true]
  · simp only [hM, if_false]
    have hc : ∀ i ≤ 6, (cs.map (fun L => 6 - nistLcClass (lcT M L))).count i =
        (cs.map (fun L => nistLcClass (lcT M L))).count (6 - i) := fun i hi =>
      count_map_sub (fun L => nistLcClass (lcT M L)) (fun x => nistLcClass_le _) i hi cs
    rw [range7]
    simp only [List.map_cons, List.map_nil, List.reverse_cons, List.reverse_nil, List.nil_append,
      List.cons_append]
    rw [hc 0 (by omega), hc 1 (by omega), hc 2 (by omega), hc 3 (by omega), hc 4 (by omega), hc 5 (by omega),
      hc 6 (by omega)]

theorem nistLcHist_length (M : Nat) (cs : List Nat) : (nistLcHist M cs).length = 7 := by
  unfold nistLcHist; simp

/-- every block is counted in exactly one class. -/
theorem nistLcHist_sum (M : Nat) (cs : List Nat) : (nistLcHist M cs).sum = cs.length := by
  unfold nistLcHist
  induction cs with
  | nil => simp [range7]
  | cons a l ih =>
    rw [range7] at ih ⊢
    simp only [List.map_cons, List.map_nil, List.sum_cons, List.sum_nil, List.count_cons, List.length_cons] at ih ⊢
    have := nistLcClass_le (lcT M a)
    generalize nistLcClass (lcT M a) = c at this
    have hc : c = 0 ∨ c = 1 ∨ c = 2 ∨ c = 3 ∨ c = 4 ∨ c = 5 ∨ c = 6 := by omega
    rcases hc with h | h | h | h | h | h | h <;> subst h <;> simp <;> omega

/-! ### χ² -/

theorem chiSq_reverse (v : List Nat) (pi : List ℚ) (h : v.length = pi.length) :
    chiSq v.reverse pi.reverse = chiSq v pi := by
  have hz : v.reverse.zip pi.reverse = (v.zip pi).reverse := by
    unfold List.zip; exact (List.reverse_zipWith h).symm
  unfold chiSq
  rw [hz, List.map_reverse, List.sum_reverse, List.sum_reverse]

/-- ★ the χ² of the code (histogram `v`, table `pi` chosen by the parity of M) is NIST's χ² = Σ (νᵢ − N πᵢ)²/(N πᵢ). -/
theorem lcChi_eq_nist (M : Nat) (cs : List Nat) :
    chiSquare (tally 7 (cs.map (lcClass ((M + 1) / 2)))).toList (codeLcPi M) =
      chiSquare (nistLcHist M cs) nistLcPi := by
  rw [lcHist_eq_nist]
  unfold codeLcPi
  by_cases hM : M % 2 = 0
  · simp only [hM, if_true]
  · simp only [hM, if_false]
    rw [chiSquare_eq_chiSq, chiSquare_eq_chiSq]
    apply chiSq_reverse
    rw [nistLcHist_length]; rfl

/-! ### the blocks' linear complexities -/

theorem bitsOf_eq_range (s len : Nat) : Lfsr.bitsOf s len = (List.range len).map (fun j => s.testBit j) := rfl

theorem bitsOf_blockInt (bits M i : Nat) :
    Lfsr.bitsOf (blockInt bits M i) M = (List.range M).map (fun j => bits.testBit (i * M + j)) := by
  unfold Lfsr.bitsOf blockInt
  apply List.map_congr_left
  intro j hj
  rw [List.mem_range] at hj
  rw [Nat.testBit_mod_two_pow, Nat.testBit_shiftRight]
  simp [hj]

/-- ★ the per-block value is the length of the shortest LFSR generating the block
`bits_{i·M}, …, bits_{i·M+M−1}` (Berlekamp–Massey is correct: C14). -/
theorem blockComplexities_eq (bits n M : Nat) :
    blockComplexities bits n M =
      (List.range (n / M)).map (fun i =>
        Lfsr.shortestLfsr ((List.range M).map (fun j => bits.testBit (i * M + j)))) := by
  unfold blockComplexities
  apply List.map_congr_left
  intro i _
  rw [bmLength_eq_textbookL, Lfsr.textbookL_eq_shortestLfsr, bitsOf_blockInt]

theorem shortestLfsr_le_length (s : List Bool) : Lfsr.shortestLfsr s ≤ s.length := by
  have h := (Lfsr.shortestLfsr_isShortest s).2 (List.replicate s.length false)
    (Lfsr.generates_of_length_ge _ _ (by simp))
  simpa using h

theorem blockComplexities_le (bits n M : Nat) : ∀ c ∈ blockComplexities bits n M, c ≤ M := by
  rw [blockComplexities_eq]
  intro c hc
  obtain ⟨i, _, rfl⟩ := List.mem_map.mp hc
  have := shortestLfsr_le_length ((List.range M).map (fun j => bits.testBit (i * M + j)))
  simpa using this

theorem blockComplexities_length (bits n M : Nat) : (blockComplexities bits n M).length = n / M := by
  unfold blockComplexities; simp

/-! ### q = −Σ LfsrLogProbability -/

theorem lfsrNegLogProb_pos (n c x : Nat) (h : lfsrNegLogProb n c = .ok x) : 1 ≤ x := by
  unfold lfsrNegLogProb at h
  split_ifs at h <;> cases h <;> omega

theorem sumNegLogProb_spec (m : Nat) : ∀ (cs : List Nat) (q : Nat), sumNegLogProb m cs = .ok q →
    ∃ xs : List Nat, List.Forall₂ (fun c x => lfsrNegLogProb m c = .ok x) cs xs ∧ q = xs.sum
  | [], q, h => by
    simp only [sumNegLogProb, Except.ok.injEq] at h
    exact ⟨[], List.Forall₂.nil, by simp [← h]⟩
  | c :: rest, q, h => by
    unfold sumNegLogProb at h
    cases ha : lfsrNegLogProb m c with
    | error e => rw [ha] at h; cases h
    | ok a =>
      cases hb : sumNegLogProb m rest with
      | error e => rw [ha, hb] at h; cases h
      | ok b =>
        rw [ha, hb] at h
        simp only [Except.ok.injEq] at h
        obtain ⟨xs, hx, hs⟩ := sumNegLogProb_spec m rest b hb
        exact ⟨a :: xs, List.Forall₂.cons ha hx, by simp [← h, hs]⟩

theorem forall2_sum_ge (m : Nat) : ∀ (cs xs : List Nat),
    List.Forall₂ (fun c x => lfsrNegLogProb m c = .ok x) cs xs → cs.length ≤ xs.sum
  | _, _, List.Forall₂.nil => by simp
  | _, _, List.Forall₂.cons h t => by
    have := lfsrNegLogProb_pos _ _ _ h
    have := forall2_sum_ge m _ _ t
    simp only [List.length_cons, List.sum_cons]; omega

theorem linearComplexityImpl_ok (m : Nat) (cs : List Nat) (o : LinCompOut)
    (h : linearComplexityImpl m cs = .ok o) :
    cs ≠ [] ∧ o.blockSize = m ∧ o.nblocks = cs.length ∧
      o.hist = (tally 7 (cs.map (lcClass ((m + 1) / 2)))).toList ∧ sumNegLogProb m cs = .ok o.q := by
  unfold linearComplexityImpl at h
  by_cases he : cs.isEmpty = true
  · rw [if_pos he] at h; cases h
  · rw [if_neg he] at h
    cases hq : sumNegLogProb m cs with
    | error e => rw [hq] at h; cases h
    | ok q =>
      rw [hq] at h
      simp only [Except.ok.injEq] at h
      subst h
      refine ⟨?_, rfl, rfl, rfl, rfl⟩
      intro hc; subst hc; simp at he

theorem linearComplexity_ok (n bs : Nat) (cs : List Nat) (o : LinCompOut)
    (h : Nist.linearComplexity n bs cs = .ok o) :
    10 ≤ bs ∧ bs * 200 ≤ n ∧ linearComplexityImpl bs cs = .ok o := by
  unfold Nist.linearComplexity at h
  by_cases h1 : bs < 10
  · rw [if_pos h1] at h; cases h
  · rw [if_neg h1] at h
    by_cases h2 : bs * 200 > n
    · rw [if_pos h2] at h; cases h
    · rw [if_neg h2] at h
      exact ⟨by omega, by omega, h⟩

end Paranoid.NistStats
