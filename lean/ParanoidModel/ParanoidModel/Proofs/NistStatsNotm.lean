/-
Proofs/NistStatsNotm.lean — helper lemmas for Props/C12Stats.lean, NIST 2.7 (non-overlapping template
matching): for a template that cannot overlap itself the number of ALL occurrences (what the
implementation reads off `FrequencyCount(block, n, m, wrap=False)`) equals the number of hits of NIST's scan
(slide by 1 after a miss, by m after a hit).
-/
import ParanoidModel.Proofs.NistStatsBits
import ParanoidModel.Proofs.NistErrors
namespace Paranoid.NistStats
open Paranoid Paranoid.Nist

/-- number of positions p ≤ |l| − m at which the m-bit window has value t (0 when the block is shorter
than the template). -/
def occCount (l : List Bool) (m t : Nat) : Nat :=
  if l.length < m then 0
  else ((List.range (l.length - m + 1)).map (fun p => natOfBits ((l.drop p).take m))).count t

theorem natOfBits_drop : ∀ (l : List Bool) (d : Nat), natOfBits (l.drop d) = natOfBits l >>> d
  | l, 0 => by simp
  | [], d + 1 => by simp [natOfBits]
  | b :: l, d + 1 => by
    rw [List.drop_succ_cons, natOfBits_drop l d, Nat.shiftRight_succ_inside, natOfBits_cons_div]

/-- a window at position 0 and one at position d, 1 ≤ d < m, cannot both carry a non-overlapping
template. -/
theorem no_overlap (l : List Bool) (m t d : Nat) (hno : isNonOverlapping t m = true)
    (hd1 : 1 ≤ d) (hdm : d < m) (h0 : natOfBits (l.take m) = t) (hd : natOfBits ((l.drop d).take m) = t) :
    False := by
  have e1 : t >>> d = natOfBits ((l.drop d).take (m - d)) := by
    rw [← h0, ← natOfBits_drop, List.drop_take]
  have e2 : t % 2 ^ (m - d) = natOfBits ((l.drop d).take (m - d)) := by
    rw [← hd, ← natOfBits_take_mod, List.take_take]
    congr 2
    omega
  unfold isNonOverlapping at hno
  rw [List.all_eq_true] at hno
  have := hno (m - d - 1) (List.mem_range.mpr (by omega))
  have e3 : m - (m - d - 1 + 1) = d := by omega
  have e4 : m - d - 1 + 1 = m - d := by omega
  rw [e3, e4, e1, e2] at this
  simp at this

theorem occCount_short (l : List Bool) (m t : Nat) (h : l.length < m) : occCount l m t = 0 := by
  unfold occCount; rw [if_pos h]

/-- peeling the first position off the occurrence count. -/
theorem occCount_step (l : List Bool) (m t : Nat) (hm : 1 ≤ m) (hl : m ≤ l.length) :
    occCount l m t = occCount (l.drop 1) m t + (if natOfBits (l.take m) = t then 1 else 0) := by
  unfold occCount
  rw [if_neg (by omega), List.range_succ_eq_map, List.map_cons, List.map_map, List.count_cons]
  have h0 : natOfBits ((l.drop 0).take m) = natOfBits (l.take m) := by simp
  rw [h0]
  have hlen : (l.drop 1).length = l.length - 1 := by simp
  congr 1
  · by_cases hs : (l.drop 1).length < m
    · rw [if_pos hs]
      have : l.length - m = 0 := by omega
      rw [this]; simp
    · rw [if_neg hs]
      have : (l.drop 1).length - m + 1 = l.length - m := by omega
      rw [this]
      congr 1
      apply List.map_congr_left
      intro p _
      simp only [Function.comp, List.drop_drop]
      congr 3
      omega
  · simp only [beq_iff_eq]

theorem occCount_nomatch (l : List Bool) (m t : Nat) (hm : 1 ≤ m)
    (h : ¬ (m ≤ l.length ∧ natOfBits (l.take m) = t)) : occCount l m t = occCount (l.drop 1) m t := by
  by_cases hl : m ≤ l.length
  · rw [occCount_step l m t hm hl, if_neg (fun hc => h ⟨hl, hc⟩)]; rfl
  · rw [occCount_short l m t (by omega), occCount_short _ m t (by simp; omega)]

/-- after a hit at position 0 there is no further occurrence before position m. -/
theorem occCount_skip (l : List Bool) (m t : Nat) (hm : 1 ≤ m) (hno : isNonOverlapping t m = true)
    (h0 : natOfBits (l.take m) = t) :
    ∀ d, 1 ≤ d → d ≤ m → occCount (l.drop 1) m t = occCount (l.drop d) m t
  | 0, h, _ => by omega
  | 1, _, _ => rfl
  | d + 2, _, hdm => by
    rw [occCount_skip l m t hm hno h0 (d + 1) (by omega) (by omega),
      occCount_nomatch (l.drop (d + 1)) m t hm, List.drop_drop]
    intro hc
    exact no_overlap l m t (d + 1) hno (by omega) (by omega) h0 hc.2

/-- ★ NIST's scan counts exactly the occurrences, for every non-overlapping template. -/
theorem notmScan_eq_occCount (m t : Nat) (hm : 1 ≤ m) (hno : isNonOverlapping t m = true) :
    ∀ (f : Nat) (l : List Bool), l.length ≤ f → notmScan m t f l = occCount l m t
  | 0, l, h => by
    have : l.length < m := by omega
    rw [occCount_short l m t this]; rfl
  | f + 1, l, h => by
    unfold notmScan
    have htl : (l.take m).length < m ↔ l.length < m := by
      rw [List.length_take]; omega
    by_cases hs : l.length < m
    · rw [if_pos (htl.mpr hs), occCount_short l m t hs]
    · rw [if_neg (fun hc => hs (htl.mp hc))]
      by_cases h0 : natOfBits (l.take m) = t
      · rw [if_pos h0, notmScan_eq_occCount m t hm hno f (l.drop m) (by simp; omega),
          occCount_step l m t hm (by omega), if_pos h0,
          occCount_skip l m t hm hno h0 m hm (Nat.le_refl m)]
      · rw [if_neg h0, notmScan_eq_occCount m t hm hno f (l.drop 1) (by simp; omega),
          occCount_nomatch l m t hm (fun hc => h0 hc.2)]

theorem notmW_eq_occCount (l : List Bool) (m t : Nat) (hm : 1 ≤ m) (hno : isNonOverlapping t m = true) :
    notmW l m t = occCount l m t := notmScan_eq_occCount m t hm hno l.length l (Nat.le_refl _)

/-! ### the implementation's table lookup -/

theorem countsNoWrap_get (l : List Bool) (m t v : Nat) (hm : 1 ≤ m) (hl : m ≤ l.length)
    (h : (countsNoWrap l m)[t]? = some v) : v = occCount l m t := by
  rw [← Array.getElem?_toList, countsNoWrap_spec l m hm hl] at h
  unfold occCount
  rw [if_neg (by omega)]
  by_cases ht : t < 2 ^ m
  · simp [ht] at h
    exact h.symm
  · simp [ht] at h

theorem lookupAll_ok (cnt : Array Nat) (g : Nat → Nat) (hg : ∀ t v, cnt[t]? = some v → v = g t) :
    ∀ (ts vs : List Nat), lookupAll cnt ts = .ok vs → vs = ts.map g
  | [], vs, h => by
    simp only [lookupAll, Except.ok.injEq] at h
    rw [← h]; rfl
  | t :: ts, vs, h => by
    unfold lookupAll at h
    cases hc : cnt[t]? with
    | none => rw [hc] at h; cases h
    | some v =>
      rw [hc] at h
      simp only at h
      cases hr : lookupAll cnt ts with
      | error e => rw [hr] at h; cases h
      | ok ws =>
        rw [hr] at h
        simp only [Except.ok.injEq] at h
        rw [← h, List.map_cons, hg t v hc, lookupAll_ok cnt g hg ts ws hr]

theorem notmBlocks_ok (ts : List Nat) (g : Array Nat → Nat → Nat) :
    ∀ (cnts : List (Array Nat)) (res : List (List Nat)),
      (∀ c ∈ cnts, ∀ t v, c[t]? = some v → v = g c t) →
      notmBlocks cnts ts = .ok res → res = cnts.map (fun c => ts.map (g c))
  | [], res, _, h => by
    simp only [notmBlocks, List.mapM_nil, pure, Except.pure, Except.ok.injEq] at h
    rw [← h]; rfl
  | c :: cnts, res, hg, h => by
    unfold notmBlocks at h
    rw [List.mapM_cons] at h
    cases h1 : lookupAll c ts with
    | error e => rw [h1] at h; cases h
    | ok v =>
      rw [h1] at h
      simp only [bind, Except.bind] at h
      cases h2 : List.mapM (fun c => lookupAll c ts) cnts with
      | error e => rw [h2] at h; cases h
      | ok vs =>
        rw [h2] at h
        simp only [pure, Except.pure, Except.ok.injEq] at h
        have ih := notmBlocks_ok ts g cnts vs (fun c hc => hg c (by simp [hc])) h2
        rw [← h, List.map_cons, lookupAll_ok c (g c) (hg c (by simp)) ts v h1, ih]

/-- `NonOverlappingTemplateMatchingImpl` succeeds: all templates are non-overlapping, they fit a block, and
`counts[j][i]` is the number of hits of NIST's scan of block j for template i. -/
theorem notmImpl_ok (blocks : List (List Bool)) (bs m : Nat) (ts : List Nat) (o : NotmOut) (hm : 1 ≤ m)
    (hlen : ∀ b ∈ blocks, b.length = bs) (h : notmImpl blocks bs m ts = .ok o) :
    o.m = m ∧ o.blockSize = bs ∧ o.templates = ts ∧ (∀ t ∈ ts, isNonOverlapping t m = true) ∧
      (blocks ≠ [] → m ≤ bs) ∧
      o.counts = blocks.map (fun b => ts.map (fun t => notmW b m t)) := by
  unfold notmImpl at h
  by_cases h1 : ts.any (fun b => !isNonOverlapping b m) = true
  · rw [if_pos h1] at h; cases h
  · rw [if_neg h1] at h
    have hall : ∀ t ∈ ts, isNonOverlapping t m = true := by
      intro t ht
      cases hq : isNonOverlapping t m
      · exact absurd (List.any_eq_true.mpr ⟨t, ht, by simp [hq]⟩) h1
      · rfl
    by_cases h2 : m > bs ∧ (!blocks.isEmpty) = true
    · rw [if_pos h2] at h; cases h
    · rw [if_neg h2] at h
      have hfit : blocks ≠ [] → m ≤ bs := by
        intro hb
        by_contra hc
        apply h2
        refine ⟨by omega, ?_⟩
        cases blocks with
        | nil => exact absurd rfl hb
        | cons a l => rfl
      cases h3 : notmBlocks (blocks.map (fun b => countsNoWrap b m)) ts with
      | error e => rw [h3] at h; cases h
      | ok counts =>
        rw [h3] at h
        simp only [Except.ok.injEq] at h
        subst h
        refine ⟨rfl, rfl, rfl, hall, hfit, ?_⟩
        -- every count table answers with the occurrence count of its block
        have key := notmBlocks_ok ts (fun c t => c[t]?.getD 0) (blocks.map (fun b => countsNoWrap b m)) counts
          (by intro c _ t v hv; simp [hv]) h3
        rw [key, List.map_map]
        apply List.map_congr_left
        intro b hb
        have hbl : m ≤ b.length := by
          rw [hlen b hb]; exact hfit (List.ne_nil_of_mem hb)
        apply List.map_congr_left
        intro t ht
        rw [notmW_eq_occCount b m t hm (hall t ht)]
        cases hv : (countsNoWrap b m)[t]? with
        | none =>
          -- t ≥ 2^m: no window has this value
          simp only [Option.getD_none]
          have hsz : 2 ^ m ≤ t := by
            have := countsNoWrap_size b m
            have h4 : (countsNoWrap b m).size ≤ t := by simpa using hv
            omega
          unfold occCount
          rw [if_neg (by omega)]
          symm
          apply List.count_eq_zero.mpr
          intro hc
          obtain ⟨p, _, hp⟩ := List.mem_map.mp hc
          have := natOfBits_lt ((b.drop p).take m)
          have hle : ((b.drop p).take m).length ≤ m := by simp
          have : 2 ^ ((b.drop p).take m).length ≤ 2 ^ m := Nat.pow_le_pow_right (by omega) hle
          omega
        | some v =>
          simp only [Option.getD_some]
          exact countsNoWrap_get b m t v hm hbl hv

/-! ### mean, variance, χ² -/

theorem two_mul_lt_two_pow (m : Nat) : 2 * m < 2 ^ m + 1 := by
  cases m with
  | zero => simp
  | succ k =>
    have := Nat.lt_two_pow_self (n := k)
    rw [Nat.pow_succ]; omega

/-- the variance of `NonOverlappingTemplateMatchingImpl` is positive for every template length and every
non-empty block (2^m > 2m − 1). -/
theorem notmVar_pos (n m : Nat) (hn : 1 ≤ n) : 0 < notmVar n m := by
  unfold notmVar
  have hp : (0 : ℚ) < (2 : ℚ) ^ m := by positivity
  have h2 : (2 : ℚ) ^ (2 * m) = (2 : ℚ) ^ m * (2 : ℚ) ^ m := by rw [two_mul, pow_add]
  have hlt : (2 * (m : ℚ) - 1) < (2 : ℚ) ^ m := by
    have := two_mul_lt_two_pow m
    have h3 : ((2 * m : Nat) : ℚ) < ((2 ^ m + 1 : Nat) : ℚ) := by exact_mod_cast this
    push_cast at h3
    linarith
  have hn' : (0 : ℚ) < (n : ℚ) := by exact_mod_cast hn
  apply mul_pos hn'
  rw [h2, sub_pos, div_lt_div_iff₀ (mul_pos hp hp) hp]
  nlinarith

theorem notmChi_nonneg (n m : Nat) (hn : 1 ≤ n) (ws : List Nat) : 0 ≤ notmChi n m ws := by
  unfold notmChi
  apply List.sum_nonneg
  intro x hx
  obtain ⟨w, _, rfl⟩ := List.mem_map.mp hx
  exact div_nonneg (sq_nonneg _) (notmVar_pos n m hn).le

end Paranoid.NistStats
