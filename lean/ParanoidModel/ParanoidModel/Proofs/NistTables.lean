/-
Proofs/NistTables.lean — exact distributions behind the probability tables of the NIST tests,
computed in the kernel. Independent of Generated/Consts.lean (compiled once).
-/
import ParanoidModel.Model.Nist
namespace Paranoid.Nist

/-! tables -/

/-- exact class counts of the longest run of ones over ALL 2^M blocks of M bits (brute force). -/
def lrExactCounts (M vl vu : Nat) : List Nat :=
  (List.range (vu - vl + 1)).map (fun i =>
    ((List.range (2 ^ M)).map (fun x => lrClass vl vu (longestRun (bitsSmall M x)))).count i)

theorem lr8_counts : lrExactCounts 8 1 4 = [55, 94, 59, 48] := by decide +kernel

/-- one step of the recurrence for a_i = number of strings of length i without a run of more than
k ones; the last k+2 values are packed into one number with `w`-bit digits (newest lowest):
a_i = 2·a_{i−1} for i ≤ k, 2·a_{i−1} − 1 for i = k+1, 2·a_{i−1} − a_{i−k−2} for i > k+1. -/
def leStep (k w i win : Nat) : Nat :=
  ((win % 2 ^ (w * (k + 1))) <<< w) +
    (if i ≤ k then 2 * (win % 2 ^ w)
     else if i = k + 1 then 2 * (win % 2 ^ w) - 1
     else 2 * (win % 2 ^ w) - (win >>> (w * (k + 1))) % 2 ^ w)

/-- strict iteration (the `match` makes the kernel evaluate each window to a numeral). -/
def leRun (k w : Nat) : Nat → Nat → Nat → Nat
  | 0, _, win => win % 2 ^ w
  | f + 1, i, win =>
    match leStep k w i win with
    | 0 => 0
    | x + 1 => leRun k w f (i + 1) (x + 1)

/-- number of M-bit strings whose longest run of ones is ≤ k. -/
def leCount (k M : Nat) : Nat := leRun k (M + 1) M 1 1

def diffs : Nat → List Nat → List Nat
  | _, [] => []
  | prev, c :: cs => (c - prev) :: diffs c cs

/-- `f x`, written so that the kernel evaluates `x` to a numeral before it is used. -/
def forceNat {α} (x : Nat) (f : Nat → α) : α :=
  match x with
  | 0 => f 0
  | n + 1 => f (n + 1)

/-- cumulative counts `leCount k M` for k = vl, vl+1, … (`cnt` of them), each evaluated once. -/
def cums (M : Nat) : Nat → Nat → List Nat
  | _, 0 => []
  | k, cnt + 1 => forceNat (leCount k M) (fun c => c :: cums M (k + 1) cnt)

/-- class counts from the recurrence: longest run ≤ vl, = vl+1, …, ≥ vu. -/
def lrDPCounts (M vl vu : Nat) : List Nat := diffs 0 (cums M vl (vu - vl) ++ [2 ^ M])

theorem lrDP_eq_exact_8 : lrDPCounts 8 1 4 = lrExactCounts 8 1 4 := by decide +kernel

theorem lrDP_eq_exact_10 : lrDPCounts 10 2 6 = lrExactCounts 10 2 6 := by decide +kernel

/-- for every class count c: (c/total rounded to a multiple of 1/prec, c/total truncated), as
numerators over `prec`. -/
def exactRows (counts : List Nat) (total prec : Nat) : List (Nat × Nat) :=
  counts.map (fun c => ((2 * c * prec + total) / (2 * total), c * prec / total))

/-- exact distribution of the longest run of ones in an 8-bit block (all 256 blocks), 4 digits. -/
theorem lr8_rows : exactRows (lrExactCounts 8 1 4) (2 ^ 8) 10000 =
    [(2148, 2148), (3672, 3671), (2305, 2304), (1875, 1875)] := by decide +kernel

/-- the same for M = 128, classes ≤4, 5, …, ≥9, through the recurrence `leCount`. -/
theorem lr128_rows : exactRows (lrDPCounts 128 4 9) (2 ^ 128) 10000 =
    [(1174, 1174), (2430, 2429), (2494, 2493), (1752, 1751), (1027, 1027), (1124, 1123)] := by
  decide +kernel

/-- (rounded, truncated) numerators over `prec` of (hi − lo)/total. -/
def classEntry (lo hi total prec : Nat) : Nat × Nat :=
  forceNat lo (fun lo => forceNat hi (fun hi =>
    ((2 * (hi - lo) * prec + total) / (2 * total), (hi - lo) * prec / total)))

/-- M = 10000, first class: P(longest run ≤ 10) = 0.0866… (rounded and truncated 0.0866).
Only this entry is computed in the kernel (each further entry costs ≈ 40 s). -/
theorem lr10000_first : classEntry 0 (leCount 10 10000) (2 ^ 10000) 10000 = (866, 866) := by
  decide +kernel

/-- every table entry a/b equals the rounded (or, if allowed, the truncated) exact value. -/
def rowMatches (pi rows : List (Nat × Nat)) (prec : Nat) (allowTrunc : Bool) : Bool :=
  pi.length == rows.length &&
    (pi.zip rows).all (fun pr => pr.1.1 * prec == pr.2.1 * pr.1.2 ||
      (allowTrunc && pr.1.1 * prec == pr.2.2 * pr.1.2))

/-- the values printed in NIST SP 800-22 (section 3.4) for M = 10000, K = 6. -/
def nistPrinted10000 : List (Nat × Nat) :=
  [(882, 10000), (2092, 10000), (2483, 10000), (1933, 10000), (1208, 10000), (675, 10000), (727, 10000)]

/-- the exact distribution for M = 10000 rounded to 4 digits (values of the repair D20; computed with
exact rational arithmetic by harness/corr/c12.py `table_clauses`, first entry proved in `lr10000_first`). -/
def repaired10000 : List (Nat × Nat) :=
  [(866, 10000), (2082, 10000), (2484, 10000), (1939, 10000), (1215, 10000), (680, 10000), (734, 10000)]

/-- NIST's printed probabilities for M = 10000 are NOT the exact distribution rounded or truncated
to 4 digits: already the first entry (0.0882) differs from P(longest run ≤ 10) = 0.0866…; D20. -/
theorem nist_printed_M10000_inexact :
    rowMatches (nistPrinted10000.take 1) [classEntry 0 (leCount 10 10000) (2 ^ 10000) 10000] 10000 true = false := by
  rw [lr10000_first]; decide

end Paranoid.Nist
