/-
Proofs/Permuted.lean — the fraction form of a word repetition whose adjacent limbs are swapped
(C05, `CheckPermutedBitPatterns`): the analogue of `repeatWord_mul` for the denominator
`D = (2^ps − 1)(2^(ps·ws) + 1)/(2^ws + 1)` the check enumerates.

Notation: `T = 2^ws` (limb base), `d0 = 2^ps − 1`, `Φ = (T^ps + 1)/(T + 1)` (`ps` odd), `D = d0·Φ`.
The top-aligned repetition of the `ps`-bit word `W` cut to `N` limbs is
`P_N = ⌊W·T^N / d0⌋`; with `u_i = W·T^i mod d0` (the word rotated) its limbs, most significant
first, are `λ_i = ⌊T·u_i / d0⌋`, i.e. `d0·λ_i = T·u_i − u_(i+1)`, and `u_(i+ps) = u_i`.
Swapping the limbs `(2j, 2j+1)` gives `Q_M` with `Q_(M+1) = Q_M·T² + λ_(2M+1)·T + λ_(2M)`, and

    D · Q_M = A_0 · T^(2M) − A_(2M),     A_s = −(T − 1)·B_s + u_s·T·Φ,
    B_s = Σ_{i<ps} (−1)^i u_(s+i) T^(ps−1−i)          (`swapped_fraction`)

with `|A_s| < 2·d0·T^ps < 2·(T + 1)·D`: numerator coefficients at most `ws + 2` bits longer than `D`.
(The docstring of CheckPermutedBitPatterns derives this "partially by experimentation".)
-/
import ParanoidModel.Proofs.FractionPre
import ParanoidModel.Model.Patterns
import Mathlib.Algebra.Order.Ring.Abs
import Mathlib.Tactic.LinearCombination
import Mathlib.Tactic.Ring
import Mathlib.Tactic.Linarith
import Mathlib.Tactic.Positivity

namespace Paranoid.Permuted
open Paranoid

/-! ### the operation on numbers (`swapLimbs`, `periodicTop`: Model/Patterns.lean) -/

/-- the word after `i` limbs: `W·T^i mod (2^ps − 1)` (a rotation of `W`). -/
def rot (W ps ws i : Nat) : Nat := W * (2 ^ ws) ^ i % (2 ^ ps - 1)

/-- the `i`-th limb from the top. -/
def limb (W ps ws i : Nat) : Nat := 2 ^ ws * rot W ps ws i / (2 ^ ps - 1)

/-! ### abstract algebra over ℤ -/

/-- Horner form of `Σ_{i<k} (−1)^i u_(s+i) T^(k−1−i)`. -/
def altHorner (u : Nat → Int) (T : Int) (s : Nat) : Nat → Int
  | 0 => 0
  | k + 1 => altHorner u T s k * T + (-1) ^ k * u (s + k)

/-- the numerator coefficient `A_s`. -/
def coefA (u : Nat → Int) (T Φ : Int) (ps s : Nat) : Int :=
  -(T - 1) * altHorner u T s ps + u s * T * Φ

theorem altHorner_shift (u : Nat → Int) (T : Int) (s : Nat) : ∀ k,
    altHorner u T s (k + 1) = u s * T ^ k - altHorner u T (s + 1) k
  | 0 => by simp [altHorner]
  | k + 1 => by
    rw [altHorner, altHorner_shift u T s k, altHorner]
    have : s + 1 + k = s + (k + 1) := by omega
    rw [this]; ring

/-- `B_(s+1) = u_s·(T^ps + 1) − T·B_s` for odd `ps` and `u` of period `ps`. -/
theorem altHorner_next (u : Nat → Int) (T : Int) (ps : Nat) (hodd : ps % 2 = 1)
    (hper : ∀ i, u (i + ps) = u i) (s : Nat) :
    altHorner u T (s + 1) ps = u s * (T ^ ps + 1) - T * altHorner u T s ps := by
  have h1 := altHorner_shift u T s ps
  have h2 : altHorner u T s (ps + 1) = altHorner u T s ps * T + (-1) ^ ps * u (s + ps) := rfl
  have hneg : ((-1 : Int)) ^ ps = -1 := Odd.neg_one_pow (Nat.odd_iff.mpr hodd)
  rw [hneg, hper] at h2
  linear_combination h1 - h2

/-- the local identity behind the induction: one swapped pair of limbs. -/
theorem coefA_step (u lam : Nat → Int) (T Φ d0 : Int) (ps : Nat) (hodd : ps % 2 = 1)
    (hper : ∀ i, u (i + ps) = u i) (hΦ : Φ * (T + 1) = T ^ ps + 1)
    (hlam : ∀ i, d0 * lam i = T * u i - u (i + 1)) (s : Nat) :
    coefA u T Φ ps (s + 2) =
      T ^ 2 * coefA u T Φ ps s - d0 * Φ * (lam (s + 1) * T + lam s) := by
  have hB1 := altHorner_next u T ps hodd hper s
  have hB2 := altHorner_next u T ps hodd hper (s + 1)
  have hl0 := hlam s
  have hl1 := hlam (s + 1)
  unfold coefA
  have e : s + 1 + 1 = s + 2 := rfl
  rw [e] at hB2 hl1
  linear_combination (-(T - 1)) * hB2 + ((T - 1) * T) * hB1 + Φ * hl0 + (Φ * T) * hl1 +
    ((T - 1) * (u (s + 1) - T * u s)) * hΦ

/-- the swapped number, most significant pair first. -/
def swapSum (lam : Nat → Int) (T : Int) : Nat → Int
  | 0 => 0
  | M + 1 => swapSum lam T M * T ^ 2 + lam (2 * M + 1) * T + lam (2 * M)

/-- **`D·Q_M = A_0·T^(2M) − A_(2M)`.** -/
theorem swapSum_fraction (u lam : Nat → Int) (T Φ d0 : Int) (ps : Nat) (hodd : ps % 2 = 1)
    (hper : ∀ i, u (i + ps) = u i) (hΦ : Φ * (T + 1) = T ^ ps + 1)
    (hlam : ∀ i, d0 * lam i = T * u i - u (i + 1)) : ∀ M,
    d0 * Φ * swapSum lam T M = coefA u T Φ ps 0 * T ^ (2 * M) - coefA u T Φ ps (2 * M)
  | 0 => by simp [swapSum]
  | M + 1 => by
    have ih := swapSum_fraction u lam T Φ d0 ps hodd hper hΦ hlam M
    have hs := coefA_step u lam T Φ d0 ps hodd hper hΦ hlam (2 * M)
    have e : 2 * (M + 1) = 2 * M + 2 := by ring
    rw [swapSum, e, hs, pow_add]
    linear_combination (T ^ 2) * ih

/-- `(T − 1)·|B_s| ≤ d0·(T^k − 1)` when `0 ≤ u_i < d0`... stated with `|u i| ≤ d0`. -/
theorem altHorner_bound (u : Nat → Int) (T d0 : Int) (hT : 1 ≤ T) (hu : ∀ i, |u i| ≤ d0) (s : Nat) :
    ∀ k, (T - 1) * |altHorner u T s k| ≤ d0 * (T ^ k - 1)
  | 0 => by simp [altHorner]
  | k + 1 => by
    have ih := altHorner_bound u T d0 hT hu s k
    rw [altHorner]
    have h1 : |altHorner u T s k * T + (-1) ^ k * u (s + k)| ≤ |altHorner u T s k| * T + d0 := by
      refine le_trans (abs_add_le _ _) ?_
      rw [abs_mul, abs_mul, abs_of_nonneg (by linarith : (0 : Int) ≤ T), abs_pow, abs_neg,
        abs_one, one_pow, one_mul]
      linarith [hu (s + k)]
    have hT1 : 0 ≤ T - 1 := by linarith
    calc (T - 1) * |altHorner u T s k * T + (-1) ^ k * u (s + k)|
        ≤ (T - 1) * (|altHorner u T s k| * T + d0) := mul_le_mul_of_nonneg_left h1 hT1
      _ = ((T - 1) * |altHorner u T s k|) * T + (T - 1) * d0 := by ring
      _ ≤ (d0 * (T ^ k - 1)) * T + (T - 1) * d0 := by
          have := mul_le_mul_of_nonneg_right ih (by linarith : (0 : Int) ≤ T)
          linarith
      _ = d0 * (T ^ (k + 1) - 1) := by ring

/-- `|A_s| < 2·d0·T^ps`. -/
theorem coefA_bound (u : Nat → Int) (T Φ d0 : Int) (ps : Nat) (hT : 1 ≤ T) (hd0 : 0 < d0)
    (hu : ∀ i, |u i| ≤ d0) (hΦ0 : 0 ≤ Φ) (hΦ : Φ * (T + 1) = T ^ ps + 1) (s : Nat) :
    |coefA u T Φ ps s| < 2 * d0 * T ^ ps := by
  unfold coefA
  have hB := altHorner_bound u T d0 hT hu s ps
  have hTps : 1 ≤ T ^ ps := one_le_pow₀ hT
  have h1 : |-(T - 1) * altHorner u T s ps| ≤ d0 * (T ^ ps - 1) := by
    rw [abs_mul, abs_neg, abs_of_nonneg (by linarith : (0 : Int) ≤ T - 1)]; exact hB
  have hΦT : Φ * T ≤ T ^ ps := by nlinarith
  have h2 : |u s * T * Φ| ≤ d0 * T ^ ps := by
    rw [abs_mul, abs_mul, abs_of_nonneg (by linarith : (0 : Int) ≤ T), abs_of_nonneg hΦ0]
    have := hu s
    have h0 : 0 ≤ T * Φ := by positivity
    calc |u s| * T * Φ = |u s| * (T * Φ) := by ring
      _ ≤ d0 * (T * Φ) := mul_le_mul_of_nonneg_right this h0
      _ ≤ d0 * T ^ ps := by
          apply mul_le_mul_of_nonneg_left _ hd0.le
          linarith
  have := abs_add_le (-(T - 1) * altHorner u T s ps) (u s * T * Φ)
  nlinarith

/-! ### the digits of the repetition -/

theorem d0_pos (ps : Nat) (hps : 1 ≤ ps) : 0 < 2 ^ ps - 1 := by
  have : 2 ^ 1 ≤ 2 ^ ps := Nat.pow_le_pow_right (by norm_num) hps
  omega

/-- `u_(i+ps) = u_i`: `T^ps = (2^ps)^ws ≡ 1 (mod 2^ps − 1)`. -/
theorem rot_periodic (W ps ws i : Nat) : rot W ps ws (i + ps) = rot W ps ws i := by
  unfold rot
  have h1 : (2 ^ ws) ^ ps % (2 ^ ps - 1) = 1 % (2 ^ ps - 1) := by
    rw [← pow_mul, Nat.mul_comm, pow_mul]
    have hge : 1 ≤ 2 ^ ps := Nat.one_le_two_pow
    have : 2 ^ ps % (2 ^ ps - 1) = 1 % (2 ^ ps - 1) := by
      obtain ⟨d, hd⟩ : ∃ d, 2 ^ ps = d + 1 := ⟨2 ^ ps - 1, by omega⟩
      rw [hd, Nat.add_sub_cancel, Nat.add_mod_left]
    rw [Nat.pow_mod, this, ← Nat.pow_mod, one_pow]
  rw [pow_add, ← Nat.mul_assoc, Nat.mul_mod, h1, ← Nat.mul_mod, Nat.mul_one]

/-- `d0·λ_i = T·u_i − u_(i+1)`. -/
theorem limb_eq (W ps ws i : Nat) :
    (2 ^ ps - 1) * limb W ps ws i + rot W ps ws (i + 1) = 2 ^ ws * rot W ps ws i := by
  unfold limb
  have hr : rot W ps ws (i + 1) = 2 ^ ws * rot W ps ws i % (2 ^ ps - 1) := by
    unfold rot
    conv_rhs => rw [Nat.mul_mod, Nat.mod_mod, ← Nat.mul_mod]
    rw [pow_succ]
    congr 1; ring
  rw [hr]; exact Nat.div_add_mod _ _

theorem limb_lt (W ps ws i : Nat) (hps : 1 ≤ ps) : limb W ps ws i < 2 ^ ws := by
  unfold limb
  have hd := d0_pos ps hps
  rw [Nat.div_lt_iff_lt_mul hd]
  exact Nat.mul_lt_mul_of_pos_left (Nat.mod_lt _ hd) (Nat.two_pow_pos ws)

/-- `W·T^N = d0·P_N + u_N` and one more limb: `P_(N+1) = P_N·T + λ_N`. -/
theorem periodicTop_succ (W ps ws N : Nat) (hps : 1 ≤ ps) :
    periodicTop W ps (ws * (N + 1)) = periodicTop W ps (ws * N) * 2 ^ ws + limb W ps ws N := by
  have hd := d0_pos ps hps
  unfold periodicTop
  have h0 := Nat.div_add_mod (W * 2 ^ (ws * N)) (2 ^ ps - 1)
  have h1 := limb_eq W ps ws N
  have hrot : rot W ps ws N = W * 2 ^ (ws * N) % (2 ^ ps - 1) := by unfold rot; rw [← pow_mul]
  have hlt : rot W ps ws (N + 1) < 2 ^ ps - 1 := Nat.mod_lt _ hd
  rw [← hrot] at h0
  have key : W * 2 ^ (ws * (N + 1)) =
      (2 ^ ps - 1) * (W * 2 ^ (ws * N) / (2 ^ ps - 1) * 2 ^ ws + limb W ps ws N) +
        rot W ps ws (N + 1) := by
    calc W * 2 ^ (ws * (N + 1)) = (W * 2 ^ (ws * N)) * 2 ^ ws := by
          rw [Nat.mul_succ, pow_add, Nat.mul_assoc]
      _ = ((2 ^ ps - 1) * (W * 2 ^ (ws * N) / (2 ^ ps - 1)) + rot W ps ws N) * 2 ^ ws := by
          rw [h0]
      _ = _ := by
          rw [Nat.add_mul, Nat.mul_comm (rot W ps ws N) _, ← h1]; ring
  rw [key, Nat.mul_add_div hd, Nat.div_eq_of_lt hlt, Nat.add_zero]

theorem periodicTop_zero (W ps : Nat) (hW : W < 2 ^ ps - 1) : periodicTop W ps 0 = 0 := by
  unfold periodicTop; simpa using Nat.div_eq_of_lt hW

/-- peeling the two lowest limbs of `P_(2M+2)`. -/
theorem periodicTop_peel (W ps ws M : Nat) (hps : 1 ≤ ps) :
    periodicTop W ps (ws * (2 * M + 2)) % 2 ^ ws = limb W ps ws (2 * M + 1) ∧
    periodicTop W ps (ws * (2 * M + 2)) / 2 ^ ws % 2 ^ ws = limb W ps ws (2 * M) ∧
    periodicTop W ps (ws * (2 * M + 2)) / 2 ^ ws / 2 ^ ws = periodicTop W ps (ws * (2 * M)) := by
  have hT : 0 < 2 ^ ws := Nat.two_pow_pos ws
  have e1 := periodicTop_succ W ps ws (2 * M + 1) hps
  have e0 := periodicTop_succ W ps ws (2 * M) hps
  have l1 := limb_lt W ps ws (2 * M + 1) hps
  have l0 := limb_lt W ps ws (2 * M) hps
  have hdiv1 : periodicTop W ps (ws * (2 * M + 2)) / 2 ^ ws = periodicTop W ps (ws * (2 * M + 1)) := by
    rw [e1, Nat.add_comm, Nat.add_mul_div_right _ _ hT, Nat.div_eq_of_lt l1, Nat.zero_add]
  refine ⟨?_, ?_, ?_⟩
  · rw [e1, Nat.add_comm, Nat.add_mul_mod_self_right, Nat.mod_eq_of_lt l1]
  · rw [hdiv1, e0, Nat.add_comm, Nat.add_mul_mod_self_right, Nat.mod_eq_of_lt l0]
  · rw [hdiv1, e0, Nat.add_comm, Nat.add_mul_div_right _ _ hT, Nat.div_eq_of_lt l0, Nat.zero_add]

/-- the swapped repetition is the sum `swapSum` of its limbs. -/
theorem swapLimbs_periodicTop (W ps ws : Nat) (hps : 1 ≤ ps) (hW : W < 2 ^ ps - 1) : ∀ M,
    (swapLimbs ws M (periodicTop W ps (ws * (2 * M))) : Int) =
      swapSum (fun i => (limb W ps ws i : Int)) ((2 : Int) ^ ws) M
  | 0 => by simp [swapLimbs, swapSum]
  | M + 1 => by
    have ih := swapLimbs_periodicTop W ps ws hps hW M
    obtain ⟨p1, p2, p3⟩ := periodicTop_peel W ps ws M hps
    have e : 2 * (M + 1) = 2 * M + 2 := by ring
    rw [e, swapLimbs, p1, p2, p3, swapSum]
    push_cast
    rw [ih]
    ring

/-- `Φ = (T^ps + 1)/(T + 1)`, exact for odd `ps`. -/
def phi (ws ps : Nat) : Nat := ((2 ^ ws) ^ ps + 1) / (2 ^ ws + 1)

theorem phi_mul (ws ps : Nat) (hodd : ps % 2 = 1) :
    phi ws ps * (2 ^ ws + 1) = (2 ^ ws) ^ ps + 1 := by
  unfold phi
  apply Nat.div_mul_cancel
  have := Odd.nat_add_dvd_pow_add_pow (2 ^ ws) 1 (Nat.odd_iff.mpr hodd)
  rwa [one_pow] at this

/-- the check's denominator is `d0·Φ`. -/
theorem permutedDenominator_eq (ws ps : Nat) (hodd : ps % 2 = 1) :
    permutedDenominator ws ps = (2 ^ ps - 1) * phi ws ps := by
  have h1 := permutedDenominator_mul ws ps hodd
  have h2 := phi_mul ws ps hodd
  have hpos : 0 < 2 ^ ws + 1 := by positivity
  apply Nat.eq_of_mul_eq_mul_right hpos
  rw [h1, Nat.mul_assoc, h2, ← pow_mul, Nat.mul_comm ws ps]

/-- **The swapped repetition is a fraction with the check's denominator.**
`D · swapLimbs(P_(2M)) = A_0·T^(2M) − A_(2M)`. -/
theorem swapped_fraction (W ps ws M : Nat) (hps : 1 ≤ ps) (hodd : ps % 2 = 1)
    (hW : W < 2 ^ ps - 1) :
    (permutedDenominator ws ps : Int) * (swapLimbs ws M (periodicTop W ps (ws * (2 * M))) : Int) =
      coefA (fun i => (rot W ps ws i : Int)) ((2 : Int) ^ ws) (phi ws ps) ps 0
          * ((2 : Int) ^ ws) ^ (2 * M)
        - coefA (fun i => (rot W ps ws i : Int)) ((2 : Int) ^ ws) (phi ws ps) ps (2 * M) := by
  have hd := d0_pos ps hps
  rw [swapLimbs_periodicTop W ps ws hps hW M, permutedDenominator_eq ws ps hodd]
  push_cast
  have hper : ∀ i, (fun i => (rot W ps ws i : Int)) (i + ps) = (fun i => (rot W ps ws i : Int)) i :=
    fun i => by simp only [rot_periodic]
  have hΦ : ((phi ws ps : Nat) : Int) * (((2 : Int) ^ ws) + 1) = ((2 : Int) ^ ws) ^ ps + 1 := by
    exact_mod_cast phi_mul ws ps hodd
  have hlam : ∀ i, (((2 ^ ps - 1 : Nat)) : Int) * (fun i => (limb W ps ws i : Int)) i =
      ((2 : Int) ^ ws) * (fun i => (rot W ps ws i : Int)) i -
        (fun i => (rot W ps ws i : Int)) (i + 1) := by
    intro i
    have := limb_eq W ps ws i
    simp only
    have h' : (((2 ^ ps - 1) * limb W ps ws i + rot W ps ws (i + 1) : Nat) : Int) =
        ((2 ^ ws * rot W ps ws i : Nat) : Int) := by rw [this]
    push_cast at h'
    linarith
  have main := swapSum_fraction (fun i => (rot W ps ws i : Int)) (fun i => (limb W ps ws i : Int))
    ((2 : Int) ^ ws) (phi ws ps) ((2 ^ ps - 1 : Nat) : Int) ps hodd hper hΦ hlam M
  push_cast at main ⊢
  exact main

/-- the numerator coefficients are small: `|A_s| < 2·(2^ps − 1)·T^ps ≤ 2·(T + 1)·D`. -/
theorem swapped_coef_bound (W ps ws s : Nat) (hps : 1 ≤ ps) (hodd : ps % 2 = 1) :
    |coefA (fun i => (rot W ps ws i : Int)) ((2 : Int) ^ ws) (phi ws ps) ps s| <
      2 * ((2 ^ ps - 1 : Nat) : Int) * ((2 : Int) ^ ws) ^ ps ∧
    2 * ((2 ^ ps - 1 : Nat) : Int) * ((2 : Int) ^ ws) ^ ps ≤
      2 * (((2 : Int) ^ ws) + 1) * (permutedDenominator ws ps : Int) := by
  have hd := d0_pos ps hps
  have hT : (1 : Int) ≤ ((2 : Int) ^ ws) := by exact_mod_cast Nat.one_le_two_pow
  have hΦ : ((phi ws ps : Nat) : Int) * (((2 : Int) ^ ws) + 1) = ((2 : Int) ^ ws) ^ ps + 1 := by
    exact_mod_cast phi_mul ws ps hodd
  constructor
  · apply coefA_bound _ _ _ _ ps hT (by exact_mod_cast hd) _ (Int.natCast_nonneg _) hΦ
    intro i
    rw [abs_of_nonneg (Int.natCast_nonneg _)]
    exact_mod_cast (Nat.mod_lt _ hd).le
  · rw [permutedDenominator_eq ws ps hodd]
    push_cast
    have hd0 : (0 : Int) ≤ ((2 ^ ps - 1 : Nat) : Int) := Int.natCast_nonneg _
    have : ((2 ^ ps - 1 : Nat) : Int) * ((2 : Int) ^ ws) ^ ps ≤
        ((2 ^ ps - 1 : Nat) : Int) * (((phi ws ps : Nat) : Int) * (((2 : Int) ^ ws) + 1)) := by
      apply mul_le_mul_of_nonneg_left _ hd0
      rw [hΦ]; linarith
    push_cast at this
    nlinarith

end Paranoid.Permuted
