/-
Proofs/Pollard.lean — powMod correctness and the Pollard p-1 flagging theorem (C05).
-/
import ParanoidModel.Proofs.Factoring
import Mathlib.Data.Nat.Totient
import Mathlib.FieldTheory.Finite.Basic
import Mathlib.Tactic.Ring
import Mathlib.Tactic.Linarith

namespace Paranoid

theorem lt_two_pow_bitLength (e : Nat) : e < 2 ^ bitLength e := by
  unfold bitLength
  split
  · subst_vars; simp
  · exact Nat.lt_log2_self

theorem powModAux_spec (m : Nat) : ∀ (fuel b e acc : Nat), e < 2 ^ fuel →
    powModAux m fuel b e acc % m = acc * b ^ e % m
  | 0, b, e, acc, h => by
    have : e = 0 := by simpa using h
    subst this
    simp [powModAux]
  | fuel + 1, b, e, acc, h => by
    unfold powModAux
    split
    · rename_i he; subst he; simp
    · rename_i he
      have hlt : e / 2 < 2 ^ fuel := by
        rw [Nat.pow_succ] at h; omega
      rw [powModAux_spec m fuel _ _ _ hlt]
      have hb : (b * b % m) ^ (e / 2) % m = (b * b) ^ (e / 2) % m := by
        rw [Nat.pow_mod, Nat.mod_mod, ← Nat.pow_mod]
      have hdecomp : b ^ e = (b * b) ^ (e / 2) * b ^ (e % 2) := by
        conv_lhs => rw [← Nat.div_add_mod e 2]
        rw [Nat.pow_add, Nat.pow_mul, Nat.pow_two]
      split
      · rename_i h1
        rw [hdecomp, h1, Nat.pow_one]
        rw [Nat.mul_mod, Nat.mod_mod, hb, ← Nat.mul_mod]
        rw [Nat.mul_mod (acc * b), ← Nat.mul_mod]
        congr 1; ring
      · rename_i h1
        have h0 : e % 2 = 0 := by omega
        rw [hdecomp, h0, Nat.pow_zero, Nat.mul_one]
        rw [Nat.mul_mod, hb, ← Nat.mul_mod]

theorem powModAux_lt (m : Nat) (hm : 0 < m) : ∀ (fuel b e acc : Nat), acc < m →
    powModAux m fuel b e acc < m
  | 0, _, _, _, h => by simpa [powModAux] using h
  | fuel + 1, b, e, acc, h => by
    unfold powModAux
    split
    · exact h
    · apply powModAux_lt m hm
      split
      · exact Nat.mod_lt _ hm
      · exact h

/-- `powMod b e m = b^e % m` for `m ≥ 1` (Python `pow(b, e, m)`). -/
theorem powMod_eq (b e m : Nat) (hm : 0 < m) : powMod b e m = b ^ e % m := by
  unfold powMod
  have h1 := powModAux_spec m (bitLength e) (b % m) e (1 % m) (lt_two_pow_bitLength e)
  have h2 := powModAux_lt m hm (bitLength e) (b % m) e (1 % m) (Nat.mod_lt _ hm)
  rw [Nat.mod_eq_of_lt h2] at h1
  rw [h1, Nat.mul_mod, Nat.mod_mod, ← Nat.pow_mod, ← Nat.mul_mod, Nat.one_mul]

/-- Fermat's little theorem in the form used: `(p-1) ∣ k → 2^k ≡ 1 (mod p)` for odd prime `p`. -/
theorem two_pow_mod_prime {p k : Nat} (hp : p.Prime) (hodd : p % 2 = 1) (hk : (p - 1) ∣ k) :
    2 ^ k % p = 1 := by
  have hcop : Nat.Coprime 2 p := by
    rw [Nat.coprime_comm, Nat.Prime.coprime_iff_not_dvd hp]
    intro h
    have := Nat.le_of_dvd (by omega) h
    have := hp.two_le
    omega
  have h := Nat.ModEq.pow_totient hcop
  rw [Nat.totient_prime hp] at h
  obtain ⟨c, rfl⟩ := hk
  have : 2 ^ ((p - 1) * c) ≡ 1 [MOD p] := by
    rw [Nat.pow_mul]
    have := h.pow c
    simpa using this
  have hp2 := hp.two_le
  unfold Nat.ModEq at this
  rw [this, Nat.mod_eq_of_lt (by omega)]

end Paranoid
