/-
Proofs/PollardProduct.lean — the product `m` built by the constructor of `CheckPollardpm1`
(Model/RsaChecks.lean `pollardProduct`, documented exponents `pollardExpsDocumented`): its prime
factorisation and the exact divisibility criterion `g ∣ m ↔ ∀ prime r, v_r(g) ≤ e_r`.

Nothing here evaluates the 1.5 Mbit default product: the criterion is proved abstractly from
`sieve b = (List.range b).filter Nat.Prime` (Proofs/NTheory.lean `sieve_eq`); the only evaluated
fact is "there are exactly 150 primes below 864" (trial division, `decide +kernel`, 864 numbers).
-/
import ParanoidModel.Proofs.NTheory
import ParanoidModel.Proofs.NTheoryTree
import ParanoidModel.Proofs.Pratt
import ParanoidModel.Model.RsaChecks
import Mathlib.Data.Nat.Factorization.Basic
import Mathlib.Data.Nat.Log

namespace Paranoid.PollardProduct
open Paranoid

/-! ### `floorLog` is the integer logarithm -/

theorem floorLogAux_spec (p bound : Nat) : ∀ (fuel acc e : Nat), acc = p ^ e → acc ≤ bound →
    bound < p ^ (e + fuel) →
    p ^ floorLogAux p bound fuel acc e ≤ bound ∧ bound < p ^ (floorLogAux p bound fuel acc e + 1)
  | 0, acc, e, hacc, hle, hlt => by
    exfalso; rw [Nat.add_zero, ← hacc] at hlt; omega
  | fuel + 1, acc, e, hacc, hle, hlt => by
    unfold floorLogAux
    split
    · rename_i h
      exact floorLogAux_spec p bound fuel (acc * p) (e + 1) (by rw [hacc, Nat.pow_succ]) h
        (lt_of_lt_of_eq hlt (congrArg (p ^ ·) (by omega)))
    · rename_i h
      refine ⟨hacc ▸ hle, ?_⟩
      rw [Nat.pow_succ, ← hacc]; omega

/-- `floorLog p b = ⌊log_p b⌋` (the value `int(math.log(b, p))` is meant to be). -/
theorem floorLog_eq_log (p b : Nat) (hp : 2 ≤ p) (hb : 1 ≤ b) : floorLog p b = Nat.log p b := by
  unfold floorLog
  rw [if_neg (by omega)]
  have hfuel : b < p ^ (0 + bitLength b) := by
    rw [Nat.zero_add]
    exact lt_of_lt_of_le (lt_two_pow_bitLength b) (Nat.pow_le_pow_left hp _)
  obtain ⟨h1, h2⟩ := floorLogAux_spec p b (bitLength b) 1 0 (by simp) hb hfuel
  symm
  exact (Nat.log_eq_iff (Or.inr ⟨by omega, by omega⟩)).mpr ⟨h1, h2⟩

/-! ### exponent of a prime in `pollardPowers` -/

/-- the exponent with which `q` occurs in `pollardPowers ps es` (for distinct `ps`): the matching
entry of `es`, or 1 when `es` is exhausted, or 0 when `q` is not listed. -/
def expAt : List Nat → List Nat → Nat → Nat
  | [], _, _ => 0
  | p :: ps, [], q => if q = p then 1 else expAt ps [] q
  | p :: ps, e :: es, q => if q = p then e else expAt ps es q

theorem expAt_not_mem : ∀ (ps es : List Nat) (q : Nat), q ∉ ps → expAt ps es q = 0
  | [], _, _, _ => by simp [expAt]
  | p :: ps, [], q, h => by
    rw [List.mem_cons, not_or] at h
    rw [expAt, if_neg h.1, expAt_not_mem ps [] q h.2]
  | p :: ps, e :: es, q, h => by
    rw [List.mem_cons, not_or] at h
    rw [expAt, if_neg h.1, expAt_not_mem ps es q h.2]

theorem expAt_nil_right : ∀ (ps : List Nat) (q : Nat), expAt ps [] q = if q ∈ ps then 1 else 0
  | [], q => by simp [expAt]
  | p :: ps, q => by
    rw [expAt, expAt_nil_right ps q]
    by_cases h : q = p
    · simp [h]
    · simp [h]

theorem pollardPowers_nil_right (ps : List Nat) : pollardPowers ps [] = ps := by
  cases ps <;> rfl

theorem pollardPowers_cons (p e : Nat) (ps es : List Nat) :
    pollardPowers (p :: ps) (e :: es) = p ^ e :: pollardPowers ps es := rfl

theorem prod_primes_ne_zero : ∀ (ps : List Nat), (∀ p ∈ ps, p.Prime) → ps.prod ≠ 0
  | [], _ => by simp
  | p :: ps, h => by
    rw [List.prod_cons]
    exact Nat.mul_ne_zero (h p List.mem_cons_self).pos.ne'
      (prod_primes_ne_zero ps fun x hx => h x (List.mem_cons_of_mem _ hx))

theorem pollardPowers_prod_ne_zero : ∀ (ps es : List Nat), (∀ p ∈ ps, p.Prime) →
    (pollardPowers ps es).prod ≠ 0
  | [], es, _ => by cases es <;> simp [pollardPowers]
  | p :: ps, [], h => by rw [pollardPowers_nil_right]; exact prod_primes_ne_zero _ h
  | p :: ps, e :: es, h => by
    rw [pollardPowers_cons, List.prod_cons]
    exact Nat.mul_ne_zero (pow_ne_zero _ (h p List.mem_cons_self).pos.ne')
      (pollardPowers_prod_ne_zero ps es fun x hx => h x (List.mem_cons_of_mem _ hx))

/-- **Factorisation of the product**: for distinct primes `ps`, the exponent of `q` in
`∏ pollardPowers ps es` is `expAt ps es q`. -/
theorem factorization_pollardPowers : ∀ (ps es : List Nat), (∀ p ∈ ps, p.Prime) → ps.Nodup →
    ∀ q, (pollardPowers ps es).prod.factorization q = expAt ps es q
  | [], es, _, _, q => by cases es <;> simp [pollardPowers, expAt]
  | p :: ps, [], h, hnd, q => by
    have hp := h p List.mem_cons_self
    have h' : ∀ x ∈ ps, x.Prime := fun x hx => h x (List.mem_cons_of_mem _ hx)
    have ih := factorization_pollardPowers ps [] h' (List.nodup_cons.mp hnd).2 q
    rw [pollardPowers_nil_right] at ih ⊢
    rw [List.prod_cons, Nat.factorization_mul hp.pos.ne' (prod_primes_ne_zero _ h'),
      Finsupp.add_apply, ih, hp.factorization, Finsupp.single_apply, expAt]
    by_cases hq : q = p
    · subst hq
      rw [if_pos rfl, if_pos rfl, expAt_not_mem _ _ _ (List.nodup_cons.mp hnd).1]
    · rw [if_neg (Ne.symm hq), if_neg hq, Nat.zero_add]
  | p :: ps, e :: es, h, hnd, q => by
    have hp := h p List.mem_cons_self
    have h' : ∀ x ∈ ps, x.Prime := fun x hx => h x (List.mem_cons_of_mem _ hx)
    have ih := factorization_pollardPowers ps es h' (List.nodup_cons.mp hnd).2 q
    rw [pollardPowers_cons, List.prod_cons,
      Nat.factorization_mul (pow_ne_zero _ hp.pos.ne') (pollardPowers_prod_ne_zero _ _ h'),
      Finsupp.add_apply, ih, hp.factorization_pow, Finsupp.single_apply, expAt]
    by_cases hq : q = p
    · subst hq
      rw [if_pos rfl, if_pos rfl, expAt_not_mem _ _ _ (List.nodup_cons.mp hnd).1, Nat.add_zero]
    · rw [if_neg (Ne.symm hq), if_neg hq, Nat.zero_add]

/-- `g` is `E`-powersmooth: every prime power dividing `g` has exponent at most `E r`. -/
def PowerSmooth (E : Nat → Nat) (g : Nat) : Prop :=
  ∀ r k, r.Prime → r ^ k ∣ g → k ≤ E r

theorem powerSmooth_of_dvd {E : Nat → Nat} {g h : Nat} (hgh : g ∣ h) (hs : PowerSmooth E h) :
    PowerSmooth E g := fun r k hr hk => hs r k hr (Nat.dvd_trans hk hgh)

theorem powerSmooth_iff_factorization (E : Nat → Nat) (g : Nat) (hg : g ≠ 0) :
    PowerSmooth E g ↔ ∀ r, g.factorization r ≤ E r := by
  constructor
  · intro h r
    by_cases hr : r.Prime
    · exact h r _ hr (Nat.ordProj_dvd g r)
    · rw [Nat.factorization_eq_zero_of_not_prime g hr]; exact Nat.zero_le _
  · intro h r k hr hk
    exact le_trans ((hr.pow_dvd_iff_le_factorization hg).mp hk) (h r)

/-- **Divisibility criterion, abstract form**: for distinct primes `ps` and any exponent list. -/
theorem dvd_pollardPowers_iff (ps es : List Nat) (hpr : ∀ p ∈ ps, p.Prime) (hnd : ps.Nodup)
    (g : Nat) (hg : g ≠ 0) :
    g ∣ fastProduct (pollardPowers ps es) ↔ PowerSmooth (expAt ps es) g := by
  rw [fastProduct_eq_prod, powerSmooth_iff_factorization _ _ hg,
    ← Nat.factorization_le_iff_dvd hg (pollardPowers_prod_ne_zero ps es hpr), Finsupp.le_def]
  exact forall_congr' fun r => by rw [factorization_pollardPowers ps es hpr hnd r]

/-! ### the documented exponent lists -/

theorem expAt_map_take (f : Nat → Nat) : ∀ (ps : List Nat), ps.Nodup → ∀ (k q : Nat),
    expAt ps ((ps.take k).map f) q =
      if q ∈ ps.take k then f q else if q ∈ ps then 1 else 0
  | [], _, k, q => by simp [expAt]
  | p :: ps, hnd, 0, q => by
    rw [List.take_zero, List.map_nil, expAt_nil_right]; simp
  | p :: ps, hnd, k + 1, q => by
    have hnd' := (List.nodup_cons.mp hnd).2
    rw [List.take_succ_cons, List.map_cons, expAt, expAt_map_take f ps hnd' k q]
    by_cases hq : q = p
    · subst hq; simp
    · simp [hq]

theorem mem_sieve (b q : Nat) : q ∈ sieve b ↔ q < b ∧ q.Prime := by
  rw [NT.sieve_eq, List.mem_filter, List.mem_range, decide_eq_true_eq]

theorem sieve_nodup (b : Nat) : (sieve b).Nodup := by
  rw [NT.sieve_eq]; exact List.Nodup.filter _ List.nodup_range

theorem sieve_prime (b : Nat) : ∀ p ∈ sieve b, p.Prime := fun p hp => ((mem_sieve b p).mp hp).2

/-- completeness of the trial division of Proofs/Pratt.lean below `257²`. -/
theorem trialFrom_complete {q : Nat} (hq : q.Prime) : ∀ (fuel d : Nat), 2 ≤ d → 1 ≤ fuel →
    q < (d + fuel - 1) * (d + fuel - 1) → Pratt.trialFrom q fuel d = true
  | 0, _, _, h, _ => by omega
  | fuel + 1, d, hd, _, hlt => by
    rw [Pratt.trialFrom]
    by_cases h1 : q < d * d
    · have : Nat.blt q (d * d) = true := Nat.blt_eq.mpr h1
      rw [this]; rfl
    · have hb : Nat.blt q (d * d) = false := by
        rw [Bool.eq_false_iff]; intro hh; exact h1 (Nat.blt_eq.mp hh)
      rw [hb, cond_false]
      have hdq : d < q := by nlinarith
      have hnd : ¬ d ∣ q := fun hdvd => by
        rcases (Nat.dvd_prime hq).mp hdvd with h | h <;> omega
      have hb2 : Nat.beq (q % d) 0 = false := by
        rw [Pratt.nat_beq_false]; intro h0; exact hnd (Nat.dvd_of_mod_eq_zero h0)
      rw [hb2, cond_false]
      have hf : 1 ≤ fuel := by
        by_contra hf0
        have : fuel = 0 := by omega
        subst this
        simp at hlt; exact h1 hlt
      exact trialFrom_complete hq fuel (d + 1) (by omega) hf (by
        have : d + 1 + fuel - 1 = d + (fuel + 1) - 1 := by omega
        rw [this]; exact hlt)

theorem smallPrime_iff {q : Nat} (hq : q < 257 * 257) : Pratt.smallPrime q = true ↔ q.Prime := by
  constructor
  · exact Pratt.smallPrime_sound
  · intro hp
    rw [Pratt.smallPrime, Bool.and_eq_true]
    exact ⟨Nat.ble_eq_true_of_le hp.two_le, trialFrom_complete hp 256 2 (le_refl 2) (by omega) hq⟩

/-- there are exactly 150 primes below 864 (863 is the 150th prime). -/
theorem sieve_864_length : (sieve 864).length = 150 := by
  have h : sieve 864 = (List.range 864).filter Pratt.smallPrime := by
    rw [NT.sieve_eq]
    apply List.filter_congr
    intro x hx
    rw [List.mem_range] at hx
    by_cases hp : x.Prime
    · rw [decide_eq_true hp, (smallPrime_iff (by omega)).mpr hp]
    · rw [decide_eq_false hp]
      cases hs : Pratt.smallPrime x
      · rfl
      · exact absurd ((smallPrime_iff (by omega)).mp hs) hp
  rw [h]
  decide +kernel

theorem sieve_split (a b : Nat) (hab : a ≤ b) :
    sieve b = sieve a ++ (List.range' a (b - a)).filter (fun i => decide (Nat.Prime i)) := by
  rw [NT.sieve_eq, NT.sieve_eq, ← List.filter_append]
  congr 1
  rw [List.range_eq_range', List.range_eq_range']
  have : b = a + (b - a) := by omega
  conv_lhs => rw [this]
  rw [← List.range'_append_1, Nat.zero_add]

/-- the first 150 primes are the primes below 864. -/
theorem sieve_take_150 : (sieve (2 ^ 20)).take 150 = sieve 864 := by
  rw [sieve_split 864 (2 ^ 20) (by norm_num)]
  exact List.take_left' sieve_864_length

/-- the documented exponent of a prime `r` in the DEFAULT product: `⌊log_r 2^64⌋` for the first 150
primes (`r ≤ 863`), 1 for the other primes below `2^20`, 0 above. -/
def defaultExp (r : Nat) : Nat :=
  if r < 864 then Nat.log r (2 ^ 64) else if r < 2 ^ 20 then 1 else 0

/-- the documented exponent for a user bound `b`: `⌊log_r b⌋` for primes below `b`. -/
def boundExp (b r : Nat) : Nat := if r < b then Nat.log r b else 0

/-- the constructor's product with the documented exponents. -/
def documentedM (bound : Option Nat) : Nat := pollardProduct bound (pollardExpsDocumented bound)

/-- the default product (1 518 658 bits). -/
def defaultM : Nat := documentedM none

theorem documentedM_zero : documentedM (some 0) = defaultM := rfl

theorem defaultM_eq : defaultM = fastProduct (pollardPowers (sieve (2 ^ 20))
    (((sieve (2 ^ 20)).take 150).map (fun p => floorLog p (2 ^ 64)))) := rfl

theorem documentedM_some (b : Nat) (hb : b ≠ 0) : documentedM (some b) =
    fastProduct (pollardPowers (sieve b) (((sieve b).take (sieve b).length).map
      (fun p => floorLog p b))) := by
  rw [List.take_length]
  cases b with
  | zero => exact absurd rfl hb
  | succ n => rfl

theorem defaultM_pos : 0 < defaultM := by
  rw [defaultM_eq, fastProduct_eq_prod]
  exact Nat.pos_of_ne_zero (pollardPowers_prod_ne_zero _ _ (sieve_prime _))

theorem documentedM_pos (bound : Option Nat) : 0 < documentedM bound := by
  rcases bound with _ | b
  · exact defaultM_pos
  · by_cases hb : b = 0
    · subst hb; exact defaultM_pos
    · rw [documentedM_some b hb, fastProduct_eq_prod]
      exact Nat.pos_of_ne_zero (pollardPowers_prod_ne_zero _ _ (sieve_prime _))

/-- **The exact criterion for the default product.** -/
theorem dvd_defaultM_iff (g : Nat) (hg : g ≠ 0) : g ∣ defaultM ↔ PowerSmooth defaultExp g := by
  rw [defaultM_eq, dvd_pollardPowers_iff _ _ (sieve_prime _) (sieve_nodup _) g hg]
  have hE : ∀ r, r.Prime → expAt (sieve (2 ^ 20))
      (((sieve (2 ^ 20)).take 150).map (fun p => floorLog p (2 ^ 64))) r = defaultExp r := by
    intro r hr
    rw [expAt_map_take _ _ (sieve_nodup _), sieve_take_150, defaultExp]
    simp only [mem_sieve, hr, and_true]
    by_cases h1 : r < 864
    · rw [if_pos h1, if_pos h1, floorLog_eq_log r _ hr.two_le (Nat.one_le_two_pow)]
    · rw [if_neg h1, if_neg h1]
  constructor
  · intro h r k hr hk; rw [← hE r hr]; exact h r k hr hk
  · intro h r k hr hk; rw [hE r hr]; exact h r k hr hk

/-- **The exact criterion for a user bound `b ≥ 1`** (`b`-powersmooth, primes below `b`). -/
theorem dvd_documentedM_iff (b : Nat) (hb : b ≠ 0) (g : Nat) (hg : g ≠ 0) :
    g ∣ documentedM (some b) ↔ PowerSmooth (boundExp b) g := by
  rw [documentedM_some b hb, dvd_pollardPowers_iff _ _ (sieve_prime _) (sieve_nodup _) g hg]
  have hE : ∀ r, r.Prime → expAt (sieve b)
      (((sieve b).take (sieve b).length).map (fun p => floorLog p b)) r = boundExp b r := by
    intro r hr
    rw [expAt_map_take _ _ (sieve_nodup _), List.take_length, boundExp]
    simp only [mem_sieve, hr, and_true]
    by_cases h1 : r < b
    · rw [if_pos h1, if_pos h1, floorLog_eq_log r _ hr.two_le (by omega)]
    · rw [if_neg h1, if_neg h1, if_neg h1]
  constructor
  · intro h r k hr hk; rw [← hE r hr]; exact h r k hr hk
  · intro h r k hr hk; rw [hE r hr]; exact h r k hr hk

end Paranoid.PollardProduct
