/-
Proofs/Pratt.lean — a kernel-checkable Pratt (Lucas) primality certificate checker and its
soundness, used to discharge the primality hypothesis of the C11 theorems for the curve primes
regenerated into Generated/Consts.lean (section `pratt`, harness/consts/pratt.py).

A certificate is a flat list of steps in dependency order. A step `⟨q, a, fs⟩` claims
`q - 1 = ∏ rᵏ` over `(r, k) ∈ fs`, every `r` is prime (either `< 2^16` and prime by trial
division, or the subject of an EARLIER step) and `a` has order exactly `q - 1` modulo `q`:
`a^(q-1) ≡ 1` and `a^((q-1)/r) ≢ 1` for every listed `r`. Soundness is Mathlib's
`lucas_primality`; completeness of the listed factors follows from the product check.
The factorisations come from an untrusted search (harness/consts/pratt.py, cached in
harness/consts/pratt_cache.json): nothing about them is assumed.
-/
import ParanoidModel.Proofs.Pollard
import Mathlib.NumberTheory.LucasPrimality

namespace Paranoid.Pratt
open Paranoid

/-- trial division by `d, d+1, …` until `q < d²` (then `true`), a divisor is met or the fuel runs
out (`false`). -/
def trialFrom (q : Nat) : Nat → Nat → Bool
  | 0, _ => false
  | fuel + 1, d =>
    bif Nat.blt q (d * d) then true
    else bif Nat.beq (q % d) 0 then false
    else trialFrom q fuel (d + 1)

/-- primality by trial division with at most 256 divisors `2 … 257`: decides every `q < 257²`
(and answers `false` on larger primes: never wrongly `true`). -/
def smallPrime (q : Nat) : Bool := Nat.ble 2 q && trialFrom q 256 2

theorem trialFrom_sound (q : Nat) : ∀ (fuel d : Nat), trialFrom q fuel d = true →
    (∀ m, 2 ≤ m → m < d → ¬ m ∣ q) → ∀ m, 2 ≤ m → m * m ≤ q → ¬ m ∣ q
  | 0, _, h, _ => by simp [trialFrom] at h
  | fuel + 1, d, h, hlow => by
    intro m hm2 hmm
    rw [trialFrom] at h
    by_cases h1 : q < d * d
    · have hmd : m < d := by
        by_contra hge
        have : d * d ≤ m * m := Nat.mul_le_mul (by omega) (by omega)
        omega
      exact hlow m hm2 hmd
    · have hb : Nat.blt q (d * d) = false := by
        rw [Bool.eq_false_iff]; intro hh; exact h1 (Nat.blt_eq.mp hh)
      rw [hb, cond_false] at h
      by_cases h2 : q % d = 0
      · have hb2 : Nat.beq (q % d) 0 = true := by rw [h2]; rfl
        rw [hb2, cond_true] at h
        exact absurd h (by simp)
      · have hb2 : Nat.beq (q % d) 0 = false := by
          rw [Bool.eq_false_iff]; intro hh; exact h2 (Nat.eq_of_beq_eq_true hh)
        rw [hb2, cond_false] at h
        refine trialFrom_sound q fuel (d + 1) h ?_ m hm2 hmm
        intro k hk2 hkd hdvd
        by_cases hkd' : k < d
        · exact hlow k hk2 hkd' hdvd
        · have : k = d := by omega
          subst this
          exact h2 (Nat.mod_eq_zero_of_dvd hdvd)

theorem smallPrime_sound {q : Nat} (h : smallPrime q = true) : q.Prime := by
  rw [smallPrime, Bool.and_eq_true] at h
  rw [Nat.prime_def_le_sqrt]
  refine ⟨Nat.le_of_ble_eq_true h.1, fun m hm2 hms => ?_⟩
  exact trialFrom_sound q 256 2 h.2 (fun k hk2 hk => by omega) m hm2 (Nat.le_sqrt.mp hms)

theorem nat_beq_true (a b : Nat) : Nat.beq a b = true ↔ a = b :=
  ⟨Nat.eq_of_beq_eq_true, fun h => h ▸ Nat.beq_refl a⟩

theorem nat_beq_false (a b : Nat) : Nat.beq a b = false ↔ a ≠ b := by
  rw [Ne, ← nat_beq_true, Bool.not_eq_true]

theorem nat_ble_true (a b : Nat) : Nat.ble a b = true ↔ a ≤ b :=
  ⟨Nat.le_of_ble_eq_true, Nat.ble_eq_true_of_le⟩

/-- `powModAux` (Model/Basic.lean) with `Bool` tests: the same function, about five times fewer
kernel reduction steps per squaring. -/
def powModKAux (m : Nat) : Nat → Nat → Nat → Nat → Nat
  | 0, _, _, acc => acc
  | fuel + 1, b, e, acc =>
    bif Nat.beq e 0 then acc
    else powModKAux m fuel (b * b % m) (e / 2) (bif Nat.beq (e % 2) 1 then acc * b % m else acc)

def powModK (b e m : Nat) : Nat := powModKAux m (bitLength e) (b % m) e (1 % m)

theorem powModKAux_eq (m : Nat) : ∀ fuel b e acc, powModKAux m fuel b e acc = powModAux m fuel b e acc
  | 0, _, _, _ => rfl
  | fuel + 1, b, e, acc => by
    simp only [powModKAux, powModAux, Bool.cond_eq_ite, nat_beq_true, powModKAux_eq m fuel]

theorem powModK_eq (b e m : Nat) (hm : 0 < m) : powModK b e m = b ^ e % m := by
  rw [← powMod_eq b e m hm, powModK, powMod, powModKAux_eq]

/-- one Lucas step: the claimed prime, a primitive root, the factorisation of `p - 1`. -/
structure Step where
  p : Nat
  a : Nat
  fs : List (Nat × Nat)
  deriving Repr, DecidableEq

/-- `∏ rᵏ`. -/
def prodPow : List (Nat × Nat) → Nat
  | [] => 1
  | (r, k) :: l => r ^ k * prodPow l

theorem dvd_prodPow {q : Nat} (hq : q.Prime) : ∀ {fs : List (Nat × Nat)}, q ∣ prodPow fs →
    ∃ rk ∈ fs, q ∣ rk.1
  | [], h => by
    rw [prodPow, Nat.dvd_one] at h
    exact absurd h hq.one_lt.ne'
  | (r, k) :: l, h => by
    rw [prodPow] at h
    rcases (Nat.Prime.dvd_mul hq).mp h with h1 | h1
    · exact ⟨(r, k), List.mem_cons_self, hq.dvd_of_dvd_pow h1⟩
    · obtain ⟨rk, hm, hd⟩ := dvd_prodPow hq h1
      exact ⟨rk, List.mem_cons_of_mem _ hm, hd⟩

/-- the check of one step against the primes certified so far. -/
def stepOK (known : List Nat) (s : Step) : Bool :=
  Nat.ble 2 s.p && Nat.beq (prodPow s.fs) (s.p - 1) && Nat.beq (powModK s.a (s.p - 1) s.p) 1 &&
    s.fs.all fun rk => (smallPrime rk.1 || known.contains rk.1) &&
      !Nat.beq (powModK s.a ((s.p - 1) / rk.1) s.p) 1

theorem stepOK_sound {known : List Nat} (hk : ∀ q ∈ known, q.Prime) {s : Step}
    (h : stepOK known s = true) : s.p.Prime := by
  simp only [stepOK, Bool.and_eq_true, List.all_eq_true, Bool.or_eq_true, List.contains_iff_mem,
    nat_beq_true, nat_ble_true, Bool.not_eq_true', nat_beq_false] at h
  obtain ⟨⟨⟨h2, hprod⟩, hone⟩, hall⟩ := h
  have hp0 : 0 < s.p := by omega
  have h1 : (1 : Nat) % s.p = 1 := Nat.mod_eq_of_lt (by omega)
  refine lucas_primality s.p (s.a : ZMod s.p) ?_ ?_
  · rw [powModK_eq _ _ _ hp0] at hone
    have : ((s.a ^ (s.p - 1) : Nat) : ZMod s.p) = ((1 : Nat) : ZMod s.p) := by
      rw [ZMod.natCast_eq_natCast_iff']; rw [hone, h1]
    simpa using this
  · intro q hq hdvd
    rw [← hprod] at hdvd
    obtain ⟨rk, hmem, hqr⟩ := dvd_prodPow hq hdvd
    obtain ⟨hpr, hne⟩ := hall rk hmem
    have hrp : rk.1.Prime := by
      rcases hpr with h' | h'
      · exact smallPrime_sound h'
      · exact hk _ h'
    have hqeq : q = rk.1 := (Nat.prime_dvd_prime_iff_eq hq hrp).mp hqr
    rw [powModK_eq _ _ _ hp0, ← hqeq] at hne
    intro hcontra
    apply hne
    have : ((s.a ^ ((s.p - 1) / q) : Nat) : ZMod s.p) = ((1 : Nat) : ZMod s.p) := by
      simpa using hcontra
    rw [ZMod.natCast_eq_natCast_iff'] at this
    rw [this, h1]

/-- check a chain of steps, each allowed to use the primes of the steps before it. -/
def chainOK (known : List Nat) : List Step → Bool
  | [] => true
  | s :: l => stepOK known s && chainOK (s.p :: known) l

theorem chainOK_sound : ∀ {known : List Nat} {l : List Step}, (∀ q ∈ known, q.Prime) →
    chainOK known l = true → ∀ s ∈ l, s.p.Prime
  | _, [], _, _, s, hs => by cases hs
  | known, s :: l, hk, h, t, ht => by
    rw [chainOK, Bool.and_eq_true] at h
    have hs := stepOK_sound hk h.1
    rcases List.mem_cons.mp ht with rfl | ht
    · exact hs
    · refine chainOK_sound (known := s.p :: known) ?_ h.2 t ht
      intro q hq
      rcases List.mem_cons.mp hq with rfl | hq
      · exact hs
      · exact hk q hq

/-- a Pratt certificate for `p`: a chain of Lucas steps, one of which is about `p`. -/
structure Cert where
  p : Nat
  chain : List Step
  deriving Repr

def prattCheck (c : Cert) : Bool :=
  chainOK [] c.chain && c.chain.any fun s => s.p == c.p

/-- soundness of the certificate checker. -/
theorem prattCheck_sound (c : Cert) (h : prattCheck c = true) : Nat.Prime c.p := by
  simp only [prattCheck, Bool.and_eq_true, List.any_eq_true, beq_iff_eq] at h
  obtain ⟨hc, s, hs, heq⟩ := h
  exact heq ▸ chainOK_sound (by simp) hc s hs

/-- the form used by the per-curve theorems: the certificate is about the stated number. -/
theorem prime_of_cert (c : Cert) (q : Nat) (h : (prattCheck c && c.p == q) = true) : Nat.Prime q := by
  rw [Bool.and_eq_true, beq_iff_eq] at h
  exact h.2 ▸ prattCheck_sound c h.1

/-! non-vacuity / regression: a good certificate, and bad ones that must be rejected -/

example : prattCheck ⟨65537, [⟨65537, 3, [(2, 16)]⟩]⟩ = true := by decide +kernel
example : prattCheck ⟨1000003, [⟨1000003, 2, [(2, 1), (3, 1), (166667, 1)]⟩]⟩ = false := by
  decide +kernel   -- 166667 is neither small nor certified
example : prattCheck ⟨1000003, [⟨166667, 2, [(2, 1), (167, 1), (499, 1)]⟩,
    ⟨1000003, 2, [(2, 1), (3, 1), (166667, 1)]⟩]⟩ = true := by decide +kernel
example : prattCheck ⟨561, [⟨561, 2, [(2, 4), (5, 1), (7, 1)]⟩]⟩ = false := by decide +kernel
example : smallPrime 65521 = true ∧ smallPrime 65535 = false ∧ smallPrime 1 = false ∧
    smallPrime 2 = true ∧ smallPrime 65537 = true ∧ smallPrime 66049 = false ∧
    smallPrime 1000003 = false := by decide +kernel

end Paranoid.Pratt
