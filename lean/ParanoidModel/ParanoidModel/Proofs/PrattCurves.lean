/-
Proofs/PrattCurves.lean — kernel-checked primality of the curve field primes and group orders
regenerated from `ec_util.CURVE_FACTORY`, by the Pratt certificates of Generated/Consts.lean
(section `pratt`, harness/consts/pratt.py). Each theorem evaluates `prattCheck` on the certificate
AND compares its subject with the curve constant, so a changed constant or a stale certificate
breaks the build. Primes whose certificate search failed are absent here and listed in
`Consts.prattStatus` (Props/C11Primes.lean `uncertified`).
-/
import ParanoidModel.Proofs.Pratt
import ParanoidModel.Proofs.EcCurves
namespace Paranoid.Pratt
open Paranoid Paranoid.Ec

/-- `(q, [(prime, witness, [(r, k)])])` as emitted by harness/consts/pratt.py. -/
def Cert.ofTuple (t : Nat × List (Nat × Nat × List (Nat × Nat))) : Cert :=
  ⟨t.1, t.2.map fun s => ⟨s.1, s.2.1, s.2.2⟩⟩

theorem secp256r1_p_prime : Nat.Prime secp256r1.p :=
  prime_of_cert (.ofTuple Consts.pratt_secp256r1_p) _ (by decide +kernel)
theorem secp256r1_n_prime : Nat.Prime secp256r1.n :=
  prime_of_cert (.ofTuple Consts.pratt_secp256r1_n) _ (by decide +kernel)
theorem secp384r1_p_prime : Nat.Prime secp384r1.p :=
  prime_of_cert (.ofTuple Consts.pratt_secp384r1_p) _ (by decide +kernel)
theorem secp384r1_n_prime : Nat.Prime secp384r1.n :=
  prime_of_cert (.ofTuple Consts.pratt_secp384r1_n) _ (by decide +kernel)
theorem secp192r1_p_prime : Nat.Prime secp192r1.p :=
  prime_of_cert (.ofTuple Consts.pratt_secp192r1_p) _ (by decide +kernel)
theorem secp192r1_n_prime : Nat.Prime secp192r1.n :=
  prime_of_cert (.ofTuple Consts.pratt_secp192r1_n) _ (by decide +kernel)
theorem secp224r1_p_prime : Nat.Prime secp224r1.p :=
  prime_of_cert (.ofTuple Consts.pratt_secp224r1_p) _ (by decide +kernel)
theorem secp224r1_n_prime : Nat.Prime secp224r1.n :=
  prime_of_cert (.ofTuple Consts.pratt_secp224r1_n) _ (by decide +kernel)
theorem secp521r1_p_prime : Nat.Prime secp521r1.p :=
  prime_of_cert (.ofTuple Consts.pratt_secp521r1_p) _ (by decide +kernel)
theorem secp521r1_n_prime : Nat.Prime secp521r1.n :=
  prime_of_cert (.ofTuple Consts.pratt_secp521r1_n) _ (by decide +kernel)
theorem secp256k1_p_prime : Nat.Prime secp256k1.p :=
  prime_of_cert (.ofTuple Consts.pratt_secp256k1_p) _ (by decide +kernel)
theorem secp256k1_n_prime : Nat.Prime secp256k1.n :=
  prime_of_cert (.ofTuple Consts.pratt_secp256k1_n) _ (by decide +kernel)
theorem brainpoolP256r1_p_prime : Nat.Prime brainpoolP256r1.p :=
  prime_of_cert (.ofTuple Consts.pratt_brainpoolP256r1_p) _ (by decide +kernel)
theorem brainpoolP256r1_n_prime : Nat.Prime brainpoolP256r1.n :=
  prime_of_cert (.ofTuple Consts.pratt_brainpoolP256r1_n) _ (by decide +kernel)
theorem brainpoolP384r1_p_prime : Nat.Prime brainpoolP384r1.p :=
  prime_of_cert (.ofTuple Consts.pratt_brainpoolP384r1_p) _ (by decide +kernel)
theorem brainpoolP384r1_n_prime : Nat.Prime brainpoolP384r1.n :=
  prime_of_cert (.ofTuple Consts.pratt_brainpoolP384r1_n) _ (by decide +kernel)
theorem brainpoolP512r1_p_prime : Nat.Prime brainpoolP512r1.p :=
  prime_of_cert (.ofTuple Consts.pratt_brainpoolP512r1_p) _ (by decide +kernel)
theorem brainpoolP512r1_n_prime : Nat.Prime brainpoolP512r1.n :=
  prime_of_cert (.ofTuple Consts.pratt_brainpoolP512r1_n) _ (by decide +kernel)

/-- regression: a certificate only proves the number it is about (the `c.p == q` conjunct). -/
example : (prattCheck (.ofTuple Consts.pratt_secp192r1_p) &&
    (Cert.ofTuple Consts.pratt_secp192r1_p).p == secp192r1.n) = false := by decide +kernel
/-- … and an empty chain (what harness/consts/pratt.py emits when it has no certificate) proves nothing. -/
example : prattCheck ⟨secp192r1.p, []⟩ = false := by decide +kernel

end Paranoid.Pratt
