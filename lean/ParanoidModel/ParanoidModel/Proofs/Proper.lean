/-
Proofs/Proper.lean — the proper-divisor clause of C01 for the three factoring checks whose result
is not guarded by `1 < g < n`: FermatFactor, FactorHighAndLowBitsEqual, CheckLowHammingWeight.

 * `proper_of_sq`: a split `n = (S − b)(S + b)` is the trivial one only for `S = (n + 1) / 2`;
 * `fermatFactor_proper`: the loop tests `S ∈ [⌈√n⌉, ⌈√n⌉ + steps)`, below `(n + 1) / 2` when
   `steps + ⌊√n⌋ < (n + 1) / 2`; `fermatFactor_trivial_of_huge_bound`: the bound is sharp;
 * `hlbe_proper`: the bit-fixing walk stays below `⌈√n⌉ + 2^k ≤ (n + 1) / 2` (no hypothesis);
 * `lhw_proper`: heap invariant `p, q ≥ 1`, a reported pair is `(2p + dp, 2q + dq)` (no hypothesis);
 * `vFermat_proper`, `vHlbe_proper`, `vLhw_proper`: the per-key verdicts.
-/
import ParanoidModel.Proofs.Factoring
import ParanoidModel.Proofs.RsaChecks
import ParanoidModel.Proofs.Fermat
import ParanoidModel.Proofs.HlbeComplete
import Mathlib.Tactic.IntervalCases

namespace Paranoid

/-- a difference-of-squares split `n = (S − b)(S + b)` with `2S < n + 1` is proper: the trivial
split `1 · n` is the one with `S = (n + 1) / 2`. -/
theorem proper_of_sq (S b n : Nat) (h : b * b + n = S * S) (hn : 2 ≤ n) (hS : 2 * S < n + 1) :
    1 < S - b ∧ S - b < n ∧ 1 < S + b ∧ S + b < n := by
  have hprod := sq_sub_sq_nat S b n h
  have hbS : b ≤ S := by
    by_contra hc
    have := Nat.mul_self_lt_mul_self (Nat.lt_of_not_le hc)
    omega
  obtain ⟨x, hx⟩ : ∃ x, x = S - b := ⟨_, rfl⟩
  obtain ⟨y, hy⟩ : ∃ y, y = S + b := ⟨_, rfl⟩
  rw [← hx, ← hy] at hprod ⊢
  have hx0 : x ≠ 0 := by
    rintro rfl
    simp at hprod
    omega
  have hx1 : x ≠ 1 := by
    rintro rfl
    simp at hprod
    omega
  have hx2 : 2 ≤ x := by omega
  have h1 : y * 2 ≤ y * x := Nat.mul_le_mul_left y hx2
  have h2 : 2 * x ≤ y * x := Nat.mul_le_mul_right x (by omega)
  omega

/-! ### FermatFactor -/

/-- what the loop returns: the pair `(S + b, S − b)` for a tested `S ∈ [a, a + steps)` with
`S² − b² = n`. -/
theorem fermatLoop_shape (n : Nat) : ∀ (steps a b2 p q : Nat), b2 + n = a * a →
    fermatLoop steps a b2 = some (p, q) →
    ∃ S b, a ≤ S ∧ S < a + steps ∧ b * b + n = S * S ∧ p = S + b ∧ q = S - b
  | 0, _, _, _, _, _, h => by simp [fermatLoop] at h
  | steps + 1, a, b2, p, q, hinv, h => by
    unfold fermatLoop at h
    split at h
    · rename_i hsq
      rw [isSquare_iff] at hsq
      simp only [isqrt, Option.some.injEq, Prod.mk.injEq] at h
      obtain ⟨rfl, rfl⟩ := h
      exact ⟨a, Nat.sqrt b2, Nat.le_refl _, by omega, by omega, rfl, rfl⟩
    · obtain ⟨S, b, h1, h2, h3, h4, h5⟩ :=
        fermatLoop_shape n steps (a + 1) (b2 + a + (a + 1)) p q
          (by have : (a + 1) * (a + 1) = a * a + a + (a + 1) := by ring
              omega) h
      exact ⟨S, b, by omega, by omega, h3, h4, h5⟩

/-- ★ FermatFactor on an odd non-square `n`: with `steps + ⌊√n⌋ < (n + 1) / 2` the loop never
reaches `a = (n + 1) / 2`, the only `a` whose split is `n · 1`. -/
theorem fermatFactor_proper_odd (n steps p q : Nat) (hodd : n % 2 = 1)
    (hb : steps + Nat.sqrt n < (n + 1) / 2) (hns : Nat.sqrt n * Nat.sqrt n ≠ n)
    (h : fermatFactor n steps = some (p, q)) : 1 < q ∧ q < n ∧ 1 < p ∧ p < n := by
  unfold fermatFactor at h
  rw [if_neg (by omega), if_neg (by simpa [isqrt] using hns)] at h
  have h1 : n < (Nat.sqrt n + 1) * (Nat.sqrt n + 1) := Nat.lt_succ_sqrt n
  simp only [isqrt] at h
  obtain ⟨S, b, _, hS, hsq, rfl, rfl⟩ := fermatLoop_shape n _ _ _ p q (by omega) h
  have hn2 : 2 ≤ n := by
    by_contra hc
    have : n = 1 := by omega
    subst this
    exact hns (by decide)
  exact proper_of_sq S b n hsq hn2 (by omega)

/-- ★ FermatFactor, every branch: even `n ≥ 4` gives `(2, n/2)`, a square `n = a²` gives
`(a, a)`, and an odd non-square `n` gives a proper pair when the step bound stays below
`(n + 1) / 2 − ⌊√n⌋`. -/
theorem fermatFactor_proper (n steps p q : Nat) (hn : 4 ≤ n)
    (hb : n % 2 = 1 → steps + Nat.sqrt n < (n + 1) / 2)
    (h : fermatFactor n steps = some (p, q)) : 1 < q ∧ q < n ∧ 1 < p ∧ p < n := by
  by_cases heven : n % 2 = 0
  · unfold fermatFactor at h
    rw [if_pos heven] at h
    simp only [Option.some.injEq, Prod.mk.injEq] at h
    obtain ⟨rfl, rfl⟩ := h
    omega
  · by_cases hsq : Nat.sqrt n * Nat.sqrt n = n
    · unfold fermatFactor at h
      rw [if_neg heven, if_pos (by simpa [isqrt] using hsq)] at h
      simp only [isqrt, Option.some.injEq, Prod.mk.injEq] at h
      obtain ⟨rfl, rfl⟩ := h
      obtain ⟨s, hs⟩ : ∃ s, s = Nat.sqrt n := ⟨_, rfl⟩
      rw [← hs] at hsq ⊢
      have hs2 : 2 ≤ s := by
        by_contra hc
        have : s = 0 ∨ s = 1 := by omega
        rcases this with rfl | rfl <;> omega
      have := Nat.mul_le_mul_left s hs2
      omega
    · exact fermatFactor_proper_odd n steps p q (by omega) (hb (by omega)) hsq h

/-- the default step bound is far below `(n + 1) / 2 − ⌊√n⌋` for every modulus the entry point
accepts. -/
theorem fermat_bound_of_big (n steps : Nat) (hn : 2 ^ 63 ≤ n) (hs : steps ≤ 2 ^ 61) :
    steps + Nat.sqrt n < (n + 1) / 2 := by
  have h1 : Nat.sqrt n * Nat.sqrt n ≤ n := Nat.sqrt_le n
  have h2 : 2 ^ 31 ≤ Nat.sqrt n := Nat.le_sqrt.2 (by omega)
  have h3 : Nat.sqrt n * 2 ^ 31 ≤ Nat.sqrt n * Nat.sqrt n := Nat.mul_le_mul_left _ h2
  omega

/-! #### the hypothesis on the step bound is necessary -/

/-- for an odd prime `n` the only tested value with a square difference is `(n + 1) / 2`. -/
theorem sqAt_prime {n a : Nat} (hp : n.Prime) (hodd : n % 2 = 1) (ha : n ≤ a * a) :
    SqAt n a ↔ a = (n + 1) / 2 := by
  have hn3 : 3 ≤ n := by have := hp.two_le; omega
  constructor
  · intro h
    unfold SqAt at h
    rw [isSquare_iff] at h
    obtain ⟨b, hb⟩ : ∃ b, b = Nat.sqrt (a * a - n) := ⟨_, rfl⟩
    rw [← hb] at h
    have hba : b * b + n = a * a := by omega
    have hfac := sq_sub_sq_nat a b n hba
    have hble : b ≤ a := by
      by_contra hc
      have := Nat.mul_self_lt_mul_self (Nat.lt_of_not_le hc)
      omega
    have hd : (a - b) ∣ n := Dvd.intro_left _ hfac
    rcases (Nat.dvd_prime hp).mp hd with h1 | h1
    · rw [h1, Nat.mul_one] at hfac
      omega
    · exfalso
      rw [h1] at hfac
      have : a + b = 1 := by
        have h' : (a + b) * n = 1 * n := by rw [hfac, Nat.one_mul]
        exact Nat.eq_of_mul_eq_mul_right (by omega) h'
      have : a ≤ 1 := by omega
      have : a * a ≤ 1 * 1 := Nat.mul_le_mul this this
      omega
  · intro h
    unfold SqAt
    rw [isSquare_iff]
    obtain ⟨m, hm⟩ : ∃ m, n = 2 * m + 1 := ⟨n / 2, by omega⟩
    have ha' : a = m + 1 := by omega
    have : a * a - n = m * m := by
      rw [ha', hm]
      have : (m + 1) * (m + 1) = 2 * m + 1 + m * m := by ring
      omega
    rw [this, Nat.sqrt_eq]

/-- ★ the converse: for an odd prime `n` and a step bound that reaches `(n + 1) / 2`
(`steps ≥ (n + 1) / 2 − ⌊√n⌋`) FermatFactor returns the trivial pair `(n, 1)`. The bound in
`fermatFactor_proper` is therefore sharp. -/
theorem fermatFactor_trivial_of_huge_bound (n steps : Nat) (hp : n.Prime) (hodd : n % 2 = 1)
    (hs : (n + 1) / 2 ≤ Nat.sqrt n + steps) : fermatFactor n steps = some (n, 1) := by
  have hn3 : 3 ≤ n := by have := hp.two_le; omega
  obtain ⟨s, hs'⟩ : ∃ s, s = Nat.sqrt n := ⟨_, rfl⟩
  have h1 : n < (s + 1) * (s + 1) := hs' ▸ Nat.lt_succ_sqrt n
  have h2 : s * s ≤ n := hs' ▸ Nat.sqrt_le n
  have hns : s * s ≠ n := by
    intro hsq
    have hd : s ∣ n := Dvd.intro _ hsq
    rcases (Nat.dvd_prime hp).mp hd with rfl | rfl
    · omega
    · have : s * 2 ≤ s * s := Nat.mul_le_mul_left s (by omega)
      omega
  obtain ⟨m, hm⟩ : ∃ m, n = 2 * m + 1 := ⟨n / 2, by omega⟩
  have hmm : (m + 1) * (m + 1) = m * m + n := by rw [hm]; ring
  have hsm : s + 1 ≤ m + 1 := by
    by_contra hc
    have : m + 1 ≤ s := by omega
    have := Nat.mul_le_mul this this
    have : m = 0 := by
      by_contra h0
      have : 0 < m * m := Nat.mul_pos (by omega) (by omega)
      omega
    omega
  rw [← hs'] at hs
  unfold fermatFactor
  rw [if_neg (by omega), if_neg (by simpa [isqrt, ← hs'] using hns)]
  simp only [isqrt, ← hs']
  obtain ⟨k, hk⟩ : ∃ k, s + 1 + k = m + 1 := ⟨m - s, by omega⟩
  rw [fermatLoop_first n steps (s + 1) _ k (by omega) (by omega)]
  · rw [hk]
    have : (m + 1) * (m + 1) - n = m * m := by omega
    rw [this, Nat.sqrt_eq]
    have e1 : m + 1 + m = n := by omega
    have e2 : m + 1 - m = 1 := by omega
    rw [e1, e2]
  · intro j hj hsq
    have hle : (s + 1) * (s + 1) ≤ (s + 1 + j) * (s + 1 + j) :=
      Nat.mul_le_mul (by omega) (by omega)
    have := (sqAt_prime hp hodd (by omega)).1 hsq
    omega
  · rw [hk]
    exact (sqAt_prime hp hodd (by omega)).2 (by omega)

/-! ### FactorHighAndLowBitsEqual -/

/-- a hit of the inner loop: `[S − b, S + b]` with `S² − b² = n` for a tested `S ≤ s + cnt·step`. -/
theorem hlbeInner_shape (n step : Nat) : ∀ (cnt s : Nat) (fs : List Nat),
    hlbeInner n step cnt s = .inl fs →
    ∃ S b, S ≤ s + cnt * step ∧ b * b + n = S * S ∧ fs = [S - b, S + b]
  | 0, _, _, h => by simp [hlbeInner] at h
  | cnt + 1, s, fs, h => by
    unfold hlbeInner at h
    simp only at h
    have e : s + (cnt + 1) * step = s + step + cnt * step := by ring
    rw [e]
    generalize s + step = S at h
    split at h
    · rename_i hsq
      rw [isSquareI_iff] at hsq
      obtain ⟨hd, hs⟩ := hsq
      simp only [Sum.inl.injEq] at h
      refine ⟨S, isqrt ((S : Int) * S - n).toNat, Nat.le_add_right _ _, ?_, h.symm⟩
      simp only [isqrt]
      rw [hs]
      have h2 := Int.toNat_of_nonneg hd
      zify
      rw [h2]; ring
    · obtain ⟨S', b, h1, h2, h3⟩ := hlbeInner_shape n step cnt S fs h
      exact ⟨S', b, h1, h2, h3⟩

/-- a miss of the inner loop ends `cnt` steps further. -/
theorem hlbeInner_inr (n step cnt s s' : Nat) (h : hlbeInner n step cnt s = .inr s') :
    s' = s + cnt * step := by
  rcases hlbeInner_spec n step cnt s with ⟨fs, hfs⟩ | ⟨h1, _⟩
  · rw [hfs] at h; cases h
  · rw [h1] at h; cases h; rfl

/-- the bit-fixing walk from index `i` with `fuel` indices left moves `s` by less than
`2^(i+fuel) − 2^i`: a hit is `[S − b, S + b]`, `S² − b² = n`, `S + 2^i ≤ s + 2^(i+fuel)`. -/
theorem hlbeBits_shape (n r mb : Nat) : ∀ (fuel i s : Nat) (fs : List Nat),
    hlbeBits n r mb fuel i s = some fs →
    ∃ S b, S + 2 ^ i ≤ s + 2 ^ (i + fuel) ∧ b * b + n = S * S ∧ fs = [S - b, S + b]
  | 0, _, _, _, h => by simp [hlbeBits] at h
  | fuel + 1, i, s, fs, h => by
    have hpow : 2 ^ (i + 1) ≤ 2 ^ (i + (fuel + 1)) :=
      Nat.pow_le_pow_right (by norm_num) (by omega)
    have hsucc : 2 ^ (i + 1) = 2 * 2 ^ i := by rw [Nat.pow_succ]; ring
    have hexp : i + 1 + fuel = i + (fuel + 1) := by omega
    unfold hlbeBits at h
    split at h
    · simp only at h
      have htot : 2 ^ (min mb i) * 2 ^ (i - min mb i) = 2 ^ i := by
        rw [← Nat.pow_add]; congr 1; omega
      split at h
      · rename_i fs' hin
        simp only [Option.some.injEq] at h
        subst h
        obtain ⟨S, b, h1, h2, h3⟩ := hlbeInner_shape _ _ _ _ _ hin
        rw [htot] at h1
        exact ⟨S, b, by omega, h2, h3⟩
      · rename_i s' hin
        have hs' := hlbeInner_inr _ _ _ _ _ hin
        rw [htot] at hs'
        obtain ⟨S, b, h1, h2, h3⟩ := hlbeBits_shape n r mb fuel _ _ fs h
        rw [hexp] at h1
        exact ⟨S, b, by omega, h2, h3⟩
    · obtain ⟨S, b, h1, h2, h3⟩ := hlbeBits_shape n r mb fuel _ _ fs h
      rw [hexp] at h1
      exact ⟨S, b, by omega, h2, h3⟩

/-- what FactorHighAndLowBitsEqual returns: the guards passed and the pair is `[S − b, S + b]`
with `S² − b² = n` and `S < ⌈√n⌉ + 2^k`, `k = (bitLength n + 1) / 2`. -/
theorem hlbe_shape (n mb : Nat) (fs : List Nat)
    (h : factorHighAndLowBitsEqual n mb = .ok (some fs)) :
    6 ≤ bitLength n ∧ n % 8 = 1 ∧
    ∃ S b, S < Nat.sqrt (n - 1) + 1 + 2 ^ ((bitLength n + 1) / 2) ∧ b * b + n = S * S ∧
      fs = [S - b, S + b] := by
  unfold factorHighAndLowBitsEqual at h
  split at h
  · simp at h
  · rename_i h6
    split at h
    · simp at h
    · rename_i h8
      refine ⟨by omega, by omega, ?_⟩
      simp only at h
      split at h
      · simp at h
      · split at h
        · simp at h
        · have key : ∀ r, hlbeBits n r mb ((bitLength n + 1) / 2) 0 (isqrt (n - 1) + 1) = some fs →
              ∃ S b, S < Nat.sqrt (n - 1) + 1 + 2 ^ ((bitLength n + 1) / 2) ∧ b * b + n = S * S ∧
                fs = [S - b, S + b] := by
            intro r hr
            obtain ⟨S, b, h1, h2, h3⟩ := hlbeBits_shape _ _ _ _ _ _ _ hr
            simp only [Nat.pow_zero, Nat.zero_add, isqrt] at h1
            exact ⟨S, b, by omega, h2, h3⟩
          split at h
          · rename_i fs' hb
            simp only [Except.ok.injEq, Option.some.injEq] at h
            subst h
            exact key _ hb
          · simp only [Except.ok.injEq] at h
            exact key _ h

/-- the window of the walk ends below `(n + 1) / 2` for every `n` that passes the guards:
`2·(⌈√n⌉ + 2^k) ≤ n + 1`. -/
theorem hlbe_window (n : Nat) (h6 : 6 ≤ bitLength n) (h8 : n % 8 = 1) :
    2 * (Nat.sqrt (n - 1) + 1 + 2 ^ ((bitLength n + 1) / 2)) ≤ n + 1 := by
  have hn32 : 2 ^ 5 ≤ n := by
    by_contra hc
    have : bitLength n ≤ 5 := (Hlbe.bitLength_le_iff n 5).2 (by omega)
    omega
  obtain ⟨hlo, _, _⟩ := Hlbe.bitLength_bounds n (by omega)
  obtain ⟨L, hL⟩ : ∃ L, L = bitLength n := ⟨_, rfl⟩
  rw [← hL] at hlo h6 ⊢
  obtain ⟨s, hs⟩ : ∃ s, s = Nat.sqrt n := ⟨_, rfl⟩
  have h1 : n < (s + 1) * (s + 1) := hs ▸ Nat.lt_succ_sqrt n
  have h2 : s * s ≤ n := hs ▸ Nat.sqrt_le n
  have ha : Nat.sqrt (n - 1) ≤ s := hs ▸ Nat.sqrt_le_sqrt (Nat.sub_le n 1)
  obtain ⟨t, ht⟩ : ∃ t, t = 2 ^ ((L + 1) / 2) := ⟨_, rfl⟩
  rw [← ht]
  have htt : t * t ≤ 4 * n := by
    have e : t * t = 2 ^ (2 * ((L + 1) / 2)) := by rw [ht, ← Nat.pow_add]; congr 1; omega
    have e2 : 2 ^ (L + 1) = 4 * 2 ^ (L - 1) := by
      have : L + 1 = (L - 1) + 2 := by omega
      rw [this, Nat.pow_add]; ring
    have : 2 ^ (2 * ((L + 1) / 2)) ≤ 2 ^ (L + 1) := Nat.pow_le_pow_right (by norm_num) (by omega)
    omega
  have hts : t < 2 * s + 2 := by
    by_contra hc
    have h' : 2 * s + 2 ≤ t := by omega
    have := Nat.mul_le_mul h' h'
    have e : (2 * s + 2) * (2 * s + 2) = 4 * ((s + 1) * (s + 1)) := by ring
    omega
  have hkey : 6 * s + 3 ≤ n := by
    rcases Nat.lt_or_ge s 7 with hlt | hge
    · have hn : n ≤ 48 := by
        have : (s + 1) * (s + 1) ≤ 7 * 7 := Nat.mul_le_mul (by omega) (by omega)
        omega
      have hn' : 32 ≤ n := by simpa using hn32
      interval_cases s <;> omega
    · have := Nat.mul_le_mul_right s hge
      omega
  omega

/-- ★ FactorHighAndLowBitsEqual never returns the trivial split: for EVERY `n` (the guards
`bitLength n ≥ 6`, `n ≡ 1 (mod 8)` are part of the function) and every `middle_bits`. -/
theorem hlbe_proper (n mb x y : Nat) (h : factorHighAndLowBitsEqual n mb = .ok (some [x, y])) :
    1 < x ∧ x < n ∧ 1 < y ∧ y < n := by
  obtain ⟨h6, h8, S, b, hS, hsq, hfs⟩ := hlbe_shape n mb _ h
  have hw := hlbe_window n h6 h8
  have hpos := Nat.two_pow_pos ((bitLength n + 1) / 2)
  simp only [List.cons.injEq, and_true] at hfs
  obtain ⟨rfl, rfl⟩ := hfs
  exact proper_of_sq S b n hsq (by omega) (by omega)

/-! ### CheckLowHammingWeight -/

/-- every entry of the heap satisfies `P`. -/
def LHeap.All (P : LhwItem → Prop) : LHeap → Prop
  | .leaf => True
  | .node _ x l r => P x ∧ LHeap.All P l ∧ LHeap.All P r

theorem LHeap.all_mk {P : LhwItem → Prop} (x : LhwItem) (a b : LHeap) (hx : P x)
    (ha : a.All P) (hb : b.All P) : (LHeap.mk x a b).All P := by
  unfold LHeap.mk
  split
  · exact ⟨hx, ha, hb⟩
  · exact ⟨hx, hb, ha⟩

theorem LHeap.all_merge {P : LhwItem → Prop} (a b : LHeap) (ha : a.All P) (hb : b.All P) :
    (LHeap.merge a b).All P := by
  fun_induction LHeap.merge a b with
  | case1 h => exact hb
  | case2 h _ => exact ha
  | case3 r1 x l1 rr1 r2 y l2 rr2 hle ih =>
    exact LHeap.all_mk _ _ _ ha.1 ha.2.1 (ih ha.2.2 hb)
  | case4 r1 x l1 rr1 r2 y l2 rr2 hle ih =>
    exact LHeap.all_mk _ _ _ hb.1 hb.2.1 (ih ha hb.2.2)

theorem LHeap.all_push {P : LhwItem → Prop} (h : LHeap) (x : LhwItem) (hh : h.All P) (hx : P x) :
    (h.push x).All P :=
  LHeap.all_merge _ _ ⟨hx, trivial, trivial⟩ hh

theorem LHeap.all_pop {P : LhwItem → Prop} (h rest : LHeap) (x : LhwItem) (hh : h.All P)
    (hp : h.pop? = some (x, rest)) : P x ∧ rest.All P := by
  cases h with
  | leaf => cases hp
  | node r y l rr =>
    simp only [LHeap.pop?, Option.some.injEq, Prod.mk.injEq] at hp
    obtain ⟨rfl, rfl⟩ := hp
    exact ⟨hh.1, LHeap.all_merge _ _ hh.2.1 hh.2.2⟩

/-- the invariant of the search: both partial factors of every heap entry are positive. -/
def LhwPos (x : LhwItem) : Prop := 1 ≤ x.p ∧ 1 ≤ x.q

theorem lhwPush_all (h : LHeap) (p0 q0 hw bit rem : Nat) (hh : h.All LhwPos) (hp : 1 ≤ p0)
    (hq : 1 ≤ q0) : (lhwPush h p0 q0 hw bit rem).All LhwPos := by
  unfold lhwPush
  split
  · exact LHeap.all_push _ _ hh ⟨hp, hq⟩
  · exact hh

theorem lhwTry_cont_all (n0 p q hw bit : Nat) (h : LHeap) (dp dq : Nat) (h' : LHeap) (rp : Bool)
    (hh : h.All LhwPos) (hp : 1 ≤ p) (hq : 1 ≤ q)
    (ht : lhwTry n0 p q hw bit h dp dq = .cont h' rp) : h'.All LhwPos := by
  unfold lhwTry at ht
  simp only at ht
  split at ht
  · cases ht
  · split at ht
    · split at ht
      · simp only [LhwTry.cont.injEq] at ht
        rw [← ht.1]
        exact lhwPush_all _ _ _ _ _ _ hh (by omega) (by omega)
      · simp only [LhwTry.cont.injEq] at ht
        rw [← ht.1]; exact hh
    · split at ht
      · cases ht
      · simp only [LhwTry.cont.injEq] at ht
        rw [← ht.1]; exact hh

theorem lhwTry_found_eq (n0 p q hw bit : Nat) (h : LHeap) (dp dq a b : Nat)
    (ht : lhwTry n0 p q hw bit h dp dq = .found a b) : a = p + dp ∧ b = q + dq := by
  unfold lhwTry at ht
  simp only at ht
  split at ht
  · cases ht
  · split at ht
    · split at ht <;> cases ht
    · split at ht
      · simp only [LhwTry.found.injEq] at ht
        exact ⟨ht.1.symm, ht.2.symm⟩
      · cases ht

/-- what the inner loop may hand back: a pair of values `≥ 2`, or a heap that keeps the
invariant. -/
def LhwGood : Sum (Nat × Nat) LHeap → Prop
  | .inl pq => 2 ≤ pq.1 ∧ 2 ≤ pq.2
  | .inr h => h.All LhwPos

/-- the `while bit >= 1` loop: a found pair is `(2p' + dp, 2q' + dq)` with `p', q' ≥ 1`. -/
theorem lhwExtend_good (n hw : Nat) : ∀ (bit p q : Nat) (h : LHeap), h.All LhwPos → 1 ≤ p →
    1 ≤ q → LhwGood (lhwExtend n hw bit p q h)
  | 0, _, _, h, hh, _, _ => by simpa [lhwExtend, LhwGood] using hh
  | bit + 1, p, q, h, hh, hp, hq => by
    have ih := fun h' (hh' : h'.All LhwPos) =>
      lhwExtend_good n hw bit (2 * p) (2 * q) h' hh' (by omega) (by omega)
    have hfound : ∀ {hh' dp dq a b}, lhwTry (n >>> (2 * bit)) (2 * p) (2 * q) hw bit hh' dp dq
        = .found a b → LhwGood (.inl (a, b)) := by
      intro hh' dp dq a b hf
      obtain ⟨rfl, rfl⟩ := lhwTry_found_eq _ _ _ _ _ _ _ _ _ _ hf
      exact ⟨by show 2 ≤ 2 * p + dp; omega, by show 2 ≤ 2 * q + dq; omega⟩
    have hcont : ∀ {h0 dp dq h1 rp}, h0.All LhwPos →
        lhwTry (n >>> (2 * bit)) (2 * p) (2 * q) hw bit h0 dp dq = .cont h1 rp →
        h1.All LhwPos := by
      intro h0 dp dq h1 rp hh0 hc
      exact lhwTry_cont_all _ _ _ _ _ _ _ _ _ _ hh0 (by omega) (by omega) hc
    unfold lhwExtend
    simp only
    split
    · exact ih _ hh
    · rename_i a b h1; exact hfound h1
    · rename_i h1 rp1 hc1
      have hh1 := hcont hh hc1
      split
      · exact ih _ hh1
      · rename_i a b h2; exact hfound h2
      · rename_i h2 rp2 hc2
        have hh2 := hcont hh1 hc2
        split
        · exact ih _ hh2
        · rename_i a b h3; exact hfound h3
        · rename_i h3 rp3 hc3
          have hh3 := hcont hh2 hc3
          split
          · exact hh3
          · exact ih _ hh3

/-- the main loop: a returned pair has both values `≥ 2`. -/
theorem lhwMain_proper (n cutoff : Nat) : ∀ (fuel steps minv : Nat) (heap : LHeap) (a b : Nat),
    heap.All LhwPos → lhwMain n cutoff fuel steps minv heap = .inl (a, b) → 2 ≤ a ∧ 2 ≤ b
  | 0, _, _, _, _, _, _, hf => by simp [lhwMain] at hf
  | fuel + 1, steps, minv, heap, a, b, hh, hf => by
    unfold lhwMain at hf
    split at hf
    · simp at hf
    · rename_i item rest hpop
      obtain ⟨hitem, hrest⟩ := LHeap.all_pop _ _ _ hh hpop
      simp only at hf
      split at hf
      · simp at hf
      · have hgood := lhwExtend_good n item.hw item.bit item.p item.q rest hrest hitem.1 hitem.2
        split at hf
        · rename_i pq hext
          simp only [Sum.inl.injEq] at hf
          subst hf
          rw [hext] at hgood
          exact hgood
        · rename_i heap' hext
          rw [hext] at hgood
          exact lhwMain_proper n cutoff fuel _ _ _ a b hgood hf

/-- ★ CheckLowHammingWeight never reports the trivial split — for every `n`, cutoff and step
budget: the search starts from `p = q = 1` and doubles both before it can report. -/
theorem lhw_proper (n cutoff maxsteps : Nat) (w : Bool) (p0 q0 : Nat)
    (h : checkLowHammingWeight n cutoff maxsteps = (w, [p0, q0])) :
    1 < p0 ∧ p0 < n ∧ 1 < q0 ∧ q0 < n := by
  unfold checkLowHammingWeight at h
  simp only at h
  split at h
  · rename_i a b hm
    simp only [Prod.mk.injEq, List.cons.injEq, and_true] at h
    obtain ⟨_, rfl, rfl⟩ := h
    have hprod := lhwMain_sound _ _ _ _ _ _ _ _ hm
    obtain ⟨h1, h2⟩ := lhwMain_proper _ _ _ _ _ _ _ _
      (lhwPush_all LHeap.leaf 1 1 _ _ _ (show LHeap.leaf.All LhwPos from trivial) (Nat.le_refl 1)
        (Nat.le_refl 1)) hm
    have h3 : a * 2 ≤ a * b := Nat.mul_le_mul_left a h2
    have h4 : 2 * b ≤ a * b := Nat.mul_le_mul_right b h1
    omega
  · simp at h

/-! ### the per-key verdicts -/

/-- every recorded factor is a proper divisor candidate: `1 < f < n`. -/
def KeyVerdict.Proper (n : Nat) (v : KeyVerdict) : Prop := ∀ f ∈ v.factors, 1 < f ∧ f < n

theorem KeyVerdict.pass_proper (n : Nat) : KeyVerdict.Proper n KeyVerdict.pass := by
  intro f hf; cases hf

/-- CheckFermat for one key. -/
theorem vFermat_proper (n maxSteps : Nat) (hn : 4 ≤ n)
    (hb : n % 2 = 1 → maxSteps + Nat.sqrt n < (n + 1) / 2) : (vFermat n maxSteps).Proper n := by
  unfold vFermat
  split
  · rename_i p q h
    obtain ⟨h1, h2, h3, h4⟩ := fermatFactor_proper n maxSteps p q hn hb h
    intro f hf
    simp only [List.mem_cons, List.not_mem_nil, or_false] at hf
    rcases hf with rfl | rfl
    · exact ⟨h3, h4⟩
    · exact ⟨h1, h2⟩
  · exact KeyVerdict.pass_proper n

/-- CheckHighAndLowBitsEqual for one key: no hypothesis. -/
theorem vHlbe_proper (n mb : Nat) (v : KeyVerdict) (h : vHlbe n mb = .ok v) : v.Proper n := by
  unfold vHlbe at h
  split at h
  · simp at h
  · rename_i f fs hh
    simp only [Except.ok.injEq] at h
    subst h
    obtain ⟨x, y, hxy, _⟩ := hlbe_sound n mb _ hh
    rw [hxy] at hh ⊢
    obtain ⟨h1, h2, h3, h4⟩ := hlbe_proper n mb x y hh
    intro g hg
    simp only [List.mem_cons, List.not_mem_nil, or_false] at hg
    rcases hg with rfl | rfl
    · exact ⟨h1, h2⟩
    · exact ⟨h3, h4⟩
  · simp only [Except.ok.injEq] at h
    subst h
    exact KeyVerdict.pass_proper n

/-- what CheckLowHammingWeight returns is no factors or a pair. -/
theorem lhw_factors_shape (n cutoff maxsteps : Nat) :
    (checkLowHammingWeight n cutoff maxsteps).2 = [] ∨
    ∃ p0 q0, (checkLowHammingWeight n cutoff maxsteps).2 = [p0, q0] := by
  unfold checkLowHammingWeight
  simp only
  split
  · exact Or.inr ⟨_, _, rfl⟩
  · exact Or.inl rfl

/-- CheckLowHammingWeight for one key: no hypothesis. -/
theorem vLhw_proper (n cutoff maxsteps : Nat) : (vLhw n cutoff maxsteps).Proper n := by
  unfold vLhw
  simp only
  split
  · rcases lhw_factors_shape n cutoff maxsteps with h | ⟨p0, q0, h⟩
    · intro f hf
      rw [show (KeyVerdict.mk true (checkLowHammingWeight n cutoff maxsteps).2
        (checkLowHammingWeight n cutoff maxsteps).2.isEmpty).factors =
          (checkLowHammingWeight n cutoff maxsteps).2 from rfl, h] at hf
      cases hf
    · obtain ⟨h1, h2, h3, h4⟩ := lhw_proper n cutoff maxsteps _ p0 q0
        (Prod.ext rfl h : checkLowHammingWeight n cutoff maxsteps =
          ((checkLowHammingWeight n cutoff maxsteps).1, [p0, q0]))
      intro f hf
      rw [show (KeyVerdict.mk true (checkLowHammingWeight n cutoff maxsteps).2
        (checkLowHammingWeight n cutoff maxsteps).2.isEmpty).factors =
          (checkLowHammingWeight n cutoff maxsteps).2 from rfl, h] at hf
      simp only [List.mem_cons, List.not_mem_nil, or_false] at hf
      rcases hf with rfl | rfl
      · exact ⟨h1, h2⟩
      · exact ⟨h3, h4⟩
  · exact KeyVerdict.pass_proper n

end Paranoid
