/-
Proofs/ProperAll.lean — the proper-divisor clause of C01 for EVERY check of `CheckAllRSA`:
composition of Proofs/Proper (CheckFermat, CheckHighAndLowBitsEqual, CheckLowHammingWeight) with
the gcd-derived checks and CheckGCD (Proofs/RsaAll `single_proper`, `aggregate_sound`) and with
CheckKeypairDenylist (needs the generator oracle to return values above 1).
-/
import ParanoidModel.Proofs.Proper
import ParanoidModel.Proofs.RsaAll
import ParanoidModel.Proofs.Pratt

namespace Paranoid.RsaAll
open Paranoid

/-- a verdict whose recorded factors are all in `(1, n)` satisfies the proper-divisor clause. -/
theorem ofKeyVerdict_proper' (ns : List Nat) (k : RsaKey) (kv : KeyVerdict)
    (h : kv.Proper k.n) : VerdictProper ns k (ofKeyVerdict kv) := by
  intro fs hf
  obtain ⟨_, hne, rfl⟩ := attach_some hf
  cases hfs : kv.factors with
  | nil => exact absurd hfs hne
  | cons f rest =>
    have := h f (by rw [hfs]; exact List.mem_cons_self)
    exact Or.inl ⟨(f : Int), by simp, by exact_mod_cast this.1, by exact_mod_cast this.2⟩

theorem ofFlag_proper (ns : List Nat) (k : RsaKey) (b : Bool) : VerdictProper ns k (ofFlag b) := by
  intro fs hf; cases hf

/-- what CheckKeypairDenylist attaches is the generator's answer, verified by `p * q == n`. -/
theorem keypairStep_factors (table : List (Nat × List Nat)) (n : Nat)
    (gen : List Nat → Nat → Nat × Nat) (w : Bool) (fs : List Nat)
    (h : keypairStep table n gen = .ok (w, fs)) :
    fs = [] ∨ ∃ seed bits, fs = [(gen seed bits).1, (gen seed bits).2] ∧
      (gen seed bits).1 * (gen seed bits).2 = n := by
  unfold keypairStep at h
  split at h
  · cases h
  · split at h
    · simp only [Except.ok.injEq, Prod.mk.injEq] at h
      exact Or.inl h.2.symm
    · split at h
      · simp only [Except.ok.injEq, Prod.mk.injEq] at h
        exact Or.inl h.2.symm
      · split at h
        · cases h
        · split at h
          · rename_i seed _ hpq
            simp only [Except.ok.injEq, Prod.mk.injEq] at h
            exact Or.inr ⟨seed, bitLength n, h.2.symm, hpq⟩
          · simp only [Except.ok.injEq, Prod.mk.injEq] at h
            exact Or.inl h.2.symm

theorem keypair_proper (ns : List Nat) (g : RsaGlobals) (o : KeyOracles) (k : RsaKey) (v : Verdict)
    (hgen : ∀ seed bits, 1 < (o.keypairGen seed bits).1 ∧ 1 < (o.keypairGen seed bits).2)
    (h : mKeypair g o k = .ok v) : VerdictProper ns k v := by
  obtain ⟨r, hr, rfl⟩ := map_ok h
  intro fs hf
  obtain ⟨_, hne, rfl⟩ := attach_some hf
  rcases keypairStep_factors _ _ _ r.1 r.2 hr with h0 | ⟨seed, bits, hfs, hpq⟩
  · exact absurd h0 hne
  · obtain ⟨h1, h2⟩ := hgen seed bits
    rw [hfs]
    have hlt : (o.keypairGen seed bits).1 < k.n := by
      have := Nat.mul_le_mul_left (o.keypairGen seed bits).1 h2
      omega
    exact Or.inl ⟨((o.keypairGen seed bits).1 : Int), by simp, by exact_mod_cast h1,
      by exact_mod_cast hlt⟩

/-- ★ every single check: whatever it records under N_FACTORS contains a value in `(1, n)`,
for moduli `n ≥ 4`, a Fermat step bound below `(n + 1) / 2 − ⌊√n⌋` (odd `n`), and a generator
oracle that answers values above 1. -/
theorem single_proper_all : ∀ p ∈ singleModels, ∀ (ns : List Nat) (g : RsaGlobals)
    (o : KeyOracles) (k : RsaKey) (v : Verdict), 4 ≤ k.n →
    (k.n % 2 = 1 → g.fermatMaxSteps + Nat.sqrt k.n < (k.n + 1) / 2) →
    (∀ seed bits, 1 < (o.keypairGen seed bits).1 ∧ 1 < (o.keypairGen seed bits).2) →
    p.2 g o k = .ok v → VerdictProper ns k v := by
  intro p hp ns g o k v h4 hfer hgen h
  by_cases hn : p.1 ∈ properChecks
  · exact single_proper p hp hn ns g o k v h
  · simp only [singleModels, List.mem_cons, List.not_mem_nil, or_false] at hp
    rcases hp with rfl | rfl | rfl | rfl | rfl | rfl | rfl | rfl | rfl | rfl | rfl | rfl | rfl |
      rfl | rfl
    · cases h; exact ofFlag_proper ns k _
    · cases h; exact ofFlag_proper ns k _
    · obtain ⟨b, _, rfl⟩ := map_ok h; exact ofFlag_proper ns k _
    · obtain ⟨b, _, rfl⟩ := map_ok h; exact ofFlag_proper ns k _
    · cases h; exact ofKeyVerdict_proper' ns k _ (vFermat_proper _ _ h4 hfer)
    · obtain ⟨kv, hkv, rfl⟩ := map_ok h
      exact ofKeyVerdict_proper' ns k _ (vHlbe_proper _ _ _ hkv)
    · cases h; exact ofFlag_proper ns k _
    · exact absurd (by decide) hn
    · exact absurd (by decide) hn
    · exact absurd (by decide) hn
    · exact absurd (by decide) hn
    · cases h; exact ofKeyVerdict_proper' ns k _ (vLhw_proper _ _ _)
    · exact absurd (by decide) hn
    · exact absurd (by decide) hn
    · exact keypair_proper ns g o k v hgen h

/-- ★ the verdict of ANY registered check on key `i` satisfies the proper-divisor clause. -/
theorem rsaVerdict_proper_all {name : String} {orc : RsaOracles} {keys : List RsaKey} {i : Nat}
    {k : RsaKey} {v : Verdict} (hbig : ∀ k ∈ keys, 2 ≤ k.n) (hk : keys[i]? = some k)
    (h4 : 4 ≤ k.n)
    (hfer : k.n % 2 = 1 → orc.fermatMaxSteps + Nat.sqrt k.n < (k.n + 1) / 2)
    (hgen : ∀ seed bits, 1 < (orc.keypairGen i seed bits).1 ∧ 1 < (orc.keypairGen i seed bits).2)
    (h : rsaVerdict name orc keys i = .ok v) : VerdictProper (keys.map (·.n)) k v := by
  unfold rsaVerdict at h
  split at h
  · rename_i m hm
    simp only [runSingle, hk] at h
    exact single_proper_all _ (lookup_mem hm) _ _ _ _ _ h4 hfer hgen h
  · split at h
    · rename_i m hm
      unfold runAggregate at h
      split at h
      · cases h
      · rename_i row hrow
        exact ((aggregate_sound _ (lookup_mem hm) _ keys row hbig hrow).2 i k v hk (nth_ok h)).2
    · cases h

/-- after the run, N_FACTORS of key `i` is recorded iff some check was positive with factors
under that name, and then holds exactly the union of those factor lists. -/
theorem attached_nFactors {orc : RsaOracles} {keys : List RsaKey} {arts' : List Artifact}
    {r : Bool} (h : checkAllRSAFull orc keys = .ok (arts', r)) (i : Nat) (a' : Artifact)
    (ha' : arts'[i]? = some a') (hi : i < keys.length) :
    ∃ fn, getAttachedFactors a'.info nFactors = .ok fn ∧
      (∀ x, MemO x fn ↔ ∃ (c : CheckSpec) (v : Verdict), c ∈ rsaAll ∧
        rsaVerdict c.name orc keys i = .ok v ∧ v.positive = true ∧
        ∃ fs, v.factors = some (nFactors, fs) ∧ x ∈ fs) ∧
      (fn ≠ none → ∃ (c : CheckSpec) (v : Verdict) (fs : List Int), c ∈ rsaAll ∧
        rsaVerdict c.name orc keys i = .ok v ∧ v.positive = true ∧
        v.factors = some (nFactors, fs)) := by
  obtain ⟨tbl, htbl, hrun⟩ := full_unfold h
  obtain ⟨fn, hfn, hmn, hnn⟩ :=
    fresh_factors (fresh_all keys) (tableO_info htbl) hrun i a' ha' nFactors
  refine ⟨fn, hfn, fun x => ?_, fun hne => ?_⟩
  · rw [hmn]
    constructor
    · rintro ⟨s, hs, hp, fs, hf, hx⟩
      obtain ⟨hc, hv⟩ := step_verdict htbl hs i hi
      exact ⟨s.spec, s.verdict i, hc, hv, hp, fs, hf, hx⟩
    · rintro ⟨c, v, hc, hv, hp, fs, hf, hx⟩
      obtain ⟨j, hj⟩ := List.mem_iff_getElem?.1 hc
      obtain ⟨v', hv', htab⟩ := table_spec htbl j c hj i hi
      rw [hv] at hv'
      cases hv'
      exact ⟨_, step_of_check (tbl := tbl) hj,
        by show (tableO tbl j i).positive = true; rw [htab]; exact hp, fs,
        by show (tableO tbl j i).factors = _; rw [htab]; exact hf, hx⟩
  · by_contra hcon
    apply hne
    rw [hnn]
    intro s hs fs ⟨hp, hf⟩
    obtain ⟨hc, hv⟩ := step_verdict htbl hs i hi
    exact hcon ⟨s.spec, s.verdict i, fs, hc, hv, hp, hf⟩

/-- the verdict of the CheckFermat model on a key. -/
theorem fermat_verdict (orc : RsaOracles) (keys : List RsaKey) (i : Nat) (k : RsaKey)
    (hk : keys[i]? = some k) :
    rsaVerdict "CheckFermat" orc keys i = .ok (ofKeyVerdict (vFermat k.n orc.fermatMaxSteps)) := by
  have hl : singleModels.lookup "CheckFermat" = some mFermat := rfl
  simp only [rsaVerdict, hl, runSingle, hk]
  rfl

/-- what CheckFermat records when FermatFactor returns `(p, q)`. Stated for variables (never
instantiate `fermatFactor` on a huge step bound inside a `match`: reducing it would run the loop). -/
theorem fermat_records {orc : RsaOracles} {keys : List RsaKey} {i : Nat} {k : RsaKey}
    (hk : keys[i]? = some k) {n s p q : Nat} (hn : k.n = n) (hs : orc.fermatMaxSteps = s)
    (hf : fermatFactor n s = some (p, q)) :
    ∃ v, rsaVerdict "CheckFermat" orc keys i = .ok v ∧ v.positive = true ∧
      v.factors = some (nFactors, [(p : Int), (q : Int)]) := by
  subst hn hs
  refine ⟨_, fermat_verdict orc keys i k hk, ?_, ?_⟩
  · show (vFermat k.n orc.fermatMaxSteps).weak = true
    unfold vFermat; rw [hf]
  · show attach nFactors (vFermat k.n orc.fermatMaxSteps).factors = _
    unfold vFermat; rw [hf]; rfl

/-- a kernel-certified prime above `2^63` (Pratt certificate; `p − 1 = 2·5·13·17·29·1129·1361·
1721·54421`, primitive root 6), used as the witness modulus of `properClause_fails`. -/
def bigPrime : Nat := 9223372036854780611

theorem bigPrime_prime : Nat.Prime bigPrime :=
  Pratt.prime_of_cert ⟨bigPrime, [⟨bigPrime, 6,
    [(2, 1), (5, 1), (13, 1), (17, 1), (29, 1), (1129, 1), (1361, 1), (1721, 1), (54421, 1)]⟩]⟩ _
    (by decide +kernel)

end Paranoid.RsaAll
