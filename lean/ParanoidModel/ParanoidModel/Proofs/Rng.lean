/-
Proofs/Rng.lean — helper lemmas for Props/C20.lean (generators of randomness_tests/rng.py).
-/
import ParanoidModel.Model.Rng
import ParanoidModel.Spec.JavaRandom
import ParanoidModel.Spec.TruncLcg
import Mathlib.Tactic.Ring
namespace Paranoid.Rng

theorem pow256 (k : Nat) : 256 ^ k = 2 ^ (8 * k) := by
  rw [Nat.pow_mul]

theorem fromLE_lt (l : List UInt8) : fromLE l < 256 ^ l.length := by
  induction l with
  | nil => simp [fromLE]
  | cons b bs ih =>
    have hb := UInt8.toNat_lt b
    simp only [fromLE, List.length_cons, Nat.pow_succ]
    omega

theorem fromLE_append (l1 l2 : List UInt8) :
    fromLE (l1 ++ l2) = fromLE l1 + 256 ^ l1.length * fromLE l2 := by
  induction l1 with
  | nil => simp [fromLE]
  | cons b bs ih =>
    simp only [List.cons_append, fromLE, ih, List.length_cons, Nat.pow_succ]
    ring

@[simp] theorem toLE_length (k x : Nat) : (toLE k x).length = k := by
  induction k generalizing x with
  | zero => rfl
  | succ k ih => simp [toLE, ih]

theorem toUInt8_toNat (x : Nat) : x.toUInt8.toNat = x % 256 := by
  rw [Nat.toUInt8_eq, UInt8.toNat_ofNat']

theorem fromLE_toLE (k x : Nat) : fromLE (toLE k x) = x % 256 ^ k := by
  induction k generalizing x with
  | zero => simp [toLE, fromLE, Nat.mod_one]
  | succ k ih =>
    simp only [toLE, fromLE, ih, toUInt8_toNat]
    rw [Nat.pow_succ, Nat.mul_comm (256 ^ k) 256, Nat.mod_mul]

/-- `256 * F + b` modulo `256 * M`. -/
theorem byte_mod (b F M : Nat) (hb : b < 256) : (b + 256 * F) % (256 * M) = b + 256 * (F % M) := by
  rw [Nat.add_comm, Nat.add_comm b, Nat.mod_mul]
  have : (256 * F + b) % 256 = b := by omega
  have h2 : (256 * F + b) / 256 = F := by omega
  rw [this, h2]; omega

theorem fromLE_take (l : List UInt8) (k : Nat) : fromLE (l.take k) = fromLE l % 256 ^ k := by
  induction l generalizing k with
  | nil => simp [fromLE]
  | cons b bs ih =>
    cases k with
    | zero => simp [fromLE, Nat.mod_one]
    | succ k =>
      simp only [List.take_succ_cons, fromLE, ih]
      rw [Nat.pow_succ, Nat.mul_comm (256 ^ k) 256, byte_mod _ _ _ (UInt8.toNat_lt b)]


theorem byteMask_eq (n : Nat) : byteMask n = 2 ^ (n % 8) - 1 := by
  simp [byteMask, Nat.one_shiftLeft]

theorem byteMask_lt (n : Nat) : byteMask n < 256 := by
  rw [byteMask_eq]
  have : 2 ^ (n % 8) ≤ 2 ^ 8 := Nat.pow_le_pow_right (by decide) (by omega)
  omega

theorem and_mask_toNat (b : UInt8) (n : Nat) :
    (b &&& (byteMask n).toUInt8).toNat = b.toNat % 2 ^ (n % 8) := by
  rw [UInt8.toNat_and, toUInt8_toNat, Nat.mod_eq_of_lt (byteMask_lt n), byteMask_eq,
    Nat.and_two_pow_sub_one_eq_mod]

@[simp] theorem maskLast_length (m : Nat) (l : List UInt8) : (maskLast m l).length = l.length := by
  induction l with
  | nil => rfl
  | cons b bs ih =>
    cases bs with
    | nil => rfl
    | cons b' bs => simp only [maskLast, List.length_cons] at ih ⊢; omega

@[simp] theorem maskHead_length (m : Nat) (l : List UInt8) : (maskHead m l).length = l.length := by
  cases l <;> rfl

/-- masking the last (most significant) byte of a little-endian array with `2^j - 1`
is reduction modulo `2^j * 256^(len-1)`. -/
theorem fromLE_maskLast (n : Nat) (l : List UInt8) (hl : l ≠ []) :
    fromLE (maskLast (byteMask n) l) = fromLE l % (2 ^ (n % 8) * 256 ^ (l.length - 1)) := by
  induction l with
  | nil => exact absurd rfl hl
  | cons b bs ih =>
    cases bs with
    | nil =>
      simp only [maskLast, fromLE, and_mask_toNat, List.length_cons, List.length_nil]
      simp
    | cons b' bs =>
      have ih' := ih (by simp)
      simp only [maskLast, fromLE, List.length_cons] at ih' ⊢
      rw [ih']
      have : bs.length + 1 + 1 - 1 = (bs.length + 1 - 1) + 1 := by omega
      rw [this, Nat.pow_succ, ← Nat.mul_assoc, Nat.mul_comm _ 256, byte_mod _ _ _ (UInt8.toNat_lt b)]

theorem reverse_maskHead (m : Nat) (l : List UInt8) :
    (maskHead m l).reverse = maskLast m l.reverse := by
  cases l with
  | nil => rfl
  | cons b bs =>
    simp only [maskHead, List.reverse_cons]
    generalize bs.reverse = r
    induction r with
    | nil => rfl
    | cons c cs ih =>
      cases cs with
      | nil => rfl
      | cons c' cs => simp only [List.cons_append, maskLast] at ih ⊢; rw [ih]

/-- total number of bits when the partial byte exists. -/
theorem bits_split (n : Nat) (h : n % 8 ≠ 0) : n % 8 + 8 * ((n + 7) / 8 - 1) = n := by omega

theorem maskLast_lt (n : Nat) (l : List UInt8) (hlen : l.length = (n + 7) / 8) (h : n % 8 ≠ 0) :
    fromLE (maskLast (byteMask n) l) < 2 ^ n := by
  have hl : l ≠ [] := by intro e; rw [e] at hlen; simp at hlen; omega
  rw [fromLE_maskLast n l hl]
  have : 2 ^ (n % 8) * 256 ^ (l.length - 1) = 2 ^ n := by
    rw [pow256, ← Nat.pow_add, hlen, bits_split n h]
  rw [this]
  exact Nat.mod_lt _ (Nat.two_pow_pos n)

theorem fromLE_lt_of_len (n : Nat) (l : List UInt8) (hlen : 8 * l.length ≤ n) : fromLE l < 2 ^ n := by
  have := fromLE_lt l
  rw [pow256] at this
  exact Nat.lt_of_lt_of_le this (Nat.pow_le_pow_right (by decide) hlen)

theorem mask_lt (x n : Nat) : x &&& ((1 <<< n) - 1) < 2 ^ n := by
  rw [Nat.one_shiftLeft]
  exact Nat.and_lt_two_pow _ (Nat.sub_lt (Nat.two_pow_pos n) Nat.one_pos)

theorem finishLE_lt (ba : List UInt8) (n : Nat) : finishLE ba n < 2 ^ n := by
  unfold finishLE
  split
  · exact mask_lt _ _
  · rename_i h
    exact fromLE_lt_of_len n ba (by omega)

theorem finishWord_lt (w : Nat) (ba : List UInt8) (n : Nat) (h : n % w = 0 → 8 * ba.length ≤ n) :
    finishWord w ba n < 2 ^ n := by
  unfold finishWord
  split
  · exact mask_lt _ _
  · rename_i h'
    exact fromLE_lt_of_len n ba (h (by omega))

theorem finishShift_lt (ba : List UInt8) (n : Nat) (hlen : ba.length = (n + 7) / 8) :
    finishShift ba n < 2 ^ n := by
  unfold finishShift
  split
  · rename_i h
    rw [Nat.shiftRight_eq_div_pow, Nat.div_lt_iff_lt_mul (Nat.two_pow_pos _), ← Nat.pow_add]
    apply fromLE_lt_of_len
    omega
  · rename_i h
    exact fromLE_lt_of_len n ba (by omega)


/-! lengths of the generated byte strings -/

@[simp] theorem truncLcgBytes_length (p : TruncLcgParams) (j : Nat) (s : Int) :
    (truncLcgBytes p j s).length = j * ((p.outputSize + 7) / 8) := by
  induction j generalizing s with
  | zero => simp [truncLcgBytes]
  | succ j ih => simp only [truncLcgBytes, List.length_append, toLE_length, ih, Nat.succ_mul]; omega

@[simp] theorem xs128pBytes_length (y k : Nat) (x : Int) : (xs128pBytes y k x).length = 8 * k := by
  induction k generalizing x with
  | zero => rfl
  | succ k ih => simp only [xs128pBytes, List.length_append, toLE_length, ih]; omega

@[simp] theorem xsStarBytes_length (k x : Nat) : (xsStarBytes k x).length = 8 * k := by
  induction k generalizing x with
  | zero => rfl
  | succ k ih => simp only [xsStarBytes, List.length_append, toLE_length, ih]; omega

@[simp] theorem xorwowBytes_length (k s c : Nat) : (xorwowBytes k s c).length = 4 * k := by
  induction k generalizing s c with
  | zero => rfl
  | succ k ih => simp only [xorwowBytes, List.length_append, toLE_length, ih]; omega

@[simp] theorem javaBytes_length (j s : Nat) : (javaBytes j s).length = 4 * j := by
  induction j generalizing s with
  | zero => rfl
  | succ k ih => simp only [javaBytes, List.length_append, toLE_length, ih]; omega

@[simp] theorem lcgNistBytes_length (a i s : Nat) : (lcgNistBytes a i s).length = i := by
  induction i generalizing s with
  | zero => rfl
  | succ k ih => simp only [lcgNistBytes, List.length_cons, ih]

theorem truncTo_eq_take (k : Nat) (ba : List UInt8) : truncTo k ba = ba.take k := by
  unfold truncTo
  split
  · rfl
  · rename_i h
    have : ba.length = k := by omega
    rw [← this, List.take_length]

theorem truncTo_length (k : Nat) (ba : List UInt8) (h : k ≤ ba.length) : (truncTo k ba).length = k := by
  rw [truncTo_eq_take, List.length_take]; omega

/-- `⌈a/b⌉·b ≥ a`. -/
theorem ceil_mul_ge (a b : Nat) (hb : 0 < b) : a ≤ (a + b - 1) / b * b := by
  have h1 := Nat.div_add_mod (a + b - 1) b
  have h2 := Nat.mod_lt (a + b - 1) hb
  rw [Nat.mul_comm] at h1
  omega

/-! range -/

theorem urandom_lt (ba : List UInt8) (n : Nat) (h : ba.length = (n + 7) / 8) : urandom ba n < 2 ^ n :=
  finishShift_lt ba n h

theorem shake128_lt (xof : List UInt8 → Nat → List UInt8) (hx : ∀ m k, (xof m k).length = k)
    (n : Nat) (seed : Int) : shake128 xof n seed < 2 ^ n :=
  finishShift_lt _ n (hx _ _)

theorem numpyRng_lt (bytesOf : Int → Nat → List UInt8) (hx : ∀ s k, (bytesOf s k).length = k)
    (n : Nat) (seed : Int) : numpyRng bytesOf n seed < 2 ^ n := by
  apply finishWord_lt
  intro h
  rw [hx]; omega

theorem xorShift128plusCore_lt (x : Int) (y n : Nat) : xorShift128plusCore x y n < 2 ^ n := by
  apply finishWord_lt
  intro h
  rw [xs128pBytes_length]; omega

theorem xorShiftStarCore_lt (x n : Nat) : xorShiftStarCore x n < 2 ^ n := by
  apply finishWord_lt
  intro h
  rw [xsStarBytes_length]; omega

theorem xorwowCore_lt (s c n : Nat) : xorwowCore s c n < 2 ^ n := by
  apply finishWord_lt
  intro h
  rw [xorwowBytes_length]; omega

theorem lcgNistCore_lt (a seed n : Nat) : lcgNistCore a seed n < 2 ^ n := by
  unfold lcgNistCore
  split
  · rename_i h
    exact maskLast_lt n _ (by simp) h
  · rename_i h
    exact fromLE_lt_of_len n _ (by simp; omega)

theorem javaTrunc_length (state n : Nat) :
    (truncTo ((n + 7) / 8) (javaBytes (((n + 7) / 8 + 3) / 4) state)).length = (n + 7) / 8 := by
  apply truncTo_length
  rw [javaBytes_length]; omega

theorem javaRandomCore_lt (state n : Nat) : javaRandomCore state n < 2 ^ n := by
  unfold javaRandomCore maskHeadIf fromBE
  split
  · rename_i h
    rw [reverse_maskHead]
    exact maskLast_lt n _ (by rw [List.length_reverse, javaTrunc_length]) h
  · rename_i h
    exact fromLE_lt_of_len n _ (by rw [List.length_reverse, javaTrunc_length]; omega)

theorem truncLcgTrunc_length (p : TruncLcgParams) (hp : 0 < (p.outputSize + 7) / 8) (n : Nat) (seed : Int) :
    (truncTo ((n + 7) / 8) (truncLcgBytes p
      (((n + 7) / 8 + (p.outputSize + 7) / 8 - 1) / ((p.outputSize + 7) / 8)) seed)).length
      = (n + 7) / 8 := by
  apply truncTo_length
  rw [truncLcgBytes_length]
  exact ceil_mul_ge _ _ hp

theorem truncLcgCore_repaired_lt (p : TruncLcgParams) (hp : 0 < p.outputSize) (n : Nat) (seed : Int) :
    truncLcgCore .repaired p n seed < 2 ^ n := by
  have hp' : 0 < (p.outputSize + 7) / 8 := by omega
  unfold truncLcgCore truncLcgMask
  split
  · rename_i h
    exact maskLast_lt n _ (truncLcgTrunc_length p hp' n seed) h
  · rename_i h
    exact fromLE_lt_of_len n _ (by rw [truncLcgTrunc_length p hp' n seed]; omega)

theorem truncLcgCore_pinned_lt (p : TruncLcgParams) (hp : 0 < p.outputSize) (n : Nat) (seed : Int) :
    truncLcgCore .pinned p n seed < 2 ^ (8 * ((n + 7) / 8)) ∧
    (n % 8 = 0 → truncLcgCore .pinned p n seed < 2 ^ n) := by
  have hp' : 0 < (p.outputSize + 7) / 8 := by omega
  unfold truncLcgCore truncLcgMask
  constructor
  · split
    · exact fromLE_lt_of_len _ _ (by rw [maskHead_length, truncLcgTrunc_length p hp' n seed])
    · exact fromLE_lt_of_len _ _ (by rw [truncLcgTrunc_length p hp' n seed])
  · intro h0
    rw [if_neg (by omega)]
    exact fromLE_lt_of_len n _ (by rw [truncLcgTrunc_length p hp' n seed]; omega)


section Java
open Paranoid.Spec.Java

/-! ### JavaRandom = java.util.Random + BigInteger(numBits, rnd) -/

/-- bitwise complement inside `k` bits commutes with xor. -/
theorem compl_xor (k x a : Nat) (hx : x < 2 ^ k) (ha : a < 2 ^ k) :
    (2 ^ k - 1 - x) ^^^ a = 2 ^ k - 1 - (x ^^^ a) := by
  have hxa : x ^^^ a < 2 ^ k := Nat.xor_lt_two_pow hx ha
  have e1 : 2 ^ k - 1 - x = 2 ^ k - (x + 1) := by omega
  have e2 : 2 ^ k - 1 - (x ^^^ a) = 2 ^ k - ((x ^^^ a) + 1) := by omega
  rw [e1, e2]
  apply Nat.eq_of_testBit_eq
  intro i
  rw [Nat.testBit_xor, Nat.testBit_two_pow_sub_succ hx, Nat.testBit_two_pow_sub_succ hxa,
    Nat.testBit_xor]
  by_cases hi : i < k
  · simp [hi]
  · have : a.testBit i = false :=
      Nat.testBit_lt_two_pow (Nat.lt_of_lt_of_le ha (Nat.pow_le_pow_right (by decide) (by omega)))
    simp [hi, this]

theorem javaMask_eq : javaMask = 2 ^ 48 - 1 := by decide +kernel
theorem javaA_lt : javaA < 2 ^ 48 := by decide +kernel

theorem javaScramble_eq (seed : Int) :
    javaScramble seed = (seed % (2 ^ 48 : Nat)).toNat ^^^ javaA := by
  unfold javaScramble
  cases seed with
  | ofNat m =>
    simp only [ixor, iand, javaMask_eq, Int.toNat_natCast, Int.ofNat_eq_natCast]
    rw [Nat.and_two_pow_sub_one_eq_mod, Nat.xor_mod_two_pow, Nat.mod_eq_of_lt javaA_lt]
    congr 1
  | negSucc m =>
    simp only [ixor, iand, javaMask_eq, Int.toNat_natCast, Int.ofNat_eq_natCast]
    rw [Nat.and_two_pow_sub_one_eq_mod, Nat.xor_mod_two_pow, Nat.mod_eq_of_lt javaA_lt]
    have h1 : (Int.negSucc m % ((2 ^ 48 : Nat) : Int)).toNat = 2 ^ 48 - 1 - m % 2 ^ 48 := by
      rw [Int.negSucc_eq]; omega
    rw [h1, compl_xor 48 _ _ (Nat.mod_lt _ (by decide)) javaA_lt]


theorem mask_toNat : Spec.Java.mask.toNat = 2 ^ 48 - 1 := by
  show _ = 281474976710655
  decide +kernel
theorem multiplier_toNat : multiplier.toNat = javaA := by decide +kernel
theorem addend_toNat : addend.toNat = javaC := by decide +kernel

/-- `new Random(seed)` holds the scrambled state of the emulation. -/
theorem new_seed (seed : Int) : (Random.new (toLong seed)).seed.toNat = javaScramble seed := by
  rw [javaScramble_eq]
  simp only [Random.new, initialScramble, toLong, BitVec.toNat_and, BitVec.toNat_xor,
    BitVec.toNat_ofInt, mask_toNat, multiplier_toNat]
  rw [Nat.and_two_pow_sub_one_eq_mod, Nat.xor_mod_two_pow, Nat.mod_eq_of_lt javaA_lt]
  congr 1
  omega

theorem javaNext_eq (s : Nat) : javaNext s = (s * javaA + javaC) % 2 ^ 48 := by
  unfold javaNext
  rw [javaMask_eq, Nat.and_two_pow_sub_one_eq_mod]

theorem advance_seed (r : Random) : r.advance.seed.toNat = javaNext r.seed.toNat := by
  rw [javaNext_eq]
  unfold Random.advance
  rw [BitVec.toNat_and, BitVec.toNat_add, BitVec.toNat_mul, mask_toNat, multiplier_toNat, addend_toNat,
    Nat.and_two_pow_sub_one_eq_mod]
  generalize r.seed.toNat * javaA = t
  have : javaC = 11 := rfl
  omega

theorem nextInt_toNat (r : Random) : r.nextInt.toNat = javaNext r.seed.toNat >>> 16 := by
  have h := advance_seed r
  have hlt : javaNext r.seed.toNat < 2 ^ 48 := by rw [javaNext_eq]; exact Nat.mod_lt _ (by decide)
  unfold Random.nextInt Random.nextValue
  rw [BitVec.toNat_setWidth, BitVec.toNat_ushiftRight, h, Nat.shiftRight_eq_div_pow]
  omega


/-- model bytes seen as Java bytes. -/
def toJ (l : List UInt8) : List JByte := l.map UInt8.toBitVec

theorem toUInt8_toBitVec_toNat (x : Nat) : x.toUInt8.toBitVec.toNat = x % 256 := by
  rw [UInt8.toNat_toBitVec, toUInt8_toNat]

/-- the `(byte)rnd; rnd >>= 8` loop emits the little-endian bytes of any `x` congruent to the
signed value of `rnd` modulo `256^k`. -/
theorem intBytes_eq (k : Nat) : ∀ (rnd : JInt) (x : Nat) (Q : Int),
    rnd.toInt = x + Q * 256 ^ k → intBytes k rnd = toJ (toLE k x) := by
  induction k with
  | zero => intro _ _ _ _; rfl
  | succ k ih =>
    intro rnd x Q h
    rw [Int.pow_succ, ← Int.mul_assoc] at h
    obtain ⟨Q', hQ'⟩ : ∃ Q', Q * 256 ^ k = Q' := ⟨_, rfl⟩
    rw [hQ'] at h
    simp only [intBytes, toLE, toJ, List.map_cons]
    congr 1
    · apply BitVec.eq_of_toNat_eq
      rw [BitVec.toNat_setWidth, toUInt8_toBitVec_toNat]
      have hc := BitVec.toInt_eq_toNat_cond rnd
      split at hc <;> omega
    · apply ih _ _ Q
      rw [BitVec.toInt_sshiftRight, Int.shiftRight_eq_div_pow, h, hQ']
      omega

/-- for at most four bytes the loop emits the little-endian bytes of the unsigned value. -/
theorem intBytes_le4 (k : Nat) (hk : k ≤ 4) (rnd : JInt) : intBytes k rnd = toJ (toLE k rnd.toNat) := by
  have hc := BitVec.toInt_eq_toNat_cond rnd
  have h4 : (256 : Int) ^ 4 = 256 ^ (4 - k) * 256 ^ k := by
    rw [← Int.pow_add]; congr 1; omega
  split at hc
  · exact intBytes_eq k rnd _ 0 (by omega)
  · apply intBytes_eq k rnd _ (-(256 ^ (4 - k)))
    rw [hc, Int.neg_mul, ← h4]
    norm_num
    omega

theorem take_toLE (j k x : Nat) : (toLE k x).take j = toLE (min j k) x := by
  induction k generalizing j x with
  | zero => simp [toLE]
  | succ k ih =>
    cases j with
    | zero => simp [toLE]
    | succ j =>
      rw [toLE, List.take_succ_cons, ih, Nat.succ_min_succ, toLE]

theorem nextBytes_zero (fuel : Nat) (r : Random) : Random.nextBytes fuel 0 r = [] := by
  cases fuel <;> simp [Random.nextBytes]

/-- `nextBytes` on an array of `len` bytes writes the first `len` bytes of the emulation's
word stream. -/
theorem nextBytes_eq (fuel : Nat) : ∀ (len : Nat) (r : Random), len ≤ fuel →
    Random.nextBytes fuel len r = toJ ((javaBytes ((len + 3) / 4) r.seed.toNat).take len) := by
  induction fuel with
  | zero =>
    intro len r h
    have : len = 0 := by omega
    subst this; rfl
  | succ fuel ih =>
    intro len r h
    by_cases h0 : len = 0
    · subst h0; rfl
    · have e : (len + 3) / 4 = (len - min len 4 + 3) / 4 + 1 := by omega
      rw [Random.nextBytes, if_neg h0, e, javaBytes, List.take_append, toLE_length, take_toLE,
        toJ, List.map_append]
      congr 1
      · rw [intBytes_le4 _ (by omega), nextInt_toNat]; rfl
      · rw [ih _ _ (by omega), advance_seed]
        by_cases h4 : len ≤ 4
        · have e1 : len - min len 4 = 0 := by omega
          have e2 : len - 4 = 0 := by omega
          rw [e1, e2]; rfl
        · have e1 : len - min len 4 = len - 4 := by omega
          rw [e1]; rfl

theorem magnitude_aux (l : List UInt8) (acc : Nat) :
    (toJ l).foldl (fun acc b => acc * 256 + b.toNat) acc = acc * 256 ^ l.length + fromLE l.reverse := by
  induction l generalizing acc with
  | nil => simp [toJ, fromLE]
  | cons b bs ih =>
    simp only [toJ, List.map_cons, List.foldl_cons, List.reverse_cons, fromLE_append,
      List.length_reverse, List.length_cons, fromLE, UInt8.toNat_toBitVec] at ih ⊢
    rw [ih]; ring

theorem magnitude_eq (l : List UInt8) : magnitude (toJ l) = fromBE l := by
  rw [magnitude, magnitude_aux, fromBE]; simp

/-- the first-byte mask of `BigInteger.randomBits`. -/
theorem andFirst_eq (n : Nat) (l : List UInt8) :
    andFirst (((1#32 <<< (8 - (8 * ((n + 7) / 8) - n))) - 1#32).setWidth 8) (toJ l)
      = toJ (maskHeadIf n l) := by
  have hr : n % 8 < 8 := Nat.mod_lt _ (by decide)
  by_cases h0 : n % 8 = 0
  · have e : 8 - (8 * ((n + 7) / 8) - n) = 8 := by omega
    rw [e, maskHeadIf, if_neg (by omega)]
    cases l with
    | nil => rfl
    | cons b bs =>
      simp only [toJ, List.map_cons, andFirst]
      congr 1
      have : ((1#32 <<< 8) - 1#32).setWidth 8 = BitVec.allOnes 8 := by decide +kernel
      rw [this, BitVec.and_allOnes]
  · have e : 8 - (8 * ((n + 7) / 8) - n) = n % 8 := by omega
    rw [e, maskHeadIf, if_pos h0]
    cases l with
    | nil => rfl
    | cons b bs =>
      simp only [toJ, List.map_cons, andFirst, maskHead, UInt8.toBitVec_and, byteMask]
      congr 2
      generalize n % 8 = r at hr h0
      have : r = 1 ∨ r = 2 ∨ r = 3 ∨ r = 4 ∨ r = 5 ∨ r = 6 ∨ r = 7 := by omega
      rcases this with rfl | rfl | rfl | rfl | rfl | rfl | rfl <;> decide +kernel

/-- **JavaRandom.RandomBits(n, seed) = new BigInteger(n, new Random(seed))**. -/
theorem javaRandom_eq_spec (n : Nat) (seed : Int) :
    javaRandom n seed = bigInteger n (Random.new (toLong seed)) := by
  unfold javaRandom javaRandomCore bigInteger randomBits
  by_cases h : (n + 7) / 8 > 0
  · rw [if_pos h, nextBytes_eq _ _ _ (Nat.le_refl _), andFirst_eq n, magnitude_eq, new_seed,
      truncTo_eq_take]
  · have : n = 0 := by omega
    subst this
    rfl

end Java

section TruncLcgSpec
open Paranoid.Spec

/-! ### TruncLcgRand = truncated LCG stream -/

theorem lcgNext_eq (p : TruncLcgParams) (x : Int) :
    lcgNext p x = TruncLcg.next p.a p.c p.outputSize x := by
  unfold lcgNext TruncLcg.next
  rw [Int.mul_comm, Nat.mul_comm]

theorem lcgNext_lt (p : TruncLcgParams) (x : Int) : lcgNext p x < 2 ^ (p.outputSize * 2) := by
  unfold lcgNext
  have hpos : (0 : Int) < ((2 ^ (p.outputSize * 2) : Nat) : Int) := by
    exact_mod_cast Nat.two_pow_pos _
  have h1 := Int.emod_lt_of_pos (x * p.a + p.c) hpos
  have h2 := Int.emod_nonneg (x * p.a + p.c) (Int.ne_of_gt hpos)
  omega

/-- `output.to_bytes(output_size_bytes, "little")` never overflows. -/
theorem truncLcg_out_fits (p : TruncLcgParams) (x : Int) :
    lcgNext p x >>> p.outputSize < 256 ^ ((p.outputSize + 7) / 8) := by
  rw [Nat.shiftRight_eq_div_pow, Nat.div_lt_iff_lt_mul (Nat.two_pow_pos _), pow256, ← Nat.pow_add]
  exact Nat.lt_of_lt_of_le (lcgNext_lt p x) (Nat.pow_le_pow_right (by decide) (by omega))

theorem fromLE_truncLcgBytes (p : TruncLcgParams) (j : Nat) (x : Int) :
    fromLE (truncLcgBytes p j x)
      = TruncLcg.stream p.a p.c p.outputSize (8 * ((p.outputSize + 7) / 8)) j x := by
  induction j generalizing x with
  | zero => rfl
  | succ j ih =>
    rw [truncLcgBytes, fromLE_append, fromLE_toLE, toLE_length, ih, TruncLcg.stream,
      Nat.mod_eq_of_lt (truncLcg_out_fits p x), pow256, TruncLcg.output, lcgNext_eq,
      Nat.shiftRight_eq_div_pow]

theorem mod_mod_pow (x n k : Nat) (h : n ≤ 8 * k) : x % 256 ^ k % 2 ^ n = x % 2 ^ n := by
  rw [pow256]
  exact Nat.mod_mod_of_dvd _ (Nat.pow_dvd_pow 2 h)

/-- the repaired `TruncLcgRand.RandomBits(n, seed)` is the low `n` bits of the stream. -/
theorem truncLcgCore_repaired_eq (p : TruncLcgParams) (hp : 0 < p.outputSize) (n : Nat) (seed : Int) :
    truncLcgCore .repaired p n seed
      = TruncLcg.urandomb p.a p.c p.outputSize (8 * ((p.outputSize + 7) / 8))
          (((n + 7) / 8 + (p.outputSize + 7) / 8 - 1) / ((p.outputSize + 7) / 8)) n seed := by
  have hp' : 0 < (p.outputSize + 7) / 8 := by omega
  have hlen := truncLcgTrunc_length p hp' n seed
  unfold truncLcgCore truncLcgMask TruncLcg.urandomb
  split
  · rename_i h
    have hne : truncTo ((n + 7) / 8) (truncLcgBytes p
        (((n + 7) / 8 + (p.outputSize + 7) / 8 - 1) / ((p.outputSize + 7) / 8)) seed) ≠ [] := by
      intro e; rw [e] at hlen; simp at hlen; omega
    rw [fromLE_maskLast n _ hne, hlen]
    have : 2 ^ (n % 8) * 256 ^ ((n + 7) / 8 - 1) = 2 ^ n := by
      rw [pow256, ← Nat.pow_add, bits_split n h]
    rw [this, truncTo_eq_take, fromLE_take, mod_mod_pow _ _ _ (by omega), fromLE_truncLcgBytes]
  · rename_i h
    rw [truncTo_eq_take, fromLE_take, fromLE_truncLcgBytes]
    have : 256 ^ ((n + 7) / 8) = 2 ^ n := by rw [pow256]; congr 1; omega
    rw [this]

/-- the pinned code agrees with the stream when `n` is a multiple of 8. -/
theorem truncLcgCore_pinned_eq (p : TruncLcgParams) (n : Nat) (h8 : n % 8 = 0) (seed : Int) :
    truncLcgCore .pinned p n seed = truncLcgCore .repaired p n seed := by
  unfold truncLcgCore truncLcgMask
  rw [if_neg (by omega), if_neg (by omega)]

end TruncLcgSpec


/-! ### `to_bytes` never overflows (the model's `toLE` is exact at every call site) -/

theorem java_out_fits (s : Nat) : javaNext s >>> 16 < 256 ^ 4 := by
  have : javaNext s < 2 ^ 48 := by rw [javaNext_eq]; exact Nat.mod_lt _ (by decide)
  rw [Nat.shiftRight_eq_div_pow]; omega

theorem xs128p_out_fits (x : Int) (y : Nat) : (xs128pStep x y + y) % 2 ^ 64 < 256 ^ 8 :=
  Nat.mod_lt _ (by decide)

theorem xsStar_out_fits (x : Nat) : xsStarStep x * 0x2545F4914F6CDD1D % 2 ^ 64 < 256 ^ 8 :=
  Nat.mod_lt _ (by decide)

theorem xorwow_out_fits (s c : Nat) : (xorwowT s + c) % 2 ^ 32 < 256 ^ 4 :=
  Nat.mod_lt _ (by decide)

theorem lcgNistMod_eq : lcgNistMod = 2147483647 := by decide +kernel

theorem lcgNistByte_lt (a : Nat) (fuel : Nat) : ∀ (j seed b : Nat), b < 2 ^ j →
    (lcgNistByte a fuel j seed b).2 < 2 ^ (j + fuel) := by
  induction fuel with
  | zero => intro j seed b h; exact h
  | succ fuel ih =>
    intro j seed b h
    rw [lcgNistByte]
    have e : j + (fuel + 1) = (j + 1) + fuel := by omega
    rw [e]
    apply ih
    apply Nat.xor_lt_two_pow
    · exact Nat.lt_of_lt_of_le h (Nat.pow_le_pow_right (by decide) (by omega))
    · have hm : a * seed % lcgNistMod < 2147483647 := by
        rw [lcgNistMod_eq]; exact Nat.mod_lt _ (by decide)
      have h1 : (a * seed % lcgNistMod) >>> 30 ≤ 1 := by
        rw [Nat.shiftRight_eq_div_pow]; omega
      rw [Nat.shiftLeft_eq, Nat.pow_succ]
      have := Nat.two_pow_pos j
      calc (a * seed % lcgNistMod) >>> 30 * 2 ^ j ≤ 1 * 2 ^ j := Nat.mul_le_mul_right _ h1
        _ < 2 ^ j * 2 := by omega

/-- `res[i] = b` stores a value in `range(256)`. -/
theorem lcgNist_byte_fits (a seed : Nat) : (lcgNistByte a 8 0 seed 0).2 < 256 :=
  lcgNistByte_lt a 8 0 seed 0 (by decide)

/-- `Mwc.__init__` accepts exactly the powers of 256 (incl. `b = 1`). -/
theorem mwcInit_ok (a b : Nat) (p : MwcParams) (h : mwcInit a b = .ok p) :
    p.a = a ∧ p.b = b ∧ p.ab1 = (a : Int) * b - 1 ∧ b = 2 ^ p.outputBits ∧ p.outputBits % 8 = 0 := by
  unfold mwcInit at h
  split at h
  · simp at h
  · rename_i hc
    simp only [Except.ok.injEq] at h
    subst h
    simp only [not_or, Decidable.not_not] at hc
    refine ⟨rfl, rfl, rfl, ?_, ?_⟩
    · rw [← Nat.one_shiftLeft]; exact hc.1.symm
    · show (bitLength b - 1) % 8 = 0
      have hb : bitLength b ≠ 0 := by intro e; rw [e] at hc; simp at hc
      omega

theorem mwc_out_fits (p : MwcParams) (hb : p.b = 2 ^ p.outputBits) (h8 : p.outputBits % 8 = 0) (y : Int) :
    (y.fmod p.b).toNat < 256 ^ (p.outputBits / 8) := by
  have hpos : (0 : Int) < (p.b : Int) := by rw [hb]; exact_mod_cast Nat.two_pow_pos _
  rw [Int.fmod_eq_emod_of_nonneg _ (Int.le_of_lt hpos)]
  have h1 := Int.emod_lt_of_pos y hpos
  have h2 := Int.emod_nonneg y (Int.ne_of_gt hpos)
  have : 256 ^ (p.outputBits / 8) = p.b := by rw [pow256, hb]; congr 1; omega
  rw [this]
  omega

theorem lehmer_out_fits (p : LehmerParams) (hm : 0 < p.mod) (h8 : p.bits % 8 = 0) (x : Int) :
    ((x % (p.mod : Int)).toNat <<< p.bits) / p.mod < 256 ^ (p.bits / 8) := by
  have hpos : (0 : Int) < (p.mod : Int) := by exact_mod_cast hm
  have h1 := Int.emod_lt_of_pos x hpos
  have h2 := Int.emod_nonneg x (Int.ne_of_gt hpos)
  have hlt : (x % (p.mod : Int)).toNat < p.mod := by omega
  have : 256 ^ (p.bits / 8) = 2 ^ p.bits := by rw [pow256]; congr 1; omega
  rw [this, Nat.shiftLeft_eq, Nat.div_lt_iff_lt_mul hm, Nat.mul_comm]
  exact Nat.mul_lt_mul_of_pos_left hlt (Nat.two_pow_pos _)

theorem subsetSum_out_fits (bits s : Nat) (h8 : bits % 8 = 0) :
    s &&& ((1 <<< bits) - 1) < 256 ^ (bits / 8) := by
  have : 256 ^ (bits / 8) = 2 ^ bits := by rw [pow256]; congr 1; omega
  rw [this]; exact mask_lt s bits

theorem truncLcg_ok (v : Variant) (p : TruncLcgParams) (n : Nat) (seed : Int) (r : Nat)
    (h : truncLcg v p n seed = .ok r) : r = truncLcgCore v p n seed := by
  unfold truncLcg at h
  split at h
  · simp at h
  · simp only [Except.ok.injEq] at h; exact h.symm


theorem lt_two_pow_bitLength (m : Nat) : m < 2 ^ bitLength m := by
  unfold bitLength
  split
  · rename_i h; subst h; decide
  · exact Nat.lt_log2_self

/-- `seed.to_bytes((seed.bit_length() + 8) // 8, "little", signed=True)` never overflows. -/
theorem shake_seed_fits (seed : Int) :
    -(2 ^ (8 * ((bitLengthI seed + 8) / 8) - 1) : Int) ≤ seed ∧
      seed < (2 ^ (8 * ((bitLengthI seed + 8) / 8) - 1) : Int) := by
  have h1 := lt_two_pow_bitLength seed.natAbs
  have h2 : 2 ^ bitLength seed.natAbs ≤ 2 ^ (8 * ((bitLengthI seed + 8) / 8) - 1) :=
    Nat.pow_le_pow_right (by decide) (by unfold bitLengthI; omega)
  have h3 : (seed.natAbs : Int) < (2 ^ (8 * ((bitLengthI seed + 8) / 8) - 1) : Nat) := by
    exact_mod_cast Nat.lt_of_lt_of_le h1 h2
  push_cast at h3
  have h4 := abs_lt.mp h3
  exact ⟨Int.le_of_lt h4.1, h4.2⟩

end Paranoid.Rng
