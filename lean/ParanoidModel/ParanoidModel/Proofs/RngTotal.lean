/-
Proofs/RngTotal.lean — lemmas for Props/C20Total.lean: which constructor parameters make
`RandomBits` return, raise, or loop for ever (Model/RngTotal.lean).
-/
import ParanoidModel.Model.RngTotal
import ParanoidModel.Proofs.Rng
namespace Paranoid.Rng
open Paranoid

/-! ### TruncLcgRand -/

theorem truncLcg_pos (v : Variant) (k : Nat) (hk : 0 < k) (n : Nat) (seed : Int) :
    truncLcg v (truncLcgInit k) n seed = .ok (truncLcgCore v (truncLcgInit k) n seed) := by
  unfold truncLcg
  rw [if_neg]
  show ¬ (k + 7) / 8 = 0
  omega

theorem truncLcg_zero (v : Variant) (n : Nat) (seed : Int) :
    truncLcg v (truncLcgInit 0) n seed = .error .zeroDivision := by
  unfold truncLcg
  rw [if_pos]
  rfl

/-! ### Mwc -/

theorem bitLength_two_pow (k : Nat) : bitLength (2 ^ k) = k + 1 := by
  unfold bitLength
  rw [if_neg (Nat.ne_of_gt (Nat.two_pow_pos k)), Nat.log2_two_pow]

theorem mwcInit_pow256 (a j : Nat) :
    mwcInit a (256 ^ j) = .ok ⟨a, 256 ^ j, (a : Int) * (256 ^ j : Nat) - 1, 8 * j⟩ := by
  unfold mwcInit
  rw [pow256, bitLength_two_pow]
  rw [if_neg]
  · simp
  · simp only [Nat.add_sub_cancel, Nat.one_shiftLeft, not_or, Decidable.not_not]
    exact ⟨trivial, by omega⟩

theorem mwcInit_error (a b : Nat) (h : ¬ ∃ j, b = 256 ^ j) : mwcInit a b = .error .valueError := by
  cases hm : mwcInit a b with
  | error e =>
    unfold mwcInit at hm
    split at hm
    · cases hm; rfl
    · cases hm
  | ok p =>
    exfalso
    obtain ⟨-, -, -, hb, h8⟩ := mwcInit_ok a b p hm
    exact h ⟨p.outputBits / 8, by rw [pow256, hb]; congr 1; omega⟩

theorem mwcInit_isOk_iff (a b : Nat) : (∃ p, mwcInit a b = .ok p) ↔ ∃ j, b = 256 ^ j := by
  constructor
  · rintro ⟨p, hp⟩
    by_contra h
    rw [mwcInit_error a b h] at hp
    cases hp
  · rintro ⟨j, rfl⟩
    exact ⟨_, mwcInit_pow256 a j⟩

/-- the boolean the model `entryOk` computes for `Mwc(a, b)`. -/
theorem mwc_entryOk_iff (b : Nat) :
    (decide (1 <<< (bitLength b - 1) = b) && decide (bitLength b % 8 = 1) && decide (b ≠ 1)) = true ↔
      ∃ j, 1 ≤ j ∧ b = 256 ^ j := by
  simp only [Bool.and_eq_true, decide_eq_true_eq]
  constructor
  · rintro ⟨⟨h1, h2⟩, h3⟩
    have hb : bitLength b ≠ 0 := by intro e; rw [e] at h2; simp at h2
    refine ⟨(bitLength b - 1) / 8, ?_, ?_⟩
    · by_contra hj
      have : bitLength b - 1 = 0 := by omega
      rw [this] at h1
      exact h3 h1.symm
    · have e : 8 * ((bitLength b - 1) / 8) = bitLength b - 1 := by omega
      calc b = 1 <<< (bitLength b - 1) := h1.symm
        _ = 2 ^ (bitLength b - 1) := Nat.one_shiftLeft _
        _ = 2 ^ (8 * ((bitLength b - 1) / 8)) := by rw [e]
        _ = 256 ^ ((bitLength b - 1) / 8) := (pow256 _).symm
  · rintro ⟨j, hj, rfl⟩
    rw [pow256, bitLength_two_pow]
    refine ⟨⟨by simp [Nat.one_shiftLeft], by omega⟩, ?_⟩
    have : 2 ^ 1 ≤ 2 ^ (8 * j) := Nat.pow_le_pow_right (by decide) (by omega)
    omega

/-! ### Lehmer: the `while` loop is the `for` loop of the model -/

theorem lehmerWhile_mono (p : LehmerParams) (n : Nat) : ∀ (fuel : Nat) (state : Int)
    (ba r : List UInt8), lehmerWhile p n fuel state ba = some r →
      lehmerWhile p n (fuel + 1) state ba = some r
  | 0, state, ba, r, h => by
    unfold lehmerWhile at h
    by_cases hg : 8 * ba.length < n
    · rw [if_pos hg] at h; cases h
    · rw [if_neg hg] at h
      unfold lehmerWhile
      rw [if_neg hg]; exact h
  | fuel + 1, state, ba, r, h => by
    unfold lehmerWhile at h
    by_cases hg : 8 * ba.length < n
    · rw [if_pos hg] at h
      rw [lehmerWhile, if_pos hg]
      exact lehmerWhile_mono p n fuel _ _ r h
    · rw [if_neg hg] at h
      rw [lehmerWhile, if_neg hg]; exact h

theorem lehmerWhile_mono_le (p : LehmerParams) (n : Nat) (state : Int) (ba r : List UInt8)
    (fuel fuel' : Nat) (hle : fuel ≤ fuel') (h : lehmerWhile p n fuel state ba = some r) :
    lehmerWhile p n fuel' state ba = some r := by
  induction hle with
  | refl => exact h
  | step _ ih => exact lehmerWhile_mono p n _ state ba r ih

/-- with `k` = the exact number of iterations still needed, the `while` loop appends the `k`
chunks of `lehmerBytes`. -/
theorem lehmerWhile_exact (p : LehmerParams) (h8 : p.bits % 8 = 0) (n : Nat) :
    ∀ (k : Nat) (state : Int) (ba : List UInt8), n ≤ 8 * ba.length + p.bits * k →
      (k = 0 ∨ 8 * ba.length + p.bits * (k - 1) < n) →
      lehmerWhile p n k state ba = some (ba ++ lehmerBytes p k state)
  | 0, state, ba, h1, _ => by
    unfold lehmerWhile lehmerBytes
    rw [if_neg (by omega)]; simp
  | k + 1, state, ba, h1, h2 => by
    have h2' : 8 * ba.length + p.bits * k < n := by
      rcases h2 with h | h
      · omega
      · simpa using h
    have hk : p.bits * (k + 1) = p.bits * k + p.bits := Nat.mul_succ _ _
    unfold lehmerWhile lehmerBytes
    rw [if_pos (by omega)]
    rw [lehmerWhile_exact p h8 n k]
    · simp [List.append_assoc]
    · rw [List.length_append, toLE_length]; omega
    · by_cases hk0 : k = 0
      · exact Or.inl hk0
      · right
        rw [List.length_append, toLE_length]
        have : p.bits * k = p.bits * (k - 1) + p.bits := by
          rw [← Nat.mul_succ]; congr 1; omega
        omega

/-- `⌈n / bits⌉` is that exact number. -/
theorem ceil_exact (n bits : Nat) (hb : 0 < bits) :
    n ≤ bits * ((n + bits - 1) / bits) ∧
      ((n + bits - 1) / bits = 0 ∨ bits * ((n + bits - 1) / bits - 1) < n) := by
  have h1 := ceil_mul_ge n bits hb
  refine ⟨by rw [Nat.mul_comm]; exact h1, ?_⟩
  by_cases hk : (n + bits - 1) / bits = 0
  · exact Or.inl hk
  · right
    have hn : 0 < n := by
      by_contra h0
      have : n = 0 := by omega
      subst this
      exact hk (Nat.div_eq_of_lt (by omega))
    have h2 := Nat.div_mul_le_self (n + bits - 1) bits
    generalize (n + bits - 1) / bits = K0 at hk h2 ⊢
    obtain ⟨K, hK⟩ : ∃ K, K0 = K + 1 := ⟨K0 - 1, by omega⟩
    rw [hK] at h2 ⊢
    rw [Nat.succ_mul, Nat.mul_comm K bits] at h2
    simp only [Nat.add_sub_cancel]
    omega

/-- for accepted `bits > 0` the `while` loop of `Lehmer.RandomBits` ends after exactly
`⌈n / bits⌉` iterations with the byte string of the model's `for` loop. -/
theorem lehmerWhile_eq_bytes (p : LehmerParams) (h8 : p.bits % 8 = 0) (hb : 0 < p.bits) (n : Nat)
    (state : Int) (fuel : Nat) (hf : (n + p.bits - 1) / p.bits ≤ fuel) :
    lehmerWhile p n fuel state [] = some (lehmerBytes p ((n + p.bits - 1) / p.bits) state) := by
  obtain ⟨c1, c2⟩ := ceil_exact n p.bits hb
  apply lehmerWhile_mono_le p n state [] _ _ fuel hf
  have := lehmerWhile_exact p h8 n ((n + p.bits - 1) / p.bits) state [] (by simpa using c1)
    (by simpa using c2)
  simpa using this

/-- `bits = 0`: the loop body appends `b""`, the guard `8 * len(ba) < n` stays true for ever. -/
theorem lehmerWhile_bits_zero (p : LehmerParams) (hb : p.bits = 0) (n : Nat) (hn : 0 < n) :
    ∀ (fuel : Nat) (state : Int), lehmerWhile p n fuel state [] = none
  | 0, state => by
    unfold lehmerWhile
    rw [if_pos (by simpa using hn)]
  | fuel + 1, state => by
    unfold lehmerWhile
    rw [if_pos (by simpa using hn)]
    have : toLE (p.bits / 8) ((((state * p.a) % (p.mod : Int)).toNat <<< p.bits) / p.mod) = [] := by
      rw [hb]; rfl
    rw [this]
    exact lehmerWhile_bits_zero p hb n hn fuel _

/-! ### SubsetSum -/

theorem selBit_some (sel : List UInt8) (i : Nat) (h : i / 8 < sel.length) :
    ∃ b, selBit sel i = some b ∧ ((∀ x ∈ sel, x = 0) → b = false) := by
  unfold selBit
  have hget : sel[i / 8]? = some sel[i / 8] := List.getElem?_eq_getElem h
  rw [hget]
  refine ⟨_, rfl, fun hz => ?_⟩
  have : sel[i / 8] = 0 := hz _ (List.getElem_mem h)
  rw [this]
  simp

theorem subsetSumOf_some (sel : List UInt8) : ∀ (gens : List Nat) (i acc : Nat),
    (gens = [] ∨ (i + gens.length + 7) / 8 ≤ sel.length) →
    ∃ s, subsetSumOf sel gens i acc = some s ∧ acc ≤ s ∧
      ((∀ g ∈ gens, g = 0) → s = acc) ∧ ((∀ x ∈ sel, x = 0) → s = acc)
  | [], i, acc, _ => ⟨acc, rfl, Nat.le_refl _, fun _ => rfl, fun _ => rfl⟩
  | g :: gs, i, acc, h => by
    have hlen : (i + (g :: gs).length + 7) / 8 ≤ sel.length := by
      rcases h with h | h
      · cases h
      · exact h
    simp only [List.length_cons] at hlen
    obtain ⟨b, hb, hbz⟩ := selBit_some sel i (by omega)
    have hrec : gs = [] ∨ (i + 1 + gs.length + 7) / 8 ≤ sel.length := by
      right; have : i + 1 + gs.length = i + (gs.length + 1) := by omega
      rw [this]; exact hlen
    unfold subsetSumOf
    rw [hb]
    cases b with
    | true =>
      obtain ⟨s, hs, hle, hz1, hz2⟩ := subsetSumOf_some sel gs (i + 1) (acc + g) hrec
      refine ⟨s, hs, by omega, fun hg => ?_, fun hx => ?_⟩
      · have hg0 : g = 0 := hg g (List.mem_cons_self)
        rw [hz1 (fun x hx => hg x (List.mem_cons_of_mem _ hx)), hg0]; rfl
      · exact absurd (hbz hx) (by simp)
    | false =>
      obtain ⟨s, hs, hle, hz1, hz2⟩ := subsetSumOf_some sel gs (i + 1) acc hrec
      exact ⟨s, hs, hle, fun hg => hz1 (fun x hx => hg x (List.mem_cons_of_mem _ hx)), hz2⟩

theorem nonzeroSels_cons (gens : List Nat) (sel : List UInt8) (rest : List (List UInt8)) :
    nonzeroSels gens (sel :: rest) =
      (if subsetSumOf sel gens 0 0 = some 0 then 0 else 1) + nonzeroSels gens rest := by
  unfold nonzeroSels
  rw [List.filter_cons]
  by_cases h : subsetSumOf sel gens 0 0 = some 0
  · simp [h]
  · simp [h]; omega

/-- the `while` loop of `SubsetSum.RandomBits` ends within the supplied oracle answers iff they
contain enough non-zero subset sums. -/
theorem subsetSumLoop_isSome_iff (bits : Nat) (h8 : bits % 8 = 0) (n : Nat) (gens : List Nat) :
    ∀ (sels : List (List UInt8)) (ba : List UInt8),
      (∀ sel ∈ sels, (gens.length + 7) / 8 ≤ sel.length) →
      ((subsetSumLoop bits n gens sels ba).isSome ↔ n ≤ 8 * ba.length + bits * nonzeroSels gens sels)
  | [], ba, _ => by
    unfold subsetSumLoop nonzeroSels
    by_cases hg : ba.length * 8 < n
    · rw [if_pos hg]; simp; omega
    · rw [if_neg hg]; simp; omega
  | sel :: rest, ba, hs => by
    have hrest : ∀ s ∈ rest, (gens.length + 7) / 8 ≤ s.length :=
      fun s h => hs s (List.mem_cons_of_mem _ h)
    obtain ⟨s, hsum, -, -, -⟩ := subsetSumOf_some sel gens 0 0
      (Or.inr (by simpa using hs sel List.mem_cons_self))
    unfold subsetSumLoop
    rw [nonzeroSels_cons, hsum]
    by_cases hg : ba.length * 8 < n
    · rw [if_pos hg]
      simp only
      by_cases h0 : s = 0
      · rw [if_pos h0, subsetSumLoop_isSome_iff bits h8 n gens rest ba hrest, h0]
        simp
      · rw [if_neg h0, subsetSumLoop_isSome_iff bits h8 n gens rest _ hrest,
          List.length_append, toLE_length, if_neg (by simpa using h0)]
        have hm : bits * (1 + nonzeroSels gens rest) = bits + bits * nonzeroSels gens rest := by
          rw [Nat.mul_add, Nat.mul_one]
        rw [hm]
        constructor <;> intro h <;> omega
    · rw [if_neg hg]
      simp
      omega

theorem subsetSum_isSome_iff (bits : Nat) (h8 : bits % 8 = 0) (n : Nat) (gens : List Nat)
    (sels : List (List UInt8)) (hs : ∀ sel ∈ sels, (gens.length + 7) / 8 ≤ sel.length) :
    (subsetSum bits n gens sels).isSome ↔ n ≤ bits * nonzeroSels gens sels := by
  have := subsetSumLoop_isSome_iff bits h8 n gens sels [] hs
  unfold subsetSum
  cases hl : subsetSumLoop bits n gens sels [] with
  | none => rw [hl] at this; simpa using this
  | some ba => rw [hl] at this; simpa using this

theorem nonzeroSels_zero_of (gens : List Nat) (sels : List (List UInt8))
    (hs : ∀ sel ∈ sels, (gens.length + 7) / 8 ≤ sel.length)
    (h : (∀ g ∈ gens, g = 0) ∨ ∀ sel ∈ sels, ∀ x ∈ sel, x = 0) : nonzeroSels gens sels = 0 := by
  unfold nonzeroSels
  rw [List.length_eq_zero_iff, List.filter_eq_nil_iff]
  intro sel hsel
  obtain ⟨s, hsum, -, hz1, hz2⟩ := subsetSumOf_some sel gens 0 0
    (Or.inr (by simpa using hs sel hsel))
  rcases h with h | h
  · rw [hsum, hz1 h]; simp
  · rw [hsum, hz2 (h sel hsel)]; simp

end Paranoid.Rng
