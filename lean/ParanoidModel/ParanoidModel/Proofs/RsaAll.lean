/-
Proofs/RsaAll.lean — helper lemmas for Props/RsaAll.lean: `paranoid.CheckAllRSA` end to end.
Composition of the per-check theorems (C01, C03, C06, C18) with the bookkeeping theorems (C16);
what is new here is only glue: `mapE`, the verdict table, "the bookkeeping cannot raise on fresh
keys", and the reading of the attached factor sets off the history of util calls.
-/
import ParanoidModel.Model.RsaAll
import ParanoidModel.Props.C01
import ParanoidModel.Props.C03
import ParanoidModel.Props.C06
import ParanoidModel.Props.C16
import ParanoidModel.Props.C18
namespace Paranoid.RsaAll
open Paranoid

/-! ### `mapE` -/

theorem mapE_length {α β : Type} {f : α → Except PyErr β} {l : List α} {r : List β}
    (h : mapE f l = .ok r) : r.length = l.length := by
  induction l generalizing r with
  | nil => cases h; rfl
  | cons a as ih =>
    unfold mapE at h
    split at h
    · cases h
    · split at h
      · cases h
      · rename_i bs hbs
        cases h
        simp [ih hbs]

theorem mapE_get {α β : Type} {f : α → Except PyErr β} {l : List α} {r : List β}
    (h : mapE f l = .ok r) (i : Nat) (a : α) (ha : l[i]? = some a) :
    ∃ b, r[i]? = some b ∧ f a = .ok b := by
  induction l generalizing r i with
  | nil => simp at ha
  | cons x xs ih =>
    unfold mapE at h
    split at h
    · cases h
    · rename_i b hb
      split at h
      · cases h
      · rename_i bs hbs
        cases h
        cases i with
        | zero =>
          simp only [List.getElem?_cons_zero, Option.some.injEq] at ha
          subst ha
          exact ⟨b, by simp, hb⟩
        | succ m =>
          simp only [List.getElem?_cons_succ] at ha
          obtain ⟨b', h1, h2⟩ := ih hbs m ha
          exact ⟨b', by simpa using h1, h2⟩

theorem mapE_get' {α β : Type} {f : α → Except PyErr β} {l : List α} {r : List β}
    (h : mapE f l = .ok r) (i : Nat) (b : β) (hb : r[i]? = some b) :
    ∃ a, l[i]? = some a ∧ f a = .ok b := by
  have hlen := mapE_length h
  have hi : i < l.length := by
    rw [← hlen]; exact (List.getElem?_eq_some_iff.1 hb).1
  obtain ⟨b', h1, h2⟩ := mapE_get h i l[i] (List.getElem?_eq_getElem hi)
  rw [hb] at h1
  cases h1
  exact ⟨l[i], List.getElem?_eq_getElem hi, h2⟩

theorem mapE_total {α β : Type} {f : α → Except PyErr β} {l : List α}
    (h : ∀ a ∈ l, ∃ b, f a = .ok b) : ∃ r, mapE f l = .ok r := by
  induction l with
  | nil => exact ⟨[], rfl⟩
  | cons a as ih =>
    obtain ⟨b, hb⟩ := h a List.mem_cons_self
    obtain ⟨bs, hbs⟩ := ih (fun x hx => h x (List.mem_cons_of_mem _ hx))
    exact ⟨b :: bs, by simp [mapE, hb, hbs]⟩

/-- the first exception propagates: an `.ok` result means every element was `.ok`. -/
theorem mapE_mem {α β : Type} {f : α → Except PyErr β} {l : List α} {r : List β}
    (h : mapE f l = .ok r) (a : α) (ha : a ∈ l) : ∃ b, f a = .ok b := by
  obtain ⟨i, hi⟩ := List.mem_iff_getElem?.1 ha
  obtain ⟨b, _, hb⟩ := mapE_get h i a hi
  exact ⟨b, hb⟩

theorem map_ok {α β : Type} {x : Except PyErr α} {f : α → β} {v : β}
    (h : x.map f = .ok v) : ∃ a, x = .ok a ∧ v = f a := by
  cases x with
  | error e => cases h
  | ok a => cases h; exact ⟨a, rfl, rfl⟩

theorem lookup_mem {α β : Type} [BEq α] [LawfulBEq α] {l : List (α × β)} {name : α} {m : β}
    (h : l.lookup name = some m) : (name, m) ∈ l := by
  induction l with
  | nil => cases h
  | cons p ps ih =>
    obtain ⟨k, v⟩ := p
    rw [List.lookup_cons] at h
    split at h
    · rename_i hk
      cases h
      have : name = k := eq_of_beq hk
      subst this
      exact List.mem_cons_self
    · exact List.mem_cons_of_mem _ (ih h)

/-! ### what a verdict may attach -/

/-- what C01 demands of the verdict of one check on the key `k`: no plain AttachInfo; factors
only together with a positive result, as a non-empty list, under N_FACTORS (every value divides
`n`) or under N-1_FACTORS (every value divides `n - 1`). -/
structure VerdictSound (k : RsaKey) (v : Verdict) : Prop where
  info : v.info = none
  sound : ∀ name fs, v.factors = some (name, fs) → v.positive = true ∧ fs ≠ [] ∧
    ((name = nFactors ∧ ∀ x ∈ fs, ∃ d : Nat, x = (d : Int) ∧ d ∣ k.n) ∨
     (name = nm1Factors ∧ ∀ x ∈ fs, ∃ d : Nat, x = (d : Int) ∧ d ∣ k.n - 1))

theorem attach_some {name nm : String} {fs : List Nat} {l : List Int}
    (h : attach name fs = some (nm, l)) : nm = name ∧ fs ≠ [] ∧ l = fs.map Int.ofNat := by
  cases fs with
  | nil => cases h
  | cons f rest =>
    simp only [attach, Option.some.injEq, Prod.mk.injEq] at h
    exact ⟨h.1.symm, by simp, h.2.symm⟩

theorem attach_none {name : String} {fs : List Nat} : attach name fs = none ↔ fs = [] := by
  cases fs <;> simp [attach]

theorem ofFlag_sound (k : RsaKey) (b : Bool) : VerdictSound k (ofFlag b) :=
  ⟨rfl, fun _ _ h => by cases h⟩

theorem mem_map_ofNat {fs : List Nat} {x : Int} (hx : x ∈ fs.map Int.ofNat) :
    ∃ d : Nat, x = (d : Int) ∧ d ∈ fs := by
  obtain ⟨d, hd, rfl⟩ := List.mem_map.1 hx
  exact ⟨d, rfl, hd⟩

theorem ofKeyVerdict_sound (k : RsaKey) (kv : KeyVerdict) (h : kv.Sound k.n) :
    VerdictSound k (ofKeyVerdict kv) := by
  refine ⟨rfl, fun name fs hf => ?_⟩
  obtain ⟨rfl, hne, rfl⟩ := attach_some hf
  refine ⟨C01.factors_imply_weak k.n kv h hne, by simpa using hne, Or.inl ⟨rfl, fun x hx => ?_⟩⟩
  obtain ⟨d, rfl, hd⟩ := mem_map_ofNat hx
  exact ⟨d, rfl, h.all_dvd d hd⟩

theorem ofPair_sound_n (k : RsaKey) (r : Bool × List Nat) (hw : r.2 ≠ [] → r.1 = true)
    (hd : ∀ f ∈ r.2, f ∣ k.n) : VerdictSound k (ofPair nFactors r) := by
  refine ⟨rfl, fun name fs hf => ?_⟩
  obtain ⟨rfl, hne, rfl⟩ := attach_some hf
  refine ⟨hw hne, by simpa using hne, Or.inl ⟨rfl, fun x hx => ?_⟩⟩
  obtain ⟨d, rfl, hd'⟩ := mem_map_ofNat hx
  exact ⟨d, rfl, hd d hd'⟩

theorem ofPair_sound_nm1 (k : RsaKey) (r : Bool × List Nat) (hw : r.2 ≠ [] → r.1 = true)
    (hd : ∀ f ∈ r.2, f ∣ k.n - 1) : VerdictSound k (ofPair nm1Factors r) := by
  refine ⟨rfl, fun name fs hf => ?_⟩
  obtain ⟨rfl, hne, rfl⟩ := attach_some hf
  refine ⟨hw hne, by simpa using hne, Or.inr ⟨rfl, fun x hx => ?_⟩⟩
  obtain ⟨d, rfl, hd'⟩ := mem_map_ofNat hx
  exact ⟨d, rfl, hd d hd'⟩

/-! ### the fifteen single checks: soundness (C01, C06) -/

theorem single_sound : ∀ p ∈ singleModels, ∀ (g : RsaGlobals) (o : KeyOracles) (k : RsaKey)
    (v : Verdict), p.2 g o k = .ok v → VerdictSound k v := by
  intro p hp g o k v h
  simp only [singleModels, List.mem_cons, List.not_mem_nil, or_false] at hp
  rcases hp with rfl | rfl | rfl | rfl | rfl | rfl | rfl | rfl | rfl | rfl | rfl | rfl | rfl |
    rfl | rfl
  · cases h; exact ofFlag_sound k _
  · cases h; exact ofFlag_sound k _
  · obtain ⟨b, _, rfl⟩ := map_ok h; exact ofFlag_sound k _
  · obtain ⟨b, _, rfl⟩ := map_ok h; exact ofFlag_sound k _
  · cases h; exact ofKeyVerdict_sound k _ (C01.check_fermat _ _)
  · obtain ⟨kv, hkv, rfl⟩ := map_ok h
    exact ofKeyVerdict_sound k _ (C01.check_hlbe _ _ _ hkv)
  · cases h; exact ofFlag_sound k _
  · obtain ⟨kv, hkv, rfl⟩ := map_ok h
    exact ofKeyVerdict_sound k _ (C01.check_cf _ _ _ hkv).sound
  · obtain ⟨kv, hkv, rfl⟩ := map_ok h
    exact ofKeyVerdict_sound k _ (C01.check_bitPatterns _ _ _ _ hkv).sound
  · obtain ⟨kv, hkv, rfl⟩ := map_ok h
    exact ofKeyVerdict_sound k _ (C01.check_permuted _ _ _ hkv).sound
  · cases h; exact ofKeyVerdict_sound k _ (C01.check_pollard _ _ _).sound
  · cases h; exact ofKeyVerdict_sound k _ (C01.check_lhw _ _ _)
  · obtain ⟨kv, hkv, rfl⟩ := map_ok h
    exact ofKeyVerdict_sound k _ (C01.check_unseeded _ _ _ _ hkv).sound
  · obtain ⟨kv, hkv, rfl⟩ := map_ok h
    exact ofKeyVerdict_sound k _ (C01.check_sud _ _ _ hkv).sound
  · obtain ⟨r, hr, rfl⟩ := map_ok h
    rcases C06.keypair_sound _ _ _ r.1 r.2 hr with ⟨hw, x, y, hfs, hxy⟩ | ⟨_, hfs⟩
    · refine ofPair_sound_n k r (fun _ => hw) (fun f hf => ?_)
      rw [hfs] at hf
      simp only [List.mem_cons, List.not_mem_nil, or_false] at hf
      rcases hf with rfl | rfl
      · exact Dvd.intro _ hxy
      · exact Dvd.intro_left _ hxy
    · exact ofPair_sound_n k r (fun hne => absurd hfs hne) (fun f hf => by rw [hfs] at hf; cases hf)


/-! ### moduli of 64 bits or more -/

theorem bitLength_lt_64_iff (n : Nat) : bitLength n < 64 ↔ n < 2 ^ 63 := by
  unfold bitLength
  split
  · rename_i h; subst h; simp
  · rename_i h
    rw [show Nat.log2 n + 1 < 64 ↔ Nat.log2 n < 63 by omega, Nat.log2_lt h]

/-- CheckKeypairDenylist returns only for moduli of at least 64 bits (`n >> (bit_length - 64)`
raises ValueError below). -/
theorem keypair_ok_big {table : List (Nat × List Nat)} {n : Nat}
    {gen : List Nat → Nat → Nat × Nat} {r : Bool × List Nat}
    (h : keypairStep table n gen = .ok r) : 2 ^ 63 ≤ n := by
  by_contra hlt
  rw [C06.keypair_short_modulus table n gen ((bitLength_lt_64_iff n).2 (by omega))] at h
  cases h

/-! ### the two aggregate checks: soundness (C03) -/

/-- the proper-divisor clause of C01 for one verdict: some value recorded under N_FACTORS is a
proper divisor, unless the modulus divides another, different modulus of the batch. -/
def VerdictProper (ns : List Nat) (k : RsaKey) (v : Verdict) : Prop :=
  ∀ fs, v.factors = some (nFactors, fs) →
    (∃ x ∈ fs, 1 < x ∧ x < (k.n : Int)) ∨ ∃ m ∈ ns, m ≠ k.n ∧ k.n ∣ m

theorem moduli_pos {keys : List RsaKey} (hbig : ∀ k ∈ keys, 2 ≤ k.n) :
    ∀ n ∈ keys.map (·.n), 0 < n := by
  intro n hn
  obtain ⟨k, hk, rfl⟩ := List.mem_map.1 hn
  have := hbig k hk
  omega

theorem moduli_ge2 {keys : List RsaKey} (hbig : ∀ k ∈ keys, 2 ≤ k.n) :
    ∀ n ∈ keys.map (·.n), 2 ≤ n := by
  intro n hn
  obtain ⟨k, hk, rfl⟩ := List.mem_map.1 hn
  exact hbig k hk

theorem gcd_row (g : RsaGlobals) (keys : List RsaKey) (hbig : ∀ k ∈ keys, 2 ≤ k.n)
    (row : List Verdict) (h : mGcd g (keys.map (·.n)) = .ok row) :
    row = keys.map fun k => ofPair nFactors
      (checkGCDKeyR (keys.map (·.n)) k.n (entry (keys.map (·.n)).toFinset 1 k.n)) := by
  obtain ⟨r, hr, rfl⟩ := map_ok h
  rw [C03.checkGCD_spec _ (moduli_pos hbig)] at hr
  cases hr
  simp [List.map_map, Function.comp_def]

theorem gcdn1_row (g : RsaGlobals) (keys : List RsaKey) (hbig : ∀ k ∈ keys, 2 ≤ k.n)
    (row : List Verdict) (h : mGcdN1 g (keys.map (·.n)) = .ok row) :
    row = keys.map fun k => ofPair nm1Factors
      (checkGCDN1Key g.gcdn1Bound
        (entry ((keys.map (·.n)).map (· - 1)).toFinset 1 (k.n - 1))) := by
  obtain ⟨r, hr, rfl⟩ := map_ok h
  rw [C03.checkGCDN1_spec _ _ (moduli_ge2 hbig)] at hr
  cases hr
  simp [List.map_map, Function.comp_def]

theorem gcdKey_sound (ns : List Nat) (k : RsaKey) (hk : 2 ≤ k.n) :
    VerdictSound k (ofPair nFactors (checkGCDKeyR ns k.n (entry ns.toFinset 1 k.n))) := by
  by_cases he : entry ns.toFinset 1 k.n = 1
  · have hnil := (C03.checkGCDKey_spec ns k.n _).2.2.2 he
    exact ofPair_sound_n k _ (fun hne => absurd hnil hne) (fun f hf => by rw [hnil] at hf; cases hf)
  · exact ofPair_sound_n k _ (fun _ => (C03.checkGCDKey_spec ns k.n _).1.2 he)
      (C03.checkGCD_recorded_proper ns k.n (by omega) he).1

theorem gcdKey_proper (ns : List Nat) (k : RsaKey) (hk : 2 ≤ k.n) :
    VerdictProper ns k (ofPair nFactors (checkGCDKeyR ns k.n (entry ns.toFinset 1 k.n))) := by
  intro fs hf
  obtain ⟨_, hne, rfl⟩ := attach_some hf
  have he : entry ns.toFinset 1 k.n ≠ 1 := fun he =>
    hne ((C03.checkGCDKey_spec ns k.n _).2.2.2 he)
  rcases (C03.checkGCD_recorded_proper ns k.n (by omega) he).2 with ⟨f, hf, h1, h2⟩ | h
  · exact Or.inl ⟨(f : Int), List.mem_map.2 ⟨f, hf, rfl⟩, by exact_mod_cast h1, by exact_mod_cast h2⟩
  · exact Or.inr h

theorem gcdn1Key_sound (bound : Nat) (s : Finset Nat) (k : RsaKey) :
    VerdictSound k (ofPair nm1Factors (checkGCDN1Key bound (entry s 1 (k.n - 1)))) := by
  by_cases hb : bound ≤ entry s 1 (k.n - 1)
  · have hfs := (C03.checkGCDN1Key_spec bound _).2.1 hb
    refine ofPair_sound_nm1 k _ (fun _ => (C03.checkGCDN1Key_spec bound _).1.2 hb) (fun f hf => ?_)
    rw [hfs] at hf
    simp only [List.mem_cons, List.not_mem_nil, or_false] at hf
    subst hf
    exact entry_dvd s 1 (k.n - 1)
  · have hnil := (C03.checkGCDN1Key_spec bound (entry s 1 (k.n - 1))).2.2 (by omega)
    exact ofPair_sound_nm1 k _ (fun hne => absurd hnil hne) (fun f hf => by rw [hnil] at hf; cases hf)

theorem aggregate_sound : ∀ p ∈ aggregateModels, ∀ (g : RsaGlobals) (keys : List RsaKey)
    (row : List Verdict), (∀ k ∈ keys, 2 ≤ k.n) → p.2 g (keys.map (·.n)) = .ok row →
    row.length = keys.length ∧
    ∀ (i : Nat) (k : RsaKey) (v : Verdict), keys[i]? = some k → row[i]? = some v →
      VerdictSound k v ∧ VerdictProper (keys.map (·.n)) k v := by
  intro p hp g keys row hbig h
  simp only [aggregateModels, List.mem_cons, List.not_mem_nil, or_false] at hp
  rcases hp with rfl | rfl
  · have hrow := gcd_row g keys hbig row h
    subst hrow
    refine ⟨by simp, fun i k v hk hv => ?_⟩
    simp only [List.getElem?_map, hk, Option.map_some, Option.some.injEq] at hv
    subst hv
    have hk2 := hbig k (List.mem_of_getElem? hk)
    exact ⟨gcdKey_sound _ k hk2, gcdKey_proper _ k hk2⟩
  · have hrow := gcdn1_row g keys hbig row h
    subst hrow
    refine ⟨by simp, fun i k v hk hv => ?_⟩
    simp only [List.getElem?_map, hk, Option.map_some, Option.some.injEq] at hv
    subst hv
    refine ⟨gcdn1Key_sound _ _ k, ?_⟩
    intro fs hf
    obtain ⟨hname, _, _⟩ := attach_some hf
    exact absurd hname (by decide)

/-! ### `rsaVerdict`: soundness of whatever it returns -/

theorem nth_ok {row : List Verdict} {i : Nat} {v : Verdict} (h : nth row i = .ok v) :
    row[i]? = some v := by
  unfold nth at h
  split at h
  · cases h; assumption
  · cases h

theorem rsaVerdict_sound {name : String} {orc : RsaOracles} {keys : List RsaKey} {i : Nat}
    {k : RsaKey} {v : Verdict} (hbig : ∀ k ∈ keys, 2 ≤ k.n) (hk : keys[i]? = some k)
    (h : rsaVerdict name orc keys i = .ok v) : VerdictSound k v := by
  unfold rsaVerdict at h
  split at h
  · rename_i m hm
    simp only [runSingle, hk] at h
    exact single_sound _ (lookup_mem hm) _ _ _ _ h
  · split at h
    · rename_i m hm
      unfold runAggregate at h
      split at h
      · cases h
      · rename_i row hrow
        exact ((aggregate_sound _ (lookup_mem hm) _ keys row hbig hrow).2 i k v hk (nth_ok h)).1
    · cases h


/-! ### totality of the per-key models on well-formed input (C18, C06, C03) -/

/-- well-formed input of the single checks for one key. -/
structure KeyWF (g : RsaGlobals) (o : KeyOracles) (k : RsaKey) : Prop where
  big : 2 ^ 63 ≤ k.n
  red : RedWF o.red
  unseeded : ∀ c ∈ o.unseeded, c ≠ 0
  table : ∀ p ∈ g.keypairTable, ∃ seed, seedFromMeta p.2 = .ok seed

theorem keypairStep_total (table : List (Nat × List Nat)) (n : Nat)
    (gen : List Nat → Nat → Nat × Nat) (hbig : 2 ^ 63 ≤ n)
    (ht : ∀ p ∈ table, ∃ seed, seedFromMeta p.2 = .ok seed) :
    ∃ r, keypairStep table n gen = .ok r := by
  have hmsb : keypairMsb n = .ok (n >>> (bitLength n - 64)) := by
    have : ¬ bitLength n < 64 := by rw [bitLength_lt_64_iff]; omega
    simp [keypairMsb, this]
  unfold keypairStep
  rw [hmsb]
  dsimp only
  cases hl : table.lookup (n >>> (bitLength n - 64)) with
  | none => exact ⟨_, rfl⟩
  | some metadata =>
    obtain ⟨seed, hseed⟩ := ht _ (lookup_mem hl)
    dsimp only at hseed ⊢
    split
    · exact ⟨_, rfl⟩
    · rw [hseed]
      dsimp only
      split <;> exact ⟨_, rfl⟩

theorem single_total : ∀ p ∈ singleModels, ∀ (g : RsaGlobals) (o : KeyOracles) (k : RsaKey),
    KeyWF g o k → ∃ v, p.2 g o k = .ok v := by
  intro p hp g o k wf
  simp only [singleModels, List.mem_cons, List.not_mem_nil, or_false] at hp
  rcases hp with rfl | rfl | rfl | rfl | rfl | rfl | rfl | rfl | rfl | rfl | rfl | rfl | rfl |
    rfl | rfl
  · exact ⟨_, rfl⟩
  · exact ⟨_, rfl⟩
  · obtain ⟨r, hr, _⟩ := C06.roca_iff k.n
    exact ⟨ofFlag r, by show (rocaIsWeak _ _ _).map ofFlag = _; rw [hr]; rfl⟩
  · obtain ⟨r, hr, _⟩ := C06.rocaVariant_iff k.n
    exact ⟨ofFlag r, by show (rocaVariantIsWeak _ _ _ _).map ofFlag = _; rw [hr]; rfl⟩
  · exact ⟨_, rfl⟩
  · obtain ⟨kv, hkv⟩ := C18.hlbe_total k.n g.hlbeMiddleBits
    exact ⟨ofKeyVerdict kv, by show (vHlbe _ _).map ofKeyVerdict = _; rw [hkv]; rfl⟩
  · exact ⟨_, rfl⟩
  · obtain ⟨kv, hkv⟩ := C18.cf_total k.n g.cfBound
    exact ⟨ofKeyVerdict kv, by show (vCf _ _).map ofKeyVerdict = _; rw [hkv]; rfl⟩
  · obtain ⟨kv, hkv⟩ := C18.bitPatterns_total k.n defaultPatternSizes o.red wf.red
    exact ⟨ofKeyVerdict kv, by show (vBitPatterns _ _ _).map ofKeyVerdict = _; rw [hkv]; rfl⟩
  · obtain ⟨kv, hkv⟩ := C18.permuted_total k.n o.red wf.red
    exact ⟨ofKeyVerdict kv, by show (vPermuted _ _).map ofKeyVerdict = _; rw [hkv]; rfl⟩
  · exact ⟨_, rfl⟩
  · exact ⟨_, rfl⟩
  · obtain ⟨kv, hkv⟩ := C18.unseeded_total k.n o.cbrt o.unseeded wf.unseeded
    exact ⟨ofKeyVerdict kv, by show (vUnseeded _ _ _).map ofKeyVerdict = _; rw [hkv]; rfl⟩
  · obtain ⟨kv, hkv⟩ := C18.sud_total k.n o.cbrt (by have := wf.big; omega)
    exact ⟨ofKeyVerdict kv, by show (vSud _ _).map ofKeyVerdict = _; rw [hkv]; rfl⟩
  · obtain ⟨r, hr⟩ := keypairStep_total g.keypairTable k.n o.keypairGen wf.big wf.table
    exact ⟨ofPair nFactors r, by show (keypairStep _ _ _).map (ofPair nFactors) = _; rw [hr]; rfl⟩

theorem aggregate_total : ∀ p ∈ aggregateModels, ∀ (g : RsaGlobals) (keys : List RsaKey),
    (∀ k ∈ keys, 2 ≤ k.n) → ∃ row, p.2 g (keys.map (·.n)) = .ok row := by
  intro p hp g keys hbig
  simp only [aggregateModels, List.mem_cons, List.not_mem_nil, or_false] at hp
  rcases hp with rfl | rfl
  · exact ⟨_, by show (checkGCD _).map _ = _; rw [C03.checkGCD_spec _ (moduli_pos hbig)]; rfl⟩
  · exact ⟨_, by show (checkGCDN1 _ _).map _ = _
                 rw [C03.checkGCDN1_spec _ _ (moduli_ge2 hbig)]; rfl⟩

/-- well-formed input of the entry point: moduli of 64 bits or more (any exponent), LLL answers
with at least two entries per row, non-zero listed PRNG outputs, parsable keypair metadata. -/
structure WF (orc : RsaOracles) (keys : List RsaKey) : Prop where
  big : ∀ k ∈ keys, 2 ^ 63 ≤ k.n
  red : ∀ i, RedWF (orc.red i)
  unseeded : ∀ i, ∀ c ∈ orc.unseeded i, c ≠ 0
  table : ∀ p ∈ orc.keypairTable, ∃ seed, seedFromMeta p.2 = .ok seed

theorem WF.ge2 {orc : RsaOracles} {keys : List RsaKey} (wf : WF orc keys) :
    ∀ k ∈ keys, 2 ≤ k.n := by
  intro k hk
  have := wf.big k hk
  omega

/-- every name of the regenerated registry has a model. -/
theorem registry_covered : ∀ c ∈ rsaAll,
    (singleModels.lookup c.name).isSome = true ∨ (aggregateModels.lookup c.name).isSome = true := by
  decide +kernel

theorem rsaVerdict_total {orc : RsaOracles} {keys : List RsaKey} (wf : WF orc keys)
    (c : CheckSpec) (hc : c ∈ rsaAll) (i : Nat) (hi : i < keys.length) :
    ∃ v, rsaVerdict c.name orc keys i = .ok v := by
  unfold rsaVerdict
  cases hs : singleModels.lookup c.name with
  | some m =>
    dsimp only
    have hk : keys[i]? = some keys[i] := List.getElem?_eq_getElem hi
    simp only [runSingle, hk]
    exact single_total _ (lookup_mem hs) _ _ _
      ⟨wf.big _ (List.mem_of_getElem? hk), wf.red i, wf.unseeded i, wf.table⟩
  | none =>
    dsimp only
    cases ha : aggregateModels.lookup c.name with
    | some m =>
      dsimp only
      obtain ⟨row, hrow⟩ := aggregate_total _ (lookup_mem ha) orc.toRsaGlobals keys wf.ge2
      have hlen := (aggregate_sound _ (lookup_mem ha) _ keys row wf.ge2 hrow).1
      have hrow' : m orc.toRsaGlobals (keys.map (·.n)) = .ok row := hrow
      have : row[i]? = some row[i] := List.getElem?_eq_getElem (by omega)
      exact ⟨row[i], by simp only [runAggregate, hrow', nth, this]⟩
    | none =>
      rcases registry_covered c hc with h | h
      · rw [hs] at h; cases h
      · rw [ha] at h; cases h

theorem verdictTable_total {orc : RsaOracles} {keys : List RsaKey} (wf : WF orc keys) :
    ∃ tbl, verdictTable orc keys = .ok tbl := by
  apply mapE_total
  intro c hc
  apply mapE_total
  intro i hi
  exact rsaVerdict_total wf c hc i (List.mem_range.1 hi)

/-! ### the verdict table as the oracle of the bookkeeping layer -/

theorem table_spec {orc : RsaOracles} {keys : List RsaKey} {tbl : List (List Verdict)}
    (h : verdictTable orc keys = .ok tbl) (j : Nat) (c : CheckSpec) (hc : rsaAll[j]? = some c)
    (i : Nat) (hi : i < keys.length) :
    ∃ v, rsaVerdict c.name orc keys i = .ok v ∧ tableO tbl j i = v := by
  obtain ⟨row, hrow, hr⟩ := mapE_get h j c hc
  have hir : (List.range keys.length)[i]? = some i := by simp [hi]
  obtain ⟨v, hv, hrv⟩ := mapE_get hr i i hir
  exact ⟨v, hrv, by simp [tableO, hrow, hv]⟩

/-- an entry point that returned saw only moduli of 64 bits or more. -/
theorem table_big {orc : RsaOracles} {keys : List RsaKey} {tbl : List (List Verdict)}
    (h : verdictTable orc keys = .ok tbl) : ∀ k ∈ keys, 2 ^ 63 ≤ k.n := by
  intro k hk
  obtain ⟨i, hi⟩ := List.mem_iff_getElem?.1 hk
  have hc : ∃ c ∈ rsaAll, c.name = "CheckKeypairDenylist" := by decide +kernel
  obtain ⟨c, hc, hname⟩ := hc
  obtain ⟨j, hj⟩ := List.mem_iff_getElem?.1 hc
  obtain ⟨v, hv, _⟩ := table_spec h j c hj i (List.getElem?_eq_some_iff.1 hi).1
  rw [hname] at hv
  have hl : singleModels.lookup "CheckKeypairDenylist" = some mKeypair := rfl
  simp only [rsaVerdict, hl, runSingle, hi] at hv
  obtain ⟨r, hr, _⟩ := map_ok hv
  exact keypair_ok_big hr

theorem table_big2 {orc : RsaOracles} {keys : List RsaKey} {tbl : List (List Verdict)}
    (h : verdictTable orc keys = .ok tbl) : ∀ k ∈ keys, 2 ≤ k.n := by
  intro k hk
  have := table_big h k hk
  omega

theorem tableO_info {orc : RsaOracles} {keys : List RsaKey} {tbl : List (List Verdict)}
    (h : verdictTable orc keys = .ok tbl) (j i : Nat) : (tableO tbl j i).info = none := by
  unfold tableO
  split
  · rename_i row hrow
    split
    · rename_i v hv
      obtain ⟨c, _, hr⟩ := mapE_get' h j row hrow
      obtain ⟨a, ha, hav⟩ := mapE_get' hr i v hv
      have hai : a = i ∧ i < keys.length := by
        obtain ⟨hlt, heq⟩ := List.getElem?_eq_some_iff.1 ha
        simp only [List.length_range] at hlt
        simp only [List.getElem_range] at heq
        exact ⟨heq.symm, hlt⟩
      obtain ⟨rfl, hi⟩ := hai
      exact (rsaVerdict_sound (table_big2 h) (List.getElem?_eq_getElem hi) hav).info
    · rfl
  · rfl


/-! ### the bookkeeping cannot raise on keys without unparsable attached values

The only exception of the bookkeeping layer is the one of `GetAttachedFactors` on a stored string
that is not a factor set (`AttachedValue.raw`).  Fresh keys have no attached values and the RSA
checks never call AttachInfo, so no such value ever appears. -/

def NoRaw (ti : TestInfo) : Prop := ∀ p ∈ ti.attached, ∃ s, p.2 = AttachedValue.factors s

theorem noRaw_empty : NoRaw TestInfo.empty := by
  intro p hp
  cases hp

theorem getAttachedFactors_noRaw {ti : TestInfo} (h : NoRaw ti) (k : String) :
    ∃ o, getAttachedFactors ti k = .ok o := by
  unfold getAttachedFactors getAttachedInfo
  cases hf : ti.attached.find? (fun p => p.1 = k) with
  | none => exact ⟨none, rfl⟩
  | some p =>
    obtain ⟨s, hs⟩ := h p (List.mem_of_find?_eq_some hf)
    simp only [Option.map_some, hs]
    exact ⟨some s, rfl⟩

theorem mem_updateFirstInfo {k : String} {v : AttachedValue} {l : List (String × AttachedValue)}
    {p : String × AttachedValue} (hp : p ∈ updateFirstInfo k v l) : p ∈ l ∨ p.2 = v := by
  induction l with
  | nil => cases hp
  | cons x xs ih =>
    unfold updateFirstInfo at hp
    split at hp
    · rcases List.mem_cons.1 hp with rfl | hp
      · exact Or.inr rfl
      · exact Or.inl (List.mem_cons_of_mem _ hp)
    · rcases List.mem_cons.1 hp with rfl | hp
      · exact Or.inl List.mem_cons_self
      · rcases ih hp with h | h
        · exact Or.inl (List.mem_cons_of_mem _ h)
        · exact Or.inr h

theorem attachInfo_noRaw {ti : TestInfo} (h : NoRaw ti) (k : String) (s : List Int) :
    NoRaw (attachInfo ti k (.factors s)) := by
  intro p hp
  unfold attachInfo at hp
  dsimp only at hp
  split at hp
  · rcases mem_updateFirstInfo hp with hp | hp
    · exact h p hp
    · exact ⟨s, hp⟩
  · rcases List.mem_append.1 hp with hp | hp
    · exact h p hp
    · simp only [List.mem_singleton] at hp
      subst hp
      exact ⟨s, rfl⟩

/-- ops of a check whose verdict carries no plain info. -/
def infoFree : Op → Bool
  | .attachInfo _ _ => false
  | _ => true

theorem applyOps_noRaw (ver : String) {ti : TestInfo} {ops : List Op} (h : NoRaw ti)
    (hops : ∀ op ∈ ops, infoFree op = true) :
    ∃ t, applyOps ver ti ops = .ok t ∧ NoRaw t := by
  induction ops generalizing ti with
  | nil => exact ⟨ti, rfl, h⟩
  | cons op ops ih =>
    have hrest : ∀ op' ∈ ops, infoFree op' = true := fun op' h' =>
      hops op' (List.mem_cons_of_mem _ h')
    unfold applyOps
    cases op with
    | setTestResult e =>
      simp only [applyOp]
      exact ih (ti := setTestResult ver ti e) h hrest
    | attachInfo k v =>
      have := hops _ List.mem_cons_self
      cases this
    | attachFactors k fs =>
      obtain ⟨o, ho⟩ := getAttachedFactors_noRaw h k
      simp only [applyOp, attachFactors, ho]
      exact ih (attachInfo_noRaw h k _) hrest

theorem verdictOps_infoFree (c : CheckSpec) {v : Verdict} (hv : v.info = none) :
    ∀ op ∈ verdictOps c v, infoFree op = true := by
  intro op hop
  unfold verdictOps at hop
  rcases List.mem_append.1 hop with h | h
  · split at h
    · unfold attachOps at h
      rw [hv] at h
      cases hf : v.factors with
      | none => simp [hf] at h
      | some p => simp only [hf, List.append_nil, List.mem_singleton] at h; subst h; rfl
    · cases h
  · simp only [List.mem_singleton] at h
    subst h
    rfl

theorem checkOne_noRaw (ver : String) (c : CheckSpec) {a : Artifact} {v : Verdict}
    (ha : NoRaw a.info) (hv : v.info = none) :
    ∃ a' w, checkOne ver c a v = .ok (a', w) ∧ NoRaw a'.info := by
  unfold checkOne
  split
  · obtain ⟨t, ht, hn⟩ := applyOps_noRaw ver ha (verdictOps_infoFree c hv)
    rw [ht]
    exact ⟨_, _, rfl, hn⟩
  · exact ⟨_, _, rfl, ha⟩

theorem runCheckFrom_noRaw (ver : String) (c : CheckSpec) {v : Nat → Verdict}
    (hv : ∀ i, (v i).info = none) (i : Nat) {arts : List Artifact}
    (ha : ∀ a ∈ arts, NoRaw a.info) :
    ∃ arts' w, runCheckFrom ver c v i arts = .ok (arts', w) ∧ ∀ a ∈ arts', NoRaw a.info := by
  induction arts generalizing i with
  | nil => exact ⟨[], false, rfl, fun a h => by cases h⟩
  | cons a as ih =>
    obtain ⟨a', w, h1, hn1⟩ := checkOne_noRaw ver c (ha a List.mem_cons_self) (hv i)
    obtain ⟨as', w', h2, hn2⟩ := ih (i + 1) (fun x hx => ha x (List.mem_cons_of_mem _ hx))
    refine ⟨a' :: as', w || w', by simp only [runCheckFrom, h1, h2], ?_⟩
    intro x hx
    rcases List.mem_cons.1 hx with rfl | hx
    · exact hn1
    · exact hn2 x hx

theorem checkArtifacts_noRaw (var : Variant) (ver : String) (ec : List CheckSpec)
    {steps : List Step} (hs : ∀ s ∈ steps, s.spec.issuer = false ∧ ∀ i, (s.verdict i).info = none)
    {arts : List Artifact} (ha : ∀ a ∈ arts, NoRaw a.info) :
    ∃ arts' r, checkArtifacts var ver ec steps arts = .ok (arts', r) := by
  unfold checkArtifacts
  induction steps generalizing arts with
  | nil => exact ⟨arts, false, rfl⟩
  | cons s ss ih =>
    obtain ⟨hiss, hinfo⟩ := hs s List.mem_cons_self
    obtain ⟨arts1, r1, h1, hn1⟩ := runCheckFrom_noRaw ver s.spec hinfo 0 ha
    have hrun : runStep var ver ec s arts = .ok (arts1, r1) := by
      simp only [runStep, hiss, Bool.false_eq_true, if_false, runCheck, h1]
    obtain ⟨arts2, r2, h2⟩ := ih (fun s' h' => hs s' (List.mem_cons_of_mem _ h')) hn1
    exact ⟨arts2, r1 || r2, by simp only [foldChecks, hrun, h2]⟩

/-! ### facts about the regenerated RSA registry -/

theorem rsaAll_flags : ∀ c ∈ rsaAll, c.issuer = false ∧ c.needsCurve = false := by
  decide +kernel

theorem mkSteps_get (specs : List CheckSpec) (O : Nat → Nat → Verdict)
    (I : Nat → Nat → Nat → Verdict) (j : Nat) :
    (mkSteps specs O I)[j]? = (specs[j]?).map fun c => (⟨c, O j, I j⟩ : Step) := by
  unfold mkSteps
  rw [List.getElem?_map, List.getElem?_zipIdx]
  cases specs[j]? <;> simp

theorem mkSteps_mem {specs : List CheckSpec} {O : Nat → Nat → Verdict}
    {I : Nat → Nat → Nat → Verdict} {s : Step} (hs : s ∈ mkSteps specs O I) :
    ∃ j c, specs[j]? = some c ∧ s = ⟨c, O j, I j⟩ := by
  obtain ⟨j, hj⟩ := List.mem_iff_getElem?.1 hs
  rw [mkSteps_get] at hj
  cases hc : specs[j]? with
  | none => rw [hc] at hj; cases hj
  | some c => rw [hc] at hj; cases hj; exact ⟨j, c, hc, rfl⟩

/-- on well-formed verdicts (no plain info) and keys without unparsable attached values
— in particular fresh ones — `CheckAllRSA` returns. -/
theorem checkAllRSA_noRaw (var : Variant) {O : Nat → Nat → Verdict}
    (I : Nat → Nat → Nat → Verdict) (hO : ∀ j i, (O j i).info = none) {arts : List Artifact}
    (ha : ∀ a ∈ arts, NoRaw a.info) : ∃ arts' r, checkAllRSA var O I arts = .ok (arts', r) := by
  unfold checkAllRSA
  apply checkArtifacts_noRaw _ _ _ _ ha
  intro s hs
  obtain ⟨j, c, hc, rfl⟩ := mkSteps_mem hs
  exact ⟨(rsaAll_flags c (List.mem_of_getElem? hc)).1, fun i => hO j i⟩

theorem fresh_noRaw (keys : List RsaKey) : ∀ a ∈ keys.map (fun _ => freshArt), NoRaw a.info := by
  intro a ha
  obtain ⟨_, _, rfl⟩ := List.mem_map.1 ha
  exact noRaw_empty


/-! ### reading the attached factor sets off the history of util calls -/

theorem attachedUnder_append (k : String) (o1 o2 : List Op) :
    attachedUnder k (o1 ++ o2) = attachedUnder k o1 ++ attachedUnder k o2 := by
  induction o1 with
  | nil => rfl
  | cons op ops ih =>
    rw [List.cons_append, attachedUnder_cons, attachedUnder_cons k op ops, ih, List.append_assoc]

theorem attachedUnder_verdictOps (k : String) (c : CheckSpec) (v : Verdict) (fs : List Int) :
    fs ∈ attachedUnder k (verdictOps c v) ↔ v.positive = true ∧ v.factors = some (k, fs) := by
  unfold verdictOps
  rw [attachedUnder_append]
  have hset : attachedUnder k [Op.setTestResult (entryFor c v)] = [] := rfl
  rw [hset, List.append_nil]
  cases hp : v.positive with
  | false => simp [attachedUnder]
  | true =>
    simp only [if_true, true_and]
    cases hf : v.factors with
    | none =>
      have : attachedUnder k (attachOps v) = [] := by
        cases hi : v.info <;> simp [attachOps, hf, hi, attachedUnder]
      simp [this]
    | some q =>
      obtain ⟨k', fs'⟩ := q
      have : attachedUnder k (attachOps v) = if k' = k then [fs'] else [] := by
        cases hi : v.info <;> simp [attachOps, hf, hi, attachedUnder]
      rw [this]
      by_cases hk : k' = k
      · subst hk; simp [eq_comm]
      · simp [hk]

theorem attachedUnder_allOps (var : Variant) (ver : String) (ec : List CheckSpec)
    (steps : List Step) (st : List Artifact) (j : Nat) (a : Artifact) (k : String) (fs : List Int)
    (hs : ∀ s ∈ steps, s.spec.issuer = false ∧ applicable s.spec a = true) :
    fs ∈ attachedUnder k (allOps var ver ec steps st j a) ↔
      ∃ s ∈ steps, (s.verdict j).positive = true ∧ (s.verdict j).factors = some (k, fs) := by
  unfold allOps
  induction steps with
  | nil => simp [attachedUnder]
  | cons s ss ih =>
    obtain ⟨hiss, happ⟩ := hs s List.mem_cons_self
    have hstep : stepOps var ver ec s st j a = verdictOps s.spec (s.verdict j) := by
      simp [stepOps, hiss, genOps, happ]
    rw [List.flatMap_cons, attachedUnder_append, List.mem_append, hstep, attachedUnder_verdictOps,
      ih (fun s' h' => hs s' (List.mem_cons_of_mem _ h'))]
    simp only [List.mem_cons, exists_eq_or_imp]

/-! ### the entry point, unfolded -/

theorem full_unfold {orc : RsaOracles} {keys : List RsaKey} {arts' : List Artifact} {r : Bool}
    (h : checkAllRSAFull orc keys = .ok (arts', r)) :
    ∃ tbl, verdictTable orc keys = .ok tbl ∧
      checkAllRSA .repaired (tableO tbl) noInner (keys.map fun _ => freshArt) = .ok (arts', r) := by
  unfold checkAllRSAFull at h
  split at h
  · cases h
  · rename_i tbl htbl
    exact ⟨tbl, htbl, h⟩

theorem fresh_all (keys : List RsaKey) :
    ∀ a ∈ keys.map (fun _ => freshArt), a.info = TestInfo.empty := by
  intro a ha
  obtain ⟨_, _, rfl⟩ := List.mem_map.1 ha
  rfl

theorem fresh_get {keys : List RsaKey} {i : Nat} (hi : i < keys.length) :
    (keys.map fun _ => freshArt)[i]? = some freshArt := by
  simp [hi]

theorem filterMap_eq_map' {α β : Type} {f : α → Option β} {g : α → β} {l : List α}
    (h : ∀ x ∈ l, f x = some (g x)) : l.filterMap f = l.map g := by
  induction l with
  | nil => rfl
  | cons x xs ih =>
    rw [List.filterMap_cons, h x List.mem_cons_self, List.map_cons,
      ih (fun y hy => h y (List.mem_cons_of_mem _ hy))]

theorem steps_nodup (O : Nat → Nat → Verdict) (I : Nat → Nat → Nat → Verdict) :
    ((mkSteps rsaAll O I).map (·.spec.name)).Nodup := by
  have : (mkSteps rsaAll O I).map (·.spec.name) = rsaAll.map (·.name) := by
    rw [← mkSteps_names rsaAll O I, List.map_map]; rfl
  rw [this]
  exact C16.registry_names_nodup.1

theorem steps_flags {O : Nat → Nat → Verdict} {I : Nat → Nat → Nat → Verdict} (a : Artifact) :
    ∀ s ∈ mkSteps rsaAll O I, s.spec.issuer = false ∧ applicable s.spec a = true := by
  intro s hs
  obtain ⟨j, c, hc, rfl⟩ := mkSteps_mem hs
  obtain ⟨h1, h2⟩ := rsaAll_flags c (List.mem_of_getElem? hc)
  exact ⟨h1, by simp [applicable, h2]⟩

/-- FRESH batch: the result list of key `i` after `CheckAllRSA` is one entry per registered
check, in registry order, built from that check's verdict on that key. -/
theorem fresh_results {var : Variant} {O : Nat → Nat → Verdict} {I : Nat → Nat → Nat → Verdict}
    {arts arts' : List Artifact} {r : Bool} (hfresh : ∀ a ∈ arts, a.info = TestInfo.empty)
    (h : checkAllRSA var O I arts = .ok (arts', r)) (i : Nat) (a' : Artifact)
    (ha' : arts'[i]? = some a') :
    a'.info.results = (mkSteps rsaAll O I).map fun s => entryFor s.spec (s.verdict i) := by
  unfold checkAllRSA at h
  have hlen := (C16.checkArtifacts_monotone var _ _ _ arts arts' r h).1
  have hi : i < arts.length := by
    rw [← hlen]; exact (List.getElem?_eq_some_iff.1 ha').1
  have ha : arts[i]? = some arts[i] := List.getElem?_eq_getElem hi
  have hf := hfresh _ (List.mem_of_getElem? ha)
  rw [(C16.fresh_entries var _ _ _ arts arts' r (steps_nodup O I) h i _ a' ha ha' hf).1]
  apply filterMap_eq_map'
  intro s hs
  obtain ⟨hiss, happ⟩ := steps_flags arts[i] s hs
  rw [expectedEntry_generic _ _ _ _ _ _ _ hiss, if_pos happ]

/-- FRESH batch: what is stored under the name `k` on key `i` afterwards is exactly the union of
the factor lists the positive verdicts attach under `k`. -/
theorem fresh_factors {var : Variant} {O : Nat → Nat → Verdict} {I : Nat → Nat → Nat → Verdict}
    {arts arts' : List Artifact} {r : Bool} (hfresh : ∀ a ∈ arts, a.info = TestInfo.empty)
    (hO : ∀ j i, (O j i).info = none)
    (h : checkAllRSA var O I arts = .ok (arts', r)) (i : Nat) (a' : Artifact)
    (ha' : arts'[i]? = some a') (k : String) :
    ∃ o, getAttachedFactors a'.info k = .ok o ∧
      (∀ x, MemO x o ↔ ∃ s ∈ mkSteps rsaAll O I, (s.verdict i).positive = true ∧
        ∃ fs, (s.verdict i).factors = some (k, fs) ∧ x ∈ fs) ∧
      (o = none ↔ ∀ s ∈ mkSteps rsaAll O I, ∀ fs,
        ¬ ((s.verdict i).positive = true ∧ (s.verdict i).factors = some (k, fs))) := by
  unfold checkAllRSA at h
  have hlen := (C16.checkArtifacts_monotone var _ _ _ arts arts' r h).1
  have hi : i < arts.length := by
    rw [← hlen]; exact (List.getElem?_eq_some_iff.1 ha').1
  have ha : arts[i]? = some arts[i] := List.getElem?_eq_getElem hi
  have hf := hfresh _ (List.mem_of_getElem? ha)
  obtain ⟨p, _, _⟩ := checkArtifacts_spec h
  have hact := p.get i _ a' ha ha'
  rw [Nat.zero_add] at hact
  have hno := overwrites_allOps var Consts.libVersion ecAll (mkSteps rsaAll O I) (statics arts) i
    arts[i] k (by
      intro s hs i' k' x hx
      obtain ⟨j, c, _, rfl⟩ := mkSteps_mem hs
      rw [hO j i'] at hx
      cases hx)
  have h0 : getAttachedFactors arts[i].info k = .ok none := by rw [hf]; rfl
  obtain ⟨o, ho, hmem, hnone⟩ := actsBy_factors hact k hno none h0
  have hchar := attachedUnder_allOps var Consts.libVersion ecAll (mkSteps rsaAll O I)
    (statics arts) i arts[i] k
  refine ⟨o, ho, fun x => ?_, ?_⟩
  · rw [hmem]
    constructor
    · rintro (⟨s, hs, _⟩ | ⟨fs, hfs, hx⟩)
      · cases hs
      · obtain ⟨s, hs, hp, hfac⟩ := (hchar fs (steps_flags _)).1 hfs
        exact ⟨s, hs, hp, fs, hfac, hx⟩
    · rintro ⟨s, hs, hp, fs, hfac, hx⟩
      exact Or.inr ⟨fs, (hchar fs (steps_flags _)).2 ⟨s, hs, hp, hfac⟩, hx⟩
  · rw [hnone]
    constructor
    · rintro ⟨_, hnil⟩ s hs fs ⟨hp, hfac⟩
      have := (hchar fs (steps_flags _)).2 ⟨s, hs, hp, hfac⟩
      rw [hnil] at this
      cases this
    · intro hall
      refine ⟨rfl, List.eq_nil_iff_forall_not_mem.2 fun fs hfs => ?_⟩
      obtain ⟨s, hs, hp, hfac⟩ := (hchar fs (steps_flags _)).1 hfs
      exact hall s hs fs ⟨hp, hfac⟩


/-! ### the proper-divisor clause for the gcd-derived checks -/

/-- the checks whose recorded factors come out of a gcd guarded by `1 < g < n` (plus CheckGCD,
whose record carries a proper split unless the modulus divides another one, C03). -/
def properChecks : List String :=
  ["CheckContinuedFractions", "CheckBitPatterns", "CheckPermutedBitPatterns", "CheckPollardpm1",
   "CheckUnseededRand", "CheckSmallUpperDifferences", "CheckGCD"]

theorem ofKeyVerdict_proper (ns : List Nat) (k : RsaKey) (kv : KeyVerdict)
    (h : kv.SoundProper k.n) : VerdictProper ns k (ofKeyVerdict kv) := by
  intro fs hf
  obtain ⟨_, hne, rfl⟩ := attach_some hf
  rcases h with h | ⟨_, hp⟩
  · exact absurd h hne
  · cases hfs : kv.factors with
    | nil => exact absurd hfs hne
    | cons f rest =>
      have := hp.proper f (by rw [hfs]; exact List.mem_cons_self)
      exact Or.inl ⟨(f : Int), by simp, by exact_mod_cast this.1, by exact_mod_cast this.2⟩

theorem single_proper : ∀ p ∈ singleModels, p.1 ∈ properChecks → ∀ (ns : List Nat)
    (g : RsaGlobals) (o : KeyOracles) (k : RsaKey) (v : Verdict), p.2 g o k = .ok v →
    VerdictProper ns k v := by
  intro p hp hn ns g o k v h
  simp only [singleModels, List.mem_cons, List.not_mem_nil, or_false] at hp
  rcases hp with rfl | rfl | rfl | rfl | rfl | rfl | rfl | rfl | rfl | rfl | rfl | rfl | rfl |
    rfl | rfl
  · exact absurd hn (by decide)
  · exact absurd hn (by decide)
  · exact absurd hn (by decide)
  · exact absurd hn (by decide)
  · exact absurd hn (by decide)
  · exact absurd hn (by decide)
  · exact absurd hn (by decide)
  · obtain ⟨kv, hkv, rfl⟩ := map_ok h
    exact ofKeyVerdict_proper ns k _ (C01.check_cf _ _ _ hkv)
  · obtain ⟨kv, hkv, rfl⟩ := map_ok h
    exact ofKeyVerdict_proper ns k _ (C01.check_bitPatterns _ _ _ _ hkv)
  · obtain ⟨kv, hkv, rfl⟩ := map_ok h
    exact ofKeyVerdict_proper ns k _ (C01.check_permuted _ _ _ hkv)
  · cases h; exact ofKeyVerdict_proper ns k _ (C01.check_pollard _ _ _)
  · exact absurd hn (by decide)
  · obtain ⟨kv, hkv, rfl⟩ := map_ok h
    exact ofKeyVerdict_proper ns k _ (C01.check_unseeded _ _ _ _ hkv)
  · obtain ⟨kv, hkv, rfl⟩ := map_ok h
    exact ofKeyVerdict_proper ns k _ (C01.check_sud _ _ _ hkv)
  · exact absurd hn (by decide)

theorem rsaVerdict_proper {name : String} {orc : RsaOracles} {keys : List RsaKey} {i : Nat}
    {k : RsaKey} {v : Verdict} (hname : name ∈ properChecks) (hbig : ∀ k ∈ keys, 2 ≤ k.n)
    (hk : keys[i]? = some k) (h : rsaVerdict name orc keys i = .ok v) :
    VerdictProper (keys.map (·.n)) k v := by
  unfold rsaVerdict at h
  split at h
  · rename_i m hm
    simp only [runSingle, hk] at h
    exact single_proper _ (lookup_mem hm) hname _ _ _ _ _ h
  · split at h
    · rename_i m hm
      unfold runAggregate at h
      split at h
      · cases h
      · rename_i row hrow
        exact ((aggregate_sound _ (lookup_mem hm) _ keys row hbig hrow).2 i k v hk (nth_ok h)).2
    · cases h

/-- the verdict function of a step of the entry point IS `rsaVerdict`. -/
theorem step_verdict {orc : RsaOracles} {keys : List RsaKey} {tbl : List (List Verdict)}
    (h : verdictTable orc keys = .ok tbl) {s : Step} (hs : s ∈ mkSteps rsaAll (tableO tbl) noInner)
    (i : Nat) (hi : i < keys.length) :
    s.spec ∈ rsaAll ∧ rsaVerdict s.spec.name orc keys i = .ok (s.verdict i) := by
  obtain ⟨j, c, hc, rfl⟩ := mkSteps_mem hs
  obtain ⟨v, hv, htab⟩ := table_spec h j c hc i hi
  exact ⟨List.mem_of_getElem? hc, by show rsaVerdict c.name orc keys i = .ok (tableO tbl j i); rw [htab]; exact hv⟩

/-- conversely every registered check is a step. -/
theorem step_of_check {tbl : List (List Verdict)} {j : Nat} {c : CheckSpec}
    (hc : rsaAll[j]? = some c) :
    (⟨c, tableO tbl j, noInner j⟩ : Step) ∈ mkSteps rsaAll (tableO tbl) noInner := by
  apply List.mem_of_getElem? (i := j)
  rw [mkSteps_get, hc]
  rfl


/-! ### names of the attached records -/

theorem updateFirstInfo_names (k : String) (v : AttachedValue) (l : List (String × AttachedValue)) :
    (updateFirstInfo k v l).map (·.1) = l.map (·.1) := by
  induction l with
  | nil => rfl
  | cons x xs ih =>
    unfold updateFirstInfo
    split
    · rfl
    · simp only [List.map_cons, ih]

theorem attachInfo_names (ti : TestInfo) (k : String) (v : AttachedValue) :
    ∀ n ∈ (attachInfo ti k v).attached.map (·.1), n = k ∨ n ∈ ti.attached.map (·.1) := by
  intro n hn
  unfold attachInfo at hn
  dsimp only at hn
  split at hn
  · rw [updateFirstInfo_names] at hn
    exact Or.inr hn
  · rw [List.map_append, List.mem_append] at hn
    rcases hn with hn | hn
    · exact Or.inr hn
    · simp only [List.map_cons, List.map_nil, List.mem_singleton] at hn
      exact Or.inl hn

/-- names of the attached records after a history without plain AttachInfo: the old names and
the names factors were attached under. -/
theorem applyOps_names {ver : String} {ti t : TestInfo} {ops : List Op}
    (h : applyOps ver ti ops = .ok t) (hops : ∀ op ∈ ops, infoFree op = true) :
    ∀ n ∈ t.attached.map (·.1), n ∈ ti.attached.map (·.1) ∨ ∃ fs, Op.attachFactors n fs ∈ ops := by
  induction ops generalizing ti with
  | nil => cases h; intro n hn; exact Or.inl hn
  | cons op ops ih =>
    have hrest : ∀ op' ∈ ops, infoFree op' = true := fun op' h' =>
      hops op' (List.mem_cons_of_mem _ h')
    unfold applyOps at h
    split at h
    · rename_i t1 h1
      intro n hn
      rcases ih h hrest n hn with h2 | ⟨fs, hfs⟩
      · cases op with
        | setTestResult e =>
          cases h1
          exact Or.inl h2
        | attachInfo k v =>
          have := hops _ List.mem_cons_self
          cases this
        | attachFactors k fs =>
          obtain ⟨old, _, rfl⟩ := attachFactors_ok h1
          rcases attachInfo_names ti k _ n h2 with rfl | h3
          · exact Or.inr ⟨fs, List.mem_cons_self⟩
          · exact Or.inl h3
      · exact Or.inr ⟨fs, List.mem_cons_of_mem _ hfs⟩
    · cases h

theorem mem_attachedUnder {k : String} {fs : List Int} {ops : List Op}
    (h : Op.attachFactors k fs ∈ ops) : fs ∈ attachedUnder k ops := by
  induction ops with
  | nil => cases h
  | cons op ops ih =>
    rw [attachedUnder_cons, List.mem_append]
    rcases List.mem_cons.1 h with rfl | h
    · exact Or.inl (by simp [attachedUnder])
    · exact Or.inr (ih h)

theorem allOps_infoFree (var : Variant) (ver : String) (ec : List CheckSpec) (steps : List Step)
    (st : List Artifact) (j : Nat) (a : Artifact)
    (hs : ∀ s ∈ steps, s.spec.issuer = false ∧ ∀ i, (s.verdict i).info = none) :
    ∀ op ∈ allOps var ver ec steps st j a, infoFree op = true := by
  intro op hop
  simp only [allOps, List.mem_flatMap] at hop
  obtain ⟨s, hs', hop⟩ := hop
  obtain ⟨hiss, hinfo⟩ := hs s hs'
  simp only [stepOps, hiss, Bool.false_eq_true, if_false, genOps] at hop
  split at hop
  · exact verdictOps_infoFree s.spec (hinfo j) op hop
  · cases hop

end Paranoid.RsaAll
