/-
Proofs/RsaChecks.lean — per-key verdicts of the RSA single checks: factors are only ever
attached together with the weak verdict, and every attached factor divides the modulus.
-/
import ParanoidModel.Model.RsaChecks
import ParanoidModel.Proofs.Factoring

namespace Paranoid

/-- what C01 demands of a verdict for modulus `n`. -/
def KeyVerdict.Sound (n : Nat) (v : KeyVerdict) : Prop :=
  v.factors = [] ∨ (v.weak = true ∧ ∃ x y, v.factors = [x, y] ∧ x * y = n)

/-- the stronger form for gcd-derived factors: a proper split. -/
def KeyVerdict.SoundProper (n : Nat) (v : KeyVerdict) : Prop :=
  v.factors = [] ∨ (v.weak = true ∧ ProperSplit n v.factors)

theorem KeyVerdict.SoundProper.sound {n v} (h : KeyVerdict.SoundProper n v) : KeyVerdict.Sound n v := by
  rcases h with h | ⟨hw, hp⟩
  · exact Or.inl h
  · exact Or.inr ⟨hw, hp.prod⟩

theorem KeyVerdict.pass_sound (n : Nat) : KeyVerdict.SoundProper n KeyVerdict.pass := Or.inl rfl

theorem KeyVerdict.Sound.all_dvd {n v} (h : KeyVerdict.Sound n v) : ∀ f ∈ v.factors, f ∣ n := by
  rcases h with h | ⟨_, x, y, hf, rfl⟩
  · rw [h]; simp
  · rw [hf]
    intro f hf'
    simp only [List.mem_cons, List.not_mem_nil, or_false] at hf'
    rcases hf' with rfl | rfl
    · exact Dvd.intro _ rfl
    · exact Dvd.intro_left _ rfl

theorem vFermat_sound (n maxSteps : Nat) : (vFermat n maxSteps).Sound n := by
  unfold vFermat
  split
  · rename_i p q h
    exact Or.inr ⟨rfl, p, q, rfl, fermatFactor_sound n maxSteps p q h⟩
  · exact Or.inl rfl

theorem vHlbe_sound (n mb : Nat) (v : KeyVerdict) (h : vHlbe n mb = .ok v) : v.Sound n := by
  unfold vHlbe at h
  split at h
  · simp at h
  · rename_i f fs hh
    simp only [Except.ok.injEq] at h
    subst h
    exact Or.inr ⟨rfl, hlbe_sound n mb _ hh⟩
  · simp only [Except.ok.injEq] at h
    subst h
    exact Or.inl rfl

theorem vCf_sound (n bound : Nat) (v : KeyVerdict) (h : vCf n bound = .ok v) : v.SoundProper n := by
  unfold vCf at h
  split at h
  · simp at h
  · rename_i ok fs hh
    have := cfCheckLoop_sound _ _ _ _ _ _ hh
    split at h
    · simp only [Except.ok.injEq] at h; subst h; exact Or.inl rfl
    · simp only [Except.ok.injEq] at h
      subst h
      rcases this with h1 | ⟨_, h2⟩
      · exact Or.inl h1
      · exact Or.inr ⟨rfl, h2⟩

theorem bitPatternsLoop_sound (n maxPs : Nat) (red : Nat → List (List Int)) :
    ∀ (l : List Nat) (v : KeyVerdict), bitPatternsLoop n maxPs red l = .ok v → v.SoundProper n
  | [], v, h => by
    simp only [bitPatternsLoop, Except.ok.injEq] at h
    subst h; exact Or.inl rfl
  | ps :: rest, v, h => by
    unfold bitPatternsLoop at h
    split at h
    · exact bitPatternsLoop_sound n maxPs red rest v h
    · split at h
      · simp at h
      · rename_i f fs hh
        simp only [Except.ok.injEq] at h
        subst h
        rcases checkFractionLoop_sound _ _ _ _ hh with h1 | h1
        · simp at h1
        · exact Or.inr ⟨rfl, h1⟩
      · exact bitPatternsLoop_sound n maxPs red rest v h

theorem permutedInner_sound (n maxD wsize : Nat) (red : Nat → List (List Int)) :
    ∀ (l : List Nat) (v : KeyVerdict), permutedInner n maxD wsize red l = .ok (some v) →
      v.SoundProper n
  | [], v, h => by simp [permutedInner] at h
  | ps :: rest, v, h => by
    unfold permutedInner at h
    simp only at h
    split at h
    · simp at h
    · split at h
      · simp at h
      · rename_i f fs hh
        simp only [Except.ok.injEq, Option.some.injEq] at h
        subst h
        rcases checkFractionLoop_sound _ _ _ _ hh with h1 | h1
        · simp at h1
        · exact Or.inr ⟨rfl, h1⟩
      · exact permutedInner_sound n maxD wsize red rest v h

theorem permutedOuter_sound (n maxD : Nat) (red : Nat → List (List Int)) :
    ∀ (l : List Nat) (v : KeyVerdict), permutedOuter n maxD red l = .ok v → v.SoundProper n
  | [], v, h => by
    simp only [permutedOuter, Except.ok.injEq] at h
    subst h; exact Or.inl rfl
  | ws :: rest, v, h => by
    unfold permutedOuter at h
    split at h
    · simp at h
    · rename_i v' hh
      simp only [Except.ok.injEq] at h
      subst h
      exact permutedInner_sound _ _ _ _ _ _ hh
    · exact permutedOuter_sound n maxD red rest v h

theorem vPollard_sound (n m gb : Nat) : (vPollard n m gb).SoundProper n := by
  unfold vPollard
  simp only
  split
  · rename_i hw
    rcases pollardPm1_sound n m gb _ _ (Prod.mk.eta).symm with h | ⟨_, h⟩
    · exact Or.inl h
    · exact Or.inr ⟨rfl, h⟩
  · exact Or.inl rfl

theorem vLhw_sound (n cutoff maxsteps : Nat) : (vLhw n cutoff maxsteps).Sound n := by
  unfold vLhw
  simp only
  split
  · rename_i hw
    have hmain : ∀ w fs, checkLowHammingWeight n cutoff maxsteps = (w, fs) →
        fs = [] ∨ ∃ x y, fs = [x, y] ∧ x * y = n := by
      intro w fs h
      unfold checkLowHammingWeight at h
      simp only at h
      split at h
      · rename_i p0 q0 hm
        simp only [Prod.mk.injEq] at h
        obtain ⟨_, rfl⟩ := h
        exact Or.inr ⟨p0, q0, rfl, lhwMain_sound _ _ _ _ _ _ _ _ hm⟩
      · simp only [Prod.mk.injEq] at h
        exact Or.inl h.2.symm
    rcases hmain _ _ (Prod.mk.eta).symm with h | h
    · exact Or.inl h
    · exact Or.inr ⟨rfl, h⟩
  · exact Or.inl rfl

theorem vSud_sound (n cbrt : Nat) (v : KeyVerdict) (h : vSud n cbrt = .ok v) : v.SoundProper n := by
  unfold vSud at h
  split at h
  · simp at h
  · rename_i f fs hh
    simp only [Except.ok.injEq] at h
    subst h
    refine Or.inr ⟨rfl, ?_⟩
    unfold checkSmallUpperDifferences at hh
    dsimp only at hh
    split at hh
    · simp at hh
    · exact sudLoop_sound _ _ _ _ hh
  · simp only [Except.ok.injEq] at h
    subst h; exact Or.inl rfl

theorem unseededLoop_sound (n cbrt : Nat) : ∀ (l : List Nat) (v : KeyVerdict),
    unseededLoop n cbrt l = .ok v → v.SoundProper n
  | [], v, h => by
    simp only [unseededLoop, Except.ok.injEq] at h
    subst h; exact Or.inl rfl
  | p1 :: rest, v, h => by
    unfold unseededLoop at h
    split at h
    · simp at h
    · rename_i f fs hh
      simp only [Except.ok.injEq] at h
      subst h
      exact Or.inr ⟨rfl, factorWithGuess_sound _ _ _ _ hh⟩
    · exact unseededLoop_sound n cbrt rest v h

end Paranoid
