/-
Proofs/Suite.lean — lemmas about Model/Suite.lean (random_test_suite decision structure).
Core Lean only; everything is parametric in the number type `α` and in `N : Num α`
(comparison, zero test, float-tail oracle), so no property of `<` is used anywhere.
-/
import ParanoidModel.Model.Suite
namespace Paranoid.Suite

variable {α : Type}

/-- results of the model can be compared by `decide` (used by the concrete examples). -/
instance instDecidableEqExceptSuite {ε β : Type} [DecidableEq ε] [DecidableEq β] :
    DecidableEq (Except ε β)
  | .ok a, .ok b =>
    if h : a = b then isTrue (by rw [h]) else isFalse (by intro h'; cases h'; exact h rfl)
  | .error a, .error b =>
    if h : a = b then isTrue (by rw [h]) else isFalse (by intro h'; cases h'; exact h rfl)
  | .ok _, .error _ => isFalse (by intro h; cases h)
  | .error _, .ok _ => isFalse (by intro h; cases h)

/-! ### Python dicts -/

theorem dictGet_dictSet {β : Type} (k k' : String) (v : β) (d : List (String × β)) :
    dictGet k' (dictSet k v d) = if k' = k then some v else dictGet k' d := by
  induction d with
  | nil =>
    simp only [dictSet, dictGet]
    by_cases h : k' = k
    · simp [h]
    · have : ¬ k = k' := fun h' => h h'.symm
      simp [h, this]
  | cons x xs ih =>
    obtain ⟨kx, vx⟩ := x
    simp only [dictSet]
    by_cases hx : kx = k
    · simp only [hx, if_true, dictGet]
      by_cases h : k' = k
      · simp [h]
      · have : ¬ k = k' := fun h' => h h'.symm
        simp [h, this]
    · simp only [hx, if_false, dictGet, ih]
      by_cases hk : kx = k'
      · have : ¬ k' = k := fun h' => hx (hk.trans h')
        simp [hk, this]
      · simp [hk]

theorem dictSet_keys_nodup {β : Type} (k : String) (v : β) (d : List (String × β))
    (h : (d.map (·.1)).Nodup) : ((dictSet k v d).map (·.1)).Nodup ∧
      ∀ x, x ∈ (dictSet k v d).map (·.1) ↔ x = k ∨ x ∈ d.map (·.1) := by
  induction d with
  | nil => simp [dictSet]
  | cons y ys ih =>
    obtain ⟨ky, vy⟩ := y
    simp only [List.map_cons, List.nodup_cons] at h
    obtain ⟨ih1, ih2⟩ := ih h.2
    simp only [dictSet]
    by_cases hy : ky = k
    · subst hy
      simp only [if_true, List.map_cons]
      refine ⟨List.nodup_cons.2 h, fun x => ?_⟩
      simp only [List.mem_cons]
      constructor
      · intro hx; exact Or.inr hx
      · rintro (hx | hx)
        · exact Or.inl hx
        · exact hx
    · simp only [hy, if_false, List.map_cons]
      refine ⟨List.nodup_cons.2 ⟨fun hmem => ?_, ih1⟩, fun x => ?_⟩
      · rcases (ih2 ky).1 hmem with h' | h'
        · exact hy h'
        · exact h.1 h'
      · simp only [List.mem_cons, ih2]
        constructor
        · rintro (hx | hx | hx)
          · exact Or.inr (Or.inl hx)
          · exact Or.inl hx
          · exact Or.inr (Or.inr hx)
        · rintro (hx | hx | hx)
          · exact Or.inr (Or.inl hx)
          · exact Or.inl hx
          · exact Or.inr (Or.inr hx)

theorem dictGet_of_mem {β : Type} (d : List (String × β)) (h : (d.map (·.1)).Nodup)
    (p : String × β) (hp : p ∈ d) : dictGet p.1 d = some p.2 := by
  induction d with
  | nil => cases hp
  | cons y ys ih =>
    obtain ⟨ky, vy⟩ := y
    simp only [List.map_cons, List.nodup_cons] at h
    simp only [dictGet]
    rcases List.mem_cons.1 hp with rfl | hp
    · simp
    · have : ¬ ky = p.1 := fun h' => h.1 (List.mem_map.2 ⟨p, hp, h'.symm⟩)
      simp only [this, if_false]
      exact ih h.2 hp

theorem mem_of_dictGet {β : Type} (d : List (String × β)) (k : String) (v : β)
    (h : dictGet k d = some v) : (k, v) ∈ d := by
  induction d with
  | nil => simp [dictGet] at h
  | cons y ys ih =>
    obtain ⟨ky, vy⟩ := y
    simp only [dictGet] at h
    by_cases hk : ky = k
    · simp only [hk, if_true, Option.some.injEq] at h
      subst hk; subst h; exact List.mem_cons_self
    · simp only [hk, if_false] at h
      exact List.mem_cons_of_mem _ (ih h)

/-! ### CombinedPValue and the three-way decision -/

/-- the decision for one sub-test, spelled out. -/
theorem stateOf_spec (N : Num α) (fail rep : α) (pv : List α) (c : α) (st : TState)
    (h : stateOf N fail rep pv = .ok (c, st)) :
    combinedPValue N pv = .ok c ∧
    (st = .failed ↔ N.lt c fail = true) ∧
    (st = .passed ↔ N.lt c fail = false ∧
      ∃ rp, combinedPValue N (List.replicate pv.length rep) = .ok rp ∧ N.lt rp c = true) ∧
    (st = .undecided ↔ N.lt c fail = false ∧
      ∃ rp, combinedPValue N (List.replicate pv.length rep) = .ok rp ∧ N.lt rp c = false) := by
  unfold stateOf at h
  split at h
  · cases h
  · rename_i pval hc
    split at h
    · rename_i hlt
      cases h
      refine ⟨hc, by simp [hlt], by simp [hlt], by simp [hlt]⟩
    · rename_i hlt
      have hlt' : N.lt pval fail = false := by simpa using hlt
      split at h
      · cases h
      · rename_i rp hrp
        cases h
        refine ⟨hc, ?_, ?_, ?_⟩
        · by_cases hr : N.lt rp c = true <;> simp [hr, hlt']
        · by_cases hr : N.lt rp c = true
          · simp only [hr, if_true, hlt', true_and]
            exact ⟨fun _ => ⟨rp, hrp, hr⟩, fun _ => trivial⟩
          · simp only [hr, Bool.false_eq_true, if_false, hlt', true_and]
            constructor
            · intro h'; cases h'
            · rintro ⟨rp', hrp', hlt2⟩
              rw [hrp] at hrp'; cases hrp'; exact (hr hlt2).elim
        · by_cases hr : N.lt rp c = true
          · simp only [hr, if_true, hlt', true_and]
            constructor
            · intro h'; cases h'
            · rintro ⟨rp', hrp', hlt2⟩
              rw [hrp] at hrp'; cases hrp'; rw [hr] at hlt2; cases hlt2
          · have hr' : N.lt rp c = false := by simpa using hr
            simp only [hr', Bool.false_eq_true, if_false, hlt', true_and]
            exact ⟨fun _ => ⟨rp, hrp, hr'⟩, fun _ => trivial⟩

/-! ### the invariant of a TestStructure -/

/-- every recorded state is the decision for the recorded p-values of that name, the recorded
combination is CombinedPValue of them, every name with p-values has a state, names are unique. -/
structure Inv (N : Num α) (ts : TS α) : Prop where
  decided : ∀ name st, dictGet name ts.state = some st →
    ∃ pv c, dictGet name ts.pvalues = some pv ∧ dictGet name ts.combined = some c ∧
      stateOf N ts.fail ts.rep pv = .ok (c, st)
  hasState : ∀ name pv, dictGet name ts.pvalues = some pv → ∃ st, dictGet name ts.state = some st
  keys : (ts.state.map (·.1)).Nodup

theorem inv_init (N : Num α) (fail rep : α) (minRep : Nat) : Inv N (TS.init fail rep minRep) :=
  ⟨by simp [TS.init, dictGet], by simp [TS.init, dictGet], by simp [TS.init]⟩

/-- what `runItem` leaves unchanged / changes. -/
theorem runItem_spec (N : Num α) (acc acc' : TS α × Nat) (item : String × α)
    (h : runItem N acc item = .ok acc') :
    acc'.1.fail = acc.1.fail ∧ acc'.1.rep = acc.1.rep ∧ acc'.1.minRep = acc.1.minRep ∧
    acc'.1.runs = acc.1.runs ∧ acc'.1.finished = acc.1.finished ∧
    ∃ c st, stateOf N acc.1.fail acc.1.rep (pvalsOf acc.1 item.1 ++ [item.2]) = .ok (c, st) ∧
      acc'.1.pvalues = dictSet item.1 (pvalsOf acc.1 item.1 ++ [item.2]) acc.1.pvalues ∧
      acc'.1.combined = dictSet item.1 c acc.1.combined ∧
      acc'.1.state = dictSet item.1 st acc.1.state ∧
      acc'.2 = (if st = .undecided then acc.2 + 1 else acc.2) := by
  unfold runItem at h
  split at h
  · cases h
  · rename_i pval st hst
    cases h
    exact ⟨rfl, rfl, rfl, rfl, rfl, pval, st, hst, rfl, rfl, rfl, rfl⟩

theorem runItem_inv (N : Num α) (acc acc' : TS α × Nat) (item : String × α)
    (h : runItem N acc item = .ok acc') (hi : Inv N acc.1) : Inv N acc'.1 := by
  obtain ⟨hf, hr, _, _, _, c, st, hst, hp, hc, hs, _⟩ := runItem_spec N acc acc' item h
  refine ⟨?_, ?_, ?_⟩
  · intro name st' hget
    rw [hs, dictGet_dictSet] at hget
    rw [hp, hc, dictGet_dictSet, dictGet_dictSet, hf, hr]
    by_cases hn : name = item.1
    · simp only [hn, if_true, Option.some.injEq] at hget ⊢
      subst hget
      exact ⟨_, c, rfl, rfl, hst⟩
    · simp only [hn, if_false] at hget ⊢
      exact hi.decided name st' hget
  · intro name pv hget
    rw [hp, dictGet_dictSet] at hget
    rw [hs, dictGet_dictSet]
    by_cases hn : name = item.1
    · simp [hn]
    · simp only [hn, if_false] at hget ⊢
      exact hi.hasState name pv hget
  · rw [hs]; exact (dictSet_keys_nodup _ _ _ hi.keys).1

theorem runItems_spec (N : Num α) (acc acc' : TS α × Nat) (items : List (String × α))
    (h : runItems N acc items = .ok acc') :
    acc'.1.fail = acc.1.fail ∧ acc'.1.rep = acc.1.rep ∧ acc'.1.minRep = acc.1.minRep ∧
    acc'.1.runs = acc.1.runs ∧ acc'.1.finished = acc.1.finished ∧
    (Inv N acc.1 → Inv N acc'.1) ∧
    (∀ name, name ∉ items.map (·.1) → dictGet name acc'.1.state = dictGet name acc.1.state) := by
  induction items generalizing acc with
  | nil => cases h; exact ⟨rfl, rfl, rfl, rfl, rfl, id, fun _ _ => rfl⟩
  | cons it its ih =>
    unfold runItems at h
    split at h
    · cases h
    · rename_i acc1 h1
      obtain ⟨a1, a2, a3, a4, a5, _, st, _, _, _, hs, _⟩ := runItem_spec N acc acc1 it h1
      obtain ⟨b1, b2, b3, b4, b5, b6, b7⟩ := ih acc1 h
      refine ⟨b1.trans a1, b2.trans a2, b3.trans a3, b4.trans a4, b5.trans a5,
        fun hi => b6 (runItem_inv N acc acc1 it h1 hi), ?_⟩
      intro name hn
      simp only [List.map_cons, List.mem_cons, not_or] at hn
      rw [b7 name hn.2, hs, dictGet_dictSet, if_neg hn.1]

/-- the counter `undecided` is zero at the end iff it was zero and no item of this result
(names pairwise different) ends up UNDECIDED. -/
theorem runItems_undecided (N : Num α) (acc acc' : TS α × Nat) (items : List (String × α))
    (hnd : (items.map (·.1)).Nodup) (h : runItems N acc items = .ok acc') :
    acc'.2 = 0 ↔ acc.2 = 0 ∧
      ∀ name ∈ items.map (·.1), dictGet name acc'.1.state ≠ some TState.undecided := by
  induction items generalizing acc with
  | nil => cases h; simp
  | cons it its ih =>
    simp only [List.map_cons, List.nodup_cons] at hnd
    unfold runItems at h
    split at h
    · cases h
    · rename_i acc1 h1
      obtain ⟨_, _, _, _, _, _, st, _, _, _, hs, hu⟩ := runItem_spec N acc acc1 it h1
      obtain ⟨_, _, _, _, _, _, hkeep⟩ := runItems_spec N acc1 acc' its h
      have hfinal : dictGet it.1 acc'.1.state = some st := by
        rw [hkeep it.1 hnd.1, hs, dictGet_dictSet, if_pos rfl]
      rw [ih acc1 hnd.2 h, hu]
      simp only [List.map_cons, List.mem_cons, forall_eq_or_imp, hfinal]
      by_cases hst : st = .undecided
      · simp [hst]
      · simp only [hst, if_false]
        constructor
        · rintro ⟨a, b⟩; exact ⟨a, by simpa using hst, b⟩
        · rintro ⟨a, _, b⟩; exact ⟨a, b⟩

/-- `Run`, any outcome: bookkeeping fields, invariant, returned flag. -/
theorem run_spec (N : Num α) (ts ts' : TS α) (o : Outcome α) (fin : Bool)
    (h : run N ts o = .ok (ts', fin)) :
    ts'.fail = ts.fail ∧ ts'.rep = ts.rep ∧ ts'.minRep = ts.minRep ∧ ts'.runs = ts.runs + 1 ∧
    fin = ts'.finished ∧ (Inv N ts → Inv N ts') := by
  unfold run at h
  split at h
  · cases h
    exact ⟨rfl, rfl, rfl, rfl, rfl, fun hi => ⟨hi.decided, hi.hasState, hi.keys⟩⟩
  · rename_i items _
    split at h
    · cases h
    · rename_i ts1 u h1
      cases h
      obtain ⟨a1, a2, a3, a4, _, a6, _⟩ := runItems_spec N _ _ items h1
      refine ⟨a1, a2, a3, a4, rfl, fun hi => ?_⟩
      have := a6 ⟨hi.decided, hi.hasState, hi.keys⟩
      exact ⟨this.decided, this.hasState, this.keys⟩

/-- `Run` when the test raised InsufficientDataError: finished, nothing else changes. -/
theorem run_insufficient (N : Num α) (ts : TS α) :
    run N ts .insufficient = .ok ({ ts with runs := ts.runs + 1, finished := true }, true) := rfl

/-- `finished` after a run that returned named p-values with pairwise different names. -/
theorem run_finished (N : Num α) (ts ts' : TS α) (o : Outcome α) (items : List (String × α))
    (fin : Bool) (ho : asNamed o = some items) (hnd : (items.map (·.1)).Nodup)
    (h : run N ts o = .ok (ts', fin)) :
    ts'.finished = true ↔
      (∀ name ∈ items.map (·.1), dictGet name ts'.state ≠ some TState.undecided) ∧
      ts'.minRep ≤ ts'.runs := by
  unfold run at h
  rw [ho] at h
  dsimp only at h
  split at h
  · cases h
  · rename_i ts1 u h1
    cases h
    have := runItems_undecided N _ (ts1, u) items hnd h1
    simp only [true_and] at this
    simp only [Bool.and_eq_true, beq_iff_eq, decide_eq_true_eq]
    rw [this]

/-! ### Failed() -/

theorem failed_iff (N : Num α) (ts : TS α) (hi : Inv N ts) :
    failed ts = true ↔ ∃ name, dictGet name ts.state = some TState.failed := by
  unfold failed
  rw [List.any_eq_true]
  constructor
  · rintro ⟨p, hp, hf⟩
    refine ⟨p.1, ?_⟩
    have := dictGet_of_mem ts.state hi.keys p hp
    rw [this]; simpa using hf
  · rintro ⟨name, hget⟩
    exact ⟨(name, .failed), mem_of_dictGet _ _ _ hget, by simp⟩

/-- `Failed()` in terms of the p-values: some sub-test's combination is below the fail level. -/
theorem failed_iff_comb (N : Num α) (ts : TS α) (hi : Inv N ts) :
    failed ts = true ↔ ∃ name pv c, dictGet name ts.pvalues = some pv ∧
      combinedPValue N pv = .ok c ∧ N.lt c ts.fail = true := by
  rw [failed_iff N ts hi]
  constructor
  · rintro ⟨name, hget⟩
    obtain ⟨pv, c, h1, _, h3⟩ := hi.decided name _ hget
    obtain ⟨s1, s2, _, _⟩ := stateOf_spec N _ _ pv c _ h3
    exact ⟨name, pv, c, h1, s1, s2.1 rfl⟩
  · rintro ⟨name, pv, c, h1, h2, h3⟩
    obtain ⟨st, hst⟩ := hi.hasState name pv h1
    obtain ⟨pv', c', h1', _, h3'⟩ := hi.decided name st hst
    rw [h1] at h1'; cases h1'
    obtain ⟨s1, s2, _, _⟩ := stateOf_spec N _ _ pv c' st h3'
    rw [h2] at s1; cases s1
    exact ⟨name, by rw [hst, s2.2 h3]⟩

/-! ### lists of structures -/

/-- position-wise relation between two lists of structures, with the position. -/
def PW (R : Nat → TS α → TS α → Prop) : Nat → List (TS α) → List (TS α) → Prop
  | _, [], [] => True
  | i, a :: as, b :: bs => R i a b ∧ PW R (i + 1) as bs
  | _, [], _ :: _ => False
  | _, _ :: _, [] => False

theorem PW.mem_right {R : Nat → TS α → TS α → Prop} {i : Nat} {l l' : List (TS α)}
    (h : PW R i l l') (b : TS α) (hb : b ∈ l') : ∃ j a, a ∈ l ∧ R j a b := by
  induction l generalizing i l' with
  | nil => cases l' with
    | nil => cases hb
    | cons c cs => exact h.elim
  | cons a as ih => cases l' with
    | nil => exact h.elim
    | cons c cs =>
      rcases List.mem_cons.1 hb with rfl | hb
      · exact ⟨i, a, List.mem_cons_self, h.1⟩
      · obtain ⟨j, a', ha', hr⟩ := ih h.2 hb
        exact ⟨j, a', List.mem_cons_of_mem _ ha', hr⟩

/-- number of structures that still have to be repeated. -/
def unfinished (l : List (TS α)) : Nat := l.countP (fun ts => !ts.finished)

theorem unfinished_zero_iff (l : List (TS α)) :
    unfinished l = 0 ↔ ∀ ts ∈ l, ts.finished = true := by
  unfold unfinished
  rw [List.countP_eq_zero]
  simp

/-- what one round of TestSource does to one structure. -/
def RoundStep (N : Num α) (outcome : Nat → Outcome α) (i : Nat) (ts ts' : TS α) : Prop :=
  (ts.finished = true ∧ ts' = ts) ∨
  (ts.finished = false ∧ ∃ fin, run N ts (outcome i) = .ok (ts', fin))

/-- one round: finished structures are skipped, every unfinished one is run exactly once, and
the returned counter is the number of structures still unfinished. -/
theorem runRound_spec (N : Num α) (outcome : Nat → Outcome α) (i : Nat) (tests tests' : List (TS α))
    (u : Nat) (h : runRound N outcome i tests = .ok (tests', u)) :
    PW (RoundStep N outcome) i tests tests' ∧ u = unfinished tests' := by
  induction tests generalizing i tests' u with
  | nil => cases h; exact ⟨trivial, rfl⟩
  | cons ts rest ih =>
    unfold runRound at h
    split at h
    · rename_i hfin
      split at h
      · cases h
      · rename_i rest' u' hr
        obtain ⟨p, q⟩ := ih (i + 1) rest' u' hr
        cases h
        refine ⟨⟨Or.inl ⟨hfin, rfl⟩, p⟩, ?_⟩
        simp only [unfinished, List.countP_cons, hfin] at q ⊢
        rw [q]; simp
    · rename_i hfin
      have hfin' : ts.finished = false := by simpa using hfin
      split at h
      · cases h
      · rename_i ts1 fin hrun
        split at h
        · cases h
        · rename_i rest' u' hr
          obtain ⟨p, q⟩ := ih (i + 1) rest' u' hr
          cases h
          refine ⟨⟨Or.inr ⟨hfin', fin, hrun⟩, p⟩, ?_⟩
          have hf := (run_spec N ts ts1 _ fin hrun).2.2.2.2.1
          simp only [unfinished, List.countP_cons] at q ⊢
          rw [q, ← hf]
          cases fin <;> simp

theorem RoundStep.inv {N : Num α} {outcome : Nat → Outcome α} {i : Nat} {ts ts' : TS α}
    (h : RoundStep N outcome i ts ts') :
    ts'.fail = ts.fail ∧ ts'.rep = ts.rep ∧ ts'.minRep = ts.minRep ∧ (Inv N ts → Inv N ts') := by
  rcases h with ⟨_, rfl⟩ | ⟨_, fin, hrun⟩
  · exact ⟨rfl, rfl, rfl, id⟩
  · obtain ⟨a, b, c, _, _, f⟩ := run_spec N ts ts' _ fin hrun
    exact ⟨a, b, c, f⟩

/-- property of every structure that a loop of rounds preserves. -/
def Good (N : Num α) (fail rep : α) (ts : TS α) : Prop := ts.fail = fail ∧ ts.rep = rep ∧ Inv N ts

theorem runRound_good (N : Num α) (outcome : Nat → Outcome α) (i : Nat) (tests tests' : List (TS α))
    (u : Nat) (fail rep : α) (h : runRound N outcome i tests = .ok (tests', u))
    (hg : ∀ ts ∈ tests, Good N fail rep ts) : ∀ ts ∈ tests', Good N fail rep ts := by
  intro ts' hts'
  obtain ⟨_, ts, hts, hstep⟩ := (runRound_spec N outcome i tests tests' u h).1.mem_right ts' hts'
  obtain ⟨a, b, _, d⟩ := hstep.inv
  obtain ⟨g1, g2, g3⟩ := hg ts hts
  exact ⟨a.trans g1, b.trans g2, d g3⟩

/-- the `while undecided:` loop: when it exits every structure is finished (given that the
counter it starts with is the number of unfinished structures), and all structures keep their
levels and their invariant. -/
theorem sourceLoop_spec (N : Num α) (outcomes : Nat → Nat → Outcome α) (fuel r : Nat)
    (tests tests' : List (TS α)) (u : Nat) (fail rep : α)
    (hu : u = unfinished tests) (hg : ∀ ts ∈ tests, Good N fail rep ts)
    (h : sourceLoop N outcomes fuel r tests u = .ok (some tests')) :
    (∀ ts ∈ tests', ts.finished = true) ∧ (∀ ts ∈ tests', Good N fail rep ts) := by
  induction fuel generalizing r tests u with
  | zero =>
    cases u with
    | zero =>
      simp only [sourceLoop] at h
      cases h
      exact ⟨(unfinished_zero_iff _).1 hu.symm, hg⟩
    | succ n => simp [sourceLoop] at h
  | succ fuel ih =>
    cases u with
    | zero =>
      simp only [sourceLoop] at h
      cases h
      exact ⟨(unfinished_zero_iff _).1 hu.symm, hg⟩
    | succ n =>
      simp only [sourceLoop] at h
      split at h
      · cases h
      · rename_i tests1 u1 hr
        exact ih (r + 1) tests1 u1 (runRound_spec N _ 0 tests tests1 u1 hr).2
          (runRound_good N _ 0 tests tests1 u1 fail rep hr hg) h

/-- the loop repeats exactly while some structure is unfinished: with every structure finished
it returns at once; with one unfinished (and fuel left) it runs one more round. -/
theorem sourceLoop_step (N : Num α) (outcomes : Nat → Nat → Outcome α) (fuel r : Nat)
    (tests : List (TS α)) :
    (unfinished tests = 0 →
      sourceLoop N outcomes fuel r tests (unfinished tests) = .ok (some tests)) ∧
    (unfinished tests ≠ 0 →
      sourceLoop N outcomes (fuel + 1) r tests (unfinished tests) =
        match runRound N (outcomes r) 0 tests with
        | .error e => .error e
        | .ok (tests', u) => sourceLoop N outcomes fuel (r + 1) tests' u) := by
  constructor
  · intro h0
    rw [h0]
    cases fuel <;> rfl
  · intro hne
    obtain ⟨n, hn⟩ := Nat.exists_eq_succ_of_ne_zero hne
    rw [hn]
    rfl

theorem good_replicate (N : Num α) (fail rep : α) (minRep n : Nat) :
    ∀ ts ∈ List.replicate n (TS.init fail rep minRep), Good N fail rep ts := by
  intro ts hts
  rw [List.eq_of_mem_replicate hts]
  exact ⟨rfl, rfl, inv_init N fail rep minRep⟩

theorem unfinished_replicate (fail rep : α) (minRep n : Nat) :
    unfinished (List.replicate n (TS.init fail rep minRep)) = n := by
  induction n with
  | zero => rfl
  | succ n ih =>
    simp only [List.replicate_succ, unfinished, List.countP_cons] at ih ⊢
    rw [ih]; simp [TS.init]

theorem any_failed_iff (N : Num α) (fail rep : α) (tests : List (TS α))
    (hg : ∀ ts ∈ tests, Good N fail rep ts) :
    tests.any failed = true ↔
      ∃ ts ∈ tests, ∃ name, dictGet name ts.state = some TState.failed := by
  rw [List.any_eq_true]
  constructor
  · rintro ⟨ts, hts, hf⟩
    exact ⟨ts, hts, (failed_iff N ts (hg ts hts).2.2).1 hf⟩
  · rintro ⟨ts, hts, hf⟩
    exact ⟨ts, hts, (failed_iff N ts (hg ts hts).2.2).2 hf⟩

/-- TestBitString's loop: every structure is run exactly once. -/
theorem runAll_spec (N : Num α) (outcome : Nat → Outcome α) (i : Nat) (tests tests' : List (TS α))
    (h : runAll N outcome i tests = .ok tests') :
    PW (fun j ts ts' => ∃ fin, run N ts (outcome j) = .ok (ts', fin)) i tests tests' := by
  induction tests generalizing i tests' with
  | nil => cases h; trivial
  | cons ts rest ih =>
    unfold runAll at h
    split at h
    · cases h
    · rename_i ts1 fin hrun
      split at h
      · cases h
      · rename_i rest' hr
        cases h
        exact ⟨⟨fin, hrun⟩, ih (i + 1) rest' hr⟩

/-! ### histories of runs of one structure -/

/-- any sequence of `Run` calls on one structure (aborted by the first exception). -/
def runHistory (N : Num α) : TS α → List (Outcome α) → Except PyErr (TS α)
  | ts, [] => .ok ts
  | ts, o :: os =>
    match run N ts o with
    | .error e => .error e
    | .ok (ts', _) => runHistory N ts' os

theorem runHistory_spec (N : Num α) (ts ts' : TS α) (os : List (Outcome α))
    (h : runHistory N ts os = .ok ts') :
    ts'.fail = ts.fail ∧ ts'.rep = ts.rep ∧ ts'.minRep = ts.minRep ∧
    ts'.runs = ts.runs + os.length ∧ (Inv N ts → Inv N ts') := by
  induction os generalizing ts with
  | nil => cases h; exact ⟨rfl, rfl, rfl, rfl, id⟩
  | cons o os ih =>
    unfold runHistory at h
    split at h
    · cases h
    · rename_i ts1 fin h1
      obtain ⟨a1, a2, a3, a4, _, a6⟩ := run_spec N ts ts1 o fin h1
      obtain ⟨b1, b2, b3, b4, b5⟩ := ih ts1 h
      refine ⟨b1.trans a1, b2.trans a2, b3.trans a3, ?_, fun hi => b5 (a6 hi)⟩
      rw [b4, a4, List.length_cons]; omega

theorem runAll_good (N : Num α) (outcome : Nat → Outcome α) (i : Nat) (tests tests' : List (TS α))
    (fail rep : α) (h : runAll N outcome i tests = .ok tests')
    (hg : ∀ ts ∈ tests, Good N fail rep ts ∧ ts.runs = 0) :
    ∀ ts ∈ tests', Good N fail rep ts ∧ ts.runs = 1 := by
  intro ts' hts'
  obtain ⟨j, ts, hts, fin, hrun⟩ := (runAll_spec N outcome i tests tests' h).mem_right ts' hts'
  obtain ⟨a, b, _, d, _, f⟩ := run_spec N ts ts' _ fin hrun
  obtain ⟨⟨g1, g2, g3⟩, g4⟩ := hg ts hts
  exact ⟨⟨a.trans g1, b.trans g2, f g3⟩, by rw [d, g4]⟩

end Paranoid.Suite
