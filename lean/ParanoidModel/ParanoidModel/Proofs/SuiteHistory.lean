/-
Proofs/SuiteHistory.lean — the recorded p-values of a TestStructure ARE its history.

Proofs/Suite.lean relates the recorded state of a sub-test to the RECORDED p-value list only
(`Inv`).  Here: after any sequence of `Run`s the list recorded under a name is the concatenation,
in order, of every p-value any of the runs returned under that name (`returned`); the three
dictionaries have the same keys; the `finished` counter counts the UNDECIDED decisions made
during the last run (one per ITEM of the result, not one per name); every structure of
TestSource / TestBitString is the history of the outcomes of its own test.
Core Lean only, parametric in the number type.
-/
import ParanoidModel.Proofs.Suite
namespace Paranoid.Suite

variable {α : Type}

/-! ### what a history returned under a name -/

/-- the p-values of one result list that carry `name`, in order. -/
def itemVals (name : String) (items : List (String × α)) : List α :=
  (items.filter (fun it => it.1 = name)).map (·.2)

/-- the p-values one `Run` merges under `name`: none for InsufficientDataError, the number
itself under "result" for a single float / int. -/
def outcomeVals (name : String) (o : Outcome α) : List α :=
  match asNamed o with
  | none => []
  | some items => itemVals name items

/-- ALL p-values the runs `os` returned under `name`, in order. -/
def returned (name : String) (os : List (Outcome α)) : List α :=
  os.flatMap (outcomeVals name)

theorem itemVals_nil (name : String) : itemVals name ([] : List (String × α)) = [] := rfl

theorem itemVals_cons (name : String) (it : String × α) (its : List (String × α)) :
    itemVals name (it :: its) = (if it.1 = name then [it.2] else []) ++ itemVals name its := by
  unfold itemVals
  by_cases h : it.1 = name <;> simp [h]

theorem itemVals_append (name : String) (a b : List (String × α)) :
    itemVals name (a ++ b) = itemVals name a ++ itemVals name b := by
  simp [itemVals, List.filter_append]

theorem itemVals_of_not_mem (name : String) (items : List (String × α))
    (h : name ∉ items.map (·.1)) : itemVals name items = [] := by
  induction items with
  | nil => rfl
  | cons it its ih =>
    simp only [List.map_cons, List.mem_cons, not_or] at h
    rw [itemVals_cons, ih h.2, if_neg (fun h' => h.1 h'.symm)]
    rfl

theorem returned_nil (name : String) : returned name ([] : List (Outcome α)) = [] := rfl

theorem returned_cons (name : String) (o : Outcome α) (os : List (Outcome α)) :
    returned name (o :: os) = outcomeVals name o ++ returned name os := by
  simp [returned]

theorem returned_append (name : String) (a b : List (Outcome α)) :
    returned name (a ++ b) = returned name a ++ returned name b := by
  simp [returned]

/-! ### the recorded list grows by exactly what was returned -/

/-- all three dictionaries have the same keys, and no recorded list is empty. -/
structure Keys (ts : TS α) : Prop where
  pv : ∀ name, dictGet name ts.pvalues = none ↔ dictGet name ts.state = none
  comb : ∀ name, dictGet name ts.combined = none ↔ dictGet name ts.state = none
  nonempty : ∀ name, dictGet name ts.pvalues ≠ some []

theorem keys_init (fail rep : α) (minRep : Nat) : Keys (TS.init fail rep minRep) :=
  ⟨by simp [TS.init, dictGet], by simp [TS.init, dictGet], by simp [TS.init, dictGet]⟩

theorem runItem_pvals (N : Num α) (acc acc' : TS α × Nat) (item : String × α)
    (h : runItem N acc item = .ok acc') (name : String) :
    pvalsOf acc'.1 name = pvalsOf acc.1 name ++ itemVals name [item] := by
  obtain ⟨_, _, _, _, _, c, st, _, hp, _, _, _⟩ := runItem_spec N acc acc' item h
  unfold pvalsOf
  rw [hp, dictGet_dictSet, itemVals_cons, itemVals_nil, List.append_nil]
  by_cases hn : name = item.1
  · subst hn
    simp only [if_true]
    rfl
  · have : ¬ item.1 = name := fun h' => hn h'.symm
    simp only [hn, this, if_false, List.append_nil]

theorem runItem_keys (N : Num α) (acc acc' : TS α × Nat) (item : String × α)
    (h : runItem N acc item = .ok acc') (hk : Keys acc.1) : Keys acc'.1 := by
  obtain ⟨_, _, _, _, _, c, st, _, hp, hc, hs, _⟩ := runItem_spec N acc acc' item h
  refine ⟨fun name => ?_, fun name => ?_, fun name => ?_⟩
  · rw [hp, hs, dictGet_dictSet, dictGet_dictSet]
    by_cases hn : name = item.1
    · simp [hn]
    · simp only [hn, if_false]; exact hk.pv name
  · rw [hc, hs, dictGet_dictSet, dictGet_dictSet]
    by_cases hn : name = item.1
    · simp [hn]
    · simp only [hn, if_false]; exact hk.comb name
  · rw [hp, dictGet_dictSet]
    by_cases hn : name = item.1
    · simp [hn]
    · simp only [hn, if_false]; exact hk.nonempty name

theorem runItems_pvals (N : Num α) (acc acc' : TS α × Nat) (items : List (String × α))
    (h : runItems N acc items = .ok acc') :
    (∀ name, pvalsOf acc'.1 name = pvalsOf acc.1 name ++ itemVals name items) ∧
    (Keys acc.1 → Keys acc'.1) := by
  induction items generalizing acc with
  | nil => cases h; exact ⟨fun name => by rw [itemVals_nil, List.append_nil], id⟩
  | cons it its ih =>
    unfold runItems at h
    split at h
    · cases h
    · rename_i acc1 h1
      obtain ⟨a, b⟩ := ih acc1 h
      refine ⟨fun name => ?_, fun hk => b (runItem_keys N acc acc1 it h1 hk)⟩
      rw [a name, runItem_pvals N acc acc1 it h1 name, List.append_assoc,
        ← itemVals_append]
      rfl

theorem run_pvals (N : Num α) (ts ts' : TS α) (o : Outcome α) (fin : Bool)
    (h : run N ts o = .ok (ts', fin)) :
    (∀ name, pvalsOf ts' name = pvalsOf ts name ++ outcomeVals name o) ∧
    (Keys ts → Keys ts') := by
  unfold run at h
  split at h
  · rename_i ho
    cases h
    refine ⟨fun name => ?_, fun hk => ⟨hk.pv, hk.comb, hk.nonempty⟩⟩
    simp [outcomeVals, ho, pvalsOf]
  · rename_i items ho
    split at h
    · cases h
    · rename_i ts1 u h1
      cases h
      obtain ⟨a, b⟩ := runItems_pvals N _ _ items h1
      refine ⟨fun name => ?_, fun hk => ?_⟩
      · have := a name
        simp only [outcomeVals, ho]
        exact this
      · have := b ⟨hk.pv, hk.comb, hk.nonempty⟩
        exact ⟨this.pv, this.comb, this.nonempty⟩

theorem runHistory_pvals (N : Num α) (ts ts' : TS α) (os : List (Outcome α))
    (h : runHistory N ts os = .ok ts') :
    (∀ name, pvalsOf ts' name = pvalsOf ts name ++ returned name os) ∧
    (Keys ts → Keys ts') := by
  induction os generalizing ts with
  | nil => cases h; exact ⟨fun name => by rw [returned_nil, List.append_nil], id⟩
  | cons o os ih =>
    unfold runHistory at h
    split at h
    · cases h
    · rename_i ts1 fin h1
      obtain ⟨a, b⟩ := run_pvals N ts ts1 o fin h1
      obtain ⟨c, d⟩ := ih ts1 h
      refine ⟨fun name => ?_, fun hk => d (b hk)⟩
      rw [c name, a name, List.append_assoc, ← returned_cons]

theorem pvalsOf_init (fail rep : α) (minRep : Nat) (name : String) :
    pvalsOf (TS.init fail rep minRep) name = [] := by
  simp [pvalsOf, TS.init, dictGet]

/-- THE HISTORY FACT: after any history from a new structure, the list recorded under `name` is
everything the runs returned under `name`, in order (no entry when nothing was returned). -/
theorem history_pvalues (N : Num α) (fail rep : α) (minRep : Nat) (os : List (Outcome α))
    (ts : TS α) (h : runHistory N (TS.init fail rep minRep) os = .ok ts) (name : String) :
    dictGet name ts.pvalues =
      if (returned name os).isEmpty then none else some (returned name os) := by
  obtain ⟨a, b⟩ := runHistory_pvals N _ ts os h
  have hk := b (keys_init fail rep minRep)
  have hp := a name
  rw [pvalsOf_init, List.nil_append] at hp
  unfold pvalsOf at hp
  cases hg : dictGet name ts.pvalues with
  | none =>
    rw [hg] at hp
    simp [← hp]
  | some pv =>
    rw [hg] at hp
    dsimp only at hp
    subst hp
    cases hpv : returned name os with
    | nil => rw [hpv] at hg; exact (hk.nonempty name hg).elim
    | cons x xs => simp

/-! ### the decision in terms of the history -/

theorem combinedPValue_ne_nil (N : Num α) (pv : List α) (c : α)
    (h : combinedPValue N pv = .ok c) : pv.isEmpty = false := by
  cases pv with
  | nil => simp [combinedPValue] at h
  | cons x xs => rfl

/-- after any history from a new structure: a name nothing was returned under has no entry in
any of the three dictionaries; a name something was returned under carries the decision
`stateOf` makes for EXACTLY the returned p-values. -/
theorem history_state (N : Num α) (fail rep : α) (minRep : Nat) (os : List (Outcome α))
    (ts : TS α) (h : runHistory N (TS.init fail rep minRep) os = .ok ts) (name : String) :
    ((returned name os).isEmpty = true →
      dictGet name ts.pvalues = none ∧ dictGet name ts.combined = none ∧
      dictGet name ts.state = none) ∧
    ((returned name os).isEmpty = false →
      ∃ c st, stateOf N fail rep (returned name os) = .ok (c, st) ∧
        dictGet name ts.pvalues = some (returned name os) ∧
        dictGet name ts.combined = some c ∧ dictGet name ts.state = some st) := by
  obtain ⟨hf, hr, _, _, hinv⟩ := runHistory_spec N _ ts os h
  have hi := hinv (inv_init N fail rep minRep)
  have hk := (runHistory_pvals N _ ts os h).2 (keys_init fail rep minRep)
  have hp := history_pvalues N fail rep minRep os ts h name
  constructor
  · intro he
    rw [he, if_pos rfl] at hp
    have hs := (hk.pv name).1 hp
    exact ⟨hp, (hk.comb name).2 hs, hs⟩
  · intro he
    rw [he] at hp
    simp only [Bool.false_eq_true, if_false] at hp
    obtain ⟨st, hst⟩ := hi.hasState name _ hp
    obtain ⟨pv, c, h1, h2, h3⟩ := hi.decided name st hst
    rw [hp] at h1
    cases h1
    have hf' : ts.fail = fail := hf
    have hr' : ts.rep = rep := hr
    rw [hf', hr'] at h3
    exact ⟨c, st, h3, hp, h2, hst⟩

/-- `Failed()` after any history: some name's RETURNED p-values combine below the fail level. -/
theorem history_failed (N : Num α) (fail rep : α) (minRep : Nat) (os : List (Outcome α))
    (ts : TS α) (h : runHistory N (TS.init fail rep minRep) os = .ok ts) :
    failed ts = true ↔
      ∃ name c, combinedPValue N (returned name os) = .ok c ∧ N.lt c fail = true := by
  obtain ⟨hf, _, _, _, hinv⟩ := runHistory_spec N _ ts os h
  have hi := hinv (inv_init N fail rep minRep)
  have hf' : ts.fail = fail := hf
  rw [failed_iff_comb N ts hi, hf']
  constructor
  · rintro ⟨name, pv, c, h1, h2, h3⟩
    have hp := history_pvalues N fail rep minRep os ts h name
    rw [h1] at hp
    by_cases he : (returned name os).isEmpty = true
    · rw [if_pos he] at hp; cases hp
    · rw [if_neg he] at hp
      cases hp
      exact ⟨name, c, h2, h3⟩
  · rintro ⟨name, c, h2, h3⟩
    have he := combinedPValue_ne_nil N _ c h2
    obtain ⟨c', st, _, hp, _, _⟩ := (history_state N fail rep minRep os ts h name).2 he
    exact ⟨name, _, c, hp, h2, h3⟩

/-! ### `finished`: one decision per ITEM of the last result -/

/-- does the decision for the p-values `pv` come out UNDECIDED? -/
def isUndecided (N : Num α) (fail rep : α) (pv : List α) : Bool :=
  match stateOf N fail rep pv with
  | .ok (_, .undecided) => true
  | _ => false

theorem isUndecided_iff (N : Num α) (fail rep : α) (pv : List α) :
    isUndecided N fail rep pv = true ↔
      ∃ c rp, combinedPValue N pv = .ok c ∧ N.lt c fail = false ∧
        combinedPValue N (List.replicate pv.length rep) = .ok rp ∧ N.lt rp c = false := by
  unfold isUndecided
  constructor
  · intro h
    split at h
    · rename_i c hs
      obtain ⟨s1, _, _, s4⟩ := stateOf_spec N fail rep pv c _ hs
      obtain ⟨a, rp, b, d⟩ := s4.1 rfl
      exact ⟨c, rp, s1, a, b, d⟩
    · cases h
  · rintro ⟨c, rp, h1, h2, h3, h4⟩
    have : stateOf N fail rep pv = .ok (c, .undecided) := by
      unfold stateOf
      simp [h1, h2, h3, h4]
    rw [this]

theorem runItem_counter (N : Num α) (acc acc' : TS α × Nat) (item : String × α)
    (h : runItem N acc item = .ok acc') :
    acc'.2 = acc.2 +
      (if isUndecided N acc.1.fail acc.1.rep (pvalsOf acc.1 item.1 ++ [item.2]) then 1 else 0) := by
  obtain ⟨_, _, _, _, _, c, st, hst, _, _, _, hu⟩ := runItem_spec N acc acc' item h
  rw [hu]
  unfold isUndecided
  rw [hst]
  cases st <;> simp

/-- the counter `undecided` is zero at the end of the `for name, p_value in test_result` loop iff
it was zero and NONE of the decisions made on the way — one after each item, for the p-values of
that item's name seen so far — was UNDECIDED.  (No assumption on the names: with a name occurring
twice the first of its two decisions counts even though the second overwrites the state.) -/
theorem runItems_counter (N : Num α) (acc acc' : TS α × Nat) (items : List (String × α))
    (h : runItems N acc items = .ok acc') :
    acc'.2 = 0 ↔ acc.2 = 0 ∧
      ∀ pre it suf, items = pre ++ it :: suf →
        isUndecided N acc.1.fail acc.1.rep
          (pvalsOf acc.1 it.1 ++ itemVals it.1 (pre ++ [it])) = false := by
  induction items generalizing acc with
  | nil =>
    cases h
    simp
  | cons it0 its ih =>
    unfold runItems at h
    split at h
    · cases h
    · rename_i acc1 h1
      obtain ⟨hf, hr, _, _, _, _⟩ := runItem_spec N acc acc1 it0 h1
      have hc := runItem_counter N acc acc1 it0 h1
      rw [ih acc1 h, hc, hf, hr]
      constructor
      · rintro ⟨h0, hrest⟩
        have hu : isUndecided N acc.1.fail acc.1.rep (pvalsOf acc.1 it0.1 ++ [it0.2]) = false := by
          cases hx : isUndecided N acc.1.fail acc.1.rep (pvalsOf acc.1 it0.1 ++ [it0.2]) with
          | false => rfl
          | true => rw [hx] at h0; simp at h0
        refine ⟨by rw [hu] at h0; simpa using h0, ?_⟩
        intro pre it suf heq
        cases pre with
        | nil =>
          simp only [List.nil_append, List.cons.injEq] at heq
          obtain ⟨rfl, _⟩ := heq
          rw [List.nil_append, itemVals_cons, itemVals_nil, if_pos rfl, List.append_nil]
          exact hu
        | cons p pre' =>
          simp only [List.cons_append, List.cons.injEq] at heq
          obtain ⟨rfl, heq⟩ := heq
          have := hrest pre' it suf heq
          rw [runItem_pvals N acc acc1 it0 h1 it.1, List.append_assoc, ← itemVals_append] at this
          exact this
      · rintro ⟨h0, hall⟩
        have hu := hall [] it0 its rfl
        rw [List.nil_append, itemVals_cons, itemVals_nil, if_pos rfl, List.append_nil] at hu
        refine ⟨by rw [hu, h0]; rfl, ?_⟩
        intro pre it suf heq
        have := hall (it0 :: pre) it suf (by rw [heq]; rfl)
        rw [runItem_pvals N acc acc1 it0 h1 it.1, List.append_assoc, ← itemVals_append]
        exact this

/-- `finished` after one `Run` that returned a result list, ANY names. -/
theorem run_finished_general (N : Num α) (ts ts' : TS α) (o : Outcome α)
    (items : List (String × α)) (fin : Bool) (ho : asNamed o = some items)
    (h : run N ts o = .ok (ts', fin)) :
    ts'.finished = true ↔
      (∀ pre it suf, items = pre ++ it :: suf →
        isUndecided N ts.fail ts.rep (pvalsOf ts it.1 ++ itemVals it.1 (pre ++ [it])) = false) ∧
      ts.minRep ≤ ts.runs + 1 := by
  obtain ⟨_, _, hm, hruns, _, _⟩ := run_spec N ts ts' o fin h
  unfold run at h
  rw [ho] at h
  dsimp only at h
  split at h
  · cases h
  · rename_i ts1 u h1
    cases h
    have := runItems_counter N _ (ts1, u) items h1
    simp only [true_and] at this
    simp only [Bool.and_eq_true, beq_iff_eq, decide_eq_true_eq]
    rw [this]
    have e1 : ts1.minRep = ts.minRep := hm
    have e2 : ts1.runs = ts.runs + 1 := hruns
    rw [e1, e2]
    constructor
    · rintro ⟨a, b⟩
      refine ⟨fun pre it suf heq => ?_, b⟩
      have := a pre it suf heq
      simpa [pvalsOf] using this
    · rintro ⟨a, b⟩
      refine ⟨fun pre it suf heq => ?_, b⟩
      have := a pre it suf heq
      simpa [pvalsOf] using this

/-- with pairwise different names every item is the only one of its name. -/
theorem itemVals_prefix_of_nodup (items pre suf : List (String × α)) (it : String × α)
    (hnd : (items.map (·.1)).Nodup) (heq : items = pre ++ it :: suf) :
    itemVals it.1 (pre ++ [it]) = itemVals it.1 items ∧ itemVals it.1 items = [it.2] := by
  subst heq
  simp only [List.map_append, List.map_cons] at hnd
  rw [List.nodup_append] at hnd
  obtain ⟨_, h2, h3⟩ := hnd
  have hpre : it.1 ∉ pre.map (·.1) := fun hm => h3 _ hm _ List.mem_cons_self rfl
  have hsuf : it.1 ∉ suf.map (·.1) := (List.nodup_cons.1 h2).1
  rw [itemVals_append, itemVals_append, itemVals_of_not_mem _ _ hpre, itemVals_cons,
    itemVals_cons, itemVals_nil, itemVals_of_not_mem _ _ hsuf, if_pos rfl]
  exact ⟨rfl, rfl⟩

theorem runHistory_snoc (N : Num α) (ts : TS α) (os : List (Outcome α)) (o : Outcome α) :
    runHistory N ts (os ++ [o]) =
      match runHistory N ts os with
      | .error e => .error e
      | .ok ts1 =>
        match run N ts1 o with
        | .error e => .error e
        | .ok (ts2, _) => .ok ts2 := by
  induction os generalizing ts with
  | nil =>
    simp only [List.nil_append, runHistory]
    cases run N ts o with
    | error e => rfl
    | ok p => rfl
  | cons o' os ih =>
    simp only [List.cons_append, runHistory]
    cases run N ts o' with
    | error e => rfl
    | ok p => exact ih p.1

/-- `finished` after the history `os ++ [o]` (last run returned the list `items`), in terms of
the history only. -/
theorem history_finished (N : Num α) (fail rep : α) (minRep : Nat) (os : List (Outcome α))
    (o : Outcome α) (items : List (String × α)) (ts : TS α) (ho : asNamed o = some items)
    (h : runHistory N (TS.init fail rep minRep) (os ++ [o]) = .ok ts) :
    ts.finished = true ↔
      (∀ pre it suf, items = pre ++ it :: suf →
        isUndecided N fail rep (returned it.1 os ++ itemVals it.1 (pre ++ [it])) = false) ∧
      minRep ≤ os.length + 1 := by
  rw [runHistory_snoc] at h
  split at h
  · cases h
  · rename_i ts1 h1
    split at h
    · cases h
    · rename_i ts2 fin h2
      cases h
      obtain ⟨hf, hr, hm, hruns, _⟩ := runHistory_spec N _ ts1 os h1
      have hp := (runHistory_pvals N _ ts1 os h1).1
      rw [run_finished_general N ts1 ts o items fin ho h2]
      have e1 : ts1.fail = fail := hf
      have e2 : ts1.rep = rep := hr
      have e3 : ts1.minRep = minRep := hm
      have e4 : ts1.runs = os.length := by simpa [TS.init] using hruns
      rw [e1, e2, e3, e4]
      constructor
      · rintro ⟨a, b⟩
        refine ⟨fun pre it suf heq => ?_, b⟩
        have := a pre it suf heq
        rwa [hp it.1, pvalsOf_init, List.nil_append] at this
      · rintro ⟨a, b⟩
        refine ⟨fun pre it suf heq => ?_, b⟩
        rw [hp it.1, pvalsOf_init, List.nil_append]
        exact a pre it suf heq

/-! ### TestSource / TestBitString: every structure is the history of its own test -/

/-- what test `i` returned in rounds `0 … k-1`. -/
def column (outcomes : Nat → Nat → Outcome α) (i k : Nat) : List (Outcome α) :=
  (List.range k).map (fun r => outcomes r i)

theorem column_succ (outcomes : Nat → Nat → Outcome α) (i k : Nat) :
    column outcomes i (k + 1) = column outcomes i k ++ [outcomes k i] := by
  simp [column, List.range_succ]

/-- a predicate on every position of a list of structures. -/
def AllIdx (P : Nat → TS α → Prop) : Nat → List (TS α) → Prop
  | _, [] => True
  | i, a :: as => P i a ∧ AllIdx P (i + 1) as

theorem AllIdx.get {P : Nat → TS α → Prop} {i : Nat} {l : List (TS α)} (h : AllIdx P i l)
    (n : Nat) (a : TS α) (ha : l[n]? = some a) : P (i + n) a := by
  induction l generalizing i n with
  | nil => simp at ha
  | cons x xs ih =>
    cases n with
    | zero =>
      simp only [List.getElem?_cons_zero, Option.some.injEq] at ha
      subst ha; exact h.1
    | succ m =>
      simp only [List.getElem?_cons_succ] at ha
      have := ih h.2 m ha
      rwa [Nat.add_assoc, Nat.add_comm 1 m] at this

theorem AllIdx.step {P Q : Nat → TS α → Prop} {R : Nat → TS α → TS α → Prop}
    (hstep : ∀ j a b, P j a → R j a b → Q j b) {i : Nat} {l l' : List (TS α)}
    (h : AllIdx P i l) (hpw : PW R i l l') : AllIdx Q i l' := by
  induction l generalizing i l' with
  | nil => cases l' with
    | nil => trivial
    | cons b bs => exact hpw.elim
  | cons a as ih => cases l' with
    | nil => exact hpw.elim
    | cons b bs => exact ⟨hstep i a b h.1 hpw.1, ih h.2 hpw.2⟩

theorem AllIdx.replicate {P : Nat → TS α → Prop} (x : TS α) (hx : ∀ j, P j x) (i n : Nat) :
    AllIdx P i (List.replicate n x) := by
  induction n generalizing i with
  | zero => trivial
  | succ n ih => exact ⟨hx i, ih (i + 1)⟩

theorem PW.length_eq {R : Nat → TS α → TS α → Prop} {i : Nat} {l l' : List (TS α)}
    (h : PW R i l l') : l'.length = l.length := by
  induction l generalizing i l' with
  | nil => cases l' with
    | nil => rfl
    | cons b bs => exact h.elim
  | cons a as ih => cases l' with
    | nil => exact h.elim
    | cons b bs => simp only [List.length_cons, ih h.2]

/-- at the beginning of round `r` the structure at position `i` is the history of the outcomes
of test `i` in the rounds `0 … k-1`, was unfinished after each shorter history (so it was run
in each of those rounds), and `k = r` unless it is finished (so it is not run any more). -/
def Tracks (N : Num α) (init : TS α) (outcomes : Nat → Nat → Outcome α) (r i : Nat)
    (ts : TS α) : Prop :=
  ∃ k, k ≤ r ∧ runHistory N init (column outcomes i k) = .ok ts ∧
    (ts.finished = false → k = r) ∧
    ∀ j, j < k → ∃ tsj, runHistory N init (column outcomes i j) = .ok tsj ∧ tsj.finished = false

theorem tracks_step (N : Num α) (init : TS α) (outcomes : Nat → Nat → Outcome α) (r i : Nat)
    (ts ts' : TS α) (ht : Tracks N init outcomes r i ts)
    (hs : RoundStep N (outcomes r) i ts ts') : Tracks N init outcomes (r + 1) i ts' := by
  obtain ⟨k, hk, hh, hfin, hpre⟩ := ht
  rcases hs with ⟨hf, rfl⟩ | ⟨hf, fin, hrun⟩
  · exact ⟨k, Nat.le_succ_of_le hk, hh, (fun h' => by rw [hf] at h'; cases h'), hpre⟩
  · have hkr := hfin hf
    subst hkr
    refine ⟨k + 1, Nat.le_refl _, ?_, fun _ => rfl, ?_⟩
    · rw [column_succ, runHistory_snoc, hh]
      dsimp only
      rw [hrun]
    · intro j hj
      rcases Nat.lt_succ_iff_lt_or_eq.1 hj with hj | rfl
      · exact hpre j hj
      · exact ⟨ts, hh, hf⟩

theorem sourceLoop_tracks (N : Num α) (init : TS α) (outcomes : Nat → Nat → Outcome α)
    (fuel r : Nat) (tests tests' : List (TS α)) (u : Nat)
    (ht : AllIdx (Tracks N init outcomes r) 0 tests)
    (h : sourceLoop N outcomes fuel r tests u = .ok (some tests')) :
    tests'.length = tests.length ∧ ∃ r', AllIdx (Tracks N init outcomes r') 0 tests' := by
  induction fuel generalizing r tests u with
  | zero =>
    cases u with
    | zero => simp only [sourceLoop] at h; cases h; exact ⟨rfl, r, ht⟩
    | succ n => simp [sourceLoop] at h
  | succ fuel ih =>
    cases u with
    | zero => simp only [sourceLoop] at h; cases h; exact ⟨rfl, r, ht⟩
    | succ n =>
      simp only [sourceLoop] at h
      split at h
      · cases h
      · rename_i tests1 u1 hr
        have hpw := (runRound_spec N _ 0 tests tests1 u1 hr).1
        obtain ⟨hl, r', hall⟩ := ih (r + 1) tests1 u1
          (ht.step (fun j a b hp hs => tracks_step N init outcomes r j a b hp hs) hpw) h
        exact ⟨hl.trans hpw.length_eq, r', hall⟩

theorem tracks_zero (N : Num α) (init : TS α) (outcomes : Nat → Nat → Outcome α) (i : Nat) :
    Tracks N init outcomes 0 i init :=
  ⟨0, Nat.le_refl _, rfl, fun _ => rfl, fun j hj => (Nat.not_lt_zero j hj).elim⟩

/-- TestSource: the structure at position `i` of the result is the history of what test `i`
returned in the rounds `0 … k-1` for some `k`; it was unfinished after each of the rounds before
(which is why it was run again) and is finished now. -/
theorem testSource_tracks (N : Num α) (nTests : Nat) (fail rep : α) (minRep : Nat)
    (outcomes : Nat → Nat → Outcome α) (fuel : Nat) (tests : List (TS α)) (ret : Option Bool)
    (h : testSource N nTests fail rep minRep outcomes fuel = .ok (some (tests, ret))) :
    tests.length = nTests ∧
    ∀ i ts, tests[i]? = some ts →
      ∃ k, runHistory N (TS.init fail rep minRep) (column outcomes i k) = .ok ts ∧
        ts.finished = true ∧
        ∀ j, j < k → ∃ tsj, runHistory N (TS.init fail rep minRep) (column outcomes i j) = .ok tsj ∧
          tsj.finished = false := by
  unfold testSource at h
  by_cases hn : nTests = 0
  · simp only [hn, if_true] at h
    cases h
    exact ⟨hn.symm, fun i ts hi => by simp at hi⟩
  · simp only [hn, if_false] at h
    split at h
    · cases h
    · cases h
    · rename_i tests' hloop
      cases h
      obtain ⟨hfin, _⟩ := sourceLoop_spec N outcomes fuel 0 _ tests nTests fail rep
        (unfinished_replicate fail rep minRep nTests).symm
        (good_replicate N fail rep minRep nTests) hloop
      obtain ⟨hl, r', hall⟩ := sourceLoop_tracks N (TS.init fail rep minRep) outcomes fuel 0 _ tests
        nTests (AllIdx.replicate _ (fun j => tracks_zero N _ outcomes j) 0 nTests) hloop
      refine ⟨by rw [hl, List.length_replicate], fun i ts hi => ?_⟩
      obtain ⟨k, _, hh, _, hpre⟩ := hall.get i ts hi
      rw [Nat.zero_add] at hh hpre
      exact ⟨k, hh, hfin ts (List.mem_of_getElem? hi), hpre⟩

/-- TestBitString: the structure at position `i` is one run on what test `i` returned. -/
theorem runAll_tracks (N : Num α) (outcome : Nat → Outcome α) (i : Nat) (init : TS α) (n : Nat)
    (tests : List (TS α)) (h : runAll N outcome i (List.replicate n init) = .ok tests) :
    tests.length = n ∧
    ∀ j ts, tests[j]? = some ts → runHistory N init [outcome (i + j)] = .ok ts := by
  have hpw := runAll_spec N outcome i _ tests h
  refine ⟨by rw [hpw.length_eq, List.length_replicate], fun j ts hj => ?_⟩
  have hall : AllIdx (fun _ a => a = init) i (List.replicate n init) :=
    AllIdx.replicate (P := fun _ a => a = init) init (fun _ => rfl) i n
  have := (hall.step (Q := fun j b => runHistory N init [outcome j] = .ok b)
    (fun j a b hp hs => by
      obtain ⟨fin, hrun⟩ := hs
      subst hp
      simp [runHistory, hrun]) hpw).get j ts hj
  exact this

end Paranoid.Suite
