/-
Proofs/Totality.lean — the RSA single checks never raise on well-formed keys (C18).
-/
import ParanoidModel.Proofs.RsaChecks
import Mathlib.Tactic.Positivity

namespace Paranoid

theorem divmodRounded_ok (a b : Int) (hb : b ≠ 0) : ∃ r, divmodRoundedR a b = .ok r := by
  unfold divmodRoundedR
  rw [if_neg hb]
  exact ⟨_, rfl⟩

theorem cfStep_ok (n x bound quot v : Nat) (hx : x ≠ 0) : ∃ r, cfStep n x bound quot v = .ok r := by
  unfold cfStep
  have hx' : (x : Int) ≠ 0 := by exact_mod_cast hx
  obtain ⟨⟨r, c⟩, h1⟩ := divmodRounded_ok ((n : Int) * v) x hx'
  rw [h1]
  simp only
  obtain ⟨⟨a, b⟩, h2⟩ := divmodRounded_ok r x hx'
  rw [h2]
  simp only
  split
  · exact ⟨_, rfl⟩
  · split <;> exact ⟨_, rfl⟩

theorem cfCheckLoop_ok (n x bound : Nat) (hx : x ≠ 0) : ∀ (l : List (Nat × Nat × Nat)),
    ∃ r, cfCheckLoop n x bound l = .ok r
  | [] => ⟨_, rfl⟩
  | (quot, _, v) :: rest => by
    unfold cfCheckLoop
    obtain ⟨r, h⟩ := cfStep_ok n x bound quot v hx
    rw [h]
    cases r with
    | some res => exact ⟨_, rfl⟩
    | none => exact cfCheckLoop_ok n x bound hx rest

/-- `CheckContinuedFractions` never raises. -/
theorem vCf_total (n bound : Nat) : ∃ v, vCf n bound = .ok v := by
  unfold vCf checkContinuedFraction
  obtain ⟨⟨ok, fs⟩, h⟩ := cfCheckLoop_ok n (2 ^ (bitLength n / 2)) bound (by positivity)
    (continuedFraction n (2 ^ bitLength n))
  rw [h]
  simp only
  split <;> exact ⟨_, rfl⟩

/-- the LLL oracle is well-formed: every returned row has at least two entries. -/
def RedWF (red : Nat → List (List Int)) : Prop := ∀ d, ∀ row ∈ red d, 2 ≤ row.length

theorem checkFractionLoop_ok (n w : Nat) : ∀ (basis : List (List Int)),
    (∀ row ∈ basis, 2 ≤ row.length) → ∃ r, checkFractionLoop n w basis = .ok r
  | [], _ => ⟨_, rfl⟩
  | row :: rest, h => by
    have hrow := h row (List.mem_cons_self ..)
    match row, hrow with
    | a :: b :: tl, _ =>
      unfold checkFractionLoop
      simp only
      split
      · exact ⟨_, rfl⟩
      · exact checkFractionLoop_ok n w rest (fun r hr => h r (List.mem_cons_of_mem _ hr))

theorem bitPatternsLoop_ok (n maxPs : Nat) (red : Nat → List (List Int)) (hred : RedWF red) :
    ∀ (l : List Nat), ∃ v, bitPatternsLoop n maxPs red l = .ok v
  | [] => ⟨_, rfl⟩
  | ps :: rest => by
    unfold bitPatternsLoop
    split
    · exact bitPatternsLoop_ok n maxPs red hred rest
    · obtain ⟨r, h⟩ := checkFractionLoop_ok n (2 ^ (bitLength n / 2)) (red (2 ^ ps - 1)) (hred _)
      unfold checkFraction
      rw [h]
      cases r with
      | nil => exact bitPatternsLoop_ok n maxPs red hred rest
      | cons f fs => exact ⟨_, rfl⟩

/-- `CheckBitPatterns` never raises, for every pattern-size list and well-formed LLL answers. -/
theorem vBitPatterns_total (n : Nat) (ps : List Nat) (red : Nat → List (List Int))
    (hred : RedWF red) : ∃ v, vBitPatterns n ps red = .ok v :=
  bitPatternsLoop_ok _ _ _ hred _

theorem permutedInner_ok (n maxD wsize : Nat) (red : Nat → List (List Int)) (hred : RedWF red) :
    ∀ (l : List Nat), ∃ v, permutedInner n maxD wsize red l = .ok v
  | [] => ⟨_, rfl⟩
  | ps :: rest => by
    unfold permutedInner
    simp only
    split
    · exact ⟨_, rfl⟩
    · obtain ⟨r, h⟩ := checkFractionLoop_ok n (2 ^ (bitLength n / 2))
        (red (permutedDenominator wsize ps)) (hred _)
      unfold checkFraction
      rw [h]
      cases r with
      | nil => exact permutedInner_ok n maxD wsize red hred rest
      | cons f fs => exact ⟨_, rfl⟩

theorem permutedOuter_ok (n maxD : Nat) (red : Nat → List (List Int)) (hred : RedWF red) :
    ∀ (l : List Nat), ∃ v, permutedOuter n maxD red l = .ok v
  | [] => ⟨_, rfl⟩
  | ws :: rest => by
    unfold permutedOuter
    obtain ⟨r, h⟩ := permutedInner_ok n maxD ws red hred (oddRange ws)
    rw [h]
    cases r with
    | some v => exact ⟨_, rfl⟩
    | none => exact permutedOuter_ok n maxD red hred rest

/-- `CheckPermutedBitPatterns` never raises. -/
theorem vPermuted_total (n : Nat) (red : Nat → List (List Int)) (hred : RedWF red) :
    ∃ v, vPermuted n red = .ok v :=
  permutedOuter_ok _ _ _ hred _

theorem factorWithGuess_ok (n p0 cbrt : Nat) (hp : p0 ≠ 0) : ∃ r, factorWithGuess n p0 cbrt = .ok r := by
  unfold factorWithGuess
  rw [if_neg hp]
  exact ⟨_, rfl⟩

theorem sudGuess_pos (n diff : Nat) (hn : 0 < n) : sudGuess n diff ≠ 0 := by
  unfold sudGuess isqrt
  have : 0 < Nat.sqrt (n + (diff / 2) ^ 2) := Nat.sqrt_pos.mpr (by omega)
  omega

theorem sudLoop_ok (n cbrt : Nat) (hn : 0 < n) : ∀ (l : List Nat), ∃ r, sudLoop n cbrt l = .ok r
  | [] => ⟨_, rfl⟩
  | d :: rest => by
    unfold sudLoop
    obtain ⟨r, h⟩ := factorWithGuess_ok n (sudGuess n d) cbrt (sudGuess_pos n d hn)
    simp only [bind, Except.bind, h]
    split
    · exact ⟨_, rfl⟩
    · exact sudLoop_ok n cbrt hn rest

/-- `CheckSmallUpperDifferences` never raises (for every value of the float cube root). -/
theorem vSud_total (n cbrt : Nat) (hn : 0 < n) : ∃ v, vSud n cbrt = .ok v := by
  unfold vSud checkSmallUpperDifferences
  dsimp only
  split
  · rename_i e h
    split at h
    · simp at h
    · obtain ⟨r, hr⟩ := sudLoop_ok n cbrt hn (sudDifferences ((bitLength n + 1) / 2))
      rw [hr] at h; simp at h
  · exact ⟨_, rfl⟩
  · exact ⟨_, rfl⟩

theorem unseededLoop_ok (n cbrt : Nat) : ∀ (l : List Nat), (∀ c ∈ l, c ≠ 0) →
    ∃ v, unseededLoop n cbrt l = .ok v
  | [], _ => ⟨_, rfl⟩
  | c :: rest, h => by
    unfold unseededLoop
    obtain ⟨r, hr⟩ := factorWithGuess_ok n c cbrt (h c (List.mem_cons_self ..))
    rw [hr]
    split
    · simp at *
    · exact ⟨_, rfl⟩
    · exact unseededLoop_ok n cbrt rest (fun c hc => h c (List.mem_cons_of_mem _ hc))

/-- `CheckUnseededRand` never raises when the storage lists non-zero values. -/
theorem vUnseeded_total (n cbrt : Nat) (cands : List Nat) (h : ∀ c ∈ cands, c ≠ 0) :
    ∃ v, vUnseeded n cbrt cands = .ok v :=
  unseededLoop_ok n cbrt cands h

end Paranoid
