import ParanoidModel.Model.Factoring
namespace Paranoid.C01
theorem placeholder : True := trivial
end Paranoid.C01
