/-
Props/C01.lean — "Every factor reported for an RSA modulus really divides it".
Property theorems only; helper lemmas live in Proofs/Factoring.lean.

All statements are universally quantified over the modulus `n : Nat` (no size bound), over
every constructor parameter (step bound, middle bits, CF bound, Pollard product `m` and gcd
bound, LHW cutoff / maxsteps) and over EVERY answer of the oracles (`basis` returned by LLL,
`cbrt` returned by the float cube root): soundness needs no assumption on them.
-/
import ParanoidModel.Proofs.Factoring
import ParanoidModel.Proofs.RsaChecks
namespace Paranoid.C01
open Paranoid

/-- A reported factor list is *verified* for `n`: exactly two values, their product is `n`
(hence each divides `n`). -/
def Verified (n : Nat) (fs : List Nat) : Prop := ∃ x y, fs = [x, y] ∧ x * y = n

theorem Verified.all_dvd {n fs} (h : Verified n fs) : ∀ f ∈ fs, f ∣ n := by
  obtain ⟨x, y, rfl, rfl⟩ := h
  intro f hf
  simp only [List.mem_cons, List.not_mem_nil, or_false] at hf
  rcases hf with rfl | rfl
  · exact Dvd.intro _ rfl
  · exact Dvd.intro_left _ rfl

/-- FermatFactor: the returned pair multiplies to `n` — for every `n` (even, square, prime,
composite) and every step bound. -/
theorem fermat_sound (n steps p q : Nat) (h : fermatFactor n steps = some (p, q)) :
    p * q = n := fermatFactor_sound n steps p q h

/-- FactorHighAndLowBitsEqual: a returned list is a verified factorisation. -/
theorem hlbe_sound (n middleBits : Nat) (fs : List Nat)
    (h : factorHighAndLowBitsEqual n middleBits = .ok (some fs)) : Verified n fs :=
  Paranoid.hlbe_sound n middleBits fs h

/-- CheckContinuedFraction: a non-empty factor list is `[g, n/g]` with `g ∣ n`, `1 < g < n`,
and then the key is reported weak (`ok = false`). -/
theorem cf_sound (n bound : Nat) (ok : Bool) (fs : List Nat)
    (h : checkContinuedFraction n bound = .ok (ok, fs)) :
    fs = [] ∨ (ok = false ∧ ProperSplit n fs) :=
  cfCheckLoop_sound _ _ _ _ _ _ h

/-- CheckFraction, for EVERY basis the lattice reduction may return. -/
theorem fraction_sound (n : Nat) (basis : List (List Int)) (fs : List Nat)
    (h : checkFraction n basis = .ok fs) : fs = [] ∨ ProperSplit n fs :=
  checkFractionLoop_sound _ _ _ _ h

/-- FactorWithGuess, for every guess and EVERY value of the float cube root. -/
theorem fwg_sound (n p0 cbrt : Nat) (fs : List Nat)
    (h : factorWithGuess n p0 cbrt = .ok (some fs)) : ProperSplit n fs :=
  factorWithGuess_sound n p0 cbrt fs h

/-- CheckSmallUpperDifferences. -/
theorem sud_sound (n cbrt : Nat) (fs : List Nat)
    (h : checkSmallUpperDifferences n cbrt = .ok (some fs)) : ProperSplit n fs := by
  unfold checkSmallUpperDifferences at h
  dsimp only at h
  split at h
  · simp at h
  · exact sudLoop_sound _ _ _ _ h

/-- Pollardpm1, for every `m` and gcd bound: factors only together with `weak = true`. -/
theorem pm1_sound (n m gcdBound : Nat) (w : Bool) (fs : List Nat)
    (h : pollardPm1 n m gcdBound = (w, fs)) : fs = [] ∨ (w = true ∧ ProperSplit n fs) :=
  pollardPm1_sound n m gcdBound w fs h

/-- CheckLowHammingWeight: a reported pair multiplies to `n`, whatever the heap order,
cutoff and step budget. -/
theorem lhw_sound (n cutoff maxsteps : Nat) (w : Bool) (fs : List Nat)
    (h : checkLowHammingWeight n cutoff maxsteps = (w, fs)) :
    fs = [] ∨ (w = true ∧ Verified n fs) := by
  unfold checkLowHammingWeight at h
  simp only at h
  split at h
  · rename_i p0 q0 hm
    simp only [Prod.mk.injEq] at h
    obtain ⟨rfl, rfl⟩ := h
    exact Or.inr ⟨rfl, p0, q0, rfl, lhwMain_sound _ _ _ _ _ _ _ _ hm⟩
  · simp only [Prod.mk.injEq] at h
    exact Or.inl h.2.symm

/-- every element of a `ProperSplit` is a proper divisor. -/
theorem properSplit_proper (n : Nat) (fs : List Nat) (h : ProperSplit n fs) :
    (∀ f ∈ fs, f ∣ n) ∧ (∀ f ∈ fs, 1 < f ∧ f < n) ∧ Verified n fs :=
  ⟨h.all_dvd, h.proper, h.prod⟩


/-! ### Check level: the per-key verdict of every factoring RSA check

`KeyVerdict.Sound n v`: no factors, or (`weak = true` and the factors are `[x, y]` with
`x * y = n`). `SoundProper`: in addition `1 < x < n` (gcd-derived factors). These hold for
EVERY key, every constructor parameter and every oracle (`red` = the LLL answers, `cbrt`). -/

theorem check_fermat (n maxSteps : Nat) : (vFermat n maxSteps).Sound n := vFermat_sound n maxSteps

theorem check_hlbe (n mb : Nat) (v : KeyVerdict) (h : vHlbe n mb = .ok v) : v.Sound n :=
  vHlbe_sound n mb v h

theorem check_cf (n bound : Nat) (v : KeyVerdict) (h : vCf n bound = .ok v) : v.SoundProper n :=
  vCf_sound n bound v h

theorem check_bitPatterns (n : Nat) (ps : List Nat) (red : Nat → List (List Int)) (v : KeyVerdict)
    (h : vBitPatterns n ps red = .ok v) : v.SoundProper n :=
  bitPatternsLoop_sound _ _ _ _ _ h

theorem check_permuted (n : Nat) (red : Nat → List (List Int)) (v : KeyVerdict)
    (h : vPermuted n red = .ok v) : v.SoundProper n :=
  permutedOuter_sound _ _ _ _ _ h

theorem check_pollard (n m gb : Nat) : (vPollard n m gb).SoundProper n := vPollard_sound n m gb

theorem check_lhw (n cutoff maxsteps : Nat) : (vLhw n cutoff maxsteps).Sound n :=
  vLhw_sound n cutoff maxsteps

theorem check_sud (n cbrt : Nat) (v : KeyVerdict) (h : vSud n cbrt = .ok v) : v.SoundProper n :=
  vSud_sound n cbrt v h

theorem check_unseeded (n cbrt : Nat) (cands : List Nat) (v : KeyVerdict)
    (h : vUnseeded n cbrt cands = .ok v) : v.SoundProper n :=
  unseededLoop_sound _ _ _ _ h

/-- every recorded value divides the modulus (the one-division verification of C01). -/
theorem sound_all_dvd (n : Nat) (v : KeyVerdict) (h : v.Sound n) : ∀ f ∈ v.factors, f ∣ n :=
  h.all_dvd

/-- factors are attached only together with the weak verdict. -/
theorem factors_imply_weak (n : Nat) (v : KeyVerdict) (h : v.Sound n) (hf : v.factors ≠ []) :
    v.weak = true := by
  rcases h with h | ⟨hw, _⟩
  · exact absurd h hf
  · exact hw

/-! Non-vacuity: the hypotheses are met by concrete non-trivial inputs. -/
example : fermatFactor 8633 10 = some (97, 89) := by decide +kernel
example : (pollardPm1 (1009 * 2003) 5040 1).2 ≠ [] := by decide +kernel

end Paranoid.C01
