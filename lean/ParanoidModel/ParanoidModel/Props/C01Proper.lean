/-
Props/C01Proper.lean — C01, last clause: "… at least one recorded value is a proper divisor unless
the modulus itself divides another modulus of the same batch", for the three factoring checks
whose result is NOT guarded by `1 < g < n` (CheckFermat, CheckHighAndLowBitsEqual,
CheckLowHammingWeight), and then for the whole entry point `CheckAllRSA`.
Property theorems only; helper lemmas live in Proofs/Proper.lean and Proofs/ProperAll.lean.

Summary of what holds under which parameter bound:
 * FactorHighAndLowBitsEqual, CheckLowHammingWeight: the returned pair is ALWAYS proper
   (every `n`, every constructor parameter) — `hlbe_proper`, `lhw_proper`.
 * FermatFactor: proper iff the step bound stays below `(n + 1) / 2 − ⌊√n⌋` (odd non-square `n`):
   `fermat_proper` (sufficient), `fermat_trivial_for_huge_bound` (for odd primes the pair is
   `(n, 1)` as soon as the bound is reached), `fermat_proper_default` (the default 100000, and
   any bound `≤ 2^61`, on moduli `≥ 2^63`), `fermat_proper_fails` (the clause quantified over
   EVERY step bound is false, on a 64-bit modulus).
 * `CheckAllRSA`: `checkAllRSA_factors_proper` — the full clause for every check, under the
   Fermat bound and the hypothesis that the keypair generator oracle answers values above 1;
   `properClause_bounded` (Fermat bound `≤ 2^61`, e.g. the default); `properClause_fails`:
   `RsaAll.ProperClause` as stated in Props/C16RsaAll (every constructor parameter) is FALSE.
-/
import ParanoidModel.Proofs.Proper
import ParanoidModel.Proofs.ProperAll
import ParanoidModel.Props.C16RsaAll
namespace Paranoid.C01Proper
open Paranoid Paranoid.RsaAll

/-! ## FermatFactor -/

/-- ★ FermatFactor on an odd non-square `n` with `steps + ⌊√n⌋ < (n + 1) / 2`: the returned pair
is proper. The loop at step `k` tests `a = ⌈√n⌉ + k`; the pair is `(a + b, a − b)` with
`a² − b² = n`, and `a − b = 1` forces `a = (n + 1) / 2`, beyond the range reached. -/
theorem fermat_proper_odd (n steps p q : Nat) (hodd : n % 2 = 1)
    (hns : Nat.sqrt n * Nat.sqrt n ≠ n) (hb : steps + Nat.sqrt n < (n + 1) / 2)
    (h : fermatFactor n steps = some (p, q)) : 1 < q ∧ q < n ∧ 1 < p ∧ p < n :=
  fermatFactor_proper_odd n steps p q hodd hb hns h

/-- ★ FermatFactor, all three branches, `n ≥ 4`: even `n` gives `(2, n / 2)`, a square `n = a²`
gives `(a, a)`, an odd non-square `n` needs the bound on the steps (only then). -/
theorem fermat_proper (n steps p q : Nat) (hn : 4 ≤ n)
    (hb : n % 2 = 1 → steps + Nat.sqrt n < (n + 1) / 2)
    (h : fermatFactor n steps = some (p, q)) : 1 < q ∧ q < n ∧ 1 < p ∧ p < n :=
  fermatFactor_proper n steps p q hn hb h

/-- every step bound up to `2^61` is below `(n + 1) / 2 − ⌊√n⌋` on moduli of 64 bits or more. -/
theorem fermat_bound_ok (n steps : Nat) (hn : 2 ^ 63 ≤ n) (hs : steps ≤ 2 ^ 61) :
    steps + Nat.sqrt n < (n + 1) / 2 := fermat_bound_of_big n steps hn hs

/-- ★ the default constructor parameter of CheckFermat (regenerated `Consts.fermatMaxSteps`,
100000) on every modulus `n ≥ 2^63`: the returned pair is proper. -/
theorem fermat_proper_default (n p q : Nat) (hn : 2 ^ 63 ≤ n)
    (h : fermatFactor n Consts.fermatMaxSteps = some (p, q)) : 1 < q ∧ q < n ∧ 1 < p ∧ p < n :=
  fermatFactor_proper n _ p q (by omega)
    (fun _ => fermat_bound_of_big n _ hn (by decide)) h

/-- ★ the converse (sharpness): for an odd prime `n` and a step bound that reaches
`(n + 1) / 2`, i.e. `steps ≥ (n + 1) / 2 − ⌊√n⌋`, FermatFactor returns `(n, 1)`. -/
theorem fermat_trivial_for_huge_bound (n steps : Nat) (hp : n.Prime) (hodd : n % 2 = 1)
    (hs : (n + 1) / 2 ≤ Nat.sqrt n + steps) : fermatFactor n steps = some (n, 1) :=
  fermatFactor_trivial_of_huge_bound n steps hp hodd hs

/-- the proper-divisor clause for FermatFactor quantified over EVERY step bound. -/
def FermatProperAnyBound : Prop :=
  ∀ n steps p q : Nat, 2 ^ 63 ≤ n → fermatFactor n steps = some (p, q) → 1 < q ∧ q < n

/-- ★ … is false: on the 64-bit prime `9223372036854780611` (kernel-certified) a step bound of
`n` returns `(n, 1)`. The clause holds exactly under the bound of `fermat_proper`. -/
theorem fermat_proper_fails : ¬ FermatProperAnyBound := by
  intro hcl
  have h := fermatFactor_trivial_of_huge_bound bigPrime bigPrime bigPrime_prime (by decide)
    (by unfold bigPrime; omega)
  exact absurd (hcl bigPrime bigPrime bigPrime 1 (by decide) h).1 (by decide)

/-- a small evaluated instance of the same: `FermatFactor(7, 2) = (7, 1)`. -/
theorem fermat_trivial_small : fermatFactor 7 2 = some (7, 1) := by decide +kernel

/-! ## FactorHighAndLowBitsEqual -/

/-- ★ FactorHighAndLowBitsEqual never returns the trivial split, for EVERY `n` and every
`middle_bits`: the returned pair is `(s − d, s + d)` with `s² − d² = n`, the walk adds at most
`2^i` at bit `i < k = (bitLength n + 1) / 2`, so `s < ⌈√n⌉ + 2^k ≤ (n + 1) / 2` (for every `n`
that passes the guards `bitLength n ≥ 6`, `n ≡ 1 mod 8`), while `s − d = 1` needs
`s = (n + 1) / 2`. -/
theorem hlbe_proper (n middleBits x y : Nat)
    (h : factorHighAndLowBitsEqual n middleBits = .ok (some [x, y])) :
    1 < x ∧ x < n ∧ 1 < y ∧ y < n :=
  Paranoid.hlbe_proper n middleBits x y h

/-! ## CheckLowHammingWeight -/

/-- ★ CheckLowHammingWeight never reports the trivial split, for EVERY `n`, cutoff and step
budget: every heap entry has `p, q ≥ 1` (the search starts from `p = q = 1`) and a pair is only
reported after both were doubled, `(2p + dp, 2q + dq)`. -/
theorem lhw_proper (n cutoff maxsteps : Nat) (w : Bool) (p0 q0 : Nat)
    (h : checkLowHammingWeight n cutoff maxsteps = (w, [p0, q0])) :
    1 < p0 ∧ p0 < n ∧ 1 < q0 ∧ q0 < n :=
  Paranoid.lhw_proper n cutoff maxsteps w p0 q0 h

/-! ## the per-key verdicts -/

/-- CheckFermat: every recorded factor `f` has `1 < f < n`. -/
theorem check_fermat_proper (n maxSteps : Nat) (hn : 4 ≤ n)
    (hb : n % 2 = 1 → maxSteps + Nat.sqrt n < (n + 1) / 2) : (vFermat n maxSteps).Proper n :=
  vFermat_proper n maxSteps hn hb

/-- CheckHighAndLowBitsEqual: every recorded factor `f` has `1 < f < n`. -/
theorem check_hlbe_proper (n mb : Nat) (v : KeyVerdict) (h : vHlbe n mb = .ok v) : v.Proper n :=
  vHlbe_proper n mb v h

/-- CheckLowHammingWeight: every recorded factor `f` has `1 < f < n`. -/
theorem check_lhw_proper (n cutoff maxsteps : Nat) : (vLhw n cutoff maxsteps).Proper n :=
  vLhw_proper n cutoff maxsteps

/-- ★ the three verdicts together, on a modulus `n ≥ 2^63` with a Fermat bound `≤ 2^61` (the
default is 100000): non-empty factors ⇒ every factor `f` has `1 < f < n`. -/
theorem verdict_proper (n : Nat) (hn : 2 ^ 63 ≤ n) (fermatSteps mb cutoff maxsteps : Nat)
    (hs : fermatSteps ≤ 2 ^ 61) :
    (vFermat n fermatSteps).Proper n ∧
    (∀ v, vHlbe n mb = .ok v → v.Proper n) ∧
    (vLhw n cutoff maxsteps).Proper n :=
  ⟨vFermat_proper n _ (by omega) (fun _ => fermat_bound_of_big n _ hn hs),
   fun v h => vHlbe_proper n mb v h, vLhw_proper n cutoff maxsteps⟩

/-- together with C01 `check_*` (`x * y = n`): proper ⇒ the first recorded value is a proper
divisor. -/
theorem proper_divides (n : Nat) (v : KeyVerdict) (hs : v.Sound n) (hp : v.Proper n)
    (hne : v.factors ≠ []) : ∃ f ∈ v.factors, f ∣ n ∧ 1 < f ∧ f < n := by
  cases hfs : v.factors with
  | nil => exact absurd hfs hne
  | cons f rest =>
    have hmem : f ∈ v.factors := by rw [hfs]; exact List.mem_cons_self
    exact ⟨f, List.mem_cons_self, hs.all_dvd f hmem, hp f hmem⟩

/-! ## `CheckAllRSA` end to end -/

/-- ★ the proper-divisor clause of C01 for the entry point, EVERY check: after `CheckAllRSA` on
fresh keys, whenever N_FACTORS is recorded for key `i` (modulus `n`), the record contains a value
`x` with `1 < x < n` (a divisor of `n` by `RsaAll.checkAllRSA_factors_sound`) — unless `n` divides
another, different modulus of the batch (possible for CheckGCD only).  Hypotheses: the Fermat
step bound is below `(n + 1) / 2 − ⌊√n⌋` for every odd modulus of the batch (necessary:
`properClause_fails`), and the keypair-generator oracle answers values above 1 (necessary:
`RsaAll.properClause_needs_generator`).  Moduli are `≥ 2^63` because the entry point returned
(`RsaAll.checkAllRSA_needs_64_bits`). -/
theorem checkAllRSA_factors_proper (orc : RsaOracles) (keys : List RsaKey)
    (arts' : List Artifact) (r : Bool)
    (hgen : ∀ i seed bits, 1 < (orc.keypairGen i seed bits).1 ∧ 1 < (orc.keypairGen i seed bits).2)
    (hfer : ∀ k ∈ keys, k.n % 2 = 1 → orc.fermatMaxSteps + Nat.sqrt k.n < (k.n + 1) / 2)
    (h : checkAllRSAFull orc keys = .ok (arts', r))
    (i : Nat) (k : RsaKey) (a' : Artifact) (hk : keys[i]? = some k) (ha' : arts'[i]? = some a')
    (s : List Int) (hs : getAttachedFactors a'.info nFactors = .ok (some s)) :
    (∃ x ∈ s, 1 < x ∧ x < (k.n : Int)) ∨ ∃ m ∈ keys.map (·.n), m ≠ k.n ∧ k.n ∣ m := by
  have hi : i < keys.length := (List.getElem?_eq_some_iff.1 hk).1
  have hkmem : k ∈ keys := List.mem_of_getElem? hk
  have hbig := checkAllRSA_needs_64_bits orc keys arts' r h
  have hbig2 : ∀ k ∈ keys, 2 ≤ k.n := fun k hk => by have := hbig k hk; omega
  obtain ⟨fn, hfn, hmem, hex⟩ := attached_nFactors h i a' ha' hi
  rw [hs] at hfn
  cases hfn
  obtain ⟨c, v, fs, _, hv, hp, hf⟩ := hex (by simp)
  have hne : fs ≠ [] := ((rsaVerdict_sound hbig2 hk hv).sound _ fs hf).2.1
  have hprop := rsaVerdict_proper_all hbig2 hk (by have := hbig k hkmem; omega)
    (hfer k hkmem) (hgen i) hv
  rcases hprop fs hf with ⟨x, hx, h1, h2⟩ | hnest
  · obtain ⟨s', hs', hxs⟩ := (hmem x).2 ⟨c, v, ‹_›, hv, hp, fs, hf, hx⟩
    cases hs'
    exact Or.inl ⟨x, hxs, h1, h2⟩
  · exact Or.inr hnest

/-- `RsaAll.ProperClause` with the one additional hypothesis it needs: a Fermat step bound of at
most `2^61` (the default is 100000). -/
def ProperClauseBounded : Prop :=
  ∀ (orc : RsaOracles) (keys : List RsaKey) (arts' : List Artifact) (r : Bool),
    orc.fermatMaxSteps ≤ 2 ^ 61 →
    (∀ i seed bits, 1 < (orc.keypairGen i seed bits).1 ∧ 1 < (orc.keypairGen i seed bits).2) →
    checkAllRSAFull orc keys = .ok (arts', r) →
    ∀ (i : Nat) (k : RsaKey) (a' : Artifact), keys[i]? = some k → arts'[i]? = some a' →
      ∀ s, getAttachedFactors a'.info nFactors = .ok (some s) →
        (∃ x ∈ s, 1 < x ∧ x < (k.n : Int)) ∨ ∃ m ∈ keys.map (·.n), m ≠ k.n ∧ k.n ∣ m

/-- ★ the full proper-divisor clause of C01 for `CheckAllRSA`, every Fermat bound `≤ 2^61`. -/
theorem properClause_bounded : ProperClauseBounded := by
  intro orc keys arts' r hb hgen h i k a' hk ha' s hs
  have hbig := checkAllRSA_needs_64_bits orc keys arts' r h
  exact checkAllRSA_factors_proper orc keys arts' r hgen
    (fun k hk _ => fermat_bound_of_big k.n _ (hbig k hk) hb) h i k a' hk ha' s hs

/-- the regenerated default of CheckFermat satisfies the bound. -/
theorem default_fermat_bound : Consts.fermatMaxSteps ≤ 2 ^ 61 := by decide

/-- the witness of `properClause_fails`: the example oracles of Props/C16RsaAll with a Fermat step
bound of `bigPrime` and a generator that answers `(2, 2)` (never consulted: empty table). -/
def orcHugeFermat : RsaOracles :=
  { orcEx with fermatMaxSteps := bigPrime, keypairGen := fun _ _ _ => (2, 2) }

/-- one key whose modulus is the 64-bit prime `bigPrime`. -/
def keysOnePrime : List RsaKey := [⟨bigPrime, 65537⟩]

/-- the witness is well-formed input: the entry point returns on it (`checkAllRSA_total`). -/
theorem hugeFermat_wf : WF orcHugeFermat keysOnePrime where
  big := by decide
  red := fun i d row h => by simp [orcHugeFermat, orcEx] at h
  unseeded := fun i c h => by simp [orcHugeFermat, orcEx] at h
  table := fun p h => by simp [orcHugeFermat, orcEx] at h

/-- ★ `RsaAll.ProperClause` as stated in Props/C16RsaAll — quantified over EVERY constructor
parameter — is FALSE: with a Fermat step bound of `n` on the single 64-bit prime modulus
`n = 9223372036854780611`, CheckFermat records `{n, 1}`, nothing else can be recorded (every
recorded value divides `n`), and the batch has no other modulus. The clause holds exactly under
the parameter bound of `checkAllRSA_factors_proper`. -/
theorem properClause_fails : ¬ RsaAll.ProperClause := by
  intro hcl
  obtain ⟨arts', r, hrun⟩ := checkAllRSA_total orcHugeFermat keysOnePrime hugeFermat_wf
  have hlen := (checkAllRSA_entries orcHugeFermat keysOnePrime arts' r hrun).1
  have hk : keysOnePrime[0]? = some ⟨bigPrime, 65537⟩ := rfl
  obtain ⟨a', ha'⟩ : ∃ a', arts'[0]? = some a' :=
    ⟨arts'[0]'(by rw [hlen]; decide), List.getElem?_eq_getElem _⟩
  obtain ⟨fn, hfn, hmem, _⟩ := attached_nFactors hrun 0 a' ha' (by decide)
  -- CheckFermat records (n, 1)
  have hf : fermatFactor bigPrime bigPrime = some (bigPrime, 1) :=
    fermatFactor_trivial_of_huge_bound bigPrime bigPrime bigPrime_prime (by decide)
      (by unfold bigPrime; omega)
  obtain ⟨v, hv, hpos, hfac⟩ := fermat_records (orc := orcHugeFermat) (n := bigPrime) (s := bigPrime)
    (p := bigPrime) (q := 1) hk rfl rfl hf
  have hc : ∃ c ∈ rsaAll, c.name = "CheckFermat" := by decide +kernel
  obtain ⟨c, hc, hname⟩ := hc
  have hin : MemO (bigPrime : Int) fn :=
    (hmem _).2 ⟨c, v, hc, hname ▸ hv, hpos, _, hfac, List.mem_cons_self⟩
  obtain ⟨s, rfl, _⟩ := hin
  obtain ⟨fn', _, hfn', _, hdvd, _⟩ :=
    checkAllRSA_factors_sound orcHugeFermat keysOnePrime arts' r hrun 0 _ a' hk ha'
  rw [hfn] at hfn'
  cases hfn'
  have hgen : ∀ i seed bits, 1 < (orcHugeFermat.keypairGen i seed bits).1 ∧
      1 < (orcHugeFermat.keypairGen i seed bits).2 :=
    fun _ _ _ => (by decide : (1 : Nat) < 2 ∧ (1 : Nat) < 2)
  rcases hcl orcHugeFermat keysOnePrime arts' r hgen hrun 0 _ a' hk ha' s hfn with ⟨x, hx, h1, h2⟩ | ⟨m, hm, hne, _⟩
  · obtain ⟨d, rfl, hd⟩ := hdvd x ⟨s, rfl, hx⟩
    rcases (Nat.dvd_prime bigPrime_prime).mp hd with rfl | rfl
    · exact absurd h1 (by decide)
    · exact absurd h2 (by simp)
  · simp only [keysOnePrime, List.map_cons, List.map_nil, List.mem_cons, List.not_mem_nil,
      or_false] at hm
    exact hne hm

/-! ## Non-vacuity: the hypotheses are met by concrete non-trivial inputs -/

/-- `fermat_proper` on `89 · 97`: one step, `1 + ⌊√8633⌋ < 4317`. -/
example : fermatFactor (89 * 97) 1 = some (97, 89) ∧ (89 * 97) % 2 = 1 ∧
    Nat.sqrt (89 * 97) * Nat.sqrt (89 * 97) ≠ 89 * 97 ∧
    1 + Nat.sqrt (89 * 97) < (89 * 97 + 1) / 2 := by decide +kernel

/-- the even and the square branch. -/
example : fermatFactor 10 0 = some (2, 5) ∧ fermatFactor 49 0 = some (7, 7) := by decide +kernel

/-- `fermat_proper_default` on a 65-bit product of two close 33-bit primes. -/
example : 2 ^ 63 ≤ 4294967311 * 4294968317 ∧
    fermatFactor (4294967311 * 4294968317) Consts.fermatMaxSteps =
      some (4294968317, 4294967311) := by decide +kernel

/-- `fermat_trivial_for_huge_bound` on `n = 13`: `(13 + 1) / 2 = 7 ≤ 3 + 4`, and one step less
finds nothing. -/
example : Nat.Prime 13 ∧ (13 + 1) / 2 ≤ Nat.sqrt 13 + 4 ∧ fermatFactor 13 4 = some (13, 1) ∧
    fermatFactor 13 3 = none := by
  refine ⟨by norm_num, by decide +kernel, by decide +kernel, by decide +kernel⟩

/-- `hlbe_proper`: a run that returns factors. -/
example : factorHighAndLowBitsEqual (521 * 809) 3 = .ok (some [521, 809]) := by decide +kernel

/-- `lhw_proper`: a run that returns factors. -/
example : checkLowHammingWeight ((2 ^ 32 + 2 ^ 3 + 1) * (2 ^ 32 + 2 ^ 7 + 1)) 2500 100000 =
    (true, [4294967305, 4294967425]) := by decide +kernel

/-- `verdict_proper` / `proper_divides`: a non-empty verdict of each of the three checks. -/
example : (vFermat (4294967311 * 4294968317) Consts.fermatMaxSteps).factors =
      [4294968317, 4294967311] ∧
    (vHlbe (521 * 809) 3).toOption.map (·.factors) = some [521, 809] ∧
    (vLhw ((2 ^ 32 + 2 ^ 3 + 1) * (2 ^ 32 + 2 ^ 7 + 1)) 2500 100000).factors =
      [4294967305, 4294967425] := by
  refine ⟨by decide +kernel, by decide +kernel, by decide +kernel⟩

/-- `checkAllRSA_factors_proper` / `properClause_bounded`: the run of Props/C16RsaAll (`orcEx`
with a generator that answers `(2, 2)`, Fermat bound 50) returns and records N_FACTORS for both
keys. -/
example : (50 : Nat) ≤ 2 ^ 61 ∧
    (checkAllRSAFull { orcEx with keypairGen := fun _ _ _ => (2, 2) } keysEx).toOption.map
      (fun p => p.1.map fun a => getAttachedFactors a.info nFactors) =
    some [.ok (some [4294967311, 4294968317]), .ok (some [4294967311, 4295967341])] := by
  refine ⟨by decide, by decide +kernel⟩

end Paranoid.C01Proper
