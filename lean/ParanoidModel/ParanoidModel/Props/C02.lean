/-
Props/C02.lean — "Every discrete log or key relation reported for an EC key or signer is true".

The four clauses of the property, each as a theorem about the executable model (statements
over Mathlib's group `(W c).Point` through `toPoint`; primality of the field prime is the
standing hypothesis `[Fact c.p.Prime]` of the curve-generic statements — for the nine curves of
`CURVE_FACTORY` it is kernel-checked (Props/C11Primes) and the hypothesis-free instances are in
Props/C02Cert.lean):

 1. EC keys, small logs (`BatchDL`): every reported value multiplies the generator to the point.
 2. EC keys, structured private keys (`ExtendedBatchDL`, CheckWeakECPrivateKey): for an on-curve
    point with `n • P = 0` the recorded value is a true discrete log; the hypothesis is needed
    (`C10.extended_needs_subgroup`).  NOTE: on the nine cofactor-1 curves "valid point"
    (`IsValidPublicKey`: on the curve, in range) gives `n • P = 0` only together with
    `#E(F_p) = n`, a fact of the standards that is NOT proved here; for points WITH A PRIVATE KEY
    (`P = d • G`, the quantifier of the property) it follows from `n • G = 0`:
    `extendedBatchDL_sound_of_privateKey`, Props/C02Cert.lean.
 3. Small private-key differences: the recorded relation `key - (x, y) = k*G` holds for the
    recorded point and `k`, and the mirrored entry with `-k`.
 4. ECDSA nonce checks: an issuer dlog `d` is recorded for a signature only if
    `BatchMultiplyG([d])` equals that signature's own issuer key tuple; a signature is marked
    weak only together with such a verifiable key — for EVERY list of guesses the lattice
    solvers may return (LLL noise included).
-/
import ParanoidModel.Props.C10
import ParanoidModel.Props.C02S
namespace Paranoid.C02
open Paranoid Paranoid.Ec Paranoid.Bsgs Paranoid.EcdsaChecks WeierstrassCurve

section curve
variable (c : Curve) [Fact (Nat.Prime c.p)]

/-- clause 1: `BatchDL` — every `some v` entry satisfies `v • G = P` (both sign branches), for
every cached state, bound and float-oracle values. -/
theorem batchDL_sound (hv : ValidCurve c) (st : EcState) (points : List Pt) (n ts m : Nat)
    (res : List (Option Int)) (st' : EcState) (h : batchDL c st points n ts m = .ok (res, st')) :
    List.Forall₂ (fun P r => ∀ v, r = some v → v • Gp c = toPoint c P) points res :=
  C10.batchDL_sound c hv st points n ts m res st' h

/-- clause 2: `ExtendedBatchDL` — for an on-curve point of the subgroup the recorded value is a
discrete log of the point. -/
theorem extendedBatchDL_sound (hv : ValidCurve c) (hn : 2 ≤ c.n) (st : EcState) (points : List Pt)
    (ts m : Nat) (res : List (Option Int)) (st' : EcState)
    (h : extendedBatchDL c st points ts m = .ok (res, st'))
    (i : Nat) (P : Pt) (v : Int) (hP : points[i]? = some P) (hon : onCurve c P = true)
    (hN : c.n • toPoint c P = 0) (hres : res[i]? = some (some v)) : v • Gp c = toPoint c P :=
  C10.extendedBatchDL_sound c hv hn st points ts m res st' h i P v hP hon hN hres

/-- clause 3: `BatchDLOfDifferences` — a recorded relation `(Q, k)` names another key `Q` of the
call, different from `P`, with `P - Q = k • G`. -/
theorem diff_sound (hv : ValidCurve c) (st : EcState) (points other : List Pt)
    (hL : ∀ Q ∈ other ++ points, onCurve c Q = true) (maxDiff m : Nat)
    (res : List (Option Rel)) (st' : EcState)
    (h : batchDLOfDifferences c st points other maxDiff m = .ok (res, st'))
    (i : Nat) (r : Rel) (hr : res[i]? = some (some r)) :
    ∃ P j Q, points[i]? = some P ∧ (other ++ points)[j]? = some Q ∧ j ≠ other.length + i ∧
      onCurve c (.aff r.qx r.qy) = true ∧ toPoint c (.aff r.qx r.qy) = toPoint c Q ∧
      toPoint c P - toPoint c Q = r.dl • Gp c ∧ toPoint c P ≠ toPoint c Q :=
  C10.diff_sound c hv st points other hL maxDiff m res st' h i r hr

/-- clause 4a: `_IssuerDLogs` — for EVERY guess list, an index gets `d` only if its own issuer
key tuple lies on the curve and is the point `(d mod n) • G`. -/
theorem issuerDLogs_sound (hc : c.Good) (hG : onCurve c c.g = true) (hn : 0 < c.n)
    (cache : Cache) (hcache : CacheOK c cache) (gs : List Int) (pks : Pks) (dl : DLogs) (cache' : Cache)
    (h : issuerDLogs c cache gs pks = .ok (dl, cache')) (i : Nat) (d : Int) (hd : dl.get? i = some d) :
    d ∈ gs ∧ ∃ k l, pks.get? k = some l ∧ i ∈ l ∧
      onCurve c (.aff (k.1 : Int) (k.2 : Int)) = true ∧
      toPoint c (.aff (k.1 : Int) (k.2 : Int)) = (d % (c.n : Int)).toNat • toPoint c c.g :=
  C02S.issuerDLogs_sound c hc hG hn cache hcache gs pks dl cache' h i d hd

end curve

/-- clause 4b: no nonce check (MSB, common prefix / postfix, generalized, both LCG checks, U2F)
marks a signature weak without a verifiable private key of ITS OWN issuer key. -/
theorem weak_only_with_key (k : Kind) (O : Nat → GroupOracle) (factory : EcdsaChecks.Factory) (arts : List Sig)
    (res : CheckResult) (hF : FactoryOK factory) (hnd : (factory.map Prod.fst).Nodup)
    (h : check k O factory arts = .ok res) (bi : Nat) (v : Verdict)
    (hv : verdictOf res.writes bi = some v) :
    ∃ s obj, arts[bi]? = some s ∧ (s.curve, some obj) ∈ factory ∧
      (v = negVerdict ∨
        ∃ d, v = posVerdict d ∧ d ∈ (O s.curve).guessList ∧ KeyOf obj.curve s.key d) :=
  C02S.weak_only_with_key k O factory arts res hF hnd h bi v hv

end Paranoid.C02
