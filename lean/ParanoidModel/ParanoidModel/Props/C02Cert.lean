/-
Props/C02Cert.lean — C02 ("every recorded discrete log is true") WITHOUT the two hypotheses the
statements of Props/C02.lean / Props/C02S.lean still carry for the nine curves of `CURVE_FACTORY`:

* primality of the field moduli (`[Fact c.p.Prime]`, `hprime` of `C02S.namedFactory_ok`): it is
  kernel-checked (Pratt certificates, Props/C11Primes.lean) — `namedFactory_ok_certified`,
  `extendedBatchDL_sound_named`;
* `n • P = ∞` for the key (`hN` of `C02.extendedBatchDL_sound`): for a key that HAS a private key,
  `P = d • G` for some integer `d` — the quantifier of the property, "valid points with arbitrary
  private keys" — it follows from `n • G = ∞` (evaluated `paramsOK`, C11) —
  `extendedBatchDL_sound_of_privateKey`.

What is NOT proved: that EVERY point accepted by `IsValidPublicKey` on one of the nine (cofactor 1)
curves satisfies `n • P = ∞`.  That is `#E(F_p) = n` for the nine named curves — a fact of the
standards (SEC 2, RFC 5639) that needs point counting, which Mathlib does not have.  For such a
point (if one existed) the general statement `C02.extendedBatchDL_sound` keeps the hypothesis;
`C10.extended_needs_subgroup` shows on a cofactor-4 curve that the recorded value can be wrong
without it.
-/
import ParanoidModel.Props.C02
import ParanoidModel.Proofs.EcPrivKey
import ParanoidModel.Proofs.EcAllPrimes
namespace Paranoid.C02
open Paranoid Paranoid.Ec Paranoid.Bsgs Paranoid.EcdsaChecks WeierstrassCurve

/-- ★ `CURVE_FACTORY` of the current tree (fresh caches) satisfies `FactoryOK`, `FactoryReduced` and
has distinct ids — NO hypothesis (`C02S.namedFactory_ok` with its premise discharged by the Pratt
certificates of Props/C11Primes.lean).  With `C02S.check_preserves` this gives the hypothesis `hF`
of `weak_only_with_key` / `issuerDLogs_sound` for every state of the curve objects reachable by
nonce checks in one process. -/
theorem namedFactory_ok_certified :
    FactoryOK namedFactory ∧ FactoryReduced namedFactory ∧ (namedFactory.map Prod.fst).Nodup :=
  C02S.namedFactory_ok EcAll.named_primes

section curve
variable (c : Curve) [Fact (Nat.Prime c.p)]

/-- ★ clause 2 for keys with a private key.  `ExtendedBatchDL` on a valid curve object with
`n • G = ∞`, any state, oracle values and neighbours: if the point at position `i` is on the curve
and `P = d • G` for SOME integer `d` (no range condition), the recorded value `v` satisfies
`v • G = P`; when `G` has order exactly `n`, `v ≡ d (mod n)`. -/
theorem extendedBatchDL_sound_of_privateKey (hv : ValidCurve c) (hn : 2 ≤ c.n)
    (hNG : c.n • Gp c = 0) (st : EcState) (points : List Pt)
    (ts m : Nat) (res : List (Option Int)) (st' : EcState)
    (h : extendedBatchDL c st points ts m = .ok (res, st'))
    (i : Nat) (P : Pt) (v d : Int) (hP : points[i]? = some P) (hon : onCurve c P = true)
    (hd : toPoint c P = d • Gp c) (hres : res[i]? = some (some v)) :
    v • Gp c = toPoint c P ∧ (addOrderOf (Gp c) = c.n → (v - d) % (c.n : Int) = 0) := by
  have hs := extendedBatchDLB_sound_priv c hv.good hv.gOn hn hNG (2 ^ 32) st points ts m res st' h
    i P v d hP hon hd hres
  exact ⟨hs, fun hord => dlog_congr c hord hs hd⟩

end curve

/-- the nine curve objects of `CURVE_FACTORY`. -/
def namedCurves : List Curve :=
  [secp256r1, secp384r1, secp192r1, secp224r1, secp521r1, secp256k1, brainpoolP256r1,
   brainpoolP384r1, brainpoolP512r1]

/-- ★ clauses 1 and 2 on the nine named curves, NO hypothesis on the curve: for every curve object
of `CURVE_FACTORY`, every state, point list and oracle value,
* `BatchDL`: every reported `v` satisfies `v • G = P`;
* `ExtendedBatchDL`: the value `v` recorded for an on-curve key `P = d • G` (any integer `d`)
  satisfies `v • G = P` and `v ≡ d (mod n)`. -/
theorem dlogs_sound_named (c : Curve) (hc : c ∈ namedCurves) :
    haveI : Fact (Nat.Prime c.p) := ⟨EcAll.named_primes c hc⟩
    (∀ (st : EcState) (points : List Pt) (n ts m : Nat) (res : List (Option Int)) (st' : EcState),
      batchDL c st points n ts m = .ok (res, st') →
      List.Forall₂ (fun P r => ∀ v, r = some v → v • Gp c = toPoint c P) points res) ∧
    (∀ (st : EcState) (points : List Pt) (ts m : Nat) (res : List (Option Int)) (st' : EcState),
      extendedBatchDL c st points ts m = .ok (res, st') →
      ∀ (i : Nat) (P : Pt) (v d : Int), points[i]? = some P → onCurve c P = true →
        toPoint c P = d • Gp c → res[i]? = some (some v) →
        v • Gp c = toPoint c P ∧ (v - d) % (c.n : Int) = 0) := by
  haveI : Fact (Nat.Prime c.p) := ⟨EcAll.named_primes c hc⟩
  have hmem : c ∈ EcAll.ecFactory.filterMap (·.curve) := by rw [EcAll.ecFactory_curves]; exact hc
  obtain ⟨e, he, hcur⟩ := List.mem_filterMap.1 hmem
  have hch := EcAll.ecFactory_curveHyp e he c hcur
  obtain ⟨hv, hn, hNG, hord⟩ := C10.valid_of_paramsOK c hch.params
  refine ⟨fun st points n ts m res st' h => batchDL_sound c hv st points n ts m res st' h, ?_⟩
  intro st points ts m res st' h i P v d hP hon hd hres
  obtain ⟨h1, h2⟩ := extendedBatchDL_sound_of_privateKey c hv hn hNG st points ts m res st' h i P v
    d hP hon hd hres
  exact ⟨h1, h2 (hord (EcAll.named_orders_prime c hc))⟩

/-! ### non-vacuity -/

/-- the hypotheses of `extendedBatchDL_sound_of_privateKey` are met on secp256r1 by the key
`P = 5 • G` (kernel-evaluated scalar multiplication; `toPoint` of the result through
`C11.multiply_nsmul`).  This shows the point hypotheses only; an `.ok` RUN of `BatchDL` on secp256r1 with
recorded logs, to which `dlogs_sound_named` is applied, is in Props/C02CertEx.lean (second review, L7). -/
example : secp256r1 ∈ namedCurves ∧ onCurve secp256r1 secp256r1.g = true ∧
    (multiply secp256r1 secp256r1.g 5).toOption.map (onCurve secp256r1) = some true := by
  decide +kernel

end Paranoid.C02
