/-
Props/C02CertEx.lean — non-vacuity of `C02.dlogs_sound_named` with an `.ok` RUN and a RECORDED LOG
(second review, L7: the example in Props/C02Cert.lean only shows `5 • G` on the curve).

`BatchDL([5•G, 13•G, 100•G], 16)` on secp256r1 with a fresh table, kernel-evaluated, with the float values of
the real call (`int(math.sqrt(16·3)) = 6`, `int(math.sqrt(6)) = 2`): the run returns, records 5 and 13 and
nothing for 100 (outside the range) — as the real code does (`c.BatchDL(pts, 16) = [5, 13, None]`,
/repo HEAD, CURVE_SECP256R1) — and `dlogs_sound_named` applied to THIS run yields `5 • G = P`.
-/
import ParanoidModel.Props.C02Cert
namespace Paranoid.C02CertEx
open Paranoid Paranoid.Ec Paranoid.Bsgs Paranoid.C02 WeierstrassCurve

def P5 : Pt := .aff 36794669340896883012101473439538929759152396476648692591795318194054580155373
  101659946828913883886577915207667153874746613498030835602133042203824767462820
def P13 : Pt := .aff 10623191994993397449217730442198332685419647040822028787120372345201232391169
  45109985299617300571846506882481132822837374452436097494820998411881657384920
def P100 : Pt := .aff 33036681201834431806125287315208999535688917902318640770552947863084311454064
  84945031628206560286385484845876297255374399530307053403754377481469130405780

/-- the three points are `5 • G`, `13 • G`, `100 • G` (model's `multiply`). -/
theorem points_are_multiples :
    multiply secp256r1 secp256r1.g 5 = .ok P5 ∧ multiply secp256r1 secp256r1.g 13 = .ok P13 ∧
      multiply secp256r1 secp256r1.g 100 = .ok P100 := by decide +kernel

/-- an `.ok` run of `BatchDL` on secp256r1 with recorded logs. -/
theorem batchDL_run :
    (batchDL secp256r1 (StateG.init listImpl) [P5, P13, P100] 16 6 2).toOption.map Prod.fst =
      some [some 5, some 13, none] := by decide +kernel

/-- `dlogs_sound_named` applied to that run: the recorded 5 and 13 are true discrete logs. -/
theorem batchDL_run_sound :
    haveI : Fact (Nat.Prime secp256r1.p) := ⟨EcAll.named_primes secp256r1 (by decide)⟩
    (5 : Int) • Gp secp256r1 = toPoint secp256r1 P5 ∧ (13 : Int) • Gp secp256r1 = toPoint secp256r1 P13 := by
  have : Fact (Nat.Prime secp256r1.p) := ⟨EcAll.named_primes secp256r1 (by decide)⟩
  have hrun := batchDL_run
  cases h : batchDL secp256r1 (StateG.init listImpl) [P5, P13, P100] 16 6 2 with
  | error e => rw [h] at hrun; cases hrun
  | ok r =>
    obtain ⟨res, st'⟩ := r
    rw [h] at hrun
    simp only [Except.toOption, Option.map_some, Option.some.injEq] at hrun
    subst hrun
    have hs := (dlogs_sound_named secp256r1 (by decide)).1 _ _ _ _ _ _ _ h
    cases hs with
    | cons h5 hrest =>
      cases hrest with
      | cons h13 _ => exact ⟨h5 5 rfl, h13 13 rfl⟩

end Paranoid.C02CertEx
