/-
Props/C02S.lean — the ECDSA signature-check layer of `ecdsa_sig_checks.py`
(`_MapIssuerSigIndexes`, `_IssuerDLogs`, `BiasedBaseCheck.Check` = CheckLCGNonceGMP,
CheckLCGNonceJavaUtilRandom, CheckNonceMSB, CheckNonceCommonPrefix, CheckNonceCommonPostfix,
CheckNonceGeneralized, and `CheckCr50U2f.Check`).  Property theorems only; helper lemmas live in
Proofs/EcdsaChecks.lean (no curve facts) and Proofs/EcdsaChecksEc.lean.

Serves: C02 (signature half: a recorded discrete log is a private key of THAT signature's issuer
point; no nonce check marks a signature weak without one), C08 (group isolation; every signature of
the issuer is flagged when the oracle returns the key), C17 (grouping is a partition, results are
written back by index, the verdict is a function of the signature's own key and of the guess set of
its curve group — not of the batch, the order, the cache or earlier calls), C18 (totality and the
exact set of raising inputs).

Setting.  The lattice solvers are ORACLES: the model computes the arguments of every call (`Call`)
and takes the returned guess lists (`GroupOracle.answer`); Python `set` iteration order
(`unique_vals`, `list(guesses)`) is an oracle too (`GroupOracle.uniq`, `.guessList`).  Soundness
theorems hold for EVERY oracle value; the theorems that need the order oracles to be enumerations
of the right sets say so (`UniqConsistent`, `GuessConsistent`; evaluated by the driver on every
correspondence line as `checkConsistent`).

The specification of "`d` is a private key of the key tuple `k`" is `IsKeyOf c k d`: the raw tuple
`(k.1, k.2)` lies on the curve and denotes `(d mod n) • G` in Mathlib's group
`(W c).Point` (Props/C11: `toPoint`); `= d • G` since `n • G = 0` on every named curve.
Hypotheses on a curve object (`ObjOK`): `p` prime (for the nine named curves: Pratt certificates,
Props/C11Primes; `C02.namedFactory_ok_certified`, Props/C02Cert.lean), `p ≠ 2`, `4a³+27b² ≢ 0`,
`G` on the curve, `n ≥ 2`, cache invariant `_cache[k] = k • G`; for the completeness direction
additionally reduced generator / cache (`ObjReduced`).  `namedFactory_ok` derives all of them for
the nine curves of CURVE_FACTORY (fresh caches) from the evaluated `paramsOK` facts of Props/C11;
`check_preserves` re-establishes them after every call.
-/
import ParanoidModel.Proofs.EcdsaChecksEc
import ParanoidModel.Proofs.EcCurves
import Mathlib.Tactic.NormNum.Prime
namespace Paranoid.C02S
open Paranoid Paranoid.Ec Paranoid.EcdsaChecks WeierstrassCurve

/-! ### `_MapIssuerSigIndexes` -/

/-- ★ `mapIssuer_partition`.  The dict returned for any list of signatures: keys are pairwise
distinct; the item of key `k` is the increasing, non-empty list of exactly the indices whose
signature has `PublicPoint = k` (raw, unreduced integers of the byte fields); all lists together
are a permutation of `range(len(sigs))`; an index is listed under the key of its own signature and
under no other. -/
theorem mapIssuer_partition (sigs : List Sig) :
    ((mapIssuerSigIndexes sigs).map Prod.fst).Nodup ∧
    (∀ k l, (k, l) ∈ mapIssuerSigIndexes sigs ↔ l = idxOfKey k 0 sigs ∧ l ≠ []) ∧
    (∀ k, (idxOfKey k 0 sigs).Pairwise (· < ·)) ∧
    (∀ k i, i ∈ idxOfKey k 0 sigs ↔ ∃ s, sigs[i]? = some s ∧ s.key = k) ∧
    ((mapIssuerSigIndexes sigs).map Prod.snd).flatten.Perm (List.range sigs.length) :=
  ⟨nodup_mapIssuer sigs, mem_mapIssuer sigs, fun k => idxOfKey_sorted k sigs 0,
   fun k i => by rw [mem_idxOfKey]; simp, flatten_mapIssuer sigs⟩

/-! ### `_IssuerDLogs` -/

section curve
variable (c : Curve) [Fact (Nat.Prime c.p)]

/-- `_IssuerDLogs` never raises: any guess list, any dict; the cache invariant is preserved. -/
theorem issuerDLogs_total (hc : c.Good) (hG : onCurve c c.g = true) (hn : 0 < c.n)
    (cache : Cache) (hcache : CacheOK c cache) (gs : List Int) (pks : Pks) :
    ∃ dl cache', issuerDLogs c cache gs pks = .ok (dl, cache') ∧ CacheOK c cache' ∧ cache <:+ cache' :=
  let ⟨dl, cache', h1, h2, h3, _⟩ := EcdsaChecks.issuerDLogs_total c hc hG hn cache hcache gs pks
  ⟨dl, cache', h1, h2, h3⟩

/-- ★ `issuerDLogs_sound`.  For EVERY guess list (LLL noise, 0, n, negative, huge, duplicates),
every dict and every cache satisfying the invariant: an entry `idx ↦ d` of the result means that
`d` is one of the guesses, `idx` is listed in the dict under a key `k`, the raw tuple `k` lies on the
curve and IS the point `(d mod n) • G`.  (What the code literally guarantees:
`BatchMultiplyG([d]) == [k]` as Python tuples.) -/
theorem issuerDLogs_sound (hc : c.Good) (hG : onCurve c c.g = true) (hn : 0 < c.n)
    (cache : Cache) (hcache : CacheOK c cache) (gs : List Int) (pks : Pks) (dl : DLogs) (cache' : Cache)
    (h : issuerDLogs c cache gs pks = .ok (dl, cache')) (i : Nat) (d : Int) (hd : dl.get? i = some d) :
    d ∈ gs ∧ ∃ k l, pks.get? k = some l ∧ i ∈ l ∧
      onCurve c (.aff (k.1 : Int) (k.2 : Int)) = true ∧
      toPoint c (.aff (k.1 : Int) (k.2 : Int)) = (d % (c.n : Int)).toNat • toPoint c c.g :=
  EcdsaChecks.issuerDLogs_sound c hc hG hn cache hcache gs pks dl cache' h i d hd

omit [Fact (Nat.Prime c.p)] in
/-- the same without any hypothesis (any curve parameters, any cache content): what the code
literally guarantees is `BatchMultiplyG(guesses)[j] == key tuple` and `d = guesses[j]`. -/
theorem issuerDLogs_literal (cache : Cache) (gs : List Int) (pks : Pks) (dl : DLogs)
    (cache' : Cache) (h : issuerDLogs c cache gs pks = .ok (dl, cache')) (i : Nat) (d : Int)
    (hd : dl.get? i = some d) :
    ∃ pts, batchMultiplyG c cache gs = .ok (pts, cache') ∧
      ∃ k l, pks.get? k = some l ∧ i ∈ l ∧ (Pt.aff ((k : Key).1 : Int) (k.2 : Int), d) ∈ pts.zip gs :=
  EcdsaChecks.issuerDLogs_literal c cache gs pks dl cache' h i d hd

/-- with `n • G = 0` (every named curve): the recorded `d` satisfies `d • G = issuer point`. -/
theorem isKeyOf_zsmul (hn : 0 < c.n) (hord : c.n • toPoint c c.g = 0) (k : Key) (d : Int)
    (h : IsKeyOf c k d) : toPoint c (.aff (k.1 : Int) (k.2 : Int)) = d • toPoint c c.g := by
  rw [h.2, ← natCast_zsmul, Int.toNat_of_nonneg (Int.emod_nonneg d (by omega))]
  have hz : (c.n : Int) • toPoint c c.g = 0 := by rw [natCast_zsmul]; exact hord
  conv_rhs => rw [← Int.emod_add_mul_ediv d c.n, add_zsmul, mul_zsmul', hz, zsmul_zero, add_zero]

/-- when `G` has order exactly `n` (n prime), two private keys of the same tuple are congruent
modulo `n` — so the value recorded for an issuer is its private key up to a multiple of `n`. -/
theorem isKeyOf_congr (hn : 0 < c.n) (hord : addOrderOf (toPoint c c.g) = c.n) (k : Key) (d d' : Int)
    (h : IsKeyOf c k d) (h' : IsKeyOf c k d') : d % (c.n : Int) = d' % (c.n : Int) := by
  have hlt : ∀ x : Int, (x % (c.n : Int)).toNat < c.n := by
    intro x
    have := Int.emod_lt_of_pos x (show (0 : Int) < c.n by omega)
    have := Int.emod_nonneg x (show (c.n : Int) ≠ 0 by omega)
    omega
  have e : (d % (c.n : Int)).toNat • toPoint c c.g = (d' % (c.n : Int)).toNat • toPoint c c.g :=
    h.2.symm.trans h'.2
  have := nsmul_injOn_Iio_addOrderOf (x := toPoint c c.g)
    (by rw [hord]; exact hlt d) (by rw [hord]; exact hlt d') e
  have h1 := Int.toNat_of_nonneg (Int.emod_nonneg d (show (c.n : Int) ≠ 0 by omega))
  have h2 := Int.toNat_of_nonneg (Int.emod_nonneg d' (show (c.n : Int) ≠ 0 by omega))
  rw [← h1, ← h2, this]

/-- ★ exact behaviour on the dict of `_MapIssuerSigIndexes` (reduced generator and cache): the
index of signature `i` is assigned IFF its OWN issuer key tuple has coordinates below `p` and some
guess is a private key of that tuple; the value is the LAST such guess of the list.  A key given
with unreduced coordinates (`x + p`) or not on the curve is therefore never matched. -/
theorem issuerDLogs_exact (hc : c.Good) (hG : onCurve c c.g = true) (hn : 0 < c.n)
    (hg : Reduced c c.g) (cache : Cache) (hcache : CacheOK c cache)
    (hcr : ∀ e ∈ cache, Reduced c e.2) (gs : List Int) (sigs : List Sig) (dl : DLogs) (cache' : Cache)
    (h : issuerDLogs c cache gs (mapIssuerSigIndexes sigs) = .ok (dl, cache'))
    (i : Nat) (s : Sig) (hs : sigs[i]? = some s) :
    (∀ d, dl.get? i = some d → KeyReduced c s.key ∧ LastKeyGuess c s.key gs d) ∧
    (KeyReduced c s.key → (∃ g ∈ gs, IsKeyOf c s.key g) → ∃ d, dl.get? i = some d) :=
  EcdsaChecks.issuerDLogs_exact c hc hG hn hg cache hcache hcr gs sigs dl cache' h i s hs

/-- the last key guess is unique (the recorded value is determined by the list). -/
theorem lastKeyGuess_unique (k : Key) (gs : List Int) (d d' : Int)
    (h : LastKeyGuess c k gs d) (h' : LastKeyGuess c k gs d') : d = d' :=
  EcdsaChecks.lastKeyGuess_unique c k gs d d' h h'

end curve

/-! ### the `Check` methods -/

/-- ★ `weak_only_with_key` (C02, signature half) for every nonce check, every batch and EVERY oracle
answer: a signature receives an entry only if its curve id has a curve object in the factory; the
entry is positive only together with DISCRETE_LOG = `format(d, "x")`, where `d` is one of the guesses
handed to `_IssuerDLogs` for the signature's OWN curve group, and the issuer key tuple of THAT
signature is the point `(d mod n) • G` of ITS curve (C08 `group_isolation`, key side). -/
theorem weak_only_with_key (k : Kind) (O : Nat → GroupOracle) (factory : Factory) (arts : List Sig)
    (res : CheckResult) (hF : FactoryOK factory) (hnd : (factory.map Prod.fst).Nodup)
    (h : check k O factory arts = .ok res) (bi : Nat) (v : Verdict)
    (hv : verdictOf res.writes bi = some v) :
    ∃ s obj, arts[bi]? = some s ∧ (s.curve, some obj) ∈ factory ∧
      (v = negVerdict ∨
        ∃ d, v = posVerdict d ∧ d ∈ (O s.curve).guessList ∧ KeyOf obj.curve s.key d) :=
  check_sound k O factory arts res hF hnd h bi v hv

/-- ★ `group_isolation` (C08), oracle side: the verdict of a signature depends on the oracle only
through the answers for the curve group of that signature — guesses produced for other curves
cannot touch it. -/
theorem group_isolation (k : Kind) (O O' : Nat → GroupOracle) (factory : Factory) (arts : List Sig)
    (res res' : CheckResult) (h : check k O factory arts = .ok res)
    (h' : check k O' factory arts = .ok res') (hnd : (factory.map Prod.fst).Nodup)
    (bi : Nat) (s : Sig) (hs : arts[bi]? = some s) (hO : O s.curve = O' s.curve) :
    verdictOf res.writes bi = verdictOf res'.writes bi :=
  group_isolation_core k O O' factory arts res res' h h' hnd bi s hs hO

/-- ★ results are written back by index (C17): one `Check` call writes exactly one entry for every
signature whose curve id has a curve object in the factory, none for the others (unknown curve
ids, `None` entries). -/
theorem writes_by_index (k : Kind) (O : Nat → GroupOracle) (factory : Factory) (arts : List Sig)
    (res : CheckResult) (hnd : (factory.map Prod.fst).Nodup) (h : check k O factory arts = .ok res) :
    (res.writes.map Prod.fst).Nodup ∧
    ∀ bi, bi ∈ res.writes.map Prod.fst ↔
      ∃ s obj, arts[bi]? = some s ∧ (s.curve, some obj) ∈ factory :=
  ⟨checkLoop_writes_nodup k O arts factory res h hnd, (checkLoop_ok k O arts factory res h).2.1⟩

/-- ★ exact verdict / `all_of_issuer_flagged` (C08): with reduced generator and caches, a signature
whose curve has an object in the factory is flagged IFF its issuer key tuple has coordinates below
`p` and some guess of its curve group is a private key of that tuple; the attached value is the
LAST such guess of `list(guesses)`.  Nothing else about the batch enters. -/
theorem verdict_exact (k : Kind) (O : Nat → GroupOracle) (factory : Factory) (arts : List Sig)
    (res : CheckResult) (hF : FactoryOK factory) (hR : FactoryReduced factory)
    (hnd : (factory.map Prod.fst).Nodup) (h : check k O factory arts = .ok res)
    (bi : Nat) (s : Sig) (hs : arts[bi]? = some s) (obj : CurveObj)
    (hobj : (s.curve, some obj) ∈ factory) :
    ∃ v, verdictOf res.writes bi = some v ∧
      ((v = negVerdict ∧ ¬ (KeyReduced obj.curve s.key ∧
          ∃ g ∈ (O s.curve).guessList, KeyOf obj.curve s.key g)) ∨
       (∃ d, v = posVerdict d ∧ KeyReduced obj.curve s.key ∧
          LastKeyOf obj.curve s.key (O s.curve).guessList d)) :=
  check_exact k O factory arts res hF hR hnd h bi s hs obj hobj

/-- ★ `all_of_issuer_flagged`, stated on the solver answers: if ANY solver call made for ANY issuer
of the curve group returns a private key `g` of an issuer key tuple (reduced coordinates), then
EVERY signature of the batch with that curve and that key tuple is marked weak, all with the same
recorded value (the last key guess of `list(guesses)`). -/
theorem all_of_issuer_flagged (k : Kind) (O : Nat → GroupOracle) (factory : Factory) (arts : List Sig)
    (res : CheckResult) (hF : FactoryOK factory) (hR : FactoryReduced factory)
    (hnd : (factory.map Prod.fst).Nodup) (hG : GuessConsistent k O arts factory)
    (h : check k O factory arts = .ok res)
    (cid : Nat) (obj : CurveObj) (hobj : (cid, some obj) ∈ factory) (key : Key)
    (hkr : KeyReduced obj.curve key)
    (j : Nat) (cs : List Call) (kk : Nat) (g : Int)
    (hj : j < (mapIssuerSigIndexes ((groupFrom cid 0 arts).map Prod.snd)).length)
    (hc : issuerCalls k cid obj.curve.n ((O cid).uniq j) = .ok cs) (hk : kk < cs.length)
    (hg : g ∈ (O cid).answer j kk) (hkey : KeyOf obj.curve key g) :
    ∃ d, LastKeyOf obj.curve key (O cid).guessList d ∧
      ∀ bi s, arts[bi]? = some s → s.curve = cid → s.key = key →
        verdictOf res.writes bi = some (posVerdict d) := by
  have hex : ∃ g ∈ (O cid).guessList, KeyOf obj.curve key g := by
    by_cases hne : groupFrom cid 0 arts = []
    · rw [hne] at hj; simp [mapIssuerSigIndexes, mapIssuerFrom] at hj
    · exact ⟨g, answer_in_guessList k O factory arts hG cid obj hobj hne j cs kk g hj hc hk hg, hkey⟩
  obtain ⟨g', hg', hp, hkg'⟩ := hex
  obtain ⟨pre, d, post, q1, q2, q3⟩ := exists_last (fun x => IsKeyOf obj.curve key x)
    (O cid).guessList ⟨g', hg', hkg'⟩
  have hlast : LastKeyGuess obj.curve key (O cid).guessList d := ⟨pre, post, q1, q2, q3⟩
  refine ⟨d, ⟨hp, hlast⟩, ?_⟩
  intro bi s hs hcid hk'
  subst hcid; subst hk'
  obtain ⟨v, hv, hcase⟩ := check_exact k O factory arts res hF hR hnd h bi s hs obj hobj
  rcases hcase with ⟨_, n2⟩ | ⟨d', p1, _, _, p3⟩
  · exact absurd ⟨hkr, g', hg', hp, hkg'⟩ n2
  · rw [hv, p1, EcdsaChecks.lastKeyGuess_unique obj.curve s.key _ d' d p3 hlast]

/-- ★ C17: the verdict of a signature is a function of (the curve of its curve object, its issuer
key tuple, `list(guesses)` of its curve group).  Two runs — different batches, different positions,
different order, different check kinds, different cache contents, earlier or later in the process —
give the same verdict to signatures that agree on these three. -/
theorem verdict_independent
    (k k' : Kind) (O O' : Nat → GroupOracle) (factory factory' : Factory) (arts arts' : List Sig)
    (res res' : CheckResult)
    (hF : FactoryOK factory) (hR : FactoryReduced factory) (hnd : (factory.map Prod.fst).Nodup)
    (hF' : FactoryOK factory') (hR' : FactoryReduced factory') (hnd' : (factory'.map Prod.fst).Nodup)
    (h : check k O factory arts = .ok res) (h' : check k' O' factory' arts' = .ok res')
    (bi bi' : Nat) (s s' : Sig) (hs : arts[bi]? = some s) (hs' : arts'[bi']? = some s')
    (obj obj' : CurveObj) (hobj : (s.curve, some obj) ∈ factory) (hobj' : (s'.curve, some obj') ∈ factory')
    (hcurve : obj.curve = obj'.curve) (hkey : s.key = s'.key)
    (hgl : (O s.curve).guessList = (O' s'.curve).guessList) :
    verdictOf res.writes bi = verdictOf res'.writes bi' :=
  EcdsaChecks.verdict_independent k k' O O' factory factory' arts arts' res res' hF hR hnd hF' hR' hnd'
    h h' bi bi' s s' hs hs' obj obj' hobj hobj' hcurve hkey hgl

/-- ★ C17: anything flagged alone is flagged in a batch given the same (or more) guesses: a flagged
signature stays flagged in every run whose `list(guesses)` for its curve group contains at least
the same values. -/
theorem flagged_monotone
    (k k' : Kind) (O O' : Nat → GroupOracle) (factory factory' : Factory) (arts arts' : List Sig)
    (res res' : CheckResult)
    (hF : FactoryOK factory) (hR : FactoryReduced factory) (hnd : (factory.map Prod.fst).Nodup)
    (hF' : FactoryOK factory') (hR' : FactoryReduced factory') (hnd' : (factory'.map Prod.fst).Nodup)
    (h : check k O factory arts = .ok res) (h' : check k' O' factory' arts' = .ok res')
    (bi bi' : Nat) (s s' : Sig) (hs : arts[bi]? = some s) (hs' : arts'[bi']? = some s')
    (obj obj' : CurveObj) (hobj : (s.curve, some obj) ∈ factory) (hobj' : (s'.curve, some obj') ∈ factory')
    (hcurve : obj.curve = obj'.curve) (hkey : s.key = s'.key)
    (hsub : ∀ g ∈ (O s.curve).guessList, g ∈ (O' s'.curve).guessList)
    (d : Int) (hpos : verdictOf res.writes bi = some (posVerdict d)) :
    ∃ d', verdictOf res'.writes bi' = some (posVerdict d') :=
  EcdsaChecks.flagged_monotone k k' O O' factory factory' arts arts' res res' hF hR hnd hF' hR' hnd'
    h h' bi bi' s s' hs hs' obj obj' hobj hobj' hcurve hkey hsub d hpos

/-- the return value `any_weak` is true iff some written verdict is positive. -/
theorem anyWeak_iff (writes : List (Nat × Verdict)) :
    anyWeak writes = true ↔ ∃ w ∈ writes, w.2.positive = true := by
  simp [anyWeak]

/-- ★ no state leaks between calls: after a `Check` call the curve objects satisfy the hypotheses of
all theorems again (same ids, same curves, caches sound and reduced). -/
theorem check_preserves (k : Kind) (O : Nat → GroupOracle) (factory : Factory) (arts : List Sig)
    (res : CheckResult) (hF : FactoryOK factory) (h : check k O factory arts = .ok res) :
    res.factory.map Prod.fst = factory.map Prod.fst ∧ FactoryOK res.factory ∧
      (FactoryReduced factory → FactoryReduced res.factory) :=
  EcdsaChecks.check_preserves k O factory arts res hF h

/-! ### what is handed to the solvers -/

/-- the calls recorded for a processed curve group are, issuer by issuer (dict order of
`_MapIssuerSigIndexes` on the group), `issuerCalls` of that issuer's `unique_vals`. -/
theorem check_calls (k : Kind) (O : Nat → GroupOracle) (factory : Factory) (arts : List Sig)
    (res : CheckResult) (h : check k O factory arts = .ok res) (cid : Nat) (css : List (List Call))
    (hm : (cid, css) ∈ res.calls) :
    ∃ obj, (cid, some obj) ∈ factory ∧
      css.length = (mapIssuerSigIndexes ((groupFrom cid 0 arts).map Prod.snd)).length ∧
      ∀ j cs, css[j]? = some cs → issuerCalls k cid obj.curve.n ((O cid).uniq j) = .ok cs := by
  obtain ⟨obj, gr, h1, h2, h3⟩ := (checkLoop_ok k O arts factory res h).2.2 cid css hm
  obtain ⟨_, _, hc, _⟩ := processGroup_ok _ _ _ _ _ _ _ h2
  obtain ⟨q1, q2⟩ := groupCallsFrom_inv _ _ _ _ _ _ _ _ hc
  subst h3
  refine ⟨obj, h1, q1, ?_⟩
  intro j cs hj
  have := q2 j cs hj
  rwa [Nat.zero_add] at this

/-- ★ `hnp_args`: the `(a_i, b_i)` handed to `HiddenNumberProblem` / `HiddenNumberProblemForCurve`
are exactly `HiddenNumberParams` of each unique `(r, s, z)`, in `unique_vals` order; with a bias
they are cut into the windows of `windows_plan`, with LCG parameters they go in one call together
with the curve id and the two LCG parameters unchanged; `w = None`, `n = curve.n` and the bias are
passed through. -/
theorem hnp_args (m : Mode) (cid n : Nat) (uniq : List Triple) (cs : List Call)
    (h : issuerCalls (.biased m) cid n uniq = .ok cs) :
    ∃ ab, List.Forall₂ (fun (v : Triple) p => hiddenNumberParams n v.1 v.2.1 v.2.2 = .ok p) uniq ab ∧
      cs = modeCalls m cid n ab := by
  simp only [issuerCalls, biasedCalls] at h
  cases hab : hnpParamsList n uniq with
  | error e => rw [hab] at h; cases h
  | ok ab =>
    rw [hab] at h
    simp only [Except.ok.injEq] at h
    exact ⟨ab, (hnpParamsList_ok n uniq ab).mp hab, h.symm⟩

/-- the two shapes of `modeCalls`. -/
theorem modeCalls_cases (cid n : Nat) (ab : List (Nat × Nat)) :
    (∀ b, modeCalls (.bias b) cid n ab =
      (sizeLoop windowSizes ab).map fun w => Call.hnp (w.map Prod.fst) (w.map Prod.snd) n b) ∧
    (∀ name flags, modeCalls (.lcg name flags) cid n ab =
      [Call.hnpCurve (ab.map Prod.fst) (ab.map Prod.snd) cid name flags]) :=
  ⟨fun _ => rfl, fun _ _ => rfl⟩

/-- … hence (C09 `hnparams_general`) every pair handed over satisfies the nonce relation of its
signature: if `s·k ≡ z + r·d (mod n)` then `a + b·d ≡ k (mod n)`, `a, b < n`. -/
theorem hnp_args_relation (n : Nat) (hn : 2 ≤ n) (uniq : List Triple) (ab : List (Nat × Nat))
    (h : List.Forall₂ (fun (v : Triple) p => hiddenNumberParams n v.1 v.2.1 v.2.2 = .ok p) uniq ab)
    (i : Nat) (v : Triple) (p : Nat × Nat) (hv : uniq[i]? = some v) (hp : ab[i]? = some p)
    (d k : Int) (hsig : (v.2.1 : Int) * k ≡ (v.2.2 : Int) + (v.1 : Int) * d [ZMOD (n : Int)]) :
    p.1 < n ∧ p.2 < n ∧ (p.1 : Int) + p.2 * d ≡ k [ZMOD (n : Int)] := by
  have hvp : hiddenNumberParams n v.1 v.2.1 v.2.2 = .ok p := by
    have := List.Forall₂.get h (i := i) (List.getElem?_eq_some_iff.mp hv).1
      (List.getElem?_eq_some_iff.mp hp).1
    simp only [List.get_eq_getElem] at this
    rw [(List.getElem?_eq_some_iff.mp hv).2, (List.getElem?_eq_some_iff.mp hp).2] at this
    exact this
  have hgcd : Int.gcd (v.2.1 : Int) n = 1 := by
    by_contra hne
    have := (hiddenNumberParams_error_iff n hn v.1 v.2.1 v.2.2 .zeroDivision).mpr ⟨rfl, hne⟩
    rw [hvp] at this; cases this
  obtain ⟨a, b, h1, h2, h3, h4⟩ := hiddenNumberParams_spec n hn v.1 v.2.1 v.2.2 d k hgcd hsig
  rw [hvp] at h1
  cases h1
  exact ⟨h2, h3, h4⟩

/-- ★ `windows_plan`: the windows for a list of `len` values: consecutive slices of 24 (always);
then, only if `len > 24`, consecutive slices of 48; then, only if `len > 48`, consecutive slices of
120 — the loop stops after the first size `≥ len`. -/
theorem windows_plan {α} (l : List α) :
    sizeLoop windowSizes l =
      if l.length ≤ 24 then chunks 24 l
      else if l.length ≤ 48 then chunks 24 l ++ chunks 48 l
      else chunks 24 l ++ chunks 48 l ++ chunks 120 l :=
  sizeLoop_windowSizes l

/-- the slices of one size: concatenated they give back the list; each is a non-empty slice
`l[i : i+size]` with `size ∣ i`; a non-empty list that fits is handed over in one piece. -/
theorem chunks_spec {α} (size : Nat) (hs : 0 < size) (l : List α) :
    (chunks size l).flatten = l ∧
    (∀ w ∈ chunks size l, ∃ i, i < l.length ∧ i % size = 0 ∧ w = (l.drop i).take size ∧ w ≠ []) ∧
    (l ≠ [] → l.length ≤ size → chunks size l = [l]) :=
  ⟨chunks_flatten size hs l.length l (Nat.le_refl _),
   chunks_mem size hs l.length l (Nat.le_refl _), chunks_of_le size hs l⟩

/-- ★ `windows_cover`: every unique signature lies in some window handed to the solver, every
window is a consecutive slice of at most 120 values, and a list of at most 24 values is solved in
exactly one call containing all of them. -/
theorem windows_cover {α} (l : List α) :
    (∀ x ∈ l, ∃ w ∈ sizeLoop windowSizes l, x ∈ w) ∧
    (∀ w ∈ sizeLoop windowSizes l, ∃ i size, size ≤ 120 ∧ w = (l.drop i).take size ∧ w ≠ []) ∧
    (l ≠ [] → l.length ≤ 24 → sizeLoop windowSizes l = [l]) := by
  have h24 := chunks_spec 24 (by omega) l
  have h48 := chunks_spec 48 (by omega) l
  have h120 := chunks_spec 120 (by omega) l
  refine ⟨?_, ?_, ?_⟩
  · intro x hx
    have hx' : x ∈ (chunks 24 l).flatten := by rw [h24.1]; exact hx
    obtain ⟨w, hw, hxw⟩ := List.mem_flatten.mp hx'
    refine ⟨w, ?_, hxw⟩
    rw [windows_plan]
    split
    · exact hw
    · split
      · exact List.mem_append_left _ hw
      · exact List.mem_append_left _ (List.mem_append_left _ hw)
  · intro w hw
    rw [windows_plan] at hw
    have c24 : w ∈ chunks 24 l → ∃ i size, size ≤ 120 ∧ w = (l.drop i).take size ∧ w ≠ [] := by
      intro h; obtain ⟨i, _, _, h3, h4⟩ := h24.2.1 w h; exact ⟨i, 24, by omega, h3, h4⟩
    have c48 : w ∈ chunks 48 l → ∃ i size, size ≤ 120 ∧ w = (l.drop i).take size ∧ w ≠ [] := by
      intro h; obtain ⟨i, _, _, h3, h4⟩ := h48.2.1 w h; exact ⟨i, 48, by omega, h3, h4⟩
    have c120 : w ∈ chunks 120 l → ∃ i size, size ≤ 120 ∧ w = (l.drop i).take size ∧ w ≠ [] := by
      intro h; obtain ⟨i, _, _, h3, h4⟩ := h120.2.1 w h; exact ⟨i, 120, by omega, h3, h4⟩
    split at hw
    · exact c24 hw
    · split at hw
      · rcases List.mem_append.mp hw with h | h
        · exact c24 h
        · exact c48 h
      · rcases List.mem_append.mp hw with h | h
        · rcases List.mem_append.mp h with h | h
          · exact c24 h
          · exact c48 h
        · exact c120 h
  · intro hne hlen
    rw [windows_plan, if_pos hlen]
    exact h24.2.2 hne (by omega)

/-- ★ Cr50: for `unique_vals = [v₀, …, v_m]` (non-empty) the calls are
`(v₀, v₁), (v₁, v₂), …, (v_{m-1}, v_m)` and finally `(v_m, (1, 1, 0))`, all with `n = curve.n` —
`len(unique_vals)` calls; an empty list would raise `IndexError` (unreachable: `check_total`). -/
theorem cr50_args (n : Nat) (uniq : List Triple) :
    (uniq ≠ [] → issuerCalls .cr50 0 n uniq = .ok (cr50Spec n uniq) ∧
      (cr50Spec n uniq).length = uniq.length) ∧
    (∀ v, cr50Spec n [v] = [Call.cr50 v (1, 1, 0) n]) ∧
    (∀ v w rest, cr50Spec n (v :: w :: rest) = Call.cr50 v w n :: cr50Spec n (w :: rest)) ∧
    issuerCalls .cr50 0 n [] = .error .indexError :=
  ⟨fun h => ⟨cr50Calls_eq n uniq h, cr50Spec_length n uniq⟩, fun _ => rfl, fun _ _ _ => rfl, rfl⟩

/-- `BiasedBaseCheck.__init__`: exactly one of `bias`, `lcg_params` must be given. -/
theorem biasedInit_cases (bias : Option Nat) (lcg : Option (Nat × Nat)) :
    biasedInit bias lcg = match bias, lcg with
      | some b, none => .ok (.bias b)
      | none, some p => .ok (.lcg p.1 p.2)
      | some _, some _ => .error .valueError
      | none, none => .error .valueError := by
  cases bias <;> cases lcg <;> rfl

/-! ### totality (C18) and the exact set of raising inputs -/

/-- ★ totality OF THE CHECK LAYER (every solver call is an answer oracle here): with valid curve
objects and order oracles that are enumerations, the check layer of a nonce check never raises on a
batch in which every signature with a known curve has `s` invertible modulo the curve's `n` — any
`r`, any hash length, any issuer key (invalid, unreduced, `(0,0)`), any curve id, any batch size
including the empty batch, any oracle answers.  The check layer of `CheckCr50U2f` needs no condition
at all — but an exception raised INSIDE a solver is outside this model: the real `Cr50U2fGuesses`
raises ZeroDivisionError for `r ≡ 0 (mod n)` (`C08.cr50_total_prime` needs `n ∤ r`).  The composition
with the solver models, under `r, s ∈ [1, n-1]`, is `C18Ec.sig_checks_solver_total`. -/
theorem check_total (k : Kind) (O : Nat → GroupOracle) (factory : Factory) (arts : List Sig)
    (hF : FactoryOK factory) (hcons : UniqConsistent O arts factory)
    (hwf : k ≠ .cr50 → ∀ s ∈ arts, ∀ obj, (s.curve, some obj) ∈ factory →
      Int.gcd (bytes2int s.s : Int) obj.curve.n = 1) :
    ∃ res, check k O factory arts = .ok res :=
  EcdsaChecks.check_total k O factory arts hF hcons hwf

/-- the property's own well-formedness: `1 ≤ s ≤ n - 1` with `n` prime implies `gcd(s, n) = 1`. -/
theorem wf_of_range (n : Nat) (hp : n.Prime) (s : Nat) (h1 : 1 ≤ s) (h2 : s ≤ n - 1) :
    Int.gcd (s : Int) n = 1 := by
  apply gcd_eq_one_of_prime n hp
  have hn := hp.two_le
  rw [Int.emod_eq_of_lt (by omega) (by omega)]
  omega

/-- the CHECK LAYER of `CheckCr50U2f.Check` never raises (valid curve objects, consistent order
oracle; `Cr50U2fGuesses` is an answer oracle here — the real solver raises ZeroDivisionError for
`r ≡ 0 (mod n)`; composed statement for `r ∈ [1, n-1]`: `C18Ec.sig_checks_solver_total`). -/
theorem cr50_never_raises (O : Nat → GroupOracle) (factory : Factory) (arts : List Sig)
    (hF : FactoryOK factory) (hcons : UniqConsistent O arts factory) :
    ∃ res, check .cr50 O factory arts = .ok res :=
  EcdsaChecks.check_total .cr50 O factory arts hF hcons (fun h => absurd rfl h)

/-- ★ the only way to raise: the check is a `BiasedBaseCheck`, the exception is
`ZeroDivisionError`, and some signature with a known curve has `s` not invertible modulo `n`
(`s ≡ 0 (mod n)` for the prime orders of the named curves: `s = 0`, `s = n`, `s = 2n`, …). -/
theorem check_error (k : Kind) (O : Nat → GroupOracle) (factory : Factory) (arts : List Sig)
    (hF : FactoryOK factory) (hcons : UniqConsistent O arts factory) (e : PyErr)
    (h : check k O factory arts = .error e) :
    (∃ m, k = .biased m) ∧ e = .zeroDivision ∧
      ∃ s ∈ arts, ∃ obj, (s.curve, some obj) ∈ factory ∧
        Int.gcd (bytes2int s.s : Int) obj.curve.n ≠ 1 :=
  EcdsaChecks.check_error k O factory arts hF hcons e h

/-- ★ … and every such batch does raise: ONE signature with `s ≡ 0 (mod n)` makes the whole
`BiasedBaseCheck.Check` call raise `ZeroDivisionError` — no signature of the batch gets a verdict
from that check (an input class outside the property's `r, s ∈ [1, n-1]`). -/
theorem check_raises (m : Mode) (O : Nat → GroupOracle) (factory : Factory) (arts : List Sig)
    (hF : FactoryOK factory) (hnd : (factory.map Prod.fst).Nodup)
    (hcons : UniqConsistent O arts factory)
    (s : Sig) (hs : s ∈ arts) (obj : CurveObj) (hobj : (s.curve, some obj) ∈ factory)
    (hbad : Int.gcd (bytes2int s.s : Int) obj.curve.n ≠ 1) :
    check (.biased m) O factory arts = .error .zeroDivision :=
  EcdsaChecks.check_raises m O factory arts hF hnd hcons s hs obj hobj hbad

/-- what the driver evaluates on every correspondence line implies the two consistency
hypotheses used above. -/
theorem consistent_of_checkConsistent (k : Kind) (O : Nat → GroupOracle) (arts : List Sig)
    (factory : Factory) (h : checkConsistent k O arts factory = true) :
    UniqConsistent O arts factory ∧ GuessConsistent k O arts factory :=
  consistent_of_check k O arts factory h

/-! ### the hypotheses hold for CURVE_FACTORY as regenerated from /repo -/

/-- `namedFactory` is the nine named curves with fresh caches, in the dict order of
`Consts.ecCurveTable`, followed by the `None` entries. -/
theorem namedFactory_eq : namedFactory =
    [(2, some ⟨secp256r1, []⟩), (4, some ⟨secp384r1, []⟩), (1, some ⟨secp192r1, []⟩),
     (3, some ⟨secp224r1, []⟩), (5, some ⟨secp521r1, []⟩), (6, some ⟨secp256k1, []⟩),
     (17, some ⟨brainpoolP256r1, []⟩), (18, some ⟨brainpoolP384r1, []⟩),
     (19, some ⟨brainpoolP512r1, []⟩),
     (7, none), (8, none), (9, none), (10, none), (11, none), (12, none), (13, none), (14, none),
     (15, none), (16, none)] := by
  rfl

theorem namedFactory_ids : (namedFactory.map Prod.fst).Nodup ∧
    (namedFactory.filterMap fun e => e.2.map fun _ => e.1) = Consts.knownCurves := by
  rw [namedFactory_eq]
  decide

/-- a curve that passed the evaluated parameter check, with an empty cache, satisfies every
hypothesis of the theorems above (given the primality of its field prime). -/
theorem objOK_of_paramsOK (c : Curve) (hp : Nat.Prime c.p) (h : c.paramsOK = true) :
    ObjOK ⟨c, []⟩ ∧ ObjReduced ⟨c, []⟩ := by
  have : Fact (Nat.Prime c.p) := ⟨hp⟩
  obtain ⟨h1, h2, _, _, _, _⟩ := generator_of_paramsOK c h
  have hn : 1 < c.n := by
    simp only [Curve.paramsOK, Bool.and_eq_true, decide_eq_true_eq] at h
    exact h.1.1.1.1.1.1.1.1.1.2
  exact ⟨⟨⟨hp⟩, h1, h2, hn, fun e he => absurd he List.not_mem_nil⟩,
    reduced_g_of_paramsOK c h, fun e he => absurd he List.not_mem_nil⟩

/-- ★ CURVE_FACTORY of the current tree satisfies `FactoryOK`, `FactoryReduced` and has distinct
ids — given only the primality of the nine field primes (premise `hprime`; discharged from the
Pratt certificates of Props/C11Primes in `C02.namedFactory_ok_certified`, Props/C02Cert.lean). -/
theorem namedFactory_ok
    (hprime : ∀ c ∈ [secp256r1, secp384r1, secp192r1, secp224r1, secp521r1, secp256k1,
      brainpoolP256r1, brainpoolP384r1, brainpoolP512r1], Nat.Prime c.p) :
    FactoryOK namedFactory ∧ FactoryReduced namedFactory ∧ (namedFactory.map Prod.fst).Nodup := by
  have key : ∀ cid obj, (cid, some obj) ∈ namedFactory → ObjOK obj ∧ ObjReduced obj := by
    intro cid obj hm
    rw [namedFactory_eq] at hm
    simp only [List.mem_cons, Prod.mk.injEq, Option.some.injEq, reduceCtorEq, and_false,
      List.not_mem_nil, or_false] at hm
    rcases hm with ⟨_, rfl⟩ | ⟨_, rfl⟩ | ⟨_, rfl⟩ | ⟨_, rfl⟩ | ⟨_, rfl⟩ | ⟨_, rfl⟩ | ⟨_, rfl⟩ | ⟨_, rfl⟩ |
      ⟨_, rfl⟩
    · exact objOK_of_paramsOK _ (hprime _ (by simp)) secp256r1_paramsOK
    · exact objOK_of_paramsOK _ (hprime _ (by simp)) secp384r1_paramsOK
    · exact objOK_of_paramsOK _ (hprime _ (by simp)) secp192r1_paramsOK
    · exact objOK_of_paramsOK _ (hprime _ (by simp)) secp224r1_paramsOK
    · exact objOK_of_paramsOK _ (hprime _ (by simp)) secp521r1_paramsOK
    · exact objOK_of_paramsOK _ (hprime _ (by simp)) secp256k1_paramsOK
    · exact objOK_of_paramsOK _ (hprime _ (by simp)) brainpoolP256r1_paramsOK
    · exact objOK_of_paramsOK _ (hprime _ (by simp)) brainpoolP384r1_paramsOK
    · exact objOK_of_paramsOK _ (hprime _ (by simp)) brainpoolP512r1_paramsOK
  exact ⟨fun cid obj hm => (key cid obj hm).1, fun cid obj hm => (key cid obj hm).2,
    namedFactory_ids.1⟩

/-! ### non-vacuity: concrete inputs meeting the hypotheses (toy curve `y² = x³ - 3x + 6` over
GF(101), prime order 109, `G = (0, 39)`, `7·G = (23, 61)`, `5·G = (89, 43)`) -/

def toy : Curve := ⟨-3, 6, 101, 0, 39, 109, 1⟩
def toyFactory : Factory := [(2, some ⟨toy, []⟩), (7, none)]

/-- signatures: two of issuer `7·G` (same `(r, s)`, different hashes), one duplicate, one of issuer
`5·G`, one with the key `7·G` given with `x + p`, one on an unknown curve id. -/
def toyBatch : List Sig :=
  [⟨2, [23], [61], [5], [3], [0x10]⟩, ⟨2, [23], [61], [5], [3], [0x20]⟩,
   ⟨2, [0, 23], [61], [0, 5], [3], [0x10]⟩, ⟨2, [89], [43], [9], [4], [0x30]⟩,
   ⟨2, [124], [61], [9], [4], [0x30]⟩, ⟨99, [23], [61], [5], [3], [0x10]⟩]

/-- an oracle whose only answer is the private key `7` (also as `7 + n`), for curve id 2. -/
def toyOracle (gl : List Int) : Nat → GroupOracle := fun _ =>
  { uniq := fun j => if j = 0 then [(5, 3, 8), (5, 3, 16)] else [(9, 4, 24)]
    answer := fun _ _ => gl
    guessList := gl }

theorem toy_prime : Nat.Prime toy.p := by
  show Nat.Prime 101
  norm_num
example : toy.paramsOK = true := by decide +kernel
theorem toyFactory_ok : FactoryOK toyFactory ∧ FactoryReduced toyFactory := by
  have h := objOK_of_paramsOK toy toy_prime (by decide +kernel)
  constructor
  · intro cid obj hm
    simp only [toyFactory, List.mem_cons, Prod.mk.injEq, Option.some.injEq, reduceCtorEq, and_false,
      List.not_mem_nil, or_false] at hm
    obtain ⟨_, rfl⟩ := hm; exact h.1
  · intro cid obj hm
    simp only [toyFactory, List.mem_cons, Prod.mk.injEq, Option.some.injEq, reduceCtorEq, and_false,
      List.not_mem_nil, or_false] at hm
    obtain ⟨_, rfl⟩ := hm; exact h.2

example : checkConsistent (.biased (.bias 1)) (toyOracle [7]) toyBatch toyFactory = true := by
  decide +kernel
/- the three signatures of issuer `7·G` are flagged with `7`, the other issuer, the unreduced copy of
the key and the unknown curve are not; with guesses `[7, 116]` the LAST key guess `116 = 7 + n` is
recorded (hex `74`); with noise only, nobody is flagged. -/
example : ((check (.biased (.bias 1)) (toyOracle [7]) toyFactory toyBatch).toOption.map fun r =>
    (List.range 6).map (verdictOf r.writes)) =
    some [some (posVerdict 7), some (posVerdict 7), some (posVerdict 7), some negVerdict,
      some negVerdict, none] := by decide +kernel
example : ((check .cr50 (toyOracle [7, 116, 0, 109, -7]) toyFactory toyBatch).toOption.map fun r =>
    ((List.range 6).map (verdictOf r.writes), anyWeak r.writes)) =
    some ([some (posVerdict 116), some (posVerdict 116), some (posVerdict 116), some negVerdict,
      some negVerdict, none], true) := by decide +kernel
example : ((check (.biased (.lcg 1 7)) (toyOracle [0, 109, 6, -7, 102]) toyFactory toyBatch).toOption.map
    fun r => ((List.range 6).map (verdictOf r.writes), anyWeak r.writes)) =
    some ([some negVerdict, some negVerdict, some negVerdict, some negVerdict, some negVerdict, none],
      false) := by decide +kernel
example : dlogHex 116 = "74" ∧ dlogHex (-7) = "-7" := by decide +kernel
/- the solver calls: one window with both unique values of issuer `7·G`, one for issuer `5·G`, one for
the third key tuple. -/
example : ((check (.biased (.bias 1)) (toyOracle [7]) toyFactory toyBatch).toOption.map fun r =>
    r.calls) = some [(2, [[Call.hnp [39, 78] [38, 38] 109 1], [Call.hnp [6] [84] 109 1],
      [Call.hnp [6] [84] 109 1]])] := by
  decide +kernel
example : ((check .cr50 (toyOracle [7]) toyFactory toyBatch).toOption.map fun r => r.calls) =
    some [(2, [[Call.cr50 (5, 3, 8) (5, 3, 16) 109, Call.cr50 (5, 3, 16) (1, 1, 0) 109],
      [Call.cr50 (9, 4, 24) (1, 1, 0) 109], [Call.cr50 (9, 4, 24) (1, 1, 0) 109]])] := by decide +kernel
/- `s = 0` and `s = n` raise in a biased check, not in Cr50; the empty batch is fine. -/
example : check (.biased (.bias 1)) (fun _ => ⟨fun _ => [(5, 109, 0)], fun _ _ => [7], [7]⟩) toyFactory
    [⟨2, [23], [61], [5], [109], [1]⟩] = .error .zeroDivision ∧
  check (.biased (.lcg 2 7)) (fun _ => ⟨fun _ => [(5, 0, 0)], fun _ _ => [7], [7]⟩) toyFactory
    [⟨2, [23], [61], [5], [], [1]⟩] = .error .zeroDivision := by
  constructor <;> rfl
example : (check .cr50 (fun _ => ⟨fun _ => [(5, 0, 0)], fun _ _ => [7], [7]⟩) toyFactory
    [⟨2, [23], [61], [5], [], [1]⟩]).toOption.map (fun r => (List.range 1).map (verdictOf r.writes)) =
    some [some (posVerdict 7)] := by decide +kernel
example : (check (.biased (.bias 3)) (toyOracle []) toyFactory []).toOption.map (fun r => r.writes)
    = some [] := by decide +kernel
example : mapIssuerSigIndexes toyBatch = [((23, 61), [0, 1, 2, 5]), ((89, 43), [3]), ((124, 61), [4])] := by
  decide +kernel
example : (sizeLoop windowSizes (List.range 50)).map List.length = [24, 24, 2, 48, 2, 50] := by
  decide +kernel
example : (sizeLoop windowSizes (List.range 24)).map List.length = [24] := by decide +kernel

end Paranoid.C02S
