/-
Props/C03.lean — "Shared-factor detection across a batch is exact for every batch shape".
Property theorems only; helper lemmas live in Proofs/NTheoryTree.lean and Proofs/BatchGcd.lean.

All statements are universally quantified over the batch (`List Nat`, any length, any
multiplicities), over `other_values_prod` and over the enumeration order `u` that Python's
`list(set(values))` may produce.  Hypothesis throughout: the values are positive (for a zero
among ≥ 2 distinct values the code raises `ZeroDivisionError` — theorem `zero_value_raises`).

`batchGCDWith`/`batchGCD`/`checkGCD`/`checkGCDN1` model the code AFTER
`fixes/D1-batchgcd-empty.diff`; `batchGCDPinnedWith` is the pinned code (they coincide on
every non-empty batch, `pinned_agrees`; the pinned code raises `IndexError` on `[]`,
`empty_batch_pinned_raises`).
-/
import ParanoidModel.Proofs.BatchGcd
namespace Paranoid.C03
open Paranoid

/-! ## FastProduct and ExtendedProductTree -/

/-- `FastProduct(l) = ∏ l` for every list. -/
theorem fastProduct_eq_prod (l : List Nat) : fastProduct l = l.prod :=
  Paranoid.fastProduct_eq_prod l

/-- ★ product-tree invariant: one pairing step of `ExtendedProductTree` preserves `∏ v` and
`S v t = Σ_i t_i ∏_{j≠i} v_j` (`wsum`, defined by `S (v::vs) (t::ts) = t * ∏ vs + v * S vs ts`). -/
theorem productTree_inv (t v : List Nat) (h : t.length = v.length) :
    (pairProd v).prod = v.prod ∧ wsum (pairProd v) (pairT t v) = wsum v t :=
  ⟨pairProd_prod v, wsum_pair t v h⟩

/-- `sumOthers u` is literally `Σ_i ∏_{j≠i} u_j`. -/
theorem sumOthers_eq_sum (u : List Nat) :
    sumOthers u = ((List.range u.length).map fun i => (u.eraseIdx i).prod).sum :=
  Paranoid.sumOthers_eq_sum u

/-- ★ `ExtendedProductTree(u)` for every non-empty `u` returns `T = Σ_i ∏_{j≠i} u_j` and a tree
whose bottom level is `u`, whose top level is `[∏ u]`, and in which every level is the pairwise
product (`zip_longest(…, fillvalue=1)`) of the level below. -/
theorem extendedProductTree_spec (u : List Nat) (hne : u ≠ []) :
    ∃ tree, extendedProductTree u = .ok (tree, sumOthers u) ∧ tree.head? = some u ∧
      tree.getLast? = some [u.prod] ∧ Chain tree := by
  refine ⟨levels u, extendedProductTree_eq u hne, by simp [levels], ?_, levels_chain u⟩
  rw [List.getLast?_eq_some_getLast (levels_ne_nil u), levels_getLast u hne]

/-- pinned behaviour (D1): `ExtendedProductTree` raises — `IndexError` — exactly on `[]`. -/
theorem extendedProductTree_raises_iff (u : List Nat) :
    (∃ e, extendedProductTree u = .error e) ↔ u = [] :=
  extendedProductTree_error_iff u

theorem extendedProductTree_empty : extendedProductTree [] = .error .indexError :=
  extendedProductTree_nil

/-- ★ `T_mod`: `T % v = (∏ of the other leaves) % v` for every leaf `v` (first occurrence
removed; needs neither positivity nor distinctness). -/
theorem T_mod (u : List Nat) (v : Nat) (hv : v ∈ u) :
    sumOthers u % v = (u.erase v).prod % v :=
  sumOthers_modEq u v hv

/-- the form in the code's docstring: `T % v == P // v % v` for positive leaves. -/
theorem T_mod_div (u : List Nat) (v : Nat) (hv : v ∈ u) (hpos : 0 < v) :
    sumOthers u % v = u.prod / v % v := by
  rw [T_mod u v hv, ← List.prod_erase hv, Nat.mul_div_cancel_left _ hpos]

/-- ★ remainder-tree invariant: walking the product tree of `u` from the root down, starting
with `[X]`, raises nothing and ends with `rem_j ≡ X (mod u_j)` at every leaf. -/
theorem remainder_inv (X : Nat) (u : List Nat) (hne : u ≠ []) (hpos : ∀ x ∈ u, 0 < x) :
    ∃ rems, remTree (levels u).reverse [X] = .ok rems ∧
      List.Forall₂ (fun r n => r ≡ X [MOD n]) rems u :=
  remTree_inv X u hne hpos

/-- one level of it: correct parents give correct children. -/
theorem remainder_step (X : Nat) (level prev : List Nat) (hpos : ∀ x ∈ level, 0 < x)
    (h : List.Forall₂ (fun r n => r ≡ X [MOD n]) prev (pairProd level)) :
    ∃ rems, remStep level prev = .ok rems ∧
      List.Forall₂ (fun r n => r ≡ X [MOD n]) rems level :=
  remStep_inv X level prev hpos h

/-! ## BatchGCD -/

/-- ★★ `batchGCD_spec`: for every batch of positive values, every `other_values_prod` and every
duplicate-free enumeration `u` of the value set, `BatchGCD` returns, for each position, the gcd
of that value with the product of the OTHER DISTINCT values times `other'`
(`other' = 1` for `None`/`0`). Includes the empty batch (repaired code). -/
theorem batchGCD_spec (values u : List Nat) (other : Option Nat)
    (hpos : ∀ v ∈ values, 0 < v) (_hnd : u.Nodup) (hmem : ∀ x, x ∈ u ↔ x ∈ values) :
    batchGCDWith u values other =
      .ok (values.map fun v => Nat.gcd v ((u.erase v).prod * otherVal other)) :=
  batchGCDWith_spec u values other (fun x hx => hpos x ((hmem x).1 hx))
    (fun v hv => (hmem v).2 hv)

/-- the same with the product taken over the value SET: the result is a function of
`(v, set(values), other)` only. -/
theorem batchGCD_spec_set (values u : List Nat) (other : Option Nat)
    (hpos : ∀ v ∈ values, 0 < v) (hnd : u.Nodup) (hmem : ∀ x, x ∈ u ↔ x ∈ values) :
    batchGCDWith u values other =
      .ok (values.map fun v =>
        Nat.gcd v ((∏ x ∈ values.toFinset.erase v, x) * otherVal other)) :=
  batchGCDWith_spec_set u values other hpos hnd hmem

/-- the executable instance used by the correspondence check (first-occurrence order). -/
theorem batchGCD_exec_spec (values : List Nat) (other : Option Nat)
    (hpos : ∀ v ∈ values, 0 < v) :
    batchGCD values other = .ok (values.map (entry values.toFinset (otherVal other))) :=
  batchGCD_exec values other hpos

/-- the unspecified iteration order of Python's `set` does not matter. -/
theorem order_independent (values u u' : List Nat) (other : Option Nat)
    (hpos : ∀ v ∈ values, 0 < v) (hnd : u.Nodup) (hmem : ∀ x, x ∈ u ↔ x ∈ values)
    (hnd' : u'.Nodup) (hmem' : ∀ x, x ∈ u' ↔ x ∈ values) :
    batchGCDWith u values other = batchGCDWith u' values other := by
  rw [batchGCDWith_spec_set u values other hpos hnd hmem,
    batchGCDWith_spec_set u' values other hpos hnd' hmem']

/-- the pinned code is the repaired code on every non-empty batch. -/
theorem pinned_agrees (values u : List Nat) (other : Option Nat) (h : values ≠ []) :
    batchGCDPinnedWith u values other = batchGCDWith u values other :=
  (batchGCDWith_eq_pinned u values other h).symm

/-- hence the spec holds for the pinned code on non-empty batches. -/
theorem batchGCD_spec_pinned (values u : List Nat) (other : Option Nat) (hne : values ≠ [])
    (hpos : ∀ v ∈ values, 0 < v) (hnd : u.Nodup) (hmem : ∀ x, x ∈ u ↔ x ∈ values) :
    batchGCDPinnedWith u values other =
      .ok (values.map fun v => Nat.gcd v ((u.erase v).prod * otherVal other)) := by
  rw [pinned_agrees values u other hne]
  exact batchGCD_spec values u other hpos hnd hmem

/-- ★ empty batch, repaired code: empty result, whatever `other`. -/
theorem empty_batch (u : List Nat) (other : Option Nat) :
    batchGCDWith u [] other = .ok [] ∧ batchGCD [] other = .ok [] := ⟨rfl, rfl⟩

/-- D1, pinned code: the empty batch raises `IndexError` (the only enumeration of `set([])` is
`[]`). -/
theorem empty_batch_pinned_raises (u : List Nat) (other : Option Nat)
    (hmem : ∀ x, x ∈ u ↔ x ∈ ([] : List Nat)) :
    batchGCDPinnedWith u [] other = .error .indexError := by
  have : u = [] := List.eq_nil_iff_forall_not_mem.2 fun x hx => by simpa using (hmem x).1 hx
  subst this
  exact batchGCDPinnedWith_nil [] other

/-- the positivity hypothesis cannot be dropped: a zero among ≥ 2 distinct values raises. -/
theorem zero_value_raises (u values : List Nat) (other : Option Nat)
    (h2 : 2 ≤ u.length) (h0 : 0 ∈ u) :
    batchGCDPinnedWith u values other = .error .zeroDivision :=
  batchGCDPinnedWith_zero u values other h2 h0

/-! ## corollaries: what a flag means -/

/-- `CheckGCD` flags `gcd != 1`; for a positive modulus that is `gcd > 1`. -/
theorem flagged_iff_gt_one (s : Finset Nat) (o v : Nat) (hv : 0 < v) :
    entry s o v ≠ 1 ↔ 1 < Nat.gcd v ((∏ x ∈ s.erase v, x) * o) := by
  have := entry_pos s o v hv
  unfold entry at this ⊢
  omega

/-- ★ a key is flagged exactly when its modulus shares a divisor > 1 with ANOTHER DISTINCT
modulus of the batch (or with `other`). -/
theorem flagged_iff_shares (s : Finset Nat) (o v : Nat) :
    entry s o v ≠ 1 ↔ Nat.gcd v o ≠ 1 ∨ ∃ w ∈ s, w ≠ v ∧ Nat.gcd v w ≠ 1 := by
  rw [Ne, entry_eq_one_iff]
  simp only [Nat.coprime_iff_gcd_eq_one, not_and_or, not_forall, exists_prop]

/-- ★ identical moduli never accuse each other: copies of `v`, and values coprime to `v`,
contribute nothing — the entry is 1. -/
theorem identical_never_accuse (values : List Nat) (v : Nat)
    (h : ∀ w ∈ values, w = v ∨ Nat.Coprime v w) : entry values.toFinset 1 v = 1 := by
  rw [entry_eq_one_iff]
  refine ⟨Nat.coprime_one_right v, fun w hw hne => ?_⟩
  exact (h w (List.mem_toFinset.1 hw)).resolve_left hne

/-- a batch of `k` copies of one modulus: all gcds are 1, nothing is flagged. -/
theorem all_identical (k n : Nat) (hn : 0 < n) :
    batchGCD (List.replicate k n) none = .ok (List.replicate k 1) := by
  rw [batchGCD_exec _ none (fun v hv => by rw [List.eq_of_mem_replicate hv]; exact hn)]
  congr 1
  rw [List.eq_replicate_iff]
  refine ⟨by simp, fun b hb => ?_⟩
  obtain ⟨v, hv, rfl⟩ := List.mem_map.1 hb
  apply identical_never_accuse
  intro w hw
  rw [List.eq_of_mem_replicate hv, List.eq_of_mem_replicate hw]
  exact Or.inl rfl

/-- ★ permutation-equivariance (indeed: dependence on the value set only). Two batches with the
same set of values — in particular a batch and any permutation of it — are answered by one and
the same function of the value, applied position by position. -/
theorem same_set_same_function (values values' : List Nat) (other : Option Nat)
    (hpos : ∀ v ∈ values, 0 < v) (hset : ∀ x, x ∈ values' ↔ x ∈ values) :
    ∃ f : Nat → Nat, batchGCD values other = .ok (values.map f) ∧
      batchGCD values' other = .ok (values'.map f) := by
  refine ⟨entry values.toFinset (otherVal other), batchGCD_exec values other hpos, ?_⟩
  rw [batchGCD_exec values' other (fun v hv => hpos v ((hset v).1 hv)),
    toFinset_eq_of_mem_iff hset]

theorem perm_equivariant (values values' : List Nat) (other : Option Nat)
    (hpos : ∀ v ∈ values, 0 < v) (hp : values.Perm values') :
    ∃ r r', batchGCD values other = .ok r ∧ batchGCD values' other = .ok r' ∧
      (values.zip r).Perm (values'.zip r') := by
  obtain ⟨f, h1, h2⟩ := same_set_same_function values values' other hpos
    (fun x => hp.symm.mem_iff)
  refine ⟨_, _, h1, h2, ?_⟩
  rw [zip_map_self, zip_map_self]
  exact hp.map _

/-- ★ adding a value coprime to `v` to the batch leaves `v`'s entry unchanged. -/
theorem coprime_value_irrelevant (s : Finset Nat) (o v w : Nat) (h : Nat.Coprime v w) :
    entry (insert w s) o v = entry s o v :=
  entry_insert_coprime s o v w h

/-- list form: prepending a modulus coprime to every value changes no existing entry. -/
theorem coprime_key_irrelevant (values : List Nat) (w : Nat) (other : Option Nat)
    (hpos : ∀ v ∈ values, 0 < v) (hw : 0 < w) (hc : ∀ v ∈ values, Nat.Coprime v w) :
    ∃ g r, batchGCD values other = .ok r ∧ batchGCD (w :: values) other = .ok (g :: r) := by
  refine ⟨entry (insert w values.toFinset) (otherVal other) w, _,
    batchGCD_exec values other hpos, ?_⟩
  rw [batchGCD_exec (w :: values) other (by
    intro v hv
    rcases List.mem_cons.1 hv with rfl | h
    · exact hw
    · exact hpos v h)]
  simp only [List.map_cons, List.toFinset_cons]
  congr 2
  apply List.map_congr_left
  intro v hv
  exact entry_insert_coprime _ _ v w (hc v hv)

/-! ## CheckGCD -/

/-- ★ `CheckGCD` on positive moduli: key `n` gets `checkGCDKeyR ns n g` with
`g = gcd(n, ∏ other distinct moduli)`; `any_weak` is the disjunction of the flags. -/
theorem checkGCD_spec (ns : List Nat) (hpos : ∀ n ∈ ns, 0 < n) :
    checkGCD ns = .ok
      ((ns.map fun n => checkGCDKeyR ns n (entry ns.toFinset 1 n)).any (·.1),
        ns.map fun n => checkGCDKeyR ns n (entry ns.toFinset 1 n)) :=
  checkGCD_eq ns hpos

/-- the per-key record: flagged iff `g ≠ 1`; then the recorded factors START with `[g, n / g]`
— the recorded factor is that greatest common divisor — followed, only when `g = n`, by a
proper split found from a single other modulus (`fix:` D2). -/
theorem checkGCDKey_spec (ns : List Nat) (n g : Nat) :
    ((checkGCDKeyR ns n g).1 = true ↔ g ≠ 1) ∧
      (g ≠ 1 → (checkGCDKeyR ns n g).2 = [g, n / g] ++ extraSplit ns n g) ∧
      (g ≠ 1 → g ≠ n → (checkGCDKeyR ns n g).2 = [g, n / g]) ∧
      (g = 1 → (checkGCDKeyR ns n g).2 = []) := by
  unfold checkGCDKeyR
  by_cases h : g = 1
  · simp [h]
  · simp only [h, if_false, ne_eq, not_false_eq_true, forall_const, true_and, iff_true,
      false_implies, and_true]
    intro hne
    simp [extraSplit, hne]

/-- ★ the recorded factors of a flagged key: `g ∣ n`, `g * (n / g) = n`, and the record
degenerates to `{n, 1}` exactly when `n` divides the product of the other distinct moduli
(e.g. nested moduli, or the batch `[pq, pr, qs]` — defect D2 of DESIGN section 6). -/
theorem checkGCD_factors (s : Finset Nat) (n : Nat) :
    entry s 1 n ∣ n ∧ entry s 1 n * (n / entry s 1 n) = n ∧
      (entry s 1 n = n ↔ n ∣ ∏ x ∈ s.erase n, x) := by
  refine ⟨entry_dvd s 1 n, Nat.mul_div_cancel' (entry_dvd s 1 n), ?_⟩
  rw [entry_eq_self_iff, Nat.mul_one]

/-- ★ (code after `fix:` D2) every recorded value of a flagged key divides the modulus, and
at least one is a PROPER divisor unless the modulus divides another distinct modulus of the
batch — the last clause of property C01 for `CheckGCD`. -/
theorem checkGCD_recorded_proper (ns : List Nat) (n : Nat) (hn : 1 < n)
    (hflag : entry ns.toFinset 1 n ≠ 1) :
    (∀ f ∈ (checkGCDKeyR ns n (entry ns.toFinset 1 n)).2, f ∣ n) ∧
    ((∃ f ∈ (checkGCDKeyR ns n (entry ns.toFinset 1 n)).2, 1 < f ∧ f < n) ∨
      ∃ m ∈ ns, m ≠ n ∧ n ∣ m) := by
  refine ⟨?_, checkGCDKeyR_proper ns n hn hflag⟩
  intro f hf
  rw [(checkGCDKey_spec ns n _).2.1 hflag] at hf
  rcases List.mem_append.mp hf with h | h
  · simp only [List.mem_cons, List.not_mem_nil, or_false] at h
    rcases h with rfl | rfl
    · exact entry_dvd _ _ _
    · exact Nat.div_dvd_of_dvd (entry_dvd _ _ _)
  · exact extraSplit_dvd ns n _ f h

/-- `any_weak` is true iff some key is flagged iff some modulus shares a divisor with another
distinct modulus. -/
theorem checkGCD_any_weak (ns : List Nat) (hpos : ∀ n ∈ ns, 0 < n) (w : Bool)
    (per : List (Bool × List Nat)) (h : checkGCD ns = .ok (w, per)) :
    w = true ↔ ∃ n ∈ ns, ∃ m ∈ ns, m ≠ n ∧ Nat.gcd n m ≠ 1 := by
  rw [checkGCD_eq ns hpos] at h
  simp only [Except.ok.injEq, Prod.mk.injEq] at h
  rw [← h.1, List.any_eq_true]
  constructor
  · rintro ⟨k, hk, hk1⟩
    obtain ⟨n, hn, rfl⟩ := List.mem_map.1 hk
    rw [(checkGCDKey_spec ns n _).1, flagged_iff_shares] at hk1
    rcases hk1 with h1 | ⟨m, hm, hne, hg⟩
    · simp at h1
    · exact ⟨n, hn, m, List.mem_toFinset.1 hm, hne, hg⟩
  · rintro ⟨n, hn, m, hm, hne, hg⟩
    refine ⟨_, List.mem_map.2 ⟨n, hn, rfl⟩, ?_⟩
    rw [(checkGCDKey_spec ns n _).1, flagged_iff_shares]
    exact Or.inr ⟨m, List.mem_toFinset.2 hm, hne, hg⟩

/-! ## CheckGCDN1 -/

/-- ★ `CheckGCDN1(bound)` on moduli `≥ 2`: key `n` is flagged iff
`gcd(n-1, ∏ {n'-1 : n' in the batch, n'-1 ≠ n-1}) ≥ bound`, and then `[gcd]` is attached. -/
theorem checkGCDN1_spec (bound : Nat) (ns : List Nat) (hpos : ∀ n ∈ ns, 2 ≤ n) :
    checkGCDN1 bound ns = .ok
      ((ns.map fun n => checkGCDN1Key bound (entry (ns.map (· - 1)).toFinset 1 (n - 1))).any (·.1),
        ns.map fun n => checkGCDN1Key bound (entry (ns.map (· - 1)).toFinset 1 (n - 1))) :=
  checkGCDN1_eq bound ns hpos

theorem checkGCDN1Key_spec (bound g : Nat) :
    ((checkGCDN1Key bound g).1 = true ↔ bound ≤ g) ∧
      (bound ≤ g → (checkGCDN1Key bound g).2 = [g]) ∧
      (g < bound → (checkGCDN1Key bound g).2 = []) := by
  unfold checkGCDN1Key
  by_cases h : bound ≤ g <;> simp [h]

/-! ## empty batch at check level (repaired code) -/

theorem checkGCD_empty : checkGCD [] = .ok (false, []) := rfl

theorem checkGCDN1_empty (bound : Nat) : checkGCDN1 bound [] = .ok (false, []) := rfl

/-- pinned code at check level: identical on non-empty batches, `IndexError` on the empty one
(this is what `CheckAllRSA([])` propagates). -/
theorem check_pinned_agrees (bound : Nat) (ns : List Nat) (h : ns ≠ []) :
    checkGCDPinned ns = checkGCD ns ∧ checkGCDN1Pinned bound ns = checkGCDN1 bound ns := by
  unfold checkGCDPinned checkGCD checkGCDN1Pinned checkGCDN1 checkGCDV checkGCDN1V
  rw [batchGCDPinned_eq ns none h, batchGCDPinned_eq (ns.map (· - 1)) none (by simpa using h)]
  exact ⟨rfl, rfl⟩

theorem check_pinned_empty_raises (bound : Nat) :
    checkGCDPinned [] = .error .indexError ∧ checkGCDN1Pinned bound [] = .error .indexError := by
  unfold checkGCDPinned checkGCDN1Pinned checkGCDV checkGCDN1V batchGCDPinned
  simp only [List.map_nil, List.eraseDups_nil, batchGCDPinnedWith_nil]
  exact ⟨rfl, rfl⟩

/-! ## non-vacuity: concrete, non-trivial instances of the hypotheses and conclusions -/

-- shared primes, a duplicate, a nested modulus (21 ∣ 3·7·…), `other` given
example : batchGCD [6, 35, 6, 21, 143] (some 11) = .ok [3, 7, 3, 21, 11] := by decide +kernel
example : batchGCDWith [143, 21, 6, 35] [6, 35, 6, 21, 143] (some 11) = .ok [3, 7, 3, 21, 11] := by
  decide +kernel
example : ∀ v ∈ [6, 35, 6, 21, 143], 0 < v := by decide
example : [143, 21, 6, 35].Nodup ∧ ∀ x, x ∈ [143, 21, 6, 35] ↔ x ∈ [6, 35, 6, 21, 143] := by
  refine ⟨by decide, fun x => ?_⟩
  simp only [List.mem_cons, List.not_mem_nil, or_false]
  omega
example : extendedProductTree [2, 3, 5] = .ok ([[2, 3, 5], [6, 5], [30]], 31) := by decide +kernel
example : sumOthers [2, 3, 5] = 31 ∧ 31 % 5 = ([2, 3, 5].erase 5).prod % 5 := by decide
example : batchGCD [15, 15, 15] none = .ok [1, 1, 1] := by decide +kernel
example : batchGCDPinned [] none = .error .indexError := by decide +kernel
example : batchGCD [0, 5] none = .error .zeroDivision := by decide +kernel
example : checkGCD [6, 15, 6, 221] = .ok (true, [(true, [3, 2]), (true, [3, 5]), (true, [3, 2]),
    (false, [])]) := by decide +kernel
-- D2 shape: 15 = 3·5 divides 6·35, the record is {15, 1}
example : checkGCD [6, 15, 35] = .ok (true, [(true, [3, 2]), (true, [15, 1, 3, 5]), (true, [5, 7])]) := by
  decide +kernel
example : checkGCDN1 6 [13, 19, 11] = .ok (true, [(true, [12]), (true, [6]), (false, [])]) := by
  decide +kernel
example : ∀ n ∈ [13, 19, 11], 2 ≤ n := by decide

end Paranoid.C03
