/-
Props/C04.lean — "RSA keys whose primes are close in a documented sense are always factored".

Proved here at full strength: the Fermat clause (first sentence of the property).
The other clauses are stated as `def … : Prop` below and are NOT asserted (see DESIGN.md):
their truth depends on a float cube root, on the convergents of p0/q0 hitting Lehman's
interval, and (D6) on the pinned control flow that gives up after the first admissible
convergent.
-/
import ParanoidModel.Proofs.Lehman
import Mathlib.Data.Nat.GCD.Basic
namespace Paranoid.C04
open Paranoid

/-- **Fermat clause, exact.** For distinct odd primes `p < q` and every step bound,
`FermatFactor(p*q, steps)` returns `(q, p)` exactly when
`(p+q)/2 - ceil(sqrt(p*q)) < steps` (`ceil(sqrt n) = isqrt n + 1` as `n` is not a square),
and `None` otherwise. -/
theorem fermat_exact {p q : Nat} (hp : p.Prime) (hq : q.Prime) (hpq : p < q)
    (hpo : p % 2 = 1) (hqo : q % 2 = 1) (steps : Nat) :
    fermatFactor (p * q) steps =
      if (p + q) / 2 - (Nat.sqrt (p * q) + 1) < steps then some (q, p) else none := by
  have hp2 := hp.two_le
  have hq2 := hq.two_le
  obtain ⟨k, hk⟩ : ∃ k, q = p + 2 * k := ⟨(q - p) / 2, by omega⟩
  have hk1 : 1 ≤ k := by omega
  have hodd : (p * q) % 2 = 1 := by rw [Nat.mul_mod, hpo, hqo]
  have hnsq : ¬ (Nat.sqrt (p * q) * Nat.sqrt (p * q) = p * q) := by
    intro h
    have hdvd : p ∣ Nat.sqrt (p * q) * Nat.sqrt (p * q) := by rw [h]; exact Dvd.intro _ rfl
    have hps : p ∣ Nat.sqrt (p * q) := by
      rcases (Nat.Prime.dvd_mul hp).mp hdvd with h1 | h1 <;> exact h1
    obtain ⟨c, hc⟩ := hps
    rw [hc] at h
    have : p * (c * (p * c)) = p * q := by rw [← h]; ring
    have hq' : c * (p * c) = q := Nat.eq_of_mul_eq_mul_left (by omega) this
    have : p ∣ q := ⟨c * c, by rw [← hq']; ring⟩
    rcases (Nat.dvd_prime hq).mp this with h1 | h1 <;> omega
  set n := p * q with hn
  set A := (p + q) / 2 with hA
  have hAk : A = p + k := by omega
  have hAsq : A * A = n + k * k := by
    rw [hAk, hn, hk]; ring
  have hlt : Nat.sqrt n < A := by
    rw [Nat.sqrt_lt']
    have : 0 < k * k := Nat.mul_pos hk1 hk1
    rw [Nat.pow_two]; omega
  have ha0 : n < (Nat.sqrt n + 1) * (Nat.sqrt n + 1) := Nat.lt_succ_sqrt n
  have hAB : A < (n + 1) / 2 := by
    have h1 : p + q < n + 1 := by
      have : (p - 1) * (q - 1) ≥ 1 := Nat.mul_pos (by omega) (by omega)
      have e : n = (p - 1) * (q - 1) + (p + q) - 1 := by
        obtain ⟨p', rfl⟩ : ∃ p', p = p' + 1 := ⟨p - 1, by omega⟩
        obtain ⟨q', rfl⟩ : ∃ q', q = q' + 1 := ⟨q - 1, by omega⟩
        simp only [hn, Nat.add_sub_cancel]
        have : (p' + 1) * (q' + 1) = p' * q' + (p' + 1 + (q' + 1)) - 1 := by
          have : (p' + 1) * (q' + 1) = p' * q' + p' + q' + 1 := by ring
          omega
        exact this
      have hp1 : (p - 1) * (q - 1) ≥ 2 := by
        have : 1 ≤ p - 1 := by omega
        have : 2 ≤ q - 1 := by omega
        nlinarith
      omega
    omega
  -- no square strictly between a0 and A
  have hno : ∀ j < A - (Nat.sqrt n + 1), ¬ SqAt n (Nat.sqrt n + 1 + j) := by
    intro j hj hs
    have hle : n ≤ (Nat.sqrt n + 1 + j) * (Nat.sqrt n + 1 + j) := by
      have : (Nat.sqrt n + 1) * (Nat.sqrt n + 1) ≤ (Nat.sqrt n + 1 + j) * (Nat.sqrt n + 1 + j) :=
        Nat.mul_le_mul (by omega) (by omega)
      omega
    rcases (sq_at_prime_product hp hq hpq hpo hqo _ hle).mp hs with h | h <;> omega
  have hsqA : SqAt n (Nat.sqrt n + 1 + (A - (Nat.sqrt n + 1))) := by
    rw [show Nat.sqrt n + 1 + (A - (Nat.sqrt n + 1)) = A by omega]
    exact (sq_at_prime_product hp hq hpq hpo hqo A (by omega)).mpr (Or.inl rfl)
  unfold fermatFactor
  rw [if_neg (by omega), if_neg (by simpa [isqrt] using hnsq)]
  simp only [isqrt]
  split
  · rename_i hsteps
    rw [fermatLoop_first n steps _ _ (A - (Nat.sqrt n + 1)) (by omega) hsteps hno hsqA]
    rw [show Nat.sqrt n + 1 + (A - (Nat.sqrt n + 1)) = A by omega]
    have : A * A - n = k * k := by omega
    rw [this, Nat.sqrt_eq]
    congr 2 <;> omega
  · rename_i hsteps
    apply fermatLoop_none n _ _ _ (by omega)
    intro j hj
    exact hno j (by omega)

/-- even moduli are split by the shortcut, whatever the step bound. -/
theorem fermat_even (n steps : Nat) (h : n % 2 = 0) : fermatFactor n steps = some (2, n / 2) := by
  simp [fermatFactor, h]

/-- perfect squares are split by the shortcut, whatever the step bound. -/
theorem fermat_square (a steps : Nat) (h : (a * a) % 2 = 1) :
    fermatFactor (a * a) steps = some (a, a) := by
  unfold fermatFactor
  rw [if_neg (by omega)]
  simp [isqrt, Nat.sqrt_eq]

/-- contrapositive used by C07: primes far apart ⇒ Fermat is silent. -/
theorem fermat_silent {p q : Nat} (hp : p.Prime) (hq : q.Prime) (hpq : p < q)
    (hpo : p % 2 = 1) (hqo : q % 2 = 1) (steps : Nat)
    (hfar : steps ≤ (p + q) / 2 - (Nat.sqrt (p * q) + 1)) :
    fermatFactor (p * q) steps = none := by
  rw [fermat_exact hp hq hpq hpo hqo, if_neg (by omega)]


/-- **Exact success condition of the Fermat step inside `FactorWithGuess`** (used by the
small-upper-difference and unseeded-PRNG checks): for `d = 4·u·v·n = (2uq)(2vp)` the step
`a = ceil(sqrt d)`, `is_square(a² - d)` succeeds with `a = uq + vp` exactly when
`(uq - vp)² < 2(uq + vp) - 1`. -/
theorem fwg_one_step (u v p q : Nat) (hu : 0 < u) (hv : 0 < v) (hp : 0 < p) (hq : 0 < q) :
    ceilSqrt (4 * u * v * (p * q)) = u * q + v * p ↔
      ((u * q : Nat) - (v * p : Nat) : Int) * ((u * q : Nat) - (v * p : Nat) : Int)
        < 2 * (((u * q : Nat) : Int) + (v * p : Nat)) - 1 := by
  have e : 4 * u * v * (p * q) = 4 * (u * q) * (v * p) := by ring
  rw [e]
  exact fermat_one_step (u * q) (v * p) (Nat.mul_pos hu hq) (Nat.mul_pos hv hp)

/-- When that condition holds and the convergent is not degenerate (`p ∤ u`, `q ∤ v`),
the step returns both primes — for every odd prime pair. -/
theorem fwg_step_post {p q : Nat} (hp : p.Prime) (hq : q.Prime) (hpq : p ≠ q)
    (hpo : p % 2 = 1) (hqo : q % 2 = 1) (u v : Nat) (hu : 0 < u) (hv : 0 < v)
    (hpu : ¬ p ∣ u) (hqv : ¬ q ∣ v)
    (hcond : ((u * q : Nat) - (v * p : Nat) : Int) * ((u * q : Nat) - (v * p : Nat) : Int)
        < 2 * (((u * q : Nat) : Int) + (v * p : Nat)) - 1) :
    fwgFinish (p * q) (ceilSqrt (4 * u * v * (p * q))) (4 * u * v * (p * q)) = some [q, p] ∨
    fwgFinish (p * q) (ceilSqrt (4 * u * v * (p * q))) (4 * u * v * (p * q)) = some [p, q] := by
  have hp2 := hp.two_le
  have hq2 := hq.two_le
  have e : 4 * u * v * (p * q) = 4 * (u * q) * (v * p) := by ring
  rw [e, fwgFinish_of_step (p * q) (u * q) (v * p) (Nat.mul_pos hu (by omega))
    (Nat.mul_pos hv (by omega)) hcond]
  have hp2u : Nat.Coprime (2 * u) p := by
    rw [Nat.coprime_comm, Nat.Prime.coprime_iff_not_dvd hp]
    intro h
    rcases (Nat.Prime.dvd_mul hp).mp h with h | h
    · have := Nat.le_of_dvd (by omega) h; omega
    · exact hpu h
  have hq2v : Nat.Coprime (2 * v) q := by
    rw [Nat.coprime_comm, Nat.Prime.coprime_iff_not_dvd hq]
    intro h
    rcases (Nat.Prime.dvd_mul hq).mp h with h | h
    · have := Nat.le_of_dvd (by omega) h; omega
    · exact hqv h
  have hlt1 : q < p * q := by nlinarith
  have hlt2 : p < p * q := by nlinarith
  rcases Nat.le_total (v * p) (u * q) with hle | hle
  · left
    rw [Nat.max_eq_left hle]
    have hg : Nat.gcd (2 * (u * q)) (p * q) = q := by
      rw [show 2 * (u * q) = (2 * u) * q by ring, Nat.gcd_mul_right, hp2u.gcd_eq_one, Nat.one_mul]
    rw [hg]
    unfold splitBy
    rw [if_pos ⟨by omega, hlt1⟩, Nat.mul_div_cancel _ (by omega)]
  · right
    rw [Nat.max_eq_right hle]
    have hg : Nat.gcd (2 * (v * p)) (p * q) = p := by
      rw [show 2 * (v * p) = (2 * v) * p by ring, show p * q = q * p by ring,
        Nat.gcd_mul_right, hq2v.gcd_eq_one, Nat.one_mul]
    rw [hg]
    unfold splitBy
    rw [if_pos ⟨by omega, hlt2⟩, Nat.mul_div_cancel_left _ (by omega)]

/-- the control flow of `FactorWithGuess` over the convergents (after the `fix:` that keeps
trying while `u*v ≤ bound` this lemma is about the FIRST admissible convergent only). -/
theorem fwg_first_admissible (n p0 q0 bound a u v : Nat) (rest : List (Nat × Nat × Nat))
    (hadm : ((u : Int) * q0 - (v : Int) * p0).natAbs < bound)
    (fs : List Nat) (h : fwgFinish n (ceilSqrt (4 * u * v * n)) (4 * u * v * n) = some fs) :
    fwgLoop n p0 q0 bound ((a, u, v) :: rest) = some fs := by
  unfold fwgLoop
  rw [if_pos hadm, h]

/-- the six differences tried are exactly the documented ones, in this order. -/
theorem sud_differences (L : Nat) :
    sudDifferences L = [2 ^ (L - 100), 2 ^ (L - 128), 2 ^ (L - 160), 2 ^ (L - 256),
      2 ^ (L - 2), 2 ^ (L - 3)] := rfl

/-- the guess for difference `D` is exact when `q - p = D`:
`isqrt(n + (D/2)²) + D/2 = q` for `n = p·q`, `q = p + D`, `D` even. -/
theorem sud_guess_exact (p D : Nat) (hD : D % 2 = 0) :
    sudGuess (p * (p + D)) D = p + D := by
  unfold sudGuess isqrt
  obtain ⟨k, rfl⟩ : ∃ k, D = 2 * k := ⟨D / 2, by omega⟩
  have : p * (p + 2 * k) + (2 * k / 2) ^ 2 = (p + k) * (p + k) := by
    rw [Nat.mul_div_cancel_left _ (by omega : 0 < 2)]; ring
  rw [this, Nat.sqrt_eq, Nat.mul_div_cancel_left _ (by omega : 0 < 2)]
  omega

/-! Non-vacuity. -/
example : fermatFactor (89 * 97) 1 = some (97, 89) := by decide +kernel
example : fermatFactor (89 * 97) 0 = none := by decide +kernel
example : fermatFactor (101 * 199) 8 = none ∧ fermatFactor (101 * 199) 9 = some (199, 101) := by
  decide +kernel

/-! ### Clauses of C04 that are stated but NOT asserted (undecided by proof). -/

/-- second sentence (equal high and low bits) — full statement, not proved. -/
def hlbe_complete_statement : Prop :=
  ∀ (p q r s : Nat), p.Prime → q.Prime → p ≠ q → 3 ≤ r →
    p % 2 ^ r = q % 2 ^ r → bitLength p = bitLength q →
    p / 2 ^ (bitLength p - s) = q / 2 ^ (bitLength q - s) →
    bitLength (p * q) / 4 + 2 ≤ r + s →
    (∃ fs, factorHighAndLowBitsEqual (p * q) 3 = .ok (some fs)) ∨
      (∃ x y, fermatFactor (p * q) 100000 = some (x, y))

end Paranoid.C04
