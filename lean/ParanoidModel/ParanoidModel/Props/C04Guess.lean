/-
Props/C04Guess.lean — third sentence of C04 (guess-based families), COMPLETENESS for the repaired
`FactorWithGuess` (fix bc0d52f: every convergent with `u·v ≤ n^(1/3)` is tried).

"q is the next prime after p + D" / "a prime within a prime gap of a listed output" is not a
statement Lean can use (it would need a bound on prime gaps); it is replaced by an explicit
GAP BOUND `g ≤ G(L)`:

    GapOK L g  :=  (g + 2)² · 2^12 ≤ 2^(L/2)        (g + 2 ≤ 2^(L/4 − 6);  L = 384: g < 2^90)

Prime gaps near 2^384 … 2^2048 are below 2^13 in practice (largest known maximal gaps are
`< 2^11`; Cramér's heuristic `ln² x ≈ 2^21` for 2048-bit x), so every real member of the two
families satisfies `GapOK` with > 60 bits to spare.  The bound is what a Lehman-type worst-case
argument gives for ONE Fermat step per convergent: `|p0 − P| ≲ n^(1/8)`; experimentally random
members are factored up to `≈ n^(1/6)` (first misses at `|p0 − P| ≈ 2^(L/3)`), so beyond
`GapOK` the real code may or may not succeed — that region is sampled (statistics only) by
harness/corr/c04.py.

FLOAT ORACLE.  `bound = int((n >> 3·shift) ** (1/3)) << shift` is an explicit argument; the
theorems hold for EVERY value with `CbrtOK n cbrt`: `n ≤ 8·bound³ ∧ 16·bound³ ≤ 81·n`, i.e.
`bound ∈ [0.5, 1.717] · n^(1/3)`.  The real expression gives `bound³/n ∈ [1 − 6·10^-13, 1]` on
3000 random n of 128 … 4096 bits (c04.py re-checks `CbrtOK` on every modulus it sends, tag
`cbrt-ok`).  Outside `CbrtOK`: a `bound` below `n^(1/4)` makes no convergent admissible (returns
`None`), a `bound` above `1.717·n^(1/3)` can let a failing convergent with `u·v > n^(1/3)` pass.

PRIMALITY is not needed for factor recovery: the theorems hold for any `L`-bit `p`, `q`
(not even coprime or odd) and return a proper split `[g, n/g]`, `1 < g < n`, `g ∣ n`
(`…_complete`); for primes that split is `{p, q}` (`…_primes`).

No hypothesis on the convergent sequence: the proof (Proofs/FwgCompleteLoop.lean) is an induction
over Euclid's algorithm on `(p0, q0)` showing that the remainder stays `≥ 2^(L/2)` until a
convergent succeeds, that every failing admissible convergent before it has `u·v ≤ bound`, and
that the last convergent (remainder 0) cannot fail.  All six differences are covered by the same
argument (`D = 2^(L-2), 2^(L-3)`, where `p/q ∈ (2/3, 8/9)`, need nothing special: the successful
convergent is whichever one first has `(uQ − vP)² < 2(uQ + vP) − 1`).
-/
import ParanoidModel.Proofs.FwgCompleteFamilies

namespace Paranoid.C04Guess
open Paranoid Paranoid.FwgC

/-- the gap bound: `(g + 2)²·2^12 ≤ 2^(L/2)`. -/
def GapOK (L g : Nat) : Prop := (g + 2) ^ 2 * 2 ^ 12 ≤ 2 ^ (L / 2)

instance (L g : Nat) : Decidable (GapOK L g) := by unfold GapOK; infer_instance

/-- closed form of the largest admissible gap (exact when `4 ∣ L`). -/
def gapBound (L : Nat) : Nat := 2 ^ (L / 4 - 6) - 2

theorem gapOK_mono {L g g' : Nat} (h : g ≤ g') (hg : GapOK L g') : GapOK L g := by
  unfold GapOK at *
  have : (g + 2) ^ 2 ≤ (g' + 2) ^ 2 := Nat.pow_le_pow_left (by omega) 2
  exact le_trans (Nat.mul_le_mul_right _ this) hg

/-- every gap up to `2^(L/4 − 6) − 2` is admissible (`L ≥ 28`). -/
theorem gapOK_of_le_gapBound {L g : Nat} (hL : 28 ≤ L) (h : g ≤ gapBound L) : GapOK L g := by
  apply gapOK_mono h
  unfold GapOK gapBound
  have h1 : 2 ≤ 2 ^ (L / 4 - 6) := by
    calc 2 = 2 ^ 1 := by norm_num
      _ ≤ 2 ^ (L / 4 - 6) := Nat.pow_le_pow_right (by omega) (by omega)
  rw [show 2 ^ (L / 4 - 6) - 2 + 2 = 2 ^ (L / 4 - 6) by omega, ← pow_mul, ← pow_add]
  exact Nat.pow_le_pow_right (by omega) (by omega)

/-- **`FactorWithGuess`, completeness.** `P`, `Q` any `L`-bit numbers, `n = P·Q`, a guess `p0`
within `E` of `P` with `GapOK L E`, every admissible oracle value: the repaired function returns
a proper split of `n`. -/
theorem fwg_complete (L P Q p0 E cbrt : Nat)
    (hP1 : 2 ^ (L - 1) ≤ P) (hP2 : P < 2 ^ L) (hQ1 : 2 ^ (L - 1) ≤ Q) (hQ2 : Q < 2 ^ L)
    (hE : GapOK L E) (hE1 : p0 ≤ P + E) (hE2 : P ≤ p0 + E) (horc : CbrtOK (P * Q) cbrt) :
    ∃ fs, factorWithGuess (P * Q) p0 cbrt = .ok (some fs) ∧ ProperSplit (P * Q) fs :=
  fwg_complete_sized L P Q p0 E cbrt hP1 hP2 hQ1 hQ2 hE hE1 hE2 horc

/-- all six documented differences are even (and positive) for `L ≥ 384`. -/
theorem sud_difference_even {L D : Nat} (hL : 384 ≤ L) (hD : D ∈ sudDifferences L) :
    ∃ k, D = 2 * k := by
  have key : ∀ j, j ≤ 256 → ∃ k, 2 ^ (L - j) = 2 * k := by
    intro j hj
    refine ⟨2 ^ (L - j - 1), ?_⟩
    rw [show L - j = (L - j - 1) + 1 by omega, pow_succ]
    simp only [show L - j - 1 + 1 - 1 = L - j - 1 by omega]; ring
  unfold sudDifferences at hD
  rcases List.mem_cons.mp hD with h | hD
  · rw [h]; exact key 100 (by omega)
  rcases List.mem_cons.mp hD with h | hD
  · rw [h]; exact key 128 (by omega)
  rcases List.mem_cons.mp hD with h | hD
  · rw [h]; exact key 160 (by omega)
  rcases List.mem_cons.mp hD with h | hD
  · rw [h]; exact key 256 (by omega)
  rcases List.mem_cons.mp hD with h | hD
  · rw [h]; exact key 2 (by omega)
  rcases List.mem_cons.mp hD with h | hD
  · rw [h]; exact key 3 (by omega)
  · exact absurd hD (List.not_mem_nil)


/-- **(A) `sud_complete`.** `p < q` any two `L`-bit numbers, `L ≥ 384`, `D` one of the six
documented differences for that `L`, `q = p + D + g` with `GapOK L g`: for every admissible value
of the float oracle `CheckSmallUpperDifferences(p·q)` returns a proper split of `p·q`. -/
theorem sud_complete (L p q D g cbrt : Nat) (hL : 384 ≤ L)
    (hp1 : 2 ^ (L - 1) ≤ p) (hp2 : p < 2 ^ L) (hq1 : 2 ^ (L - 1) ≤ q) (hq2 : q < 2 ^ L)
    (hD : D ∈ sudDifferences L) (hq : q = p + D + g) (hg : GapOK L g)
    (horc : CbrtOK (p * q) cbrt) :
    ∃ fs, checkSmallUpperDifferences (p * q) cbrt = .ok (some fs) ∧ ProperSplit (p * q) fs := by
  obtain ⟨k, rfl⟩ := sud_difference_even hL hD
  have hps := primeSize_eq L p q (by omega) hp1 hp2 hq1 hq2
  have hnear := sudGuess_near p k g
  rw [← hq] at hnear
  have hn : 0 < p * q := by
    have : 0 < 2 ^ (L - 1) := Nat.pow_pos (by omega)
    exact Nat.mul_pos (by omega) (by omega)
  have horc' : CbrtOK (q * p) cbrt := by rw [Nat.mul_comm]; exact horc
  obtain ⟨fs, hfs, _⟩ := fwg_complete L q p (sudGuess (p * q) (2 * k)) g cbrt hq1 hq2 hp1 hp2 hg
    (by omega) (by omega) horc'
  rw [Nat.mul_comm q p] at hfs
  unfold checkSmallUpperDifferences
  simp only [hps]
  rw [if_neg (by omega)]
  exact sudLoop_complete (p * q) cbrt hn (2 * k) fs hfs _ hD

/-- (A) for primes: both primes are returned. -/
theorem sud_complete_primes (L p q D g cbrt : Nat) (hL : 384 ≤ L) (hp : p.Prime) (hqp : q.Prime)
    (hp1 : 2 ^ (L - 1) ≤ p) (hq2 : q < 2 ^ L)
    (hD : D ∈ sudDifferences L) (hq : q = p + D + g) (hg : GapOK L g)
    (horc : CbrtOK (p * q) cbrt) :
    checkSmallUpperDifferences (p * q) cbrt = .ok (some [p, q]) ∨
      checkSmallUpperDifferences (p * q) cbrt = .ok (some [q, p]) := by
  obtain ⟨fs, h, hs⟩ := sud_complete L p q D g cbrt hL hp1 (by omega) (by omega) hq2 hD hq hg horc
  rcases properSplit_primes hp hqp hs with rfl | rfl
  · exact Or.inl h
  · exact Or.inr h

/-- (A) at check level: `CheckSmallUpperDifferences.Check` flags the key and records the split. -/
theorem sud_check_complete (L p q D g cbrt : Nat) (hL : 384 ≤ L)
    (hp1 : 2 ^ (L - 1) ≤ p) (hp2 : p < 2 ^ L) (hq1 : 2 ^ (L - 1) ≤ q) (hq2 : q < 2 ^ L)
    (hD : D ∈ sudDifferences L) (hq : q = p + D + g) (hg : GapOK L g)
    (horc : CbrtOK (p * q) cbrt) :
    ∃ fs, vSud (p * q) cbrt = .ok ⟨true, fs, false⟩ ∧ ProperSplit (p * q) fs := by
  obtain ⟨fs, h, hs⟩ := sud_complete L p q D g cbrt hL hp1 hp2 hq1 hq2 hD hq hg horc
  obtain ⟨g', rfl, _⟩ := hs
  refine ⟨_, ?_, ⟨g', rfl, by assumption⟩⟩
  unfold vSud
  rw [h]

/-- **(B) `unseeded_complete`.** `p` within `[x, x + G]` of a candidate `x` that
`CheckUnseededRand` tries (a listed output or one of its two msb variants — `cands` is the
flattened sequence the check iterates over, none of them 0), `GapOK L G`, `q` any `L`-bit
cofactor: the check flags the key and records a proper split, for every admissible oracle value. -/
theorem unseeded_complete (L p q x G cbrt : Nat) (cands : List Nat)
    (hp1 : 2 ^ (L - 1) ≤ p) (hp2 : p < 2 ^ L) (hq1 : 2 ^ (L - 1) ≤ q) (hq2 : q < 2 ^ L)
    (hx : x ∈ cands) (hnz : ∀ c ∈ cands, c ≠ 0) (hxp : x ≤ p) (hpx : p ≤ x + G) (hG : GapOK L G)
    (horc : CbrtOK (p * q) cbrt) :
    ∃ fs, vUnseeded (p * q) cbrt cands = .ok ⟨true, fs, false⟩ ∧ ProperSplit (p * q) fs := by
  obtain ⟨fs, hfs, _⟩ := fwg_complete L p q x G cbrt hp1 hp2 hq1 hq2 hG (by omega) (by omega) horc
  exact unseededLoop_complete (p * q) cbrt x fs hfs cands hnz hx

/-- (B) for primes: both primes are recorded. -/
theorem unseeded_complete_primes (L p q x G cbrt : Nat) (cands : List Nat)
    (hp : p.Prime) (hqp : q.Prime)
    (hp1 : 2 ^ (L - 1) ≤ p) (hp2 : p < 2 ^ L) (hq1 : 2 ^ (L - 1) ≤ q) (hq2 : q < 2 ^ L)
    (hx : x ∈ cands) (hnz : ∀ c ∈ cands, c ≠ 0) (hxp : x ≤ p) (hpx : p ≤ x + G) (hG : GapOK L G)
    (horc : CbrtOK (p * q) cbrt) :
    vUnseeded (p * q) cbrt cands = .ok ⟨true, [p, q], false⟩ ∨
      vUnseeded (p * q) cbrt cands = .ok ⟨true, [q, p], false⟩ := by
  obtain ⟨fs, h, hs⟩ := unseeded_complete L p q x G cbrt cands hp1 hp2 hq1 hq2 hx hnz hxp hpx hG horc
  rcases properSplit_primes hp hqp hs with rfl | rfl
  · exact Or.inl h
  · exact Or.inr h

/-- the documented msb variants of a listed output are among the values tried. -/
theorem variants_mem (n p0 : Nat) :
    p0 ∈ unseededVariants n p0 ∧
    (p0 ||| 2 ^ ((bitLength n + 1) / 2 - 1)) ∈ unseededVariants n p0 ∧
    (p0 ||| (2 ^ ((bitLength n + 1) / 2 - 1) ||| 2 ^ ((bitLength n + 1) / 2 - 2))) ∈
      unseededVariants n p0 := by
  simp [unseededVariants]

/-! ### Non-vacuity: real 768/1024-bit members (kernel-checked hypotheses).

`exP`, `exQ = next_prime(exP + 2^284)` are 384-bit primes (gmpy2; primality is not a hypothesis
of `sud_complete`), gap `g = 126`; `exP2`, `exQ2` a member for `D = 2^(L-2)` at the far end of
the gap bound (`g ≈ 2^89`); `exX` is the first 512-bit entry of the shipped 512-bit
unseeded-output table, `exP3 = next_prime(exX)` (gap 426), `exQ3` a random 512-bit prime.
The oracle values are the ones the real float expression returns. -/

def exP : Nat := 28338541162182932974829969125411287483968948220394556338552803126843652558550087648242744320538022771922850861886551
def exQ : Nat := 28338541162182932974829969125442370186244559885529267729061979429349931067974921880582773319093845240486134197857493
def exP2 : Nat := 28765986586431797000005180324879951165386075355844401793434804491700462134798419601669108844650938760584364473769559
def exQ2 : Nat := 38616488135530416803074940349915854616656010173460763460421877842761892577672722254522676027342187313476158920908597
def exX : Nat := 6825080171790613346706136283526557486078685663303362168350859239409210347648910642862340973331389357951713058161117316436625479619088945933106964728425863
def exP3 : Nat := 6825080171790613346706136283526557486078685663303362168350859239409210347648910642862340973331389357951713058161117316436625479619088945933106964728426289
def exQ3 : Nat := 12389925134805916985451036236557730816193273840722430697575847711929719827110701449393603416996331941897749576480003219901523341298876468530527541084286223

example : ∃ fs, checkSmallUpperDifferences (exP * exQ) 3615201796985306 = .ok (some fs) ∧
    ProperSplit (exP * exQ) fs :=
  sud_complete 384 exP exQ (2 ^ (384 - 100)) 126 3615201796985306 (by decide)
    (by decide +kernel) (by decide +kernel) (by decide +kernel) (by decide +kernel)
    (by decide +kernel) (by decide +kernel) (by decide +kernel) (by decide +kernel)

example : ∃ fs, checkSmallUpperDifferences (exP2 * exQ2) 4028081363164262 = .ok (some fs) ∧
    ProperSplit (exP2 * exQ2) fs :=
  sud_complete 384 exP2 exQ2 (2 ^ (384 - 2)) 618970019642690137449562334 4028081363164262 (by decide)
    (by decide +kernel) (by decide +kernel) (by decide +kernel) (by decide +kernel)
    (by decide +kernel) (by decide +kernel) (by decide +kernel) (by decide +kernel)

example : ∃ fs, vUnseeded (exP3 * exQ3) 4412893024483688 [7, exX, exX ||| 2 ^ 511] =
    .ok ⟨true, fs, false⟩ ∧ ProperSplit (exP3 * exQ3) fs :=
  unseeded_complete 512 exP3 exQ3 exX 426 4412893024483688 [7, exX, exX ||| 2 ^ 511]
    (by decide +kernel) (by decide +kernel) (by decide +kernel) (by decide +kernel)
    (by decide +kernel) (by decide +kernel) (by decide +kernel) (by decide +kernel)
    (by decide +kernel) (by decide +kernel)

/-- the model evaluated on the first member agrees (both primes, as the real code returns them). -/
example : checkSmallUpperDifferences (exP * exQ) 3615201796985306 = .ok (some [exP, exQ]) := by
  decide +kernel

/-- the gap bound at the documented sizes: `g + 2 ≤ 2^(L/4 − 6)`. -/
example : gapBound 384 = 2 ^ 90 - 2 ∧ gapBound 512 = 2 ^ 122 - 2 ∧ gapBound 1024 = 2 ^ 250 - 2 ∧
    gapBound 2048 = 2 ^ 506 - 2 := by decide +kernel
example : GapOK 384 (2 ^ 90 - 2) ∧ ¬ GapOK 384 (2 ^ 90 - 1) := by decide +kernel

end Paranoid.C04Guess
