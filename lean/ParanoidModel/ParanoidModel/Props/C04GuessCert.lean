/-
Props/C04GuessCert.lean — non-vacuity of the PRIME forms of the C04Guess theorems
(`sud_complete_primes`, `unseeded_complete_primes`): a real 768-bit member whose two 384-bit
primes carry kernel-checked Pratt certificates (Proofs/Pratt.lean).

`prP = c·2^284 + 1`, `prQ = prP + 2^284 = (c + 1)·2^284 + 1` (so `q = p + D` with
`D = 2^(L-100)`, gap `g = 0`), `c` chosen by search so that both are prime and `c`, `c + 1`
factor completely (scratch search, untrusted; the kernel re-checks every Lucas step).
On this modulus the real `CheckSmallUpperDifferences` returns `[prP, prQ]`.
-/
import ParanoidModel.Props.C04Guess
import ParanoidModel.Proofs.Pratt

namespace Paranoid.C04GuessCert
open Paranoid Paranoid.FwgC Paranoid.C04Guess

def prP : Nat := 27342938545976857826297566600930321456493647847796647922018909627723934948591250693144848418411852199902978286551041
def prQ : Nat := 27342938545976857826297566600961404158769259512931359312528085930230213458016084925484877416967674668466261622521857

def prPChain : List Pratt.Step :=
  [⟨254161, 11, [(2, 4), (3, 2), (5, 1), (353, 1)]⟩,
   ⟨7624831, 3, [(2, 1), (3, 1), (5, 1), (254161, 1)]⟩,
   ⟨457489861, 2, [(2, 2), (3, 1), (5, 1), (7624831, 1)]⟩,
   ⟨prP, 17, [(2, 284), (3, 4), (5, 1), (7, 1), (29, 1), (457, 1), (26317, 1), (31627, 1), (61487, 1), (457489861, 1)]⟩]

def prQChain : List Pratt.Step :=
  [⟨271771, 3, [(2, 1), (3, 1), (5, 1), (9059, 1)]⟩,
   ⟨14220127, 3, [(2, 1), (3, 2), (17, 1), (46471, 1)]⟩,
   ⟨59646891506581, 2, [(2, 2), (3, 2), (5, 1), (7, 1), (3329, 1), (14220127, 1)]⟩,
   ⟨1073644047118459, 3, [(2, 1), (3, 2), (59646891506581, 1)]⟩,
   ⟨809213862674716752963349, 2, [(2, 2), (3, 2), (59, 1), (73, 1), (4861, 1), (1073644047118459, 1)]⟩,
   ⟨prQ, 3, [(2, 286), (271771, 1), (809213862674716752963349, 1)]⟩]

theorem prP_prime : prP.Prime :=
  Pratt.prime_of_cert ⟨prP, prPChain⟩ prP (by decide +kernel)

theorem prQ_prime : prQ.Prime :=
  Pratt.prime_of_cert ⟨prQ, prQChain⟩ prQ (by decide +kernel)

/-- `sud_complete_primes` on a certified member: both primes are returned. -/
theorem sud_member :
    checkSmallUpperDifferences (prP * prQ) 7060048282464001 = .ok (some [prP, prQ]) ∨
      checkSmallUpperDifferences (prP * prQ) 7060048282464001 = .ok (some [prQ, prP]) :=
  sud_complete_primes 384 prP prQ (2 ^ (384 - 100)) 0 7060048282464001 (by decide)
    prP_prime prQ_prime (by decide +kernel) (by decide +kernel) (by decide +kernel)
    (by decide +kernel) (by decide +kernel) (by decide +kernel)

/-- `unseeded_complete_primes` on a certified member: the candidate `prP - 1000` is within the
gap bound below `prP` (a second, useless candidate comes first). -/
theorem unseeded_member :
    vUnseeded (prP * prQ) 7060048282464001 [12345, prP - 1000] = .ok ⟨true, [prP, prQ], false⟩ ∨
      vUnseeded (prP * prQ) 7060048282464001 [12345, prP - 1000] = .ok ⟨true, [prQ, prP], false⟩ :=
  unseeded_complete_primes 384 prP prQ (prP - 1000) 1000 7060048282464001 [12345, prP - 1000]
    prP_prime prQ_prime (by decide +kernel) (by decide +kernel) (by decide +kernel)
    (by decide +kernel) (by decide +kernel) (by decide +kernel) (by decide +kernel)
    (by decide +kernel) (by decide +kernel) (by decide +kernel)

end Paranoid.C04GuessCert
