/-
Props/C04Hlbe.lean — C04, second sentence: "moduli whose primes agree on r ≥ 3 low bits and
s high bits with r + s ≥ len/4 + 2 are factored by FactorHighAndLowBitsEqual or FermatFactor".

`hlbe_complete` proves `C04.hlbe_complete_statement` (which Props/C04.lean only states).
The sharper `hlbe_complete_sharp` shows what each function contributes: FactorHighAndLowBitsEqual
succeeds for EVERY `middle_bits` whenever `(p+q)/2 > ⌈√n⌉`, and the remaining case
`(p+q)/2 = ⌈√n⌉` is the very first step of FermatFactor.

Ingredients (Proofs/HlbeComplete.lean): the loop invariant of the bit-fixing walk
(`hlbeBits_reaches`), the 2-adic fact that odd square roots modulo `2^J` agree up to sign modulo
`2^(J-1)` (`two_adic_split`), success of the two 2-adic helper calls (`hlbe_root`, from the C19
theorems about Inverse2exp / InverseSqrt2exp), and the window bound
`(p+q)/2 − ⌈√n⌉ < 2^min(2r−3, k)` from the shared high bits.
-/
import ParanoidModel.Props.C04
import ParanoidModel.Proofs.HlbeComplete
import Mathlib.Tactic.NormNum.Prime
namespace Paranoid.C04Hlbe
open Paranoid

/-- **Loop invariant of the walk** (`for i in range(k)` of FactorHighAndLowBitsEqual), as a
stand-alone statement: if `S² − n` is a perfect square, `S` agrees with `r` on its `j` low bits,
the walk stands at bit index `i ≤ j` with `s < S < s + 2^j`, `s ≡ S (mod 2^i)`, and at least
`j − i` iterations remain, then factors are returned — for every `middle_bits`. -/
theorem hlbe_walk_invariant (n r mb S j : Nat)
    (hsq : isSquareI ((S : Int) * S - n) = true) (hr : S % 2 ^ j = r % 2 ^ j)
    (fuel i s : Nat) (hij : i ≤ j) (hfuel : j ≤ i + fuel) (hs : s < S) (hS : S < s + 2 ^ j)
    (hmod : S % 2 ^ i = s % 2 ^ i) : ∃ fs, hlbeBits n r mb fuel i s = some fs :=
  hlbeBits_reaches n r mb S j hsq hr fuel i s hij hfuel hs hS hmod

/-- odd square roots of the same number modulo `2^J` agree up to sign modulo `2^(J−1)`. -/
theorem sqrt_two_adic_unique (x y : Int) (J : Nat) (hx : Odd x) (hy : Odd y)
    (h : (2 : Int) ^ J ∣ x * x - y * y) :
    (2 : Int) ^ (J - 1) ∣ x - y ∨ (2 : Int) ^ (J - 1) ∣ x + y :=
  two_adic_split x y J hx hy h

/-- **FactorHighAndLowBitsEqual alone**, for `p < q`: under the hypotheses of the property it
returns factors for every `middle_bits`, provided `(p+q)/2` is not already `⌈√n⌉`
(`⌈√n⌉ = isqrt(n−1) + 1` is the start value `a` of the walk). -/
theorem hlbe_finds_lt {p q r s : Nat} (hp : p.Prime) (hq : q.Prime) (hlt : p < q) (hr : 3 ≤ r)
    (hlow : p % 2 ^ r = q % 2 ^ r) (hL : bitLength p = bitLength q)
    (hhigh : p / 2 ^ (bitLength p - s) = q / 2 ^ (bitLength q - s))
    (hrs : bitLength (p * q) / 4 + 2 ≤ r + s) (mb : Nat)
    (ha : Nat.sqrt (p * q - 1) + 1 < (p + q) / 2) :
    ∃ fs, factorHighAndLowBitsEqual (p * q) mb = .ok (some fs) :=
  hlbe_finds hp hq hlt hr hlow hL hhigh hrs mb ha

/-- **Sharp form**, `p < q`: for every `middle_bits`, either FactorHighAndLowBitsEqual returns
factors or FermatFactor succeeds in its first step. -/
theorem hlbe_complete_sharp_lt {p q r s : Nat} (hp : p.Prime) (hq : q.Prime) (hlt : p < q)
    (hr : 3 ≤ r) (hlow : p % 2 ^ r = q % 2 ^ r) (hL : bitLength p = bitLength q)
    (hhigh : p / 2 ^ (bitLength p - s) = q / 2 ^ (bitLength q - s))
    (hrs : bitLength (p * q) / 4 + 2 ≤ r + s) (mb steps : Nat) (hsteps : 1 ≤ steps) :
    (∃ fs, factorHighAndLowBitsEqual (p * q) mb = .ok (some fs)) ∨
      fermatFactor (p * q) steps = some (q, p) := by
  obtain ⟨hpo, hqo⟩ := low_bits_odd hp hq (Nat.ne_of_lt hlt) hr hlow
  by_cases h : (p + q) / 2 - (Nat.sqrt (p * q) + 1) < steps
  · right
    rw [C04.fermat_exact hp hq hlt hpo hqo steps, if_pos h]
  · left
    apply hlbe_finds hp hq hlt hr hlow hL hhigh hrs mb
    have := Nat.sqrt_le_sqrt (Nat.sub_le (p * q) 1)
    omega

/-- **Sharp form, symmetric.** -/
theorem hlbe_complete_sharp {p q r s : Nat} (hp : p.Prime) (hq : q.Prime) (hne : p ≠ q)
    (hr : 3 ≤ r) (hlow : p % 2 ^ r = q % 2 ^ r) (hL : bitLength p = bitLength q)
    (hhigh : p / 2 ^ (bitLength p - s) = q / 2 ^ (bitLength q - s))
    (hrs : bitLength (p * q) / 4 + 2 ≤ r + s) (mb steps : Nat) (hsteps : 1 ≤ steps) :
    (∃ fs, factorHighAndLowBitsEqual (p * q) mb = .ok (some fs)) ∨
      fermatFactor (p * q) steps = some (max p q, min p q) := by
  rcases Nat.lt_or_gt_of_ne hne with hlt | hgt
  · rw [Nat.max_eq_right hlt.le, Nat.min_eq_left hlt.le]
    exact hlbe_complete_sharp_lt hp hq hlt hr hlow hL hhigh hrs mb steps hsteps
  · rw [Nat.max_eq_left hgt.le, Nat.min_eq_right hgt.le, Nat.mul_comm p q]
    rw [Nat.mul_comm p q] at hrs
    exact hlbe_complete_sharp_lt hq hp hgt hr hlow.symm hL.symm hhigh.symm hrs mb steps hsteps

/-- **hlbe_complete**: the statement left open in Props/C04.lean (`middle_bits = 3`, Fermat
bound 100000, the defaults of the two checks). -/
theorem hlbe_complete : C04.hlbe_complete_statement := by
  intro p q r s hp hq hne hr hlow hL hhigh hrs
  rcases hlbe_complete_sharp hp hq hne hr hlow hL hhigh hrs 3 100000 (by norm_num) with h | h
  · exact Or.inl h
  · exact Or.inr ⟨_, _, h⟩

/-! ### non-vacuity -/

/-- `p = 521`, `q = 809`: 10-bit primes, `r = 5` equal low bits (`…01001`), `s = 1` equal high
bit, `bitLength n = 19`, `19/4 + 2 = 6 ≤ r + s`; `(p+q)/2 − ⌈√n⌉ = 15`, the walk finds it. -/
example : Nat.Prime 521 ∧ Nat.Prime 809 := by constructor <;> norm_num
example : 521 % 2 ^ 5 = 809 % 2 ^ 5 ∧ bitLength 521 = bitLength 809 ∧
    521 / 2 ^ (bitLength 521 - 1) = 809 / 2 ^ (bitLength 809 - 1) ∧
    bitLength (521 * 809) / 4 + 2 ≤ 5 + 1 ∧
    Nat.sqrt (521 * 809 - 1) + 1 < (521 + 809) / 2 ∧
    factorHighAndLowBitsEqual (521 * 809) 3 = .ok (some [521, 809]) ∧
    factorHighAndLowBitsEqual (521 * 809) 0 = .ok (some [521, 809]) := by decide +kernel

/-- the remaining case is real, so the disjunction is needed: for the 11-bit primes `p = 1031`,
`q = 1039` (`r = 3`, `s = 7`, `21/4 + 2 = 7 ≤ 10`) `(p+q)/2 = ⌈√n⌉ = 1035`; the walk never tests
its start value and FactorHighAndLowBitsEqual returns `None`; Fermat's first step finds the
factors. -/
example : Nat.Prime 1031 ∧ Nat.Prime 1039 := by constructor <;> norm_num
example : 1031 % 2 ^ 3 = 1039 % 2 ^ 3 ∧ bitLength 1031 = bitLength 1039 ∧
    1031 / 2 ^ (bitLength 1031 - 7) = 1039 / 2 ^ (bitLength 1039 - 7) ∧
    bitLength (1031 * 1039) / 4 + 2 ≤ 3 + 7 ∧
    Nat.sqrt (1031 * 1039 - 1) + 1 = (1031 + 1039) / 2 ∧
    factorHighAndLowBitsEqual (1031 * 1039) 3 = .ok none ∧
    fermatFactor (1031 * 1039) 1 = some (1039, 1031) := by decide +kernel

/-- the docstring example of FactorHighAndLowBitsEqual (32 + 32 equal bits of 128: below the
`len/4 + 2` of the property, found thanks to `middle_bits`; evaluated, not covered by the
theorem). -/
example : factorHighAndLowBitsEqual
    (0xcb557401230321b723a2342377a28249 * 0xcb557401a315c42e24cc6aaa77a28249) 3 =
    .ok (some [0xcb557401230321b723a2342377a28249, 0xcb557401a315c42e24cc6aaa77a28249]) := by
  decide +kernel

end Paranoid.C04Hlbe
