/-
Props/C05.lean — "RSA keys with patterned, sparse or smooth primes are always flagged".

What a theorem can carry here (see DESIGN.md section 5/7):
 * the Pollard p-1 clause for an ARBITRARY product `m` under the hypothesis `g ∣ m`
   (`pollard_flag`); which `g` divide the product the constructor really builds — and that
   "2^20-smooth" is not enough — is Props/C05Pollard.lean (`defaultM_dvd_iff`,
   `pollard_default_flag`, `literal_text_fails`);
 * for the lattice families: the check-level enumeration of denominators, and soundness of
   whatever LLL returns (C01). That LLL *finds* the planted vector is an oracle assumption and
   is NOT claimed (pre/post sandwich: Props/C05Pre.lean, Props/C05Permuted.lean);
 * the continued-fraction clause is proved (Props/C05Cf.lean);
 * for the low-Hamming-weight clause: nothing beyond soundness (best-first search is a heuristic).
-/
import ParanoidModel.Proofs.Pollard
import ParanoidModel.Proofs.Fermat
import ParanoidModel.Proofs.Fraction
namespace Paranoid.C05
open Paranoid

/-- **Pollard p-1 clause.** If `p-1` and `q-1` share a factor `g ≥ gcd_bound` that divides the
Pollard product `m`, and `p-1` is smooth enough for `m` (`(p-1) ∣ (n-1)·m`), the modulus is
flagged; it is factored as `[p, q]` unless `q` is caught as well (`2^((n-1)m) ≡ 1 (mod q)`,
e.g. when `q-1` is smooth too), in which case it is flagged with no factors. -/
theorem pollard_flag {p q : Nat} (hp : p.Prime) (hq : q.Prime) (hpq : p ≠ q)
    (hpo : p % 2 = 1) (hqo : q % 2 = 1) (m g gb : Nat) (hm : 0 < m)
    (hgp : g ∣ p - 1) (hgq : g ∣ q - 1) (hgm : g ∣ m) (hg : gb ≤ g)
    (hsm : (p - 1) ∣ (p * q - 1) * m) :
    pollardPm1 (p * q) m gb =
      if 2 ^ ((p * q - 1) * m) % q = 1 then (true, []) else (true, [p, q]) := by
  have hp2 := hp.two_le
  have hq2 := hq.two_le
  set n := p * q with hn
  have hnpos : 0 < n := Nat.mul_pos (by omega) (by omega)
  have hn1 : n - 1 = (p - 1) * (q - 1) + (p - 1) + (q - 1) := by
    obtain ⟨p', rfl⟩ : ∃ p', p = p' + 1 := ⟨p - 1, by omega⟩
    obtain ⟨q', rfl⟩ : ∃ q', q = q' + 1 := ⟨q - 1, by omega⟩
    simp only [hn, Nat.add_sub_cancel]
    have : (p' + 1) * (q' + 1) = p' * q' + p' + q' + 1 := by ring
    omega
  -- the gcd gate
  have hgate : Nat.gcd (n - 1) m ≥ gb := by
    have h1 : g ∣ n - 1 := by
      rw [hn1]
      exact Dvd.dvd.add (Dvd.dvd.add (Dvd.dvd.mul_right hgp _) hgp) hgq
    have h2 : g ∣ Nat.gcd (n - 1) m := Nat.dvd_gcd h1 hgm
    have h3 : 0 < Nat.gcd (n - 1) m := Nat.gcd_pos_of_pos_right _ hm
    have := Nat.le_of_dvd h3 h2
    omega
  -- the power
  set b := powMod (powMod 2 (n - 1) n) m n with hb
  have hbval : b = 2 ^ ((n - 1) * m) % n := by
    rw [hb, powMod_eq _ _ _ hnpos, powMod_eq _ _ _ hnpos, ← Nat.pow_mod, ← Nat.pow_mul]
  have hbp : b % p = 1 := by
    rw [hbval, Nat.mod_mod_of_dvd _ (Dvd.intro _ rfl : p ∣ n)]
    exact two_pow_mod_prime hp hpo hsm
  have hbq : b % q = 2 ^ ((n - 1) * m) % q := by
    rw [hbval, Nat.mod_mod_of_dvd _ (Dvd.intro_left _ rfl : q ∣ n)]
  set G := Int.gcd ((b : Int) - 1) (n : Int) with hG
  have hGn : G ∣ n := intGcd_dvd_right_nat _ _
  have hb1 : 1 ≤ b := by
    by_contra h0
    have : b = 0 := by omega
    rw [this] at hbp; simp at hbp
  have hGnat : G = Nat.gcd (b - 1) n := by
    rw [hG, Int.gcd_def]
    congr 1
    have : ((b : Int) - 1) = ((b - 1 : Nat) : Int) := by omega
    rw [this, Int.natAbs_natCast]
  have hpG : p ∣ G := by
    rw [hGnat]
    apply Nat.dvd_gcd _ (Dvd.intro _ rfl)
    have := Nat.div_add_mod b p
    rw [hbp] at this
    exact ⟨b / p, by omega⟩
  have hqG : q ∣ G ↔ 2 ^ ((n - 1) * m) % q = 1 := by
    rw [hGnat, ← hbq]
    constructor
    · intro h
      have h1 : q ∣ b - 1 := Nat.dvd_trans h (Nat.gcd_dvd_left _ _)
      obtain ⟨c, hc⟩ := h1
      have : b = q * c + 1 := by omega
      rw [this, Nat.mul_add_mod, Nat.mod_eq_of_lt (by omega)]
    · intro h
      apply Nat.dvd_gcd _ (Dvd.intro_left _ rfl)
      have := Nat.div_add_mod b q
      rw [h] at this
      exact ⟨b / q, by omega⟩
  have hcases := dvd_prime_mul_prime hp hq hGn
  have hpnq : ¬ p ∣ q := fun h => by
    rcases (Nat.dvd_prime hq).mp h with h | h <;> omega
  have hqnp : ¬ q ∣ p := fun h => by
    rcases (Nat.dvd_prime hp).mp h with h | h <;> omega
  unfold pollardPm1
  rw [if_pos hgate]
  show pm1Decide G n = _
  unfold pm1Decide splitBy
  rcases hcases with h | h | h | h
  · exfalso; rw [h] at hpG
    have := Nat.le_of_dvd (by omega) hpG; omega
  · -- G = p
    have hnq : ¬ (2 ^ ((n - 1) * m) % q = 1) := by
      rw [← hqG, h]; exact hqnp
    have hlt : p < n := by rw [hn]; nlinarith
    rw [h, if_pos ⟨by omega, hlt⟩, if_neg hnq]
    simp only [hn, Nat.mul_div_cancel_left _ (by omega : 0 < p)]
  · exfalso; rw [h] at hpG; exact hpnq hpG
  · -- G = n
    have hq1 : 2 ^ ((n - 1) * m) % q = 1 := by
      rw [← hqG, h]; exact Dvd.intro_left _ rfl
    rw [h, if_neg (by omega), if_pos hq1]
    simp [hn]


/-- **Lattice families, completeness given the oracle.** For `n = p·q` (distinct primes): if
the basis returned by LLL contains a row `(c·x, -a·x, …)` whose value `a·x·w + c·x` is a
multiple of `p` but not of `q` (the planted short vector of a prime `p = (a·B + c)/d`), then
`CheckFraction` returns both primes — whatever the other rows are. That LLL returns such a
row is the oracle assumption; it is not claimed. -/
theorem fraction_post {p q : Nat} (hp : p.Prime) (hq : q.Prime) (hpq : p ≠ q)
    (basis : List (List Int)) (hlen : ∀ row ∈ basis, 2 ≤ row.length)
    (hgood : ∃ cx v1 rest, (cx :: v1 :: rest) ∈ basis ∧
        (p : Int) ∣ rowValue (2 ^ (bitLength (p * q) / 2)) cx v1 ∧
        ¬ (q : Int) ∣ rowValue (2 ^ (bitLength (p * q) / 2)) cx v1) :
    checkFraction (p * q) basis = .ok [p, q] ∨ checkFraction (p * q) basis = .ok [q, p] :=
  checkFractionLoop_complete hp hq hpq _ basis hlen hgood

/-- the flag alone (first component), as the property words it. -/
theorem pollard_flagged {p q : Nat} (hp : p.Prime) (hq : q.Prime) (hpq : p ≠ q)
    (hpo : p % 2 = 1) (hqo : q % 2 = 1) (m g gb : Nat) (hm : 0 < m)
    (hgp : g ∣ p - 1) (hgq : g ∣ q - 1) (hgm : g ∣ m) (hg : gb ≤ g)
    (hsm : (p - 1) ∣ (p * q - 1) * m) :
    (pollardPm1 (p * q) m gb).1 = true := by
  rw [pollard_flag hp hq hpq hpo hqo m g gb hm hgp hgq hgm hg hsm]
  split <;> rfl

/-- non-vacuity: p = 13 (p-1 = 12), q = 47 (q-1 = 2·23), g = 2, m = 12 → factored;
q = 37 (q-1 = 36 | (n-1)·12) → both caught, flagged without factors. -/
example : pollardPm1 (13 * 47) 12 2 = (true, [13, 47]) := by decide +kernel
example : pollardPm1 (13 * 37) 12 12 = (true, []) := by decide +kernel

end Paranoid.C05
