/-
Props/C05Cf.lean — C05, the continued-fraction clause: "a modulus is flagged when both primes
repeat words of at most 64 bits" — proved (no oracle involved: `CheckContinuedFraction` is
deterministic integer arithmetic).

    both primes are cut word repetitions (+ low-order deviations)
       ⇒ (two_patterns_approx)       n·d − A·2^bitlen(n) = E, d = (2^w₁−1)(2^w₂−1), A = W₁W₂·2^ι,
                                     |E| ≤ 2^(w₁+w₂+t)·(2^L₁ + 2^L₂ + 2^t)
       ⇒ (CfLarge.euclid_large_quot) Euclid's algorithm on (n, 2^bitlen n) has a quotient ≥ bound
       ⇒ (CfLarge.checkContinuedFraction_large)   CheckContinuedFraction(n, bound) = (False, fs)

`cf_two_patterns_flagged` is the general statement (any word sizes, deviation width, bound, under one
explicit size inequality); `cf_clause_default` instantiates it with the numbers of the property:
words of at most 64 bits, at most 32 deviating low bits, primes of equal length `L ≥ 512`
(moduli of 1024 bits and more), default bound `2^48`.
NOT claimed: that the key is FACTORED (the quadratic-root attempt is a heuristic; measured: 2 120 of
2 881 planted keys factored, all flagged).
-/
import ParanoidModel.Proofs.CfLarge
import ParanoidModel.Props.C05Permuted
namespace Paranoid.C05Cf
open Paranoid Paranoid.Permuted Paranoid.NT

/-- **The product of two cut repetitions is close to a small fraction of a power of two.**
`d₁·P₁ = W₁·2^L₁ + c₁`, `d₂·P₂ = W₂·2^L₂ + c₂` (`C05Permuted.cut_repetition_is_fraction`) give
`(d₁d₂)·(P₁P₂) − W₁W₂·2^(L₁+L₂) = W₁·2^L₁·c₂ + W₂·2^L₂·c₁ + c₁c₂`, of absolute value at most
`2^(w₁+w₂+t)·(2^L₁ + 2^L₂ + 2^t)`. -/
theorem two_patterns_approx (W1 w1 L1 W2 w2 L2 t : Nat) (δ1 δ2 : Int) (hw1 : 1 ≤ w1) (hw2 : 1 ≤ w2)
    (hW1 : W1 < 2 ^ w1) (hW2 : W2 < 2 ^ w2) (hδ1 : |δ1| < 2 ^ t) (hδ2 : |δ2| < 2 ^ t) :
    |(((2 : Int) ^ w1 - 1) * ((2 : Int) ^ w2 - 1)) *
        (((periodicTop W1 w1 L1 : Int) + δ1) * ((periodicTop W2 w2 L2 : Int) + δ2)) -
      (W1 : Int) * W2 * 2 ^ (L1 + L2)| ≤
      2 ^ (w1 + w2 + t) * ((2 : Int) ^ L1 + 2 ^ L2 + 2 ^ t) := by
  obtain ⟨e1, b1⟩ := C05Permuted.cut_repetition_is_fraction W1 w1 L1 t δ1 hw1 hδ1
  obtain ⟨e2, b2⟩ := C05Permuted.cut_repetition_is_fraction W2 w2 L2 t δ2 hw2 hδ2
  have e1' := e1 L1 0 rfl
  have e2' := e2 L2 0 rfl
  generalize ((2 : Int) ^ w1 - 1) * δ1 - ((W1 * 2 ^ L1 % (2 ^ w1 - 1) : Nat) : Int) = c1 at e1' b1
  generalize ((2 : Int) ^ w2 - 1) * δ2 - ((W2 * 2 ^ L2 % (2 ^ w2 - 1) : Nat) : Int) = c2 at e2' b2
  have hid : (((2 : Int) ^ w1 - 1) * ((2 : Int) ^ w2 - 1)) *
        (((periodicTop W1 w1 L1 : Int) + δ1) * ((periodicTop W2 w2 L2 : Int) + δ2)) -
      (W1 : Int) * W2 * 2 ^ (L1 + L2) =
      (W1 : Int) * 2 ^ L1 * c2 + (W2 : Int) * 2 ^ L2 * c1 + c1 * c2 := by
    have : (((2 : Int) ^ w1 - 1) * ((2 : Int) ^ w2 - 1)) *
        (((periodicTop W1 w1 L1 : Int) + δ1) * ((periodicTop W2 w2 L2 : Int) + δ2)) =
        (((2 : Int) ^ w1 - 1) * ((periodicTop W1 w1 L1 : Int) + δ1)) *
        (((2 : Int) ^ w2 - 1) * ((periodicTop W2 w2 L2 : Int) + δ2)) := by ring
    rw [this, e1', e2', pow_add]; ring
  rw [hid]
  have hW1' : |(W1 : Int)| ≤ 2 ^ w1 := by
    rw [abs_of_nonneg (Int.natCast_nonneg _)]; exact_mod_cast hW1.le
  have hW2' : |(W2 : Int)| ≤ 2 ^ w2 := by
    rw [abs_of_nonneg (Int.natCast_nonneg _)]; exact_mod_cast hW2.le
  have p1 : (0 : Int) ≤ 2 ^ w1 := by positivity
  have p2 : (0 : Int) ≤ 2 ^ w2 := by positivity
  have pL1 : (0 : Int) ≤ 2 ^ L1 := by positivity
  have pL2 : (0 : Int) ≤ 2 ^ L2 := by positivity
  have t1 : |(W1 : Int) * 2 ^ L1 * c2| ≤ 2 ^ w1 * 2 ^ L1 * 2 ^ (w2 + t) := by
    rw [abs_mul, abs_mul, abs_of_nonneg pL1]
    exact mul_le_mul (mul_le_mul_of_nonneg_right hW1' pL1) b2.le (abs_nonneg _) (by positivity)
  have t2 : |(W2 : Int) * 2 ^ L2 * c1| ≤ 2 ^ w2 * 2 ^ L2 * 2 ^ (w1 + t) := by
    rw [abs_mul, abs_mul, abs_of_nonneg pL2]
    exact mul_le_mul (mul_le_mul_of_nonneg_right hW2' pL2) b1.le (abs_nonneg _) (by positivity)
  have t3 : |c1 * c2| ≤ 2 ^ (w1 + t) * 2 ^ (w2 + t) := by
    rw [abs_mul]
    exact mul_le_mul b1.le b2.le (abs_nonneg _) (by positivity)
  have := abs_add_three ((W1 : Int) * 2 ^ L1 * c2) ((W2 : Int) * 2 ^ L2 * c1) (c1 * c2)
  have e : (2 : Int) ^ (w1 + w2 + t) * ((2 : Int) ^ L1 + 2 ^ L2 + 2 ^ t) =
      2 ^ w1 * 2 ^ L1 * 2 ^ (w2 + t) + 2 ^ w2 * 2 ^ L2 * 2 ^ (w1 + t) + 2 ^ (w1 + t) * 2 ^ (w2 + t) := by
    simp only [pow_add]; ring
  rw [e]; linarith

/-- **Both primes patterned ⇒ flagged (general form).** `p`, `q` odd, `p = periodicTop W₁ w₁ L₁ + δ₁`,
`q = periodicTop W₂ w₂ L₂ + δ₂`, `|δᵢ| < 2^t`, `L₁ + L₂ = bitlen(pq) + ι`, `bound ≥ 1`, and the size
condition `(bound + 3)·2^(w₁+w₂+t)·(2^L₁ + 2^L₂ + 2^t)·2^(w₁+w₂) ≤ 2^bitlen(pq)`: then
`CheckContinuedFraction(pq, bound)` answers `(False, fs)` — the key is flagged. -/
theorem cf_two_patterns_flagged (p q : Nat) (hpo : p % 2 = 1) (hqo : q % 2 = 1)
    (W1 w1 L1 W2 w2 L2 t ι bound : Nat) (δ1 δ2 : Int) (hw1 : 1 ≤ w1) (hw2 : 1 ≤ w2)
    (hW1 : W1 < 2 ^ w1) (hW2 : W2 < 2 ^ w2) (hδ1 : |δ1| < 2 ^ t) (hδ2 : |δ2| < 2 ^ t)
    (hP : (p : Int) = (periodicTop W1 w1 L1 : Int) + δ1)
    (hQ : (q : Int) = (periodicTop W2 w2 L2 : Int) + δ2)
    (hL : L1 + L2 = bitLength (p * q) + ι) (hb : 1 ≤ bound)
    (hsz : (bound + 3) * (2 ^ (w1 + w2 + t) * (2 ^ L1 + 2 ^ L2 + 2 ^ t)) * 2 ^ (w1 + w2) ≤
      2 ^ bitLength (p * q)) :
    ∃ fs, checkContinuedFraction (p * q) bound = .ok (false, fs) := by
  apply CfLarge.checkContinuedFraction_large
  have happ := two_patterns_approx W1 w1 L1 W2 w2 L2 t δ1 δ2 hw1 hw2 hW1 hW2 hδ1 hδ2
  rw [← hP, ← hQ, hL, pow_add] at happ
  -- Nat versions
  have h1w1 : 1 ≤ 2 ^ w1 := Nat.one_le_two_pow
  have h1w2 : 1 ≤ 2 ^ w2 := Nat.one_le_two_pow
  have hdcast : (((2 ^ w1 - 1) * (2 ^ w2 - 1) : Nat) : Int) =
      ((2 : Int) ^ w1 - 1) * ((2 : Int) ^ w2 - 1) := by
    push_cast [Nat.cast_sub h1w1, Nat.cast_sub h1w2]; ring
  have hd1 : 0 < 2 ^ w1 - 1 := d0_pos w1 hw1
  have hd2 : 0 < 2 ^ w2 - 1 := d0_pos w2 hw2
  have hdpos : 0 < (2 ^ w1 - 1) * (2 ^ w2 - 1) := Nat.mul_pos hd1 hd2
  have hdlt : (2 ^ w1 - 1) * (2 ^ w2 - 1) < 2 ^ (w1 + w2) := by
    rw [pow_add]
    exact Nat.mul_lt_mul'' (by omega) (by omega)
  generalize hd : (2 ^ w1 - 1) * (2 ^ w2 - 1) = d at hdcast hdpos hdlt
  have hmc : (2 : Int) ^ bitLength (p * q) = ((2 ^ bitLength (p * q) : Nat) : Int) := by push_cast; rfl
  rw [hmc] at happ
  generalize hm : 2 ^ bitLength (p * q) = m at happ hsz ⊢
  have hnodd : (p * q) % 2 = 1 := by rw [Nat.mul_mod, hpo, hqo]
  rw [← hdcast] at happ
  -- the error as a natural number
  generalize hE : ((d : Int) * ((p : Int) * (q : Int)) - (W1 : Int) * W2 * ((m : Int) * 2 ^ ι)) = Ei
    at happ
  have hEi : ((p * q : Nat) : Int) * d - ((W1 * W2 * 2 ^ ι : Nat) : Int) * m = Ei := by
    rw [← hE]; push_cast; ring
  have hEle : Ei.natAbs ≤ 2 ^ (w1 + w2 + t) * (2 ^ L1 + 2 ^ L2 + 2 ^ t) := by
    have : ((Ei.natAbs : Nat) : Int) ≤
        ((2 ^ (w1 + w2 + t) * (2 ^ L1 + 2 ^ L2 + 2 ^ t) : Nat) : Int) := by
      rw [Int.natCast_natAbs]; push_cast; exact happ
    exact_mod_cast this
  have hmpos : 0 < m := by rw [← hm]; exact Nat.two_pow_pos _
  -- m is larger than d
  have hdm : d < m := by
    have h3 : 1 ≤ bound + 3 := by omega
    have hX1 : 1 ≤ 2 ^ (w1 + w2 + t) * (2 ^ L1 + 2 ^ L2 + 2 ^ t) :=
      Nat.mul_pos (Nat.two_pow_pos _) (by positivity)
    have : 1 * 1 * 2 ^ (w1 + w2) ≤
        (bound + 3) * (2 ^ (w1 + w2 + t) * (2 ^ L1 + 2 ^ L2 + 2 ^ t)) * 2 ^ (w1 + w2) :=
      Nat.mul_le_mul_right _ (Nat.mul_le_mul h3 hX1)
    omega
  -- E ≠ 0 because n is odd
  have hE0 : 0 < Ei.natAbs := by
    rw [Int.natAbs_pos]
    intro h0
    rw [h0, sub_eq_zero] at hEi
    have hnat : p * q * d = W1 * W2 * 2 ^ ι * m := by exact_mod_cast hEi
    have hcop : Nat.Coprime m (p * q) := by
      rw [← hm]
      apply Nat.Coprime.pow_left
      rw [Nat.Prime.coprime_iff_not_dvd Nat.prime_two]
      omega
    have : m ∣ d := hcop.dvd_of_dvd_mul_left ⟨W1 * W2 * 2 ^ ι, by rw [hnat]; ring⟩
    exact absurd (Nat.le_of_dvd hdpos this) (by omega)
  have hsize : (bound + 3) * Ei.natAbs * d ≤ m + Ei.natAbs := by
    have h1 : (bound + 3) * Ei.natAbs * d ≤
        (bound + 3) * (2 ^ (w1 + w2 + t) * (2 ^ L1 + 2 ^ L2 + 2 ^ t)) * 2 ^ (w1 + w2) :=
      Nat.mul_le_mul (Nat.mul_le_mul_left _ hEle) hdlt.le
    omega
  refine CfLarge.euclid_large_quot d (p * q) m (W1 * W2 * 2 ^ ι) Ei.natAbs bound hdpos hE0 hb ?_ hsize
  have habs : ((Ei.natAbs : Nat) : Int) = |Ei| := Int.natCast_natAbs Ei
  rcases le_total 0 Ei with h | h
  · left
    have : ((p * q * d : Nat) : Int) = ((W1 * W2 * 2 ^ ι * m + Ei.natAbs : Nat) : Int) := by
      rw [Nat.cast_add, habs, abs_of_nonneg h, Nat.cast_mul, Nat.cast_mul (W1 * W2 * 2 ^ ι) m]
      linarith
    exact_mod_cast this
  · right
    have : ((p * q * d + Ei.natAbs : Nat) : Int) = ((W1 * W2 * 2 ^ ι * m : Nat) : Int) := by
      rw [Nat.cast_add, habs, abs_of_nonpos h, Nat.cast_mul, Nat.cast_mul (W1 * W2 * 2 ^ ι) m]
      linarith
    exact_mod_cast this

/-- the check-level verdict. -/
theorem vCf_two_patterns (n bound : Nat) (h : ∃ fs, checkContinuedFraction n bound = .ok (false, fs)) :
    ∃ fs, vCf n bound = .ok ⟨true, fs, false⟩ := by
  obtain ⟨fs, hfs⟩ := h
  exact ⟨fs, by unfold vCf; rw [hfs]; rfl⟩

/-- **The clause with the numbers of the property.** Both primes have `L ≥ 512` bits (modulus of
`2L − 1` or `2L` bits, i.e. at least 1023), each is a word of at most 64 bits written from the top
and cut to `L` bits, apart from a deviation below `2^32`: `CheckContinuedFractions()` (default
bound `2^48`) flags the key. -/
theorem cf_clause_default (p q : Nat) (hpo : p % 2 = 1) (hqo : q % 2 = 1)
    (W1 w1 W2 w2 L ι : Nat) (δ1 δ2 : Int) (hw1 : 1 ≤ w1) (hw2 : 1 ≤ w2) (hw1' : w1 ≤ 64)
    (hw2' : w2 ≤ 64) (hW1 : W1 < 2 ^ w1) (hW2 : W2 < 2 ^ w2)
    (hδ1 : |δ1| < 2 ^ 32) (hδ2 : |δ2| < 2 ^ 32)
    (hP : (p : Int) = (periodicTop W1 w1 L : Int) + δ1)
    (hQ : (q : Int) = (periodicTop W2 w2 L : Int) + δ2)
    (hL : L + L = bitLength (p * q) + ι) (hι : ι ≤ 1) (hL512 : 512 ≤ L) :
    ∃ fs, vCf (p * q) (2 ^ 48) = .ok ⟨true, fs, false⟩ := by
  apply vCf_two_patterns
  apply cf_two_patterns_flagged p q hpo hqo W1 w1 L W2 w2 L 32 ι (2 ^ 48) δ1 δ2 hw1 hw2 hW1 hW2
    hδ1 hδ2 hP hQ hL Nat.one_le_two_pow
  have hbl : 2 * L - 1 ≤ bitLength (p * q) := by omega
  have h1 : (2 : Nat) ^ (w1 + w2 + 32) ≤ 2 ^ 160 := Nat.pow_le_pow_right (by norm_num) (by omega)
  have h2 : (2 : Nat) ^ (w1 + w2) ≤ 2 ^ 128 := Nat.pow_le_pow_right (by norm_num) (by omega)
  have h3 : (2 : Nat) ^ 32 ≤ 2 ^ L := Nat.pow_le_pow_right (by norm_num) (by omega)
  have h4 : (2 : Nat) ^ L + 2 ^ L + 2 ^ 32 ≤ 2 ^ 2 * 2 ^ L := by omega
  calc (2 ^ 48 + 3) * (2 ^ (w1 + w2 + 32) * (2 ^ L + 2 ^ L + 2 ^ 32)) * 2 ^ (w1 + w2)
      ≤ 2 ^ 49 * (2 ^ 160 * (2 ^ 2 * 2 ^ L)) * 2 ^ 128 :=
        Nat.mul_le_mul (Nat.mul_le_mul (by norm_num) (Nat.mul_le_mul h1 h4)) h2
    _ = 2 ^ (339 + L) := by
        rw [show 339 + L = 49 + (160 + (2 + L)) + 128 by omega]
        simp only [pow_add]
    _ ≤ 2 ^ bitLength (p * q) := Nat.pow_le_pow_right (by norm_num) (by omega)

/-- the hypotheses of `cf_clause_default` on a 1023-bit instance (a 64-bit and a 63-bit word, both
deviations below `2^32`, `ι = 1`), and the model's verdict for it — flagged without factors, which is
also what the real `CheckContinuedFraction(n, 2^48)` returns (`(False, [])`). -/
example :
    0x9c80317fa3b1799d9c80317fa3b1799d9c80317fa3b1799d9c80317fa3b1799d9c80317fa3b1799d9c80317fa3b1799d9c80317fa3b1799d9c80317fc333e861 % 2 = 1 ∧ 0x8a14be6252b68e2b14297cc4a56d1c562852f9894ada38ac50a5f31295b47158a14be6252b68e2b14297cc4a56d1c562852f9894ada38ac50a5f3129a6d964a3 % 2 = 1 ∧
    (0x9c80317fa3b1799d < 2 ^ 64) ∧ (0x450a5f31295b4715 < 2 ^ 63) ∧
    |(528641732 : Int)| < 2 ^ 32 ∧ |(1267879705 : Int)| < 2 ^ 32 ∧
    ((0x9c80317fa3b1799d9c80317fa3b1799d9c80317fa3b1799d9c80317fa3b1799d9c80317fa3b1799d9c80317fa3b1799d9c80317fa3b1799d9c80317fc333e861 : Nat) : Int) = (periodicTop 0x9c80317fa3b1799d 64 512 : Int) + 528641732 ∧
    ((0x8a14be6252b68e2b14297cc4a56d1c562852f9894ada38ac50a5f31295b47158a14be6252b68e2b14297cc4a56d1c562852f9894ada38ac50a5f3129a6d964a3 : Nat) : Int) = (periodicTop 0x450a5f31295b4715 63 512 : Int) + 1267879705 ∧
    512 + 512 = bitLength (0x9c80317fa3b1799d9c80317fa3b1799d9c80317fa3b1799d9c80317fa3b1799d9c80317fa3b1799d9c80317fa3b1799d9c80317fa3b1799d9c80317fc333e861 * 0x8a14be6252b68e2b14297cc4a56d1c562852f9894ada38ac50a5f31295b47158a14be6252b68e2b14297cc4a56d1c562852f9894ada38ac50a5f3129a6d964a3) + 1 ∧
    vCf (0x9c80317fa3b1799d9c80317fa3b1799d9c80317fa3b1799d9c80317fa3b1799d9c80317fa3b1799d9c80317fa3b1799d9c80317fa3b1799d9c80317fc333e861 * 0x8a14be6252b68e2b14297cc4a56d1c562852f9894ada38ac50a5f31295b47158a14be6252b68e2b14297cc4a56d1c562852f9894ada38ac50a5f3129a6d964a3) (2 ^ 48) = .ok ⟨true, [], false⟩ := by
  decide +kernel

end Paranoid.C05Cf
