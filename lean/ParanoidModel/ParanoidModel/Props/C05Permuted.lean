/-
Props/C05Permuted.lean — C05, the permuted-limb clause and the cut (non-aligned) repetition:
the "pre" half of the sandwich for the families the property text names.

    prime = word repetition with adjacent ws-bit limbs swapped (+ low-order deviation δ)
        ⇒ (permuted_is_fraction)   D·p = a·2^h + c,  D = (2^ps − 1)(2^(ps·ws) + 1)/(2^ws + 1)
                                   the denominator CheckPermutedBitPatterns enumerates
                                   (Props/C05Pre.lean permuted_enum), |a|, |c − D·δ| < 2·(2^ws+1)·D·2^s
        ⇒ (C05Pre.fraction_pre)    short planted vector in the lattice handed to LLL
        ⇒ (ORACLE, not claimed)    LLL returns ± that vector
        ⇒ (permuted_sandwich)      CheckFraction(n, D) returns {p, q}

and the same for a `w`-bit word repeated from the top and CUT to the prime's length
(`cut_repetition_is_fraction`, `cut_repetition_sandwich`) — `C05Pre.repetition_sandwich` needs
`w·k = h + s`, which for a 1024-bit prime holds only for `w ∈ {1, 8, 16, 32, …}`.

Definitions (Proofs/Permuted.lean): `periodicTop W ps L = ⌊W·2^L/(2^ps − 1)⌋` is the word `W`
(`W < 2^ps − 1`) written from the top and cut to `L` bits; `swapLimbs ws M x` swaps the limbs
`(2j, 2j+1)`, `j < M`, of `x` (limbs counted from bit 0) — the operation of harness/gen_rsa.py
`swap_limbs`, compared with it on every run (op `perm.swap`).
-/
import ParanoidModel.Proofs.Permuted
import ParanoidModel.Props.C05Pre
import ParanoidModel.Proofs.Pratt
namespace Paranoid.C05Permuted
open Paranoid Paranoid.Permuted

/-- `swapLimbs` swaps adjacent limbs; `periodicTop` is the cut repetition (one more word = shift
and add, as long as whole words fit). -/
theorem swapLimbs_spec (ws M x : Nat) :
    swapLimbs ws 0 x = 0 ∧
    swapLimbs ws (M + 1) x = (x % 2 ^ ws) * 2 ^ ws + x / 2 ^ ws % 2 ^ ws +
      (2 ^ ws * 2 ^ ws) * swapLimbs ws M (x / 2 ^ ws / 2 ^ ws) := ⟨rfl, rfl⟩

/-- the limbs of the cut repetition, most significant first, are `λ_i = ⌊2^ws·u_i/(2^ps − 1)⌋` with
`u_i = W·2^(ws·i) mod (2^ps − 1)` (the word rotated by `ws·i` bits), `u_(i+ps) = u_i`. -/
theorem periodicTop_limbs (W ps ws N : Nat) (hps : 1 ≤ ps) :
    periodicTop W ps (ws * (N + 1)) = periodicTop W ps (ws * N) * 2 ^ ws + limb W ps ws N ∧
    limb W ps ws N < 2 ^ ws ∧ rot W ps ws (N + ps) = rot W ps ws N :=
  ⟨periodicTop_succ W ps ws N hps, limb_lt W ps ws N hps, rot_periodic W ps ws N⟩

/-- for whole words the cut repetition is `repeatWord` of Props/C05Pre.lean. -/
theorem periodicTop_aligned (W w k : Nat) (hW : W < 2 ^ w - 1) :
    periodicTop W w (w * k) = repeatWord W w k := by
  have hd : 0 < 2 ^ w - 1 := by omega
  have h := repeatWord_mul W w k
  unfold periodicTop
  have h1 : 1 ≤ 2 ^ w := Nat.one_le_two_pow
  have hk : W ≤ W * 2 ^ (w * k) := Nat.le_mul_of_pos_right _ (Nat.two_pow_pos _)
  have hnat : (2 ^ w - 1) * repeatWord W w k + W = W * 2 ^ (w * k) := by
    have : (((2 ^ w - 1) * repeatWord W w k + W : Nat) : Int) = ((W * 2 ^ (w * k) : Nat) : Int) := by
      push_cast [Nat.cast_sub h1]
      linarith
    exact_mod_cast this
  rw [← hnat, Nat.mul_add_div hd, Nat.div_eq_of_lt hW, Nat.add_zero]

/-! ### the permuted-limb family -/

/-- **permuted_is_fraction.** Let `P' = swapLimbs ws M (periodicTop W ps (ws·2M)) + δ`: the `ps`-bit
word `W` (`ps` odd, `W < 2^ps − 1`) repeated over `2M` limbs of `ws` bits, adjacent limbs swapped,
plus a deviation `δ`. With `D = permutedDenominator ws ps` and, for `ws·2M = h + s`,

    D·P' = (A₀·2^s)·2^h + (D·δ − A_(2M)),      |A₀|, |A_(2M)| < 2·(2^ps − 1)·2^(ws·ps) ≤ 2·(2^ws + 1)·D,

`A_s = coefA … s` the explicit alternating sums of the rotated word (Proofs/Permuted.lean).

REGION. The identity holds for EVERY odd `ps` and every `ws` — there is no hypothesis `ps < ws`. The
implementation calls `CheckFraction(n, D)` only for `ws ∈ {8, 16, 32, 64}`, `3 ≤ ps < ws`, `ps` odd,
`bitLength D ≤ bitLength n / 8` (`C05PermutedRegion.permuted_tried_region`, `C05Pre.permuted_enum`). The
property's family (word size in the default list, implied denominator `≤ bitlen/10`) also contains
`ps ≥ ws` — with 8-bit limbs `ps = 9, 11, 13, 15, 31` — for which this theorem says `D` would work but
the check never tries it: known finding D25 (`C05PermutedRegion.d25_witness`; real code: the 1024-bit
replay input is factored by no check). The harness gates planted keys only for `3 ≤ ps < ws`, `ps` odd,
`bitLength D ≤ bitlen/10`; `ps ≥ ws` keys are statistics + the fixed D25 probe. -/
theorem permuted_is_fraction (W ps ws M : Nat) (δ : Int) (hps : 1 ≤ ps) (hodd : ps % 2 = 1)
    (hW : W < 2 ^ ps - 1) :
    (∀ h s, ws * (2 * M) = h + s →
      (permutedDenominator ws ps : Int) *
          ((swapLimbs ws M (periodicTop W ps (ws * (2 * M))) : Int) + δ) =
        (coefA (fun i => (rot W ps ws i : Int)) ((2 : Int) ^ ws) (phi ws ps) ps 0 * 2 ^ s) * 2 ^ h +
        ((permutedDenominator ws ps : Int) * δ -
          coefA (fun i => (rot W ps ws i : Int)) ((2 : Int) ^ ws) (phi ws ps) ps (2 * M))) ∧
    (∀ s, |coefA (fun i => (rot W ps ws i : Int)) ((2 : Int) ^ ws) (phi ws ps) ps s| <
      2 * (((2 : Int) ^ ws) + 1) * (permutedDenominator ws ps : Int)) := by
  constructor
  · intro h s hs
    rw [mul_add, swapped_fraction W ps ws M hps hodd hW, ← pow_mul, hs, pow_add]
    ring
  · intro s
    obtain ⟨h1, h2⟩ := swapped_coef_bound W ps ws s hps hodd
    exact lt_of_lt_of_le h1 h2

/-- **Permuted limbs ⇒ factored, given the oracle.** `p` = swapped repetition + `δ`,
`ws·2M = bitLength (p·q)/2 + s`, `q` an odd prime not dividing `D`: every reduced basis that
contains ± the planted row for `d = D`, `a = A₀·2^s`, `c = D·δ − A_(2M)` makes `CheckFraction(n, D)`
— a call `CheckPermutedBitPatterns` makes whenever `ws ∈ {8, 16, 32, 64}`, `3 ≤ ps < ws` and
`bitLength D ≤ bitLength n / 8` (`C05Pre.permuted_enum`, `C05PermutedRegion.permuted_tried_region`; for
`ps ≥ ws` the theorem holds but the check never makes the call: known finding D25) — return both primes. -/
theorem permuted_sandwich {p q : Nat} (hp : p.Prime) (hq : q.Prime) (hpq : p ≠ q) (hq2 : q ≠ 2)
    (W ps ws M s : Nat) (δ : Int) (hps : 1 ≤ ps) (hodd : ps % 2 = 1) (hW : W < 2 ^ ps - 1)
    (hP : (p : Int) = (swapLimbs ws M (periodicTop W ps (ws * (2 * M))) : Int) + δ)
    (hs : ws * (2 * M) = bitLength (p * q) / 2 + s) (hqd : ¬ q ∣ permutedDenominator ws ps)
    (basis : List (List Int)) (hlen : ∀ row ∈ basis, 2 ≤ row.length)
    (hrow : ∃ rest,
      (((permutedDenominator ws ps : Int) * δ -
            coefA (fun i => (rot W ps ws i : Int)) ((2 : Int) ^ ws) (phi ws ps) ps (2 * M)) *
          ((2 ^ bitLength (permutedDenominator ws ps) : Nat) : Int) ::
        -(coefA (fun i => (rot W ps ws i : Int)) ((2 : Int) ^ ws) (phi ws ps) ps 0 * 2 ^ s) *
          ((2 ^ bitLength (permutedDenominator ws ps) : Nat) : Int) :: rest) ∈ basis ∨
      (-(((permutedDenominator ws ps : Int) * δ -
            coefA (fun i => (rot W ps ws i : Int)) ((2 : Int) ^ ws) (phi ws ps) ps (2 * M)) *
          ((2 ^ bitLength (permutedDenominator ws ps) : Nat) : Int)) ::
        -(-(coefA (fun i => (rot W ps ws i : Int)) ((2 : Int) ^ ws) (phi ws ps) ps 0 * 2 ^ s) *
          ((2 ^ bitLength (permutedDenominator ws ps) : Nat) : Int)) :: rest) ∈ basis) :
    checkFraction (p * q) basis = .ok [p, q] ∨ checkFraction (p * q) basis = .ok [q, p] := by
  apply C05Pre.fraction_sandwich hp hq hpq hq2 (permutedDenominator ws ps) hqd
    (coefA (fun i => (rot W ps ws i : Int)) ((2 : Int) ^ ws) (phi ws ps) ps 0 * 2 ^ s)
    ((permutedDenominator ws ps : Int) * δ -
      coefA (fun i => (rot W ps ws i : Int)) ((2 : Int) ^ ws) (phi ws ps) ps (2 * M)) _ basis hlen hrow
  rw [hP, (permuted_is_fraction W ps ws M δ hps hodd hW).1 _ s hs]
  push_cast
  ring

/-! ### the cut (non-aligned) repetition -/

/-- the identity of `cut_repetition_is_fraction` (no bound on `δ` needed). -/
theorem cut_repetition_eq (W w L : Nat) (δ : Int) (h s : Nat) (hs : L = h + s) :
    ((2 : Int) ^ w - 1) * ((periodicTop W w L : Int) + δ) =
      ((W : Int) * 2 ^ s) * 2 ^ h +
        (((2 : Int) ^ w - 1) * δ - ((W * 2 ^ L % (2 ^ w - 1) : Nat) : Int)) := by
  have h1 : 1 ≤ 2 ^ w := Nat.one_le_two_pow
  have hdm := Nat.div_add_mod (W * 2 ^ L) (2 ^ w - 1)
  unfold periodicTop
  generalize W * 2 ^ L % (2 ^ w - 1) = r at hdm ⊢
  generalize W * 2 ^ L / (2 ^ w - 1) = P at hdm ⊢
  have hc : (((2 ^ w - 1) * P + r : Nat) : Int) = ((W * 2 ^ L : Nat) : Int) := by rw [hdm]
  push_cast [Nat.cast_sub h1] at hc
  rw [mul_add]
  have : (W : Int) * 2 ^ L = (W : Int) * 2 ^ s * 2 ^ h := by rw [hs, pow_add]; ring
  linarith

/-- **cut_repetition_is_fraction.** `P' = periodicTop W w L + δ` (the word written from the top, cut
to `L` bits — `L` need not be a multiple of `w`), `|δ| < 2^t`: with `r = W·2^L mod (2^w − 1)`
(`< 2^w − 1`, the word rotated) and `L = h + s`,
`(2^w − 1)·P' = (W·2^s)·2^h + ((2^w − 1)·δ − r)`, `|(2^w − 1)·δ − r| < 2^(w+t)`. -/
theorem cut_repetition_is_fraction (W w L t : Nat) (δ : Int) (hw : 1 ≤ w) (hδ : |δ| < 2 ^ t) :
    (∀ h s, L = h + s →
      ((2 : Int) ^ w - 1) * ((periodicTop W w L : Int) + δ) =
        ((W : Int) * 2 ^ s) * 2 ^ h +
          (((2 : Int) ^ w - 1) * δ - ((W * 2 ^ L % (2 ^ w - 1) : Nat) : Int))) ∧
    |((2 : Int) ^ w - 1) * δ - ((W * 2 ^ L % (2 ^ w - 1) : Nat) : Int)| < 2 ^ (w + t) := by
  have hd := d0_pos w hw
  have h1 : 1 ≤ 2 ^ w := Nat.one_le_two_pow
  refine ⟨fun h s hs => cut_repetition_eq W w L δ h s hs, ?_⟩
  have hlt := Nat.mod_lt (W * 2 ^ L) hd
  generalize W * 2 ^ L % (2 ^ w - 1) = r at hlt ⊢
  have hr : (r : Int) < (2 : Int) ^ w - 1 := by
    have h2 : (r : Int) < ((2 ^ w - 1 : Nat) : Int) := by exact_mod_cast hlt
    push_cast [Nat.cast_sub h1] at h2
    exact h2
  have hr0 : (0 : Int) ≤ (r : Int) := Int.natCast_nonneg _
  have hw1 : (1 : Int) ≤ 2 ^ w := one_le_pow₀ (by norm_num)
  have ht1 : (1 : Int) ≤ 2 ^ t := one_le_pow₀ (by norm_num)
  have habs : |((2 : Int) ^ w - 1) * δ| ≤ ((2 : Int) ^ w - 1) * (2 ^ t - 1) := by
    rw [abs_mul, abs_of_nonneg (by linarith : (0 : Int) ≤ 2 ^ w - 1)]
    exact mul_le_mul_of_nonneg_left (by linarith [Int.add_one_le_iff.mpr hδ]) (by linarith)
  rw [pow_add]
  have := abs_sub (((2 : Int) ^ w - 1) * δ) (r : Int)
  rw [abs_of_nonneg hr0] at this
  nlinarith

/-- **Cut repetition ⇒ factored, given the oracle** (every `w`, not only `w ∣ L`): the planted row
for `d = 2^w − 1`, `a = W·2^s`, `c = (2^w − 1)·δ − (W·2^L mod (2^w − 1))`. -/
theorem cut_repetition_sandwich {p q : Nat} (hp : p.Prime) (hq : q.Prime) (hpq : p ≠ q)
    (hq2 : q ≠ 2) (W w L s : Nat) (δ : Int)
    (hP : (p : Int) = (periodicTop W w L : Int) + δ)
    (hs : L = bitLength (p * q) / 2 + s) (hqd : ¬ q ∣ 2 ^ w - 1)
    (basis : List (List Int)) (hlen : ∀ row ∈ basis, 2 ≤ row.length)
    (hrow : ∃ rest,
      ((((2 : Int) ^ w - 1) * δ - ((W * 2 ^ L % (2 ^ w - 1) : Nat) : Int)) *
          ((2 ^ bitLength (2 ^ w - 1) : Nat) : Int) ::
        -((W : Int) * 2 ^ s) * ((2 ^ bitLength (2 ^ w - 1) : Nat) : Int) :: rest) ∈ basis ∨
      (-((((2 : Int) ^ w - 1) * δ - ((W * 2 ^ L % (2 ^ w - 1) : Nat) : Int)) *
          ((2 ^ bitLength (2 ^ w - 1) : Nat) : Int)) ::
        -(-((W : Int) * 2 ^ s) * ((2 ^ bitLength (2 ^ w - 1) : Nat) : Int)) :: rest) ∈ basis) :
    checkFraction (p * q) basis = .ok [p, q] ∨ checkFraction (p * q) basis = .ok [q, p] := by
  apply C05Pre.fraction_sandwich hp hq hpq hq2 (2 ^ w - 1) hqd ((W : Int) * 2 ^ s)
    (((2 : Int) ^ w - 1) * δ - ((W * 2 ^ L % (2 ^ w - 1) : Nat) : Int)) _ basis hlen hrow
  have h1 : 1 ≤ 2 ^ w := Nat.one_le_two_pow
  have e := cut_repetition_eq W w L δ _ s hs
  generalize ((W * 2 ^ L % (2 ^ w - 1) : Nat) : Int) = r at e ⊢
  rw [hP, Nat.cast_sub h1]
  push_cast
  rw [e]

/-! ### non-vacuity -/

/-- a 32-bit toy instance evaluated in the kernel: the 3-bit word `101` cut to 32 bits is
`0xb6db6db6`; swapping its 8-bit limbs gives `0xdbb6b66d`; `D = permutedDenominator 8 3 = 0x6f907`
(the first denominator of `permuted_enum`), and `D·0xdbb6b66d = A₀·2^32 − A₄`. -/
example :
    periodicTop 5 3 32 = 0xb6db6db6 ∧ swapLimbs 8 2 0xb6db6db6 = 0xdbb6b66d ∧
    permutedDenominator 8 3 = 0x6f907 ∧
    (0x6f907 : Int) * 0xdbb6b66d =
      coefA (fun i => (rot 5 3 8 i : Int)) ((2 : Int) ^ 8) (phi 8 3) 3 0 * 2 ^ 32 -
        coefA (fun i => (rot 5 3 8 i : Int)) ((2 : Int) ^ 8) (phi 8 3) 3 4 := by
  decide +kernel

/-- hypotheses of `permuted_sandwich` on a 256-bit instance, with the basis the REAL `lll.reduce`
returned for it (recorded from `rsa_util.CheckFraction(n, 0x6f907)`, which factors `n`): `p` = the
3-bit word `101` over sixteen 8-bit limbs, adjacent limbs swapped, `δ = 276`; `h = 128`, `s = 0`,
`a = A₀ = 392195`, `c = D·δ − A₁₆ = 125926791`; the first row of the reduced basis is MINUS the
planted row `(c·x, −a·x, …)`, `x = 2^19`. -/
example :
    Nat.Prime 292049629173567151846890922455455938433 ∧
    Nat.Prime 304492656810178217310291611588755895363 := by
  constructor
  · exact Pratt.prime_of_cert ⟨292049629173567151846890922455455938433,
      [⟨115201, 23, [(2, 9), (3, 2), (5, 2)]⟩,
       ⟨68059, 2, [(2, 1), (3, 2), (19, 1), (199, 1)]⟩,
       ⟨1849171, 7, [(2, 1), (3, 1), (5, 1), (53, 1), (1163, 1)]⟩,
       ⟨31029089381, 2, [(2, 2), (5, 1), (839, 1), (1849171, 1)]⟩,
       ⟨62926993264669, 6, [(2, 2), (3, 1), (13, 2), (31029089381, 1)]⟩,
       ⟨15040480739134487024825597, 2, [(2, 2), (937, 2), (68059, 1), (62926993264669, 1)]⟩,
       ⟨292049629173567151846890922455455938433, 3,
         [(2, 7), (227, 1), (5801, 1), (115201, 1), (15040480739134487024825597, 1)]⟩]⟩ _
      (by decide +kernel)
  · exact Pratt.prime_of_cert ⟨304492656810178217310291611588755895363,
      [⟨1715033, 3, [(2, 3), (11, 1), (19489, 1)]⟩,
       ⟨14144903, 5, [(2, 1), (311, 1), (22741, 1)]⟩,
       ⟨367767479, 7, [(2, 1), (13, 1), (14144903, 1)]⟩,
       ⟨130995901, 2, [(2, 2), (3, 3), (5, 2), (7, 1), (29, 1), (239, 1)]⟩,
       ⟨7486153750349, 2, [(2, 2), (7, 1), (13, 1), (157, 1), (130995901, 1)]⟩,
       ⟨14972307500699, 2, [(2, 1), (7486153750349, 1)]⟩,
       ⟨17248098240805249, 7, [(2, 7), (3, 2), (14972307500699, 1)]⟩,
       ⟨191419394276456653403, 2, [(2, 1), (31, 1), (179, 1), (17248098240805249, 1)]⟩,
       ⟨304492656810178217310291611588755895363, 2,
         [(2, 1), (13, 1), (97, 1), (1715033, 1), (367767479, 1), (191419394276456653403, 1)]⟩]⟩ _
      (by decide +kernel)

example :
    ((292049629173567151846890922455455938433 : Nat) : Int) =
      (swapLimbs 8 8 (periodicTop 5 3 (8 * (2 * 8))) : Int) + 276 ∧
    8 * (2 * 8) = bitLength (292049629173567151846890922455455938433 *
      304492656810178217310291611588755895363) / 2 + 0 ∧
    ¬ 304492656810178217310291611588755895363 ∣ permutedDenominator 8 3 ∧ 5 < 2 ^ 3 - 1 ∧
    coefA (fun i => (rot 5 3 8 i : Int)) ((2 : Int) ^ 8) (phi 8 3) 3 0 * 2 ^ 0 = 392195 ∧
    (permutedDenominator 8 3 : Int) * 276 -
      coefA (fun i => (rot 5 3 8 i : Int)) ((2 : Int) ^ 8) (phi 8 3) 3 (2 * 8) = 125926791 ∧
    [-66021905399808, 205623132160, -14189702811748560] =
      [-((125926791 : Int) * ((2 ^ bitLength (permutedDenominator 8 3) : Nat) : Int)),
       -(-(392195 : Int) * ((2 ^ bitLength (permutedDenominator 8 3) : Nat) : Int)),
       -14189702811748560] ∧
    checkFraction (292049629173567151846890922455455938433 *
        304492656810178217310291611588755895363)
      [[-66021905399808, 205623132160, -14189702811748560],
       [-49254261229879296, -11632573283827712, -1112956126033490],
       [34322361541984256, -125737141944188928, -2422841389987479]] =
      .ok [292049629173567151846890922455455938433, 304492656810178217310291611588755895363] := by
  decide +kernel

end Paranoid.C05Permuted
