/-
Props/C05PermutedRegion.lean — C05, permuted limbs: which part of the family named by the property
the implementation covers, and a member of the family it does not (second review, finding M5; known
finding D25).

The property: "… or is such a repetition [of a w-bit word, w in the default list] with adjacent
8/16/32/64-bit limbs swapped and an implied denominator of at most a tenth of the modulus length".
The default list contains the odd sizes 9, 11, 13, 15, 31, …; with 8-bit limbs the implied denominator
`D(8, ps) = (2^ps − 1)(2^(8·ps) + 1)/(2^8 + 1)` has `9·ps − 8` bits, which is at most a tenth of the
modulus length for `ps ∈ {9, 11}` at 1024 bits, `{9, 11, 13, 15}` at 2048 bits and also `31` from
2790 bits on. `CheckPermutedBitPatterns` enumerates `psize in range(3, wsize, 2)`: ONLY `ps < ws`.

 * `permuted_tried_region`   every denominator the check tries is `D(ws, ps)` with
                             `ws ∈ {8, 16, 32, 64}`, `3 ≤ ps < ws`, `ps` odd, of at most `bitLength n / 8`
                             bits (and by `C05Pre.permuted_enum` the enumeration stops at the first larger
                             one): `ps ≥ ws` is never tried;
 * `C05Permuted.permuted_is_fraction` / `permuted_sandwich` have NO hypothesis `ps < ws`: for `ps ≥ ws`
   they say that `D(ws, ps)` WOULD work — the check just never calls `CheckFraction(n, D(ws, ps))`;
 * `d25_witness`             kernel-checked data of the D25 replay input: `p` = the 11-bit word `0x5c4`
                             repeated over 512 bits, adjacent 8-bit limbs swapped, plus `δ = 6`; `n = p·q` has
                             1024 bits; `D(8, 11)` has 91 ≤ 102 = 1024/10 bits, 11 is in the default list, and
                             `D(8, 11)` is not among the seven denominators the check tries for this `n`;
                             with the basis the REAL `lll.reduce` returns for `CheckFraction(n, D(8, 11))`
                             the model's `checkFraction` returns `[p, q]`.
   On the real code (every run of `./check C05`): `CheckPermutedBitPatterns`, `CheckBitPatterns` and every
   other check of `CheckAllRSA` except `CheckSizes` (n < 2048 bits) pass this key. (`p`, `q` are prime by
   `gmpy2.is_prime`; no Pratt certificate — `p − 1`, `q − 1` are not factored.)

The harness gates (`always=True`) planted permuted-limb keys exactly in the intersection of the property
and the region of `permuted_tried_region` — `ws ∈ {8,16,32,64}`, `3 ≤ ps < ws` odd, `bitLength D ≤ bitlen/10`
— and plants `ps ≥ ws` keys as statistics + the fixed D25 probe.
-/
import ParanoidModel.Props.C05Permuted
namespace Paranoid.C05PermutedRegion
open Paranoid Paranoid.Permuted

theorem mem_takeWhile_pred {α : Type} (p : α → Bool) : ∀ (l : List α) (x : α),
    x ∈ l.takeWhile p → p x = true ∧ x ∈ l
  | [], _, h => by simp at h
  | a :: l, x, h => by
    rw [List.takeWhile_cons] at h
    by_cases hp : p a = true
    · rw [if_pos hp] at h
      rcases List.mem_cons.mp h with rfl | h
      · exact ⟨hp, List.mem_cons_self⟩
      · obtain ⟨h1, h2⟩ := mem_takeWhile_pred p l x h
        exact ⟨h1, List.mem_cons_of_mem _ h2⟩
    · rw [if_neg hp] at h; simp at h

/-- **The region the implementation covers.** Every denominator `CheckPermutedBitPatterns` tries for
`n` is `permutedDenominator ws ps` for a limb size `ws ∈ {8, 16, 32, 64}` and an ODD word size
`3 ≤ ps < ws`, and has at most `bitLength n / 8` bits. -/
theorem permuted_tried_region (n d : Nat) (hd : d ∈ permutedDenominators n) :
    ∃ ws ps, d = permutedDenominator ws ps ∧ ws ∈ [8, 16, 32, 64] ∧ 3 ≤ ps ∧ ps < ws ∧
      ps % 2 = 1 ∧ bitLength d ≤ bitLength n / 8 := by
  unfold permutedDenominators at hd
  obtain ⟨ws, hws, hd⟩ := List.mem_flatMap.mp hd
  obtain ⟨hp, hm⟩ := mem_takeWhile_pred _ _ _ hd
  obtain ⟨ps, hps, rfl⟩ := List.mem_map.mp hm
  obtain ⟨h3, hlt, hodd⟩ := (mem_oddRange ws ps).mp hps
  exact ⟨ws, ps, rfl, hws, h3, hlt, hodd, by simpa using hp⟩

/-- `ps ≥ ws` is outside every inner loop. -/
theorem not_tried_of_le (ws ps : Nat) (h : ws ≤ ps) : ps ∉ oddRange ws := fun hm =>
  absurd ((mem_oddRange ws ps).mp hm).2.1 (by omega)

/-- **D25 replay input, kernel-checked data.** -/
theorem d25_witness :
    ((0x97b8e2124b5c7189252eb8c412975ce2894b2e71c42597b8e2124b5c7189252eb8c412975ce2894b2e71c42597b8e2124b5c7189252eb8c412975ce2894b2e77 : Nat) : Int) =
      (swapLimbs 8 32 (periodicTop 0x5c4 11 (8 * (2 * 32))) : Int) + 6 ∧
    0x5c4 < 2 ^ 11 - 1 ∧ 11 ∈ defaultPatternSizes ∧
    bitLength (0x97b8e2124b5c7189252eb8c412975ce2894b2e71c42597b8e2124b5c7189252eb8c412975ce2894b2e71c42597b8e2124b5c7189252eb8c412975ce2894b2e77 *
      0xf5532e9c4b0e9e7f94b59db0f37b7afb56e12b56833ce1378b93983c4b978eaf18463b8a4d27667d9d1289458cc8678b093b5dd5f6e0ff055fb693a68c181f3b) = 1024 ∧
    8 * (2 * 32) = 1024 / 2 + 0 ∧
    bitLength (permutedDenominator 8 11) = 91 ∧ 91 ≤ 1024 / 10 ∧
    permutedDenominators
      (0x97b8e2124b5c7189252eb8c412975ce2894b2e71c42597b8e2124b5c7189252eb8c412975ce2894b2e71c42597b8e2124b5c7189252eb8c412975ce2894b2e77 *
       0xf5532e9c4b0e9e7f94b59db0f37b7afb56e12b56833ce1378b93983c4b978eaf18463b8a4d27667d9d1289458cc8678b093b5dd5f6e0ff055fb693a68c181f3b) =
      [permutedDenominator 8 3, permutedDenominator 8 5, permutedDenominator 8 7,
       permutedDenominator 16 3, permutedDenominator 16 5, permutedDenominator 16 7,
       permutedDenominator 32 3] ∧
    permutedDenominator 8 11 ∉
      [permutedDenominator 8 3, permutedDenominator 8 5, permutedDenominator 8 7,
       permutedDenominator 16 3, permutedDenominator 16 5, permutedDenominator 16 7,
       permutedDenominator 32 3] := by
  decide +kernel

/-- had the check tried `D(8, 11)`: with the basis the REAL `lll.reduce` returned for
`rsa_util.CheckFraction(n, D(8, 11))` (recorded; the real call factors `n`) the model's `checkFraction`
returns both primes — the conclusion of `C05Permuted.permuted_sandwich` is realised for `ps = 11 ≥ ws = 8`. -/
theorem d25_would_be_factored :
    checkFraction
      (0x97b8e2124b5c7189252eb8c412975ce2894b2e71c42597b8e2124b5c7189252eb8c412975ce2894b2e71c42597b8e2124b5c7189252eb8c412975ce2894b2e77 *
       0xf5532e9c4b0e9e7f94b59db0f37b7afb56e12b56833ce1378b93983c4b978eaf18463b8a4d27667d9d1289458cc8678b093b5dd5f6e0ff055fb693a68c181f3b)
      [[-31942667489936235548505282889080759639846273903503605760,
        3617121591802001523841156419613308708282048483591979008,
        -147086432492208993109739761650741666017084444563871213935],
       [15758417443516099850130965762803664170081848581020064706291650289776143106048,
        -7262842943458159666217887387075994085101845025268916404931909292447041060864,
        -3600851999878026700443048727429638295692711802241991492518944812743481862458],
       [-18968774109118538695401173622818529937320000880745234893528070887768890277888,
        -25100397546220490382059740735317001187086823275066651010757405572878475198464,
        3502172466922278923243781351383671686655785588043939388325051034523650693307]] =
      .ok [0x97b8e2124b5c7189252eb8c412975ce2894b2e71c42597b8e2124b5c7189252eb8c412975ce2894b2e71c42597b8e2124b5c7189252eb8c412975ce2894b2e77,
           0xf5532e9c4b0e9e7f94b59db0f37b7afb56e12b56833ce1378b93983c4b978eaf18463b8a4d27667d9d1289458cc8678b093b5dd5f6e0ff055fb693a68c181f3b] := by
  decide +kernel

end Paranoid.C05PermutedRegion
