/-
Props/C05Pollard.lean — C05, the Pollard p-1 clause for the product the constructor of
`CheckPollardpm1` REALLY builds (review finding F9).

`Props/C05.lean pollard_flag` is stated for an arbitrary `m` with `g ∣ m`. Here `m` is the
constructor's product (Model/RsaChecks.lean `pollardProduct`) with the documented exponents
(`pollardExpsDocumented`; the float expression `int(math.log(bound, p))` is an oracle that the
harness compares with these exact values on every run, ops `chk.pm1_product` / `chk.pm1_exps`).
For the DEFAULT product the float values are the documented ones (gated on every run), so the
`default…` theorems are about the product the real default check uses. For USER bounds they are NOT
always: `int(math.log(243, 3)) = 4` (also 4913, 29791, 59049, 68921, 571787 below 2^20), there
`userM_dvd_iff` / `pollard_user_flag` describe the documented product, not the one the code builds;
the statements that are true of the code for every float answer are
`C05PollardExps.product_dvd_iff` / `pollard_flag_exps` (second review, M4):

 * `defaultM_dvd_iff`     g ∣ defaultM ↔ every prime power r^k ∣ g has k ≤ e_r, where
                          e_r = ⌊log_r 2^64⌋ for r ≤ 863 (the first 150 primes), 1 for 863 < r < 2^20,
                          0 for r ≥ 2^20   (`userM_dvd_iff`: the same for a user bound);
 * `pollard_default_flag` the composed statement for the default check;
 * `smooth_not_enough`, `literal_text_fails`: "2^20-smooth" in the property text has to be read
   as "divides the product": 1009^7 ≥ 2^60 is 2^20-smooth but does not divide the default product,
   and a concrete key with that shared factor is NOT flagged (PROPERTY-TEXT LIMITATION, reproduced
   on the real code: `Pollardpm1(n, default m) = (False, [])`).

The 1.5 Mbit product is never evaluated in the kernel: everything follows from
`sieve b = (List.range b).filter Nat.Prime` and unique factorisation
(Proofs/PollardProduct.lean); the only evaluated fact is π(863) = 150.
-/
import ParanoidModel.Props.C05
import ParanoidModel.Proofs.PollardProduct
import Mathlib.Tactic.NormNum.Prime
import Mathlib.Tactic.NormNum.GCD
namespace Paranoid.C05Pollard
open Paranoid Paranoid.PollardProduct

/-! ### the divisibility criterion -/

/-- readable form of `k ≤ defaultExp r`. -/
theorem le_defaultExp_iff (r k : Nat) (hr : 2 ≤ r) :
    k ≤ defaultExp r ↔
      k = 0 ∨ (r < 864 ∧ r ^ k ≤ 2 ^ 64) ∨ (864 ≤ r ∧ r < 2 ^ 20 ∧ k = 1) := by
  unfold defaultExp
  by_cases h1 : r < 864
  · rw [if_pos h1, Nat.le_log_iff_pow_le (by omega) (by positivity)]
    constructor
    · intro h; exact Or.inr (Or.inl ⟨h1, h⟩)
    · rintro (h | ⟨_, h⟩ | ⟨h, _⟩)
      · subst h; simp
      · exact h
      · omega
  · rw [if_neg h1]
    by_cases h2 : r < 2 ^ 20
    · rw [if_pos h2]; omega
    · rw [if_neg h2]; omega

/-- **Exact divisibility criterion for the DEFAULT product** (`CheckPollardpm1()` and, by Python
truthiness, `CheckPollardpm1(0)`): `g ∣ m` iff for every prime power `r^k ∣ g` (`k ≥ 1`):
`r^k ≤ 2^64` when `r ≤ 863`, and `k = 1`, `r < 2^20` otherwise. -/
theorem defaultM_dvd_iff (g : Nat) (hg : g ≠ 0) :
    g ∣ defaultM ↔ ∀ r k, r.Prime → r ^ k ∣ g →
      k = 0 ∨ (r < 864 ∧ r ^ k ≤ 2 ^ 64) ∨ (864 ≤ r ∧ r < 2 ^ 20 ∧ k = 1) := by
  rw [dvd_defaultM_iff g hg]
  exact forall_congr' fun r => forall_congr' fun k => forall_congr' fun hr =>
    forall_congr' fun _ => le_defaultExp_iff r k hr.two_le

/-- `defaultM` is the model's constructor product with the documented exponents, for `None` and for
`0` (`if bound:`); nothing else is assumed about it. -/
theorem defaultM_def :
    defaultM = pollardProduct none (pollardExpsDocumented none) ∧
    defaultM = pollardProduct (some 0) (pollardExpsDocumented (some 0)) ∧
    0 < defaultM := ⟨rfl, rfl, defaultM_pos⟩

/-- **Exact criterion for a user bound `b ≥ 1`, DOCUMENTED exponents**: `g ∣ m` iff `g` is
`b`-powersmooth with prime factors below `b`. This is the product `CheckPollardpm1(b)` really builds
iff the float expression returned `⌊log_r b⌋` for every prime — true for every `b ≤ 2^20` except the
prime powers 243, 4913, 29791, 59049, 68921, 571787 (measured; there the real product lacks one factor
`r`: `C05PollardExps.bound243_real_lacks_3pow5`). The criterion for the exponents actually used is
`C05PollardExps.product_dvd_iff`. -/
theorem userM_dvd_iff (b : Nat) (hb : b ≠ 0) (g : Nat) (hg : g ≠ 0) :
    g ∣ pollardProduct (some b) (pollardExpsDocumented (some b)) ↔
      ∀ r k, r.Prime → r ^ k ∣ g → k = 0 ∨ (r < b ∧ r ^ k ≤ b) := by
  have := dvd_documentedM_iff b hb g hg
  unfold documentedM at this
  rw [this]
  refine forall_congr' fun r => forall_congr' fun k => forall_congr' fun hr =>
    forall_congr' fun _ => ?_
  unfold boundExp
  by_cases h1 : r < b
  · rw [if_pos h1, Nat.le_log_iff_pow_le hr.one_lt hb]
    constructor
    · intro h; exact Or.inr ⟨h1, h⟩
    · rintro (h | ⟨_, h⟩)
      · subst h; simp; omega
      · exact h
  · rw [if_neg h1]; omega

/-! ### the composed Pollard clause for the default check -/

/-- **Pollard clause, default product.** `p-1` and `q-1` share a factor `g ≥ 2^60` whose prime
powers respect the exponents of the default product, and `p-1` is smooth enough
(`(p-1) ∣ (n-1)·m`): the key is flagged; it is factored as `[p, q]` unless `2^((n-1)m) ≡ 1 (mod q)`
too (then flagged without factors). -/
theorem pollard_default_flag {p q : Nat} (hp : p.Prime) (hq : q.Prime) (hpq : p ≠ q)
    (hpo : p % 2 = 1) (hqo : q % 2 = 1) (g : Nat) (hgp : g ∣ p - 1) (hgq : g ∣ q - 1)
    (hg : 2 ^ 60 ≤ g)
    (hsm : ∀ r k, r.Prime → r ^ k ∣ g →
      k = 0 ∨ (r < 864 ∧ r ^ k ≤ 2 ^ 64) ∨ (864 ≤ r ∧ r < 2 ^ 20 ∧ k = 1))
    (hp1 : (p - 1) ∣ (p * q - 1) * defaultM) :
    pollardPm1 (p * q) defaultM (2 ^ 60) =
      if 2 ^ ((p * q - 1) * defaultM) % q = 1 then (true, []) else (true, [p, q]) := by
  have hg0 : g ≠ 0 := by
    have : 0 < 2 ^ 60 := by positivity
    omega
  exact C05.pollard_flag hp hq hpq hpo hqo defaultM g (2 ^ 60) defaultM_pos hgp hgq
    ((defaultM_dvd_iff g hg0).mpr hsm) hg hp1

/-- the same when `p-1` itself divides the default product (every prime power of `p-1` within the
exponents): then ANY common factor `g ≥ 2^60` of `p-1` and `q-1` will do. -/
theorem pollard_default_flag_of_smooth {p q : Nat} (hp : p.Prime) (hq : q.Prime) (hpq : p ≠ q)
    (hpo : p % 2 = 1) (hqo : q % 2 = 1) (g : Nat) (hgp : g ∣ p - 1) (hgq : g ∣ q - 1)
    (hg : 2 ^ 60 ≤ g)
    (hsm : ∀ r k, r.Prime → r ^ k ∣ p - 1 →
      k = 0 ∨ (r < 864 ∧ r ^ k ≤ 2 ^ 64) ∨ (864 ≤ r ∧ r < 2 ^ 20 ∧ k = 1)) :
    pollardPm1 (p * q) defaultM (2 ^ 60) =
      if 2 ^ ((p * q - 1) * defaultM) % q = 1 then (true, []) else (true, [p, q]) := by
  have hp2 := hp.two_le
  have hpm : (p - 1) ∣ defaultM := (defaultM_dvd_iff (p - 1) (by omega)).mpr hsm
  exact pollard_default_flag hp hq hpq hpo hqo g hgp hgq hg
    (fun r k hr hk => hsm r k hr (Nat.dvd_trans hk hgp)) (Dvd.dvd.mul_left hpm _)

/-- "… unless both are smooth": when `q-1` is smooth enough as well the key is flagged WITHOUT
factors. (The converse is not claimed: `2^((n-1)m) ≡ 1 (mod q)` only needs the order of 2 modulo
`q` to divide `(n-1)·m`.) -/
theorem pollard_default_both_smooth {p q : Nat} (hp : p.Prime) (hq : q.Prime) (hpq : p ≠ q)
    (hpo : p % 2 = 1) (hqo : q % 2 = 1) (g : Nat) (hgp : g ∣ p - 1) (hgq : g ∣ q - 1)
    (hg : 2 ^ 60 ≤ g)
    (hsm : ∀ r k, r.Prime → r ^ k ∣ g →
      k = 0 ∨ (r < 864 ∧ r ^ k ≤ 2 ^ 64) ∨ (864 ≤ r ∧ r < 2 ^ 20 ∧ k = 1))
    (hp1 : (p - 1) ∣ (p * q - 1) * defaultM) (hq1 : (q - 1) ∣ (p * q - 1) * defaultM) :
    pollardPm1 (p * q) defaultM (2 ^ 60) = (true, []) := by
  rw [pollard_default_flag hp hq hpq hpo hqo g hgp hgq hg hsm hp1,
    if_pos (two_pow_mod_prime hq hqo hq1)]

/-- the user-bound version for the DOCUMENTED product of `CheckPollardpm1(b)`, `b ≥ 1`, shared factor
`b`-powersmooth. It is a statement about the real check only when the float exponents are the
documented ones (`C05PollardExps.pollard_user_flag_of_documented` makes that hypothesis explicit); for
`b = 243` it is NOT: `C05PollardExps.bound243_documented_vs_real` is a key that satisfies every
hypothesis here (also the non-vacuity example of this theorem) and that the real `CheckPollardpm1(243)`
does not flag. True of the code for every float answer: `C05PollardExps.pollard_flag_exps`. -/
theorem pollard_user_flag {p q : Nat} (hp : p.Prime) (hq : q.Prime) (hpq : p ≠ q)
    (hpo : p % 2 = 1) (hqo : q % 2 = 1) (b : Nat) (hb : b ≠ 0) (g gb : Nat)
    (hgp : g ∣ p - 1) (hgq : g ∣ q - 1) (hg : gb ≤ g) (hg0 : g ≠ 0)
    (hsm : ∀ r k, r.Prime → r ^ k ∣ g → k = 0 ∨ (r < b ∧ r ^ k ≤ b))
    (hp1 : (p - 1) ∣ (p * q - 1) * pollardProduct (some b) (pollardExpsDocumented (some b))) :
    pollardPm1 (p * q) (pollardProduct (some b) (pollardExpsDocumented (some b))) gb =
      if 2 ^ ((p * q - 1) * pollardProduct (some b) (pollardExpsDocumented (some b))) % q = 1
      then (true, []) else (true, [p, q]) :=
  C05.pollard_flag hp hq hpq hpo hqo _ g gb (documentedM_pos (some b)) hgp hgq
    ((userM_dvd_iff b hb g hg0).mpr hsm) hg hp1

/-! ### non-vacuity: a key whose shared factor contains prime POWERS within the limits -/

theorem powerSmooth_prime_pow {E : Nat → Nat} {r k : Nat} (hr : r.Prime) (hk : k ≤ E r) :
    PowerSmooth E (r ^ k) := by
  intro s j hs hj
  obtain ⟨m, hm, heq⟩ := (Nat.dvd_prime_pow hr).mp hj
  rcases Nat.eq_zero_or_pos j with h0 | hpos
  · omega
  · have hsr : s ∣ r ^ m := heq ▸ dvd_pow_self s (by omega)
    have : s = r := (Nat.prime_dvd_prime_iff_eq hs hr).mp (hs.dvd_of_dvd_pow hsr)
    subst this
    have : j = m := Nat.pow_right_injective hs.two_le heq
    omega

theorem PowerSmooth.mul {E : Nat → Nat} {a b : Nat} (ha : PowerSmooth E a) (hb : PowerSmooth E b)
    (hab : Nat.Coprime a b) : PowerSmooth E (a * b) := by
  intro r k hr hk
  by_cases hra : r ∣ a
  · have hrb : Nat.Coprime (r ^ k) b :=
      Nat.Coprime.pow_left k (Nat.Coprime.coprime_dvd_left hra hab)
    exact ha r k hr (hrb.dvd_of_dvd_mul_right hk)
  · have hra' : Nat.Coprime (r ^ k) a :=
      Nat.Coprime.pow_left k ((Nat.Prime.coprime_iff_not_dvd hr).mpr hra)
    exact hb r k hr (hra'.dvd_of_dvd_mul_left hk)

/-- `p - 1 = 2^64 · 3^31 · 863^2 · 1009`, `q - 1 = 2^20 · 3^10 · 863^2 · 1009 · 2097257`: the shared
factor `g = 2^20·3^10·863^2·1009 ≥ 2^60` contains prime powers, all within the exponents of the
default product; `p - 1` divides it, `q - 1` does not (2097257 > 2^20). The hypotheses of
`pollard_default_flag_of_smooth` hold; the real `CheckPollardpm1()` returns both primes for this key
(harness case `power-in-witness`, evaluated on every run). -/
example :
    Nat.Prime 8562318457488567634551083203943137586184193 ∧
    Nat.Prime 97583607849372129325744129 ∧
    (2 ^ 20 * 3 ^ 10 * 863 ^ 2 * 1009 ∣ 8562318457488567634551083203943137586184193 - 1) ∧
    (2 ^ 20 * 3 ^ 10 * 863 ^ 2 * 1009 ∣ 97583607849372129325744129 - 1) ∧
    2 ^ 60 ≤ 2 ^ 20 * 3 ^ 10 * 863 ^ 2 * 1009 ∧
    (∀ r k, r.Prime → r ^ k ∣ 8562318457488567634551083203943137586184193 - 1 →
      k = 0 ∨ (r < 864 ∧ r ^ k ≤ 2 ^ 64) ∨ (864 ≤ r ∧ r < 2 ^ 20 ∧ k = 1)) := by
  refine ⟨?_, ?_, ?_, ?_, by norm_num, ?_⟩
  · exact Pratt.prime_of_cert ⟨8562318457488567634551083203943137586184193,
      [⟨8562318457488567634551083203943137586184193, 10, [(2, 64), (3, 31), (863, 2), (1009, 1)]⟩]⟩
      _ (by decide +kernel)
  · exact Pratt.prime_of_cert ⟨97583607849372129325744129,
      [⟨2097257, 3, [(2, 3), (7, 1), (17, 1), (2203, 1)]⟩,
       ⟨97583607849372129325744129, 13, [(2, 20), (3, 10), (863, 2), (1009, 1), (2097257, 1)]⟩]⟩
      _ (by decide +kernel)
  · exact ⟨2 ^ 44 * 3 ^ 21, by norm_num⟩
  · exact ⟨2097257, by norm_num⟩
  · have h863 : Nat.Prime 863 := by norm_num
    have h1009 : Nat.Prime 1009 := by norm_num
    have hE : PowerSmooth defaultExp (2 ^ 64 * 3 ^ 31 * 863 ^ 2 * 1009 ^ 1) := by
      refine PowerSmooth.mul (PowerSmooth.mul (PowerSmooth.mul
        (powerSmooth_prime_pow Nat.prime_two ?_) (powerSmooth_prime_pow Nat.prime_three ?_) ?_)
        (powerSmooth_prime_pow h863 ?_) ?_) (powerSmooth_prime_pow h1009 ?_) ?_
      · exact (le_defaultExp_iff 2 64 (by norm_num)).mpr (Or.inr (Or.inl (by norm_num)))
      · exact (le_defaultExp_iff 3 31 (by norm_num)).mpr (Or.inr (Or.inl (by norm_num)))
      · exact Nat.Coprime.pow _ _ (by norm_num)
      · exact (le_defaultExp_iff 863 2 (by norm_num)).mpr (Or.inr (Or.inl (by norm_num)))
      · exact Nat.Coprime.mul_left (Nat.Coprime.pow _ _ (by norm_num))
          (Nat.Coprime.pow _ _ (by norm_num))
      · exact (le_defaultExp_iff 1009 1 (by norm_num)).mpr (Or.inr (Or.inr (by norm_num)))
      · rw [pow_one]
        exact Nat.Coprime.mul_left (Nat.Coprime.mul_left (Nat.Coprime.pow_left _ (by norm_num))
          (Nat.Coprime.pow_left _ (by norm_num))) (Nat.Coprime.pow_left _ (by norm_num))
    have heq : 8562318457488567634551083203943137586184193 - 1 =
        2 ^ 64 * 3 ^ 31 * 863 ^ 2 * 1009 ^ 1 := by norm_num
    rw [heq]
    intro r k hr hk
    exact (le_defaultExp_iff r k hr.two_le).mp (hE r k hr hk)

/-! ### the literal property text is too strong: "2^20-smooth" ≠ "divides the product" -/

/-- `1009^7 ≥ 2^60` is `2^20`-smooth (its only prime factor is 1009) but does NOT divide the
default product, which contains 1009 only once (1009 is the 169th prime, beyond the 150 raised
ones). -/
theorem smooth_not_enough :
    2 ^ 60 ≤ 1009 ^ 7 ∧ (∀ r, r.Prime → r ∣ 1009 ^ 7 → r < 2 ^ 20) ∧ ¬ 1009 ^ 7 ∣ defaultM := by
  have h1009 : Nat.Prime 1009 := by norm_num
  refine ⟨by norm_num, ?_, ?_⟩
  · intro r hr hd
    have : r = 1009 := (Nat.prime_dvd_prime_iff_eq hr h1009).mp (hr.dvd_of_dvd_pow hd)
    subst this; norm_num
  · intro h
    have := (defaultM_dvd_iff (1009 ^ 7) (by norm_num)).mp h 1009 7 h1009 (dvd_refl _)
    norm_num at this

/-- a divisor of `r^a · s` that is not divisible by `r²` divides `r · s`. -/
theorem dvd_of_dvd_pow_mul {r a s d : Nat} (hr : r.Prime) (hs : s ≠ 0) (hd : d ∣ r ^ a * s)
    (h2 : ¬ r ^ 2 ∣ d) : d ∣ r * s := by
  have hra : r ^ a ≠ 0 := pow_ne_zero _ hr.pos.ne'
  have hd0 : d ≠ 0 := fun h => by
    rw [h, Nat.zero_dvd] at hd; exact (Nat.mul_ne_zero hra hs) hd
  rw [← Nat.factorization_le_iff_dvd hd0 (Nat.mul_ne_zero hr.pos.ne' hs), Finsupp.le_def]
  intro t
  have hle := (Nat.factorization_le_iff_dvd hd0 (Nat.mul_ne_zero hra hs)).mpr hd t
  rw [Nat.factorization_mul hra hs, Finsupp.add_apply, hr.factorization_pow,
    Finsupp.single_apply] at hle
  rw [Nat.factorization_mul hr.pos.ne' hs, Finsupp.add_apply, hr.factorization,
    Finsupp.single_apply]
  by_cases ht : r = t
  · subst ht
    rw [if_pos rfl]
    have : ¬ 2 ≤ d.factorization r := fun h => h2 ((hr.pow_dvd_iff_le_factorization hd0).mpr h)
    omega
  · rw [if_neg ht] at hle ⊢; exact hle

/-- primality of the numbers of the witness (Pratt certificates, Proofs/Pratt.lean). -/
theorem witness_primes :
    Nat.Prime 25553441901090092879257 ∧ Nat.Prime 2233202595329425274535519299 ∧
    Nat.Prime 28478672841607973745406249 ∧ Nat.Prime 1048721 := by
  refine ⟨?_, ?_, ?_, ?_⟩
  · exact Pratt.prime_of_cert ⟨25553441901090092879257,
      [⟨25553441901090092879257, 5, [(2, 3), (3, 1), (1009, 7)]⟩]⟩ _ (by decide +kernel)
  · exact Pratt.prime_of_cert ⟨2233202595329425274535519299,
      [⟨1048721, 3, [(2, 4), (5, 1), (13109, 1)]⟩,
       ⟨2233202595329425274535519299, 2, [(2, 1), (1009, 7), (1048721, 1)]⟩]⟩ _
      (by decide +kernel)
  · exact Pratt.prime_of_cert ⟨28478672841607973745406249,
      [⟨17485729, 11, [(2, 5), (3, 1), (13, 1), (14011, 1)]⟩,
       ⟨90787, 3, [(2, 1), (3, 1), (15131, 1)]⟩,
       ⟨8533979, 2, [(2, 1), (47, 1), (90787, 1)]⟩,
       ⟨17067959, 17, [(2, 1), (8533979, 1)]⟩,
       ⟨295831, 3, [(2, 1), (3, 2), (5, 1), (19, 1), (173, 1)]⟩,
       ⟨2958311, 13, [(2, 1), (5, 1), (295831, 1)]⟩,
       ⟨5916623, 5, [(2, 1), (2958311, 1)]⟩,
       ⟨3975970657, 5, [(2, 5), (3, 1), (7, 1), (5916623, 1)]⟩,
       ⟨28478672841607973745406249, 11,
         [(2, 3), (3, 1), (17067959, 1), (17485729, 1), (3975970657, 1)]⟩]⟩ _ (by decide +kernel)
  · exact Pratt.prime_of_cert ⟨1048721, [⟨1048721, 3, [(2, 4), (5, 1), (13109, 1)]⟩]⟩ _
      (by decide +kernel)

/-- the witness for ANY product `m` that contains `2^3·3`, 1009 at most once, and neither the prime
1048721 nor the 85-bit prime `P` (`n - 1 = 1009^7 · 1882 · P`): `p - 1` is smooth enough, `q - 1`
is not, and the gcd gate `gcd(n-1, m) ≥ 2^60` stays closed. -/
theorem witness_generic (m : Nat) (h24 : 24 ∣ m) (hnoP : ¬ 28478672841607973745406249 ∣ m)
    (hnokq : ¬ 1048721 ∣ m) (hno1009 : ¬ 1009 ^ 2 ∣ m) :
    (25553441901090092879257 - 1) ∣
      (25553441901090092879257 * 2233202595329425274535519299 - 1) * m ∧
    ¬ (2233202595329425274535519299 - 1) ∣
      (25553441901090092879257 * 2233202595329425274535519299 - 1) * m ∧
    pollardPm1 (25553441901090092879257 * 2233202595329425274535519299) m (2 ^ 60) =
      (false, []) := by
  obtain ⟨-, -, hP, hkq⟩ := witness_primes
  have h1009 : Nat.Prime 1009 := by norm_num
  have hn1 : 25553441901090092879257 * 2233202595329425274535519299 - 1 =
      1009 ^ 7 * 1882 * 28478672841607973745406249 := by norm_num
  rw [hn1]
  refine ⟨?_, ?_, ?_⟩
  · have : 25553441901090092879257 - 1 = 1009 ^ 7 * 24 := by norm_num
    rw [this, Nat.mul_assoc (1009 ^ 7), Nat.mul_assoc (1009 ^ 7)]
    exact Nat.mul_dvd_mul_left _ (Dvd.dvd.mul_left h24 _)
  · intro h
    have hk : 1048721 ∣ 1009 ^ 7 * 1882 * 28478672841607973745406249 * m :=
      Nat.dvd_trans ⟨2 * 1009 ^ 7, by norm_num⟩ h
    rcases (Nat.Prime.dvd_mul hkq).mp hk with h1 | h1
    · norm_num at h1
    · exact hnokq h1
  · have hd1 := Nat.gcd_dvd_left (1009 ^ 7 * 1882 * 28478672841607973745406249) m
    have hdm := Nat.gcd_dvd_right (1009 ^ 7 * 1882 * 28478672841607973745406249) m
    have hcop : Nat.Coprime (Nat.gcd (1009 ^ 7 * 1882 * 28478672841607973745406249) m)
        28478672841607973745406249 :=
      Nat.Coprime.symm ((Nat.Prime.coprime_iff_not_dvd hP).mpr fun h => hnoP (Nat.dvd_trans h hdm))
    have hd2 := hcop.dvd_of_dvd_mul_right hd1
    have hd3 := dvd_of_dvd_pow_mul h1009 (by norm_num) hd2 fun h => hno1009 (Nat.dvd_trans h hdm)
    have hle := Nat.le_of_dvd (by norm_num) hd3
    unfold pollardPm1
    rw [hn1, if_neg]
    have : (1009 : Nat) * 1882 < 2 ^ 60 := by norm_num
    omega

/-- **PROPERTY-TEXT LIMITATION (kernel-checked witness).** With `g = 1009^7` (`2^20`-smooth,
`≥ 2^60`), `p = 24g + 1`, `q = 2·1048721·g + 1` (both prime, Pratt certificates): `g` divides `p-1`
and `q-1`, `p-1` is smooth enough for the default product (`(p-1) ∣ (n-1)·m`; even `24 ∣ m`), `q-1`
is not — and `Pollardpm1(n, m)` returns `(False, [])`, because `gcd(n-1, m)` divides `1009·1882` and
so stays below the gate `2^60` (`n - 1 = 1009^7 · 1882 · P`, `P` an 85-bit prime). The real code
agrees (harness case `literal-witness`: implementation on every run, model in the thorough tier). Hence the literal wording "share a
2^20-smooth factor of at least 2^60" must be read as "share a factor of at least 2^60 that divides
the Pollard product" (`pollard_default_flag`). -/
theorem literal_text_fails :
    ∃ p q g : Nat, p.Prime ∧ q.Prime ∧ p ≠ q ∧ g ∣ p - 1 ∧ g ∣ q - 1 ∧ 2 ^ 60 ≤ g ∧
      (∀ r, r.Prime → r ∣ g → r < 2 ^ 20) ∧
      (p - 1) ∣ (p * q - 1) * defaultM ∧ ¬ (q - 1) ∣ (p * q - 1) * defaultM ∧
      pollardPm1 (p * q) defaultM (2 ^ 60) = (false, []) := by
  obtain ⟨hp, hq, hP, hkq⟩ := witness_primes
  have h1009 : Nat.Prime 1009 := by norm_num
  have hnoP : ¬ 28478672841607973745406249 ∣ defaultM := fun h => by
    have := (defaultM_dvd_iff _ (by norm_num)).mp h _ 1 hP (by rw [pow_one])
    norm_num at this
  have hnokq : ¬ 1048721 ∣ defaultM := fun h => by
    have := (defaultM_dvd_iff _ (by norm_num)).mp h _ 1 hkq (by rw [pow_one])
    norm_num at this
  have hno1009 : ¬ 1009 ^ 2 ∣ defaultM := fun h => by
    have := (defaultM_dvd_iff _ (by norm_num)).mp h 1009 2 h1009 (dvd_refl _)
    norm_num at this
  have h24 : 24 ∣ defaultM := by
    have h : PowerSmooth defaultExp (2 ^ 3 * 3 ^ 1) :=
      PowerSmooth.mul (powerSmooth_prime_pow Nat.prime_two
          ((le_defaultExp_iff 2 3 (by norm_num)).mpr (Or.inr (Or.inl (by norm_num)))))
        (powerSmooth_prime_pow Nat.prime_three
          ((le_defaultExp_iff 3 1 (by norm_num)).mpr (Or.inr (Or.inl (by norm_num)))))
        (by norm_num)
    exact (dvd_defaultM_iff 24 (by norm_num)).mpr h
  obtain ⟨w1, w2, w3⟩ := witness_generic defaultM h24 hnoP hnokq hno1009
  refine ⟨25553441901090092879257, 2233202595329425274535519299, 1009 ^ 7, hp, hq, by norm_num,
    ⟨24, by norm_num⟩, ⟨2 * 1048721, by norm_num⟩, by norm_num, ?_, w1, w2, w3⟩
  intro r hr hd
  have : r = 1009 := (Nat.prime_dvd_prime_iff_eq hr h1009).mp (hr.dvd_of_dvd_pow hd)
  subst this; norm_num

end Paranoid.C05Pollard
