/-
Props/C05PollardExps.lean — C05, the Pollard p-1 clause for the product the constructor of
`CheckPollardpm1` builds from the exponents it REALLY uses (second review, finding M4).

`CheckPollardpm1.__init__` raises every prime `r` of `Sieve(bound)` (user bound) resp. the first 150
primes of `Sieve(2^20)` (default) to `int(math.log(bound, r))`. That float expression is an ORACLE of
the model (`pollardProduct bound exps`, Model/RsaChecks.lean). `Props/C05Pollard.lean` instantiates
`exps` with the DOCUMENTED value `⌊log_r bound⌋` (`pollardExpsDocumented`). Measured on the real code
(`/var/tmp/w/review2/scratch/c05/m4_enum.out`, every bound ≤ 2^20 and every prime, brute force):

 * default branch (`None`, `0`): the float exponents of all 150 primes ARE the documented ones and the
   real 1 518 658-bit product IS the documented product, so `C05Pollard.defaultM_dvd_iff`,
   `pollard_default_flag` … are statements about the product the default check really uses
   (the harness re-checks this on every run, op `chk.pm1_product`);
 * user bounds: `int(math.log(p^k, p)) = k − 1` for the six prime powers 3^5 = 243, 3^10 = 59049,
   17^3, 31^3, 41^3, 83^3 (and 3^13, 3^15, 223^3, 239^3 up to 2^24) — there the real product lacks one
   factor `p` and `C05Pollard.userM_dvd_iff` / `pollard_user_flag` describe a product the code does
   NOT build. For every other bound ≤ 2^20 the two products coincide.

Here the criterion and the clause are stated for an ARBITRARY exponent list `exps` — hence for the
list the real constructor used, whatever the float library returned:

 * `product_dvd_iff`       g ∣ pollardProduct bound exps ↔ every prime power r^k ∣ g has
                           k ≤ usedExp bound exps r, the entry of `exps` at the position of `r` in the
                           sieve (`usedExp_at`), 1 for primes of the sieve beyond `exps`, 0 otherwise;
 * `pollard_flag_exps`     the composed clause for that product (default or user bound);
 * `pollard_user_flag_of_documented`  the documented-exponent form as the corollary `exps = documented`;
 * `bound243_*`            kernel-checked: with the exponents the real code uses for bound 243
                           (`floatExps243`, compared with the real constructor on every run, op
                           `chk.pm1_float243`) `3^5 ∤ m`, and a key that satisfies every hypothesis of
                           `C05Pollard.pollard_user_flag` (documented product: factored) is NOT flagged
                           by the real product. This is an OBSERVATION about the user-bound path
                           (the docstring of `CheckPollardpm1` promises `B`-powersmooth; proposed patch
                           `fixes/pollard-user-bound-exponent.diff`, exact integer logarithm), not a
                           violation of C05: the Pollard clause of C05 is about "the default Pollard
                           product", which is unaffected.
-/
import ParanoidModel.Props.C05Pollard
import ParanoidModel.Model.PollardFloat
namespace Paranoid.C05PollardExps
open Paranoid Paranoid.PollardProduct

/-! ### the product for an arbitrary exponent oracle -/

/-- the primes of the constructor's product: `Sieve(bound)` for a user bound, `Sieve(2^20)` for the
default branch (`None` and, by truthiness, `0`). -/
def productPrimes (bound : Option Nat) : List Nat :=
  match pollardUserBound bound with
  | some b => sieve b
  | none => sieve (2 ^ 20)

theorem pollardProduct_eq (bound : Option Nat) (exps : List Nat) :
    pollardProduct bound exps = fastProduct (pollardPowers (productPrimes bound) exps) := by
  unfold pollardProduct productPrimes
  cases pollardUserBound bound <;> rfl

theorem productPrimes_prime (bound : Option Nat) : ∀ p ∈ productPrimes bound, p.Prime := by
  unfold productPrimes
  cases pollardUserBound bound <;> exact sieve_prime _

theorem productPrimes_nodup (bound : Option Nat) : (productPrimes bound).Nodup := by
  unfold productPrimes
  cases pollardUserBound bound <;> exact sieve_nodup _

/-- a prime is in the product iff it is below the user bound (below `2^20` in the default branch). -/
theorem mem_productPrimes (bound : Option Nat) (r : Nat) :
    r ∈ productPrimes bound ↔
      r.Prime ∧ r < (match pollardUserBound bound with | some b => b | none => 2 ^ 20) := by
  unfold productPrimes
  cases pollardUserBound bound <;> simp only [mem_sieve] <;> exact And.comm

/-- the exponent of the prime `r` in `pollardProduct bound exps`: the entry of `exps` at the position
of `r` in the sieve; 1 when `exps` is shorter (default branch: primes beyond the first 150); 0 when `r`
is not in the sieve. -/
def usedExp (bound : Option Nat) (exps : List Nat) (r : Nat) : Nat :=
  expAt (productPrimes bound) exps r

theorem expAt_getElem : ∀ (ps es : List Nat) (i r e : Nat), ps.Nodup → ps[i]? = some r →
    es[i]? = some e → expAt ps es r = e
  | [], _, _, _, _, _, h, _ => by simp at h
  | _ :: _, [], _, _, _, _, _, h => by simp at h
  | p :: ps, e0 :: es, 0, r, e, _, h1, h2 => by
    simp only [List.getElem?_cons_zero, Option.some.injEq] at h1 h2
    rw [expAt, if_pos h1.symm, h2]
  | p :: ps, e0 :: es, i + 1, r, e, hnd, h1, h2 => by
    simp only [List.getElem?_cons_succ] at h1 h2
    have hmem : r ∈ ps := List.mem_of_getElem? h1
    have hne : r ≠ p := fun h => (List.nodup_cons.mp hnd).1 (h ▸ hmem)
    rw [expAt, if_neg hne]
    exact expAt_getElem ps es i r e (List.nodup_cons.mp hnd).2 h1 h2

theorem expAt_beyond : ∀ (ps es : List Nat) (i r : Nat), ps.Nodup → ps[i]? = some r →
    es.length ≤ i → expAt ps es r = 1
  | [], _, _, _, _, h, _ => by simp at h
  | p :: ps, [], i, r, _, h1, _ => by
    rw [expAt_nil_right, if_pos (List.mem_of_getElem? h1)]
  | p :: ps, e0 :: es, 0, r, _, _, h2 => by simp at h2
  | p :: ps, e0 :: es, i + 1, r, hnd, h1, h2 => by
    simp only [List.getElem?_cons_succ] at h1
    have hmem : r ∈ ps := List.mem_of_getElem? h1
    have hne : r ≠ p := fun h => (List.nodup_cons.mp hnd).1 (h ▸ hmem)
    rw [expAt, if_neg hne]
    exact expAt_beyond ps es i r (List.nodup_cons.mp hnd).2 h1 (by simpa using h2)

/-- **what `usedExp` is**: positional lookup of the exponent oracle. -/
theorem usedExp_at (bound : Option Nat) (exps : List Nat) (i r : Nat)
    (hr : (productPrimes bound)[i]? = some r) :
    (∀ e, exps[i]? = some e → usedExp bound exps r = e) ∧
    (exps.length ≤ i → usedExp bound exps r = 1) :=
  ⟨fun e he => expAt_getElem _ _ i r e (productPrimes_nodup bound) hr he,
   fun h => expAt_beyond _ _ i r (productPrimes_nodup bound) hr h⟩

theorem usedExp_not_mem (bound : Option Nat) (exps : List Nat) (r : Nat)
    (hr : r ∉ productPrimes bound) : usedExp bound exps r = 0 :=
  expAt_not_mem _ _ _ hr

/-- the product is positive for EVERY exponent list. -/
theorem product_pos (bound : Option Nat) (exps : List Nat) : 0 < pollardProduct bound exps := by
  rw [pollardProduct_eq, fastProduct_eq_prod]
  exact Nat.pos_of_ne_zero (pollardPowers_prod_ne_zero _ _ (productPrimes_prime bound))

/-- **Exact divisibility criterion for the product the constructor builds from the exponents `exps`
it actually used** (any bound, any float answers): `g ∣ m` iff every prime power `r^k ∣ g` has
`k ≤ usedExp bound exps r`. -/
theorem product_dvd_iff (bound : Option Nat) (exps : List Nat) (g : Nat) (hg : g ≠ 0) :
    g ∣ pollardProduct bound exps ↔
      ∀ r k, r.Prime → r ^ k ∣ g → k ≤ usedExp bound exps r := by
  rw [pollardProduct_eq,
    dvd_pollardPowers_iff _ _ (productPrimes_prime bound) (productPrimes_nodup bound) g hg]
  rfl

/-- **Pollard clause for the product really built** (default or user bound, exponent oracle `exps`):
`p-1` and `q-1` share a factor `g ≥ gb` all of whose prime powers respect the USED exponents, and
`p-1` is smooth enough for that product: flagged; factored as `[p, q]` unless `q` is caught too. -/
theorem pollard_flag_exps {p q : Nat} (hp : p.Prime) (hq : q.Prime) (hpq : p ≠ q)
    (hpo : p % 2 = 1) (hqo : q % 2 = 1) (bound : Option Nat) (exps : List Nat) (g gb : Nat)
    (hgp : g ∣ p - 1) (hgq : g ∣ q - 1) (hg : gb ≤ g) (hg0 : g ≠ 0)
    (hsm : ∀ r k, r.Prime → r ^ k ∣ g → k ≤ usedExp bound exps r)
    (hp1 : (p - 1) ∣ (p * q - 1) * pollardProduct bound exps) :
    pollardPm1 (p * q) (pollardProduct bound exps) gb =
      if 2 ^ ((p * q - 1) * pollardProduct bound exps) % q = 1
      then (true, []) else (true, [p, q]) :=
  C05.pollard_flag hp hq hpq hpo hqo _ g gb (product_pos bound exps) hgp hgq
    ((product_dvd_iff bound exps g hg0).mpr hsm) hg hp1

/-- the converse that makes the criterion sharp for the gate: when the shared part of `n - 1` and
the product stays below `gcd_bound` the check says `(False, [])` — in particular a prime power of `g`
beyond the used exponent is simply not in `m`. -/
theorem pollard_gate_closed (n : Nat) (bound : Option Nat) (exps : List Nat) (gb : Nat)
    (h : Nat.gcd (n - 1) (pollardProduct bound exps) < gb) :
    pollardPm1 n (pollardProduct bound exps) gb = (false, []) := by
  unfold pollardPm1
  rw [if_neg (by omega)]

/-! ### the documented exponents as a corollary -/

/-- with the documented exponents of a user bound `b ≥ 1` the used exponent of a prime is
`⌊log_r b⌋` below `b`, 0 otherwise. -/
theorem usedExp_documented (b : Nat) (hb : b ≠ 0) (r : Nat) (hr : r.Prime) :
    usedExp (some b) (pollardExpsDocumented (some b)) r = boundExp b r := by
  have hpp : productPrimes (some b) = sieve b := by
    cases b with
    | zero => exact absurd rfl hb
    | succ n => rfl
  have hdoc : pollardExpsDocumented (some b) =
      ((sieve b).take (sieve b).length).map (fun p => floorLog p b) := by
    rw [List.take_length]
    cases b with
    | zero => exact absurd rfl hb
    | succ n => rfl
  unfold usedExp
  rw [hpp, hdoc, expAt_map_take _ _ (sieve_nodup _), List.take_length, boundExp]
  simp only [mem_sieve, hr, and_true]
  by_cases h1 : r < b
  · rw [if_pos h1, if_pos h1, floorLog_eq_log r _ hr.two_le (by omega)]
  · rw [if_neg h1, if_neg h1, if_neg h1]

/-- **The documented form is the special case `exps = documented`.** Whenever the float expression
returned the documented exponents (every bound ≤ 2^20 except 243, 4913, 29791, 59049, 68921, 571787 on
the measured platform) the clause holds with the readable criterion "`g` is `b`-powersmooth with prime
factors below `b`". For the six exceptional bounds the hypothesis `hexps` is FALSE of the real code. -/
theorem pollard_user_flag_of_documented {p q : Nat} (hp : p.Prime) (hq : q.Prime) (hpq : p ≠ q)
    (hpo : p % 2 = 1) (hqo : q % 2 = 1) (b : Nat) (hb : b ≠ 0) (exps : List Nat)
    (hexps : exps = pollardExpsDocumented (some b)) (g gb : Nat)
    (hgp : g ∣ p - 1) (hgq : g ∣ q - 1) (hg : gb ≤ g) (hg0 : g ≠ 0)
    (hsm : ∀ r k, r.Prime → r ^ k ∣ g → k = 0 ∨ (r < b ∧ r ^ k ≤ b))
    (hp1 : (p - 1) ∣ (p * q - 1) * pollardProduct (some b) exps) :
    pollardPm1 (p * q) (pollardProduct (some b) exps) gb =
      if 2 ^ ((p * q - 1) * pollardProduct (some b) exps) % q = 1
      then (true, []) else (true, [p, q]) := by
  subst hexps
  exact C05Pollard.pollard_user_flag hp hq hpq hpo hqo b hb g gb hgp hgq hg hg0 hsm hp1

/-- the two criteria agree under `exps = documented` (so `product_dvd_iff` generalises
`C05Pollard.userM_dvd_iff`). -/
theorem documented_criterion_iff (b : Nat) (hb : b ≠ 0) (g : Nat) :
    (∀ r k, r.Prime → r ^ k ∣ g → k ≤ usedExp (some b) (pollardExpsDocumented (some b)) r) ↔
      ∀ r k, r.Prime → r ^ k ∣ g → k = 0 ∨ (r < b ∧ r ^ k ≤ b) := by
  refine forall_congr' fun r => forall_congr' fun k => forall_congr' fun hr =>
    forall_congr' fun _ => ?_
  rw [usedExp_documented b hb r hr]
  unfold boundExp
  by_cases h1 : r < b
  · rw [if_pos h1, Nat.le_log_iff_pow_le hr.one_lt hb]
    constructor
    · intro h; exact Or.inr ⟨h1, h⟩
    · rintro (h | ⟨_, h⟩)
      · subst h; simp; omega
      · exact h
  · rw [if_neg h1]; omega

/-! ### bound 243: the exponents the real constructor uses -/

/-! `floatExps243` (Model/PollardFloat.lean) = `[int(math.log(243, r)) for r in Sieve(243)]` as
returned by the real code (CPython `math.log`, IEEE doubles): `math.log(243, 3) = 4.999999999999999`,
so 3 gets the exponent 4, not 5. The harness compares this list with the real expression on every
run (op `chk.pm1_float243`). -/

theorem sieve_243 : sieve 243 =
    [2, 3, 5, 7, 11, 13, 17, 19, 23, 29, 31, 37, 41, 43, 47, 53, 59, 61, 67, 71, 73, 79, 83, 89, 97,
     101, 103, 107, 109, 113, 127, 131, 137, 139, 149, 151, 157, 163, 167, 173, 179, 181, 191, 193,
     197, 199, 211, 223, 227, 229, 233, 239, 241] := by
  decide +kernel

/-- the float exponents differ from the documented ones exactly at the prime 3. -/
theorem floatExps243_vs_documented :
    pollardExpsDocumented (some 243) = [7, 5, 3, 2, 2, 2] ++ List.replicate 47 1 ∧
    floatExps243 = [7, 4, 3, 2, 2, 2] ++ List.replicate 47 1 ∧
    usedExp (some 243) floatExps243 3 = 4 ∧
    usedExp (some 243) (pollardExpsDocumented (some 243)) 3 = 5 := by
  have h1 : pollardExpsDocumented (some 243) = [7, 5, 3, 2, 2, 2] ++ List.replicate 47 1 := by
    show (sieve 243).map (fun p => floorLog p 243) = _
    rw [sieve_243]; decide +kernel
  refine ⟨h1, rfl, ?_, ?_⟩
  · show expAt (sieve 243) floatExps243 3 = 4
    rw [sieve_243]; decide +kernel
  · show expAt (sieve 243) (pollardExpsDocumented (some 243)) 3 = 5
    rw [h1, sieve_243]; decide +kernel

/-- **the real product for bound 243 is not 243-powersmooth-complete**: `3^5 = 243` divides the
documented product but NOT the product built from the float exponents; more generally no `g` with
`3^5 ∣ g` divides it. -/
theorem bound243_real_lacks_3pow5 :
    3 ^ 5 ∣ pollardProduct (some 243) (pollardExpsDocumented (some 243)) ∧
    ∀ g, g ≠ 0 → 3 ^ 5 ∣ g → ¬ g ∣ pollardProduct (some 243) floatExps243 := by
  obtain ⟨-, -, h4, h5⟩ := floatExps243_vs_documented
  constructor
  · refine (C05Pollard.userM_dvd_iff 243 (by norm_num) (3 ^ 5) (by norm_num)).mpr ?_
    refine (documented_criterion_iff 243 (by norm_num) (3 ^ 5)).mp ?_
    intro r k hr hk
    have h3 : Nat.Prime 3 := Nat.prime_three
    rcases Nat.eq_zero_or_pos k with h0 | hpos
    · omega
    · have : r = 3 := (Nat.prime_dvd_prime_iff_eq hr h3).mp
        (hr.dvd_of_dvd_pow (Nat.dvd_trans (dvd_pow_self r (by omega)) hk))
      subst this
      rw [h5]
      exact (Nat.pow_dvd_pow_iff_le_right (by norm_num)).mp hk
  · intro g hg h35 hdvd
    have := (product_dvd_iff (some 243) floatExps243 g hg).mp hdvd 3 5 Nat.prime_three h35
    omega

/-- the products as numbers (353 resp. 355 bits); the real `CheckPollardpm1(243)._m` is the first. -/
theorem bound243_products :
    pollardProduct (some 243) floatExps243 =
      11072039048403613991805450698390694123685474441507072941537485850955437832622863834921425341752329405936000 ∧
    pollardProduct (some 243) (pollardExpsDocumented (some 243)) =
      3 * 11072039048403613991805450698390694123685474441507072941537485850955437832622863834921425341752329405936000 := by
  obtain ⟨h1, -, -, -⟩ := floatExps243_vs_documented
  constructor
  · show fastProduct (pollardPowers (sieve 243) floatExps243) = _
    rw [fastProduct_eq_prod, sieve_243]; decide +kernel
  · show fastProduct (pollardPowers (sieve 243) (pollardExpsDocumented (some 243))) = _
    rw [fastProduct_eq_prod, h1, sieve_243]; decide +kernel

/-- primality of the two primes of the bound-243 key (Pratt certificates). -/
theorem bound243_primes :
    Nat.Prime 20733112663155396649 ∧ Nat.Prime 681939511396589371385657642542849294057 := by
  constructor
  · exact Pratt.prime_of_cert ⟨20733112663155396649,
      [⟨20733112663155396649, 7, [(2, 3), (3, 5), (17, 1), (19, 1), (23, 1), (43, 1), (59, 1),
        (103, 1), (127, 1), (181, 1), (239, 1)]⟩]⟩ _ (by decide +kernel)
  · exact Pratt.prime_of_cert ⟨681939511396589371385657642542849294057,
      [⟨123017, 3, [(2, 3), (15377, 1)]⟩,
       ⟨10333429, 6, [(2, 2), (3, 1), (7, 1), (123017, 1)]⟩,
       ⟨97843291831123, 2, [(2, 1), (3, 1), (137, 1), (11519, 1), (10333429, 1)]⟩,
       ⟨559152495917497773449, 3, [(2, 3), (809, 1), (883, 1), (97843291831123, 1)]⟩,
       ⟨681939511396589371385657642542849294057, 5,
         [(2, 3), (3, 5), (19, 1), (23, 1), (43, 1), (59, 1), (103, 1), (127, 1), (181, 1),
          (239, 1), (559152495917497773449, 1)]⟩]⟩ _ (by decide +kernel)

/-- **Non-vacuity of `C05Pollard.pollard_user_flag` AND the M4 counter-example, in the kernel.**
`g = 2^3·3^5·19·23·43·59·103·127·181·239` (61 bits, 243-powersmooth), `p = 17g + 1`,
`q = 559152495917497773449·g + 1`, both prime: every hypothesis of `pollard_user_flag` holds for
`b = 243`, `gb = 2^60` (so with the DOCUMENTED product the key is flagged and factored — evaluated), but
with the product the real constructor builds (`floatExps243`) the gate `gcd(n−1, m) ≥ 2^60` stays closed
and the verdict is `(False, [])`. The real `CheckPollardpm1(243)` says `ok 0 [] 0` for this key
(harness case `bound243-witness`, every run). -/
theorem bound243_documented_vs_real :
    (1219594862538552744 ∣ 20733112663155396649 - 1) ∧
    (1219594862538552744 ∣ 681939511396589371385657642542849294057 - 1) ∧
    2 ^ 60 ≤ 1219594862538552744 ∧
    (∀ r k, r.Prime → r ^ k ∣ 1219594862538552744 → k = 0 ∨ (r < 243 ∧ r ^ k ≤ 243)) ∧
    (20733112663155396649 - 1) ∣
      (20733112663155396649 * 681939511396589371385657642542849294057 - 1) *
        pollardProduct (some 243) (pollardExpsDocumented (some 243)) ∧
    pollardPm1 (20733112663155396649 * 681939511396589371385657642542849294057)
      (pollardProduct (some 243) (pollardExpsDocumented (some 243))) (2 ^ 60) =
        (true, [20733112663155396649, 681939511396589371385657642542849294057]) ∧
    pollardPm1 (20733112663155396649 * 681939511396589371385657642542849294057)
      (pollardProduct (some 243) floatExps243) (2 ^ 60) = (false, []) := by
  obtain ⟨hreal, hdoc⟩ := bound243_products
  have hgdoc : 1219594862538552744 ∣ pollardProduct (some 243) (pollardExpsDocumented (some 243)) := by
    rw [hdoc]; decide +kernel
  refine ⟨by decide +kernel, by decide +kernel, by decide +kernel, ?_, ?_, ?_, ?_⟩
  · exact (C05Pollard.userM_dvd_iff 243 (by norm_num) _ (by norm_num)).mp hgdoc
  · rw [hdoc]; decide +kernel
  · rw [hdoc]; decide +kernel
  · rw [hreal]; decide +kernel

/-! ### the default product: two readings of "smooth enough", and non-vacuity of the both-smooth case
(second review, L13 / L16) -/

/-- **The literal clause holds under the reading "`(p−1) ∣` the default product".** If "one of them is
smooth enough for the default Pollard product" is read as `(p − 1) ∣ defaultM`, then ANY shared factor
`g ≥ 2^60` of `p − 1` and `q − 1` suffices — no side condition on `g`. The PROPERTY-TEXT LIMITATION of
`C05Pollard.literal_text_fails` therefore rests on the weaker reading `(p − 1) ∣ (n − 1)·m` (what
`Pollardpm1` needs), which is the reading under which the clause is false. -/
theorem literal_clause_of_pm1_dvd {p q : Nat} (hp : p.Prime) (hq : q.Prime) (hpq : p ≠ q)
    (hpo : p % 2 = 1) (hqo : q % 2 = 1) (g : Nat) (hgp : g ∣ p - 1) (hgq : g ∣ q - 1)
    (hg : 2 ^ 60 ≤ g) (hpm : (p - 1) ∣ defaultM) :
    pollardPm1 (p * q) defaultM (2 ^ 60) =
      if 2 ^ ((p * q - 1) * defaultM) % q = 1 then (true, []) else (true, [p, q]) :=
  C05.pollard_flag hp hq hpq hpo hqo defaultM g (2 ^ 60) defaultM_pos hgp hgq
    (Nat.dvd_trans hgp hpm) hg (Dvd.dvd.mul_left hpm _)

/-- the witness of `C05Pollard.literal_text_fails` is outside that reading:
`p − 1 = 24·1009^7 ∤ defaultM`. -/
theorem literal_witness_not_dvd : ¬ (25553441901090092879257 - 1) ∣ defaultM := fun h =>
  C05Pollard.smooth_not_enough.2.2 (Nat.dvd_trans ⟨24, by norm_num⟩ h)

/-- `2^a·3^b·863²·1009` is within the exponents of the default product for `a ≤ 64`, `b ≤ 40`. -/
theorem smooth4_dvd_defaultM (a b : Nat) (ha : a ≤ 64) (hb : b ≤ 40) :
    2 ^ a * 3 ^ b * 863 ^ 2 * 1009 ^ 1 ∣ defaultM := by
  have h863 : Nat.Prime 863 := by norm_num
  have h1009 : Nat.Prime 1009 := by norm_num
  refine (dvd_defaultM_iff _ (by positivity)).mpr ?_
  refine C05Pollard.PowerSmooth.mul (C05Pollard.PowerSmooth.mul (C05Pollard.PowerSmooth.mul
    (C05Pollard.powerSmooth_prime_pow Nat.prime_two ?_)
    (C05Pollard.powerSmooth_prime_pow Nat.prime_three ?_) ?_)
    (C05Pollard.powerSmooth_prime_pow h863 ?_) ?_) (C05Pollard.powerSmooth_prime_pow h1009 ?_) ?_
  · exact (C05Pollard.le_defaultExp_iff 2 a (by norm_num)).mpr
      (Or.inr (Or.inl ⟨by norm_num, Nat.pow_le_pow_right (by norm_num) ha⟩))
  · refine (C05Pollard.le_defaultExp_iff 3 b (by norm_num)).mpr (Or.inr (Or.inl ⟨by norm_num, ?_⟩))
    exact le_trans (Nat.pow_le_pow_right (by norm_num) hb) (by norm_num)
  · exact Nat.Coprime.pow _ _ (by norm_num)
  · exact (C05Pollard.le_defaultExp_iff 863 2 (by norm_num)).mpr (Or.inr (Or.inl (by norm_num)))
  · exact Nat.Coprime.mul_left (Nat.Coprime.pow _ _ (by norm_num))
      (Nat.Coprime.pow _ _ (by norm_num))
  · exact (C05Pollard.le_defaultExp_iff 1009 1 (by norm_num)).mpr (Or.inr (Or.inr (by norm_num)))
  · rw [pow_one]
    exact Nat.Coprime.mul_left (Nat.Coprime.mul_left (Nat.Coprime.pow_left _ (by norm_num))
      (Nat.Coprime.pow_left _ (by norm_num))) (Nat.Coprime.pow_left _ (by norm_num))

/-- `pollard_default_both_smooth` when `q − 1` itself is the shared factor and both `p − 1`, `q − 1`
divide the default product (stated for variables: with numerals the kernel would try to evaluate
`(p·q − 1)·defaultM`). -/
theorem both_smooth_of_dvd {p q : Nat} (hp : p.Prime) (hq : q.Prime) (hpq : p ≠ q)
    (hpo : p % 2 = 1) (hqo : q % 2 = 1) (hd : (q - 1) ∣ p - 1) (hg : 2 ^ 60 ≤ q - 1)
    (hpm : (p - 1) ∣ defaultM) (hqm : (q - 1) ∣ defaultM) :
    pollardPm1 (p * q) defaultM (2 ^ 60) = (true, []) := by
  have hq2 := hq.two_le
  exact C05Pollard.pollard_default_both_smooth hp hq hpq hpo hqo (q - 1) hd (dvd_refl _) hg
    ((C05Pollard.defaultM_dvd_iff _ (by omega)).mp hqm)
    (Dvd.dvd.mul_left hpm _) (Dvd.dvd.mul_left hqm _)

/-- **Non-vacuity of `C05Pollard.pollard_default_both_smooth`** ("… unless both are smooth"):
`p − 1 = 2^64·3^31·863²·1009`, `q − 1 = 2^21·3^22·863²·1009` (both prime, Pratt certificates), shared
factor `g = q − 1 ≥ 2^60`; both `p − 1` and `q − 1` divide the default product, so the theorem applies
and the default check flags `n = p·q` WITHOUT factors. The real `CheckPollardpm1()` answers `ok 1 [] 0`
for this key (harness case `both-smooth-witness`, every run). -/
theorem both_smooth_witness :
    pollardPm1 (8562318457488567634551083203943137586184193 * 49455007315820782842544129)
      defaultM (2 ^ 60) = (true, []) := by
  have hp : Nat.Prime 8562318457488567634551083203943137586184193 :=
    Pratt.prime_of_cert ⟨8562318457488567634551083203943137586184193,
      [⟨8562318457488567634551083203943137586184193, 10, [(2, 64), (3, 31), (863, 2), (1009, 1)]⟩]⟩
      _ (by decide +kernel)
  have hq : Nat.Prime 49455007315820782842544129 :=
    Pratt.prime_of_cert ⟨49455007315820782842544129,
      [⟨49455007315820782842544129, 7, [(2, 21), (3, 22), (863, 2), (1009, 1)]⟩]⟩ _
      (by decide +kernel)
  have ep : 8562318457488567634551083203943137586184193 - 1 = 2 ^ 64 * 3 ^ 31 * 863 ^ 2 * 1009 ^ 1 := by
    norm_num
  have eq : 49455007315820782842544129 - 1 = 2 ^ 21 * 3 ^ 22 * 863 ^ 2 * 1009 ^ 1 := by norm_num
  have hpm : (8562318457488567634551083203943137586184193 - 1) ∣ defaultM := by
    rw [ep]; exact smooth4_dvd_defaultM 64 31 (by norm_num) (by norm_num)
  have hqm : (49455007315820782842544129 - 1) ∣ defaultM := by
    rw [eq]; exact smooth4_dvd_defaultM 21 22 (by norm_num) (by norm_num)
  have hd : (49455007315820782842544129 - 1) ∣ 8562318457488567634551083203943137586184193 - 1 := by
    rw [ep, eq]; exact ⟨2 ^ 43 * 3 ^ 9, by norm_num⟩
  exact both_smooth_of_dvd hp hq (by norm_num) (by norm_num) (by norm_num) hd (by norm_num) hpm hqm

end Paranoid.C05PollardExps
