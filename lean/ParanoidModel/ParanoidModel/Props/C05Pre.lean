/-
Props/C05Pre.lean — C05, lattice families: the "pre" half of the sandwich

    prime is patterned  ⇒(repetition_is_fraction)  p = (a·w + c)/d, a, c small
                        ⇒(fraction_pre)            short planted vector in the lattice given to LLL
                        ⇒(ORACLE, not claimed)     LLL returns ± that vector
                        ⇒(fraction_sandwich)       CheckFraction returns {p, q}

and the enumeration of the denominators `d` that CheckBitPatterns / CheckPermutedBitPatterns try.
Everywhere `w = 2^(bitLength n / 2)`, `u = n / w`, `v = n % w`, `x = 2^(bitLength d)` as in
`rsa_util.CheckFraction`; `fracErr n w q d a = d·u − a·q`.
-/
import ParanoidModel.Proofs.FractionPre
import Mathlib.Tactic.NormNum.Prime
namespace Paranoid.C05Pre
open Paranoid

/-! ### (1) membership -/

/-- **The planted vector is in the lattice, with explicit coefficients.** For all integers
`a, c, k` the vector `(c·x, −a·x, c·(u·d0 % w) − a·(v·d0 % w) + k·w)` is `c·row0 − a·row1 + k·row2`
of the lattice `fractionLattice n d0 = [[x,0,u·d0 % w],[0,x,v·d0 % w],[0,0,w]]`. -/
theorem fraction_vector_in_lattice (n d0 : Nat) (a c k : Int) :
    ∃ r0 r1 r2, fractionLattice n d0 = [r0, r1, r2] ∧
      rowCombo3 c (-a) k r0 r1 r2 =
        [c * ((2 ^ bitLength d0 : Nat) : Int), -a * ((2 ^ bitLength d0 : Nat) : Int),
         c * ((n / 2 ^ (bitLength n / 2) * d0 % 2 ^ (bitLength n / 2) : Nat) : Int)
           - a * ((n % 2 ^ (bitLength n / 2) * d0 % 2 ^ (bitLength n / 2) : Nat) : Int)
           + k * ((2 ^ (bitLength n / 2) : Nat) : Int)] :=
  Paranoid.fraction_vector_in_lattice n d0 a c k

/-! ### (2) the planted vector is short -/

/-- **The docstring's derivation, exact.** Let `n = p·q` and `d·p = a·w + c` (`p = (a·w + c)/d`),
`d > 0`. Then, with `e = d·u − a·q`:
 * `e·w = c·q − d·v` (so `d·v ≡ c·q (mod w)`),
 * `|e|·w < |c|·q + d·w`; hence `|e| < |c|·m + d` whenever `q ≤ m·w`
   (`m = 1` if `q < w`; `m = 2` always works for factors of equal bit length, `balanced_q_lt`),
 * `(c·d·u − a·d·v) mod w = (c·e) mod w` and `|c·e| ≤ |c|·(|c|·m + d − 1)`
   (the docstring's "`abs((c*d*u - a*d*v) % w) < c*h`, `h = |c| + |d|`" is this with `m = 1`). -/
theorem fraction_vector_small (p q d m : Nat) (a c : Int) (hd : 0 < d)
    (hq : q ≤ m * 2 ^ (bitLength (p * q) / 2))
    (hfrac : (d : Int) * p = a * ((2 ^ (bitLength (p * q) / 2) : Nat) : Int) + c) :
    fracErr (p * q) (2 ^ (bitLength (p * q) / 2)) q d a * ((2 ^ (bitLength (p * q) / 2) : Nat) : Int)
        = c * q - (d : Int) * ((p * q % 2 ^ (bitLength (p * q) / 2) : Nat) : Int) ∧
    |fracErr (p * q) (2 ^ (bitLength (p * q) / 2)) q d a| < |c| * m + d ∧
    (c * d * ((p * q / 2 ^ (bitLength (p * q) / 2) : Nat) : Int)
        - a * d * ((p * q % 2 ^ (bitLength (p * q) / 2) : Nat) : Int))
        % ((2 ^ (bitLength (p * q) / 2) : Nat) : Int)
      = (c * fracErr (p * q) (2 ^ (bitLength (p * q) / 2)) q d a)
        % ((2 ^ (bitLength (p * q) / 2) : Nat) : Int) ∧
    |c * fracErr (p * q) (2 ^ (bitLength (p * q) / 2)) q d a| ≤ |c| * (|c| * m + d - 1) := by
  have hw : 0 < 2 ^ (bitLength (p * q) / 2) := Nat.two_pow_pos _
  have hlt := fracErr_lt p q d _ m a c hd hw hq hfrac
  refine ⟨fracErr_mul p q d _ a c hfrac, hlt, frac_third_entry_emod p q d _ a c hfrac, ?_⟩
  rw [abs_mul]
  exact mul_le_mul_of_nonneg_left (by linarith [Int.add_one_le_iff.mpr hlt]) (abs_nonneg c)

/-- **fraction_pre.** For `n = p·q`, `p = (a·w + c)/d`, `d > 0`, `q ≤ m·w`: the vector
`(c·x, −a·x, c·(d·u − a·q))` is the integer combination `c·row0 − a·row1 + K·row2`
(`K = fracK … = c·(u·d / w) − a·(v·d / w) − a·(d·u − a·q)`) of the lattice that
`CheckFraction(n, d)` hands to LLL, and its entries are bounded by
`2·|c|·d`, `2·|a|·d`, `|c|·(|c|·m + d − 1)`. -/
theorem fraction_pre (p q d m : Nat) (a c : Int) (hd : 0 < d)
    (hq : q ≤ m * 2 ^ (bitLength (p * q) / 2))
    (hfrac : (d : Int) * p = a * ((2 ^ (bitLength (p * q) / 2) : Nat) : Int) + c) :
    ∃ r0 r1 r2, fractionLattice (p * q) d = [r0, r1, r2] ∧
      rowCombo3 c (-a) (fracK (p * q) (2 ^ (bitLength (p * q) / 2)) q d a c) r0 r1 r2 =
        [c * ((2 ^ bitLength d : Nat) : Int), -a * ((2 ^ bitLength d : Nat) : Int),
         c * fracErr (p * q) (2 ^ (bitLength (p * q) / 2)) q d a] ∧
      |c * ((2 ^ bitLength d : Nat) : Int)| ≤ 2 * |c| * d ∧
      |-a * ((2 ^ bitLength d : Nat) : Int)| ≤ 2 * |a| * d ∧
      |c * fracErr (p * q) (2 ^ (bitLength (p * q) / 2)) q d a| ≤ |c| * (|c| * m + d - 1) := by
  obtain ⟨r0, r1, r2, hlat, hcombo⟩ := Paranoid.fraction_vector_in_lattice (p * q) d a c
    (fracK (p * q) (2 ^ (bitLength (p * q) / 2)) q d a c)
  have hx : ((2 ^ bitLength d : Nat) : Int) ≤ 2 * d := by
    exact_mod_cast FracPre.two_pow_bitLength_le d hd
  have hx0 : (0 : Int) ≤ ((2 ^ bitLength d : Nat) : Int) := Int.natCast_nonneg _
  refine ⟨r0, r1, r2, hlat, ?_, ?_, ?_, (fraction_vector_small p q d m a c hd hq hfrac).2.2.2⟩
  · rw [hcombo, frac_third_entry p q d _ a c hfrac]
  · rw [abs_mul, abs_of_nonneg hx0]
    have := abs_nonneg c
    nlinarith
  · rw [abs_mul, abs_neg, abs_of_nonneg hx0]
    have := abs_nonneg a
    nlinarith

/-- factors of equal bit length satisfy the size hypothesis of `fraction_pre` with `m = 2`. -/
theorem balanced_q_le (p q : Nat) (hp : 0 < p) (hL : bitLength p = bitLength q) :
    q ≤ 2 * 2 ^ (bitLength (p * q) / 2) :=
  Nat.le_of_lt (FracPre.balanced_q_lt p q hp hL)

/-! ### (3) value of the planted row; the sandwich -/

/-- **Row value of the planted vector.** `a·x·w + c·x = x·d·p`: a multiple of `p`, and not a
multiple of the other prime `q` as soon as `q ∤ x·d`. -/
theorem fraction_vector_value {p q : Nat} (hp : p.Prime) (hq : q.Prime) (hpq : p ≠ q)
    (d w x : Nat) (a c : Int) (hfrac : (d : Int) * p = a * w + c) (hqxd : ¬ q ∣ x * d) :
    rowValue w (c * x) (-a * x) = (x : Int) * d * p ∧
    (p : Int) ∣ rowValue w (c * x) (-a * x) ∧ ¬ (q : Int) ∣ rowValue w (c * x) (-a * x) :=
  Paranoid.fraction_vector_value hq hpq hp d w x a c hfrac hqxd

/-- **fraction_sandwich.** `n = p·q` with distinct primes, `q` odd, `p = (a·w + c)/d` and
`q ∤ d`. For EVERY basis (rows of length ≥ 2) that contains the planted row
`(c·x, −a·x, …)` or its negative, `CheckFraction` returns both primes. Together with
`fraction_pre` the only missing link is "LLL returns ± the planted vector" (oracle). -/
theorem fraction_sandwich {p q : Nat} (hp : p.Prime) (hq : q.Prime) (hpq : p ≠ q)
    (hq2 : q ≠ 2) (d : Nat) (hqd : ¬ q ∣ d) (a c : Int)
    (hfrac : (d : Int) * p = a * ((2 ^ (bitLength (p * q) / 2) : Nat) : Int) + c)
    (basis : List (List Int)) (hlen : ∀ row ∈ basis, 2 ≤ row.length)
    (hrow : ∃ rest,
      (c * ((2 ^ bitLength d : Nat) : Int) :: -a * ((2 ^ bitLength d : Nat) : Int) :: rest) ∈ basis ∨
      (-(c * ((2 ^ bitLength d : Nat) : Int)) :: -(-a * ((2 ^ bitLength d : Nat) : Int)) :: rest)
        ∈ basis) :
    checkFraction (p * q) basis = .ok [p, q] ∨ checkFraction (p * q) basis = .ok [q, p] :=
  fraction_sandwich' hp hq hpq hq2 d hqd a c hfrac basis hlen hrow

/-! ### (4) repetitions are fractions -/

/-- **repetition_is_fraction (exact).** `repeatWord W w k = W·(2^(w·k) − 1)/(2^w − 1)` is the word
`W` written `k` times (`repeatWord_succ`: one more copy = shift by `w` bits and add `W`), and
`(2^w − 1)·(W W … W) = W·2^(w·k) − W`. -/
theorem repetition_exact (W w k : Nat) (hw : 0 < w) :
    repeatWord W w 0 = 0 ∧ repeatWord W w (k + 1) = repeatWord W w k * 2 ^ w + W ∧
    ((2 : Int) ^ w - 1) * (repeatWord W w k : Int) = (W : Int) * 2 ^ (w * k) - W :=
  ⟨repeatWord_zero W w, repeatWord_succ W w k hw, repeatWord_mul W w k⟩

/-- **repetition_is_fraction.** `P' = (W repeated k times) + δ` with `W < 2^w` and a deviation
`|δ| < 2^t` in the low-order bits: `(2^w − 1)·P' = W·2^(w·k) + c` with
`c = (2^w − 1)·δ − W`, `|c| < 2^(w+t)` (≤ `2^w·(2^t + 1)`). Relative to the lattice modulus
`2^h` (`h = bitLength n / 2`):
 * if `w·k = h + s` (the usual case, `s ∈ {0, 1}` for balanced primes) then
   `d·P' = a·2^h + c` with `d = 2^w − 1`, `a = W·2^s`;
 * if `h = w·k + s` then `(2^s·d)·P' = W·2^h + 2^s·c`: the fraction form holds only for the
   denominator `2^s·(2^w − 1)`, which is the one tried only when `s = 0`. -/
theorem repetition_is_fraction (W w k t : Nat) (δ : Int) (hW : W < 2 ^ w) (hδ : |δ| < 2 ^ t) :
    |((2 : Int) ^ w - 1) * δ - W| < 2 ^ (w + t) ∧
    (∀ h s, w * k = h + s →
      ((2 : Int) ^ w - 1) * ((repeatWord W w k : Int) + δ) =
        ((W : Int) * 2 ^ s) * 2 ^ h + (((2 : Int) ^ w - 1) * δ - W)) ∧
    (∀ h s, h = w * k + s →
      ((2 : Int) ^ s * ((2 : Int) ^ w - 1)) * ((repeatWord W w k : Int) + δ) =
        (W : Int) * 2 ^ h + 2 ^ s * (((2 : Int) ^ w - 1) * δ - W)) := by
  refine ⟨repetition_c_bound W w t δ hW hδ, ?_, ?_⟩
  · intro h s hs
    rw [repetition_dev, hs, pow_add]; ring
  · intro h s hs
    rw [mul_assoc, repetition_dev, hs, pow_add]; ring

/-- the bit-periodic form (pattern length need not divide the prime's length — this is the
docstring example of CheckFraction): if `p >> w` equals the low `L − w` bits of `p` then
`(2^w − 1)·p = (p >> (L − w))·2^L − (p mod 2^w)`. -/
theorem periodic_is_fraction (p L w : Nat) (hwL : w ≤ L) (hper : p / 2 ^ w = p % 2 ^ (L - w)) :
    ((2 : Int) ^ w - 1) * (p : Int) =
      ((p / 2 ^ (L - w) : Nat) : Int) * 2 ^ L - ((p % 2 ^ w : Nat) : Int) :=
  Paranoid.periodic_is_fraction p L w hwL hper

/-- **Repetition ⇒ factored, given the oracle.** `p` = a `w`-bit word `W` repeated `k` times
plus a deviation `δ`, `w·k = bitLength (p·q) / 2 + s`, `q` an odd prime not dividing `2^w − 1`:
every reduced basis that contains ± the planted row for `d = 2^w − 1`, `a = W·2^s`,
`c = (2^w − 1)·δ − W` makes `CheckFraction(n, 2^w − 1)` (the call `CheckBitPatterns` makes for
pattern size `w`) return both primes. -/
theorem repetition_sandwich {p q : Nat} (hp : p.Prime) (hq : q.Prime) (hpq : p ≠ q) (hq2 : q ≠ 2)
    (W w k s : Nat) (δ : Int) (hP : (p : Int) = (repeatWord W w k : Int) + δ)
    (hs : w * k = bitLength (p * q) / 2 + s) (hqd : ¬ q ∣ 2 ^ w - 1)
    (basis : List (List Int)) (hlen : ∀ row ∈ basis, 2 ≤ row.length)
    (hrow : ∃ rest,
      ((((2 : Int) ^ w - 1) * δ - W) * ((2 ^ bitLength (2 ^ w - 1) : Nat) : Int) ::
        -((W : Int) * 2 ^ s) * ((2 ^ bitLength (2 ^ w - 1) : Nat) : Int) :: rest) ∈ basis ∨
      (-((((2 : Int) ^ w - 1) * δ - W) * ((2 ^ bitLength (2 ^ w - 1) : Nat) : Int)) ::
        -(-((W : Int) * 2 ^ s) * ((2 ^ bitLength (2 ^ w - 1) : Nat) : Int)) :: rest) ∈ basis) :
    checkFraction (p * q) basis = .ok [p, q] ∨ checkFraction (p * q) basis = .ok [q, p] := by
  apply fraction_sandwich hp hq hpq hq2 (2 ^ w - 1) hqd ((W : Int) * 2 ^ s)
    (((2 : Int) ^ w - 1) * δ - W) _ basis hlen hrow
  have h1 : 1 ≤ 2 ^ w := Nat.one_le_two_pow
  rw [hP, Nat.cast_sub h1]
  push_cast
  rw [repetition_dev, hs, pow_add]
  ring

/-! ### (5) the denominators that are tried -/

/-- **bitpatterns_enum.** `CheckBitPatterns` = "for each `d` of `bitPatternDenominators n ps`
(`2^s − 1` for the pattern sizes `s ≤ bitLength n / 8`, in list order) call `CheckFraction(n, d)`;
first non-empty answer wins". -/
theorem bitpatterns_enum (n : Nat) (ps : List Nat) (red : Nat → List (List Int)) :
    vBitPatterns n ps red = tryDenominators n red (bitPatternDenominators n ps) ∧
    bitPatternDenominators n ps =
      (ps.filter (fun s => s ≤ bitLength n / 8)).map (fun s => 2 ^ s - 1) :=
  ⟨vBitPatterns_eq n ps red, rfl⟩

/-- **permuted_enum.** `CheckPermutedBitPatterns` = the same over `permutedDenominators n`:
for each limb size `ws` in 8, 16, 32, 64 the denominators
`(2^ps − 1)(2^(ps·ws) + 1)/(2^ws + 1)` for `ps = 3, 5, 7, … < ws`, cut at the first one of more than
`bitLength n / 8` bits. -/
theorem permuted_enum (n : Nat) (red : Nat → List (List Int)) :
    vPermuted n red = tryDenominators n red (permutedDenominators n) ∧
    permutedDenominators n = [8, 16, 32, 64].flatMap (fun ws =>
      ((oddRange ws).map (permutedDenominator ws)).takeWhile
        (fun d => bitLength d ≤ bitLength n / 8)) ∧
    (∀ ws ps, ps ∈ oddRange ws ↔ 3 ≤ ps ∧ ps < ws ∧ ps % 2 = 1) ∧
    (∀ ws ps, ps % 2 = 1 →
      permutedDenominator ws ps * (2 ^ ws + 1) = (2 ^ ps - 1) * (2 ^ (ps * ws) + 1)) :=
  ⟨vPermuted_eq n red, rfl, mem_oddRange, permutedDenominator_mul⟩

/-- the two lists are the ones the harness compares with the Python (`chk.bitpatterns_ds`,
`chk.permuted_ds`). -/
theorem denominators_eq_driver :
    bitPatternDenominators = Driver.bitPatternDenominators ∧
    permutedDenominators = Driver.permutedDenominators := ⟨rfl, rfl⟩

/-- **All attempts fail ⇔ pass**, and then exactly the listed denominators were tried. -/
theorem tried_all_fail (n : Nat) (red : Nat → List (List Int)) (ds : List Nat) :
    tryDenominators n red ds = .ok .pass ↔ ∀ d ∈ ds, checkFraction n (red d) = .ok [] :=
  tryDenominators_pass_iff n red ds

/-- **First success wins**: the verdict is weak iff some listed denominator gives a non-empty
answer after all earlier ones gave `[]`; the verdict carries exactly those factors. -/
theorem tried_first_success (n : Nat) (red : Nat → List (List Int)) (ds : List Nat)
    (v : KeyVerdict) :
    (tryDenominators n red ds = .ok v ∧ v.weak = true) ↔
      ∃ l1 d l2 f fs, ds = l1 ++ d :: l2 ∧ (∀ d' ∈ l1, checkFraction n (red d') = .ok []) ∧
        checkFraction n (red d) = .ok (f :: fs) ∧ v = ⟨true, f :: fs, false⟩ :=
  tryDenominators_weak_iff n red v ds

/-- there is no third kind of verdict. -/
theorem tried_verdicts (n : Nat) (red : Nat → List (List Int)) (ds : List Nat) (v : KeyVerdict)
    (h : tryDenominators n red ds = .ok v) : v = .pass ∨ v.weak = true :=
  tryDenominators_ok_cases n red v ds h

/-- an exception is that of the first attempt not answering `[]`. -/
theorem tried_error (n : Nat) (red : Nat → List (List Int)) (ds : List Nat) (e : PyErr) :
    tryDenominators n red ds = .error e ↔
      ∃ l1 d l2, ds = l1 ++ d :: l2 ∧ (∀ d' ∈ l1, checkFraction n (red d') = .ok []) ∧
        checkFraction n (red d) = .error e :=
  tryDenominators_error_iff n red e ds

/-- no other denominator influences the verdict. -/
theorem tried_only_listed (n : Nat) (red red' : Nat → List (List Int)) (ds : List Nat)
    (h : ∀ d ∈ ds, red d = red' d) : tryDenominators n red ds = tryDenominators n red' ds :=
  tryDenominators_congr n red red' ds h

/-- `CheckBitPatterns` flags the key iff some admissible pattern size yields factors, the
earlier ones yielding none (combination of the above). -/
theorem bitpatterns_flag_iff (n : Nat) (ps : List Nat) (red : Nat → List (List Int))
    (v : KeyVerdict) :
    (vBitPatterns n ps red = .ok v ∧ v.weak = true) ↔
      ∃ l1 d l2 f fs, bitPatternDenominators n ps = l1 ++ d :: l2 ∧
        (∀ d' ∈ l1, checkFraction n (red d') = .ok []) ∧
        checkFraction n (red d) = .ok (f :: fs) ∧ v = ⟨true, f :: fs, false⟩ := by
  rw [vBitPatterns_eq]; exact tryDenominators_weak_iff n red v _

theorem permuted_flag_iff (n : Nat) (red : Nat → List (List Int)) (v : KeyVerdict) :
    (vPermuted n red = .ok v ∧ v.weak = true) ↔
      ∃ l1 d l2 f fs, permutedDenominators n = l1 ++ d :: l2 ∧
        (∀ d' ∈ l1, checkFraction n (red d') = .ok []) ∧
        checkFraction n (red d) = .ok (f :: fs) ∧ v = ⟨true, f :: fs, false⟩ := by
  rw [vPermuted_eq]; exact tryDenominators_weak_iff n red v _

/-! ### non-vacuity -/

/-- the docstring example of `CheckFraction`: `p` has the 24-bit pattern `eab851`, `d = 2^24 − 1`,
`w = 2^160`, `a = 0xeab851`, `c = 0x18ae152f`; the short third entry `c·(d·u − a·q)` is the
docstring's `0x236ce2624c94189`; the planted row alone makes `checkFraction` return `[p, q]`. -/
example :
    ((2 ^ 24 - 1 : Nat) : Int) * (0xeab851eab851eab851eab851eab851eab851ead1 : Nat) =
        0xeab851 * ((2 ^ (bitLength (0xeab851eab851eab851eab851eab851eab851ead1 *
          0xf1e8e75e0a2f461b934d190d4a6ee2f53f2b0c39) / 2) : Nat) : Int) + 0x18ae152f ∧
    (0x18ae152f : Int) * fracErr (0xeab851eab851eab851eab851eab851eab851ead1 *
        0xf1e8e75e0a2f461b934d190d4a6ee2f53f2b0c39) (2 ^ 160)
        0xf1e8e75e0a2f461b934d190d4a6ee2f53f2b0c39 (2 ^ 24 - 1) 0xeab851 = 0x236ce2624c94189 ∧
    0xf1e8e75e0a2f461b934d190d4a6ee2f53f2b0c39 ≤ 1 * 2 ^ 160 ∧
    checkFraction (0xeab851eab851eab851eab851eab851eab851ead1 *
        0xf1e8e75e0a2f461b934d190d4a6ee2f53f2b0c39)
      [[0x18ae152f * ((2 ^ bitLength (2 ^ 24 - 1) : Nat) : Int),
        -0xeab851 * ((2 ^ bitLength (2 ^ 24 - 1) : Nat) : Int), 0x236ce2624c94189]] =
      .ok [0xeab851eab851eab851eab851eab851eab851ead1,
           0xf1e8e75e0a2f461b934d190d4a6ee2f53f2b0c39] := by decide +kernel

/-- the same prime in the bit-periodic form: `p = p0 + 25` where `p0` (low word `…eab8`) is
24-periodic over 160 bits; `c = (2^24 − 1)·25 − (p0 mod 2^24)`. -/
example :
    (0xeab851eab851eab851eab851eab851eab851eab8 / 2 ^ 24 =
      0xeab851eab851eab851eab851eab851eab851eab8 % 2 ^ (160 - 24)) ∧
    0xeab851eab851eab851eab851eab851eab851eab8 / 2 ^ (160 - 24) = 0xeab851 ∧
    ((2 : Int) ^ 24 - 1) * 25 - ((0xeab851eab851eab851eab851eab851eab851eab8 % 2 ^ 24 : Nat) : Int)
      = 0x18ae152f := by decide +kernel

/-- hypotheses of `fraction_sandwich` / `repetition_sandwich` on a small instance:
`p = 23399 = 0b101101101101101 − 6` (the 3-bit word `101` five times, deviation −6),
`q = 20011`, `n` has 29 bits, `h = 14`, `s = 1`, `d = 7`, `a = 10`, `c = −47`. -/
example : Nat.Prime 23399 ∧ Nat.Prime 20011 := by constructor <;> norm_num
example :
    ((23399 : Nat) : Int) = (repeatWord 5 3 5 : Int) + (-6) ∧
    3 * 5 = bitLength (23399 * 20011) / 2 + 1 ∧ ¬ 20011 ∣ 2 ^ 3 - 1 ∧ (5 < 2 ^ 3) ∧
    ((7 : Nat) : Int) * (23399 : Nat) =
      10 * ((2 ^ (bitLength (23399 * 20011) / 2) : Nat) : Int) + (-47) ∧
    20011 ≤ 2 * 2 ^ (bitLength (23399 * 20011) / 2) ∧
    (-47 : Int) * fracErr (23399 * 20011) (2 ^ 14) 20011 7 10 = 3008 ∧
    checkFraction (23399 * 20011) [[1, 2, 3], [-376, -80, 3008]] = .ok [23399, 20011] ∧
    checkFraction (23399 * 20011) [[376, 80, -3008], [0, 0, 1]] = .ok [23399, 20011] := by
  decide +kernel

/-- the denominators for a 1024-bit and a 2048-bit modulus. -/
example : bitPatternDenominators (2 ^ 1023) defaultPatternSizes =
    [1, 3, 5, 7, 9, 11, 13, 15, 31, 63, 127, 8, 16, 32, 64, 128].map (fun s => 2 ^ s - 1) := by
  decide +kernel
example : (permutedDenominators (2 ^ 1023)).map bitLength = [19, 37, 55, 35, 69, 103, 67] ∧
    (permutedDenominators (2 ^ 2047)).map bitLength =
      [19, 37, 55, 35, 69, 103, 137, 171, 205, 239, 67, 133, 199, 131] ∧
    permutedDenominator 16 7 = 0x7eff81007eff81007eff81007f := by decide +kernel

/-- first success wins, on a toy oracle: the denominator `2^3 − 1 = 7` is the first whose basis
factors `n`; the (better) answer for `2^5 − 1` is never consulted. -/
example : vBitPatterns (23399 * 20011) [1, 3, 5] (fun d =>
      if d = 7 then [[-376, -80, 3008]] else if d = 31 then [[0, 0]] else [[1, 0, 0]]) =
    .ok ⟨true, [23399, 20011], false⟩ := by decide +kernel

end Paranoid.C05Pre
