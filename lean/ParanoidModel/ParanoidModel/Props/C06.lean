/-
Props/C06.lean — "Checks with a closed-form criterion flag exactly the artifacts that meet it"
(RSA half: CheckSizes, CheckExponents, CheckROCA, CheckROCAVariant, CheckOpensslDenylist,
CheckKeypairDenylist; EC half at the end of the file: CheckValidECKey / CheckWeakCurve, over
Model/Ec.lean `isValidPublicKey` and the check-level models of Model/Bsgs.lean).

Property theorems only; helper lemmas live in Proofs/ClosedForm.lean.  The ROCA prime tuples
and F4 come from Generated/Consts.lean, regenerated from /repo on every run, so the
`decide +kernel` facts below are re-checked against the current source.

Every `iff` is universally quantified over the modulus / exponent (no size bound) and, where
an oracle is involved, over EVERY oracle answer (SHA-1 digest, generator output) and every
supplied deny list / table.
-/
import ParanoidModel.Proofs.ClosedForm
import ParanoidModel.Proofs.BsgsChecks
import Mathlib.Tactic.Linarith
import Mathlib.Tactic.Ring
import Mathlib.Tactic.NormNum
namespace Paranoid.C06
open Paranoid Paranoid.Consts

/-! ### CheckSizes -/

/-- ★ `sizes_iff`. The size check flags exactly the moduli of bit length `< 2048`, i.e.
exactly `n < 2^2047` — NOT `n < 2^2048`: `2^2047` itself is a 2048-bit number and is not
flagged. Holds for every byte encoding of `n` (leading zeros do not change `bytes2int`). -/
theorem sizes_iff (nBytes : List Nat) :
    checkSizes nBytes = true ↔ bytes2int nBytes < 2 ^ 2047 :=
  sizesWeak_iff _

/-- "shorter than 2048 bits" in the words of the property. -/
theorem sizes_iff_bitLength (n : Nat) : sizesWeak n = true ↔ bitLength n < 2048 := by
  simp [sizesWeak]

theorem sizes_leading_zeros (k : Nat) (nBytes : List Nat) :
    checkSizes (List.replicate k 0 ++ nBytes) = checkSizes nBytes := by
  simp [checkSizes, bytes2int_zeros_append]

/-! ### CheckExponents -/

/-- ★ `exponent_iff`. Flagged exactly when the exponent is not 65537 … -/
theorem exponent_iff (eBytes : List Nat) :
    checkExponents eBytes = true ↔ bytes2int eBytes ≠ 65537 :=
  exponentWeak_iff _

/-- … and, over byte strings: NOT flagged exactly for `01 00 01` preceded by any number of
zero bytes. -/
theorem exponent_iff_bytes (eBytes : List Nat) (hb : ∀ x ∈ eBytes, x < 256) :
    checkExponents eBytes = false ↔ eBytes.dropWhile (· = 0) = [1, 0, 1] := by
  rw [← Bool.not_eq_true, exponent_iff, not_not, bytes2int_eq_iff eBytes hb]
  have : int2bytes 65537 = [1, 0, 1] := by decide +kernel
  rw [this]

/-! ### CheckROCA -/

/-- `_HasDiscreteLog(value, base, n)` for any `n ≠ 0`: tests exactly the exponents
`0 … n-2` (`range(1, n)` has `n-1` elements). -/
theorem hasDlog_range (value base n : Nat) (hn : n ≠ 0) :
    ∃ r, hasDiscreteLog value base n = .ok r ∧
      (r = true ↔ ∃ j, j < n - 1 ∧ base ^ j % n = value) :=
  hasDiscreteLog_eq value base n hn

/-- ★ `hasDlog_iff`. For a prime `p` not dividing the base the loop bound loses nothing
(the order of the base divides `p-1`): `True` iff `value` is a power of the base modulo `p`. -/
theorem hasDlog_iff (value base p : Nat) (hp : p.Prime) (hb : ¬ p ∣ base) :
    ∃ r, hasDiscreteLog value base p = .ok r ∧ (r = true ↔ ∃ k, base ^ k % p = value) :=
  hasDiscreteLog_prime value base p hp hb

/-- the regenerated `ROCAKeyDetector.PRIMES` are primes not dividing `F4`; the regenerated
`ROCAKeyVariantDetector.PRIMES` are primes (kernel-evaluated trial division). -/
theorem roca_tuples_good :
    (∀ p ∈ rocaPrimes, p.Prime ∧ ¬ p ∣ rocaF4) ∧ (∀ p ∈ rocaVariantPrimes, p.Prime) :=
  ⟨rocaPrimes_good, fun p hp => isPrimeB_sound p (rocaVariantPrimes_isPrimeB p hp)⟩

/-- the tuples in the current source are the ones the property names: `F4 = 65537`,
"its 39 small primes" = all primes from 3 to the largest entry (39 of them, i.e. the 39
smallest odd primes), "48 of its primes" = all primes from 5 to the largest entry (48). -/
theorem roca_tuples_spec :
    rocaF4 = 65537 ∧
    rocaPrimes = primesBetween 3 (rocaPrimes.foldl max 0) ∧ rocaPrimes.length = 39 ∧
    rocaVariantPrimes = primesBetween 5 (rocaVariantPrimes.foldl max 0) ∧
    rocaVariantPrimes.length = 48 :=
  roca_tuples_pinned

/-- ★ `roca_iff` (general tuple): never raises, and flags exactly the moduli whose residue
modulo every prime of the tuple is a power of the base. The initial
`modulus % product_of_primes` is harmless because each prime divides the product. -/
theorem roca_iff_general (ps : List Nat) (f4 n : Nat) (hg : ∀ p ∈ ps, p.Prime ∧ ¬ p ∣ f4) :
    ∃ r, rocaIsWeak ps f4 n = .ok r ∧ (r = true ↔ ∀ p ∈ ps, ∃ k, f4 ^ k % p = n % p) :=
  rocaIsWeak_iff ps f4 n hg

/-- ★ `roca_iff` on the constants of the current source: `CheckROCA` flags `n` iff for each
of its primes `p`, `n mod p` is a power of `F4` modulo `p`. -/
theorem roca_iff (n : Nat) :
    ∃ r, rocaIsWeak rocaPrimes rocaF4 n = .ok r ∧
      (r = true ↔ ∀ p ∈ rocaPrimes, ∃ k, rocaF4 ^ k % p = n % p) :=
  rocaIsWeak_iff _ _ n rocaPrimes_good

/-! ### CheckROCAVariant -/

/-- the table `_QuadraticResidues(p)[n % p]` is the quadratic-residue predicate (0 counts as
a residue), for every `p ≠ 0` — primality is not needed. -/
theorem qrTable_iff (p n : Nat) (hp : p ≠ 0) :
    ∃ b, qrLookup p n = .ok b ∧ (b = true ↔ ∃ y, y * y % p = n % p) :=
  qrLookup_iff p n hp

/-- ★ `rocaVariant_iff`: flagged iff `n` is a square modulo each of the variant's primes and
is NOT flagged by the ROCA detector. -/
theorem rocaVariant_iff (n : Nat) :
    ∃ r, rocaVariantIsWeak rocaVariantPrimes rocaPrimes rocaF4 n = .ok r ∧
      (r = true ↔ (∀ p ∈ rocaVariantPrimes, ∃ y, y * y % p = n % p) ∧
        ¬ ∀ p ∈ rocaPrimes, ∃ k, rocaF4 ^ k % p = n % p) :=
  rocaVariantIsWeak_iff _ _ _ n rocaVariantPrimes_ne_zero rocaPrimes_good

/-- … in terms of the ROCA check's own verdict. -/
theorem rocaVariant_excludes_roca (n : Nat)
    (h : rocaIsWeak rocaPrimes rocaF4 n = .ok true) :
    rocaVariantIsWeak rocaVariantPrimes rocaPrimes rocaF4 n = .ok false := by
  obtain ⟨r, hr, hri⟩ := rocaVariant_iff n
  obtain ⟨w, hw, hwi⟩ := roca_iff n
  rw [hw] at h
  cases h
  cases r with
  | false => exact hr
  | true => exact absurd (hwi.1 rfl) (hri.1 rfl).2

/-! ### CheckOpensslDenylist -/

/-- ★ `openssl_iff`. For EVERY digest the hash oracle returns and EVERY supplied deny list:
flagged iff `"RSA-<bits>:" ++ digest[20:]` is an element of the list. -/
theorem openssl_iff (n : Nat) (sha1hex : List Char) (denylist : List (List Char)) :
    opensslWeak n sha1hex denylist = true ↔
      ("RSA-".toList ++ Nat.toDigits 10 (bitLength n) ++ [':'] ++ sha1hex.drop 20) ∈ denylist := by
  simp [opensslWeak, opensslKeyStr]

/-- the hashed string is `"Modulus=" ++ "%X" % n ++ "\n"`. -/
theorem openssl_hash_input (n : Nat) :
    opensslHashInput n = "Modulus=".toList ++ hexUpper n ++ ['\n'] := rfl

/-- `%X` formatting: injective (base-16 reading recovers `n`), only `0-9A-F`, exactly
`hexLen n` digits, no leading zero for `n ≠ 0`, and `"0"` for 0. -/
theorem hexUpper_spec (n : Nat) :
    hexNum (hexUpper n) = n ∧ (∀ c ∈ hexUpper n, c ∈ "0123456789ABCDEF".toList) ∧
    (hexUpper n).length = hexLen n ∧ (n ≠ 0 → (hexUpper n).head? ≠ some '0') ∧
    hexUpper 0 = ['0'] :=
  ⟨hexNum_hexUpper n, hexUpper_chars n, hexUpper_length n, hexUpper_head n, hexUpper_zero⟩

theorem hexUpper_inj {a b : Nat} (h : hexUpper a = hexUpper b) : a = b := hexUpper_injective h

/-- distinct moduli are hashed as distinct strings. -/
theorem openssl_hash_input_inj {a b : Nat} (h : opensslHashInput a = opensslHashInput b) :
    a = b := by
  unfold opensslHashInput at h
  rw [List.append_assoc, List.append_assoc] at h
  exact hexUpper_injective (List.append_cancel_right (List.append_cancel_left h))

/-! ### CheckKeypairDenylist -/

/-- ★ `keypair_step`, positive direction. For EVERY table and EVERY generator oracle: if the
table maps the 64 most significant bits of `n` to `metadata`, the seed rebuilt from it is
`seed`, and the generator returns `(p, q)` with `p * q = n`, the key is flagged and `{p, q}`
attached. -/
theorem keypair_step (table : List (Nat × List Nat)) (n : Nat)
    (gen : List Nat → Nat → Nat × Nat) (metadata seed : List Nat) (p q : Nat)
    (hbits : 64 ≤ bitLength n)
    (htab : table.lookup (n >>> (bitLength n - 64)) = some metadata)
    (hseed : seedFromMeta metadata = .ok seed)
    (heven : keypairSizeOk (bitLength n) = true)
    (hgen : gen seed (bitLength n) = (p, q)) (hpq : p * q = n) :
    keypairStep table n gen = .ok (true, [p, q]) := by
  have hm : keypairMsb n = .ok (n >>> (bitLength n - 64)) := by
    simp [keypairMsb, Nat.not_lt.2 hbits]
  simp [keypairStep, hm, htab, hseed, hgen, hpq, heven]

/-- … negative directions: prefix not in the table, or the regenerated primes do not
multiply to `n` → not flagged, nothing attached. -/
theorem keypair_not_in_table (table : List (Nat × List Nat)) (n : Nat)
    (gen : List Nat → Nat → Nat × Nat) (hbits : 64 ≤ bitLength n)
    (htab : table.lookup (n >>> (bitLength n - 64)) = none) :
    keypairStep table n gen = .ok (false, []) := by
  have hm : keypairMsb n = .ok (n >>> (bitLength n - 64)) := by
    simp [keypairMsb, Nat.not_lt.2 hbits]
  simp [keypairStep, hm, htab]

theorem keypair_wrong_product (table : List (Nat × List Nat)) (n : Nat)
    (gen : List Nat → Nat → Nat × Nat) (metadata seed : List Nat)
    (hbits : 64 ≤ bitLength n)
    (htab : table.lookup (n >>> (bitLength n - 64)) = some metadata)
    (hseed : seedFromMeta metadata = .ok seed)
    (hpq : (gen seed (bitLength n)).1 * (gen seed (bitLength n)).2 ≠ n) :
    keypairStep table n gen = .ok (false, []) := by
  have hm : keypairMsb n = .ok (n >>> (bitLength n - 64)) := by
    simp [keypairMsb, Nat.not_lt.2 hbits]
  simp [keypairStep, hm, htab, hseed, hpq]

/-- D21 (fixed in /repo 8de8de4): a modulus of odd bit length is never flagged — the vulnerable
generator multiplies two primes of `bits / 2` bits, whose product never has an odd size — and the
generator is not consulted for it: the verdict is the same for EVERY oracle, in particular for
the real `generate_key`, which does not return for an odd size. -/
theorem keypair_unsupported_size (table : List (Nat × List Nat)) (n : Nat)
    (gen : List Nat → Nat → Nat × Nat) (hbits : 64 ≤ bitLength n)
    (hsz : keypairSizeOk (bitLength n) = false) :
    keypairStep table n gen = .ok (false, []) := by
  have hm : keypairMsb n = .ok (n >>> (bitLength n - 64)) := by
    simp [keypairMsb, Nat.not_lt.2 hbits]
  cases htab : table.lookup (n >>> (bitLength n - 64)) <;> simp [keypairStep, hm, htab, hsz]

theorem keypair_odd_size (table : List (Nat × List Nat)) (n : Nat)
    (gen : List Nat → Nat → Nat × Nat) (hbits : 64 ≤ bitLength n)
    (hodd : bitLength n % 2 = 1) :
    keypairStep table n gen = .ok (false, []) :=
  keypair_unsupported_size table n gen hbits (by simp [keypairSizeOk, hodd])

/-- an even size whose primes would have three or more forced zero bits (`(bits/2) % 8 ≥ 3`, e.g.
2046, 2044, 2040 bits) is never flagged either, and the generator is not consulted. -/
theorem keypair_short_prime_size (table : List (Nat × List Nat)) (n : Nat)
    (gen : List Nat → Nat → Nat × Nat) (hbits : 64 ≤ bitLength n)
    (h3 : 3 ≤ (bitLength n / 2) % 8) :
    keypairStep table n gen = .ok (false, []) :=
  keypair_unsupported_size table n gen hbits (by
    simp only [keypairSizeOk, Bool.and_eq_false_imp, decide_eq_false_iff_not]; omega)

/-- the generator oracle is consulted for supported sizes only: two oracles that agree on every
size with `keypairSizeOk` give the same verdict on every modulus (so the totality statements never
rely on `generate_key` returning for a size it cannot produce). -/
theorem keypair_gen_supported_only (table : List (Nat × List Nat)) (n : Nat)
    (gen gen' : List Nat → Nat → Nat × Nat)
    (h : ∀ seed bits, keypairSizeOk bits = true → gen seed bits = gen' seed bits) :
    keypairStep table n gen = keypairStep table n gen' := by
  unfold keypairStep
  split
  · rfl
  · split
    · rfl
    · split
      · rfl
      · rename_i hev
        have hev' : keypairSizeOk (bitLength n) = true := by simpa using hev
        split
        · rfl
        · rename_i seed _
          rw [h seed _ hev']

theorem keypair_gen_even_only (table : List (Nat × List Nat)) (n : Nat)
    (gen gen' : List Nat → Nat → Nat × Nat)
    (h : ∀ seed bits, bits % 2 = 0 → gen seed bits = gen' seed bits) :
    keypairStep table n gen = keypairStep table n gen' :=
  keypair_gen_supported_only table n gen gen' fun seed bits hb =>
    h seed bits (by simp only [keypairSizeOk, Bool.and_eq_true, beq_iff_eq] at hb; exact hb.1)

/-- a product of two numbers of `k` bits has `2k - 1` or `2k` bits: never `2k + 1`, which is why
`generate_key(2k + 1)` (primes of `(2k + 1) / 2 = k` bits, loop until the product has `2k + 1`
bits) cannot return.  Pure arithmetic: that `generate_prime(k)` returns `p < 2^k` is proved for the
construction (for `k % 8 ≥ 2`, modulo an explicit prime-gap hypothesis; FALSE for some byte streams when
`k % 8 ∈ {0, 1}`) in Props/C06Gen.lean (`generate_prime_lt_two_pow`, `generate_key_never_returns_odd`). -/
theorem product_size_never_odd (k p q : Nat) (hp : p < 2 ^ k) (hq : q < 2 ^ k) :
    p * q < 2 ^ (2 * k) := by
  calc p * q < 2 ^ k * 2 ^ k := Nat.mul_lt_mul'' hp hq
    _ = 2 ^ (2 * k) := by rw [← Nat.pow_add]; congr 1; omega

/-- Why `generate_key(bits)` cannot return for EVEN `bits = 2*(8m+r)` with `3 ≤ r`:
`generate_prime(8m+r)` draws only `8m` random bits and sets bit `8m+r-1`, so (with generous slack
`3·2^(8m-1)` for the "+31 - p%30" alignment and the prime search) both primes are below
`2^(8m+r-1) + 3·2^(8m-1)`, and then the product has at most `bits - 1` bits.
(Companion of C06.product_size_never_odd, which covers odd `bits` only.)
Pure arithmetic: the hypotheses `hp`, `hq` are proved for the construction in the code — modulo an
explicit prime-gap hypothesis — in Props/C06Gen.lean (`generate_prime_bound`,
`generate_key_never_returns_size`). -/
theorem product_size_never_reached (m r p q : ℕ) (hm : 1 ≤ m) (hr : 3 ≤ r)
    (hp : p < 2 ^ (8 * m + r - 1) + 3 * 2 ^ (8 * m - 1))
    (hq : q < 2 ^ (8 * m + r - 1) + 3 * 2 ^ (8 * m - 1)) :
    p * q < 2 ^ (2 * (8 * m + r) - 1) := by
  obtain ⟨k, rfl⟩ : ∃ k, m = k + 1 := ⟨m - 1, by omega⟩
  obtain ⟨s, rfl⟩ : ∃ s, r = s + 3 := ⟨r - 3, by omega⟩
  set A := 2 ^ (8 * k + 7) with hA
  set T := 2 ^ s with hT
  have e1 : 2 ^ (8 * (k + 1) + (s + 3) - 1) = 8 * T * A := by
    rw [hA, hT, show 8 * (k + 1) + (s + 3) - 1 = 3 + s + (8 * k + 7) by omega, pow_add, pow_add]; norm_num
  have e2 : 2 ^ (8 * (k + 1) - 1) = A := by rw [hA]; congr 1
  have e3 : 2 ^ (2 * (8 * (k + 1) + (s + 3)) - 1) = 128 * T * T * (A * A) := by
    rw [hA, hT, show 2 * (8 * (k + 1) + (s + 3)) - 1 = 7 + s + s + ((8 * k + 7) + (8 * k + 7)) by omega]
    rw [pow_add, pow_add, pow_add, pow_add]; norm_num
  rw [e1, e2] at hp hq
  rw [e3]
  have hT1 : 1 ≤ T := Nat.one_le_two_pow
  have hA1 : 1 ≤ A := Nat.one_le_two_pow
  have hp' : p < (8 * T + 3) * A := by nlinarith
  have hq' : q < (8 * T + 3) * A := by nlinarith
  calc p * q < ((8 * T + 3) * A) * ((8 * T + 3) * A) := Nat.mul_lt_mul'' hp' hq'
    _ ≤ 128 * T * T * (A * A) := by
        have : (8 * T + 3) * (8 * T + 3) ≤ 128 * T * T := by nlinarith
        calc ((8 * T + 3) * A) * ((8 * T + 3) * A) = (8 * T + 3) * (8 * T + 3) * (A * A) := by ring
          _ ≤ 128 * T * T * (A * A) := Nat.mul_le_mul_right _ this


/-- soundness: whatever the table and the oracle, a key is flagged only together with two
factors whose product is `n`, and an unflagged key gets no factors. -/
theorem keypair_sound (table : List (Nat × List Nat)) (n : Nat)
    (gen : List Nat → Nat → Nat × Nat) (w : Bool) (fs : List Nat)
    (h : keypairStep table n gen = .ok (w, fs)) :
    (w = true ∧ ∃ p q, fs = [p, q] ∧ p * q = n) ∨ (w = false ∧ fs = []) := by
  unfold keypairStep at h
  split at h
  · cases h
  · split at h
    · simp only [Except.ok.injEq, Prod.mk.injEq] at h
      exact Or.inr ⟨h.1.symm, h.2.symm⟩
    · split at h
      · simp only [Except.ok.injEq, Prod.mk.injEq] at h
        exact Or.inr ⟨h.1.symm, h.2.symm⟩
      · split at h
        · cases h
        · split at h
          · rename_i hpq
            simp only [Except.ok.injEq, Prod.mk.injEq] at h
            exact Or.inl ⟨h.1.symm, _, _, h.2.symm, hpq⟩
          · simp only [Except.ok.injEq, Prod.mk.injEq] at h
            exact Or.inr ⟨h.1.symm, h.2.symm⟩

/-- a modulus shorter than 64 bits makes the check raise `ValueError` (negative shift
count) before the table is consulted. -/
theorem keypair_short_modulus (table : List (Nat × List Nat)) (n : Nat)
    (gen : List Nat → Nat → Nat × Nat) (h : bitLength n < 64) :
    keypairStep table n gen = .error .valueError := by
  simp [keypairStep, keypairMsb, h]

/-- seed reconstruction from well-formed metadata `b0|i1|b1|i2|b2…` (all `i_k < 32`):
32 bytes, `b0` first, zeros elsewhere, `b_k` at position `i_k`. -/
theorem seed_from_metadata (b0 : Nat) (pairs : List (Nat × Nat)) (h : ∀ iv ∈ pairs, iv.1 < 32) :
    seedFromMeta (b0 :: flattenPairs pairs) =
      .ok (writePairs (b0 :: List.replicate 31 0) pairs) :=
  seedFromMeta_pairs b0 pairs h

theorem seed_length (m s : List Nat) (h : seedFromMeta m = .ok s) : s.length = 32 :=
  seedFromMeta_length m s h

/-! ### exact acceptance rates (used by C07)

Fraction of residue vectors `(v_p)_p ∈ ∏ [0, p)` accepted by a detector =
`∏ accepted_p / ∏ p` (the per-prime tests are independent of each other). -/

/-- ★ `roca_fp_rate`, ROCA fingerprint (39 primes): the accepted fraction
`∏ ord_p(65537) / ∏ p` lies strictly between `2^-31` and `2^-30`.
NOTE: it is therefore NOT below `2^-37` (see `roca_fp_rate_not_37`). -/
theorem roca_fp_rate :
    (rocaPrimes.map (rocaAcceptedMod rocaF4)).prod * 2 ^ 30 < rocaPrimes.prod ∧
    rocaPrimes.prod < (rocaPrimes.map (rocaAcceptedMod rocaF4)).prod * 2 ^ 31 := by
  rw [map_rocaAcceptedMod_eq _ _ rocaPrimes_ne_zero]
  exact roca_rate_mask

/-- the bound `accepted · 2^37 < total` that C07's "design false-positive rate ≤ 2^-37 per
key" would need FAILS for the ROCA fingerprint as coded. -/
theorem roca_fp_rate_not_37 :
    ¬ (rocaPrimes.map (rocaAcceptedMod rocaF4)).prod * 2 ^ 37 < rocaPrimes.prod := by
  have h := roca_fp_rate.2
  intro h37
  have : (rocaPrimes.map (rocaAcceptedMod rocaF4)).prod * 2 ^ 31 ≤
      (rocaPrimes.map (rocaAcceptedMod rocaF4)).prod * 2 ^ 37 :=
    Nat.mul_le_mul_left _ (Nat.pow_le_pow_right (by decide) (by decide))
  exact Nat.lt_irrefl _ (Nat.lt_trans (Nat.lt_of_lt_of_le h this) h37)

/-- among residue vectors with all entries non-zero (moduli coprime to the 39 primes, as
every product of two large primes is) the accepted fraction is between `2^-28` and `2^-27`. -/
theorem roca_fp_rate_units :
    (rocaPrimes.map (rocaAcceptedMod rocaF4)).prod * 2 ^ 27 < (rocaPrimes.map (· - 1)).prod ∧
    (rocaPrimes.map (· - 1)).prod < (rocaPrimes.map (rocaAcceptedMod rocaF4)).prod * 2 ^ 28 := by
  rw [map_rocaAcceptedMod_eq _ _ rocaPrimes_ne_zero]
  exact roca_rate_units_mask

/-- ★ `roca_fp_rate`, variant (48 primes): the fraction of residue vectors that are squares
modulo every prime, `∏ ((p+1)/2) / ∏ p`, is below `2^-46` — hence below `2^-37`. (The variant
additionally excludes ROCA-positive moduli, which only lowers it.) -/
theorem rocaVariant_fp_rate :
    (rocaVariantPrimes.map qrAcceptedMod).prod * 2 ^ 46 < rocaVariantPrimes.prod := by
  rw [map_qrAcceptedMod_eq _ rocaVariantPrimes_ne_zero]
  exact variant_rate_mask

theorem rocaVariant_fp_rate_37 :
    (rocaVariantPrimes.map qrAcceptedMod).prod * 2 ^ 37 < rocaVariantPrimes.prod := by
  have h := rocaVariant_fp_rate
  have : (rocaVariantPrimes.map qrAcceptedMod).prod * 2 ^ 37 ≤
      (rocaVariantPrimes.map qrAcceptedMod).prod * 2 ^ 46 :=
    Nat.mul_le_mul_left _ (Nat.pow_le_pow_right (by decide) (by decide))
  exact Nat.lt_of_le_of_lt this h

/-- among vectors of non-zero residues the variant's QR stage accepts exactly `2^-48`
(the figure in the docstring of `ROCAKeyVariantDetector.IsWeak`). -/
theorem rocaVariant_fp_rate_units :
    (rocaVariantPrimes.map fun p => qrAcceptedMod p - 1).prod * 2 ^ 48 =
      (rocaVariantPrimes.map (· - 1)).prod := by
  have : (rocaVariantPrimes.map fun p => qrAcceptedMod p - 1) =
      rocaVariantPrimes.map fun p => maskCount p (bitSetOf (squaresList p)) - 1 :=
    List.map_congr_left fun p hp => by rw [qrAcceptedMod_eq p (rocaVariantPrimes_ne_zero p hp)]
  rw [this]
  exact variant_rate_units_mask

/-! Non-vacuity / boundary values. -/

example : sizesWeak (2 ^ 2047 - 1) = true ∧ sizesWeak (2 ^ 2047) = false := by decide +kernel
example : checkExponents [0, 0, 1, 0, 1] = false ∧ checkExponents [1, 0, 0] = true := by
  decide +kernel
-- 65537^3 mod (3·5·…·173) is ROCA-positive but the variant skips it; 4 is a square everywhere
example : rocaIsWeak rocaPrimes rocaF4 (65537 ^ 3) = .ok true := by decide +kernel
example : rocaIsWeak rocaPrimes rocaF4 2 = .ok false := by decide +kernel
-- (small tuples: the kernel evaluates the O(p²) table construction slowly)
example : rocaVariantIsWeak [5, 7, 11] [3, 5, 7] 65537 (65537 ^ 2) = .ok false := by
  decide +kernel
example : rocaVariantIsWeak [5, 7, 11] [3, 5, 73] 65537 4 = .ok true := by decide +kernel
example : rocaVariantIsWeak [5, 7, 11] [3, 5, 7] 65537 2 = .ok false := by decide +kernel
example : hexUpper 48879 = "BEEF".toList := by decide +kernel
-- the docstring example of storage.py: metadata 1e04081c02 ↦ seed 1e000000 08 00…00 02 000000
example : seedFromMeta [0x1e, 4, 8, 0x1c, 2] =
    .ok ([0x1e, 0, 0, 0, 8] ++ List.replicate 23 0 ++ [2, 0, 0, 0]) := by decide +kernel
example : keypairStep [(2 ^ 63, [7])] (2 ^ 63 * 2 ^ 16) (fun _ _ => (2 ^ 63, 2 ^ 16)) =
    .ok (true, [2 ^ 63, 2 ^ 16]) := by decide +kernel
-- odd size (75 bits): not flagged although the oracle's product is `n`; likewise 78 bits (39 % 8 = 7)
example : keypairStep [(2 ^ 63, [7])] (2 ^ 63 * 2 ^ 11) (fun _ _ => (2 ^ 63, 2 ^ 11)) =
    .ok (false, []) := by decide +kernel
example : keypairStep [(2 ^ 63, [7])] (2 ^ 63 * 2 ^ 14) (fun _ _ => (2 ^ 63, 2 ^ 14)) =
    .ok (false, []) := by decide +kernel
example : keypairSizeOk 2048 = true ∧ keypairSizeOk 2046 = false ∧ keypairSizeOk 2036 = true ∧
    keypairSizeOk 2047 = false := by decide

/-! ## EC half: CheckValidECKey, CheckWeakCurve -/

section ec
open Paranoid.Ec Paranoid.Bsgs WeierstrassCurve

/-- ★ `validKey_iff` (function level). For `p` prime, `p ≠ 2`, non-zero discriminant, and ANY integer
coordinates: `IsValidPublicKey((x, y))` never raises and is `True` exactly when
`0 ≤ x, y < p`, `y² ≡ x³ + a·x + b (mod p)` and (`h ≤ 1` or `n • P = ∞` in the group);
`IsValidPublicKey(INFINITY)` is `False`. -/
theorem validKey_iff (c : Curve) [Fact (Nat.Prime c.p)] (hc : c.Good) (x y : Int) :
    ∃ b, isValidPublicKey c (.aff x y) = .ok b ∧
      (b = true ↔ InRangeOnCurve c x y ∧ (c.h ≤ 1 ∨ c.n • toPoint c (.aff x y) = 0)) := by
  obtain ⟨b, hb, hiff⟩ := isValidPublicKey_spec c hc (.aff x y)
  refine ⟨b, hb, hiff.trans ?_⟩
  constructor
  · rintro ⟨hon, _, hord, x', y', he, h1, h2, h3, h4⟩
    cases he
    refine ⟨⟨h1, by omega, h3, by omega, (onCurve_iff_congr c x y).mp hon⟩, ?_⟩
    by_cases hh : c.h ≤ 1
    · exact .inl hh
    · exact .inr (hord (by omega))
  · rintro ⟨⟨h1, h2, h3, h4, h5⟩, hord⟩
    refine ⟨(onCurve_iff_congr c x y).mpr h5, by simp, fun hh => ?_, x, y, rfl, h1, by omega, h3, by omega⟩
    rcases hord with h | h
    · omega
    · exact h

theorem validKey_infinity (c : Curve) : isValidPublicKey c .inf = .ok false := by
  simp [isValidPublicKey, onCurve]

/-- cofactor 1 (every curve of `CURVE_FACTORY`, `curve_factory_cofactors`): the answer is the
closed-form criterion alone, for ANY curve parameters (no primality needed). -/
theorem validKey_iff_cofactor_one (c : Curve) (hh : c.h ≤ 1) (x y : Int) :
    isValidPublicKey c (.aff x y) = .ok (decide (InRangeOnCurve c x y)) :=
  isValidPublicKey_cofactor_one c hh x y

/-- ★ CheckValidECKey, check level, for every batch and every factory whose curves have cofactor
`≤ 1`: the check never raises, writes a result for EVERY key, attaches nothing, and flags exactly
the keys whose `curve_type` is not in the factory or maps to `None` (unknown and binary-field
curves) or whose point fails `0 ≤ x, y < p ∧ y² ≡ x³ + a·x + b (mod p)`. -/
theorem checkValidECKey_iff (f : Factory) (hf : ∀ id c, factoryGet f id = some c → c.h ≤ 1)
    (keys : List ECKey) :
    checkValidECKey f keys = .ok (keys.map fun k => some ⟨invalidKeySpec f k, none⟩) ∧
    ∀ k, invalidKeySpec f k = true ↔
      (factoryGet f k.curveType = none ∨
        ∃ c, factoryGet f k.curveType = some c ∧ ¬ InRangeOnCurve c (k.x : Int) (k.y : Int)) := by
  refine ⟨checkValidECKey_cofactor_one f hf keys, fun k => ?_⟩
  unfold invalidKeySpec
  cases factoryGet f k.curveType with
  | none => simp
  | some c => simp

/-- … with a cofactor `> 1` (general factory) the subgroup test is added, per key. -/
theorem validKeyOne_general (f : Factory) (k : ECKey) (c : Curve) [Fact (Nat.Prime c.p)]
    (hc : c.Good) (hget : factoryGet f k.curveType = some c) :
    ∃ b, validKeyOne f k = .ok (some ⟨b, none⟩) ∧
      (b = false ↔ InRangeOnCurve c (k.x : Int) (k.y : Int) ∧
        (c.h ≤ 1 ∨ c.n • toPoint c k.pt = 0)) := by
  obtain ⟨b, hb, hiff⟩ := validKey_iff c hc (k.x : Int) (k.y : Int)
  refine ⟨!b, by simp [validKeyOne, hget, ECKey.pt, hb], ?_⟩
  show (!b) = false ↔ _ ∧ (_ ∨ c.n • toPoint c (.aff (k.x : Int) (k.y : Int)) = 0)
  rw [← hiff]; simp

theorem validKeyOne_unknown (f : Factory) (k : ECKey) (hget : factoryGet f k.curveType = none) :
    validKeyOne f k = .ok (some ⟨true, none⟩) := by simp [validKeyOne, hget]

/-- the regenerated `CURVE_FACTORY`: nine prime-field curves, all of cofactor 1, under the ids
`2,4,1,3,5,6,17,18,19`; the ten binary-field ids `7…16` map to `None`; every other id
(`CURVE_UNKNOWN = 0`, …) is absent. -/
theorem curve_factory_eq : regenFactory =
    [⟨2, some secp256r1⟩, ⟨4, some secp384r1⟩, ⟨1, some secp192r1⟩, ⟨3, some secp224r1⟩,
     ⟨5, some secp521r1⟩, ⟨6, some secp256k1⟩,
     ⟨17, some brainpoolP256r1⟩, ⟨18, some brainpoolP384r1⟩, ⟨19, some brainpoolP512r1⟩,
     ⟨7, none⟩, ⟨8, none⟩, ⟨9, none⟩, ⟨10, none⟩,
     ⟨11, none⟩, ⟨12, none⟩, ⟨13, none⟩, ⟨14, none⟩, ⟨15, none⟩, ⟨16, none⟩] := regenFactory_eq

theorem curve_factory_cofactors : ∀ id c, factoryGet regenFactory id = some c → c.h ≤ 1 :=
  regenFactory_cofactor

/-- ★ CheckValidECKey on the regenerated factory. -/
theorem checkValidECKey_factory (keys : List ECKey) :
    checkValidECKey regenFactory keys =
      .ok (keys.map fun k => some ⟨invalidKeySpec regenFactory k, none⟩) :=
  (checkValidECKey_iff regenFactory regenFactory_cofactor keys).1

/-- ★ `weakCurve_iff`. CheckWeakCurve, for every factory and batch: keys whose curve is unknown /
`None` get NO result (skipped — CheckValidECKey flags them); every other key gets a result, flagged
exactly when the order `n` of its curve has fewer than 224 bits (`n.bit_length() < 224`, i.e.
`n < 2^223`); nothing is attached. -/
theorem weakCurve_iff (f : Factory) (keys : List ECKey) :
    checkWeakCurve f keys = keys.map fun k =>
      match factoryGet f k.curveType with
      | none => none
      | some c => some ⟨decide (bitLength c.n < 224), none⟩ := rfl

theorem weakCurve_threshold (n : Nat) : bitLength n < 224 ↔ n < 2 ^ 223 := by
  unfold bitLength
  split
  · rename_i h; subst h; simp
  · rename_i h
    rw [show Nat.log2 n + 1 < 224 ↔ Nat.log2 n < 223 by omega, Nat.log2_lt h]

/-- on the regenerated `CURVE_FACTORY` exactly the id `1` = secp192r1 (192-bit order) is flagged;
secp224r1 (224 bits) is not. -/
theorem weakCurve_factory :
    weakCurveIds regenFactory = [1] ∧ factoryGet regenFactory 1 = some secp192r1 ∧
    (regenFactory.filterMap fun e => e.curve.map fun c => (e.id, bitLength c.n)) =
      [(2, 256), (4, 384), (1, 192), (3, 224), (5, 521), (6, 256), (17, 256), (18, 384), (19, 512)] :=
  ⟨regenFactory_weakCurveIds, regenFactory_id1, regenFactory_bits⟩

/-! non-vacuity -/
example : isValidPublicKey secp256r1 secp256r1.g = .ok true := by decide +kernel
example : isValidPublicKey secp256r1 (.aff (secp256r1.gx + secp256r1.p) secp256r1.gy) = .ok false := by
  decide +kernel
example : checkValidECKey regenFactory [⟨2, secp256r1.gx.toNat, secp256r1.gy.toNat⟩, ⟨0, 1, 2⟩, ⟨7, 1, 2⟩,
    ⟨2, 1, 2⟩] = .ok [some ⟨false, none⟩, some ⟨true, none⟩, some ⟨true, none⟩, some ⟨true, none⟩] := by
  decide +kernel
example : checkWeakCurve regenFactory [⟨1, 0, 0⟩, ⟨3, 0, 0⟩, ⟨0, 0, 0⟩, ⟨9, 0, 0⟩] =
    [some ⟨true, none⟩, some ⟨false, none⟩, none, none] := by decide +kernel

end ec

end Paranoid.C06
