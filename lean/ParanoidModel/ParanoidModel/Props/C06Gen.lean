/-
Props/C06Gen.lean — why `generate_key(bits)` cannot return for `(bits / 2) % 8 ≥ 3`: the size of the primes
`keypair_generator.Generator.generate_prime` produces (property C06 / finding D21; second review, L33).

`C06.product_size_never_reached` is pure arithmetic: IF both primes are below `2^(k−1) + 3·2^(8m−1)`
(k = 8m + r the prime size, r ≥ 3) THEN the product has fewer than 2k bits.  Its docstring said that
`generate_prime` "draws only 8m random bits …" is the reason; nothing proved the bound for the construction
in the code.  Here the construction is followed statement by statement at the arithmetic level
(keypair_generator.py:57-86; the AES-CTR byte stream is a universally quantified byte string — no model of
AES or SHA-1 is needed for a size bound):

    p_size_bytes = k // 8
    prime_bytes  = prime_bytes[1 : p_size_bytes + 1]          -- exactly k // 8 bytes `bs`
    p  = int.from_bytes(prime_bytes, 'big')                   -- x = beNat bs < 2^(8(k//8))
    p |= 1 << (k - 1)                                         -- set MSB
    p += 31 - p % 30                                          -- = KeypairGen.primeStart k x, ≡ 1 (mod 30)
    while not is_prime(p, 1): p += GCD_30_DELTA[idx % 8]      -- adds `gap` ≥ 0 in total
    if is_prime(p, 10): return p                              -- else: fresh bytes, same shape

so the returned prime is `primeStart k (beNat bs) + gap` for the bytes and the gap of the LAST attempt.

THE GAP HYPOTHESIS (explicit, not proved): `gap + 31 ≤ 2^(8(k//8) − 1)`.  `gap` is at most the distance from
`primeStart` to the next prime (the search visits every residue coprime to 30 and a prime passes every
Miller–Rabin round).  For k ≥ 32 (moduli of ≥ 64 bits, the range of the check) the hypothesis allows a gap
of 2^31 − 31 at the least, while the primes have k ≤ 2^13 or so bits in practice; the largest known prime gap
below 2^64 is 1550.  It follows from Cramér-type conjectures and, for large k, from Baker–Harman–Pintz
(p^0.525), but NOT from Bertrand's postulate (gap < p ≈ 2^(k−1) is too weak), and is not available in
Mathlib: it stays a hypothesis.  Measured on the real `generate_prime` (script in the round report,
k ∈ {32 … 47, 64, 67, 100, 256, 509, 1019, 1023, 1024}, 425 primes): `primeStart` recorded at the first
`is_prime` call of the last attempt satisfies `primeStart_spec`; largest gap 1558 (k = 1023); products for
k % 8 ≥ 3 all have exactly 2k − 1 bits.

With the hypothesis, "is the reason" becomes a theorem: `generate_key_never_returns_size`.
-/
import ParanoidModel.Proofs.KeypairGen
import ParanoidModel.Props.C06
namespace Paranoid.C06Gen
open Paranoid Paranoid.KeypairGen

/-- the slice `prime_bytes[1 : k // 8 + 1]` read big-endian is below `2^(8·(k // 8))`. -/
theorem prime_bytes_lt (k : Nat) (bs : List UInt8) (hlen : bs.length = k / 8) :
    beNat bs < 2 ^ (8 * (k / 8)) := by
  rw [← hlen]; exact beNat_lt bs

/-- the candidate the prime search starts from: bit k − 1 is set, it is ≡ 1 (mod 30), and it exceeds
`2^(k−1)` by less than `2^(8(k//8)) + 31` — only `8·(k // 8)` of its k bits are random. -/
theorem primeStart_spec (k : Nat) (bs : List UInt8) (hlen : bs.length = k / 8) :
    2 ^ (k - 1) ≤ primeStart k (beNat bs) ∧
      primeStart k (beNat bs) < 2 ^ (k - 1) + 2 ^ (8 * (k / 8)) + 31 ∧
      primeStart k (beNat bs) % 30 = 1 :=
  primeStart_bounds k (beNat bs) (prime_bytes_lt k bs hlen)

/-- ★ the size of the prime `generate_prime(k)` returns, for every byte stream and every search gap within
the explicit gap hypothesis: `2^(k−1) ≤ p < 2^(k−1) + 3·2^(8(k//8) − 1)` — the hypothesis of
`C06.product_size_never_reached` with m = k // 8, r = k % 8. -/
theorem generate_prime_bound (k : Nat) (bs : List UInt8) (gap : Nat) (hk : 8 ≤ k)
    (hlen : bs.length = k / 8) (hgap : gap + 31 ≤ 2 ^ (8 * (k / 8) - 1)) :
    2 ^ (k - 1) ≤ primeStart k (beNat bs) + gap ∧
      primeStart k (beNat bs) + gap < 2 ^ (k - 1) + 3 * 2 ^ (8 * (k / 8) - 1) := by
  obtain ⟨h1, h2, _⟩ := primeStart_spec k bs hlen
  have hm : 1 ≤ k / 8 := by omega
  have e : 2 ^ (8 * (k / 8)) = 2 * 2 ^ (8 * (k / 8) - 1) := by
    rw [← Nat.pow_succ']; congr 1; omega
  omega

/-- ★ D21, even sizes, as a theorem about the construction (modulo the gap hypothesis): for a prime size
k ≥ 8 with `k % 8 ≥ 3`, ANY two primes `generate_prime(k)` can return multiply to a number of EXACTLY
`2k − 1` bits — never the `bits = 2k` that `generate_key(2k)` (`while True: … if n.bit_length() == bits:
return`) waits for, so that loop does not end, whatever the seed. -/
theorem generate_key_never_returns_size (k : Nat) (bs₁ bs₂ : List UInt8) (gap₁ gap₂ : Nat) (hk : 8 ≤ k)
    (hr : 3 ≤ k % 8) (hlen₁ : bs₁.length = k / 8) (hlen₂ : bs₂.length = k / 8)
    (hgap₁ : gap₁ + 31 ≤ 2 ^ (8 * (k / 8) - 1)) (hgap₂ : gap₂ + 31 ≤ 2 ^ (8 * (k / 8) - 1)) :
    bitLength ((primeStart k (beNat bs₁) + gap₁) * (primeStart k (beNat bs₂) + gap₂)) = 2 * k - 1 ∧
      bitLength ((primeStart k (beNat bs₁) + gap₁) * (primeStart k (beNat bs₂) + gap₂)) ≠ 2 * k := by
  obtain ⟨l1, u1⟩ := generate_prime_bound k bs₁ gap₁ hk hlen₁ hgap₁
  obtain ⟨l2, u2⟩ := generate_prime_bound k bs₂ gap₂ hk hlen₂ hgap₂
  have hkk : 8 * (k / 8) + k % 8 = k := Nat.div_add_mod k 8
  have hup := C06.product_size_never_reached (k / 8) (k % 8) _ _ (by omega) hr
    (by rw [hkk]; exact u1) (by rw [hkk]; exact u2)
  rw [hkk] at hup
  have hlo : 2 ^ (2 * k - 2) ≤ (primeStart k (beNat bs₁) + gap₁) * (primeStart k (beNat bs₂) + gap₂) := by
    have : 2 ^ (2 * k - 2) = 2 ^ (k - 1) * 2 ^ (k - 1) := by rw [← Nat.pow_add]; congr 1; omega
    rw [this]; exact Nat.mul_le_mul l1 l2
  have h1 := (bitLength_le_iff _ (2 * k - 1)).mpr hup
  have h2 : ¬ bitLength ((primeStart k (beNat bs₁) + gap₁) * (primeStart k (beNat bs₂) + gap₂)) ≤ 2 * k - 2 :=
    fun hc => by have := (bitLength_le_iff _ _).mp hc; omega
  omega

/-- the same in the vocabulary of `CheckKeypairDenylist`: for an even modulus size `bits` that the check's
size guard `keypairSizeOk` rejects because `(bits / 2) % 8 ≥ 3`, no product of two generator primes has
`bits` bits (so a table hit at such a size can only be a coincidence, and not consulting the generator —
`C06.keypair_short_prime_size` — loses nothing). -/
theorem unsupported_even_size_unreachable (bits : Nat) (bs₁ bs₂ : List UInt8) (gap₁ gap₂ : Nat)
    (hbits : 64 ≤ bits) (hr : 3 ≤ (bits / 2) % 8)
    (hlen₁ : bs₁.length = bits / 2 / 8) (hlen₂ : bs₂.length = bits / 2 / 8)
    (hgap₁ : gap₁ + 31 ≤ 2 ^ (8 * (bits / 2 / 8) - 1)) (hgap₂ : gap₂ + 31 ≤ 2 ^ (8 * (bits / 2 / 8) - 1)) :
    bitLength ((primeStart (bits / 2) (beNat bs₁) + gap₁) * (primeStart (bits / 2) (beNat bs₂) + gap₂))
      ≠ bits := by
  obtain ⟨h, _⟩ := generate_key_never_returns_size (bits / 2) bs₁ bs₂ gap₁ gap₂ (by omega) hr hlen₁ hlen₂
    hgap₁ hgap₂
  omega

/-- the ODD-size companion (`C06.product_size_never_odd` needs `p, q < 2^k`): for `k % 8 ≥ 2` the returned
prime has exactly k bits, so `generate_key(2k + 1)` multiplies two primes below `2^k` and never sees a
product of `2k + 1` bits.  For `k % 8 ∈ {0, 1}` the bound `p < 2^k` is NOT a theorem about the construction:
random bytes within `31 + gap` of all-ones make `p += 31 - p % 30` carry into bit k (example below; probability
about `(31 + gap) / 2^(8(k//8))` per prime) — there "cannot return" is "does not return unless that happens". -/
theorem generate_prime_lt_two_pow (k : Nat) (bs : List UInt8) (gap : Nat) (hk : 8 ≤ k) (hr : 2 ≤ k % 8)
    (hlen : bs.length = k / 8) (hgap : gap + 31 ≤ 2 ^ (8 * (k / 8) - 1)) :
    primeStart k (beNat bs) + gap < 2 ^ k := by
  obtain ⟨_, u⟩ := generate_prime_bound k bs gap hk hlen hgap
  have hkk : 8 * (k / 8) + k % 8 = k := Nat.div_add_mod k 8
  have h1 : 4 * 2 ^ (8 * (k / 8) - 1) ≤ 2 ^ (k - 1) := by
    have : 4 * 2 ^ (8 * (k / 8) - 1) = 2 ^ (8 * (k / 8) + 1) := by
      rw [show 8 * (k / 8) + 1 = 2 + (8 * (k / 8) - 1) by omega, Nat.pow_add]
    rw [this]
    exact Nat.pow_le_pow_right (by omega) (by omega)
  have h2 : 2 ^ k = 2 * 2 ^ (k - 1) := by rw [← Nat.pow_succ']; congr 1; omega
  omega

theorem generate_key_never_returns_odd (k : Nat) (bs₁ bs₂ : List UInt8) (gap₁ gap₂ : Nat) (hk : 8 ≤ k)
    (hr : 2 ≤ k % 8) (hlen₁ : bs₁.length = k / 8) (hlen₂ : bs₂.length = k / 8)
    (hgap₁ : gap₁ + 31 ≤ 2 ^ (8 * (k / 8) - 1)) (hgap₂ : gap₂ + 31 ≤ 2 ^ (8 * (k / 8) - 1)) :
    bitLength ((primeStart k (beNat bs₁) + gap₁) * (primeStart k (beNat bs₂) + gap₂)) ≠ 2 * k + 1 := by
  have h := C06.product_size_never_odd k _ _
    (generate_prime_lt_two_pow k bs₁ gap₁ hk hr hlen₁ hgap₁)
    (generate_prime_lt_two_pow k bs₂ gap₂ hk hr hlen₂ hgap₂)
  have := (bitLength_le_iff _ (2 * k)).mpr h
  omega

/-! ## Non-vacuity -/

-- k = 32 (k % 8 = 0), all-ones bytes: the alignment step carries into bit 32 — `p < 2^k` fails, and the
-- product of two such "32-bit" primes has 65 = 2k + 1 bits
example : 2 ^ 32 ≤ primeStart 32 (beNat [0xff, 0xff, 0xff, 0xff]) ∧
    bitLength (primeStart 32 (beNat [0xff, 0xff, 0xff, 0xff]) *
      primeStart 32 (beNat [0xff, 0xff, 0xff, 0xff])) = 65 := by decide +kernel

-- k = 35 (bits = 70, the size of the reviewer's reproduction), 4 random bytes, gaps 6 and 120
example : primeStart 35 (beNat [0x12, 0x34, 0x56, 0x78]) = 17485289101 ∧
    17485289101 % 30 = 1 ∧ ([0x12, 0x34, 0x56, 0x78] : List UInt8).length = 35 / 8 ∧
    8 ≤ 35 ∧ 3 ≤ 35 % 8 ∧ 6 + 31 ≤ 2 ^ (8 * (35 / 8) - 1) ∧ 120 + 31 ≤ 2 ^ (8 * (35 / 8) - 1) ∧
    bitLength ((primeStart 35 (beNat [0x12, 0x34, 0x56, 0x78]) + 6) *
      (primeStart 35 (beNat [0xff, 0xff, 0xff, 0xff]) + 120)) = 69 := by decide +kernel
-- the bound is tight in r: for k % 8 = 2 (k = 34) both 2k − 1 and 2k bits occur
example : bitLength ((primeStart 34 (beNat [0, 0, 0, 0])) * (primeStart 34 (beNat [0, 0, 0, 0]))) = 67 ∧
    bitLength ((primeStart 34 (beNat [0xff, 0xff, 0xff, 0xff])) *
      (primeStart 34 (beNat [0xff, 0xff, 0xff, 0xff]))) = 68 := by decide +kernel

end Paranoid.C06Gen
