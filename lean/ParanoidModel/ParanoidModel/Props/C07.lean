/-
Props/C07.lean — "Healthy keys and signatures are never accused".

The main clause of C07 is probabilistic (keys from independent uniformly random primes). A
theorem can carry exactly this much, and nothing more is claimed:
 * closed-form checks: the contrapositives of C06 (a ≥ 2048-bit modulus with e = 65537 is
   not flagged by the size / exponent checks);
 * Fermat: primes far apart in the exact sense of C04 are not flagged;
 * shared-factor check: a modulus coprime to every other modulus of the batch is not flagged,
   and adding it changes nobody else's verdict (non-interference);
 * ROCA: the EXACT acceptance rates of the two fingerprints, by kernel computation on the
   regenerated tuples. NOTE: the ROCA fingerprint accepts ≈ 2^-30 of all residue vectors
   (2^-28 … 2^-27 of unit residues), which is NOT ≤ 2^-37 as the property's quantifier text
   assumes; the variant detector is exactly 2^-48 on unit residues;
 * factoring checks: soundness (C01) — a key is flagged with factors only if they really
   multiply to n, so a modulus that is a product of two primes p, q is never "factored"
   into anything but {p, q};
 * entry points: the return value is the OR over checks/artefacts (C16).
For the heuristic checks (continued fractions, gcd(n-1, m) gate, low Hamming weight, lattice
checks, HNP) no theorem bounds the false-positive probability and none is claimed: healthy
artefacts are pushed through the real entry points on every run (harness/corr/c07.py) and any
accusation is reported with the artefact as replay.
-/
import ParanoidModel.Props.C03
import ParanoidModel.Props.C04
import ParanoidModel.Props.C06
import ParanoidModel.Props.C01
import ParanoidModel.Props.C16
namespace Paranoid.C07
open Paranoid

/-- a modulus of at least 2048 bits is not flagged by the size check. -/
theorem healthy_size (n : Nat) (h : 2 ^ 2047 ≤ n) : sizesWeak n = false := by
  rw [← Bool.not_eq_true, C06.sizes_iff_bitLength]
  intro hb
  have hlt : n < 2 ^ bitLength n := lt_two_pow_bitLength n
  have : 2 ^ bitLength n ≤ 2 ^ 2047 := Nat.pow_le_pow_right (by decide) (by omega)
  omega

/-- exponent 65537 is not flagged, whatever its byte encoding. -/
theorem healthy_exponent (eBytes : List Nat) (h : bytes2int eBytes = 65537) :
    checkExponents eBytes = false := by
  rw [← Bool.not_eq_true, C06.exponent_iff]
  simp [h]

/-- primes far apart (Fermat distance at least the step bound) ⇒ the Fermat check passes. -/
theorem healthy_fermat {p q : Nat} (hp : p.Prime) (hq : q.Prime) (hpq : p < q)
    (hpo : p % 2 = 1) (hqo : q % 2 = 1) (steps : Nat)
    (hfar : steps ≤ (p + q) / 2 - (Nat.sqrt (p * q) + 1)) :
    vFermat (p * q) steps = KeyVerdict.pass := by
  unfold vFermat
  rw [C04.fermat_silent hp hq hpq hpo hqo steps hfar]

/-- a modulus coprime to every other modulus of the batch (copies of itself allowed) is not
flagged by the shared-factor check and no factor is recorded. -/
theorem healthy_gcd (ns : List Nat) (n : Nat)
    (h : ∀ m ∈ ns, m = n ∨ Nat.Coprime n m) :
    checkGCDKeyR ns n (entry ns.toFinset 1 n) = (false, []) := by
  rw [C03.identical_never_accuse ns n h]
  simp [checkGCDKeyR]

/-- non-interference: adding a modulus coprime to all others changes nobody else's gcd. -/
theorem healthy_neighbour_irrelevant (values : List Nat) (w : Nat) (other : Option Nat)
    (hpos : ∀ v ∈ values, 0 < v) (hw : 0 < w) (hc : ∀ v ∈ values, Nat.Coprime v w) :
    ∃ g r, batchGCD values other = .ok r ∧ batchGCD (w :: values) other = .ok (g :: r) :=
  C03.coprime_key_irrelevant values w other hpos hw hc

/-- a check that attaches factors to a semiprime attaches its two primes: nothing else
multiplies to `n` (so "factored" verdicts on healthy keys cannot be fabricated). -/
theorem factored_semiprime_only {p q : Nat} (hp : p.Prime) (hq : q.Prime)
    (fs : List Nat) (h : ProperSplit (p * q) fs) : fs = [p, q] ∨ fs = [q, p] := by
  obtain ⟨g, rfl, hd, h1, h2⟩ := h
  have hp2 := hp.two_le
  have hq2 := hq.two_le
  rcases dvd_prime_mul_prime hp hq hd with h | h | h | h
  · omega
  · left; rw [h, Nat.mul_div_cancel_left _ (by omega)]
  · right; rw [h, Nat.mul_div_cancel _ (by omega)]
  · omega

/-- exact ROCA acceptance rates (re-exported from C06; see the header for what they mean). -/
theorem roca_rates :
    ((Consts.rocaPrimes.map (rocaAcceptedMod Consts.rocaF4)).prod * 2 ^ 30 < Consts.rocaPrimes.prod ∧
      Consts.rocaPrimes.prod < (Consts.rocaPrimes.map (rocaAcceptedMod Consts.rocaF4)).prod * 2 ^ 31) ∧
    (Consts.rocaVariantPrimes.map qrAcceptedMod).prod * 2 ^ 37 < Consts.rocaVariantPrimes.prod :=
  ⟨C06.roca_fp_rate, C06.rocaVariant_fp_rate_37⟩

/-- entry points: on fresh artefacts the return value is True exactly when some artefact ends
up weak — so a batch of artefacts none of which is accused returns False. -/
theorem entry_point_or (var : Variant) (ver : String) (ec : List CheckSpec)
    (steps : List Step) (arts arts' : List Artifact) (r : Bool)
    (hfresh : ∀ a ∈ arts, a.info.weak = false)
    (h : checkArtifacts var ver ec steps arts = .ok (arts', r)) :
    r = true ↔ ∃ a' ∈ arts', a'.info.weak = true :=
  C16.fresh_return_iff var ver ec steps arts arts' r hfresh h

/-! non-vacuity -/
example : sizesWeak (2 ^ 2047) = false := healthy_size _ (Nat.le_refl _)
example : checkExponents [0, 1, 0, 1] = false := healthy_exponent _ (by decide)

end Paranoid.C07
