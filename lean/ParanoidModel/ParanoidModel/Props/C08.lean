/-
Props/C08.lean — "ECDSA signatures with biased or predictable nonces reveal the signing key",
integer-lattice half (hidden_number_problem.py, cr50_u2f_weakness.py).

Inputs are the integer lists `a`, `b` with `k_i ≡ a_i + b_i·x (mod n)` (the ECDSA check layer that
produces them from signatures, groups by issuer and verifies every guess against the public key
is modelled elsewhere). LLL (`lll.reduce`) is an ORACLE: `basis` / `reduced` / `oracle i` below
are universally quantified. What is proved:

 * pre  — for every `Bias`, the planted short vector is an explicit integer combination of the
          rows of the matrix the code builds, with explicit entry bounds; likewise for the
          precomputation variant and for the Cr50 U2F sub-problem;
 * post — if the reduced basis contains (a unit multiple of) that vector, the code reports
          `x mod n`, whatever the other rows are;
 * the COMMON_POSTFIX → COMMON_PREFIX reduction the code performs;
 * the decision table of `_HiddenNumberProblemSubsets` (which windows, how many constants,
          in which order) for every length and flag set, and that the shipped metadata never
          makes it raise;
 * the sanity `raise` in `Cr50U2fGuesses` is unreachable.
That LLL *returns* such a row ("n·bits ≥ 2·curve size ⇒ detected", "as many signatures as the
shipped model declares") is NOT claimed.

Vocabulary (Proofs/Hnp.lean, namespace `Paranoid.Hnp`): `ent v i` = entry `i` of `v` (0 outside); `lincomb dim cs rows`
= `Σ cs_j • rows_j`; `HnpRel a b x n mult s es cs` = `∀ i, mult·(a_i + b_i x) = s + e_i + c_i n`;
`RowOk n row` = the row has ≥ 2 entries and its first is a multiple of `n` or a unit mod `n`.
-/
import ParanoidModel.Proofs.Hnp
import ParanoidModel.Proofs.Cr50
import ParanoidModel.Generated.Consts
import ParanoidModel.Props.C02S
namespace Paranoid.C08
open Paranoid Paranoid.Hnp

/-! ## pre: the planted vector is in the lattice `GetLattice` builds -/

/-- **MSB** (`k_i = a_i + b_i x − c_i n` small): `1·row₀ + x·row₁ − Σ c_i·row_{i+2}` equals
`(n·w+1, x, k_0·w, …, k_{m-1}·w)`. -/
theorem hnp_pre_msb (a b ks cs : List Int) (x w : Int) (n fb : Nat)
    (h : HnpRel a b x n 1 0 ks cs) :
    ∃ rows, getLattice a b (some w) n .msb fb = .ok rows ∧
      lincomb (a.length + 2) (1 :: x :: cs.map (fun c => -c)) rows =
        ((n : Int) * w + 1) :: x :: ks.map (· * w) :=
  Hnp.hnp_pre_msb a b ks cs x w n fb h

/-- **COMMON_PREFIX** (`a_i + b_i x = s + e_i + c_i n`: common part `s`, small `e_i`):
`1·row₀ + x·row₁ − (s + c₀n)·row₂ − Σ_{i≥1} (c_i − c₀)·row_{i+2}` equals
`(n·w+1, x, e_0·w, …, e_{m-1}·w)`. -/
theorem hnp_pre_prefix (a b es cs : List Int) (x w s : Int) (n fb : Nat)
    (h : HnpRel a b x n 1 s es cs) :
    ∃ rows, getLattice a b (some w) n .commonPrefix fb = .ok rows ∧
      lincomb (a.length + 2) (1 :: x :: prefixCoeffs s n cs) rows =
        ((n : Int) * w + 1) :: x :: es.map (· * w) :=
  Hnp.hnp_pre_prefix a b es cs x w s n fb h

/-- **GENERALIZED** (`mult·(a_i + b_i x) = s + e_i + c_i n` for a secret multiplier `mult`):
`mult·row₀ + mult·x·row₁ − …` equals `(mult, mult·x, e_0·w, …)`. -/
theorem hnp_pre_generalized (a b es cs : List Int) (x w mult s : Int) (n fb : Nat)
    (h : HnpRel a b x n mult s es cs) :
    ∃ rows, getLattice a b (some w) n .generalized fb = .ok rows ∧
      lincomb (a.length + 2) (mult :: mult * x :: prefixCoeffs s n cs) rows =
        mult :: mult * x :: es.map (· * w) :=
  Hnp.hnp_pre_generalized a b es cs x w mult s n fb h

/-- **COMMON_POSTFIX** (`k_i = a_i + b_i x − c_i n = low + w·h_i`, `gcd(w, n) = 1`): the code
multiplies `a`, `b` by `wi = w⁻¹ mod n` and builds the prefix lattice; in it
`(n·w+1, x, h_0·w, …)` is the combination with common part `wi·low`. -/
theorem hnp_pre_postfix (a b ks cs hs : List Int) (x w low : Int) (n fb : Nat) (hn : 0 < n)
    (hw : Int.gcd w n = 1) (h : HnpRel a b x n 1 0 ks cs) (hh : hs.length = a.length)
    (hsuf : ∀ i, i < a.length → ent ks i = low + w * ent hs i) :
    ∃ (wi : Nat) (rows : List (List Int)), invMod w n = .ok wi ∧
      getLattice a b (some w) n .commonPostfix fb = .ok rows ∧
      lincomb (a.length + 2)
        (1 :: x :: prefixCoeffs ((wi : Int) * low) n (postfixCs a b hs cs x w wi n)) rows =
        ((n : Int) * w + 1) :: x :: hs.map (· * w) :=
  Hnp.hnp_pre_postfix a b ks cs hs x w low n fb hn hw h hh hsuf

/-- entry bound: nonces (small parts) below `B` in absolute value give planted entries below
`B·w` (`B = 2^(len − bias)` for `bias` biased bits), against `n·w` on the lattice diagonal. -/
theorem hnp_pre_bound (es : List Int) (w B : Int) (hw : 0 < w) (hB : ∀ e ∈ es, |e| < B) :
    ∀ v ∈ es.map (· * w), |v| < B * w :=
  target_bound es w B hw hB

/-- **postfix reduction** as a statement about the relation itself. -/
theorem postfix_reduction (a b ks cs hs : List Int) (x w low : Int) (n wi : Nat)
    (h : HnpRel a b x n 1 0 ks cs) (hh : hs.length = a.length)
    (hsuf : ∀ i, i < a.length → ent ks i = low + w * ent hs i)
    (hwi : invMod w n = .ok wi) :
    HnpRel (scaleMod wi n a) (scaleMod wi n b) x n 1 ((wi : Int) * low) hs
      (postfixCs a b hs cs x w wi n) :=
  postfix_reduction_rel a b ks cs hs x w low n wi h hh hsuf (invMod_ok_modEq w n wi hwi).1

/-! ## post: a good row in the reduced basis yields the key -/

/-- **post.** For EVERY reduced basis whose rows are harmless (`RowOk`; see `rows_ok_prime`):
if some row is `(u, v, …)` with `gcd(u, n) = 1` and `v ≡ u·x`, then `HiddenNumberProblem`
returns a list containing `x mod n`. -/
theorem hnp_post (a b : List Int) (w : Option Int) (n : Nat) (bias : Bias) (fb : Nat)
    (basis lat : List (List Int)) (x : Int) (hn : 1 < n)
    (hlat : getLattice a b w n bias fb = .ok lat) (hrows : ∀ r ∈ basis, RowOk n r)
    (hgood : ∃ u v rest, (u :: v :: rest) ∈ basis ∧ Int.gcd u n = 1 ∧ v ≡ u * x [ZMOD n]) :
    ∃ gs, hiddenNumberProblem a b w n bias fb basis = .ok gs ∧ (x % (n : Int)).toNat ∈ gs :=
  hnp_post_general a b w n bias fb basis lat x hn hlat hrows hgood

/-- for a prime modulus (every supported curve order) any row with two entries is harmless. -/
theorem rows_ok_prime (p : Nat) (hp : p.Prime) (row : List Int) (h : 2 ≤ row.length) :
    RowOk p row := rowOk_of_prime p hp row h

/-- **post, prime order, multiple of the planted vector.** If `n` is prime, every row of the
reduced basis has at least two entries, and the basis contains `t·(T₀, T₁, …)` for a target with
`T₁ ≡ T₀·x` (the vectors of `hnp_pre_*`: `(n·w+1, x, …)`, `(mult, mult·x, …)`) and
`n ∤ t·T₀` (in particular `t = ±1`), then `x mod n` is reported. -/
theorem hnp_post_prime (a b : List Int) (w : Option Int) (n : Nat) (bias : Bias) (fb : Nat)
    (basis lat : List (List Int)) (x t T0 T1 : Int) (tl : List Int) (hp : n.Prime)
    (hlat : getLattice a b w n bias fb = .ok lat) (hrows : ∀ r ∈ basis, 2 ≤ r.length)
    (htgt : T1 ≡ T0 * x [ZMOD n]) (hin : smul t (T0 :: T1 :: tl) ∈ basis)
    (ht : ¬ (n : Int) ∣ t * T0) :
    ∃ gs, hiddenNumberProblem a b w n bias fb basis = .ok gs ∧ (x % (n : Int)).toNat ∈ gs := by
  apply hnp_post_general a b w n bias fb basis lat x hp.one_lt hlat
    (fun r hr => rowOk_of_prime n hp r (hrows r hr))
  refine ⟨t * T0, t * T1, tl.map (t * ·), by simpa [smul] using hin, ?_, ?_⟩
  · obtain ⟨v0, v1, rest, hrow, hv⟩ := rowOk_of_prime n hp [t * T0, 0] (by simp)
    injection hrow with h0 _
    subst h0
    rcases hv with hv | hv
    · exact absurd hv ht
    · exact hv
  · calc t * T1 ≡ t * (T0 * x) [ZMOD n] := htgt.mul_left t
      _ = t * T0 * x := by ring

/-- nothing else is ever reported: every guess `g` is `v₁·v₀⁻¹ mod n` of a basis row. -/
theorem hnp_guess_origin (a b : List Int) (w : Option Int) (n : Nat) (bias : Bias) (fb : Nat)
    (basis : List (List Int)) (gs : List Nat)
    (h : hiddenNumberProblem a b w n bias fb basis = .ok gs) :
    ∀ g ∈ gs, ∃ v0 v1 rest, (v0 :: v1 :: rest) ∈ basis ∧ (g : Int) * v0 ≡ v1 [ZMOD n] ∧ g < n :=
  Hnp.hnp_guess_origin a b w n bias fb basis gs h

/-! ## HiddenNumberProblemWithPrecomputation -/

/-- **pre (precomputation).** The lattice is the MSB-shaped lattice of the flattened lists
`A_t = (a_i c_j − d_j) mod n`, `B_t = b_i c_j mod n` (`t = i·len(constants) + j`), and
`1·row₀ + x·row₁ − Σ c_t·row_{t+2} = (n·w+1, x, k_t·w, …)` with `k_t = A_t + B_t x − c_t n`. -/
theorem precomp_pre (a b : List Int) (n : Nat) (consts : List (Int × Int)) (w x : Int)
    (ks cs : List Int) (hn : 0 < n) (hb : a.length ≤ b.length)
    (h : HnpRel (precompAs a n consts) (precompBs a b n consts) x n 1 0 ks cs) :
    ∃ rows, precompLattice a b n consts w = .ok rows ∧
      lincomb (a.length * consts.length + 2) (1 :: x :: cs.map (fun c => -c)) rows =
        ((n : Int) * w + 1) :: x :: ks.map (· * w) :=
  precomp_pre_rows a b n consts w x ks cs hn hb h

/-- what `k_t` is: every aligned pair `(A_t, B_t)` belongs to one signature `(a_i, b_i)` and one
constant pair `(c, d)`, and `A_t + B_t·x ≡ c·(a_i + b_i·x) − d = c·k_i − d (mod n)` — the
quantity the precomputed constants make small for the targeted generator. -/
theorem precomp_entries (a b : List Int) (n : Nat) (consts : List (Int × Int)) (x : Int)
    (hb : a.length ≤ b.length) :
    ∀ p ∈ (precompAs a n consts).zip (precompBs a b n consts),
      ∃ ai bi c d, (ai, bi) ∈ a.zip b ∧ (c, d) ∈ consts ∧
        p.1 + p.2 * x ≡ c * (ai + bi * x) - d [ZMOD n] :=
  precomp_pairs a b n consts x hb

/-- **post (precomputation).** -/
theorem precomp_post (a b : List Int) (n : Nat) (consts : List (Int × Int)) (w : Int)
    (basis : List (List Int)) (x : Int) (hn : 1 < n) (hb : a.length ≤ b.length)
    (hrows : ∀ r ∈ basis, RowOk n r)
    (hgood : ∃ u v rest, (u :: v :: rest) ∈ basis ∧ Int.gcd u n = 1 ∧ v ≡ u * x [ZMOD n]) :
    ∃ gs, hiddenNumberProblemWithPrecomputation a b n consts w basis = .ok gs ∧
      (x % (n : Int)).toNat ∈ gs :=
  precomp_post_general a b n consts w basis x hn hb hrows hgood

/-! ## _HiddenNumberProblemSubsets / HiddenNumberProblemForCurve -/

/-- **decision table** of one `CONSTANT_FACTORY` entry (`sample_size`, `sliding_window_size`
positive) for every number of signatures `len` and every flag set:
* `len > window`: with SLIDING the `len − window + 1` consecutive windows in order, each with
  `⌊(ss−1)/window⌋ + 1` constants; then — if SINGLE is set or SLIDING is not — one test over the
  first `min(len, 2·ss)` signatures;
* `min_signatures ≤ len ≤ window`: one test with all signatures;
* `len = min_signatures − 1` and INCLUDE_KEY: one test with the pair `(0, 1)` appended;
* otherwise nothing. -/
theorem subsets_logic (ss ms sw len : Nat) (f : SearchFlags) (hss : 0 < ss) (hsw : 0 < sw) :
    entryShapes ss ms sw len f =
      if sw < len then
        ⟨(if f.sliding then (List.range (len - sw + 1)).map
              (fun i => (⟨i, sw, false, (ss - 1) / sw + 1⟩ : HnpShape)) else []) ++
          (if f.single ∨ ¬ f.sliding then
              [(⟨0, min len (2 * ss), false, (ss - 1) / min len (2 * ss) + 1⟩ : HnpShape)] else []),
          none⟩
      else if ms ≤ len then
        (if len = 0 then ⟨[], some .zeroDivision⟩
         else ⟨[⟨0, len, false, (ss - 1) / len + 1⟩], none⟩)
      else if len + 1 = ms ∧ f.includeKey then ⟨[⟨0, len, true, (ss - 1) / (len + 1) + 1⟩], none⟩
      else ⟨[], none⟩ :=
  entryShapes_table ss ms sw len f hss hsw

/-- with SLIDING every signature of a long list lies in a window of exactly
`sliding_window_size` consecutive signatures, and every window stays inside the list. -/
theorem windows_cover (ss ms sw len : Nat) (f : SearchFlags) (hss : 0 < ss) (hsw : 0 < sw)
    (hlen : sw < len) (hf : f.sliding = true) (i : Nat) (hi : i < len) :
    ∃ s ∈ (entryShapes ss ms sw len f).yields, s.size = sw ∧ s.start ≤ i ∧ i < s.start + s.size ∧
      s.start + s.size ≤ len :=
  sliding_windows_cover ss ms sw len f hss hsw hlen hf i hi

/-- every yielded window lies inside the list and asks for at least one constant. -/
theorem windows_inside (ss ms sw len : Nat) (f : SearchFlags) (hss : 0 < ss) (hsw : 0 < sw) :
    ∀ s ∈ (entryShapes ss ms sw len f).yields, s.start + s.size ≤ len ∧ 0 < s.numConstants :=
  entryShapes_inside ss ms sw len f hss hsw

/-- the shipped metadata (regenerated from `lcg_constants.CONSTANT_FACTORY`) has positive
`sample_size`, `min_signatures`, `sliding_window_size`, and enough constants for every window
the generator can ask for (`⌊(ss−1)/min_signatures⌋ + 1 ≤ len(constants)`). -/
theorem shipped_meta_ok :
    ∀ m ∈ Consts.lcgMeta, 0 < m.2.2.1 ∧ 0 < m.2.2.2.1 ∧ 0 < m.2.2.2.2.1 ∧
      (m.2.2.1 - 1) / m.2.2.2.1 + 1 ≤ m.2.2.2.2.2.2 ∧
      m.2.2.2.1 ≤ m.2.2.2.2.1 ∧ m.2.2.2.1 ≤ 2 * m.2.2.1 := by decide +kernel

/-- hence `constant_list[:num_constants]` is never cut short: every subset the generator yields
for a shipped entry asks for at most as many constants as the entry ships. -/
theorem shipped_enough_constants (len : Nat) (f : SearchFlags) :
    ∀ m ∈ Consts.lcgMeta, ∀ s ∈ (entryShapes m.2.2.1 m.2.2.2.1 m.2.2.2.2.1 len f).yields,
      s.numConstants ≤ m.2.2.2.2.2.2 := by
  intro m hm s hs
  obtain ⟨h1, h2, _, h4, h5, h6⟩ := shipped_meta_ok m hm
  exact le_trans (entryShapes_numConstants_le _ _ _ len f h1 h2 h5 h6 s hs) h4

/-- hence the generator never raises on the shipped table, for any length and flag set. -/
theorem subsets_total_shipped (len : Nat) (f : SearchFlags) :
    ∀ m ∈ Consts.lcgMeta, (entryShapes m.2.2.1 m.2.2.2.1 m.2.2.2.2.1 len f).err = none := by
  intro m hm
  obtain ⟨h1, h2, h3, _⟩ := shipped_meta_ok m hm
  exact entryShapes_err_none _ _ _ len f h1 h3 h2

/-- no flag: `ValueError` before anything is yielded. -/
theorem subsets_no_flags (a b : List Int) (curve : Nat) (lcg : Option Nat) (factory : List LcgMeta) :
    hnpSubsets a b curve lcg ⟨false, false, false⟩ factory = ⟨[], some .valueError⟩ := rfl

/-- **post (for curve).** `oracle k` is the reduced basis of the `k`-th lattice (one per yielded
subset). If one of them contains a row `(u, u·x, …)` with `u` a unit, `x mod n` is among the
guesses of `HiddenNumberProblemForCurve`, whatever the other reductions returned. -/
theorem forcurve_post (a b : List Int) (curve n : Nat) (lcg : Option Nat) (f : SearchFlags)
    (factory : List LcgMeta) (oracle : Nat → List (List Int)) (x : Int)
    (hlen : a.length = b.length) (hf : f.none = false) (hn : 1 < n)
    (hmeta : ∀ m ∈ factory, entrySelected m curve lcg = true → MetaOk m)
    (hrows : ∀ k, ∀ r ∈ oracle k, RowOk n r)
    (hgood : ∃ k, k < (hnpSubsets a b curve lcg f factory).yields.length ∧
      ∃ u v rest, (u :: v :: rest) ∈ oracle k ∧ Int.gcd u n = 1 ∧ v ≡ u * x [ZMOD n]) :
    ∃ gs, hnpForCurve a b curve (some (some n)) lcg f factory oracle = .ok gs ∧
      (x % (n : Int)).toNat ∈ gs :=
  forCurve_post a b curve n lcg f factory oracle x hlen hf hn hmeta hrows hgood

/-- the argument checks in front of the lattice work, in the order the code performs them. -/
theorem forcurve_errors (a b : List Int) (curve : Nat) (lcg : Option Nat) (f : SearchFlags)
    (factory : List LcgMeta) (oracle : Nat → List (List Int)) :
    (a.length ≠ b.length → ∀ cn, hnpForCurve a b curve cn lcg f factory oracle = .error .valueError) ∧
    (a.length = b.length → hnpForCurve a b curve none lcg f factory oracle = .error .keyError) ∧
    (a.length = b.length → hnpForCurve a b curve (some none) lcg f factory oracle = .error .valueError) ∧
    (a.length = b.length → f.none = true → ∀ n,
      hnpForCurve a b curve (some (some n)) lcg f factory oracle = .error .valueError) :=
  forCurve_errors a b curve lcg f factory oracle

/-! ## Cr50 U2F -/

/-- **pre (Cr50).** Nonces `k₁ = Σ c¹ⱼ·B_j`, `k₂ = Σ c²ⱼ·B_j` over the basis
`B_j = 0x01010101·2^(32j)` (one digit per 32-bit word — every byte of the word repeated four
times) with `s_i·k_i ≡ z_i + r_i·x (mod n)`: the vector `(c¹, c², −256, 0)` is the explicit
integer combination `Σ c¹ⱼ·rowⱼ + Σ c²ⱼ·row_{words+j} − row_{2·words} − q·row_last` of the
lattice `Cr50U2fGuesses` hands to LLL. Its entries are the digits (`< 256`) and `256`. -/
theorem cr50_pre (r1 s1 z1 r2 s2 z2 x : Int) (n : Nat) (hn : 0 < n) (c1 c2 : List Int)
    (h1 : c1.length = (cr50Basis (bitLength n)).length)
    (h2 : c2.length = (cr50Basis (bitLength n)).length)
    (hs1 : s1 * dotZip (cr50Basis (bitLength n)) c1 ≡ z1 + r1 * x [ZMOD n])
    (hs2 : s2 * dotZip (cr50Basis (bitLength n)) c2 ≡ z2 + r2 * x [ZMOD n]) :
    ∃ rows q, cr50Lattice (r2 * s1 % (n : Int)) (-r1 * s2 % (n : Int))
        ((r2 * z1 - r1 * z2) % (n : Int)) n (cr50Basis (bitLength n)) = .ok rows ∧
      lincomb (2 * (cr50Basis (bitLength n)).length + 2) (c1 ++ (c2 ++ [-1, -q])) rows =
        c1 ++ (c2 ++ [-256, 0]) := by
  obtain ⟨rows, hrows, hl⟩ := cr50_pre_rows (r2 * s1 % (n : Int)) (-r1 * s2 % (n : Int))
    ((r2 * z1 - r1 * z2) % (n : Int)) n hn (cr50Basis (bitLength n)) c1 c2 h1 h2
    (cr50_relation r1 s1 z1 r2 s2 z2 x _ _ n hs1 hs2)
  exact ⟨rows, _, hrows, hl⟩

/-- **post (Cr50).** `n > 1` with bit length a multiple of 32, `r₁`, `r₂` units (any valid
signature on a prime-order curve), digit vectors with non-negative nonces: if the reduced
basis contains a row starting with `±(c¹, c²)`, `Cr50U2fGuesses` returns a set containing
`x mod n` — for every other content of the reduced basis. -/
theorem cr50_post (r1 s1 z1 r2 s2 z2 x : Int) (n : Nat) (reduced : List (List Int))
    (c1 c2 rest : List Int) (hbl : bitLength n % 32 = 0) (hn : 1 < n)
    (h1 : c1.length = (cr50Basis (bitLength n)).length)
    (h2 : c2.length = (cr50Basis (bitLength n)).length)
    (hk1 : 0 ≤ dotZip (cr50Basis (bitLength n)) c1) (hk2 : 0 ≤ dotZip (cr50Basis (bitLength n)) c2)
    (hs1 : s1 * dotZip (cr50Basis (bitLength n)) c1 ≡ z1 + r1 * x [ZMOD n])
    (hs2 : s2 * dotZip (cr50Basis (bitLength n)) c2 ≡ z2 + r2 * x [ZMOD n])
    (hr1 : Int.gcd r1 n = 1) (hr2 : Int.gcd r2 n = 1)
    (hrow : (c1 ++ (c2 ++ rest)) ∈ reduced ∨
      (c1.map (fun c => -c) ++ (c2.map (fun c => -c) ++ rest)) ∈ reduced) :
    ∃ gs, cr50Guesses r1 s1 z1 r2 s2 z2 n reduced = .ok gs ∧ (x % (n : Int)).toNat ∈ gs :=
  cr50_post_general r1 s1 z1 r2 s2 z2 x n reduced c1 c2 rest hbl hn h1 h2 hk1 hk2 hs1 hs2 hr1 hr2 hrow

/-- digits `≥ 0` give non-negative nonces (hypotheses `hk1`, `hk2` of `cr50_post`). -/
theorem cr50_nonce_nonneg (bl : Nat) (c : List Int) (hc : ∀ d ∈ c, 0 ≤ d) :
    0 ≤ dotZip (cr50Basis bl) c :=
  dotZip_nonneg _ _ (cr50Basis_nonneg bl) hc

/-- **the sanity `raise` is unreachable.** For all integers `r, s, z`, every modulus and every
answer of the lattice reduction, `Cr50U2fGuesses` never raises `ArithmeticError("Sanity check
failed")`; the only exception it can raise is `ZeroDivisionError` (from `% n` with `n = 0` or
from `gmpy.invert` of a non-unit `r`), which a valid signature (`1 ≤ r < n`, `n` prime) cannot
trigger (`cr50_total_prime`). -/
theorem cr50_sanity_unreachable (r1 s1 z1 r2 s2 z2 : Int) (n : Nat) (reduced : List (List Int)) :
    cr50Guesses r1 s1 z1 r2 s2 z2 n reduced ≠ .error .arithmeticError := by
  intro h
  have := cr50Guesses_error r1 s1 z1 r2 s2 z2 n reduced _ h
  cases this

/-- every exception is `ZeroDivisionError`. -/
theorem cr50_only_zero_division (r1 s1 z1 r2 s2 z2 : Int) (n : Nat) (reduced : List (List Int))
    (e : PyErr) (h : cr50Guesses r1 s1 z1 r2 s2 z2 n reduced = .error e) : e = .zeroDivision :=
  cr50Guesses_error r1 s1 z1 r2 s2 z2 n reduced e h

/-- totality on well-formed input: prime `n`, `r₁, r₂` not multiples of `n`. -/
theorem cr50_total_prime (r1 s1 z1 r2 s2 z2 : Int) (n : Nat) (reduced : List (List Int))
    (hp : n.Prime) (hr1 : ¬ (n : Int) ∣ r1) (hr2 : ¬ (n : Int) ∣ r2) :
    ∃ gs, cr50Guesses r1 s1 z1 r2 s2 z2 n reduced = .ok gs := by
  have cop : ∀ r : Int, ¬ (n : Int) ∣ r → Int.gcd r n = 1 := by
    intro r hr
    obtain ⟨v0, v1, rest, hrow, hv⟩ := rowOk_of_prime n hp [r, 0] (by simp)
    injection hrow with h0 _
    subst h0
    rcases hv with hv | hv
    · exact absurd hv hr
    · exact hv
  obtain ⟨i1, hi1⟩ := invMod_of_coprime r1 n hp.pos (cop r1 hr1)
  obtain ⟨i2, hi2⟩ := invMod_of_coprime r2 n hp.pos (cop r2 hr2)
  have hn0 : n ≠ 0 := hp.pos.ne'
  obtain ⟨gs, hgs, _⟩ := cr50GuessLoop_ok r1 s1 z1 r2 s2 z2 n hn0 (cr50Basis (bitLength n))
    i1 i2 hi1 hi2 reduced []
  unfold cr50Guesses
  by_cases hbl : bitLength n % 32 ≠ 0
  · rw [if_pos hbl]; exact ⟨_, rfl⟩
  · rw [if_neg hbl, if_neg hn0]
    have : ∃ l, cr50Lattice (r2 * s1 % (n : Int)) (-r1 * s2 % (n : Int))
        ((r2 * z1 - r1 * z2) % (n : Int)) n (cr50Basis (bitLength n)) = .ok l := by
      unfold cr50Lattice; rw [if_neg (fun h => hn0 h.1)]; exact ⟨_, rfl⟩
    obtain ⟨l, hl⟩ := this
    rw [hl]
    exact ⟨gs, hgs⟩

/-- orders whose bit length is not a multiple of 32 are "not implemented": empty result. -/
theorem cr50_not_implemented (r1 s1 z1 r2 s2 z2 : Int) (n : Nat) (reduced : List (List Int))
    (h : bitLength n % 32 ≠ 0) : cr50Guesses r1 s1 z1 r2 s2 z2 n reduced = .ok [] := by
  unfold cr50Guesses; rw [if_pos h]

/-- which shipped curves the U2F check covers: all but secp521r1 (id 5, 521-bit order). -/
theorem cr50_curves :
    ∀ c ∈ Consts.hnpCurveOrders, (bitLength c.2 % 32 = 0 ↔ c.1 ≠ 5) := by decide +kernel

/-! ## Non-vacuity: the hypotheses are met by concrete small instances (n = 97, w = 4, x = 5) -/

-- MSB: k = (3, 6) = a + 5·b − 97·c
example : HnpRel [50, 3] [10, 20] 5 97 1 0 [3, 6] [1, 1] := by unfold HnpRel; decide +kernel
example : getLattice [50, 3] [10, 20] (some 4) 97 .msb 0 =
    .ok [[389, 0, 200, 12], [0, 1, 40, 80], [0, 0, 388, 0], [0, 0, 0, 388]] := by decide +kernel
example : lincomb 4 [1, 5, -1, -1] [[389, 0, 200, 12], [0, 1, 40, 80], [0, 0, 388, 0], [0, 0, 0, 388]] =
    [389, 5, 12, 24] := by decide +kernel
-- post: the planted row (and its negative, and noise) in the basis gives x = 5
example : hiddenNumberProblem [50, 3] [10, 20] (some 4) 97 .msb 0
    [[0, 0, 0, 0], [389, 5, 12, 24], [-389, -5, -12, -24], [97, 3, 1, 1]] = .ok [5] := by decide +kernel
-- prefix: k = (81, 83) = 80 + (1, 3)
example : HnpRel [31, 80] [10, 20] 5 97 1 80 [1, 3] [0, 1] := by unfold HnpRel; decide +kernel
example : lincomb 4 (1 :: 5 :: prefixCoeffs 80 97 [0, 1])
    [[389, 0, 124, 320], [0, 1, 40, 80], [0, 0, 4, 4], [0, 0, 0, 388]] = [389, 5, 4, 12] := by
  decide +kernel
-- postfix: k = (11, 23) = 3 + 4·(2, 5); the code's lattice after multiplying by 4⁻¹ = 73
example : getLattice [58, 20] [10, 20] (some 4) 97 .commonPostfix 0 =
    .ok [[389, 0, 252, 20], [0, 1, 204, 20], [0, 0, 4, 4], [0, 0, 0, 388]] := by decide +kernel
example : HnpRel [58, 20] [10, 20] 5 97 1 0 [11, 23] [1, 1] := by unfold HnpRel; decide +kernel
-- generalized: 7·k ≡ 80 + (1, 3)
example : HnpRel [17, 92] [10, 20] 5 97 7 80 [1, 3] [4, 13] := by unfold HnpRel; decide +kernel
-- subsets: 5 signatures, window 2, all flags: 4 sliding windows then the single test
example : entryShapes 24 2 2 5 ⟨true, true, true⟩ =
    ⟨[⟨0, 2, false, 12⟩, ⟨1, 2, false, 12⟩, ⟨2, 2, false, 12⟩, ⟨3, 2, false, 12⟩, ⟨0, 5, false, 5⟩],
      none⟩ := by decide +kernel
example : entryShapes 24 2 2 1 ⟨false, false, true⟩ = ⟨[⟨0, 1, true, 12⟩], none⟩ := by decide +kernel
-- Cr50 on the 32-bit prime 2^32 − 5: k₁ = 3·0x01010101, k₂ = 7·0x01010101, x = 123456789
example : cr50Guesses 1000003 1979693995 55555 2000003 164261424 77777 4294967291
    [[0, 0, 0, 0], [-3, -7, 256, 0], [1, 2, 3, 4]] = .ok [123456789] := by decide +kernel
example : (1979693995 : Int) * dotZip (cr50Basis (bitLength 4294967291)) [3] ≡
    55555 + 1000003 * 123456789 [ZMOD (4294967291 : Nat)] := by decide +kernel

/-! ### The ECDSA check layer on top of the solvers (proved in Props/C02S.lean)

Together with `hnp_pre_*` / `hnp_post*` / `cr50_pre` / `cr50_post` above this is the full chain
"biased nonces ⇒ planted vector in the lattice ⇒ (ORACLE: LLL returns it) ⇒ key among the guesses
⇒ every signature of that issuer flagged with the key, other issuers untouched". -/

section checks
open Paranoid.EcdsaChecks

/-- "marks every signature of that issuer weak and records the correct private key": if any
solver call of the curve group returns a private key of an issuer key, EVERY signature with
that curve and issuer key is flagged, all with the same recorded key. -/
theorem all_of_issuer_flagged (k : Kind) (O : Nat → GroupOracle) (factory : EcdsaChecks.Factory)
    (arts : List Sig) (res : CheckResult) (hF : FactoryOK factory) (hR : FactoryReduced factory)
    (hnd : (factory.map Prod.fst).Nodup) (hG : GuessConsistent k O arts factory)
    (h : check k O factory arts = .ok res)
    (cid : Nat) (obj : CurveObj) (hobj : (cid, some obj) ∈ factory) (key : Key)
    (hkr : KeyReduced obj.curve key)
    (j : Nat) (cs : List Call) (kk : Nat) (g : Int)
    (hj : j < (mapIssuerSigIndexes ((groupFrom cid 0 arts).map Prod.snd)).length)
    (hc : issuerCalls k cid obj.curve.n ((O cid).uniq j) = .ok cs) (hk : kk < cs.length)
    (hg : g ∈ (O cid).answer j kk) (hkey : KeyOf obj.curve key g) :
    ∃ d, LastKeyOf obj.curve key (O cid).guessList d ∧
      ∀ bi s, arts[bi]? = some s → s.curve = cid → s.key = key →
        verdictOf res.writes bi = some (posVerdict d) :=
  C02S.all_of_issuer_flagged k O factory arts res hF hR hnd hG h cid obj hobj key hkr j cs kk g hj hc hk hg hkey

/-- "signatures of other issuers in the same batch keep their own verdict": a signature's
verdict depends on the solver answers only through those of its own curve group … -/
theorem group_isolation (k : Kind) (O O' : Nat → GroupOracle) (factory : EcdsaChecks.Factory)
    (arts : List Sig) (res res' : CheckResult) (h : check k O factory arts = .ok res)
    (h' : check k O' factory arts = .ok res') (hnd : (factory.map Prod.fst).Nodup)
    (bi : Nat) (s : Sig) (hs : arts[bi]? = some s) (hO : O s.curve = O' s.curve) :
    verdictOf res.writes bi = verdictOf res'.writes bi :=
  C02S.group_isolation k O O' factory arts res res' h h' hnd bi s hs hO

/-- … and within the group only a private key of ITS OWN issuer key can flag it. -/
theorem flagged_only_by_own_key (k : Kind) (O : Nat → GroupOracle) (factory : EcdsaChecks.Factory)
    (arts : List Sig) (res : CheckResult) (hF : FactoryOK factory)
    (hnd : (factory.map Prod.fst).Nodup) (h : check k O factory arts = .ok res) (bi : Nat)
    (v : Paranoid.Verdict) (hv : verdictOf res.writes bi = some v) :
    ∃ s obj, arts[bi]? = some s ∧ (s.curve, some obj) ∈ factory ∧
      (v = negVerdict ∨
        ∃ d, v = posVerdict d ∧ d ∈ (O s.curve).guessList ∧ KeyOf obj.curve s.key d) :=
  C02S.weak_only_with_key k O factory arts res hF hnd h bi v hv

end checks

end Paranoid.C08
