/-
Props/C08Chain.lean — the composed "sandwich" theorems for C08 (review finding F8).

Props/C08.lean proves three layers separately:
 PRE   the planted vector lies in the lattice `GetLattice(a, b, w, n, bias)` builds (for a GIVEN `w`),
 POST  a reduced basis containing (a unit multiple of) the planted row makes the solver report the key,
 CHECK a guess that is the issuer's private key flags every signature of that issuer.
This file composes them, for the call the checks really make (`w = None`), bias kind by bias kind:

  signatures `(r_i, s_i, z_i)` of ONE private key `d`, nonces `k_i` with the bias        (hypotheses)
    ⇒ the planted row — an explicit function of `d`, `k_i` and the default weight — is an integer
      combination of the rows of `GetLattice(a, b, None, n, bias)` and its entries obey the bound
      `2^(bit_length(n) − bias bits)·w` against `n·w` on the diagonal                       (PRE, proved)
    ⇒ IF the basis returned by `lll.reduce` contains ± that row                             (ORACLE)
    ⇒ `HiddenNumberProblem(a, b, None, n, bias)` returns a list containing `d`              (POST, proved)
    ⇒ with the check layer's solver oracle INSTANTIATED by the solver model, every signature of
      the batch with that curve and issuer key is marked weak with DISCRETE_LOG = format(d, "x")
                                                                                       (CHECK, proved)

WHAT REMAINS ORACLE.  Only the middle implication: "`lll.reduce` returns a basis one of whose rows is
± the planted row".  The Lovász / short-vector argument (that an LLL-reduced basis of this lattice
must contain the planted vector when `#signatures × bias bits ≥ 2·bit_length(n)`) is NOT formalised;
the correspondence run records, on the real code with planted bias of every kind, how often the
recorded LLL output contains ± the planted row when the key is found (`extra.chain_statistics`).

SECOND REVIEW (M1, M2) — read Props/C08ChainAny.lean for the statements to cite.
(M1) The `sigs_*` / `chain_*` theorems of THIS file put the natural number `d` in the key position
of the planted row.  fpylll returns that coordinate reduced to `(−n/2, n/2]`, i.e. `d − n` for every
key above `n/2`: for about half of all keys the hypothesis `hlll` below is FALSE on real runs that do
find the key (kernel witness on secp256r1: Props/C08ChainAnyEx.lean).  The theorems stay true; the
generalisations with ANY representative `x ≡ d (mod n)` (and the family `{d, d − n}` that occurs)
are `C08ChainAny.chain_*_any`, `chain_bias_post`, `chain_bias_family`.  The `sandwich_*` theorems
here already take any representative `x`.
(M2) The bias hypotheses `hbias` are used ONLY for the entry-bound conjunct of PRE; POST and CHECK do
not depend on them (`C08ChainAny.chain_bias_post` proves the verdict with no bias and no signing
relation), so every `chain_*` theorem below also holds for unbiased nonces — all of its content is
in the oracle hypothesis `hlll`.  What the bias buys is that the planted row is SHORT, which is what
an LLL guarantee would need; the statements that carry this in a form that is false without bias
(`ScaleShort`, margin `r·bl + 2M ≤ M·bits`) are in Props/C08ChainAny.lean.  Three bounds of this
file are weaker than the text suggests: COMMON_POSTFIX bounds the entries by `2^(bl − β)·w` with
`β = max(3, fb)` (what the default weight exploits), not by the number of common bits; the Cr50
theorems use `c < 256` only for the sign (no bound in the conclusion: `sandwich_cr50_short` adds
it); the LCG bound `∀ B, … → |e·w| < B·w` is a tautology (`sandwich_lcg_any` states it on the entries).

Vocabulary: `ent v i` entry `i` (0 outside); `lincomb dim cs rows = Σ cs_j • rows_j`;
`PMMem row basis` = `row ∈ basis ∨ −row ∈ basis`; `defaultW bias len fb` = the value of the
`if w is None:` block (`fb` = float oracle `int(n.bit_length()/len(a)*1.25)`, COMMON_POSTFIX only).
-/
import ParanoidModel.Proofs.C08Chain
import ParanoidModel.Proofs.C08ChainCheck
import ParanoidModel.Props.C08
import ParanoidModel.Props.C11Primes
namespace Paranoid.C08Chain
open Paranoid Paranoid.Hnp Paranoid.Ec Paranoid.EcdsaChecks

/-! ## 1. Integer-lattice level (`a`, `b` with `k_i ≡ a_i + b_i·x (mod n)`), `w = None` -/

/-- the planted row of the MSB / COMMON_PREFIX / COMMON_POSTFIX lattices:
`(n·w + 1, x, e_0·w, …, e_{m-1}·w)`. -/
def plantedRow (n : Nat) (w x : Int) (es : List Int) : List Int :=
  ((n : Int) * w + 1) :: x :: es.map (· * w)

/-- the planted row of the GENERALIZED lattice: `(mult, y, e_0·w, …)` with `y ≡ mult·x (mod n)`. -/
def plantedRowGen (w mult y : Int) (es : List Int) : List Int := mult :: y :: es.map (· * w)

/-- **MSB sandwich, `w = None`.**  `n` prime, `k_i ≡ a_i + b_i·x (mod n)` with `0 ≤ k_i <
2^(bit_length(n) − bits)` (the top `bits` bits are zero).  Then, with `w = defaultW .msb len(a)`:
the lattice is built; the planted row `(n·w+1, x, k_i·w)` is the integer combination
`1·row₀ + x·row₁ − Σ c_i·row_{i+2}` of its rows; its entries lie in `[0, 2^(bl−bits)·w)`; and for
EVERY answer `basis` of `lll.reduce` (rows with at least two entries) that contains ± the planted
row, `HiddenNumberProblem(a, b, None, n, MSB)` returns a list containing `x mod n`.
`x` is any integer representative of the key (`x = d`, or `d − n`: both rows are in the lattice). -/
theorem sandwich_msb (a b ks : List Int) (x : Int) (n fb bits : Nat) (hp : n.Prime)
    (hb : b.length = a.length) (hk : ks.length = a.length)
    (hrel : ∀ i, i < a.length → ent a i + ent b i * x ≡ ent ks i [ZMOD n])
    (hbias : ∀ k ∈ ks, 0 ≤ k ∧ k < 2 ^ (bitLength n - bits)) :
    ∃ lat cs,
      getLattice a b none n .msb fb = .ok lat ∧
      lincomb (a.length + 2) (1 :: x :: cs) lat =
        plantedRow n (defaultW .msb a.length fb) x ks ∧
      (∀ v ∈ ks.map (· * defaultW .msb a.length fb),
        0 ≤ v ∧ v < 2 ^ (bitLength n - bits) * defaultW .msb a.length fb) ∧
      ∀ basis : List (List Int), (∀ r ∈ basis, 2 ≤ r.length) →
        PMMem (plantedRow n (defaultW .msb a.length fb) x ks) basis →
        ∃ gs, hiddenNumberProblem a b none n .msb fb basis = .ok gs ∧
          (x % (n : Int)).toNat ∈ gs := by
  have hG : GenRel a b n 1 x 0 ks (quotients a b n 1 x 0 ks) := by
    apply genRel_of_modEq a b ks n 1 x 0 hb hk
    intro i hi
    have := hrel i hi
    have e1 : 1 * ent a i + x * ent b i = ent a i + ent b i * x := by ring
    rw [e1, zero_add]; exact this
  have hne : a.length ≠ 0 ∨ Bias.msb ≠ Bias.commonPostfix := Or.inr (by decide)
  have hlat : getLattice a b none n .msb fb =
      .ok (hnpRows a b (defaultW .msb a.length fb) n (n * defaultW .msb a.length fb + 1) false) := by
    rw [getLattice_none a b n .msb fb hne, getLattice_some a b _ n .msb fb hb]; rfl
  refine ⟨_, (quotients a b n 1 x 0 ks).map (fun c => -c), hlat,
    msb_pre_rows a b ks _ _ n x hG,
    entries_bound ks _ _ (defaultW_pos _ _ _) hbias, ?_⟩
  intro basis hrows hin
  exact post_pm a b none n .msb fb basis _ x _ _ _ hp hlat hrows (nw1_modEq n _ x)
    (not_dvd_nw1 n hp _) hin

/-- **COMMON_PREFIX sandwich, `w = None`.**  `k_i ≡ a_i + b_i·x`, `k_i = top + e_i` with
`|e_i| < 2^(bit_length(n) − bits)` (the nonces share the part above the low `bl − bits` bits; `top`
is any common offset — LLL returns the row centred, `e_i` of both signs, which is why the
hypothesis is on `|e_i|`).  Planted row `(n·w+1, x, e_i·w)`, `w = defaultW .commonPrefix len(a)`. -/
theorem sandwich_prefix (a b es : List Int) (x top : Int) (n fb bits : Nat) (hp : n.Prime)
    (hb : b.length = a.length) (hk : es.length = a.length)
    (hrel : ∀ i, i < a.length → ent a i + ent b i * x ≡ top + ent es i [ZMOD n])
    (hbias : ∀ e ∈ es, |e| < 2 ^ (bitLength n - bits)) :
    ∃ lat cs,
      getLattice a b none n .commonPrefix fb = .ok lat ∧
      lincomb (a.length + 2) (1 :: x :: cs) lat =
        plantedRow n (defaultW .commonPrefix a.length fb) x es ∧
      (∀ v ∈ es.map (· * defaultW .commonPrefix a.length fb),
        |v| < 2 ^ (bitLength n - bits) * defaultW .commonPrefix a.length fb) ∧
      ∀ basis : List (List Int), (∀ r ∈ basis, 2 ≤ r.length) →
        PMMem (plantedRow n (defaultW .commonPrefix a.length fb) x es) basis →
        ∃ gs, hiddenNumberProblem a b none n .commonPrefix fb basis = .ok gs ∧
          (x % (n : Int)).toNat ∈ gs := by
  have hG : GenRel a b n 1 x top es (quotients a b n 1 x top es) := by
    apply genRel_of_modEq a b es n 1 x top hb hk
    intro i hi
    have := hrel i hi
    have e1 : 1 * ent a i + x * ent b i = ent a i + ent b i * x := by ring
    rw [e1]; exact this
  have hne : a.length ≠ 0 ∨ Bias.commonPrefix ≠ Bias.commonPostfix := Or.inr (by decide)
  have hlat : getLattice a b none n .commonPrefix fb =
      .ok (hnpRows a b (defaultW .commonPrefix a.length fb) n
        (n * defaultW .commonPrefix a.length fb + 1) true) := by
    rw [getLattice_none a b n .commonPrefix fb hne, getLattice_some a b _ n .commonPrefix fb hb]; rfl
  have hpre := gen_pre_rows a b es _ (defaultW .commonPrefix a.length fb) n
    (n * defaultW .commonPrefix a.length fb + 1) 1 x top hG
  rw [one_mul] at hpre
  refine ⟨_, prefixCoeffs top n (quotients a b n 1 x top es), hlat, hpre,
    target_bound es _ _ (defaultW_pos _ _ _) hbias, ?_⟩
  intro basis hrows hin
  exact post_pm a b none n .commonPrefix fb basis _ x _ _ _ hp hlat hrows (nw1_modEq n _ x)
    (not_dvd_nw1 n hp _) hin

/-- **GENERALIZED sandwich, `w = None`.**  A secret multiplier `mult` (`n ∤ mult`) with
`mult·(a_i + b_i·x) ≡ top + e_i (mod n)`, `|e_i| < 2^(bl − bits)`; `y` ANY representative of
`mult·x` modulo `n` (LLL returns a reduced one).  Planted row `(mult, y, e_i·w)`,
`w = defaultW .generalized len(a)`. -/
theorem sandwich_generalized (a b es : List Int) (x mult y top : Int) (n fb bits : Nat)
    (hp : n.Prime) (hb : b.length = a.length) (hk : es.length = a.length)
    (hm : ¬ (n : Int) ∣ mult) (hy : y ≡ mult * x [ZMOD n])
    (hrel : ∀ i, i < a.length → mult * (ent a i + ent b i * x) ≡ top + ent es i [ZMOD n])
    (hbias : ∀ e ∈ es, |e| < 2 ^ (bitLength n - bits)) :
    ∃ lat cs,
      getLattice a b none n .generalized fb = .ok lat ∧
      lincomb (a.length + 2) (mult :: y :: cs) lat =
        plantedRowGen (defaultW .generalized a.length fb) mult y es ∧
      (∀ v ∈ es.map (· * defaultW .generalized a.length fb),
        |v| < 2 ^ (bitLength n - bits) * defaultW .generalized a.length fb) ∧
      ∀ basis : List (List Int), (∀ r ∈ basis, 2 ≤ r.length) →
        PMMem (plantedRowGen (defaultW .generalized a.length fb) mult y es) basis →
        ∃ gs, hiddenNumberProblem a b none n .generalized fb basis = .ok gs ∧
          (x % (n : Int)).toNat ∈ gs := by
  have hG : GenRel a b n mult y top es (quotients a b n mult y top es) := by
    apply genRel_of_modEq a b es n mult y top hb hk
    intro i hi
    have h1 := hrel i hi
    have h2 : mult * ent a i + y * ent b i ≡ mult * (ent a i + ent b i * x) [ZMOD n] := by
      have := (hy.mul_right (ent b i)).add_left (mult * ent a i)
      have e : mult * ent a i + mult * x * ent b i = mult * (ent a i + ent b i * x) := by ring
      rwa [e] at this
    exact h2.trans h1
  have hne : a.length ≠ 0 ∨ Bias.generalized ≠ Bias.commonPostfix := Or.inr (by decide)
  have hlat : getLattice a b none n .generalized fb =
      .ok (hnpRows a b (defaultW .generalized a.length fb) n 1 true) := by
    rw [getLattice_none a b n .generalized fb hne, getLattice_some a b _ n .generalized fb hb]; rfl
  have hpre := gen_pre_rows a b es _ (defaultW .generalized a.length fb) n 1 mult y top hG
  rw [mul_one] at hpre
  refine ⟨_, prefixCoeffs top n (quotients a b n mult y top es), hlat, hpre,
    target_bound es _ _ (defaultW_pos _ _ _) hbias, ?_⟩
  intro basis hrows hin
  exact post_pm a b none n .generalized fb basis _ x _ _ _ hp hlat hrows hy hm hin

/-- **COMMON_POSTFIX sandwich, `w = None`.**  `n` an odd prime, a non-empty window,
`k_i ≡ a_i + b_i·x`, and `k_i = low + 2^β·h_i` with `|h_i| < 2^(bl − β)` where `2^β`,
`β = max(3, fb)`, is the DEFAULT weight (`fb` = float oracle `int(n.bit_length()/len(a)*1.25)`).
Nonces that agree on their low `bits ≥ β` bits have this shape for every centre `c`
(`postfix_common_low_bits`: `h_i = k_i div 2^β − c`; LLL returns the row centred).  Only `β` of the
`bits` common bits are exploited by the default weight; `bits ≥ 16` and `len(a)·bits ≥ 2·bl` imply
`β ≤ bits`.  The code multiplies `a`, `b` by `w⁻¹ mod n` and builds the prefix lattice; the planted
row is `(n·w+1, x, h_i·w)`, `w = 2^β`. -/
theorem sandwich_postfix (a b ks hs : List Int) (x low : Int) (n fb : Nat) (hp : n.Prime)
    (h2 : n ≠ 2) (hne : a ≠ []) (hb : b.length = a.length) (hk : ks.length = a.length)
    (hh : hs.length = a.length)
    (hrel : ∀ i, i < a.length → ent a i + ent b i * x ≡ ent ks i [ZMOD n])
    (hsuf : ∀ i, i < a.length → ent ks i = low + 2 ^ (max 3 fb) * ent hs i)
    (hbias : ∀ h ∈ hs, |h| < 2 ^ (bitLength n - max 3 fb)) :
    ∃ lat cs,
      getLattice a b none n .commonPostfix fb = .ok lat ∧
      lincomb (a.length + 2) (1 :: x :: cs) lat =
        plantedRow n (defaultW .commonPostfix a.length fb) x hs ∧
      (∀ v ∈ hs.map (· * defaultW .commonPostfix a.length fb),
        |v| < 2 ^ (bitLength n - max 3 fb) * defaultW .commonPostfix a.length fb) ∧
      ∀ basis : List (List Int), (∀ r ∈ basis, 2 ≤ r.length) →
        PMMem (plantedRow n (defaultW .commonPostfix a.length fb) x hs) basis →
        ∃ gs, hiddenNumberProblem a b none n .commonPostfix fb basis = .ok gs ∧
          (x % (n : Int)).toNat ∈ gs := by
  have hw : defaultW .commonPostfix a.length fb = 2 ^ (max 3 fb) := rfl
  have hG : GenRel a b n 1 x 0 ks (quotients a b n 1 x 0 ks) := by
    apply genRel_of_modEq a b ks n 1 x 0 hb hk
    intro i hi
    have := hrel i hi
    have e1 : 1 * ent a i + x * ent b i = ent a i + ent b i * x := by ring
    rw [e1, zero_add]; exact this
  have hR : HnpRel a b x n 1 0 ks (quotients a b n 1 x 0 ks) := by
    apply hnpRel_of_genRel; simpa using hG
  have hlen0 : a.length ≠ 0 := by
    intro h; exact hne (List.length_eq_zero_iff.mp h)
  obtain ⟨wi, rows, _, hlat', hpre⟩ := C08.hnp_pre_postfix a b ks _ hs x
    (2 ^ (max 3 fb)) low n fb hp.pos (gcd_two_pow n hp h2 _) hR hh hsuf
  have hlat : getLattice a b none n .commonPostfix fb = .ok rows := by
    rw [getLattice_none a b n .commonPostfix fb (Or.inl hlen0), hw]; exact hlat'
  refine ⟨rows, _, hlat, by rw [hw]; exact hpre, ?_, ?_⟩
  · rw [hw]
    exact target_bound hs _ _ (by positivity) hbias
  · intro basis hrows hin
    exact post_pm a b none n .commonPostfix fb basis _ x _ _ _ hp hlat hrows (nw1_modEq n _ x)
      (not_dvd_nw1 n hp _) hin

/-- nonces in `[0, 2^bl)` that agree on their low `bits` bits (`β ≤ bits ≤ bl`) are
`k = (lb mod 2^β + 2^β·c) + 2^β·(k div 2^β − c)` with `|k div 2^β − c| < 2^(bl − β)` for every
centre `0 ≤ c < 2^(bl − β)`: the hypotheses `hsuf`, `hbias` of the COMMON_POSTFIX theorems. -/
theorem postfix_common_low_bits (k lb c : Int) (bl bits β : Nat) (hβ : β ≤ bits) (hbl : bits ≤ bl)
    (h0 : 0 ≤ k) (h1 : k < 2 ^ bl) (hk : k % 2 ^ bits = lb) (hc0 : 0 ≤ c) (hc1 : c < 2 ^ (bl - β)) :
    k = (lb % 2 ^ β + 2 ^ β * c) + 2 ^ β * (k / 2 ^ β - c) ∧ |k / 2 ^ β - c| < 2 ^ (bl - β) := by
  have hd := postfix_decomp k lb bits β hβ hk
  obtain ⟨q0, q1⟩ := postfix_high_bound k bl β h0 h1 (le_trans hβ hbl)
  refine ⟨by linarith, ?_⟩
  rw [abs_lt]; constructor <;> linarith

/-! ## 2. Signature level: `(r_i, s_i, z_i)` signed with ONE key `d`, solver called as the checks do

`vals` = the issuer's (window of) `unique_vals`; `nonce v` = the nonce used for `v = (r, s, z)`;
`SignedWith n d v k` = `s·k ≡ z + r·d (mod n)`.  `A ab`, `B ab` = the lists `a`, `b` the check
hands to `HiddenNumberProblem` (`HiddenNumberParams` of every value, `hnpParamsList`). -/

/-- the argument `a` (resp. `b`) of the solver call for a prepared parameter list. -/
abbrev argA (ab : List (Nat × Nat)) : List Int := natsToInts (ab.map Prod.fst)
abbrev argB (ab : List (Nat × Nat)) : List Int := natsToInts (ab.map Prod.snd)

/-- **MSB, signatures.**  `n` prime, `d < n`, every `s` invertible, every value signed with `d`
and a nonce `0 ≤ k < 2^(bl − bits)`: `HiddenNumberParams` succeeds on every value, the planted row
`(n·w+1, d, k_i·w)` (`w = defaultW .msb len`) is in the lattice of the call
`HiddenNumberProblem(a, b, None, n, MSB)` with entries in `[0, 2^(bl−bits)·w)`, and every LLL answer
containing ± that row makes the call return a list containing `d`. -/
theorem sigs_msb (n : Nat) (hp : n.Prime) (d : Nat) (hd : d < n) (vals : List Triple)
    (nonce : Triple → Int) (bits fb : Nat)
    (hs : ∀ v ∈ vals, Int.gcd (v.2.1 : Int) n = 1)
    (hsig : ∀ v ∈ vals, SignedWith n d v (nonce v))
    (hbias : ∀ v ∈ vals, 0 ≤ nonce v ∧ nonce v < 2 ^ (bitLength n - bits)) :
    ∃ ab, hnpParamsList n vals = .ok ab ∧ ∃ lat cs,
      getLattice (argA ab) (argB ab) none n .msb fb = .ok lat ∧
      lincomb (vals.length + 2) (1 :: (d : Int) :: cs) lat =
        plantedRow n (defaultW .msb vals.length fb) d (vals.map nonce) ∧
      (∀ v ∈ (vals.map nonce).map (· * defaultW .msb vals.length fb),
        0 ≤ v ∧ v < 2 ^ (bitLength n - bits) * defaultW .msb vals.length fb) ∧
      ∀ basis : List (List Int), (∀ r ∈ basis, 2 ≤ r.length) →
        PMMem (plantedRow n (defaultW .msb vals.length fb) d (vals.map nonce)) basis →
        ∃ gs, hiddenNumberProblem (argA ab) (argB ab) none n .msb fb basis = .ok gs ∧ d ∈ gs := by
  obtain ⟨ab, hab⟩ := hnpParamsList_total n hp.two_le vals hs
  have hF := (hnpParamsList_ok n vals ab).mp hab
  obtain ⟨hl, hb, hk, hrel⟩ := sig_rel n hp.two_le d nonce vals ab hF hsig
  obtain ⟨lat, cs, h1, h2, h3, h4⟩ := sandwich_msb (argA ab) (argB ab) (vals.map nonce) d n fb bits
    hp hb hk hrel (by
      intro k hk'
      obtain ⟨v, hv, rfl⟩ := List.mem_map.mp hk'
      exact hbias v hv)
  rw [hl] at h2 h3 h4
  refine ⟨ab, hab, lat, cs, h1, h2, h3, fun basis hr hin => ?_⟩
  obtain ⟨gs, hg1, hg2⟩ := h4 basis hr hin
  refine ⟨gs, hg1, ?_⟩
  rwa [Int.emod_eq_of_lt (by omega) (by exact_mod_cast hd), Int.toNat_natCast] at hg2

/-- **COMMON_PREFIX, signatures.**  Nonces `k = top + e(v)`, `|e(v)| < 2^(bl − bits)`; planted
row `(n·w+1, d, e_i·w)`. -/
theorem sigs_prefix (n : Nat) (hp : n.Prime) (d : Nat) (hd : d < n) (vals : List Triple)
    (top : Int) (e : Triple → Int) (bits fb : Nat)
    (hs : ∀ v ∈ vals, Int.gcd (v.2.1 : Int) n = 1)
    (hsig : ∀ v ∈ vals, SignedWith n d v (top + e v))
    (hbias : ∀ v ∈ vals, |e v| < 2 ^ (bitLength n - bits)) :
    ∃ ab, hnpParamsList n vals = .ok ab ∧ ∃ lat cs,
      getLattice (argA ab) (argB ab) none n .commonPrefix fb = .ok lat ∧
      lincomb (vals.length + 2) (1 :: (d : Int) :: cs) lat =
        plantedRow n (defaultW .commonPrefix vals.length fb) d (vals.map e) ∧
      (∀ v ∈ (vals.map e).map (· * defaultW .commonPrefix vals.length fb),
        |v| < 2 ^ (bitLength n - bits) * defaultW .commonPrefix vals.length fb) ∧
      ∀ basis : List (List Int), (∀ r ∈ basis, 2 ≤ r.length) →
        PMMem (plantedRow n (defaultW .commonPrefix vals.length fb) d (vals.map e)) basis →
        ∃ gs, hiddenNumberProblem (argA ab) (argB ab) none n .commonPrefix fb basis = .ok gs ∧
          d ∈ gs := by
  obtain ⟨ab, hab⟩ := hnpParamsList_total n hp.two_le vals hs
  have hF := (hnpParamsList_ok n vals ab).mp hab
  obtain ⟨hl, hb, hk, hrel⟩ := sig_rel n hp.two_le d (fun v => top + e v) vals ab hF hsig
  obtain ⟨lat, cs, h1, h2, h3, h4⟩ := sandwich_prefix (argA ab) (argB ab) (vals.map e) d top n fb
    bits hp hb (by simpa using hk) (by
      intro i hi
      have := hrel i hi
      rw [hl] at hi
      rwa [ent_map_fn vals _ i hi, ← ent_map_fn vals e i hi] at this) (by
      intro k hk'
      obtain ⟨v, hv, rfl⟩ := List.mem_map.mp hk'
      exact hbias v hv)
  rw [hl] at h2 h3 h4
  refine ⟨ab, hab, lat, cs, h1, h2, h3, fun basis hr hin => ?_⟩
  obtain ⟨gs, hg1, hg2⟩ := h4 basis hr hin
  refine ⟨gs, hg1, ?_⟩
  rwa [Int.emod_eq_of_lt (by omega) (by exact_mod_cast hd), Int.toNat_natCast] at hg2

/-- **COMMON_POSTFIX, signatures.**  `n` an odd prime, at least one value, nonces
`low + 2^β·hi(v)` with `|hi(v)| < 2^(bl − β)`, `β = max(3, fb)` for the float oracle `fb` of this
window; planted row `(n·w+1, d, hi_i·w)`, `w = 2^β`. -/
theorem sigs_postfix (n : Nat) (hp : n.Prime) (h2 : n ≠ 2) (d : Nat) (hd : d < n)
    (vals : List Triple) (hne : vals ≠ []) (low : Int) (hi : Triple → Int) (fb : Nat)
    (hs : ∀ v ∈ vals, Int.gcd (v.2.1 : Int) n = 1)
    (hsig : ∀ v ∈ vals, SignedWith n d v (low + 2 ^ (max 3 fb) * hi v))
    (hbias : ∀ v ∈ vals, |hi v| < 2 ^ (bitLength n - max 3 fb)) :
    ∃ ab, hnpParamsList n vals = .ok ab ∧ ∃ lat cs,
      getLattice (argA ab) (argB ab) none n .commonPostfix fb = .ok lat ∧
      lincomb (vals.length + 2) (1 :: (d : Int) :: cs) lat =
        plantedRow n (defaultW .commonPostfix vals.length fb) d (vals.map hi) ∧
      (∀ v ∈ (vals.map hi).map (· * defaultW .commonPostfix vals.length fb),
        |v| < 2 ^ (bitLength n - max 3 fb) * defaultW .commonPostfix vals.length fb) ∧
      ∀ basis : List (List Int), (∀ r ∈ basis, 2 ≤ r.length) →
        PMMem (plantedRow n (defaultW .commonPostfix vals.length fb) d (vals.map hi)) basis →
        ∃ gs, hiddenNumberProblem (argA ab) (argB ab) none n .commonPostfix fb basis = .ok gs ∧
          d ∈ gs := by
  obtain ⟨ab, hab⟩ := hnpParamsList_total n hp.two_le vals hs
  have hF := (hnpParamsList_ok n vals ab).mp hab
  obtain ⟨hl, hb, hk, hrel⟩ := sig_rel n hp.two_le d (fun v => low + 2 ^ (max 3 fb) * hi v) vals ab
    hF hsig
  have hane : argA ab ≠ [] := by
    intro h0
    have : vals.length = 0 := by
      rw [← hl]; show (argA ab).length = 0; rw [h0]; rfl
    exact hne (List.length_eq_zero_iff.mp this)
  obtain ⟨lat, cs, h1, h2', h3, h4⟩ := sandwich_postfix (argA ab) (argB ab)
    (vals.map (fun v => low + 2 ^ (max 3 fb) * hi v)) (vals.map hi) d low n
    fb hp h2 hane hb hk (by simp [hl]) hrel
    (fun i hi' => by
      rw [hl] at hi'
      rw [ent_map_fn vals _ i hi', ent_map_fn vals hi i hi'])
    (fun h hh => by obtain ⟨v, hv, rfl⟩ := List.mem_map.mp hh; exact hbias v hv)
  rw [hl] at h2' h3 h4
  refine ⟨ab, hab, lat, cs, h1, h2', h3, fun basis hr hin => ?_⟩
  obtain ⟨gs, hg1, hg2⟩ := h4 basis hr hin
  refine ⟨gs, hg1, ?_⟩
  rwa [Int.emod_eq_of_lt (by omega) (by exact_mod_cast hd), Int.toNat_natCast] at hg2

/-- **GENERALIZED, signatures.**  A secret multiplier `mult` (`n ∤ mult`) such that
`mult·k ≡ top + e(v) (mod n)` for the nonce `k` of every value, `|e(v)| < 2^(bl − bits)`; `y` any
representative of `mult·d`; planted row `(mult, y, e_i·w)`, `w = defaultW .generalized len`. -/
theorem sigs_generalized (n : Nat) (hp : n.Prime) (d : Nat) (hd : d < n) (vals : List Triple)
    (nonce : Triple → Int) (mult y top : Int) (e : Triple → Int) (bits fb : Nat)
    (hm : ¬ (n : Int) ∣ mult) (hy : y ≡ mult * d [ZMOD n])
    (hs : ∀ v ∈ vals, Int.gcd (v.2.1 : Int) n = 1)
    (hsig : ∀ v ∈ vals, SignedWith n d v (nonce v))
    (hmul : ∀ v ∈ vals, mult * nonce v ≡ top + e v [ZMOD n])
    (hbias : ∀ v ∈ vals, |e v| < 2 ^ (bitLength n - bits)) :
    ∃ ab, hnpParamsList n vals = .ok ab ∧ ∃ lat cs,
      getLattice (argA ab) (argB ab) none n .generalized fb = .ok lat ∧
      lincomb (vals.length + 2) (mult :: y :: cs) lat =
        plantedRowGen (defaultW .generalized vals.length fb) mult y (vals.map e) ∧
      (∀ v ∈ (vals.map e).map (· * defaultW .generalized vals.length fb),
        |v| < 2 ^ (bitLength n - bits) * defaultW .generalized vals.length fb) ∧
      ∀ basis : List (List Int), (∀ r ∈ basis, 2 ≤ r.length) →
        PMMem (plantedRowGen (defaultW .generalized vals.length fb) mult y (vals.map e)) basis →
        ∃ gs, hiddenNumberProblem (argA ab) (argB ab) none n .generalized fb basis = .ok gs ∧
          d ∈ gs := by
  obtain ⟨ab, hab⟩ := hnpParamsList_total n hp.two_le vals hs
  have hF := (hnpParamsList_ok n vals ab).mp hab
  obtain ⟨hl, hb, hk, hrel⟩ := sig_rel n hp.two_le d nonce vals ab hF hsig
  obtain ⟨lat, cs, h1, h2, h3, h4⟩ := sandwich_generalized (argA ab) (argB ab) (vals.map e) d mult y
    top n fb bits hp hb (by simpa using hk) hm hy (by
      intro i hi
      have h0 := (hrel i hi).mul_left mult
      rw [hl] at hi
      rw [ent_map_fn vals _ i hi] at h0
      rw [ent_map_fn vals e i hi]
      exact h0.trans (hmul _ (List.getElem_mem hi))) (by
      intro k hk'
      obtain ⟨v, hv, rfl⟩ := List.mem_map.mp hk'
      exact hbias v hv)
  rw [hl] at h2 h3 h4
  refine ⟨ab, hab, lat, cs, h1, h2, h3, fun basis hr hin => ?_⟩
  obtain ⟨gs, hg1, hg2⟩ := h4 basis hr hin
  refine ⟨gs, hg1, ?_⟩
  rwa [Int.emod_eq_of_lt (by omega) (by exact_mod_cast hd), Int.toNat_natCast] at hg2

/-! ## 3. Check level: the solver oracle of `BiasedBaseCheck.Check` instantiated by the solver model

`Setting k O factory arts res cid obj key d env lll` (Proofs/C08ChainCheck.lean) bundles: valid
reduced curve objects with distinct ids; `list(guesses)` consistent; the call returned `res`;
`n` prime and the order of `G`; `key` reduced with private key `d < n`; and `SolvedGroup`: every
recorded solver answer of the curve group `cid` has exactly the elements the solver MODEL returns on
the recorded `lll.reduce` answers `lll j kk` (evaluable: `solvedGroupB`, `solvedGroup_of_B`).

In each theorem `j` is the position of an issuer in the group's dict, `(O cid).uniq j` its
`unique_vals` (all signed with `d`, all biased), `win` the `kk`-th window the check cuts
(`window_single`: at most 24 values ⇒ one window with all of them), `lll j kk 0` the answer of the
one `lll.reduce` call made for it.  Conclusion: EVERY signature of the batch with curve `cid` and
key tuple `key` is marked weak with DISCRETE_LOG = `format(d, "x")` (`posVerdict d`). -/

/-- **chain, CheckNonceMSB.** -/
theorem chain_msb {O : Nat → GroupOracle} {factory : Factory} {arts : List Sig} {res : CheckResult}
    {cid : Nat} {obj : CurveObj} {key : Key} {d : Nat} {env : SolverEnv}
    {lll : Nat → Nat → LllAnswers}
    (S : Setting (.biased (.bias 1)) O factory arts res cid obj key d env lll)
    (j : Nat) (hj : j < (mapIssuerSigIndexes ((groupFrom cid 0 arts).map Prod.snd)).length)
    (nonce : Triple → Int) (bits : Nat)
    (hsig : ∀ v ∈ (O cid).uniq j, SignedWith obj.curve.n d v (nonce v))
    (hbias : ∀ v ∈ (O cid).uniq j, 0 ≤ nonce v ∧ nonce v < 2 ^ (bitLength obj.curve.n - bits))
    (kk : Nat) (win : List Triple) (hwin : (sizeLoop windowSizes ((O cid).uniq j))[kk]? = some win)
    (hrows : ∀ r ∈ lll j kk 0, 2 ≤ r.length)
    (hlll : PMMem (plantedRow obj.curve.n (defaultW .msb win.length 0) d (win.map nonce))
      (lll j kk 0)) :
    ∀ bi s, arts[bi]? = some s → s.curve = cid → s.key = key →
      verdictOf res.writes bi = some (posVerdict d) := by
  have hsub := (window_subset _ win (List.mem_of_getElem? hwin)).1
  apply chain_hnp 1 .msb rfl O factory arts res S.factoryOK S.factoryReduced S.nodup
    S.guessConsistent S.checked cid obj S.hobj S.gOrder key S.keyReduced d S.dLt S.keyOf env S.envN
    lll S.solved j hj kk win hwin
  intro wab hwab
  obtain ⟨ab, hab, _, _, _, _, _, h4⟩ := sigs_msb obj.curve.n S.nPrime d S.dLt win nonce bits
    (env.fbOf obj.curve.n win.length)
    (gcd_of_paramsList _ S.nPrime.two_le win wab hwab)
    (fun v hv => hsig v (hsub v hv)) (fun v hv => hbias v (hsub v hv))
  rw [hwab] at hab; cases hab
  exact h4 _ hrows hlll

/-- **chain, CheckNonceCommonPrefix.**  Nonces `top + e(v)`, `|e(v)| < 2^(bl − bits)`. -/
theorem chain_prefix {O : Nat → GroupOracle} {factory : Factory} {arts : List Sig}
    {res : CheckResult} {cid : Nat} {obj : CurveObj} {key : Key} {d : Nat} {env : SolverEnv}
    {lll : Nat → Nat → LllAnswers}
    (S : Setting (.biased (.bias 2)) O factory arts res cid obj key d env lll)
    (j : Nat) (hj : j < (mapIssuerSigIndexes ((groupFrom cid 0 arts).map Prod.snd)).length)
    (top : Int) (e : Triple → Int) (bits : Nat)
    (hsig : ∀ v ∈ (O cid).uniq j, SignedWith obj.curve.n d v (top + e v))
    (hbias : ∀ v ∈ (O cid).uniq j, |e v| < 2 ^ (bitLength obj.curve.n - bits))
    (kk : Nat) (win : List Triple) (hwin : (sizeLoop windowSizes ((O cid).uniq j))[kk]? = some win)
    (hrows : ∀ r ∈ lll j kk 0, 2 ≤ r.length)
    (hlll : PMMem (plantedRow obj.curve.n (defaultW .commonPrefix win.length 0) d (win.map e))
      (lll j kk 0)) :
    ∀ bi s, arts[bi]? = some s → s.curve = cid → s.key = key →
      verdictOf res.writes bi = some (posVerdict d) := by
  have hsub := (window_subset _ win (List.mem_of_getElem? hwin)).1
  apply chain_hnp 2 .commonPrefix rfl O factory arts res S.factoryOK S.factoryReduced S.nodup
    S.guessConsistent S.checked cid obj S.hobj S.gOrder key S.keyReduced d S.dLt S.keyOf env S.envN
    lll S.solved j hj kk win hwin
  intro wab hwab
  obtain ⟨ab, hab, _, _, _, _, _, h4⟩ := sigs_prefix obj.curve.n S.nPrime d S.dLt win top e bits
    (env.fbOf obj.curve.n win.length)
    (gcd_of_paramsList _ S.nPrime.two_le win wab hwab)
    (fun v hv => hsig v (hsub v hv)) (fun v hv => hbias v (hsub v hv))
  rw [hwab] at hab; cases hab
  exact h4 _ hrows hlll

/-- **chain, CheckNonceCommonPostfix.**  `n ≠ 2`; nonces `low + 2^β·hi(v)`, `|hi(v)| < 2^(bl − β)`,
`β = max(3, fb)` where `fb = env.fbOf n len(win)` is the float oracle of this window (nonces agreeing
on `bits ≥ β` low bits: `postfix_common_low_bits`). -/
theorem chain_postfix {O : Nat → GroupOracle} {factory : Factory} {arts : List Sig}
    {res : CheckResult} {cid : Nat} {obj : CurveObj} {key : Key} {d : Nat} {env : SolverEnv}
    {lll : Nat → Nat → LllAnswers}
    (S : Setting (.biased (.bias 3)) O factory arts res cid obj key d env lll)
    (h2 : obj.curve.n ≠ 2)
    (j : Nat) (hj : j < (mapIssuerSigIndexes ((groupFrom cid 0 arts).map Prod.snd)).length)
    (kk : Nat) (win : List Triple) (hwin : (sizeLoop windowSizes ((O cid).uniq j))[kk]? = some win)
    (low : Int) (hi : Triple → Int)
    (hsig : ∀ v ∈ (O cid).uniq j, SignedWith obj.curve.n d v
      (low + 2 ^ (max 3 (env.fbOf obj.curve.n win.length)) * hi v))
    (hbias : ∀ v ∈ (O cid).uniq j,
      |hi v| < 2 ^ (bitLength obj.curve.n - max 3 (env.fbOf obj.curve.n win.length)))
    (hrows : ∀ r ∈ lll j kk 0, 2 ≤ r.length)
    (hlll : PMMem (plantedRow obj.curve.n
        (defaultW .commonPostfix win.length (env.fbOf obj.curve.n win.length)) d (win.map hi))
      (lll j kk 0)) :
    ∀ bi s, arts[bi]? = some s → s.curve = cid → s.key = key →
      verdictOf res.writes bi = some (posVerdict d) := by
  obtain ⟨hsub, hne⟩ := window_subset _ win (List.mem_of_getElem? hwin)
  apply chain_hnp 3 .commonPostfix rfl O factory arts res S.factoryOK S.factoryReduced S.nodup
    S.guessConsistent S.checked cid obj S.hobj S.gOrder key S.keyReduced d S.dLt S.keyOf env S.envN
    lll S.solved j hj kk win hwin
  intro wab hwab
  obtain ⟨ab, hab, _, _, _, _, _, h4⟩ := sigs_postfix obj.curve.n S.nPrime h2 d S.dLt win hne low hi
    (env.fbOf obj.curve.n win.length)
    (gcd_of_paramsList _ S.nPrime.two_le win wab hwab)
    (fun v hv => hsig v (hsub v hv)) (fun v hv => hbias v (hsub v hv))
  rw [hwab] at hab; cases hab
  exact h4 _ hrows hlll

/-- **chain, CheckNonceGeneralized.**  A secret multiplier `mult` (`n ∤ mult`) with
`mult·k ≡ top + e(v) (mod n)`, `|e(v)| < 2^(bl − bits)`; `y ≡ mult·d`. -/
theorem chain_generalized {O : Nat → GroupOracle} {factory : Factory} {arts : List Sig}
    {res : CheckResult} {cid : Nat} {obj : CurveObj} {key : Key} {d : Nat} {env : SolverEnv}
    {lll : Nat → Nat → LllAnswers}
    (S : Setting (.biased (.bias 4)) O factory arts res cid obj key d env lll)
    (j : Nat) (hj : j < (mapIssuerSigIndexes ((groupFrom cid 0 arts).map Prod.snd)).length)
    (nonce : Triple → Int) (mult y top : Int) (e : Triple → Int) (bits : Nat)
    (hm : ¬ (obj.curve.n : Int) ∣ mult) (hy : y ≡ mult * d [ZMOD obj.curve.n])
    (hsig : ∀ v ∈ (O cid).uniq j, SignedWith obj.curve.n d v (nonce v))
    (hmul : ∀ v ∈ (O cid).uniq j, mult * nonce v ≡ top + e v [ZMOD obj.curve.n])
    (hbias : ∀ v ∈ (O cid).uniq j, |e v| < 2 ^ (bitLength obj.curve.n - bits))
    (kk : Nat) (win : List Triple) (hwin : (sizeLoop windowSizes ((O cid).uniq j))[kk]? = some win)
    (hrows : ∀ r ∈ lll j kk 0, 2 ≤ r.length)
    (hlll : PMMem (plantedRowGen (defaultW .generalized win.length 0) mult y (win.map e))
      (lll j kk 0)) :
    ∀ bi s, arts[bi]? = some s → s.curve = cid → s.key = key →
      verdictOf res.writes bi = some (posVerdict d) := by
  have hsub := (window_subset _ win (List.mem_of_getElem? hwin)).1
  apply chain_hnp 4 .generalized rfl O factory arts res S.factoryOK S.factoryReduced S.nodup
    S.guessConsistent S.checked cid obj S.hobj S.gOrder key S.keyReduced d S.dLt S.keyOf env S.envN
    lll S.solved j hj kk win hwin
  intro wab hwab
  obtain ⟨ab, hab, _, _, _, _, _, h4⟩ := sigs_generalized obj.curve.n S.nPrime d S.dLt win nonce
    mult y top e bits (env.fbOf obj.curve.n win.length) hm hy
    (gcd_of_paramsList _ S.nPrime.two_le win wab hwab)
    (fun v hv => hsig v (hsub v hv)) (fun v hv => hmul v (hsub v hv))
    (fun v hv => hbias v (hsub v hv))
  rw [hwab] at hab; cases hab
  exact h4 _ hrows hlll

/-! ## 4. The Cr50 U2F check (two signatures) -/

/-- the planted row of the Cr50 lattice: the base-256 digits of the two nonces (one digit per
32-bit word, every byte of a word equal), then `−256, 0`. -/
def plantedRowCr50 (c1 c2 : List Int) : List Int := c1 ++ (c2 ++ [-256, 0])

/-- **Cr50 sandwich.**  `n` prime with bit length a multiple of 32, `d < n`, two values signed with
`d` and nonces `k_i = Σ_j c^i_j·0x01010101·2^(32j)` (digits `0 ≤ c^i_j < 256`, one per word),
`n ∤ r_1, r_2`.  PRE: the row `(c¹, c², −256, 0)` is an explicit integer combination of the rows of
the lattice `Cr50U2fGuesses` builds (entries: the digits and 256, against `n` in the last row).
POST: every `lll.reduce` answer containing ± that row makes `Cr50U2fGuesses(r1,s1,z1,r2,s2,z2,n)`
return a list containing `d`. -/
theorem sandwich_cr50 (n : Nat) (hp : n.Prime) (hbl : bitLength n % 32 = 0) (d : Nat) (hd : d < n)
    (v1 v2 : Triple) (c1 c2 : List Int)
    (h1 : c1.length = (cr50Basis (bitLength n)).length)
    (h2 : c2.length = (cr50Basis (bitLength n)).length)
    (hd1 : ∀ c ∈ c1, 0 ≤ c ∧ c < 256) (hd2 : ∀ c ∈ c2, 0 ≤ c ∧ c < 256)
    (hs1 : SignedWith n d v1 (dotZip (cr50Basis (bitLength n)) c1))
    (hs2 : SignedWith n d v2 (dotZip (cr50Basis (bitLength n)) c2))
    (hr1 : ¬ n ∣ v1.1) (hr2 : ¬ n ∣ v2.1) :
    (∃ rows q, cr50Lattice ((v2.1 : Int) * v1.2.1 % (n : Int)) (-(v1.1 : Int) * v2.2.1 % (n : Int))
        (((v2.1 : Int) * v1.2.2 - (v1.1 : Int) * v2.2.2) % (n : Int)) n
        (cr50Basis (bitLength n)) = .ok rows ∧
      lincomb (2 * (cr50Basis (bitLength n)).length + 2) (c1 ++ (c2 ++ [-1, -q])) rows =
        plantedRowCr50 c1 c2) ∧
    ∀ reduced : List (List Int), PMMem (plantedRowCr50 c1 c2) reduced →
      ∃ gs, cr50Guesses v1.1 v1.2.1 v1.2.2 v2.1 v2.2.1 v2.2.2 n reduced = .ok gs ∧ d ∈ gs := by
  have cop : ∀ r : Nat, ¬ n ∣ r → Int.gcd (r : Int) n = 1 := by
    intro r hr
    apply gcd_eq_one_of_prime n hp
    intro h0
    exact hr (Int.natCast_dvd_natCast.mp (Int.dvd_of_emod_eq_zero h0))
  refine ⟨C08.cr50_pre v1.1 v1.2.1 v1.2.2 v2.1 v2.2.1 v2.2.2 d n hp.pos c1 c2 h1 h2 hs1 hs2, ?_⟩
  intro reduced hin
  have hrow : (c1 ++ (c2 ++ [-256, 0])) ∈ reduced ∨
      (c1.map (fun c => -c) ++ (c2.map (fun c => -c) ++ [256, 0])) ∈ reduced := by
    rcases hin with h | h
    · exact Or.inl h
    · right
      simpa [plantedRowCr50] using h
  obtain ⟨gs, hg1, hg2⟩ : ∃ gs, cr50Guesses v1.1 v1.2.1 v1.2.2 v2.1 v2.2.1 v2.2.2 n reduced = .ok gs ∧
      ((d : Int) % (n : Int)).toNat ∈ gs := by
    rcases hrow with h | h
    · exact C08.cr50_post v1.1 v1.2.1 v1.2.2 v2.1 v2.2.1 v2.2.2 d n reduced c1 c2 [-256, 0] hbl
        hp.one_lt h1 h2 (C08.cr50_nonce_nonneg _ c1 (fun c hc => (hd1 c hc).1))
        (C08.cr50_nonce_nonneg _ c2 (fun c hc => (hd2 c hc).1)) hs1 hs2 (cop _ hr1) (cop _ hr2)
        (Or.inl h)
    · exact C08.cr50_post v1.1 v1.2.1 v1.2.2 v2.1 v2.2.1 v2.2.2 d n reduced c1 c2 [256, 0] hbl
        hp.one_lt h1 h2 (C08.cr50_nonce_nonneg _ c1 (fun c hc => (hd1 c hc).1))
        (C08.cr50_nonce_nonneg _ c2 (fun c hc => (hd2 c hc).1)) hs1 hs2 (cop _ hr1) (cop _ hr2)
        (Or.inr h)
  refine ⟨gs, hg1, ?_⟩
  rwa [Int.emod_eq_of_lt (by omega) (by exact_mod_cast hd), Int.toNat_natCast] at hg2

/-- **chain, CheckCr50U2f.**  Two CONSECUTIVE values `unique_vals[kk]`, `unique_vals[kk+1]` of
issuer `j`, both signed with `d` and nonces of the U2F shape: if the `lll.reduce` answer of that
pair's call contains ± the digit row, every signature of the key tuple is flagged with `d`. -/
theorem chain_cr50 {O : Nat → GroupOracle} {factory : Factory} {arts : List Sig}
    {res : CheckResult} {cid : Nat} {obj : CurveObj} {key : Key} {d : Nat} {env : SolverEnv}
    {lll : Nat → Nat → LllAnswers}
    (S : Setting .cr50 O factory arts res cid obj key d env lll)
    (hbl : bitLength obj.curve.n % 32 = 0)
    (j : Nat) (hj : j < (mapIssuerSigIndexes ((groupFrom cid 0 arts).map Prod.snd)).length)
    (kk : Nat) (v1 v2 : Triple) (hv1 : ((O cid).uniq j)[kk]? = some v1)
    (hv2 : ((O cid).uniq j)[kk + 1]? = some v2) (c1 c2 : List Int)
    (h1 : c1.length = (cr50Basis (bitLength obj.curve.n)).length)
    (h2 : c2.length = (cr50Basis (bitLength obj.curve.n)).length)
    (hd1 : ∀ c ∈ c1, 0 ≤ c ∧ c < 256) (hd2 : ∀ c ∈ c2, 0 ≤ c ∧ c < 256)
    (hs1 : SignedWith obj.curve.n d v1 (dotZip (cr50Basis (bitLength obj.curve.n)) c1))
    (hs2 : SignedWith obj.curve.n d v2 (dotZip (cr50Basis (bitLength obj.curve.n)) c2))
    (hr1 : ¬ obj.curve.n ∣ v1.1) (hr2 : ¬ obj.curve.n ∣ v2.1)
    (hlll : PMMem (plantedRowCr50 c1 c2) (lll j kk 0)) :
    ∀ bi s, arts[bi]? = some s → s.curve = cid → s.key = key →
      verdictOf res.writes bi = some (posVerdict d) := by
  obtain ⟨gs, hgs, hdgs⟩ := (sandwich_cr50 obj.curve.n S.nPrime hbl d S.dLt v1 v2 c1 c2 h1 h2 hd1 hd2
    hs1 hs2 hr1 hr2).2 _ hlll
  exact chain_cr50_core O factory arts res S.factoryOK S.factoryReduced S.nodup S.guessConsistent
    S.checked cid obj S.hobj S.gOrder key S.keyReduced d S.dLt S.keyOf env S.envN lll S.solved j hj
    kk v1 v2 hv1 hv2 gs hgs hdgs

/-! ## 5. The LCG checks (`HiddenNumberProblemForCurve`, precomputed constants)

PARTIAL with respect to the property sentence "nonces drawn from GMP's truncated linear congruential
generator are detected … from as many consecutive signatures as the shipped model declares": the
bias condition is stated on the quantity the precomputed constants are MADE to shrink —
`A_t + B_t·x mod n` for the flattened lists `A_t = (a_i·c_j − d_j) mod n`, `B_t = b_i·c_j mod n` of
one yielded subset (`C08.precomp_entries`: `A_t + B_t·x ≡ c_j·k_i − d_j`, `k_i` the nonce) — not on
"the nonces come from the LCG".  That the shipped 1 200 lines of constants make `c_j·k − d_j mod n`
small for GMP's generator is not provable here (DESIGN §5 C08 ✗). -/

/-- **LCG sandwich.**  `n` prime, `len(a) = len(b)`, at least one flag, selected metadata positive
(`C08.shipped_meta_ok`).  `s` = the `k`-th subset `_HiddenNumberProblemSubsets` yields (its window
`s.a`, `s.b`, its constants, its weight `s.w`), `es` with `A_t + B_t·x ≡ e_t (mod n)`.
PRE: `(n·w+1, x, e_t·w)` is an integer combination of the rows of the lattice
`HiddenNumberProblemWithPrecomputation` builds for that subset; `|e_t| < B` gives entries below
`B·w` (against `n·w` on the diagonal).  POST: if the
`k`-th `lll.reduce` answer contains ± that row, `HiddenNumberProblemForCurve` returns a list
containing `x mod n` — whatever the other reductions returned. -/
theorem sandwich_lcg (a b : List Int) (x : Int) (curve n : Nat) (lcg : Option Nat) (f : SearchFlags)
    (factory : List LcgMeta) (oracle : Nat → List (List Int)) (hp : n.Prime)
    (hlen : a.length = b.length) (hf : f.none = false)
    (hmeta : ∀ m ∈ factory, entrySelected m curve lcg = true → MetaOk m)
    (k : Nat) (s : HnpSubset) (hs : (hnpSubsets a b curve lcg f factory).yields[k]? = some s)
    (es : List Int) (hes : es.length = s.a.length * s.constants.length)
    (hrel : ∀ t, t < s.a.length * s.constants.length →
      ent (precompAs s.a n s.constants) t + ent (precompBs s.a s.b n s.constants) t * x ≡
        ent es t [ZMOD n])
    (hrows : ∀ i, ∀ r ∈ oracle i, 2 ≤ r.length) :
    ∃ rows cs, precompLattice s.a s.b n s.constants s.w = .ok rows ∧
      lincomb (s.a.length * s.constants.length + 2) (1 :: x :: cs) rows = plantedRow n s.w x es ∧
      (∀ B : Int, 0 < s.w → (∀ e ∈ es, |e| < B) → ∀ v ∈ es.map (· * s.w), |v| < B * s.w) ∧
      (PMMem (plantedRow n s.w x es) (oracle k) →
        ∃ gs, hnpForCurve a b curve (some (some n)) lcg f factory oracle = .ok gs ∧
          (x % (n : Int)).toNat ∈ gs) := by
  have hsub : hnpSubsets a b curve lcg f factory = subsetsLoop a b curve lcg f factory := by
    unfold hnpSubsets; rw [hf]; rfl
  have hsl : s.a.length = s.b.length := by
    have := (subsetsLoop_ok a b curve lcg f hlen factory hmeta).2 s
      (by rw [← hsub]; exact List.mem_of_getElem? hs)
    exact this
  have hb : s.a.length ≤ s.b.length := le_of_eq hsl
  have hAl := precompAs_length s.a n s.constants
  have hBl := precompBs_length s.a s.b n s.constants hb
  have hG : GenRel (precompAs s.a n s.constants) (precompBs s.a s.b n s.constants) n 1 x 0 es
      (quotients (precompAs s.a n s.constants) (precompBs s.a s.b n s.constants) n 1 x 0 es) := by
    apply genRel_of_modEq _ _ es n 1 x 0 (by rw [hAl, hBl]) (by rw [hAl, hes])
    intro t ht
    rw [hAl] at ht
    have := hrel t ht
    have e1 : ∀ p q : Int, 1 * p + x * q = p + q * x := fun p q => by ring
    rw [e1, zero_add]; exact this
  have hR : HnpRel (precompAs s.a n s.constants) (precompBs s.a s.b n s.constants) x n 1 0 es
      (quotients (precompAs s.a n s.constants) (precompBs s.a s.b n s.constants) n 1 x 0 es) := by
    apply hnpRel_of_genRel; simpa using hG
  obtain ⟨rows, hrows', hpre⟩ := C08.precomp_pre s.a s.b n s.constants s.w x es _ hp.pos hb hR
  refine ⟨rows, _, hrows', hpre, fun B hw hbias => target_bound es _ B hw hbias, ?_⟩
  intro hin
  apply C08.forcurve_post a b curve n lcg f factory oracle x hlen hf hp.one_lt hmeta
    (fun i r hr => rowOk_of_prime n hp r (hrows i r hr))
  exact ⟨k, (List.getElem?_eq_some_iff.mp hs).1,
    good_row_of_pm n hp (oracle k) x _ _ _ (nw1_modEq n _ x) (not_dvd_nw1 n hp _) hin⟩

/-- **chain, CheckLCGNonceGMP / CheckLCGNonceJavaUtilRandom** (`Mode.lcg name flags`).  `ab` = the
prepared parameters of issuer `j`; `s` the `k`-th subset yielded for them; `lll j 0 i` the answer of
the `i`-th `lll.reduce` call inside the one `HiddenNumberProblemForCurve` call of this issuer. -/
theorem chain_lcg {name flags : Nat} {O : Nat → GroupOracle} {factory : Factory} {arts : List Sig}
    {res : CheckResult} {cid : Nat} {obj : CurveObj} {key : Key} {d : Nat} {env : SolverEnv}
    {lll : Nat → Nat → LllAnswers}
    (S : Setting (.biased (.lcg name flags)) O factory arts res cid obj key d env lll)
    (j : Nat) (hj : j < (mapIssuerSigIndexes ((groupFrom cid 0 arts).map Prod.snd)).length)
    (ab : List (Nat × Nat)) (hab : hnpParamsList obj.curve.n ((O cid).uniq j) = .ok ab)
    (hf : (flagsOfNat flags).none = false)
    (hmeta : ∀ m ∈ env.lcgFactory, entrySelected m cid (some name) = true → MetaOk m)
    (k : Nat) (s : HnpSubset)
    (hs : (hnpSubsets (argA ab) (argB ab) cid (some name) (flagsOfNat flags)
      env.lcgFactory).yields[k]? = some s)
    (es : List Int) (hes : es.length = s.a.length * s.constants.length)
    (hrel : ∀ t, t < s.a.length * s.constants.length →
      ent (precompAs s.a obj.curve.n s.constants) t +
        ent (precompBs s.a s.b obj.curve.n s.constants) t * d ≡ ent es t [ZMOD obj.curve.n])
    (hrows : ∀ i, ∀ r ∈ lll j 0 i, 2 ≤ r.length)
    (hlll : PMMem (plantedRow obj.curve.n s.w d es) (lll j 0 k)) :
    ∀ bi s', arts[bi]? = some s' → s'.curve = cid → s'.key = key →
      verdictOf res.writes bi = some (posVerdict d) := by
  have hlen : (argA ab).length = (argB ab).length := by simp [natsToInts]
  obtain ⟨_, _, _, _, _, hpost⟩ := sandwich_lcg (argA ab) (argB ab) d cid obj.curve.n (some name)
    (flagsOfNat flags) env.lcgFactory (lll j 0) S.nPrime hlen hf hmeta k s hs es hes hrel
    hrows
  obtain ⟨gs, hgs, hdgs⟩ := hpost hlll
  rw [Int.emod_eq_of_lt (by omega) (by exact_mod_cast S.dLt), Int.toNat_natCast] at hdgs
  exact chain_forcurve name flags O factory arts res S.factoryOK S.factoryReduced S.nodup
    S.guessConsistent S.checked cid obj S.hobj S.gOrder key S.keyReduced d S.dLt S.keyOf env S.envN
    lll S.solved j hj ab hab gs hgs hdgs

/-! ## 6. The hypotheses about the curve objects hold for CURVE_FACTORY

For `ec_util.CURVE_FACTORY` as regenerated from /repo (`namedFactory`: nine curves, fresh caches)
every curve-side field of `Setting` is a theorem: field primes and group orders are the certified
primes of Props/C11Primes, `G` has order exactly `n`, `n` is odd. -/

theorem named_curves_ok :
    FactoryOK namedFactory ∧ FactoryReduced namedFactory ∧ (namedFactory.map Prod.fst).Nodup ∧
    ∀ cid obj, (cid, some obj) ∈ namedFactory →
      obj.curve.n.Prime ∧ GOrder obj.curve ∧ obj.curve.n ≠ 2 := by
  have hprime : ∀ c ∈ [secp256r1, secp384r1, secp192r1, secp224r1, secp521r1, secp256k1,
      brainpoolP256r1, brainpoolP384r1, brainpoolP512r1], Nat.Prime c.p := by
    intro c hc
    simp only [List.mem_cons, List.not_mem_nil, or_false] at hc
    rcases hc with rfl | rfl | rfl | rfl | rfl | rfl | rfl | rfl | rfl
    · exact C11Primes.secp256r1_p_prime
    · exact C11Primes.secp384r1_p_prime
    · exact C11Primes.secp192r1_p_prime
    · exact C11Primes.secp224r1_p_prime
    · exact C11Primes.secp521r1_p_prime
    · exact C11Primes.secp256k1_p_prime
    · exact C11Primes.brainpoolP256r1_p_prime
    · exact C11Primes.brainpoolP384r1_p_prime
    · exact C11Primes.brainpoolP512r1_p_prime
  obtain ⟨h1, h2, h3⟩ := C02S.namedFactory_ok hprime
  refine ⟨h1, h2, h3, ?_⟩
  intro cid obj hm
  rw [C02S.namedFactory_eq] at hm
  simp only [List.mem_cons, Prod.mk.injEq, Option.some.injEq, reduceCtorEq, and_false,
    List.not_mem_nil, or_false] at hm
  have two : ∀ c : Curve, c.n.Prime → c.n % 2 = 1 → c.n ≠ 2 := fun c _ h1 h2 => by omega
  rcases hm with ⟨_, rfl⟩ | ⟨_, rfl⟩ | ⟨_, rfl⟩ | ⟨_, rfl⟩ | ⟨_, rfl⟩ | ⟨_, rfl⟩ | ⟨_, rfl⟩ | ⟨_, rfl⟩ |
    ⟨_, rfl⟩
  · exact ⟨C11Primes.secp256r1_n_prime, gOrder_of_paramsOK _ secp256r1_paramsOK
      C11Primes.secp256r1_n_prime, two _ C11Primes.secp256r1_n_prime (by decide +kernel)⟩
  · exact ⟨C11Primes.secp384r1_n_prime, gOrder_of_paramsOK _ secp384r1_paramsOK
      C11Primes.secp384r1_n_prime, two _ C11Primes.secp384r1_n_prime (by decide +kernel)⟩
  · exact ⟨C11Primes.secp192r1_n_prime, gOrder_of_paramsOK _ secp192r1_paramsOK
      C11Primes.secp192r1_n_prime, two _ C11Primes.secp192r1_n_prime (by decide +kernel)⟩
  · exact ⟨C11Primes.secp224r1_n_prime, gOrder_of_paramsOK _ secp224r1_paramsOK
      C11Primes.secp224r1_n_prime, two _ C11Primes.secp224r1_n_prime (by decide +kernel)⟩
  · exact ⟨C11Primes.secp521r1_n_prime, gOrder_of_paramsOK _ secp521r1_paramsOK
      C11Primes.secp521r1_n_prime, two _ C11Primes.secp521r1_n_prime (by decide +kernel)⟩
  · exact ⟨C11Primes.secp256k1_n_prime, gOrder_of_paramsOK _ secp256k1_paramsOK
      C11Primes.secp256k1_n_prime, two _ C11Primes.secp256k1_n_prime (by decide +kernel)⟩
  · exact ⟨C11Primes.brainpoolP256r1_n_prime, gOrder_of_paramsOK _ brainpoolP256r1_paramsOK
      C11Primes.brainpoolP256r1_n_prime, two _ C11Primes.brainpoolP256r1_n_prime (by decide +kernel)⟩
  · exact ⟨C11Primes.brainpoolP384r1_n_prime, gOrder_of_paramsOK _ brainpoolP384r1_paramsOK
      C11Primes.brainpoolP384r1_n_prime, two _ C11Primes.brainpoolP384r1_n_prime (by decide +kernel)⟩
  · exact ⟨C11Primes.brainpoolP512r1_n_prime, gOrder_of_paramsOK _ brainpoolP512r1_paramsOK
      C11Primes.brainpoolP512r1_n_prime, two _ C11Primes.brainpoolP512r1_n_prime (by decide +kernel)⟩

/-! ## 7. The solver model does not raise on the calls the checks make (F7, solver side)

`SolvedGroup` asks, call by call, that the solver MODEL returns.  For the bias checks this is
automatic on every supported curve: prime `n`, `len(a) = len(b)` (always: both come from
`HiddenNumberParams`), a non-empty window (`window_subset`), `n` odd for COMMON_POSTFIX, and every
row of the LLL answer with at least two entries.  (For `Cr50U2fGuesses`: `C08.cr50_total_prime`,
which needs `n ∤ r₁, r₂` — the real code raises `ZeroDivisionError` for `r ≡ 0`.) -/

theorem hnp_total_prime (a b : List Int) (n : Nat) (bias : Bias) (fb : Nat)
    (basis : List (List Int)) (hp : n.Prime) (hb : b.length = a.length)
    (hpost : bias = .commonPostfix → n ≠ 2 ∧ a ≠ [])
    (hrows : ∀ r ∈ basis, 2 ≤ r.length) :
    ∃ gs, hiddenNumberProblem a b none n bias fb basis = .ok gs := by
  have hlat : ∃ lat, getLattice a b none n bias fb = .ok lat := by
    cases bias with
    | msb =>
      rw [getLattice_none a b n .msb fb (Or.inr (by decide)), getLattice_some a b _ n .msb fb hb]
      exact ⟨_, rfl⟩
    | commonPrefix =>
      rw [getLattice_none a b n .commonPrefix fb (Or.inr (by decide)),
        getLattice_some a b _ n .commonPrefix fb hb]
      exact ⟨_, rfl⟩
    | generalized =>
      rw [getLattice_none a b n .generalized fb (Or.inr (by decide)),
        getLattice_some a b _ n .generalized fb hb]
      exact ⟨_, rfl⟩
    | commonPostfix =>
      obtain ⟨h2, hne⟩ := hpost rfl
      have hlen0 : a.length ≠ 0 := fun h => hne (List.length_eq_zero_iff.mp h)
      rw [getLattice_none a b n .commonPostfix fb (Or.inl hlen0),
        getLattice_some a b _ n .commonPostfix fb hb]
      obtain ⟨wi, hwi⟩ := invMod_of_coprime (defaultW .commonPostfix a.length fb) n hp.pos
        (gcd_two_pow n hp h2 _)
      unfold getLatticeW
      simp only [hwi]
      exact ⟨_, rfl⟩
  obtain ⟨lat, hlat⟩ := hlat
  unfold hiddenNumberProblem
  rw [hlat]
  obtain ⟨gs, hgs, _⟩ := hnpGuessLoop_ok (hnpRowGuess n) basis []
    (fun r hr => hnpRowGuess_total n hp.pos r (rowOk_of_prime n hp r (hrows r hr)))
  exact ⟨gs, hgs⟩

/-- where the hypotheses of `hnp_total_prime` are needed: `n = 2` with COMMON_POSTFIX raises
(`gmpy.invert(8, 2)`), and so does a row with fewer than two entries. -/
example : hiddenNumberProblem [1] [1] none 2 .commonPostfix 0 [] = .error .zeroDivision ∧
    hiddenNumberProblem [1] [1] none 7 .msb 0 [[3]] = .error .indexError := by decide +kernel

end Paranoid.C08Chain
