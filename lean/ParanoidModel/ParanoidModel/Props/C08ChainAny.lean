/-
Props/C08ChainAny.lean — the C08 chain restated after the second review (REVIEW2 M1, M2).

M1 (the planted row as `lll.reduce` really returns it).  Props/C08Chain.lean fixes the key position
of the planted row to the natural number `d`.  fpylll size-reduces that coordinate against the
lattice vector `(0, n, 0, …, 0)`: on the real code the row that yields the key is, up to sign,
`(n·w+1, x, tail)` with `x` the CENTRED representative of `d` (`x = d` for `2d ≤ n`, `x = d − n`
otherwise: 360 of 360 recorded runs of the four bias kinds, keys planted at 0.49·n … 0.52·n
included; for about half of all keys the hypothesis of `C08Chain.chain_*` is therefore FALSE).
Here the key position carries ANY integer `x ≡ d (mod n)` (`*_any`), with the two-element family
`keyReps d n = [d, d − n]` that actually occurs as a corollary (`chain_bias_family`); the solver
reduces modulo `n`, so the recorded key is `d` itself.

The POST / CHECK half needs neither a bias nor the signing relation: `chain_bias_post` — if the
LLL answer of a window contains `±(T₀, T₁, …)` with `T₁ ≡ T₀·d (mod n)` and `n ∤ T₀`, every signature
of the issuer is flagged with `d`.  (So `C08Chain.chain_msb` holds verbatim for unbiased nonces: all
its content is in the oracle hypothesis.  This is now said, not hidden.)

M2 (what the bias buys).  The theorems are CONDITIONAL ON THE LLL ORACLE; the bias hypothesis buys
exactly one thing: the planted row is SHORT.  Each `sigs_*_any` / `chain_*_any` theorem states
 PRE   the row is an explicit integer combination of the rows of the lattice the call builds,
       every tail entry is below `B(bits) = biasBound n bits w = 2^(bl − bits)·w` (strictly
       decreasing in `bits`: `biasBound_strictAnti`), and `ScaleShort n M r 2^(bl − bits)`:
       `(2·B(bits))^M < n^(M−r)·w^M`, the tail is shorter (factor 2 per coordinate) than the scale
       of the reduced basis vectors other than the known short ones — the quantity a Lovász-type
       argument needs.  `ScaleShort` follows from the margin `r·bl + 2M ≤ M·bits`
       (`scaleShort_of_margin`) and is FALSE without bias (`scaleShort_needs_bias`: it forces
       `bl < M·bits`), so these theorems cannot be instantiated with `bits = 0`;
 POST  IF the LLL answer contains ± that row THEN every signature of the issuer is flagged with `d`.
"LLL returns a short row" is NOT proved (no LLL / Lovász argument is formalised);
`LLLReturnsShort` states that oracle without mentioning the key, and `sigs_msb_of_lll_short`
derives detection from it — there the bias hypothesis is used.
`WeightOK` is the other half of shortness (the key coordinate); it is what fails in known finding
D23 (examples at the end of Props/C08ChainAnyEx.lean).
-/
import ParanoidModel.Proofs.C08ChainAny
import ParanoidModel.Props.C08Chain
namespace Paranoid.C08ChainAny
open Paranoid Paranoid.Hnp Paranoid.Ec Paranoid.EcdsaChecks Paranoid.C08Chain

/-! ## 0. Shortness at the integer-lattice level (all four bias kinds) -/

/-- **bias ⇒ the tail of the planted row is short.**  Small parts `|e_i| < 2^(bl − bits)` and the
margin `r·bl + 2M ≤ M·bits` (`1 ≤ r ≤ M`, `bits ≤ bl`): every tail entry `e_i·w` is below
`B(bits)`, and `B(bits)` beats the scale of the other reduced vectors.  The conclusion is false for
`bits = 0` (`scaleShort_needs_bias`). -/
theorem sandwich_tail_short (es : List Int) (n M r bits : Nat) (w : Int) (hn : n ≠ 0) (hw : 0 < w)
    (hr : 1 ≤ r) (hrM : r ≤ M) (hbits : bits ≤ bitLength n)
    (hbias : ∀ e ∈ es, |e| < 2 ^ (bitLength n - bits))
    (hthr : r * bitLength n + 2 * M ≤ M * bits) :
    (∀ v ∈ es.map (· * w), |v| < biasBound n bits w) ∧
    ScaleShort n M r (2 ^ (bitLength n - bits)) :=
  ⟨target_bound_bias es n bits w hw hbias, scaleShort_of_margin n M r bits hn hr hrM hbits hthr⟩

/-- `ScaleShort` in terms of the entry bound itself: `(2·B(bits))^M < n^(M−r)·w^M`. -/
theorem scaleShort_iff_bound (n M r bits : Nat) (w : Int) (hw : 0 < w) :
    ScaleShort n M r (2 ^ (bitLength n - bits)) ↔
      (2 * biasBound n bits w) ^ M < (n : Int) ^ (M - r) * w ^ M := by
  unfold ScaleShort biasBound
  have hwM : (0 : Int) < w ^ M := pow_pos hw M
  have e : (2 * (2 ^ (bitLength n - bits) * w)) ^ M = (2 * 2 ^ (bitLength n - bits)) ^ M * w ^ M := by
    rw [← mul_assoc, mul_pow]
  rw [e]
  exact ⟨fun h => Int.mul_lt_mul_of_pos_right h hwM, fun h => Int.lt_of_mul_lt_mul_right h hwM.le⟩

/-- the bias is not decorative in a statement that carries `ScaleShort`. -/
theorem short_forces_bias (n M r bits : Nat) (hr : 1 ≤ r)
    (h : ScaleShort n M r (2 ^ (bitLength n - bits))) : 0 < bits ∧ bitLength n < M * bits := by
  have := scaleShort_needs_bias n M r bits hr h
  refine ⟨?_, this⟩
  by_contra h0
  have : bits = 0 := by omega
  subst this; omega

/-! ## 1. Signature level, any representative of the key, shortness carried -/

/-- **MSB, signatures.**  As `C08Chain.sigs_msb`, with `x` ANY integer `≡ d (mod n)` in the key
position, `bits ≤ bl` and the margin `bl + 2·len ≤ len·bits` (implied by the property's
`len·bits ≥ 2·bl` when `2·len ≤ bl`: `msb_margin_of_property`).  PRE: the row `(n·w+1, x, k_i·w)` is
in the lattice of the call, its tail entries lie in `[0, B(bits))`, and `ScaleShort n len 1`.
POST: every LLL answer containing ± that row makes the call return a list containing `d`. -/
theorem sigs_msb_any (n : Nat) (hp : n.Prime) (d : Nat) (hd : d < n) (x : Int)
    (hx : x ≡ (d : Int) [ZMOD (n : Int)]) (vals : List Triple)
    (nonce : Triple → Int) (bits fb : Nat)
    (hs : ∀ v ∈ vals, Int.gcd (v.2.1 : Int) n = 1)
    (hsig : ∀ v ∈ vals, SignedWith n d v (nonce v))
    (hbias : ∀ v ∈ vals, 0 ≤ nonce v ∧ nonce v < 2 ^ (bitLength n - bits))
    (hbits : bits ≤ bitLength n)
    (hthr : 1 * bitLength n + 2 * vals.length ≤ vals.length * bits) :
    ∃ ab, hnpParamsList n vals = .ok ab ∧ ∃ lat cs,
      getLattice (argA ab) (argB ab) none n .msb fb = .ok lat ∧
      lincomb (vals.length + 2) (1 :: x :: cs) lat =
        plantedRow n (defaultW .msb vals.length fb) x (vals.map nonce) ∧
      (∀ v ∈ (vals.map nonce).map (· * defaultW .msb vals.length fb),
        0 ≤ v ∧ v < biasBound n bits (defaultW .msb vals.length fb)) ∧
      ScaleShort n vals.length 1 (2 ^ (bitLength n - bits)) ∧
      ∀ basis : List (List Int), (∀ r ∈ basis, 2 ≤ r.length) →
        PMMem (plantedRow n (defaultW .msb vals.length fb) x (vals.map nonce)) basis →
        ∃ gs, hiddenNumberProblem (argA ab) (argB ab) none n .msb fb basis = .ok gs ∧ d ∈ gs := by
  obtain ⟨ab, hab⟩ := hnpParamsList_total n hp.two_le vals hs
  have hF := (hnpParamsList_ok n vals ab).mp hab
  obtain ⟨hl, hb, hk, hrel⟩ := sig_rel n hp.two_le x nonce vals ab hF
    (fun v hv => signedWith_congr n d x hx v _ (hsig v hv))
  obtain ⟨lat, cs, h1, h2, h3, h4⟩ := sandwich_msb (argA ab) (argB ab) (vals.map nonce) x n fb bits
    hp hb hk hrel (by
      intro k hk'
      obtain ⟨v, hv, rfl⟩ := List.mem_map.mp hk'
      exact hbias v hv)
  rw [hl] at h2 h3 h4
  have hbl := bl_pos_of_prime n hp
  have hM : 1 ≤ vals.length := by
    by_contra h0
    have : vals.length = 0 := by omega
    rw [this] at hthr; omega
  refine ⟨ab, hab, lat, cs, h1, h2, h3,
    scaleShort_of_margin n _ 1 bits hp.ne_zero le_rfl hM hbits hthr, fun basis hr hin => ?_⟩
  obtain ⟨gs, hg1, hg2⟩ := h4 basis hr hin
  refine ⟨gs, hg1, ?_⟩
  rwa [toNat_of_modEq x d n hd hx] at hg2

/-- **COMMON_PREFIX, signatures.**  Nonces `top + e(v)`, `|e(v)| < 2^(bl − bits)`; row
`(n·w+1, x, e_i·w)`, any `x ≡ d`; one dimension is spent on the common part: `M = len − 1`, margin
`bl + 2·(len − 1) ≤ (len − 1)·bits`. -/
theorem sigs_prefix_any (n : Nat) (hp : n.Prime) (d : Nat) (hd : d < n) (x : Int)
    (hx : x ≡ (d : Int) [ZMOD (n : Int)]) (vals : List Triple)
    (top : Int) (e : Triple → Int) (bits fb : Nat)
    (hs : ∀ v ∈ vals, Int.gcd (v.2.1 : Int) n = 1)
    (hsig : ∀ v ∈ vals, SignedWith n d v (top + e v))
    (hbias : ∀ v ∈ vals, |e v| < 2 ^ (bitLength n - bits))
    (hbits : bits ≤ bitLength n)
    (hthr : 1 * bitLength n + 2 * (vals.length - 1) ≤ (vals.length - 1) * bits) :
    ∃ ab, hnpParamsList n vals = .ok ab ∧ ∃ lat cs,
      getLattice (argA ab) (argB ab) none n .commonPrefix fb = .ok lat ∧
      lincomb (vals.length + 2) (1 :: x :: cs) lat =
        plantedRow n (defaultW .commonPrefix vals.length fb) x (vals.map e) ∧
      (∀ v ∈ (vals.map e).map (· * defaultW .commonPrefix vals.length fb),
        |v| < biasBound n bits (defaultW .commonPrefix vals.length fb)) ∧
      ScaleShort n (vals.length - 1) 1 (2 ^ (bitLength n - bits)) ∧
      ∀ basis : List (List Int), (∀ r ∈ basis, 2 ≤ r.length) →
        PMMem (plantedRow n (defaultW .commonPrefix vals.length fb) x (vals.map e)) basis →
        ∃ gs, hiddenNumberProblem (argA ab) (argB ab) none n .commonPrefix fb basis = .ok gs ∧
          d ∈ gs := by
  obtain ⟨ab, hab⟩ := hnpParamsList_total n hp.two_le vals hs
  have hF := (hnpParamsList_ok n vals ab).mp hab
  obtain ⟨hl, hb, hk, hrel⟩ := sig_rel n hp.two_le x (fun v => top + e v) vals ab hF
    (fun v hv => signedWith_congr n d x hx v _ (hsig v hv))
  obtain ⟨lat, cs, h1, h2, h3, h4⟩ := sandwich_prefix (argA ab) (argB ab) (vals.map e) x top n fb
    bits hp hb (by simpa using hk) (by
      intro i hi
      have := hrel i hi
      rw [hl] at hi
      rwa [ent_map_fn vals _ i hi, ← ent_map_fn vals e i hi] at this) (by
      intro k hk'
      obtain ⟨v, hv, rfl⟩ := List.mem_map.mp hk'
      exact hbias v hv)
  rw [hl] at h2 h3 h4
  have hbl := bl_pos_of_prime n hp
  have hM : 1 ≤ vals.length - 1 := by
    by_contra h0
    have : vals.length - 1 = 0 := by omega
    rw [this] at hthr; omega
  refine ⟨ab, hab, lat, cs, h1, h2, h3,
    scaleShort_of_margin n _ 1 bits hp.ne_zero le_rfl hM hbits hthr, fun basis hr hin => ?_⟩
  obtain ⟨gs, hg1, hg2⟩ := h4 basis hr hin
  refine ⟨gs, hg1, ?_⟩
  rwa [toNat_of_modEq x d n hd hx] at hg2

/-- **COMMON_POSTFIX, signatures.**  `n` odd, at least one value, nonces `low + 2^β·hi(v)`,
`|hi(v)| < 2^(bl − β)`, `β = max(3, fb)` (`fb` the float oracle of the window).  The default weight
exploits exactly `β` bits — NOT the number `bits ≥ β` of common low bits the nonces may have
(`C08Chain.postfix_common_low_bits` turns `bits ≥ β` common low bits into this shape): the entry
bound is `B(β) = 2^(bl − β)·2^β`, and the margin is in terms of `β`:
`bl + 2·(len − 1) ≤ (len − 1)·β`. -/
theorem sigs_postfix_any (n : Nat) (hp : n.Prime) (h2 : n ≠ 2) (d : Nat) (hd : d < n) (x : Int)
    (hx : x ≡ (d : Int) [ZMOD (n : Int)])
    (vals : List Triple) (hne : vals ≠ []) (low : Int) (hi : Triple → Int) (fb : Nat)
    (hs : ∀ v ∈ vals, Int.gcd (v.2.1 : Int) n = 1)
    (hsig : ∀ v ∈ vals, SignedWith n d v (low + 2 ^ (max 3 fb) * hi v))
    (hbias : ∀ v ∈ vals, |hi v| < 2 ^ (bitLength n - max 3 fb))
    (hbits : max 3 fb ≤ bitLength n)
    (hthr : 1 * bitLength n + 2 * (vals.length - 1) ≤ (vals.length - 1) * max 3 fb) :
    ∃ ab, hnpParamsList n vals = .ok ab ∧ ∃ lat cs,
      getLattice (argA ab) (argB ab) none n .commonPostfix fb = .ok lat ∧
      lincomb (vals.length + 2) (1 :: x :: cs) lat =
        plantedRow n (defaultW .commonPostfix vals.length fb) x (vals.map hi) ∧
      (∀ v ∈ (vals.map hi).map (· * defaultW .commonPostfix vals.length fb),
        |v| < biasBound n (max 3 fb) (defaultW .commonPostfix vals.length fb)) ∧
      ScaleShort n (vals.length - 1) 1 (2 ^ (bitLength n - max 3 fb)) ∧
      ∀ basis : List (List Int), (∀ r ∈ basis, 2 ≤ r.length) →
        PMMem (plantedRow n (defaultW .commonPostfix vals.length fb) x (vals.map hi)) basis →
        ∃ gs, hiddenNumberProblem (argA ab) (argB ab) none n .commonPostfix fb basis = .ok gs ∧
          d ∈ gs := by
  obtain ⟨ab, hab⟩ := hnpParamsList_total n hp.two_le vals hs
  have hF := (hnpParamsList_ok n vals ab).mp hab
  obtain ⟨hl, hb, hk, hrel⟩ := sig_rel n hp.two_le x (fun v => low + 2 ^ (max 3 fb) * hi v) vals ab
    hF (fun v hv => signedWith_congr n d x hx v _ (hsig v hv))
  have hane : argA ab ≠ [] := by
    intro h0
    have : vals.length = 0 := by
      rw [← hl]; show (argA ab).length = 0; rw [h0]; rfl
    exact hne (List.length_eq_zero_iff.mp this)
  obtain ⟨lat, cs, h1, h2', h3, h4⟩ := sandwich_postfix (argA ab) (argB ab)
    (vals.map (fun v => low + 2 ^ (max 3 fb) * hi v)) (vals.map hi) x low n
    fb hp h2 hane hb hk (by simp [hl]) hrel
    (fun i hi' => by
      rw [hl] at hi'
      rw [ent_map_fn vals _ i hi', ent_map_fn vals hi i hi'])
    (fun h hh => by obtain ⟨v, hv, rfl⟩ := List.mem_map.mp hh; exact hbias v hv)
  rw [hl] at h2' h3 h4
  have hbl := bl_pos_of_prime n hp
  have hM : 1 ≤ vals.length - 1 := by
    by_contra h0
    have : vals.length - 1 = 0 := by omega
    rw [this] at hthr; omega
  refine ⟨ab, hab, lat, cs, h1, h2', h3,
    scaleShort_of_margin n _ 1 _ hp.ne_zero le_rfl hM hbits hthr, fun basis hr hin => ?_⟩
  obtain ⟨gs, hg1, hg2⟩ := h4 basis hr hin
  refine ⟨gs, hg1, ?_⟩
  rwa [toNat_of_modEq x d n hd hx] at hg2

/-- **GENERALIZED, signatures.**  As `C08Chain.sigs_generalized` (`mult`, `y ≡ mult·d` already
arbitrary representatives there); the lattice also contains `(n, 0, …)`, so `r = 2`, `M = len − 1`:
margin `2·bl + 2·(len − 1) ≤ (len − 1)·bits`.  On the real code the row LLL returns belongs to a
small multiple `c·mult` of the secret multiplier (`|c| < 2^11` in the recorded runs): apply the
theorem with `mult := c·mult mod± n` and `bits` reduced by the bit length of `c`. -/
theorem sigs_generalized_any (n : Nat) (hp : n.Prime) (d : Nat) (hd : d < n) (vals : List Triple)
    (nonce : Triple → Int) (mult y top : Int) (e : Triple → Int) (bits fb : Nat)
    (hm : ¬ (n : Int) ∣ mult) (hy : y ≡ mult * d [ZMOD n])
    (hs : ∀ v ∈ vals, Int.gcd (v.2.1 : Int) n = 1)
    (hsig : ∀ v ∈ vals, SignedWith n d v (nonce v))
    (hmul : ∀ v ∈ vals, mult * nonce v ≡ top + e v [ZMOD n])
    (hbias : ∀ v ∈ vals, |e v| < 2 ^ (bitLength n - bits))
    (hbits : bits ≤ bitLength n)
    (hthr : 2 * bitLength n + 2 * (vals.length - 1) ≤ (vals.length - 1) * bits) :
    ∃ ab, hnpParamsList n vals = .ok ab ∧ ∃ lat cs,
      getLattice (argA ab) (argB ab) none n .generalized fb = .ok lat ∧
      lincomb (vals.length + 2) (mult :: y :: cs) lat =
        plantedRowGen (defaultW .generalized vals.length fb) mult y (vals.map e) ∧
      (∀ v ∈ (vals.map e).map (· * defaultW .generalized vals.length fb),
        |v| < biasBound n bits (defaultW .generalized vals.length fb)) ∧
      ScaleShort n (vals.length - 1) 2 (2 ^ (bitLength n - bits)) ∧
      ∀ basis : List (List Int), (∀ r ∈ basis, 2 ≤ r.length) →
        PMMem (plantedRowGen (defaultW .generalized vals.length fb) mult y (vals.map e)) basis →
        ∃ gs, hiddenNumberProblem (argA ab) (argB ab) none n .generalized fb basis = .ok gs ∧
          d ∈ gs := by
  obtain ⟨ab, hab', lat, cs, h1, h2, h3, h4⟩ := sigs_generalized n hp d hd vals nonce mult y top e
    bits fb hm hy hs hsig hmul hbias
  have hbl := bl_pos_of_prime n hp
  have hM : 2 ≤ vals.length - 1 := by
    by_contra h0
    have h01 : vals.length - 1 = 0 ∨ vals.length - 1 = 1 := by omega
    rcases h01 with h01 | h01
    · rw [h01] at hthr; omega
    · rw [h01] at hthr; omega
  exact ⟨ab, hab', lat, cs, h1, h2, h3,
    scaleShort_of_margin n _ 2 bits hp.ne_zero (by norm_num) hM hbits hthr, h4⟩

/-! ## 2. Check level

### 2a. POST / CHECK for all four bias checks at once — no bias, no signing relation -/

/-- **the bias-free half of the chain.**  `b ∈ {1,2,3,4}` the bias of the check (`bs` its model
value; COMMON_POSTFIX: `n ≠ 2`), `win` the `kk`-th window of issuer `j`.  If the `lll.reduce` answer
of that window's solver call has rows with at least two entries and contains `±(T₀, T₁, …)` with
`T₁ ≡ T₀·d (mod n)` and `n ∤ T₀`, EVERY signature of the batch with curve `cid` and key tuple `key`
is marked weak with DISCRETE_LOG = `format(d, "x")`.  Nothing is assumed about the nonces. -/
theorem chain_bias_post {b : Nat} {bs : Bias} (hbs : biasOfNat b = some bs)
    {O : Nat → GroupOracle} {factory : Factory} {arts : List Sig} {res : CheckResult}
    {cid : Nat} {obj : CurveObj} {key : Key} {d : Nat} {env : SolverEnv}
    {lll : Nat → Nat → LllAnswers}
    (S : Setting (.biased (.bias b)) O factory arts res cid obj key d env lll)
    (h2 : bs = .commonPostfix → obj.curve.n ≠ 2)
    (j : Nat) (hj : j < (mapIssuerSigIndexes ((groupFrom cid 0 arts).map Prod.snd)).length)
    (kk : Nat) (win : List Triple) (hwin : (sizeLoop windowSizes ((O cid).uniq j))[kk]? = some win)
    (hrows : ∀ r ∈ lll j kk 0, 2 ≤ r.length)
    (T0 T1 : Int) (tl : List Int) (htgt : T1 ≡ T0 * (d : Int) [ZMOD (obj.curve.n : Int)])
    (h0 : ¬ (obj.curve.n : Int) ∣ T0)
    (hlll : PMMem (T0 :: T1 :: tl) (lll j kk 0)) :
    ∀ bi s, arts[bi]? = some s → s.curve = cid → s.key = key →
      verdictOf res.writes bi = some (posVerdict d) := by
  obtain ⟨_, hne⟩ := window_subset _ win (List.mem_of_getElem? hwin)
  apply chain_hnp b bs hbs O factory arts res S.factoryOK S.factoryReduced S.nodup
    S.guessConsistent S.checked cid obj S.hobj S.gOrder key S.keyReduced d S.dLt S.keyOf env S.envN
    lll S.solved j hj kk win hwin
  intro wab hwab
  have hF := (hnpParamsList_ok obj.curve.n win wab).mp hwab
  have hlen : wab.length = win.length := hF.length_eq.symm
  have hane : natsToInts (wab.map Prod.fst) ≠ [] := by
    intro h0'
    have : win.length = 0 := by
      rw [← hlen]
      have := congrArg List.length h0'
      simpa [natsToInts] using this
    exact hne (List.length_eq_zero_iff.mp this)
  obtain ⟨gs, hg1, hg2⟩ := hnp_post_any (natsToInts (wab.map Prod.fst))
    (natsToInts (wab.map Prod.snd)) obj.curve.n bs (env.fbOf obj.curve.n win.length) S.nPrime
    (by simp [natsToInts]) (fun hb => ⟨h2 hb, hane⟩) (lll j kk 0) hrows (d : Int) T0 T1 tl htgt h0 hlll
  refine ⟨gs, hg1, ?_⟩
  rwa [toNat_of_modEq (d : Int) d obj.curve.n S.dLt (Int.ModEq.refl _)] at hg2

/-- the row `(n·w+1, x, tail)` with `x ≡ d` is such a row (`T₀ = n·w+1 ≡ 1`). -/
theorem chain_bias_post_planted {b : Nat} {bs : Bias} (hbs : biasOfNat b = some bs)
    {O : Nat → GroupOracle} {factory : Factory} {arts : List Sig} {res : CheckResult}
    {cid : Nat} {obj : CurveObj} {key : Key} {d : Nat} {env : SolverEnv}
    {lll : Nat → Nat → LllAnswers}
    (S : Setting (.biased (.bias b)) O factory arts res cid obj key d env lll)
    (h2 : bs = .commonPostfix → obj.curve.n ≠ 2)
    (j : Nat) (hj : j < (mapIssuerSigIndexes ((groupFrom cid 0 arts).map Prod.snd)).length)
    (kk : Nat) (win : List Triple) (hwin : (sizeLoop windowSizes ((O cid).uniq j))[kk]? = some win)
    (hrows : ∀ r ∈ lll j kk 0, 2 ≤ r.length)
    (w x : Int) (es : List Int) (hx : x ≡ (d : Int) [ZMOD (obj.curve.n : Int)])
    (hlll : PMMem (plantedRow obj.curve.n w x es) (lll j kk 0)) :
    ∀ bi s, arts[bi]? = some s → s.curve = cid → s.key = key →
      verdictOf res.writes bi = some (posVerdict d) :=
  chain_bias_post hbs S h2 j hj kk win hwin hrows _ x _
    (hx.trans (nw1_modEq obj.curve.n w (d : Int))) (not_dvd_nw1 obj.curve.n S.nPrime w) hlll

/-- **the family that occurs on the real code**: the key position holds `d` or `d − n`
(`keyReps`; LLL leaves the centred one, `centeredRep_mem`), either sign of the row. -/
theorem chain_bias_family {b : Nat} {bs : Bias} (hbs : biasOfNat b = some bs)
    {O : Nat → GroupOracle} {factory : Factory} {arts : List Sig} {res : CheckResult}
    {cid : Nat} {obj : CurveObj} {key : Key} {d : Nat} {env : SolverEnv}
    {lll : Nat → Nat → LllAnswers}
    (S : Setting (.biased (.bias b)) O factory arts res cid obj key d env lll)
    (h2 : bs = .commonPostfix → obj.curve.n ≠ 2)
    (j : Nat) (hj : j < (mapIssuerSigIndexes ((groupFrom cid 0 arts).map Prod.snd)).length)
    (kk : Nat) (win : List Triple) (hwin : (sizeLoop windowSizes ((O cid).uniq j))[kk]? = some win)
    (hrows : ∀ r ∈ lll j kk 0, 2 ≤ r.length)
    (w : Int) (es : List Int)
    (hlll : ∃ x ∈ keyReps d obj.curve.n, PMMem (plantedRow obj.curve.n w x es) (lll j kk 0)) :
    ∀ bi s, arts[bi]? = some s → s.curve = cid → s.key = key →
      verdictOf res.writes bi = some (posVerdict d) := by
  obtain ⟨x, hxm, hin⟩ := hlll
  exact chain_bias_post_planted hbs S h2 j hj kk win hwin hrows w x es
    (keyReps_modEq d obj.curve.n x hxm) hin

/-! ### 2b. PRE ∧ POST per check -/

/-- **chain, CheckNonceMSB.**  Every unique value of issuer `j` signed with `d` and a nonce
`0 ≤ k < 2^(bl − bits)`; `win` the `kk`-th window; `x` ANY integer `≡ d (mod n)`; margin
`bl + 2·len(win) ≤ len(win)·bits`.
PRE (uses the bias): the row `(n·w+1, x, k_i·w)`, `w = defaultW .msb len(win)`, is an integer
combination of the rows of the lattice the window's call builds, its tail entries lie in
`[0, B(bits))`, and `B(bits)` beats the scale of the other reduced vectors (`ScaleShort`).
POST (does not use the bias — `chain_bias_post`): IF the `lll.reduce` answer of that call contains
± that row, every signature of the key tuple is flagged with `d`. -/
theorem chain_msb_any {O : Nat → GroupOracle} {factory : Factory} {arts : List Sig}
    {res : CheckResult} {cid : Nat} {obj : CurveObj} {key : Key} {d : Nat} {env : SolverEnv}
    {lll : Nat → Nat → LllAnswers}
    (S : Setting (.biased (.bias 1)) O factory arts res cid obj key d env lll)
    (j : Nat) (hj : j < (mapIssuerSigIndexes ((groupFrom cid 0 arts).map Prod.snd)).length)
    (nonce : Triple → Int) (bits : Nat) (x : Int) (hx : x ≡ (d : Int) [ZMOD (obj.curve.n : Int)])
    (hsig : ∀ v ∈ (O cid).uniq j, SignedWith obj.curve.n d v (nonce v))
    (hbias : ∀ v ∈ (O cid).uniq j, 0 ≤ nonce v ∧ nonce v < 2 ^ (bitLength obj.curve.n - bits))
    (kk : Nat) (win : List Triple) (hwin : (sizeLoop windowSizes ((O cid).uniq j))[kk]? = some win)
    (hbits : bits ≤ bitLength obj.curve.n)
    (hthr : 1 * bitLength obj.curve.n + 2 * win.length ≤ win.length * bits) :
    (∃ ab lat cs, hnpParamsList obj.curve.n win = .ok ab ∧
      getLattice (argA ab) (argB ab) none obj.curve.n .msb (env.fbOf obj.curve.n win.length) =
        .ok lat ∧
      lincomb (win.length + 2) (1 :: x :: cs) lat =
        plantedRow obj.curve.n (defaultW .msb win.length 0) x (win.map nonce) ∧
      (∀ v ∈ (win.map nonce).map (· * defaultW .msb win.length 0),
        0 ≤ v ∧ v < biasBound obj.curve.n bits (defaultW .msb win.length 0)) ∧
      ScaleShort obj.curve.n win.length 1 (2 ^ (bitLength obj.curve.n - bits))) ∧
    ((∀ r ∈ lll j kk 0, 2 ≤ r.length) →
      PMMem (plantedRow obj.curve.n (defaultW .msb win.length 0) x (win.map nonce)) (lll j kk 0) →
      ∀ bi s, arts[bi]? = some s → s.curve = cid → s.key = key →
        verdictOf res.writes bi = some (posVerdict d)) := by
  have hsub := (window_subset _ win (List.mem_of_getElem? hwin)).1
  obtain ⟨wab, hwab, hgcd⟩ := window_params S j hj kk win hwin
  constructor
  · obtain ⟨ab, hab, lat, cs, h1, h2, h3, h4, _⟩ := sigs_msb_any obj.curve.n S.nPrime d S.dLt x hx
      win nonce bits (env.fbOf obj.curve.n win.length) hgcd
      (fun v hv => hsig v (hsub v hv)) (fun v hv => hbias v (hsub v hv)) hbits hthr
    exact ⟨ab, lat, cs, hab, h1, h2, h3, h4⟩
  · intro hrows hlll
    exact chain_bias_post_planted (b := 1) rfl S (by intro h; cases h) j hj kk win hwin hrows _ x _ hx
      hlll

/-- **chain, CheckNonceCommonPrefix.**  Nonces `top + e(v)`, `|e(v)| < 2^(bl − bits)`; any `x ≡ d`;
`M = len(win) − 1`, margin `bl + 2·M ≤ M·bits`. -/
theorem chain_prefix_any {O : Nat → GroupOracle} {factory : Factory} {arts : List Sig}
    {res : CheckResult} {cid : Nat} {obj : CurveObj} {key : Key} {d : Nat} {env : SolverEnv}
    {lll : Nat → Nat → LllAnswers}
    (S : Setting (.biased (.bias 2)) O factory arts res cid obj key d env lll)
    (j : Nat) (hj : j < (mapIssuerSigIndexes ((groupFrom cid 0 arts).map Prod.snd)).length)
    (top : Int) (e : Triple → Int) (bits : Nat) (x : Int)
    (hx : x ≡ (d : Int) [ZMOD (obj.curve.n : Int)])
    (hsig : ∀ v ∈ (O cid).uniq j, SignedWith obj.curve.n d v (top + e v))
    (hbias : ∀ v ∈ (O cid).uniq j, |e v| < 2 ^ (bitLength obj.curve.n - bits))
    (kk : Nat) (win : List Triple) (hwin : (sizeLoop windowSizes ((O cid).uniq j))[kk]? = some win)
    (hbits : bits ≤ bitLength obj.curve.n)
    (hthr : 1 * bitLength obj.curve.n + 2 * (win.length - 1) ≤ (win.length - 1) * bits) :
    (∃ ab lat cs, hnpParamsList obj.curve.n win = .ok ab ∧
      getLattice (argA ab) (argB ab) none obj.curve.n .commonPrefix
        (env.fbOf obj.curve.n win.length) = .ok lat ∧
      lincomb (win.length + 2) (1 :: x :: cs) lat =
        plantedRow obj.curve.n (defaultW .commonPrefix win.length 0) x (win.map e) ∧
      (∀ v ∈ (win.map e).map (· * defaultW .commonPrefix win.length 0),
        |v| < biasBound obj.curve.n bits (defaultW .commonPrefix win.length 0)) ∧
      ScaleShort obj.curve.n (win.length - 1) 1 (2 ^ (bitLength obj.curve.n - bits))) ∧
    ((∀ r ∈ lll j kk 0, 2 ≤ r.length) →
      PMMem (plantedRow obj.curve.n (defaultW .commonPrefix win.length 0) x (win.map e))
        (lll j kk 0) →
      ∀ bi s, arts[bi]? = some s → s.curve = cid → s.key = key →
        verdictOf res.writes bi = some (posVerdict d)) := by
  have hsub := (window_subset _ win (List.mem_of_getElem? hwin)).1
  obtain ⟨wab, hwab, hgcd⟩ := window_params S j hj kk win hwin
  constructor
  · obtain ⟨ab, hab, lat, cs, h1, h2, h3, h4, _⟩ := sigs_prefix_any obj.curve.n S.nPrime d S.dLt x
      hx win top e bits (env.fbOf obj.curve.n win.length) hgcd
      (fun v hv => hsig v (hsub v hv)) (fun v hv => hbias v (hsub v hv)) hbits hthr
    exact ⟨ab, lat, cs, hab, h1, h2, h3, h4⟩
  · intro hrows hlll
    exact chain_bias_post_planted (b := 2) rfl S (by intro h; cases h) j hj kk win hwin hrows _ x _ hx
      hlll

/-- **chain, CheckNonceCommonPostfix.**  `n ≠ 2`; nonces `low + 2^β·hi(v)`, `|hi(v)| < 2^(bl − β)`,
`β = max(3, fb)`, `fb = env.fbOf n len(win)` the float oracle of this window; any `x ≡ d`;
`M = len(win) − 1`, margin in terms of `β` (the bits the default weight exploits, not the number of
common low bits): `bl + 2·M ≤ M·β`. -/
theorem chain_postfix_any {O : Nat → GroupOracle} {factory : Factory} {arts : List Sig}
    {res : CheckResult} {cid : Nat} {obj : CurveObj} {key : Key} {d : Nat} {env : SolverEnv}
    {lll : Nat → Nat → LllAnswers}
    (S : Setting (.biased (.bias 3)) O factory arts res cid obj key d env lll)
    (h2 : obj.curve.n ≠ 2)
    (j : Nat) (hj : j < (mapIssuerSigIndexes ((groupFrom cid 0 arts).map Prod.snd)).length)
    (kk : Nat) (win : List Triple) (hwin : (sizeLoop windowSizes ((O cid).uniq j))[kk]? = some win)
    (low : Int) (hi : Triple → Int) (x : Int) (hx : x ≡ (d : Int) [ZMOD (obj.curve.n : Int)])
    (hsig : ∀ v ∈ (O cid).uniq j, SignedWith obj.curve.n d v
      (low + 2 ^ (max 3 (env.fbOf obj.curve.n win.length)) * hi v))
    (hbias : ∀ v ∈ (O cid).uniq j,
      |hi v| < 2 ^ (bitLength obj.curve.n - max 3 (env.fbOf obj.curve.n win.length)))
    (hbits : max 3 (env.fbOf obj.curve.n win.length) ≤ bitLength obj.curve.n)
    (hthr : 1 * bitLength obj.curve.n + 2 * (win.length - 1) ≤
      (win.length - 1) * max 3 (env.fbOf obj.curve.n win.length)) :
    (∃ ab lat cs, hnpParamsList obj.curve.n win = .ok ab ∧
      getLattice (argA ab) (argB ab) none obj.curve.n .commonPostfix
        (env.fbOf obj.curve.n win.length) = .ok lat ∧
      lincomb (win.length + 2) (1 :: x :: cs) lat =
        plantedRow obj.curve.n
          (defaultW .commonPostfix win.length (env.fbOf obj.curve.n win.length)) x (win.map hi) ∧
      (∀ v ∈ (win.map hi).map
          (· * defaultW .commonPostfix win.length (env.fbOf obj.curve.n win.length)),
        |v| < biasBound obj.curve.n (max 3 (env.fbOf obj.curve.n win.length))
          (defaultW .commonPostfix win.length (env.fbOf obj.curve.n win.length))) ∧
      ScaleShort obj.curve.n (win.length - 1) 1
        (2 ^ (bitLength obj.curve.n - max 3 (env.fbOf obj.curve.n win.length)))) ∧
    ((∀ r ∈ lll j kk 0, 2 ≤ r.length) →
      PMMem (plantedRow obj.curve.n
          (defaultW .commonPostfix win.length (env.fbOf obj.curve.n win.length)) x (win.map hi))
        (lll j kk 0) →
      ∀ bi s, arts[bi]? = some s → s.curve = cid → s.key = key →
        verdictOf res.writes bi = some (posVerdict d)) := by
  obtain ⟨hsub, hne⟩ := window_subset _ win (List.mem_of_getElem? hwin)
  obtain ⟨wab, hwab, hgcd⟩ := window_params S j hj kk win hwin
  constructor
  · obtain ⟨ab, hab, lat, cs, h1, h2', h3, h4, _⟩ := sigs_postfix_any obj.curve.n S.nPrime h2 d S.dLt
      x hx win hne low hi (env.fbOf obj.curve.n win.length) hgcd
      (fun v hv => hsig v (hsub v hv)) (fun v hv => hbias v (hsub v hv)) hbits hthr
    exact ⟨ab, lat, cs, hab, h1, h2', h3, h4⟩
  · intro hrows hlll
    exact chain_bias_post_planted (b := 3) rfl S (fun _ => h2) j hj kk win hwin hrows _ x _ hx hlll

/-- **chain, CheckNonceGeneralized.**  A multiplier `mult` (`n ∤ mult`) with
`mult·k ≡ top + e(v) (mod n)`, `|e(v)| < 2^(bl − bits)`; `y ≡ mult·d` any representative;
`M = len(win) − 1`, `r = 2`: margin `2·bl + 2·M ≤ M·bits`. -/
theorem chain_generalized_any {O : Nat → GroupOracle} {factory : Factory} {arts : List Sig}
    {res : CheckResult} {cid : Nat} {obj : CurveObj} {key : Key} {d : Nat} {env : SolverEnv}
    {lll : Nat → Nat → LllAnswers}
    (S : Setting (.biased (.bias 4)) O factory arts res cid obj key d env lll)
    (j : Nat) (hj : j < (mapIssuerSigIndexes ((groupFrom cid 0 arts).map Prod.snd)).length)
    (nonce : Triple → Int) (mult y top : Int) (e : Triple → Int) (bits : Nat)
    (hm : ¬ (obj.curve.n : Int) ∣ mult) (hy : y ≡ mult * d [ZMOD obj.curve.n])
    (hsig : ∀ v ∈ (O cid).uniq j, SignedWith obj.curve.n d v (nonce v))
    (hmul : ∀ v ∈ (O cid).uniq j, mult * nonce v ≡ top + e v [ZMOD obj.curve.n])
    (hbias : ∀ v ∈ (O cid).uniq j, |e v| < 2 ^ (bitLength obj.curve.n - bits))
    (kk : Nat) (win : List Triple) (hwin : (sizeLoop windowSizes ((O cid).uniq j))[kk]? = some win)
    (hbits : bits ≤ bitLength obj.curve.n)
    (hthr : 2 * bitLength obj.curve.n + 2 * (win.length - 1) ≤ (win.length - 1) * bits) :
    (∃ ab lat cs, hnpParamsList obj.curve.n win = .ok ab ∧
      getLattice (argA ab) (argB ab) none obj.curve.n .generalized
        (env.fbOf obj.curve.n win.length) = .ok lat ∧
      lincomb (win.length + 2) (mult :: y :: cs) lat =
        plantedRowGen (defaultW .generalized win.length 0) mult y (win.map e) ∧
      (∀ v ∈ (win.map e).map (· * defaultW .generalized win.length 0),
        |v| < biasBound obj.curve.n bits (defaultW .generalized win.length 0)) ∧
      ScaleShort obj.curve.n (win.length - 1) 2 (2 ^ (bitLength obj.curve.n - bits))) ∧
    ((∀ r ∈ lll j kk 0, 2 ≤ r.length) →
      PMMem (plantedRowGen (defaultW .generalized win.length 0) mult y (win.map e)) (lll j kk 0) →
      ∀ bi s, arts[bi]? = some s → s.curve = cid → s.key = key →
        verdictOf res.writes bi = some (posVerdict d)) := by
  have hsub := (window_subset _ win (List.mem_of_getElem? hwin)).1
  obtain ⟨wab, hwab, hgcd⟩ := window_params S j hj kk win hwin
  constructor
  · obtain ⟨ab, hab, lat, cs, h1, h2, h3, h4, _⟩ := sigs_generalized_any obj.curve.n S.nPrime d S.dLt
      win nonce mult y top e bits (env.fbOf obj.curve.n win.length) hm hy hgcd
      (fun v hv => hsig v (hsub v hv)) (fun v hv => hmul v (hsub v hv))
      (fun v hv => hbias v (hsub v hv)) hbits hthr
    exact ⟨ab, lat, cs, hab, h1, h2, h3, h4⟩
  · intro hrows hlll
    exact chain_bias_post (b := 4) rfl S (by intro h; cases h) j hj kk win hwin hrows mult y _ hy hm
      hlll

/-! ### 2c. the statements of Props/C08Chain.lean are the instances `x := d` -/

/-- `C08Chain.chain_msb` from `chain_bias_post_planted` — without its bias hypothesis. -/
example {O : Nat → GroupOracle} {factory : Factory} {arts : List Sig} {res : CheckResult}
    {cid : Nat} {obj : CurveObj} {key : Key} {d : Nat} {env : SolverEnv}
    {lll : Nat → Nat → LllAnswers}
    (S : Setting (.biased (.bias 1)) O factory arts res cid obj key d env lll)
    (j : Nat) (hj : j < (mapIssuerSigIndexes ((groupFrom cid 0 arts).map Prod.snd)).length)
    (nonce : Triple → Int)
    (kk : Nat) (win : List Triple) (hwin : (sizeLoop windowSizes ((O cid).uniq j))[kk]? = some win)
    (hrows : ∀ r ∈ lll j kk 0, 2 ≤ r.length)
    (hlll : PMMem (plantedRow obj.curve.n (defaultW .msb win.length 0) d (win.map nonce))
      (lll j kk 0)) :
    ∀ bi s, arts[bi]? = some s → s.curve = cid → s.key = key →
      verdictOf res.writes bi = some (posVerdict d) :=
  chain_bias_post_planted (b := 1) rfl S (by intro h; cases h) j hj kk win hwin hrows _ d _
    (Int.ModEq.refl _) hlll

/-! ## 3. The LLL oracle stated without the key — where the bias IS used -/

/-- **the oracle, key-free** (interface for a Lovász-type argument; NOT proved, and only the
planted instance of it is measured on the real code): every row `(n·w+1, x, e_i·w)` of the lattice
whose small parts are below `2^(bl − bits)`, with `ScaleShort n M r 2^(bl − bits)`, appears in the
LLL answer up to sign and up to the representative of the key coordinate. -/
def LLLReturnsShort (n : Nat) (w : Int) (M r bits : Nat) (lat basis : List (List Int)) : Prop :=
  ∀ (x : Int) (es cs : List Int),
    lincomb (es.length + 2) (1 :: x :: cs) lat = plantedRow n w x es →
    (∀ e ∈ es, |e| < 2 ^ (bitLength n - bits)) → ScaleShort n M r (2 ^ (bitLength n - bits)) →
    ∃ x', x' ≡ x [ZMOD (n : Int)] ∧ PMMem (plantedRow n w x' es) basis

/-- **MSB from the key-free oracle — the bias is used.**  Signatures of `d` with nonces
`0 ≤ k < 2^(bl − bits)`, the margin, and an LLL answer that returns the short rows of the lattice of
the call: `HiddenNumberProblem(a, b, None, n, MSB)` returns a list containing `d`.  With `bits = 0`
the margin is unsatisfiable and `ScaleShort` false: the theorem says nothing about unbiased
nonces. -/
theorem sigs_msb_of_lll_short (n : Nat) (hp : n.Prime) (d : Nat) (hd : d < n) (vals : List Triple)
    (nonce : Triple → Int) (bits fb : Nat)
    (hs : ∀ v ∈ vals, Int.gcd (v.2.1 : Int) n = 1)
    (hsig : ∀ v ∈ vals, SignedWith n d v (nonce v))
    (hbias : ∀ v ∈ vals, 0 ≤ nonce v ∧ nonce v < 2 ^ (bitLength n - bits))
    (hbits : bits ≤ bitLength n)
    (hthr : 1 * bitLength n + 2 * vals.length ≤ vals.length * bits)
    (basis : List (List Int)) (hrows : ∀ r ∈ basis, 2 ≤ r.length)
    (horacle : ∀ ab lat, hnpParamsList n vals = .ok ab →
      getLattice (argA ab) (argB ab) none n .msb fb = .ok lat →
      LLLReturnsShort n (defaultW .msb vals.length fb) vals.length 1 bits lat basis) :
    ∃ ab gs, hnpParamsList n vals = .ok ab ∧
      hiddenNumberProblem (argA ab) (argB ab) none n .msb fb basis = .ok gs ∧ d ∈ gs := by
  obtain ⟨ab, hab, lat, cs, h1, h2, h3, h4, _⟩ := sigs_msb_any n hp d hd d (Int.ModEq.refl _) vals nonce
    bits fb hs hsig hbias hbits hthr
  have hlen : (vals.map nonce).length = vals.length := by simp
  obtain ⟨x', hx', hin⟩ := horacle ab lat hab h1 (d : Int) (vals.map nonce) cs
    (by rw [hlen]; exact h2)
    (fun e he => by
      obtain ⟨v, hv, rfl⟩ := List.mem_map.mp he
      rw [abs_of_nonneg (hbias v hv).1]; exact (hbias v hv).2)
    h4
  obtain ⟨ab', hab', _, _, _, _, _, _, hpost⟩ := sigs_msb_any n hp d hd x' hx' vals nonce
    bits fb hs hsig hbias hbits hthr
  rw [hab] at hab'; cases hab'
  obtain ⟨gs, hg1, hg2⟩ := hpost basis hrows hin
  exact ⟨ab, gs, hab, hg1, hg2⟩

/-! ## 4. Cr50 U2F: the digit bound that `C08Chain.sandwich_cr50` only used for its sign -/

/-- **Cr50 sandwich with the bound.**  As `C08Chain.sandwich_cr50`; PRE now also states that every
entry of the planted row `(c¹, c², −256, 0)` is at most 256 in absolute value (this is where the
hypothesis `c < 256` is used) and that this is short: `Cr50Short n 256`, `(2·256)^D < 256·n = det`,
`D = 2·words + 2` — false for unbiased 32-bit words (`cr50Short_words_false`).  The row LLL returns
is literally this row or its negative (8 of 8 recorded runs). -/
theorem sandwich_cr50_short (n : Nat) (hp : n.Prime) (hbl : bitLength n % 32 = 0) (d : Nat)
    (hd : d < n) (v1 v2 : Triple) (c1 c2 : List Int)
    (h1 : c1.length = (cr50Basis (bitLength n)).length)
    (h2 : c2.length = (cr50Basis (bitLength n)).length)
    (hd1 : ∀ c ∈ c1, 0 ≤ c ∧ c < 256) (hd2 : ∀ c ∈ c2, 0 ≤ c ∧ c < 256)
    (hs1 : SignedWith n d v1 (dotZip (cr50Basis (bitLength n)) c1))
    (hs2 : SignedWith n d v2 (dotZip (cr50Basis (bitLength n)) c2))
    (hr1 : ¬ n ∣ v1.1) (hr2 : ¬ n ∣ v2.1) :
    ((∃ rows q, cr50Lattice ((v2.1 : Int) * v1.2.1 % (n : Int)) (-(v1.1 : Int) * v2.2.1 % (n : Int))
        (((v2.1 : Int) * v1.2.2 - (v1.1 : Int) * v2.2.2) % (n : Int)) n
        (cr50Basis (bitLength n)) = .ok rows ∧
      lincomb (2 * (cr50Basis (bitLength n)).length + 2) (c1 ++ (c2 ++ [-1, -q])) rows =
        plantedRowCr50 c1 c2) ∧
      (∀ v ∈ plantedRowCr50 c1 c2, |v| ≤ 256) ∧ Cr50Short n 256) ∧
    ∀ reduced : List (List Int), PMMem (plantedRowCr50 c1 c2) reduced →
      ∃ gs, cr50Guesses v1.1 v1.2.1 v1.2.2 v2.1 v2.2.1 v2.2.2 n reduced = .ok gs ∧ d ∈ gs := by
  obtain ⟨hpre, hpost⟩ := sandwich_cr50 n hp hbl d hd v1 v2 c1 c2 h1 h2 hd1 hd2 hs1 hs2 hr1 hr2
  refine ⟨⟨hpre, ?_, cr50Short_bytes n hp.ne_zero hbl⟩, hpost⟩
  intro v hv
  simp only [plantedRowCr50, List.mem_append, List.mem_cons, List.not_mem_nil, or_false] at hv
  rcases hv with hv | hv | rfl | rfl
  · have := hd1 v hv; rw [abs_of_nonneg this.1]; omega
  · have := hd2 v hv; rw [abs_of_nonneg this.1]; omega
  · norm_num
  · norm_num

/-- **chain, CheckCr50U2f, bound carried.** -/
theorem chain_cr50_short {O : Nat → GroupOracle} {factory : Factory} {arts : List Sig}
    {res : CheckResult} {cid : Nat} {obj : CurveObj} {key : Key} {d : Nat} {env : SolverEnv}
    {lll : Nat → Nat → LllAnswers}
    (S : Setting .cr50 O factory arts res cid obj key d env lll)
    (hbl : bitLength obj.curve.n % 32 = 0)
    (j : Nat) (hj : j < (mapIssuerSigIndexes ((groupFrom cid 0 arts).map Prod.snd)).length)
    (kk : Nat) (v1 v2 : Triple) (hv1 : ((O cid).uniq j)[kk]? = some v1)
    (hv2 : ((O cid).uniq j)[kk + 1]? = some v2) (c1 c2 : List Int)
    (h1 : c1.length = (cr50Basis (bitLength obj.curve.n)).length)
    (h2 : c2.length = (cr50Basis (bitLength obj.curve.n)).length)
    (hd1 : ∀ c ∈ c1, 0 ≤ c ∧ c < 256) (hd2 : ∀ c ∈ c2, 0 ≤ c ∧ c < 256)
    (hs1 : SignedWith obj.curve.n d v1 (dotZip (cr50Basis (bitLength obj.curve.n)) c1))
    (hs2 : SignedWith obj.curve.n d v2 (dotZip (cr50Basis (bitLength obj.curve.n)) c2))
    (hr1 : ¬ obj.curve.n ∣ v1.1) (hr2 : ¬ obj.curve.n ∣ v2.1) :
    ((∃ rows q, cr50Lattice ((v2.1 : Int) * v1.2.1 % (obj.curve.n : Int))
        (-(v1.1 : Int) * v2.2.1 % (obj.curve.n : Int))
        (((v2.1 : Int) * v1.2.2 - (v1.1 : Int) * v2.2.2) % (obj.curve.n : Int)) obj.curve.n
        (cr50Basis (bitLength obj.curve.n)) = .ok rows ∧
      lincomb (2 * (cr50Basis (bitLength obj.curve.n)).length + 2) (c1 ++ (c2 ++ [-1, -q])) rows =
        plantedRowCr50 c1 c2) ∧
      (∀ v ∈ plantedRowCr50 c1 c2, |v| ≤ 256) ∧ Cr50Short obj.curve.n 256) ∧
    (PMMem (plantedRowCr50 c1 c2) (lll j kk 0) →
      ∀ bi s, arts[bi]? = some s → s.curve = cid → s.key = key →
        verdictOf res.writes bi = some (posVerdict d)) := by
  obtain ⟨hpre, _⟩ := sandwich_cr50_short obj.curve.n S.nPrime hbl d S.dLt v1 v2 c1 c2 h1 h2 hd1 hd2
    hs1 hs2 hr1 hr2
  exact ⟨hpre, fun hlll => chain_cr50 S hbl j hj kk v1 v2 hv1 hv2 c1 c2 h1 h2 hd1 hd2 hs1 hs2 hr1 hr2
    hlll⟩

/-! ## 5. LCG: any representative, and a bound that is about the entries -/

/-- **LCG sandwich.**  As `C08Chain.sandwich_lcg`, with the bound stated on the actual entries: a
positive weight, `|e_t| < B` for the parts `e_t ≡ A_t + B_t·x` ⇒ every tail entry of the planted row
is below `B·w` (against `n·w` on the diagonal).  There is no `bits` here: how small
`c_j·k_i − d_j mod n` is for GMP's generator is a property of the shipped constants (measured, not
proved — Props/C08ChainAnyEx.lean evaluates `ScaleShort n M 1 B` on a real instance). -/
theorem sandwich_lcg_any (a b : List Int) (x : Int) (curve n : Nat) (lcg : Option Nat)
    (f : SearchFlags) (factory : List LcgMeta) (oracle : Nat → List (List Int)) (hp : n.Prime)
    (hlen : a.length = b.length) (hf : f.none = false)
    (hmeta : ∀ m ∈ factory, entrySelected m curve lcg = true → MetaOk m)
    (k : Nat) (s : HnpSubset) (hs : (hnpSubsets a b curve lcg f factory).yields[k]? = some s)
    (es : List Int) (hes : es.length = s.a.length * s.constants.length)
    (hrel : ∀ t, t < s.a.length * s.constants.length →
      ent (precompAs s.a n s.constants) t + ent (precompBs s.a s.b n s.constants) t * x ≡
        ent es t [ZMOD n])
    (B : Int) (hw : 0 < s.w) (hB : ∀ e ∈ es, |e| < B)
    (hrows : ∀ i, ∀ r ∈ oracle i, 2 ≤ r.length) :
    ∃ rows cs, precompLattice s.a s.b n s.constants s.w = .ok rows ∧
      lincomb (s.a.length * s.constants.length + 2) (1 :: x :: cs) rows = plantedRow n s.w x es ∧
      (∀ v ∈ es.map (· * s.w), |v| < B * s.w) ∧
      (PMMem (plantedRow n s.w x es) (oracle k) →
        ∃ gs, hnpForCurve a b curve (some (some n)) lcg f factory oracle = .ok gs ∧
          (x % (n : Int)).toNat ∈ gs) := by
  obtain ⟨rows, cs, h1, h2, h3, h4⟩ := sandwich_lcg a b x curve n lcg f factory oracle hp hlen hf
    hmeta k s hs es hes hrel hrows
  exact ⟨rows, cs, h1, h2, h3 B hw hB, h4⟩

/-- **chain, CheckLCGNonceGMP / CheckLCGNonceJavaUtilRandom**, any `x ≡ d` in the key position, the
bound carried.  (`hrel` is stated with `d`; it only depends on the class of the key.) -/
theorem chain_lcg_any {name flags : Nat} {O : Nat → GroupOracle} {factory : Factory}
    {arts : List Sig} {res : CheckResult} {cid : Nat} {obj : CurveObj} {key : Key} {d : Nat}
    {env : SolverEnv} {lll : Nat → Nat → LllAnswers}
    (S : Setting (.biased (.lcg name flags)) O factory arts res cid obj key d env lll)
    (j : Nat) (hj : j < (mapIssuerSigIndexes ((groupFrom cid 0 arts).map Prod.snd)).length)
    (ab : List (Nat × Nat)) (hab : hnpParamsList obj.curve.n ((O cid).uniq j) = .ok ab)
    (hf : (flagsOfNat flags).none = false)
    (hmeta : ∀ m ∈ env.lcgFactory, entrySelected m cid (some name) = true → MetaOk m)
    (k : Nat) (s : HnpSubset)
    (hs : (hnpSubsets (argA ab) (argB ab) cid (some name) (flagsOfNat flags)
      env.lcgFactory).yields[k]? = some s)
    (es : List Int) (hes : es.length = s.a.length * s.constants.length)
    (hrel : ∀ t, t < s.a.length * s.constants.length →
      ent (precompAs s.a obj.curve.n s.constants) t +
        ent (precompBs s.a s.b obj.curve.n s.constants) t * d ≡ ent es t [ZMOD obj.curve.n])
    (x : Int) (hx : x ≡ (d : Int) [ZMOD (obj.curve.n : Int)])
    (B : Int) (hw : 0 < s.w) (hB : ∀ e ∈ es, |e| < B)
    (hrows : ∀ i, ∀ r ∈ lll j 0 i, 2 ≤ r.length) :
    (∃ rows cs, precompLattice s.a s.b obj.curve.n s.constants s.w = .ok rows ∧
      lincomb (s.a.length * s.constants.length + 2) (1 :: x :: cs) rows =
        plantedRow obj.curve.n s.w x es ∧
      (∀ v ∈ es.map (· * s.w), |v| < B * s.w)) ∧
    (PMMem (plantedRow obj.curve.n s.w x es) (lll j 0 k) →
      ∀ bi s', arts[bi]? = some s' → s'.curve = cid → s'.key = key →
        verdictOf res.writes bi = some (posVerdict d)) := by
  have hlen : (argA ab).length = (argB ab).length := by simp [natsToInts]
  have hrel' : ∀ t, t < s.a.length * s.constants.length →
      ent (precompAs s.a obj.curve.n s.constants) t +
        ent (precompBs s.a s.b obj.curve.n s.constants) t * x ≡ ent es t [ZMOD obj.curve.n] := by
    intro t ht
    exact ((hx.mul_left _).add_left _).trans (hrel t ht)
  obtain ⟨rows, cs, h1, h2, h3, hpost⟩ := sandwich_lcg_any (argA ab) (argB ab) x cid obj.curve.n
    (some name) (flagsOfNat flags) env.lcgFactory (lll j 0) S.nPrime hlen hf hmeta k s hs es hes hrel'
    B hw hB hrows
  refine ⟨⟨rows, cs, h1, h2, h3⟩, fun hlll => ?_⟩
  obtain ⟨gs, hgs, hdgs⟩ := hpost hlll
  rw [toNat_of_modEq x d obj.curve.n S.dLt hx] at hdgs
  exact chain_forcurve name flags O factory arts res S.factoryOK S.factoryReduced S.nodup
    S.guessConsistent S.checked cid obj S.hobj S.gOrder key S.keyReduced d S.dLt S.keyOf env S.envN
    lll S.solved j hj ab hab gs hgs hdgs

end Paranoid.C08ChainAny
