/-
Props/C09.lean — "The nonce relation extracted from any ECDSA signature is exact".

Property theorems only; helper lemmas live in Proofs/Basic.lean and Proofs/Ecdsa.lean, the
RFC 6979 bit-string definitions in Spec/Rfc6979.lean.

All statements are universally quantified: every curve order `n` (only `n`, never the curve,
enters the modelled functions), every `d`, `k`, `r`, `s`, every hash length `hlen` (shorter,
equal, longer than the order length `qlen = bitLength n`, `qlen` a multiple of 8 or not —
521), every byte string including leading zero bytes.  No size bound anywhere.
-/
import ParanoidModel.Proofs.Ecdsa
namespace Paranoid.C09
open Paranoid Paranoid.Rfc6979

/-! ### `gmpy.invert` (shared with the EC arithmetic model) -/

/-- `invMod a m` (`gmpy2.invert`) for `m ≥ 2`: either `gcd(a, m) = 1` and it returns the
inverse `x < m`, `a·x ≡ 1 (mod m)`, or `gcd(a, m) ≠ 1` and it raises `ZeroDivisionError`.
The fuel `2·bitLength m + 2` of the model's Euclid loop is sufficient for every input. -/
theorem invMod_spec (a : Int) (m : Nat) (hm : 2 ≤ m) :
    (Int.gcd a m = 1 ∧ ∃ x : Nat, invMod a m = .ok x ∧ x < m ∧ (a * x) % (m : Int) = 1) ∨
    (Int.gcd a m ≠ 1 ∧ invMod a m = .error .zeroDivision) :=
  invMod_cases a m hm

theorem invMod_ok (a : Int) (m x : Nat) (hm : 2 ≤ m) (h : invMod a m = .ok x) :
    (a * x) % (m : Int) = 1 ∧ x < m ∧ Int.gcd a m = 1 := by
  rcases invMod_cases a m hm with ⟨hg, y, hy, h1, h2⟩ | ⟨_, he⟩
  · rw [hy] at h
    cases h
    exact ⟨h2, h1, hg⟩
  · rw [he] at h; cases h

theorem invMod_error_iff (a : Int) (m : Nat) (hm : 2 ≤ m) (e : PyErr) :
    invMod a m = .error e ↔ (e = .zeroDivision ∧ Int.gcd a m ≠ 1) := by
  rcases invMod_cases a m hm with ⟨hg, y, hy, _, _⟩ | ⟨hg, he⟩
  · simp [hy, hg]
  · simp only [he, Except.error.injEq, hg, ne_eq, not_false_eq_true, and_true]
    exact eq_comm

/-! ### The nonce relation -/

/-- ★ `hnparams`. For a prime order `n`, any `d, k, z, r, s` with the ECDSA signing equation
`s = k⁻¹ (z + r d)` in `ZMod n`, `k ≠ 0`, `s ≠ 0`: `HiddenNumberParams(r, s, z)` returns a
pair `(a, b)`, `a, b < n`, with `k = a + b d` in `ZMod n`. -/
theorem hnparams (n : Nat) [Fact n.Prime] (r s z d k : Int)
    (hk : (k : ZMod n) ≠ 0) (hs : (s : ZMod n) ≠ 0)
    (hsig : (s : ZMod n) = (k : ZMod n)⁻¹ * ((z : ZMod n) + r * d)) :
    ∃ a b : Nat, hiddenNumberParams n r s z = .ok (a, b) ∧ a < n ∧ b < n ∧
      (k : ZMod n) = (a : ZMod n) + (b : ZMod n) * d :=
  hnparams_zmod n r s z d k hk hs hsig

/-- the same law without primality: any modulus `n ≥ 2`, any `s` coprime to `n`, signing
equation in the division-free form `s·k ≡ z + r·d`. (Covers `r`, `s`, `z ≥ n` or negative.) -/
theorem hnparams_general (n : Nat) (hn : 2 ≤ n) (r s z d k : Int)
    (hs : Int.gcd s n = 1) (hsig : s * k ≡ z + r * d [ZMOD (n : Int)]) :
    ∃ a b : Nat, hiddenNumberParams n r s z = .ok (a, b) ∧ a < n ∧ b < n ∧
      (a : Int) + b * d ≡ k [ZMOD (n : Int)] :=
  hiddenNumberParams_spec n hn r s z d k hs hsig

/-- `HiddenNumberParams` raises exactly `ZeroDivisionError`, exactly when `s` is not
invertible modulo `n` (for a prime `n`: exactly when `s ≡ 0`). -/
theorem hnparams_error_iff (n : Nat) (hn : 2 ≤ n) (r s z : Int) (e : PyErr) :
    hiddenNumberParams n r s z = .error e ↔ (e = .zeroDivision ∧ Int.gcd s n ≠ 1) :=
  hiddenNumberParams_error_iff n hn r s z e

/-! ### Hash truncation = RFC 6979 -/

/-- ★ `transform_rfc6979`. For every order `n > 0`, every `hlen` and every `h < 2^hlen`:
`TransformOrderLen(h, hlen)` is RFC 6979 `bits2int` (section 2.3.2: keep the `qlen` leftmost
bits if `qlen < hlen`, else pad with zeros on the left) applied to the `hlen`-bit big-endian
bit string of `h`, followed by reduction modulo `n`. -/
theorem transform_rfc6979 (n h hlen : Nat) (hn : n ≠ 0) (hh : h < 2 ^ hlen) :
    transformOrderLen n (h : Int) (hlen : Int) =
      .ok (bits2int (bitLength n) (toBits h hlen) % n) :=
  transformOrderLen_bits n h hlen hn hh

/-- the three cases written out: `hlen` longer than `qlen` — shift right by the difference;
equal or shorter — unchanged; then `% n`. Needs no bound on `h`. -/
theorem transform_cases (n h hlen : Nat) (hn : n ≠ 0) :
    transformOrderLen n (h : Int) (hlen : Int) =
      .ok ((if bitLength n < hlen then h >>> (hlen - bitLength n) else h) % n) :=
  transformOrderLen_nat n h hlen hn

/-- RFC 6979 reduces `z1 = bits2int(h)` by ONE conditional subtraction (`bits2octets`,
section 2.3.4); the code uses `% n`. They are equal on every value `bits2int` can produce,
because `bits2int < 2^qlen ≤ 2n`. -/
theorem transform_reduce_once (n : Nat) (hn : n ≠ 0) (b : List Bool) :
    bits2int (bitLength n) b % n = reduceOnce (bits2int (bitLength n) b) n :=
  mod_eq_reduceOnce n _ hn (bits2int_lt _ _)

/-- `TransformOrderLen` with order `0` raises `ZeroDivisionError` (`mpz % 0`). -/
theorem transform_zero (h hlen : Int) : transformOrderLen 0 h hlen = .error .zeroDivision := rfl

/-- ★ `ecdsaValues`: composition of `Bytes2Int` on the three fields with
`TransformOrderLen(·, 8 * len(message_hash))`. -/
theorem ecdsaValues_composition (n : Nat) (r s mh : List Nat) :
    ecdsaValues n r s mh =
      (transformOrderLen n (bytes2int mh) ((8 * mh.length : Nat) : Int)).map
        (fun z => (bytes2int r, bytes2int s, z)) :=
  ecdsaValues_comp n r s mh

/-- … hence, on octet strings (`hlen = 8·len`, every length incl. 0), `z` is `bits2int` of the
hash's own bit sequence reduced modulo `n`. -/
theorem ecdsaValues_rfc6979 (n : Nat) (r s mh : List Nat) (hn : n ≠ 0)
    (hmh : ∀ x ∈ mh, x < 256) :
    ecdsaValues n r s mh =
      .ok (bytes2int r, bytes2int s, bits2int (bitLength n) (octetsToBits mh) % n) :=
  ecdsaValues_eq n r s mh hn hmh

/-- End to end: for a prime order `n`, signature fields `rB`, `sB` and hash `mh` as byte
strings (any leading zeros), private key `d` and nonce `k` with
`s·k ≡ bits2int(mh) + r·d (mod n)` and `s ≢ 0`: the `(a, b)` the library derives via
`ECDSAValues` and `HiddenNumberParams` satisfy `k ≡ a + b·d (mod n)`. -/
theorem nonce_relation (n : Nat) (hp : n.Prime) (rB sB mh : List Nat) (d k : Int)
    (hmh : ∀ x ∈ mh, x < 256)
    (hs : (bytes2int sB : Int) % (n : Int) ≠ 0)
    (hsig : (bytes2int sB : Int) * k ≡
      (bits2int (bitLength n) (octetsToBits mh) : Int) + (bytes2int rB : Int) * d [ZMOD (n : Int)]) :
    ∃ r s z a b : Nat, ecdsaValues n rB sB mh = .ok (r, s, z) ∧
      hiddenNumberParams n r s z = .ok (a, b) ∧ a < n ∧ b < n ∧
      (a : Int) + b * d ≡ k [ZMOD (n : Int)] := by
  have hn : n ≠ 0 := hp.ne_zero
  have hz : ((bits2int (bitLength n) (octetsToBits mh) % n : Nat) : Int) ≡
      (bits2int (bitLength n) (octetsToBits mh) : Int) [ZMOD (n : Int)] := by
    rw [Int.natCast_mod]; exact Int.mod_modEq _ _
  obtain ⟨a, b, h1, h2, h3, h4⟩ := hiddenNumberParams_spec n hp.two_le (bytes2int rB)
    (bytes2int sB) ((bits2int (bitLength n) (octetsToBits mh) % n : Nat) : Int) d k
    (gcd_eq_one_of_prime n hp _ hs) (hsig.trans (hz.symm.add_right _))
  exact ⟨_, _, _, a, b, ecdsaValues_eq n rB sB mh hn hmh, h1, h2, h3, h4⟩

/-! ### Byte / integer conversions -/

/-- ★ `Bytes2Int(Int2Bytes(v)) = v` for every `v ≥ 0`. -/
theorem bytes2int_int2bytes (v : Nat) : bytes2int (int2bytes v) = v :=
  Paranoid.bytes2int_int2bytes v

/-- `Int2Bytes` of a negative value raises `OverflowError`; of `v ≥ 0` it is the minimal
big-endian encoding. -/
theorem int2bytesI_cases (v : Int) :
    (0 ≤ v ∧ int2bytesI v = .ok (int2bytes v.toNat)) ∨ (v < 0 ∧ int2bytesI v = .error .overflow) := by
  cases v with
  | ofNat n => left; exact ⟨Int.natCast_nonneg n, rfl⟩
  | negSucc n => right; exact ⟨Int.negSucc_lt_zero n, rfl⟩

/-- ★ `Int2Bytes(Bytes2Int(b))` is `b` without its leading zero bytes, for every byte
string `b` — so a field with leading zeros denotes the same integer and re-encodes
minimally. -/
theorem int2bytes_bytes2int (b : List Nat) (h : ∀ x ∈ b, x < 256) :
    int2bytes (bytes2int b) = b.dropWhile (· = 0) :=
  Paranoid.int2bytes_bytes2int b h

/-- leading zero bytes never change the value read from a field. -/
theorem bytes2int_leading_zeros (k : Nat) (b : List Nat) :
    bytes2int (List.replicate k 0 ++ b) = bytes2int b :=
  bytes2int_zeros_append k b

/-- the output of `Int2Bytes` is a byte string (entries `< 256`) with no leading zero. -/
theorem int2bytes_bytes (v : Nat) : (∀ x ∈ int2bytes v, x < 256) ∧ (int2bytes v).head? ≠ some 0 := by
  refine ⟨int2bytesLen_lt v _, ?_⟩
  have h := Paranoid.int2bytes_bytes2int (int2bytes v) (int2bytesLen_lt v _)
  rw [Paranoid.bytes2int_int2bytes] at h
  intro h0
  have := List.head?_dropWhile_not (· = 0) (int2bytes v)
  rw [← h, h0] at this
  simp at this

/-- `PublicPoint` reads both coordinates big-endian. -/
theorem publicPoint_eq (x y : List Nat) : publicPoint x y = (bytes2int x, bytes2int y) := rfl

/-- ★ `Hex2Bytes` on a string of `L` hex digits: `⌈L/2⌉` bytes whose big-endian value is the
number the digits denote; an odd-length string is padded with one `0` digit on the LEFT. -/
theorem hex2bytes_digits (s : List Char) (hh : AllHex s) :
    ∃ bs, hex2bytes s = .ok bs ∧ bs.length = (s.length + 1) / 2 ∧ (∀ x ∈ bs, x < 256) ∧
      bytes2int bs = hexNum s :=
  hex2bytes_hex s hh

/-- `bytes.fromhex` skips ASCII whitespace standing before a byte (note that `Hex2Bytes`
counts such characters in its parity test, so `"ab cd"` — odd length — becomes `"0ab cd"` and
is rejected, while `"ab  cd"` is accepted). -/
theorem fromHex_whitespace (c : Char) (s : List Char) (hc : isPySpace c = true) :
    fromHex (c :: s) = fromHex s :=
  fromHex_skip_space c s hc

/-- the only exception `Hex2Bytes` can raise is `ValueError`. -/
theorem hex2bytes_raises (s : List Char) (e : PyErr) (h : hex2bytes s = .error e) :
    e = .valueError :=
  hex2bytes_error s e h

/-! Non-vacuity: concrete inputs meeting the hypotheses. -/

-- toy prime order 23 (qlen = 5), d = 7, k = 10, r = 9, hash bytes [0xff] (8 bits > 5 bits):
-- e = 0xff >> 3 = 31, z = 31 % 23 = 8, s = k⁻¹ (e + r d) = 7 * (31 + 63) % 23 = 14.
example : bits2int (bitLength 23) (octetsToBits [0xff]) = 31 := by decide +kernel
example : ((14 : Int) * 10 - (31 + 9 * 7)) % 23 = 0 := by decide
example : ecdsaValues 23 [0, 9] [0, 0, 14] [0xff] = .ok (9, 14, 8) := by decide +kernel
example : hiddenNumberParams 23 9 14 8 = .ok (17, 22) := by decide +kernel
example : ((17 : Int) + 22 * 7 - 10) % 23 = 0 := by decide
example : hiddenNumberParams 23 9 46 8 = .error .zeroDivision := by decide +kernel
example : hiddenNumberParams 24 9 14 8 = .error .zeroDivision := by decide +kernel
-- hlen shorter (4 < 5), equal (5) and longer (16 > 5) than qlen
example : transformOrderLen 23 0xf 4 = .ok 15 := by decide +kernel
example : transformOrderLen 23 0x1f 5 = .ok 8 := by decide +kernel
example : transformOrderLen 23 0xffff 16 = .ok 8 := by decide +kernel
example : int2bytes (bytes2int [0, 0, 1, 0]) = [1, 0] := by decide +kernel
example : hex2bytes "abc".toList = .ok [0x0a, 0xbc] := by decide +kernel
example : hex2bytes "ab c".toList = .error .valueError := by decide +kernel
example : hex2bytes "ab cd".toList = .error .valueError := by decide +kernel
example : hex2bytes "ab  cd".toList = .ok [0xab, 0xcd] := by decide +kernel

end Paranoid.C09
