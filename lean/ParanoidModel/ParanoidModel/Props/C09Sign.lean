/-
Props/C09Sign.lean — extension of C09: the signing side.

`Props/C09.lean` states the nonce relation under the *hypothesis* that `(r, s)` satisfies the
signing equation. Here the hypothesis is discharged by construction: `signS` is the textbook
ECDSA computation of `s` (FIPS 186-4 section 6.4: `s = k⁻¹ (z + r·d) mod n`) written with the
model's own `invMod` / `mulMod`, and `sign_then_extract` says that for EVERY `d`, `k`, `z`, `r`
for which the signer returns a usable `s` (invertible modulo `n`) the pair the library derives
satisfies `k ≡ a + b·d`.  Also: the exact values of the derived pair (`a ≡ z·s⁻¹`,
`b ≡ r·s⁻¹`), and uniqueness — any other reduced pair with `a'·s ≡ z`, `b'·s ≡ r` is the
returned one — so "the relation is exact" cannot be met by a different pair.
No size bound, no primality assumption (`n ≥ 2`; for prime `n` the coprimality hypotheses are
`k ≢ 0`, `s ≢ 0`, see `sign_then_extract_prime`).
-/
import ParanoidModel.Proofs.Ecdsa
namespace Paranoid.C09
open Paranoid

/-- the signer's `s` satisfies the division-free signing equation `s·k ≡ z + r·d (mod n)`. -/
theorem signS_equation (n : Nat) (hn : 2 ≤ n) (r z d k : Int) (s : Nat)
    (h : signS n r z d k = .ok s) :
    (s : Int) * k ≡ z + r * d [ZMOD (n : Int)] ∧ s < n := by
  unfold signS at h
  rcases invMod_cases k n hn with ⟨_, ki, hki, _, hinv⟩ | ⟨_, herr⟩
  · rw [hki] at h
    cases h
    obtain ⟨hlt, hc⟩ := mulMod_spec (z + r * d) ki n (by omega)
    refine ⟨?_, hlt⟩
    have hinv' : k * ki ≡ 1 [ZMOD (n : Int)] := by
      rw [Int.ModEq, hinv]; symm; exact Int.emod_eq_of_lt (by omega) (by omega)
    calc (mulMod (z + r * d) ki n : Int) * k
        ≡ (z + r * d) * ki * k [ZMOD (n : Int)] := hc.mul_right k
      _ = (z + r * d) * (k * ki) := by ring
      _ ≡ (z + r * d) * 1 [ZMOD (n : Int)] := hinv'.mul_left _
      _ = z + r * d := by ring
  · rw [herr] at h; cases h

/-- ★ sign, then extract: for every modulus `n ≥ 2`, every `r, z, d, k`, if the signer returns
`s` and `s` is invertible modulo `n` (a valid signature has `s ≠ 0`; `n` prime), then
`HiddenNumberParams(r, s, z)` returns `(a, b)` with `a, b < n` and `k ≡ a + b·d (mod n)`. -/
theorem sign_then_extract (n : Nat) (hn : 2 ≤ n) (r z d k : Int) (s : Nat)
    (h : signS n r z d k = .ok s) (hs : Int.gcd (s : Int) n = 1) :
    ∃ a b : Nat, hiddenNumberParams n r s z = .ok (a, b) ∧ a < n ∧ b < n ∧
      (a : Int) + b * d ≡ k [ZMOD (n : Int)] :=
  hiddenNumberParams_spec n hn r s z d k hs (signS_equation n hn r z d k s h).1

/-- the same for a prime order: `s ≢ 0` is enough. -/
theorem sign_then_extract_prime (n : Nat) (hp : n.Prime) (r z d k : Int) (s : Nat)
    (h : signS n r z d k = .ok s) (hs : s ≠ 0) :
    ∃ a b : Nat, hiddenNumberParams n r s z = .ok (a, b) ∧ a < n ∧ b < n ∧
      (a : Int) + b * d ≡ k [ZMOD (n : Int)] := by
  have hlt := (signS_equation n hp.two_le r z d k s h).2
  refine sign_then_extract n hp.two_le r z d k s h (gcd_eq_one_of_prime n hp _ ?_)
  rw [Int.emod_eq_of_lt (by omega) (by omega)]
  omega

/-- the signer raises exactly when the nonce is not invertible modulo `n`, and then exactly
`ZeroDivisionError`. -/
theorem signS_error_iff (n : Nat) (hn : 2 ≤ n) (r z d k : Int) (e : PyErr) :
    signS n r z d k = .error e ↔ (e = .zeroDivision ∧ Int.gcd k n ≠ 1) := by
  rcases invMod_cases k n hn with ⟨hg, ki, hki, _, _⟩ | ⟨hg, herr⟩
  · simp [signS, hki, hg]
  · simp only [signS, herr, Except.error.injEq, hg, ne_eq, not_false_eq_true, and_true]
    exact eq_comm

/-- ★ exact values: whenever `HiddenNumberParams(r, s, z)` returns `(a, b)`:
`a·s ≡ z` and `b·s ≡ r` modulo `n`, both reduced. (Every input: negative or unreduced
`r, s, z` included.) -/
theorem hnparams_values (n : Nat) (hn : 2 ≤ n) (r s z : Int) (a b : Nat)
    (h : hiddenNumberParams n r s z = .ok (a, b)) :
    a < n ∧ b < n ∧ (a : Int) * s ≡ z [ZMOD (n : Int)] ∧ (b : Int) * s ≡ r [ZMOD (n : Int)] := by
  unfold hiddenNumberParams at h
  rcases invMod_cases s n hn with ⟨_, si, hsi, _, hinv⟩ | ⟨_, herr⟩
  · rw [hsi] at h
    simp only [Except.ok.injEq, Prod.mk.injEq] at h
    obtain ⟨rfl, rfl⟩ := h
    obtain ⟨ha, hac⟩ := mulMod_spec z si n (by omega)
    obtain ⟨hb, hbc⟩ := mulMod_spec r si n (by omega)
    have hinv' : (si : Int) * s ≡ 1 [ZMOD (n : Int)] := by
      rw [Int.ModEq, Int.mul_comm, hinv]; symm; exact Int.emod_eq_of_lt (by omega) (by omega)
    refine ⟨ha, hb, ?_, ?_⟩
    · calc (mulMod z si n : Int) * s ≡ z * si * s [ZMOD (n : Int)] := hac.mul_right s
        _ = z * (si * s) := by ring
        _ ≡ z * 1 [ZMOD (n : Int)] := hinv'.mul_left _
        _ = z := by ring
    · calc (mulMod r si n : Int) * s ≡ r * si * s [ZMOD (n : Int)] := hbc.mul_right s
        _ = r * (si * s) := by ring
        _ ≡ r * 1 [ZMOD (n : Int)] := hinv'.mul_left _
        _ = r := by ring
  · rw [herr] at h; cases h

/-- ★ uniqueness: a reduced pair `(a', b')` with `a'·s ≡ z`, `b'·s ≡ r` IS the returned pair.
So the derived relation is the only reduced relation of this form the signature supports. -/
theorem hnparams_unique (n : Nat) (hn : 2 ≤ n) (r s z : Int) (a b a' b' : Nat)
    (h : hiddenNumberParams n r s z = .ok (a, b))
    (ha' : a' < n) (hb' : b' < n)
    (hza : (a' : Int) * s ≡ z [ZMOD (n : Int)]) (hrb : (b' : Int) * s ≡ r [ZMOD (n : Int)]) :
    a' = a ∧ b' = b := by
  obtain ⟨ha, hb, hz, hr⟩ := hnparams_values n hn r s z a b h
  have hs : Int.gcd s n = 1 := by
    rcases invMod_cases s n hn with ⟨hg, _⟩ | ⟨_, herr⟩
    · exact hg
    · simp [hiddenNumberParams, herr] at h
  have cancel : ∀ x y : Nat, x < n → y < n →
      (x : Int) * s ≡ (y : Int) * s [ZMOD (n : Int)] → x = y := by
    intro x y hx hy hxy
    have hc : (x : Int) ≡ y [ZMOD (n : Int)] := by
      have hcop : Int.gcd (n : Int) s = 1 := by rw [Int.gcd_comm]; exact hs
      have h := Int.ModEq.cancel_right_div_gcd (show (0 : Int) < n by omega) hxy
      rwa [hcop, Nat.cast_one, Int.ediv_one] at h
    have : (x : Int) % n = (y : Int) % n := hc
    rw [Int.emod_eq_of_lt (by omega) (by omega), Int.emod_eq_of_lt (by omega) (by omega)] at this
    exact_mod_cast this
  exact ⟨cancel a' a ha' ha (hza.trans hz.symm), cancel b' b hb' hb (hrb.trans hr.symm)⟩

/-! ### Non-vacuity (toy order 23; d = 7, k = 10, r = 9, z = 8) -/

example : signS 23 9 8 7 10 = .ok 14 := by decide +kernel
example : hiddenNumberParams 23 9 14 8 = .ok (17, 22) := by decide +kernel
example : ((17 : Int) + 22 * 7 - 10) % 23 = 0 := by decide
example : ((17 : Int) * 14 - 8) % 23 = 0 ∧ ((22 : Int) * 14 - 9) % 23 = 0 := by decide
example : signS 23 9 8 7 46 = .error .zeroDivision := by decide +kernel

end Paranoid.C09
