/-
Props/C10.lean — "Small and structured discrete logarithms are always found", together with the
elliptic-curve half of C02 ("every recorded discrete log / key relation is true").
Property theorems only; helper lemmas live in Proofs/Bsgs*.lean.

Setting. Model/Bsgs.lean mirrors `EcCurve.BatchDL`, `ExtendedBatchDL`, `BatchDLOfDifferences` with
the mutable attributes `_table`, `_table_size` as explicit state `EcState`, and the values of
`int(math.sqrt(·))` as explicit arguments (`ts` = requested table size, `m` = PointTable split).
The specification is Mathlib's group `(W c).Point` through `toPoint` (Props/C11.lean);
`Gp c = toPoint c c.g` is the generator. Hypotheses on the curve object: `[Fact c.p.Prime]` and
`ValidCurve c` (both follow from the kernel-evaluated `paramsOK` for the nine named curves, see
`named_curve_valid`); where stated, `addOrderOf G = n` (C11.generator_of_paramsOK: from `n` prime).

Every theorem quantifies over ALL point lists, bounds, oracle values and — through `StateOK` /
`TableIs` — all states left behind by earlier calls.
-/
import ParanoidModel.Proofs.BsgsCurves
import ParanoidModel.Proofs.BsgsFast
import ParanoidModel.Proofs.BsgsCheckLoop
namespace Paranoid.C10
open Paranoid Paranoid.Ec Paranoid.Bsgs WeierstrassCurve

section
variable (c : Curve) [Fact (Nat.Prime c.p)]

/-! ### BatchDL -/

/-- ★ `batchDL_sound` (C02). For EVERY state (even a corrupted table), bound, oracle value and point
list (points on the curve or not): every entry `some v` of the answer satisfies `v • G = P`. Covers
both branches `res[i] = dl` (`y[1] == p[1]`) and `res[i] = -dl` (`y[1] == -p[1] % mod`). -/
theorem batchDL_sound (hv : ValidCurve c) (st : EcState) (points : List Pt) (n ts m : Nat)
    (res : List (Option Int)) (st' : EcState) (h : batchDL c st points n ts m = .ok (res, st')) :
    List.Forall₂ (fun P r => ∀ v, r = some v → v • Gp c = toPoint c P) points res :=
  Bsgs.batchDL_sound c hv.good hv.gOn st points n ts m res st' h

/-- ★ `batchDL_complete`. For every state satisfying the table invariant `StateOK` (the cached table
may be larger OR smaller than the requested one; `history_invariant` shows every reachable state
satisfies it), every requested table size `ts ≥ 1` (so: whatever `int(math.sqrt(n·len))` returned —
and `t = 2·ts - 1` is computed from the REQUESTED size also when a larger cached table is kept),
every split `m ≥ 1` if the table is rebuilt, every list of on-curve points of any length:
the call does not raise; the new state satisfies the invariant with size `max(old, ts)` and is the
old state when no rebuild was needed; and for every reduced point `P = x • G` with `0 ≤ x < n` the
entry is `some v` with `v • G = P`. It is `x` itself under the no-wrap condition
`2·n + (2·ts - 1) + V' ≤ N`, `V' = rangeAfter …` = number of multiples of `G` in the table in use
(`ceil(ts/m)·m` after a rebuild), when `G` has order `N`. -/
theorem batchDL_complete (hv : ValidCurve c) (st : EcState) (V : Nat) (hst : StateOK c st V)
    (points : List Pt) (hpts : ∀ P ∈ points, onCurve c P = true) (n ts m : Nat) (hts : 1 ≤ ts)
    (hm : st.tableSize < ts → 1 ≤ m) :
    ∃ res st', batchDL c st points n ts m = .ok (res, st') ∧
      StateOK c st' (rangeAfter st V ts m) ∧ st'.tableSize = max st.tableSize ts ∧
      (ts ≤ st.tableSize → st' = st) ∧
      List.Forall₂ (fun P r => ∀ x : Nat, Reduced c P → x < n → toPoint c P = x • Gp c →
        ∃ v : Int, r = some v ∧ v • Gp c = toPoint c P ∧
          (addOrderOf (Gp c) = c.n → 2 * n + (2 * ts - 1) + rangeAfter st V ts m ≤ c.n →
            v = (x : Int))) points res :=
  Bsgs.batchDL_complete c hv.good hv.gOn hv.gRed st V hst points hpts n ts m hts hm

omit [Fact (Nat.Prime c.p)] in
/-- the empty list: `table_size = int(sqrt(0)) = 0`, `t = -1`, `giant_steps = 2 - n ≤ 0` for
`n ≥ 2`, and `PointSequence` raises IndexError (the checks guard with `if not keys: continue`). -/
theorem batchDL_empty_raises (st : EcState) (n m : Nat) (hn : 2 ≤ n) :
    batchDL c st [] n 0 m = .error .indexError := by
  have h1 : multiply c c.g (-(2 * ((0 : Nat) : Int) - 1)) = .ok c.g := by
    simp [Curve.g, multiply, multiplyNat]
  have h2 : (2 + Int.fdiv (n : Int) (2 * ((0 : Nat) : Int) - 1)) ≤ 0 := by
    have : Int.fdiv (n : Int) (2 * ((0 : Nat) : Int) - 1) = -(n : Int) := by
      simp [Int.fdiv_eq_ediv_of_dvd]
    omega
  simp only [batchDL, batchDLG, ensureTableG, Nat.not_lt_zero, gt_iff_lt, if_false, batchDLCore, h1,
    pointSequenceI, if_pos h2]

/-! ### ExtendedBatchDL -/

/-- ★ `extendedBatchDL_sound` (C02). For every state, oracle value and point list: if the point at
position `i` is on the curve and `N • P = 0` (a valid public key: in the subgroup), the recorded
value `v` — which is `int(dlog · multiplier)`, unreduced and possibly negative, for the LAST
multiplier in list order whose transformed point `multiplier⁻¹ • P` has a log found by BatchDL —
satisfies `v • G = P`. -/
theorem extendedBatchDL_sound (hv : ValidCurve c) (hn : 2 ≤ c.n) (st : EcState) (points : List Pt)
    (ts m : Nat) (res : List (Option Int)) (st' : EcState)
    (h : extendedBatchDL c st points ts m = .ok (res, st'))
    (i : Nat) (P : Pt) (v : Int) (hP : points[i]? = some P) (hon : onCurve c P = true)
    (hN : c.n • toPoint c P = 0) (hres : res[i]? = some (some v)) : v • Gp c = toPoint c P :=
  extendedBatchDLB_sound c hv.good hv.gOn hn (2 ^ 32) st points ts m res st' h i P v hP hon hN hres

/-- ★ `extended_complete`. Valid curve with `N • G = 0` and every multiplier invertible mod `N`
(`named_curve_valid` for the nine named curves; true for every odd prime `N` not dividing a
repunit); any state satisfying the invariant; any `ts ≥ 1`; any list of on-curve points. The call does
not raise, and a reduced point `P = d • G` whose private key is
`d = i·2^(8j)` (`i < 2^32`, `8j + 32 ≤ bits`, i.e. `j ∈ range(0, bits - 31, 8)/8`) or
`d = i·(2^(32r) - 1)/(2^32 - 1)` (`i < 2^32`, `2 ≤ r ≤ bits // 32`: the 32-bit word `i` repeated `r`
times) is recorded with a value `v` such that `v • G = P`; with `G` of order `N` this is
`v ≡ d (mod N)`. (`v` is not reduced: on curves with `N < 2^32 + …` it can differ from `d`.) -/
theorem extended_complete (hv : ValidCurve c) (hn : 2 ≤ c.n) (hNG : c.n • Gp c = 0)
    (hmu : MultipliersOK c) (st : EcState) (V : Nat) (hst : StateOK c st V) (points : List Pt)
    (hpts : ∀ P ∈ points, onCurve c P = true) (ts m : Nat) (hts : 1 ≤ ts)
    (hm : st.tableSize < ts → 1 ≤ m) :
    ∃ res st', extendedBatchDL c st points ts m = .ok (res, st') ∧
      StateOK c st' (rangeAfter st V ts m) ∧ st'.tableSize = max st.tableSize ts ∧
      res.length = points.length ∧
      ∀ (k : Nat) (P : Pt) (d i : Nat), points[k]? = some P → Reduced c P →
        toPoint c P = d • Gp c → i < 2 ^ 32 →
        ((∃ j, 8 * j + 32 ≤ bitLength c.n ∧ d = i * 2 ^ (8 * j)) ∨
         (∃ r, 2 ≤ r ∧ r ≤ bitLength c.n / 32 ∧ d = i * ((2 ^ (32 * r) - 1) / (2 ^ 32 - 1)))) →
        ∃ v : Int, res[k]? = some (some v) ∧ v • Gp c = toPoint c P ∧
          (addOrderOf (Gp c) = c.n → (v - d) % (c.n : Int) = 0) := by
  obtain ⟨res, st', h1, h2, h3, h4, h5⟩ := extendedBatchDLB_complete c hv.good hv.gOn hv.gRed hn hNG
    hmu (2 ^ 32) st V hst points hpts ts m hts hm
  refine ⟨res, st', h1, h2, h3, h4, ?_⟩
  intro k P d i hP hPr hPd hi hform
  obtain ⟨mu, hmem, hd⟩ : ∃ mu, mu ∈ extMultipliers c ∧ d = i * mu := by
    rcases hform with ⟨j, hj, hd⟩ | ⟨r, hr2, hr, hd⟩
    · exact ⟨_, pow_mem_extMultipliers c j hj, hd⟩
    · exact ⟨_, repUnit_mem_extMultipliers c r hr2 hr, by rw [repUnit_eq]; exact hd⟩
  obtain ⟨v, hv1, hv2⟩ := h5 k P d i mu hP hPr hPd hmem hd hi
  refine ⟨v, hv1, hv2, fun hord => ?_⟩
  have h0 : (v - d) • Gp c = 0 := by rw [sub_zsmul, hv2, hPd, natCast_zsmul]; simp
  have := addOrderOf_dvd_iff_zsmul_eq_zero.mpr h0
  rw [hord] at this
  exact Int.emod_eq_zero_of_dvd this

end

/-- the hypothesis `N • P = 0` of `extendedBatchDL_sound` is needed. Curve `y² = x³ + x` over
`p = 4N - 1`, subgroup of prime order `N = 1042515029291` (40 bits, cofactor 4); the 2-torsion point
`(0, 0)` is on the curve but not in the subgroup (`N • P = P ≠ ∞`); ExtendedBatchDL (here with the
literal `2**32` replaced by 4 so that the kernel can evaluate it; the real function returns the same
`[0]` for this point, see the note in evidence/C10.json) records the value `0`, and `0 • G = ∞ ≠ P`:
the multiplier `2^8` has an even inverse, which sends `P` to ∞, for which BatchDL answers `0`. -/
def ssCurve : Curve := ⟨1, 0, 4170060117163, 775860970346, 1419880254231, 1042515029291, 4⟩

theorem extended_needs_subgroup :
    onCurve ssCurve (.aff 0 0) = true ∧
    multiply ssCurve (.aff 0 0) ssCurve.n = .ok (.aff 0 0) ∧
    ((extendedBatchDLB listImpl ssCurve 4 (StateG.init listImpl) [.aff 0 0] 2 1).toOption.map Prod.fst)
      = some [some 0] ∧
    multiply ssCurve ssCurve.g 0 = .ok .inf ∧
    onCurve ssCurve ssCurve.g = true ∧ multiply ssCurve ssCurve.g ssCurve.n = .ok .inf := by
  decide +kernel

section
variable (c : Curve) [Fact (Nat.Prime c.p)]

/-! ### BatchDLOfDifferences -/

/-- ★ `diff_sound` (C02). All points of the call on the curve; every state, `max_diff`, oracle value.
Every relation `(Q, k)` recorded for the key at position `i` — the structured form of the string
`"key - (%x, %x) = %d * G"` — names (a representative of) ANOTHER key `Q` of the call
(`other_points ++ points`, position `≠ len(other) + i`), with `P ≠ Q` and `P - Q = k • G`. The
mirrored entry recorded for `Q` is the same statement with `Q - P = (-k) • G`. -/
theorem diff_sound (hv : ValidCurve c) (st : EcState) (points other : List Pt)
    (hL : ∀ Q ∈ other ++ points, onCurve c Q = true) (maxDiff m : Nat)
    (res : List (Option Rel)) (st' : EcState)
    (h : batchDLOfDifferences c st points other maxDiff m = .ok (res, st'))
    (i : Nat) (r : Rel) (hr : res[i]? = some (some r)) :
    ∃ P j Q, points[i]? = some P ∧ (other ++ points)[j]? = some Q ∧ j ≠ other.length + i ∧
      onCurve c (.aff r.qx r.qy) = true ∧ toPoint c (.aff r.qx r.qy) = toPoint c Q ∧
      toPoint c P - toPoint c Q = r.dl • Gp c ∧ toPoint c P ≠ toPoint c Q :=
  batchDLOfDifferences_sound c hv.good hv.gOn st points other hL maxDiff m res st' h i r hr

/-- identical keys are not flagged (the `if x is None: continue` skip): a key all of whose
companions are the same group element carries no relation. -/
theorem diff_identical_not_flagged (hv : ValidCurve c) (st : EcState) (points other : List Pt)
    (hL : ∀ Q ∈ other ++ points, onCurve c Q = true) (maxDiff m : Nat)
    (res : List (Option Rel)) (st' : EcState)
    (h : batchDLOfDifferences c st points other maxDiff m = .ok (res, st'))
    (i : Nat) (P : Pt) (hP : points[i]? = some P)
    (hsame : ∀ Q ∈ other ++ points, toPoint c Q = toPoint c P) : ¬ Flagged res i := by
  rintro ⟨r, hr⟩
  obtain ⟨P', j, Q, hP', hQ, _, _, _, _, hne⟩ := diff_sound c hv st points other hL maxDiff m res st' h i r hr
  rw [hP] at hP'; cases hP'
  exact hne (hsame Q (List.mem_of_getElem? hQ)).symm

/-- ★ `diff_complete`. All points of the call finite, reduced, on the curve; any state satisfying
the invariant; `m ≥ 1` if the table is rebuilt. The call does not raise, the state keeps the
invariant, and EVERY key `P` of `points` for which some other key `Q` of the call (in `points` or in
`other_points`) has `P ≠ Q` and `P - Q = k • G` with `|k| < max(cached table size, max_diff)` is
flagged — hence both keys of such a pair inside `points`. -/
theorem diff_complete (hv : ValidCurve c) (st : EcState) (V : Nat) (hst : StateOK c st V)
    (points other : List Pt) (hL : ∀ Q ∈ other ++ points, GoodPt c Q) (maxDiff m : Nat)
    (hm : st.tableSize < maxDiff → 1 ≤ m) :
    ∃ res st', batchDLOfDifferences c st points other maxDiff m = .ok (res, st') ∧
      res.length = points.length ∧ (∃ V', StateOK c st' V') ∧
      (st'.tableSize = st.tableSize ∨ st'.tableSize = max st.tableSize maxDiff) ∧
      ∀ (i j : Nat) (P Q : Pt), points[i]? = some P → (other ++ points)[j]? = some Q →
        j ≠ other.length + i → toPoint c P ≠ toPoint c Q →
        (∃ k : Int, toPoint c P - toPoint c Q = k • Gp c ∧ k.natAbs < max st.tableSize maxDiff) →
        Flagged res i := by
  obtain ⟨res, st', h1, h2, h3, h4, h5⟩ := batchDLOfDifferences_complete c hv.good hv.gOn hv.gRed st V
    hst points other hL maxDiff m hm
  exact ⟨res, st', h1, h2, h3, h4, fun i j P Q hP hQ hj hne hk => h5 i j P Q hP hQ hj ⟨hne, hk⟩⟩

/-! ### every history of earlier calls on the same curve object -/

omit [Fact (Nat.Prime c.p)] in
/-- ★ `history_invariant`. After ANY sequence of BatchDL / ExtendedBatchDL / BatchDLOfDifferences
calls (none of which raised) on a freshly constructed curve object, with any arguments and any
oracle values: `_table` is `{}` with `_table_size = 0`, or it is exactly
`PointTable(g, _table_size)`; `_table_size` never decreases. -/
theorem history_invariant (ops : List Op) (st : EcState)
    (h : runOps c (StateG.init listImpl) ops = .ok st) : TableIs c st :=
  (runOps_tableIs c ops (tableIs_init c) h).1

omit [Fact (Nat.Prime c.p)] in
theorem history_size_monotone (ops : List Op) (st st' : EcState) (hst : TableIs c st)
    (h : runOps c st ops = .ok st') : TableIs c st' ∧ st.tableSize ≤ st'.tableSize :=
  runOps_tableIs c ops hst h

/-- … and that invariant is what the completeness theorems ask of the state. -/
theorem history_stateOK (hv : ValidCurve c) (ops : List Op) (st : EcState)
    (h : runOps c (StateG.init listImpl) ops = .ok st) : ∃ V, StateOK c st V :=
  stateOK_of_tableIs c hv.good hv.gOn (history_invariant c ops st h)

/-- ★ `history_monotone`. Whatever was called before on the same curve object, BatchDL finds what it
is guaranteed to find from the fresh state: after any history, for any bound `n`, requested size
`ts ≥ 1` and on-curve point list, the call does not raise and every reduced `P = x • G` with
`0 ≤ x < n` gets an entry `some v`, `v • G = P`. (Same for `extended_complete` / `diff_complete`
through `history_stateOK`.) -/
theorem history_monotone (hv : ValidCurve c) (ops : List Op) (st : EcState)
    (h : runOps c (StateG.init listImpl) ops = .ok st) (points : List Pt)
    (hpts : ∀ P ∈ points, onCurve c P = true) (n ts m : Nat) (hts : 1 ≤ ts)
    (hm : st.tableSize < ts → 1 ≤ m) :
    ∃ res st', batchDL c st points n ts m = .ok (res, st') ∧ TableIs c st' ∧
      List.Forall₂ (fun P r => ∀ x : Nat, Reduced c P → x < n → toPoint c P = x • Gp c →
        ∃ v : Int, r = some v ∧ v • Gp c = toPoint c P) points res := by
  obtain ⟨V, hV⟩ := history_stateOK c hv ops st h
  obtain ⟨res, st', h1, _, _, _, h5⟩ := batchDL_complete c hv st V hV points hpts n ts m hts hm
  have hst' : TableIs c st' := by
    have : runOps c st [Op.dl points n ts m] = .ok st' := by
      simp only [runOps, runOp, h1, Except.map]
    exact (runOps_tableIs c _ (history_invariant c ops st h) this).1
  refine ⟨res, st', h1, hst', h5.imp ?_⟩
  intro P r hr x hPr hx hPx
  obtain ⟨v, a, b, _⟩ := hr x hPr hx hPx
  exact ⟨v, a, b⟩

/-- the literal superset statement — "every entry found from the fresh state is found from every
later state" for the SAME call — is NOT asserted: for an arbitrary value of the PointTable split `m`
a table of requested size `ts` also holds the `ceil(ts/m)·m - ts` multiples beyond `ts`, a later
(larger) table built with another split may lack some of them, and a log outside `[0, n)` that was
found through such an entry can then be missed. With the real `m = int(math.sqrt(ts))` the covered
range is monotone in `ts`; that is a statement about floats and stays outside the theorems
(`history_superset_fails_for_some_split` is the kernel-checked counter-example for a split that the
float would not produce). What IS proved is `history_monotone`: everything BatchDL guarantees from the fresh state it guarantees
from every later state. (harness/corr/c10.py compares fresh / after-small / after-large answers on
the implementation exhaustively on toy curves.) -/
def history_superset : Prop :=
  ∀ (ops : List Op) (st : EcState), runOps c (StateG.init listImpl) ops = .ok st →
  ∀ (points : List Pt) (n ts m : Nat) (res0 res : List (Option Int)) (st0 st' : EcState),
    batchDL c (StateG.init listImpl) points n ts m = .ok (res0, st0) →
    batchDL c st points n ts m = .ok (res, st') →
    List.Forall₂ (fun r0 r => r0.isSome → r.isSome) res0 res

/-! ### the nine named curves -/

/-- a curve passing the kernel-evaluated parameter check (all nine named curves, `C11.*_params`)
satisfies the hypotheses used above. -/
theorem valid_of_paramsOK (h : c.paramsOK = true) :
    ValidCurve c ∧ 2 ≤ c.n ∧ c.n • Gp c = 0 ∧ (Nat.Prime c.n → addOrderOf (Gp c) = c.n) := by
  obtain ⟨h1, h2, _, h4, _, h6⟩ := generator_of_paramsOK c h
  obtain ⟨h7, h8⟩ := reduced_of_paramsOK c h
  exact ⟨⟨h1, h2, h7⟩, h8, h4, h6⟩

end

/-- every ExtendedBatchDL multiplier is invertible modulo the group order of each named curve, so
`gmpy.invert` never raises there (kernel-evaluated gcds on the regenerated constants). -/
theorem named_multipliers_invertible :
    MultipliersOK secp256r1 ∧ MultipliersOK secp384r1 ∧ MultipliersOK secp192r1 ∧
    MultipliersOK secp224r1 ∧ MultipliersOK secp521r1 ∧ MultipliersOK secp256k1 ∧
    MultipliersOK brainpoolP256r1 ∧ MultipliersOK brainpoolP384r1 ∧ MultipliersOK brainpoolP512r1 :=
  ⟨multipliersOK_of_b secp256r1_multipliersOK, multipliersOK_of_b secp384r1_multipliersOK,
   multipliersOK_of_b secp192r1_multipliersOK, multipliersOK_of_b secp224r1_multipliersOK,
   multipliersOK_of_b secp521r1_multipliersOK, multipliersOK_of_b secp256k1_multipliersOK,
   multipliersOK_of_b brainpoolP256r1_multipliersOK, multipliersOK_of_b brainpoolP384r1_multipliersOK,
   multipliersOK_of_b brainpoolP512r1_multipliersOK⟩

/-- the multiplier list is exactly the one of the property: `2^(8j)` for `8j ≤ bits - 32` and the
repunits `(2^(32r) - 1)/(2^32 - 1)` for `2 ≤ r ≤ bits // 32`. -/
theorem multipliers_spec (c : Curve) : extMultipliers c =
    (List.range ((bitLength c.n - 31 + 7) / 8)).map (fun k => 2 ^ (8 * k)) ++
    (List.range (bitLength c.n / 32 + 1 - 2)).map (fun k => (2 ^ (32 * (k + 2)) - 1) / (2 ^ 32 - 1)) :=
  extMultipliers_eq c

/-! ### check level: CheckWeakECPrivateKey, CheckECKeySmallDifference

`f` is `CURVE_FACTORY.items()` (unique ids), `sts` the `_table` state of each curve object, `orc` /
`ms` the float-oracle values of each curve's search. `WKHyp` / `SDHyp` say, entry by entry: the
curve object satisfies `CurveHyp` (field prime, `paramsOK`, invertible multipliers —
`curve_factory_hyp` for the regenerated factory), its state is reachable (`TableIs`), the keys of
its batch are on the curve (for the difference check also reduced), oracle values `≥ 1` where a
table is (re)built. Keys of every curve are interleaved arbitrarily in `keys`. -/

/-- ★ CheckWeakECPrivateKey. The check does not raise; keys whose curve type is unknown / `None`
get no result; every other key gets a result `kv` with `WeakKeyOK`: `result` is true exactly when a
`DISCRETE_LOG` is attached; for a valid point (`n • P = ∞`) the attached value `v` satisfies
`v • G = P` (C02); and EVERY key whose private key is a 32-bit value shifted by a multiple of 8 bits
(within the order's bit length) or a 32-bit word repeated `r ≥ 2` times is flagged with a
`DISCRETE_LOG` `v`, `v • G = P`, `v ≡ d (mod n)` — whatever other keys (same or other curves) are
in the batch and whatever was searched before on the same curve objects. -/
theorem checkWeakECPrivateKey_spec (f : Factory) (sts : List EcState) (orc : List (Nat × Nat))
    (keys : List ECKey) (hnd : (f.map (·.id)).Nodup) (hh : WKHyp keys f sts orc) :
    ∃ res sts', checkWeakECPrivateKey f sts orc keys = .ok (res, sts') ∧
      res.length = keys.length ∧ StatesOK f sts' ∧
      (∀ (p : Nat) (k : ECKey), keys[p]? = some k → factoryGet f k.curveType = none →
        res[p]? = some none) ∧
      (∀ (p : Nat) (k : ECKey) (c : Curve), keys[p]? = some k →
        factoryGet f k.curveType = some c →
        ∃ kv hp, res[p]? = some (some kv) ∧ WeakKeyOK c hp k kv) := by
  obtain ⟨res, sts', h1, h2, h3, h4, h5⟩ := weakKeyLoop_spec keys f sts orc
    (List.replicate keys.length none) hnd hh (by simp)
  refine ⟨res, sts', h1, h2, h3, ?_, ?_⟩
  · intro p k hk hget
    rw [h4 p k hk ((factoryGet_none_iff hnd _).mp hget), List.getElem?_replicate]
    have : p < keys.length := by
      by_contra hge; rw [List.getElem?_eq_none (by omega)] at hk; cases hk
    rw [if_pos this]
  · intro p k c hk hget
    obtain ⟨e, he, hid, hcur⟩ := factoryGet_mem hget
    exact h5 p k e c hk he hid hcur

/-- ★ CheckECKeySmallDifference(max_diff). The check does not raise; keys of unknown / `None` curves
get no result; every other key (batch position `p`, curve `c`) gets a result `kv` with
`SmallDiffOK`: `result` is true exactly when a `DISCRETE_LOG_DIFF` relation is attached; an attached
relation `(Q, k)` names ANOTHER key of the batch on the same curve, `Q ≠ P`, with `P - Q = k • G`
(C02); and if some other key of the batch on the same curve has `P - Q = k • G`, `P ≠ Q`,
`|k| < max(cached table size, max_diff)`, the key IS flagged — so both keys of such a pair are,
and identical keys alone are not. -/
theorem checkECKeySmallDifference_spec (f : Factory) (sts : List EcState) (ms : List Nat)
    (keys : List ECKey) (maxDiff : Nat) (hnd : (f.map (·.id)).Nodup)
    (hh : SDHyp keys maxDiff f sts ms) :
    ∃ res sts', checkECKeySmallDifference f sts ms keys maxDiff = .ok (res, sts') ∧
      res.length = keys.length ∧ StatesOK f sts' ∧
      (∀ (p : Nat) (k : ECKey), keys[p]? = some k → factoryGet f k.curveType = none →
        res[p]? = some none) ∧
      (∀ (p : Nat) (k : ECKey) (e : FEntry) (c : Curve), keys[p]? = some k → e ∈ f →
        e.id = k.curveType → e.curve = some c →
        ∃ kv hp, res[p]? = some (some kv) ∧
          SmallDiffOK c hp keys (max (sizeOf f sts e) maxDiff) p k kv) := by
  obtain ⟨res, sts', h1, h2, h3, h4, h5⟩ := smallDiffLoop_spec keys maxDiff f sts ms
    (List.replicate keys.length none) hnd hh (by simp)
  refine ⟨res, sts', h1, h2, h3, ?_, h5⟩
  intro p k hk hget
  rw [h4 p k hk ((factoryGet_none_iff hnd _).mp hget), List.getElem?_replicate]
  have : p < keys.length := by
    by_contra hge; rw [List.getElem?_eq_none (by omega)] at hk; cases hk
  rw [if_pos this]

/-- the factory regenerated from `ec_util.CURVE_FACTORY` meets the side conditions: unique ids, and
`CurveHyp` for each of its nine curves once the nine field moduli are prime (premise of this
statement; discharged from the Pratt certificates of Props/C11Primes in
`curve_factory_hyp_certified`, Props/C10Cert.lean). -/
theorem curve_factory_hyp :
    (regenFactory.map (·.id)).Nodup ∧
    ((∀ e ∈ regenFactory, ∀ c, e.curve = some c → Nat.Prime c.p) →
      ∀ e ∈ regenFactory, ∀ c, e.curve = some c → CurveHyp c) :=
  ⟨regenFactory_nodup, regenFactory_curveHyp⟩

/-! ### the native driver runs the same function

The correspondence harness talks to a driver that stores `_table` in a `Std.HashMap` (tables of
2^16 … 2^19 entries for ExtendedBatchDL) and receives the state as the token `(size, m)`. -/

/-- every stateful operation of the hash-map instance returns the same exception, or the same result
and a state that answers every lookup alike, as the association-list instance the theorems above
are about — from related states, for every input. -/
theorem driver_model_agree (c : Curve) {s : StateG XTable} {t : StateG HTable} (h : SimSt s t) :
    (∀ points n ts m, SimRes (batchDLG listImpl c s points n ts m) (batchDLG hashImpl c t points n ts m)) ∧
    (∀ points ts m, SimRes (extendedBatchDLG listImpl c s points ts m)
      (extendedBatchDLG hashImpl c t points ts m)) ∧
    (∀ points other maxDiff m, SimRes (batchDLOfDifferencesG listImpl c s points other maxDiff m)
      (batchDLOfDifferencesG hashImpl c t points other maxDiff m)) :=
  driver_agrees c h

theorem driver_model_agree_checks (f : Factory) {ss : List (StateG XTable)}
    {ts : List (StateG HTable)} (h : SimSts ss ts) (keys : List ECKey) :
    (∀ orc, SimResL (checkWeakECPrivateKeyG listImpl f ss orc keys)
      (checkWeakECPrivateKeyG hashImpl f ts orc keys)) ∧
    (∀ ms maxDiff, SimResL (checkECKeySmallDifferenceG listImpl f ss ms keys maxDiff)
      (checkECKeySmallDifferenceG hashImpl f ts ms keys maxDiff)) :=
  driver_agrees_checks f h keys

/-- the state token: a reachable state is the fresh one or `PointTable(g, size)` for some split `m`
(`history_invariant`), and the driver's rebuild of that table from `(size, m)` is related to it. -/
theorem driver_token_state (c : Curve) (st : EcState) (h : TableIs c st) :
    SimSt st (StateG.init hashImpl) ∨
    ∃ m tb, pointTableG hashImpl c c.g st.tableSize m = .ok tb ∧ SimSt st ⟨st.tableSize, tb⟩ := by
  rcases h with ⟨h1, h2⟩ | ⟨m, _, _, ht⟩
  · left
    refine ⟨h1, ?_⟩
    rw [h2]; exact sim_empty
  · right
    have := pointTableG_sim c c.g st.tableSize m
    rw [pointTableG_list, ht] at this
    cases hh : pointTableG hashImpl c c.g st.tableSize m with
    | error e => rw [hh] at this; exact this.elim
    | ok tb => rw [hh] at this; exact ⟨m, tb, hh, rfl, this⟩

/-! ### non-vacuity: the hypotheses are met by concrete non-trivial inputs -/

/-- toy curve `y² = x³ - 3x + 12` over `GF(113)`, generator `(42, 80)` of prime order `101`. -/
def toy : Curve := ⟨-3, 12, 113, 42, 80, 101, 1⟩

/-- evaluation of `history_superset` on `toy`: history `[BatchDL([], 6)]` with table size 6 built
with split 2 (multiples 0…5); the call `BatchDL([16·G], 1)` with requested size 5 and the
(dishonest: `int(sqrt(5)) = 2`) split 4 builds, from the fresh state, a table of the multiples 0…7 and
finds `16 = 1·9 + 7`; from the later state the cached table is kept and `16` is missed. -/
def supersetWitness : Bool :=
  match runOps toy (StateG.init listImpl) [Op.dl [] 6 6 2] with
  | .ok st =>
    (match batchDL toy (StateG.init listImpl) [.aff 39 51] 1 5 4, batchDL toy st [.aff 39 51] 1 5 4 with
     | .ok (res0, _), .ok (res, _) => res0 == [some 16] && res == [none]
     | _, _ => false)
  | .error _ => false

/-- … so the literal superset statement is FALSE when the PointTable split may be any value `≥ 1`
(here for a log outside `[0, n)`); it can only hold for the real float `m = int(math.sqrt(ts))`.
`history_monotone` is the part that holds for every oracle value. -/
theorem history_superset_fails_for_some_split : ¬ history_superset toy := by
  intro h
  have key : supersetWitness = true := by decide +kernel
  unfold supersetWitness at key
  cases hst : runOps toy (StateG.init listImpl) [Op.dl [] 6 6 2] with
  | error e => rw [hst] at key; simp at key
  | ok st =>
    rw [hst] at key
    simp only at key
    cases h0 : batchDL toy (StateG.init listImpl) [.aff 39 51] 1 5 4 with
    | error e => rw [h0] at key; simp at key
    | ok r0 =>
      cases h1 : batchDL toy st [.aff 39 51] 1 5 4 with
      | error e => rw [h0, h1] at key; simp at key
      | ok r1 =>
        obtain ⟨res0, st0⟩ := r0
        obtain ⟨res, st'⟩ := r1
        rw [h0, h1] at key
        simp only [Bool.and_eq_true, beq_iff_eq] at key
        obtain ⟨e0, e1⟩ := key
        subst e0; subst e1
        have := h [Op.dl [] 6 6 2] st hst [.aff 39 51] 1 5 4 _ _ st0 st' h0 h1
        cases this with
        | cons hh _ => exact absurd (hh rfl) (by simp)

example : toy.paramsOK = true := by decide +kernel
example : multipliersOKb secp256r1 = true ∧ (extMultipliers secp256r1).length = 36 := by decide +kernel
/-- `[5G, 17G, ∞, 33G]`, bound 40, `ts = int(sqrt(160)) = 12`, `m = 3`, fresh state. -/
example : (batchDL toy (StateG.init listImpl) [.aff 112 63, .aff 25 9, .inf, .aff 58 5] 40 12 3).toOption.map
    Prod.fst = some [some 5, some 17, some 0, some 33] := by decide +kernel
/-- `-5 • G = (112, -63 mod 113)` is found through the `-dl` branch. -/
example : (batchDL toy (StateG.init listImpl) [.aff 112 50] 40 6 2).toOption.map
    Prod.fst = some [some (-5)] := by decide +kernel
/-- keys `20, 23, 20, 60` and history key `58`, `max_diff = 4`: `20 ~ 23` (both flagged, mirrored
signs), the two identical keys `20` do not flag each other, `60 ~ 58` through the history list. -/
example : (batchDLOfDifferences toy (StateG.init listImpl)
    [.aff 60 51, .aff 62 96, .aff 60 51, .aff 99 94] [.aff 17 44] 4 2).toOption.map Prod.fst =
    some [some ⟨62, 96, -3⟩, some ⟨60, 51, 3⟩, some ⟨62, 96, -3⟩, some ⟨17, 44, 2⟩] := by
  decide +kernel
example : (batchDL toy (StateG.init listImpl) [] 40 0 0).map Prod.fst = .error .indexError := by
  decide +kernel
/-- check level: factory `{5: toy, 6: None}`, keys of curve 5 interleaved with a `None`-curve key and
an unknown id; `max_diff = 4`. -/
example : (checkECKeySmallDifference [⟨5, some toy⟩, ⟨6, none⟩]
    [StateG.init listImpl, StateG.init listImpl] [2, 2]
    [⟨5, 60, 51⟩, ⟨6, 1, 1⟩, ⟨5, 62, 96⟩, ⟨9, 1, 2⟩, ⟨5, 60, 51⟩] 4).toOption.map Prod.fst =
    some [some ⟨true, some (.diff ⟨62, 96, -3⟩)⟩, none, some ⟨true, some (.diff ⟨60, 51, 3⟩)⟩, none,
      some ⟨true, some (.diff ⟨62, 96, -3⟩)⟩] := by decide +kernel
/-- the hypotheses of the check-level theorems are satisfiable. -/
example : SDHyp [⟨5, 60, 51⟩, ⟨6, 1, 1⟩, ⟨5, 62, 96⟩] 4 [⟨5, some toy⟩, ⟨6, none⟩]
    [StateG.init listImpl, StateG.init listImpl] [2, 2] := by
  refine ⟨fun c hc => ?_, ⟨fun c hc => (by cases hc), trivial⟩⟩
  cases hc
  exact ⟨⟨by decide +kernel, by decide +kernel, by decide +kernel⟩, tableIs_init _,
    by decide +kernel, fun _ => by decide⟩
example : WKHyp [⟨5, 112, 63⟩] [⟨5, some toy⟩] [StateG.init listImpl] [(1, 1)] := by
  refine ⟨fun c hc => ?_, trivial⟩
  cases hc
  exact ⟨⟨by decide +kernel, by decide +kernel, by decide +kernel⟩, tableIs_init _,
    by decide +kernel, fun _ => ⟨Nat.le_refl _, Nat.le_refl _⟩⟩

end Paranoid.C10
