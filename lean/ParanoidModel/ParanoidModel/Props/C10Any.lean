/-
Props/C10Any.lean — C10 "Small and structured discrete logarithms are always found", clauses 1 and 2
"for every batch": the statements about a key need THAT key on its curve (and reduced), not its
neighbours (review finding F2, last sentence: `C10.checkWeakECPrivateKey_spec` assumes `WKHyp` — ALL
keys of the batch on known curves are on the curve).

Real code (harness/corr/c18ec.py, tag `valid-among-degenerate`): a structured key between the keys
`(1, p)`, `(0,0)`, `(5,7)`, `(x, y+1)`, `(2^600, 2^600+1)`, `(p, p)` of the same curve is flagged with
its private key; a close pair among them is flagged with relations naming each other.

NOT generalised here: `CheckECKeySmallDifference` completeness and the truth of the recorded
`DISCRETE_LOG_DIFF` relation (C02 clause 3) are still proved only when every key of the curve group is
on the curve and reduced (`C10.checkECKeySmallDifference_spec`, `SDHyp`); with degenerate neighbours
they are search-level (the tag above).
-/
import ParanoidModel.Proofs.EcTotalComplete
import ParanoidModel.Proofs.EcTotalAll
import ParanoidModel.Props.C16EcAll
namespace Paranoid.C10Any
open Paranoid Paranoid.Ec Paranoid.Bsgs WeierstrassCurve

/-- ★ `BatchDL(points, n)` on ANY list of points (valid curve object, a table state satisfying the
table invariant, `table_size ≥ 1`): it returns, and for every entry whose point is on the curve,
reduced and equal to `x • G` with `x < n`, a value `v` with `v • G = P` is returned (`v = x` under the
no-wrap condition) — whatever the other points are. -/
theorem batchDL_every_list (c : Curve) [Fact (Nat.Prime c.p)] (hc : c.Good)
    (hG : onCurve c c.g = true) (hGr : Reduced c c.g) (st : EcState) (V : Nat)
    (hst : StateOK c st V) (points : List Pt) (n ts m : Nat) (hts : 1 ≤ ts)
    (hm : st.tableSize < ts → 1 ≤ m) :
    ∃ res st', batchDL c st points n ts m = .ok (res, st') ∧
      StateOK c st' (rangeAfter st V ts m) ∧ st'.tableSize = max st.tableSize ts ∧
      (ts ≤ st.tableSize → st' = st) ∧
      List.Forall₂ (fun P r => ∀ x : Nat, onCurve c P = true → Reduced c P → x < n →
        toPoint c P = x • Gp c →
        ∃ v : Int, r = some v ∧ v • Gp c = toPoint c P ∧
          (addOrderOf (Gp c) = c.n → 2 * n + (2 * ts - 1) + rangeAfter st V ts m ≤ c.n → v = (x : Int)))
        points res :=
  batchDL_complete_any c hc hG hGr st V hst points n ts m hts hm

/-- ★ `CheckWeakECPrivateKey.Check` on EVERY batch: valid curve objects with distinct ids, reachable
`_table` states, float oracles `≥ 1` for the non-empty groups (`WKHyp'`: nothing about the keys).
One slot per key; no entry for a key on an unknown curve; for a key on a known curve an entry `kv`
with `WeakKeyOK'`: IF that key is on its curve then (C02) a recorded `DISCRETE_LOG` `v` satisfies
`v • G = P` when `n • P = ∞`, and (C10) if it is reduced and its private key is a 32-bit value
shifted by a multiple of 8 bits or repeated ≥ 2 times, it is flagged with a value congruent to the
key modulo `n` — whatever the OTHER keys of the batch are (off the curve, unreduced, `(0,0)`,
`≥ p`, duplicates, other curves, unknown ids). -/
theorem checkWeakECPrivateKey_every_batch (f : Bsgs.Factory) (sts : List EcState)
    (orc : List (Nat × Nat)) (keys : List ECKey) (hnd : (f.map (·.id)).Nodup)
    (hh : WKHyp' keys f sts orc) :
    ∃ res sts', checkWeakECPrivateKey f sts orc keys = .ok (res, sts') ∧ res.length = keys.length ∧
      StatesOK f sts' ∧
      (∀ (p : Nat) (k : ECKey), keys[p]? = some k → factoryGet f k.curveType = none →
        res[p]? = some none) ∧
      (∀ (p : Nat) (k : ECKey) (c : Curve), keys[p]? = some k → factoryGet f k.curveType = some c →
        ∃ kv hp, res[p]? = some (some kv) ∧ WeakKeyOK' c hp k.pt kv) :=
  checkWeakECPrivateKey_spec_any f sts orc keys hnd hh

/-- the earlier hypothesis implies the new one. -/
theorem wkHyp_weaken {keys : List ECKey} {f : Bsgs.Factory} {sts : List EcState}
    {os : List (Nat × Nat)} (h : WKHyp keys f sts os) : WKHyp' keys f sts os := h.weaken

/-! ### Non-vacuity on named curves, with degenerate neighbours -/

/-- secp256r1: `(1, p)`, `(1, 2)`, `(0,0)` (none of them on the curve); secp256k1: `(p, p)`, `G`; an
unknown curve id. -/
def mixedKeys : List ECKey :=
  [⟨2, 1, secp256r1.p⟩, ⟨2, 1, 2⟩, ⟨2, 0, 0⟩, ⟨6, secp256k1.p, secp256k1.p⟩,
   ⟨6, secp256k1.gx.toNat, secp256k1.gy.toNat⟩, ⟨0, 1, 2⟩]

/-- `WKHyp'` holds on `CURVE_FACTORY` with fresh curve objects for a batch in which four of the five
keys on known curves are not valid keys; `WKHyp` does not (`(1, p)` is not on secp256r1). -/
example : WKHyp' mixedKeys EcAll.ecFactory EcAll.freshTables (EcAll.ecFactory.map fun _ => (3, 1)) :=
  wkHyp'_of mixedKeys _ _ _ EcAll.ecFactory_hyp (EcAll.statesOK_init _)
    (EcAll.forall₂_const (fun _ => (3, 1)) EcAll.ecFactory (fun _ _ _ => ⟨by decide, by decide⟩))

end Paranoid.C10Any
