/-
Props/C10Cert.lean — the check-level theorems of Props/C10.lean for `CURVE_FACTORY` as regenerated
from /repo, with

* the primality premise of `curve_factory_hyp` discharged (Pratt certificates, Props/C11Primes):
  `curve_factory_hyp_certified`;
* the soundness clause of CheckWeakECPrivateKey restated for keys that HAVE a private key
  (`P = d • G`, any integer `d`) instead of `n • P = ∞`: `checkWeakECPrivateKey_spec_priv`
  (`WeakKeyOKPriv`).  What stays unproved is only "every point accepted by `IsValidPublicKey` on a
  cofactor-1 named curve has `n • P = ∞`", i.e. `#E(F_p) = n` for the nine named curves (standards;
  no point counting in Mathlib);
* non-vacuity of `WKHyp` / `SDHyp` on NAMED curves with a NON-fresh `PointTable` in the state.
-/
import ParanoidModel.Props.C10
import ParanoidModel.Proofs.EcPrivKey
import ParanoidModel.Proofs.EcAllPrimes
namespace Paranoid.C10
open Paranoid Paranoid.Ec Paranoid.Bsgs WeierstrassCurve

/-- ★ the factory regenerated from `ec_util.CURVE_FACTORY`: unique ids, and `CurveHyp` (field
modulus prime, evaluated `paramsOK`, invertible ExtendedBatchDL multipliers) for each of its nine
curve objects — NO hypothesis. -/
theorem curve_factory_hyp_certified :
    (regenFactory.map (·.id)).Nodup ∧ ∀ e ∈ regenFactory, ∀ c, e.curve = some c → CurveHyp c :=
  ⟨regenFactory_nodup, EcAll.ecFactory_curveHyp⟩

/-- the group orders of the nine curve objects are prime (so `addOrderOf G = n`,
`valid_of_paramsOK`). -/
theorem curve_factory_orders_prime :
    ∀ e ∈ regenFactory, ∀ c, e.curve = some c → Nat.Prime c.n := EcAll.orderPrimes

/-- ★ CheckWeakECPrivateKey, soundness for keys with a private key.  Under the hypotheses of
`checkWeakECPrivateKey_spec` (`WKHyp`) and prime group orders: the check returns, and every key on a
known curve `c` gets a result `kv` with `WeakKeyOK` AND `WeakKeyOKPriv`: if the key is
`P = d • G` for ANY integer `d`, an attached `DISCRETE_LOG` `v` satisfies `v • G = P` and
`v ≡ d (mod n)` — no `n • P = ∞` hypothesis, whatever the other keys of the batch. -/
theorem checkWeakECPrivateKey_spec_priv (f : Factory) (sts : List EcState) (orc : List (Nat × Nat))
    (keys : List ECKey) (hnd : (f.map (·.id)).Nodup) (hh : WKHyp keys f sts orc)
    (hord : ∀ e ∈ f, ∀ c, e.curve = some c → Nat.Prime c.n) :
    ∃ res sts', checkWeakECPrivateKey f sts orc keys = .ok (res, sts') ∧
      res.length = keys.length ∧ StatesOK f sts' ∧
      (∀ (p : Nat) (k : ECKey) (c : Curve), keys[p]? = some k →
        factoryGet f k.curveType = some c →
        ∃ kv hp, res[p]? = some (some kv) ∧ WeakKeyOK c hp k kv ∧ WeakKeyOKPriv c hp k kv) := by
  obtain ⟨res, sts', h1, h2, h3, _, h5⟩ := checkWeakECPrivateKey_spec f sts orc keys hnd hh
  refine ⟨res, sts', h1, h2, h3, ?_⟩
  intro p k c hk hget
  obtain ⟨kv, hp, hkv, hok⟩ := h5 p k c hk hget
  obtain ⟨e, he, _, hcur⟩ := factoryGet_mem hget
  have hch := wkHyp_curveHyp hh e he c hcur
  exact ⟨kv, hp, hkv, hok, weakKeyOK_priv hp hch.params (hord e he c hcur) hok⟩

/-! ### non-vacuity on named curves, non-fresh state -/

/-- `PointTable(G, 5)` of secp256r1 with split `m = int(sqrt(5)) = 2`: the x-coordinates of
`0·G … 5·G` (six entries: `ceil(5/2)·2`), evaluated by the kernel. -/
def tbl256 : XTable :=
  [(none, 0), (some 48439561293906451759052585252797914202762949526041747995844080717082404635286, 1),
   (some 56515219790691171413109057904011688695424810155802929973526481321309856242040, 2),
   (some 42877656971275811310262564894490210024759287182177196162425349131675946712428, 3),
   (some 102369864249653057322725350723741461599905180004905897298779971437827381725266, 4),
   (some 36794669340896883012101473439538929759152396476648692591795318194054580155373, 5)]

theorem tbl256_is : pointTable secp256r1 secp256r1.g 5 2 = .ok tbl256 := by decide +kernel

/-- a state an earlier `BatchDL` / `BatchDLOfDifferences(max_diff = 5)` call leaves on the secp256r1
object. -/
def st256 : EcState := ⟨5, tbl256⟩

theorem st256_tableIs : TableIs secp256r1 st256 := .inr ⟨2, by decide, by decide, tbl256_is⟩

/-- the batch: the generator and `2·G` of secp256r1 (id 2), a key with a `None` curve id (7), the
generator of secp256k1 (id 6), a key with an unknown id. -/
def keysNV : List ECKey :=
  [⟨2, secp256r1.gx.toNat, secp256r1.gy.toNat⟩, ⟨7, 1, 1⟩,
   ⟨6, secp256k1.gx.toNat, secp256k1.gy.toNat⟩, ⟨99, 0, 0⟩,
   ⟨2, 56515219790691171413109057904011688695424810155802929973526481321309856242040,
       3377031843712258259223711451491452598088675519751548567112458094635497583569⟩]

/-- the curve objects: secp256r1 with the cached table `st256`, all others fresh. -/
def stNV (e : FEntry) : EcState := if e.id = 2 then st256 else StateG.init listImpl

theorem keysNV_onCurve : ∀ e ∈ regenFactory, ∀ c, e.curve = some c →
    ∀ P ∈ groupPoints e.id keysNV, onCurve c P = true ∧ Reduced c P := by
  rw [regenFactory_eq]
  decide +kernel

theorem stNV_tableIs : ∀ e ∈ regenFactory, ∀ c, e.curve = some c → TableIs c (stNV e) := by
  intro e he c hc
  rw [regenFactory_eq] at he
  simp only [List.mem_cons, List.not_mem_nil, or_false] at he
  rcases he with rfl | rfl | rfl | rfl | rfl | rfl | rfl | rfl | rfl | rfl | rfl | rfl | rfl | rfl |
    rfl | rfl | rfl | rfl | rfl <;> cases hc
  · exact st256_tableIs
  all_goals exact tableIs_init _

/-- ★ `WKHyp` holds for the REAL factory (nine named curves, no primality hypothesis), a batch
mixing two named curves, a `None` id and an unknown id, and a NON-fresh cached `PointTable` on the
secp256r1 object — so `checkWeakECPrivateKey_spec` / `_spec_priv` apply to it. -/
theorem wkHyp_named_nonfresh :
    WKHyp keysNV regenFactory (regenFactory.map stNV) (regenFactory.map fun _ => (3, 1)) :=
  wkHyp_map keysNV stNV (3, 1) ⟨by decide, by decide⟩ regenFactory fun e he c hc =>
    ⟨EcAll.ecFactory_curveHyp e he c hc, stNV_tableIs e he c hc,
      fun P hP => (keysNV_onCurve e he c hc P hP).1⟩

/-- ★ the same for `SDHyp` (`max_diff = 2**24`, float `int(sqrt(2**24)) = 4096`): hypotheses of
`checkECKeySmallDifference_spec` on the real factory from a non-fresh state. -/
theorem sdHyp_named_nonfresh :
    SDHyp keysNV (2 ^ 24) regenFactory (regenFactory.map stNV) (regenFactory.map fun _ => 4096) :=
  sdHyp_map keysNV (2 ^ 24) stNV 4096 (by decide) regenFactory fun e he c hc =>
    ⟨EcAll.ecFactory_curveHyp e he c hc, stNV_tableIs e he c hc, keysNV_onCurve e he c hc⟩

example : (regenFactory.map stNV).map (·.tableSize) =
    [5, 0, 0, 0, 0, 0, 0, 0, 0, 0, 0, 0, 0, 0, 0, 0, 0, 0, 0] := by decide +kernel

end Paranoid.C10
